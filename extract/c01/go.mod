module c01extract

go 1.18
