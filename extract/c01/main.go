// Extractor for property C01: regenerates lean/Kap/Gen/C01.lean from the Go SOURCE of
// alert.go, pipeline/alert.go and alert/types.go (go/ast, standard library only).
//
// Extracted:
//   - the alert.Level constants (`OK Level = iota` block) and their order
//   - weightDiff, maxWeight (alert.go) as exact rationals, and from them the two float64 values percentChange
//     starts from, computed the way the Go compiler does (exact constant arithmetic, one rounding)
//   - defaultFlapHistory (pipeline/alert.go) and that newAlertNode initialises History with it
//   - the clamp `if n.History < 2 { n.History = 2 }` of newAlertNode (alert.go)
//   - the boolean guards of alertState.Point, BufferedBatch, addEvent, updateExpired, triggered, updateFlapping,
//     translated expression by expression into Lean `Bool` terms over a record of atoms (`G`)
//
// FAIL CLOSED: a shape that is not recognised becomes `unknownGuard "<go source>"` (an opaque constant no lemma
// can unfold) or a constant `none`, so the dependent theorems stop checking. Nothing is ever defaulted.
// Env: VERIF_REPO (default /repo), VERIF_LEAN (default /verif/lean).
package main

import (
	"bytes"
	"fmt"
	"go/ast"
	"go/parser"
	"go/printer"
	"go/token"
	"math"
	"math/big"
	"os"
	"path/filepath"
	"strconv"
	"strings"
)

var fset = token.NewFileSet()

func src(n ast.Node) string {
	var b bytes.Buffer
	printer.Fprint(&b, fset, n)
	return strings.Join(strings.Fields(b.String()), " ")
}

func leanStr(s string) string {
	var b strings.Builder
	b.WriteByte('"')
	for _, r := range s {
		switch {
		case r == '"':
			b.WriteString("\\\"")
		case r == '\\':
			b.WriteString("\\\\")
		case r < 0x20 || r == 0x7f:
			fmt.Fprintf(&b, "\\x%02x", r)
		default:
			b.WriteRune(r)
		}
	}
	b.WriteByte('"')
	return b.String()
}

func die(format string, a ...interface{}) {
	fmt.Fprintf(os.Stderr, "extract/c01: "+format+"\n", a...)
	os.Exit(1)
}

func parse(path string) *ast.File {
	f, err := parser.ParseFile(fset, path, nil, 0)
	if err != nil {
		die("%v", err)
	}
	return f
}

func funcDecl(f *ast.File, name, recv string) *ast.FuncDecl {
	for _, d := range f.Decls {
		fd, ok := d.(*ast.FuncDecl)
		if !ok || fd.Name.Name != name {
			continue
		}
		if recv == "" && fd.Recv == nil {
			return fd
		}
		if recv != "" && fd.Recv != nil && len(fd.Recv.List) == 1 && src(fd.Recv.List[0].Type) == recv {
			return fd
		}
	}
	return nil
}

// numConst returns the literal of `const name = <number literal>` at file level.
func numConst(f *ast.File, name string) (string, bool) {
	for _, d := range f.Decls {
		gd, ok := d.(*ast.GenDecl)
		if !ok || gd.Tok != token.CONST {
			continue
		}
		for _, s := range gd.Specs {
			vs := s.(*ast.ValueSpec)
			for i, n := range vs.Names {
				if n.Name == name && i < len(vs.Values) {
					if bl, ok := vs.Values[i].(*ast.BasicLit); ok && (bl.Kind == token.INT || bl.Kind == token.FLOAT) {
						return bl.Value, true
					}
					return "", false
				}
			}
		}
	}
	return "", false
}

// levelConsts recognises exactly `const ( A Level = iota ; B ; C ; ... )`.
func levelConsts(f *ast.File) ([]string, bool) {
	for _, d := range f.Decls {
		gd, ok := d.(*ast.GenDecl)
		if !ok || gd.Tok != token.CONST || len(gd.Specs) == 0 {
			continue
		}
		first := gd.Specs[0].(*ast.ValueSpec)
		if first.Type == nil || src(first.Type) != "Level" {
			continue
		}
		if len(first.Names) != 1 || len(first.Values) != 1 || src(first.Values[0]) != "iota" {
			return nil, false
		}
		names := []string{first.Names[0].Name}
		for _, s := range gd.Specs[1:] {
			vs := s.(*ast.ValueSpec)
			if len(vs.Names) != 1 || len(vs.Values) != 0 || vs.Type != nil {
				return nil, false
			}
			names = append(names, vs.Names[0].Name)
		}
		return names, true
	}
	return nil, false
}

// ---- guards -------------------------------------------------------------------------------------

// atoms: Go source of a sub-expression -> Lean term over the record `g : G`.
var atoms = map[string]string{
	"a.n.a.UseFlapping":              "g.useFlap",
	"a.flapping":                     "g.flapping",
	"a.n.a.IsStateChangesOnly":       "g.sco",
	"a.changed":                      "g.changed",
	"a.expired":                      "g.expired",
	"a.n.a.NoRecoveriesFlag":         "g.noRec",
	"a.n.a.AllFlag":                  "g.all",
	"l":                              "g.l",
	"level":                          "g.l",
	"a.history[a.idx]":               "g.cur",
	"a.history[p]":                   "g.prev",
	"a.n.a.StateChangesOnlyDuration": "g.scoDur",
	"t.Sub(a.lastTriggered)":         "g.elapsed",
	"lowestLevel":                    "g.lowest",
	"highestLevel":                   "g.highest",
	"highestPoint == nil":            "g.noHighestPoint",
	"p < a.n.a.FlapLow":              "g.pBelowLow",
	"p > a.n.a.FlapHigh":             "g.pAboveHigh",
}

var levelIndex = map[string]int{}

func tr(e ast.Expr) (string, bool) {
	if t, ok := atoms[src(e)]; ok {
		return t, true
	}
	switch x := e.(type) {
	case *ast.ParenExpr:
		t, ok := tr(x.X)
		return "(" + t + ")", ok
	case *ast.UnaryExpr:
		if x.Op == token.NOT {
			t, ok := tr(x.X)
			return "!(" + t + ")", ok
		}
	case *ast.BinaryExpr:
		l, ok1 := tr(x.X)
		r, ok2 := tr(x.Y)
		if !ok1 || !ok2 {
			return "", false
		}
		switch x.Op {
		case token.LAND:
			return "(" + l + " && " + r + ")", true
		case token.LOR:
			return "(" + l + " || " + r + ")", true
		case token.EQL:
			return "(" + l + " == " + r + ")", true
		case token.NEQ:
			return "(" + l + " != " + r + ")", true
		case token.LSS:
			return "decide (" + l + " < " + r + ")", true
		case token.GTR:
			return "decide (" + l + " > " + r + ")", true
		case token.LEQ:
			return "decide (" + l + " ≤ " + r + ")", true
		case token.GEQ:
			return "decide (" + l + " ≥ " + r + ")", true
		}
	case *ast.SelectorExpr:
		if id, ok := x.X.(*ast.Ident); ok && id.Name == "alert" {
			if i, ok := levelIndex[x.Sel.Name]; ok {
				return fmt.Sprint(i), true
			}
		}
	case *ast.BasicLit:
		if x.Kind == token.INT {
			return x.Value, true
		}
	}
	return "", false
}

func guard(e ast.Expr, why string) string {
	if e == nil {
		return "unknownGuard " + leanStr(why)
	}
	if t, ok := tr(e); ok {
		return t
	}
	return "unknownGuard " + leanStr(src(e))
}

// ifs returns the conditions of the `if` statements directly in `list` that are not `err != nil` checks.
func ifs(list []ast.Stmt) []*ast.IfStmt {
	var out []*ast.IfStmt
	for _, s := range list {
		if is, ok := s.(*ast.IfStmt); ok && src(is.Cond) != "err != nil" {
			out = append(out, is)
		}
	}
	return out
}

// skeleton renders a function body with the recognised guard conditions replaced by <name>: everything else (the
// statements around the guards, their order, what each branch does) must be exactly what the model transcribes.
func skeleton(fd *ast.FuncDecl, holes []ast.Expr, names []string) string {
	body := src(fd.Body)
	for i, h := range holes {
		if h == nil {
			return "unrecognised"
		}
		hs := src(h)
		if !strings.Contains(body, hs) {
			return "unrecognised"
		}
		body = strings.Replace(body, hs, "<"+names[i]+">", 1)
	}
	return body
}

const pointSkeleton = `{ id, err := a.n.renderID(p.Name(), p.GroupID(), p.Tags()) if err != nil { return nil, err } l := a.determineLevel(p, a.currentLevel()) a.addEvent(p.Time(), l) if <pointSuppress> { return nil, nil } if <pointSend> { a.triggered(p.Time()) if <pointWithhold> { return nil, nil } duration := a.duration() event, err := a.n.event( id, p.Name(), p.GroupID(), p.Tags(), p.Fields(), l, p.Time(), duration, p.ToResult(), ) if err != nil { return nil, err } a.n.handleEvent(event) p = p.ShallowCopy() a.augmentTagsWithEventState(p, event.State) a.augmentFieldsWithEventState(p, event.State) return p, nil } return nil, nil }`

const batchSkeleton = `{ begin := b.Begin() id, err := a.n.renderID(begin.Name(), begin.GroupID(), begin.Tags()) if err != nil { return nil, err } if len(b.Points()) == 0 { return nil, nil } lowestLevel := alert.Critical highestLevel := alert.OK var highestPoint edge.BatchPointMessage currentLevel := a.currentLevel() for _, bp := range b.Points() { l := a.determineLevel(bp, currentLevel) if <scanLower> { lowestLevel = l } if <scanHigher> { highestLevel = l highestPoint = bp } } l := lowestLevel if <batchUseHighest> { l = highestLevel } t := highestPoint.Time() if <batchUseBatchTime> { t = begin.Time() } t = t.UTC() a.addEvent(t, l) if <batchSilent> { return nil, nil } a.triggered(t) if <batchWithhold> { return nil, nil } duration := a.duration() event, err := a.n.event(id, begin.Name(), begin.GroupID(), begin.Tags(), highestPoint.Fields(), l, t, duration, b.ToResult()) if err != nil { return nil, err } a.n.handleEvent(event) if a.n.a.LevelTag != "" || a.n.a.LevelField != "" || a.n.a.IdTag != "" || a.n.a.IdField != "" || a.n.a.DurationField != "" || a.n.a.MessageField != "" { b = b.ShallowCopy() points := make([]edge.BatchPointMessage, len(b.Points())) for i, bp := range b.Points() { bp = bp.ShallowCopy() a.augmentTagsWithEventState(bp, event.State) a.augmentFieldsWithEventState(bp, event.State) points[i] = bp } b.SetPoints(points) newBegin := begin.ShallowCopy() a.augmentTagsWithEventState(newBegin, event.State) b.SetBegin(newBegin) } return b, nil }`

func returnsNilNil(b *ast.BlockStmt) bool {
	return len(b.List) == 1 && src(b.List[0]) == "return nil, nil"
}

func main() {
	repo := os.Getenv("VERIF_REPO")
	if repo == "" {
		repo = "/repo"
	}
	leanDir := os.Getenv("VERIF_LEAN")
	if leanDir == "" {
		leanDir = "/verif/lean"
	}
	alertF := parse(filepath.Join(repo, "alert.go"))
	pipeF := parse(filepath.Join(repo, "pipeline", "alert.go"))
	typesF := parse(filepath.Join(repo, "alert", "types.go"))

	var o strings.Builder
	w := func(format string, a ...interface{}) { fmt.Fprintf(&o, format+"\n", a...) }
	w("/- GENERATED by /verif/extract/c01 from alert.go, pipeline/alert.go, alert/types.go — do not edit, not committed. -/")
	w("namespace Kap.C01.Gen")
	w("")
	w("/-- A guard the extractor did not recognise: opaque, so no lemma can look inside (fail closed). -/")
	w("opaque unknownGuard (src : String) : Bool")
	w("")

	// ---- levels
	names, ok := levelConsts(typesF)
	if ok {
		for i, n := range names {
			levelIndex[n] = i
		}
		var q []string
		for _, n := range names {
			q = append(q, leanStr(n))
		}
		w("/-- `const ( OK Level = iota … )` of alert/types.go, in order (value = position). -/")
		w("def levelNames : Option (List String) := some [%s]", strings.Join(q, ", "))
	} else {
		w("def levelNames : Option (List String) := none")
	}
	w("")

	// ---- flapping constants
	wd, ok1 := numConst(alertF, "weightDiff")
	mw, ok2 := numConst(alertF, "maxWeight")
	pc := funcDecl(alertF, "percentChange", "*alertState")
	shapeOK := false
	flapOffset := -1
	if pc != nil && len(pc.Body.List) == 7 {
		// the whole function, statement by statement; the only free part is the start offset of the comparisons
		var got []string
		for _, s := range pc.Body.List {
			got = append(got, src(s))
		}
		fs, isFor := pc.Body.List[4].(*ast.ForStmt)
		shapeOK = got[0] == "l := len(a.history)" && got[1] == "changes := 0.0" &&
			got[2] == "weight := (maxWeight / weightDiff)" && got[3] == "step := (maxWeight - weight) / float64(l-1)" &&
			got[5] == "p := changes / float64(l-1)" && got[6] == "return p" && isFor
		if shapeOK {
			shapeOK = src(fs.Init) == "i := 0" && src(fs.Cond) == "i < l-1" && src(fs.Post) == "i++" && len(fs.Body.List) == 5 &&
				src(fs.Body.List[1]) == "p := c - 1" && src(fs.Body.List[2]) == "if p < 0 { p = l - 1 }" &&
				src(fs.Body.List[3]) == "if a.history[c] != a.history[p] { changes += weight }" && src(fs.Body.List[4]) == "weight += step"
		}
		if shapeOK {
			switch c0 := src(fs.Body.List[0]); {
			case c0 == "c := (i + a.idx) % l":
				flapOffset = 0
			case strings.HasPrefix(c0, "c := (i + a.idx + ") && strings.HasSuffix(c0, ") % l"):
				if v, err := strconv.Atoi(c0[len("c := (i + a.idx + ") : len(c0)-len(") % l")]); err == nil && v >= 0 {
					flapOffset = v
				}
			}
		}
	}
	if shapeOK && flapOffset >= 0 {
		w("/-- percentChange: `for i := 0; i < l-1; i++ { c := (i + a.idx + <this>) mod l; p := c-1 (wrapping); if a.history[c] != a.history[p] { changes += weight }; weight += step }` -/")
		w("def flapStartOffset : Option Nat := some %d", flapOffset)
	} else {
		w("def flapStartOffset : Option Nat := none")
	}
	if ok1 && ok2 && shapeOK {
		rwd, a := new(big.Rat).SetString(wd)
		rmw, b := new(big.Rat).SetString(mw)
		if a && b && rwd.Sign() != 0 {
			w0, _ := new(big.Rat).Quo(rmw, rwd).Float64() // exact quotient, rounded once (Go constant arithmetic)
			m, _ := rmw.Float64()
			w("/-- `weight := (maxWeight / weightDiff)` with maxWeight = %s, weightDiff = %s: float64 bits. -/", mw, wd)
			w("def weight0Bits : Option UInt64 := some 0x%016x", math.Float64bits(w0))
			w("/-- `maxWeight` where it meets a float64 variable (`maxWeight - weight`): float64 bits. -/")
			w("def maxWeightBits : Option UInt64 := some 0x%016x", math.Float64bits(m))
		} else {
			w("def weight0Bits : Option UInt64 := none")
			w("def maxWeightBits : Option UInt64 := none")
		}
	} else {
		w("def weight0Bits : Option UInt64 := none")
		w("def maxWeightBits : Option UInt64 := none")
	}
	w("")

	// ---- default history and clamp
	dh, okd := numConst(pipeF, "defaultFlapHistory")
	usesDefault := false
	if fd := funcDecl(pipeF, "newAlertNode", ""); fd != nil {
		ast.Inspect(fd, func(n ast.Node) bool {
			if kv, ok := n.(*ast.KeyValueExpr); ok && src(kv.Key) == "History" && src(kv.Value) == "defaultFlapHistory" {
				usesDefault = true
			}
			return true
		})
	}
	if okd && usesDefault {
		w("/-- pipeline.newAlertNode: `History: defaultFlapHistory` -/")
		w("def defaultHistory : Option Nat := some %s", dh)
	} else {
		w("def defaultHistory : Option Nat := none")
	}
	clamp := false
	if fd := funcDecl(alertF, "newAlertNode", ""); fd != nil {
		ast.Inspect(fd, func(n ast.Node) bool {
			is, ok := n.(*ast.IfStmt)
			if !ok || is.Init != nil || is.Else != nil {
				return true
			}
			be, ok := is.Cond.(*ast.BinaryExpr)
			if !ok || be.Op != token.LSS || src(be.X) != "n.History" || len(is.Body.List) != 1 {
				return true
			}
			as, ok := is.Body.List[0].(*ast.AssignStmt)
			lb, ok2 := be.Y.(*ast.BasicLit)
			if !ok || !ok2 || as.Tok != token.ASSIGN || len(as.Lhs) != 1 || src(as.Lhs[0]) != "n.History" {
				return true
			}
			rb, ok3 := as.Rhs[0].(*ast.BasicLit)
			if !ok3 || lb.Kind != token.INT || rb.Kind != token.INT {
				return true
			}
			if !clamp {
				w("/-- alert.go newAlertNode: `if n.History < %s { n.History = %s }` -/", lb.Value, rb.Value)
				w("def historyClamp : Option (Int × Int) := some (%s, %s)", lb.Value, rb.Value)
				clamp = true
			}
			return true
		})
	}
	if !clamp {
		w("def historyClamp : Option (Int × Int) := none")
	}
	w("")

	// ---- the two level searches are transcribed by hand: their source must be exactly the transcribed one
	const dlSrc = `{ n := a.n if higherLevel, found := a.findFirstMatchLevel(alert.Critical, currentLevel-1, p); found { return higherLevel } if rse := a.levelResets[currentLevel]; rse != nil { if pass, err := EvalPredicate(rse, n.lrScopePools[currentLevel], p); err != nil { n.diag.Error("error evaluating reset expression for current level", err, keyvalue.KV("level", currentLevel.String())) } else if !pass { return currentLevel } } if newLevel, found := a.findFirstMatchLevel(currentLevel, alert.OK, p); found { return newLevel } return alert.OK }`
	const ffSrc = `{ n := a.n if stop < alert.OK { stop = alert.OK } for l := start; l > stop; l-- { se := a.levels[l] if se == nil { continue } if pass, err := EvalPredicate(se, n.scopePools[l], p); err != nil { n.diag.Error("error evaluating expression for level", err, keyvalue.KV("level", alert.Level(l).String())) continue } else if pass { return alert.Level(l), true } } return alert.OK, false }`
	dl := funcDecl(alertF, "determineLevel", "*alertState")
	ff := funcDecl(alertF, "findFirstMatchLevel", "*alertState")
	w("/-- `determineLevel` and `findFirstMatchLevel` are, statement by statement, what Kap.Model.C01 transcribes. -/")
	if dl != nil && ff != nil && src(dl.Body) == dlSrc && src(ff.Body) == ffSrc {
		w("def levelSearchRecognised : Bool := true")
	} else {
		if os.Getenv("C01_PRINT_SKELETON") != "" && dl != nil && ff != nil {
			fmt.Fprintln(os.Stderr, "determineLevel:", src(dl.Body))
			fmt.Fprintln(os.Stderr, "findFirstMatchLevel:", src(ff.Body))
		}
		w("def levelSearchRecognised : Bool := unknownGuard \"determineLevel / findFirstMatchLevel: not the transcribed source\"")
	}
	w("")

	// ---- guards
	w("/-- The atoms the guards of alertState read. -/")
	w("structure G where")
	w("  useFlap : Bool := false   -- a.n.a.UseFlapping")
	w("  flapping : Bool := false  -- a.flapping")
	w("  sco : Bool := false       -- a.n.a.IsStateChangesOnly")
	w("  changed : Bool := false   -- a.changed")
	w("  expired : Bool := false   -- a.expired")
	w("  noRec : Bool := false     -- a.n.a.NoRecoveriesFlag")
	w("  all : Bool := false       -- a.n.a.AllFlag")
	w("  l : Nat := 0              -- the level variable `l` / `level`")
	w("  cur : Nat := 0            -- a.history[a.idx]")
	w("  prev : Nat := 0           -- a.history[p]")
	w("  scoDur : Int := 0         -- a.n.a.StateChangesOnlyDuration")
	w("  elapsed : Int := 0        -- t.Sub(a.lastTriggered)")
	w("  lowest : Nat := 0         -- lowestLevel")
	w("  highest : Nat := 0        -- highestLevel")
	w("  noHighestPoint : Bool := false  -- highestPoint == nil")
	w("  pBelowLow : Bool := false       -- p < a.n.a.FlapLow")
	w("  pAboveHigh : Bool := false      -- p > a.n.a.FlapHigh")
	w("")
	def := func(name, doc, body string) {
		w("/-- %s -/", doc)
		w("def %s (g : G) : Bool := %s", name, body)
		w("")
	}

	// Point
	var pSup, pSend, pWith ast.Expr
	whyP := "alertState.Point: shape not recognised"
	if fd := funcDecl(alertF, "Point", "*alertState"); fd != nil {
		is := ifs(fd.Body.List)
		if len(is) == 2 && returnsNilNil(is[0].Body) && is[0].Else == nil && is[1].Else == nil {
			pSup, pSend = is[0].Cond, is[1].Cond
			inner := ifs(is[1].Body.List)
			if len(inner) == 1 && returnsNilNil(inner[0].Body) {
				pWith = inner[0].Cond
			}
		}
	}
	if fd := funcDecl(alertF, "Point", "*alertState"); fd != nil {
		if got := skeleton(fd, []ast.Expr{pSup, pSend, pWith}, []string{"pointSuppress", "pointSend", "pointWithhold"}); got != pointSkeleton {
			if os.Getenv("C01_PRINT_SKELETON") != "" {
				fmt.Fprintln(os.Stderr, "Point:", got)
			}
			pSup, pSend, pWith = nil, nil, nil
			whyP = "alertState.Point: the statements around the guards are not the ones the model transcribes"
		}
	}
	def("pointSuppress", "Point: `if <this> { return nil, nil }` right after addEvent", guard(pSup, whyP))
	def("pointSend", "Point: `if <this> { a.triggered(p.Time()) … }`", guard(pSend, whyP))
	def("pointWithhold", "Point: `if <this> { return nil, nil }` right after triggered (recovery suppression)", guard(pWith, whyP))

	// BufferedBatch
	var bEmpty, bNotAll, bTime, bSilent, bWith, sLow, sHigh ast.Expr
	whyB := "alertState.BufferedBatch: shape not recognised"
	if fd := funcDecl(alertF, "BufferedBatch", "*alertState"); fd != nil {
		is := ifs(fd.Body.List)
		if len(is) == 6 && strings.HasPrefix(src(is[5].Cond), "a.n.a.LevelTag != \"\"") {
			if src(is[0].Cond) == "len(b.Points()) == 0" && returnsNilNil(is[0].Body) {
				bEmpty = is[0].Cond
			}
			if len(is[1].Body.List) == 1 && src(is[1].Body.List[0]) == "l = highestLevel" {
				bNotAll = is[1].Cond
			}
			if len(is[2].Body.List) == 1 && src(is[2].Body.List[0]) == "t = begin.Time()" {
				bTime = is[2].Cond
			}
			if returnsNilNil(is[3].Body) {
				bSilent = is[3].Cond
			}
			if returnsNilNil(is[4].Body) {
				bWith = is[4].Cond
			}
		}
		for _, s := range fd.Body.List {
			if rs, ok := s.(*ast.RangeStmt); ok {
				li := ifs(rs.Body.List)
				if len(li) == 2 && len(li[0].Body.List) == 1 && src(li[0].Body.List[0]) == "lowestLevel = l" &&
					len(li[1].Body.List) == 2 && src(li[1].Body.List[0]) == "highestLevel = l" && src(li[1].Body.List[1]) == "highestPoint = bp" {
					sLow, sHigh = li[0].Cond, li[1].Cond
				}
				break
			}
		}
	}
	if fd := funcDecl(alertF, "BufferedBatch", "*alertState"); fd != nil {
		// scanLower/scanHigher first: their text (`l < lowestLevel`, …) occurs before the other guards
		if got := skeleton(fd, []ast.Expr{sLow, sHigh, bNotAll, bTime, bSilent, bWith},
			[]string{"scanLower", "scanHigher", "batchUseHighest", "batchUseBatchTime", "batchSilent", "batchWithhold"}); got != batchSkeleton {
			if os.Getenv("C01_PRINT_SKELETON") != "" {
				fmt.Fprintln(os.Stderr, "BufferedBatch:", got)
			}
			bEmpty, bNotAll, bTime, bSilent, bWith, sLow, sHigh = nil, nil, nil, nil, nil, nil, nil
			whyB = "alertState.BufferedBatch: the statements around the guards are not the ones the model transcribes"
		}
	}
	if bEmpty != nil {
		w("/-- BufferedBatch: `if len(b.Points()) == 0 { return nil, nil }` is present. -/")
		w("def batchEmptyReturns : Bool := true")
	} else {
		w("def batchEmptyReturns : Bool := unknownGuard %s", leanStr(whyB))
	}
	w("")
	def("batchUseHighest", "BufferedBatch: `if <this> { l = highestLevel }` (l starts as lowestLevel)", guard(bNotAll, whyB))
	def("batchUseBatchTime", "BufferedBatch: `if <this> { t = begin.Time() }` (t starts as highestPoint.Time())", guard(bTime, whyB))
	def("batchSilent", "BufferedBatch: `if <this> { return nil, nil }` right after addEvent", guard(bSilent, whyB))
	def("batchWithhold", "BufferedBatch: `if <this> { return nil, nil }` right after triggered", guard(bWith, whyB))
	def("scanLower", "BufferedBatch loop: `if <this> { lowestLevel = l }`", guard(sLow, whyB))
	def("scanHigher", "BufferedBatch loop: `if <this> { highestLevel = l; highestPoint = bp }`", guard(sHigh, whyB))

	// addEvent: a.changed = <expr>; if <expr> { a.firstTriggered = t }; advance; store; updateFlapping; updateExpired
	var chg, left ast.Expr
	if fd := funcDecl(alertF, "addEvent", "*alertState"); fd != nil && len(fd.Body.List) == 6 {
		as, ok := fd.Body.List[0].(*ast.AssignStmt)
		is, ok2 := fd.Body.List[1].(*ast.IfStmt)
		if ok && ok2 && len(as.Lhs) == 1 && src(as.Lhs[0]) == "a.changed" &&
			is.Init == nil && is.Else == nil && len(is.Body.List) == 1 && src(is.Body.List[0]) == "a.firstTriggered = t" &&
			src(fd.Body.List[2]) == "a.idx = (a.idx + 1) % len(a.history)" && src(fd.Body.List[3]) == "a.history[a.idx] = level" &&
			src(fd.Body.List[4]) == "a.updateFlapping()" && src(fd.Body.List[5]) == "a.updateExpired(t)" {
			chg, left = as.Rhs[0], is.Cond
		}
	}
	def("changedRule", "addEvent: `a.changed = <this>` (before the ring advances; then leftOKRule, idx+1 mod len, store, updateFlapping, updateExpired)", guard(chg, "alertState.addEvent: shape not recognised"))
	def("leftOKRule", "addEvent: `if <this> { a.firstTriggered = t }` (after a.changed is set, before the ring advances)", guard(left, "alertState.addEvent: shape not recognised"))

	// updateExpired: a.expired = <expr>
	var exp ast.Expr
	if fd := funcDecl(alertF, "updateExpired", "*alertState"); fd != nil && len(fd.Body.List) == 1 {
		if as, ok := fd.Body.List[0].(*ast.AssignStmt); ok && len(as.Lhs) == 1 && src(as.Lhs[0]) == "a.expired" {
			exp = as.Rhs[0]
		}
	}
	def("expiredRule", "updateExpired: `a.expired = <this>`", guard(exp, "alertState.updateExpired: shape not recognised"))

	// triggered: a.lastTriggered = t; p := idx-1 (wrapping); if <first> { a.firstTriggered = t };
	//            inhibited := <inhibit>; for _, in := range a.inhibitors { in.Set(inhibited) }
	var first, inhib ast.Expr
	if fd := funcDecl(alertF, "triggered", "*alertState"); fd != nil && len(fd.Body.List) == 6 {
		is, okIf := fd.Body.List[3].(*ast.IfStmt)
		as, okAs := fd.Body.List[4].(*ast.AssignStmt)
		if okIf && okAs && src(fd.Body.List[0]) == "a.lastTriggered = t" && src(fd.Body.List[1]) == "p := a.idx - 1" &&
			src(fd.Body.List[2]) == "if p == -1 { p = len(a.history) - 1 }" && is.Init == nil && is.Else == nil &&
			len(is.Body.List) == 1 && src(is.Body.List[0]) == "a.firstTriggered = t" &&
			as.Tok == token.DEFINE && len(as.Lhs) == 1 && src(as.Lhs[0]) == "inhibited" && len(as.Rhs) == 1 &&
			src(fd.Body.List[5]) == "for _, in := range a.inhibitors { in.Set(inhibited) }" {
			first, inhib = is.Cond, as.Rhs[0]
		}
	}
	def("firstTriggeredRule", "triggered: `a.lastTriggered = t; p := idx-1 (wrapping); if <this> { a.firstTriggered = t }`", guard(first, "alertState.triggered: shape not recognised"))
	def("inhibitRule", "triggered: `inhibited := <this>; for _, in := range a.inhibitors { in.Set(inhibited) }` (last statements)", guard(inhib, "alertState.triggered: shape not recognised"))

	// handleEvent drops the event of an inhibited category before anything else; Inhibitor matching is transcribed by hand
	const isInhSrc = `{ if atomic.LoadInt32(&i.inhibited) == 0 { return false } return i.isMatch(category, tags) }`
	const isMatchSrc = `{ if category != i.category { return false } for k, v := range i.tags { if tags[k] != v { return false } } return true }`
	const lookupSrc = `{ l.mu.RLock() defer l.mu.RUnlock() for _, i := range l.inhibitors[category] { if i.IsInhibited(category, tags) { return true } } return false }`
	const newStateSrc = `inhibitors := make([]*alert.Inhibitor, len(n.a.Inhibitors)) for i, in := range n.a.Inhibitors { tagset := make(models.Tags, len(in.EqualTags)) for _, t := range in.EqualTags { tagset[t] = tags[t] } inhibitor := alert.NewInhibitor(in.Category, tagset) inhibitors[i] = inhibitor n.et.tm.AlertService.AddInhibitor(inhibitor) }`
	inhF := parse(filepath.Join(repo, "alert", "inhibit.go"))
	inhOK := false
	if he := funcDecl(alertF, "handleEvent", "*AlertNode"); he != nil && len(he.Body.List) > 0 {
		f1 := funcDecl(inhF, "IsInhibited", "*Inhibitor")
		f2 := funcDecl(inhF, "isMatch", "*Inhibitor")
		f3 := funcDecl(inhF, "IsInhibited", "*InhibitorLookup")
		f4 := funcDecl(alertF, "newAlertState", "*AlertNode")
		inhOK = src(he.Body.List[0]) == "if n.et.tm.AlertService.IsInhibited(event.Data.Category, event.Data.Tags) { n.alertsInhibited.Add(1) return }" &&
			f1 != nil && src(f1.Body) == isInhSrc && f2 != nil && src(f2.Body) == isMatchSrc && f3 != nil && src(f3.Body) == lookupSrc &&
			f4 != nil && len(f4.Body.List) == 3 && src(f4.Body.List[0])+" "+src(f4.Body.List[1]) == newStateSrc
		if !inhOK && os.Getenv("C01_PRINT_SKELETON") != "" && f1 != nil && f2 != nil && f3 != nil && f4 != nil {
			fmt.Fprintln(os.Stderr, "handleEvent[0]:", src(he.Body.List[0]), "\nIsInhibited:", src(f1.Body), "\nisMatch:", src(f2.Body), "\nlookup:", src(f3.Body), "\nnewAlertState:", src(f4.Body.List[0])+" "+src(f4.Body.List[1]))
		}
	}
	w("/-- handleEvent starts with `if IsInhibited(category, tags) { alertsInhibited++; return }`; Inhibitor.IsInhibited / isMatch,")
	w("InhibitorLookup.IsInhibited and the inhibitor set-up of newAlertState are, statement by statement, what Kap.Model.C01 transcribes. -/")
	if inhOK {
		w("def inhibitionRecognised : Bool := true")
	} else {
		w("def inhibitionRecognised : Bool := unknownGuard \"handleEvent / alert/inhibit.go / newAlertState: not the transcribed source\"")
	}
	w("")

	// updateFlapping
	var fOff, fOn ast.Expr
	if fd := funcDecl(alertF, "updateFlapping", "*alertState"); fd != nil && len(fd.Body.List) == 3 {
		if is, ok := fd.Body.List[2].(*ast.IfStmt); ok && src(fd.Body.List[0]) == "if !a.n.a.UseFlapping { return }" && src(fd.Body.List[1]) == "p := a.percentChange()" {
			if el, ok := is.Else.(*ast.IfStmt); ok && el.Else == nil &&
				len(is.Body.List) == 1 && src(is.Body.List[0]) == "a.flapping = false" &&
				len(el.Body.List) == 1 && src(el.Body.List[0]) == "a.flapping = true" {
				fOff, fOn = is.Cond, el.Cond
			}
		}
	}
	def("flapOff", "updateFlapping: `if <this> { a.flapping = false } else if …`", guard(fOff, "alertState.updateFlapping: shape not recognised"))
	def("flapOn", "updateFlapping: `… else if <this> { a.flapping = true }`", guard(fOn, "alertState.updateFlapping: shape not recognised"))

	w("end Kap.C01.Gen")

	out := filepath.Join(leanDir, "Kap", "Gen", "C01.lean")
	if err := os.MkdirAll(filepath.Dir(out), 0o755); err != nil {
		die("%v", err)
	}
	old, _ := os.ReadFile(out)
	if string(old) != o.String() {
		if err := os.WriteFile(out, []byte(o.String()), 0o644); err != nil {
			die("%v", err)
		}
	}
}
