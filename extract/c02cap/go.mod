module c02cap

go 1.18
