module c02locks

go 1.18
