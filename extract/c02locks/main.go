// Extractor for property C02: regenerates lean/Kap/Gen/C02Locks.lean from the Go SOURCE (go/ast, standard library only)
// with the LOCK DISCIPLINE of the fork table of task_master.go as plain facts:
//
//   - touches: every place of a function of task_master.go that reads or writes tm.forks / tm.taskToForkKeys, or calls
//     Collect / Close on a FORK EDGE (a variable that, by name-based taint inside the function, came out of tm.forks:
//     `x := tm.forks[k]`, `for id, e := range tm.forks[k]`, `for _, e := range x`, the result of a function of the file
//     that returns such a value), with the lock on tm.mu that is held THERE (none / r / w);
//   - callSites: every call of a TaskMaster method that (transitively, call graph of the file) reaches a touch, with the
//     lock held at the call and whether the call is a `go` statement (a new goroutine never inherits a lock);
//   - fns: the functions named by the two lists (exported or not).
//
// The lock held at a place is computed structurally: `recv.mu.Lock()` / `RLock()` as a statement makes the lock held
// from there on, `recv.mu.Unlock()` / `RUnlock()` as a statement ends it (also for everything after the enclosing
// block: the weakest state of a nested block survives it, a lock taken inside a nested block does not; loop bodies are
// re-walked with the weaker state), `defer recv.mu.Unlock()` and unlocks inside a deferred function literal keep it to
// the end. Function literals (go func, callbacks) are functions of their own that start with NO lock and have no known
// caller. FAIL CLOSED: a method call other than Collect / Close on a fork edge, a fork edge passed to a function, stored
// into a field or sent on a channel, a mention of forks / taskToForkKeys or a call of an unexported TaskMaster method in
// another file of the package is emitted as a touch of kind `unknown` (or a call site without lock), which the theorem
// Kap.Props.C02Lock.fork_edges_only_touched_under_lock does not accept. Nothing is defaulted.
// Env: VERIF_REPO (default /repo), VERIF_LEAN (default /verif/lean).
package main

import (
	"bytes"
	"fmt"
	"go/ast"
	"go/parser"
	"go/printer"
	"go/token"
	"os"
	"path/filepath"
	"sort"
	"strings"
	"unicode"
)

var fset = token.NewFileSet()

func src(n ast.Node) string {
	var b bytes.Buffer
	printer.Fprint(&b, fset, n)
	s := strings.Join(strings.Fields(b.String()), " ")
	if len(s) > 90 {
		s = s[:90] + "…"
	}
	return s
}

func env(k, d string) string {
	if v := os.Getenv(k); v != "" {
		return v
	}
	return d
}

func leanStr(s string) string {
	return `"` + strings.ReplaceAll(strings.ReplaceAll(s, `\`, `\\`), `"`, `\"`) + `"`
}

const (
	hNone = 0
	hR    = 1
	hW    = 2
)

var heldName = []string{"Held.none", "Held.r", "Held.w"}

type touch struct {
	fn, kind, src string
	held          int
}
type callSite struct {
	caller, callee string
	held           int
	viaGo          bool
}

var (
	touches   []touch
	calls     []callSite
	tmMethods = map[string]bool{} // methods of *TaskMaster declared in task_master.go
	returnsFE = map[string]bool{} // functions of the file that return a value that came out of tm.forks
	tableSel  = map[string]bool{"forks": true, "taskToForkKeys": true}
)

// mentionsTable: the expression contains <x>.forks or <x>.taskToForkKeys
func mentionsTable(e ast.Node) bool {
	found := false
	if e == nil {
		return false
	}
	ast.Inspect(e, func(n ast.Node) bool {
		if _, ok := n.(*ast.FuncLit); ok {
			return false
		}
		if s, ok := n.(*ast.SelectorExpr); ok && s.Sel.Name == "forks" {
			found = true
		}
		return true
	})
	return found
}

type fnCtx struct {
	name   string
	recv   string
	taint  map[string]bool
	litSeq *int
	outer  string
}

func (c *fnCtx) tainted(e ast.Node) bool {
	if e == nil {
		return false
	}
	found := false
	ast.Inspect(e, func(n ast.Node) bool {
		switch x := n.(type) {
		case *ast.FuncLit:
			return false
		case *ast.Ident:
			if c.taint[x.Name] {
				found = true
			}
		case *ast.SelectorExpr:
			if x.Sel.Name == "forks" || c.tainted(x.X) {
				found = true
			}
			return false // the field / method NAME is no variable
		case *ast.KeyValueExpr:
			if _, isName := x.Key.(*ast.Ident); isName {
				if c.tainted(x.Value) {
					found = true
				}
				return false // a struct field name is no variable
			}
		case *ast.CallExpr:
			if s, ok := x.Fun.(*ast.SelectorExpr); ok && returnsFE[s.Sel.Name] {
				found = true
			}
		}
		return true
	})
	return found
}

// computeTaint: name-based, flow-insensitive, to a fixpoint. Returns whether the function returns a tainted value.
func (c *fnCtx) computeTaint(body *ast.BlockStmt) bool {
	ret := false
	for changed := true; changed; {
		changed = false
		mark := func(e ast.Expr) {
			if id, ok := e.(*ast.Ident); ok && id.Name != "_" && !c.taint[id.Name] {
				c.taint[id.Name] = true
				changed = true
			}
		}
		ast.Inspect(body, func(n ast.Node) bool {
			switch x := n.(type) {
			case *ast.AssignStmt:
				any := false
				for _, r := range x.Rhs {
					any = any || c.tainted(r)
				}
				if any {
					for _, l := range x.Lhs {
						mark(l)
					}
				}
			case *ast.ValueSpec:
				any := false
				for _, r := range x.Values {
					any = any || c.tainted(r)
				}
				if any {
					for _, l := range x.Names {
						mark(l)
					}
				}
			case *ast.RangeStmt:
				if c.tainted(x.X) {
					if x.Key != nil {
						mark(x.Key)
					}
					if x.Value != nil {
						mark(x.Value)
					}
				}
			case *ast.ReturnStmt:
				for _, r := range x.Results {
					if c.tainted(r) {
						ret = true
					}
				}
			}
			return true
		})
	}
	return ret
}

func (c *fnCtx) lockCall(s ast.Stmt) (string, bool) {
	es, ok := s.(*ast.ExprStmt)
	if !ok {
		return "", false
	}
	return c.lockCallExpr(es.X)
}

func (c *fnCtx) lockCallExpr(e ast.Expr) (string, bool) {
	call, ok := e.(*ast.CallExpr)
	if !ok {
		return "", false
	}
	sel, ok := call.Fun.(*ast.SelectorExpr)
	if !ok {
		return "", false
	}
	mu, ok := sel.X.(*ast.SelectorExpr)
	if !ok || mu.Sel.Name != "mu" {
		return "", false
	}
	if id, ok := mu.X.(*ast.Ident); !ok || id.Name != c.recv || c.recv == "" {
		return "", false
	}
	switch sel.Sel.Name {
	case "Lock", "RLock", "Unlock", "RUnlock":
		return sel.Sel.Name, true
	}
	return "", false
}

func (c *fnCtx) add(kind string, n ast.Node, held int) {
	touches = append(touches, touch{c.name, kind, src(n), held})
}

// exprs records the touches and calls inside an expression / simple statement at lock state `held`.
func (c *fnCtx) exprs(n ast.Node, held int, lhs bool) {
	if n == nil {
		return
	}
	ast.Inspect(n, func(m ast.Node) bool {
		switch x := m.(type) {
		case *ast.FuncLit:
			c.funcLit(x)
			return false
		case *ast.SelectorExpr:
			if tableSel[x.Sel.Name] {
				if id, ok := x.X.(*ast.Ident); ok && id.Name == c.recv && c.recv != "" {
					if lhs {
						c.add("write", x, held)
					} else {
						c.add("read", x, held)
					}
				} else {
					c.add("unknown", x, held)
				}
			}
		case *ast.CallExpr:
			if id, ok := x.Fun.(*ast.Ident); ok {
				switch id.Name {
				case "delete":
					if len(x.Args) == 2 && (mentionsTable(x.Args[0]) || c.tainted(x.Args[0]) || strings.Contains(src(x.Args[0]), "taskToForkKeys")) {
						c.add("write", x, held)
					}
				case "append", "len", "cap", "make", "new":
				default:
					for _, a := range x.Args {
						if aid, ok := a.(*ast.Ident); ok && c.taint[aid.Name] {
							c.add("unknown", x, held) // a fork edge (or the table) escapes into a function
						}
					}
				}
			}
			if s, ok := x.Fun.(*ast.SelectorExpr); ok {
				if id, ok := s.X.(*ast.Ident); ok {
					if c.taint[id.Name] {
						switch s.Sel.Name {
						case "Collect":
							c.add("collect", x, held)
						case "Close":
							c.add("close", x, held)
						default:
							c.add("unknown", x, held)
						}
					}
					if id.Name == c.recv && c.recv != "" && tmMethods[s.Sel.Name] {
						calls = append(calls, callSite{c.name, s.Sel.Name, held, false})
					}
				}
				for _, a := range x.Args {
					if aid, ok := a.(*ast.Ident); ok && c.taint[aid.Name] {
						if id, ok := s.X.(*ast.Ident); !(ok && c.taint[id.Name]) {
							c.add("unknown", x, held)
						}
					}
				}
			}
		}
		return true
	})
}

func (c *fnCtx) funcLit(l *ast.FuncLit) {
	*c.litSeq++
	sub := &fnCtx{name: fmt.Sprintf("%s$lit%d", c.outer, *c.litSeq), recv: c.recv, taint: c.taint, litSeq: c.litSeq, outer: c.outer}
	sub.walk(l.Body.List, hNone)
}

func min(a, b int) int {
	if a < b {
		return a
	}
	return b
}

// walk returns the lock state after the statements.
func (c *fnCtx) walk(stmts []ast.Stmt, held int) int {
	for _, s := range stmts {
		held = c.stmt(s, held)
	}
	return held
}

func (c *fnCtx) block(b *ast.BlockStmt, held int) int {
	if b == nil {
		return held
	}
	return min(held, c.walk(b.List, held))
}

func (c *fnCtx) stmt(s ast.Stmt, held int) int {
	if k, ok := c.lockCall(s); ok {
		switch k {
		case "Lock":
			return hW
		case "RLock":
			return hR
		default:
			return hNone
		}
	}
	switch x := s.(type) {
	case *ast.DeferStmt:
		if _, ok := c.lockCallExpr(x.Call); ok {
			return held // defer recv.mu.Unlock(): held to the end
		}
		if l, ok := x.Call.Fun.(*ast.FuncLit); ok {
			// a deferred literal: its unlocks run at the end; anything else in it is judged without lock
			sub := &fnCtx{name: c.name + "$defer", recv: c.recv, taint: c.taint, litSeq: c.litSeq, outer: c.outer}
			sub.deferred(l.Body.List)
			return held
		}
		c.exprs(x.Call, hNone, false)
		return held
	case *ast.GoStmt:
		if l, ok := x.Call.Fun.(*ast.FuncLit); ok {
			c.funcLit(l)
			for _, a := range x.Call.Args {
				c.exprs(a, held, false)
			}
			return held
		}
		n := len(calls)
		c.exprs(x.Call, hNone, false)
		for i := n; i < len(calls); i++ {
			calls[i].viaGo = true
		}
		return held
	case *ast.BlockStmt:
		return c.block(x, held)
	case *ast.LabeledStmt:
		return c.stmt(x.Stmt, held)
	case *ast.IfStmt:
		if x.Init != nil {
			held = c.stmt(x.Init, held)
		}
		c.exprs(x.Cond, held, false)
		after := c.block(x.Body, held)
		if x.Else != nil {
			after = min(after, min(held, c.stmt(x.Else, held)))
		}
		return after
	case *ast.ForStmt:
		if x.Init != nil {
			held = c.stmt(x.Init, held)
		}
		c.exprs(x.Cond, held, false)
		c.exprs(x.Post, held, false)
		after := c.block(x.Body, held)
		if after < held {
			c.exprs(x.Cond, after, false)
			c.block(x.Body, after)
		}
		return after
	case *ast.RangeStmt:
		c.exprs(x.X, held, false)
		after := c.block(x.Body, held)
		if after < held {
			c.block(x.Body, after)
		}
		return after
	case *ast.SwitchStmt:
		if x.Init != nil {
			held = c.stmt(x.Init, held)
		}
		c.exprs(x.Tag, held, false)
		return c.clauses(x.Body, held)
	case *ast.TypeSwitchStmt:
		if x.Init != nil {
			held = c.stmt(x.Init, held)
		}
		c.exprs(x.Assign, held, false)
		return c.clauses(x.Body, held)
	case *ast.SelectStmt:
		return c.clauses(x.Body, held)
	case *ast.AssignStmt:
		for _, l := range x.Lhs {
			if _, plain := l.(*ast.Ident); !plain {
				c.exprs(l, held, true)
				if _, field := l.(*ast.SelectorExpr); field {
					for _, r := range x.Rhs {
						if c.tainted(r) {
							c.add("unknown", x, held) // a fork edge stored into a field
						}
					}
				}
			}
		}
		for _, r := range x.Rhs {
			c.exprs(r, held, false)
		}
		return held
	case *ast.SendStmt:
		if c.tainted(x.Value) {
			c.add("unknown", x, held)
		}
		c.exprs(x.Chan, held, false)
		c.exprs(x.Value, held, false)
		return held
	default:
		c.exprs(s, held, false)
		return held
	}
}

func (c *fnCtx) clauses(b *ast.BlockStmt, held int) int {
	after := held
	for _, cl := range b.List {
		switch x := cl.(type) {
		case *ast.CaseClause:
			for _, e := range x.List {
				c.exprs(e, held, false)
			}
			after = min(after, c.walk(x.Body, held))
		case *ast.CommClause:
			h := held
			if x.Comm != nil {
				h = c.stmt(x.Comm, held)
			}
			after = min(after, c.walk(x.Body, h))
		}
	}
	return after
}

// deferred: the body of `defer func() { … }()`: unlock statements are the deferred unlock; the rest runs without lock.
func (c *fnCtx) deferred(stmts []ast.Stmt) {
	for _, s := range stmts {
		if _, ok := c.lockCall(s); ok {
			continue
		}
		if i, ok := s.(*ast.IfStmt); ok && i.Init == nil && i.Else == nil {
			c.exprs(i.Cond, hNone, false)
			c.deferred(i.Body.List)
			continue
		}
		c.stmt(s, hNone)
	}
}

func recvOf(fd *ast.FuncDecl) (name, typ string) {
	if fd.Recv == nil || len(fd.Recv.List) == 0 {
		return "", ""
	}
	f := fd.Recv.List[0]
	if len(f.Names) > 0 {
		name = f.Names[0].Name
	}
	t := f.Type
	if st, ok := t.(*ast.StarExpr); ok {
		t = st.X
	}
	if id, ok := t.(*ast.Ident); ok {
		typ = id.Name
	}
	return
}

func main() {
	repo := env("VERIF_REPO", "/repo")
	lean := env("VERIF_LEAN", "/verif/lean")
	tf, err := parser.ParseFile(fset, filepath.Join(repo, "task_master.go"), nil, 0)
	if err != nil {
		fmt.Fprintln(os.Stderr, "c02locks: cannot parse task_master.go:", err)
		os.Exit(1)
	}
	var decls []*ast.FuncDecl
	for _, d := range tf.Decls {
		if fd, ok := d.(*ast.FuncDecl); ok && fd.Body != nil {
			decls = append(decls, fd)
			if _, typ := recvOf(fd); typ == "TaskMaster" {
				tmMethods[fd.Name.Name] = true
			}
		}
	}
	// which functions return fork edges (fixpoint over the file)
	for changed := true; changed; {
		changed = false
		for _, fd := range decls {
			recv, typ := recvOf(fd)
			if typ != "TaskMaster" {
				recv = ""
			}
			c := &fnCtx{name: fd.Name.Name, recv: recv, taint: map[string]bool{}}
			if c.computeTaint(fd.Body) && !returnsFE[fd.Name.Name] {
				returnsFE[fd.Name.Name] = true
				changed = true
			}
		}
	}
	for _, fd := range decls {
		recv, typ := recvOf(fd)
		name := fd.Name.Name
		if typ != "TaskMaster" {
			if typ != "" {
				name = typ + "." + name
			}
			// another type's method / a plain function: it has no tm.mu of its own; a mention of the table is not understood
			recv = ""
		}
		seq := 0
		c := &fnCtx{name: name, recv: recv, taint: map[string]bool{}, litSeq: &seq, outer: name}
		c.computeTaint(fd.Body)
		c.walk(fd.Body.List, hNone)
	}
	// the other files of the package must not know the table nor call the unexported methods
	files, _ := filepath.Glob(filepath.Join(repo, "*.go"))
	sort.Strings(files)
	for _, f := range files {
		base := filepath.Base(f)
		if base == "task_master.go" || strings.HasSuffix(base, "_test.go") {
			continue
		}
		af, err := parser.ParseFile(fset, f, nil, 0)
		if err != nil {
			touches = append(touches, touch{base, "unknown", "file does not parse", hNone})
			continue
		}
		for _, d := range af.Decls {
			fd, ok := d.(*ast.FuncDecl)
			if !ok || fd.Body == nil {
				continue
			}
			ast.Inspect(fd.Body, func(n ast.Node) bool {
				switch x := n.(type) {
				case *ast.SelectorExpr:
					if tableSel[x.Sel.Name] {
						touches = append(touches, touch{base + ":" + fd.Name.Name, "unknown", src(x), hNone})
					}
				case *ast.CallExpr:
					if s, ok := x.Fun.(*ast.SelectorExpr); ok && tmMethods[s.Sel.Name] && !ast.IsExported(s.Sel.Name) {
						calls = append(calls, callSite{base + ":" + fd.Name.Name, s.Sel.Name, hNone, false})
					}
				}
				return true
			})
		}
	}
	// keep the call sites whose callee reaches a touch (plain call-graph reachability, no lock reasoning)
	reach := map[string]bool{}
	for _, t := range touches {
		reach[strings.SplitN(t.fn, "$", 2)[0]] = true
		reach[t.fn] = true
	}
	for changed := true; changed; {
		changed = false
		for _, cs := range calls {
			if reach[cs.callee] && !reach[cs.caller] {
				reach[cs.caller] = true
				changed = true
			}
		}
	}
	var kept []callSite
	for _, cs := range calls {
		if reach[cs.callee] {
			kept = append(kept, cs)
		}
	}
	// function table
	idx := map[string]int{}
	var names []string
	id := func(n string) int {
		if i, ok := idx[n]; ok {
			return i
		}
		idx[n] = len(names)
		names = append(names, n)
		return idx[n]
	}
	var b strings.Builder
	b.WriteString("/- GENERATED by /verif/extract/c02locks from task_master.go (and the other files of the package) of the checked tree — do not edit. -/\n")
	b.WriteString("namespace Kap.C02.Gen\n\n")
	b.WriteString("/-- the lock on tm.mu held at a place: none, the read lock, the write lock -/\ninductive Held where\n  | none | r | w\nderiving Repr, DecidableEq\n\n")
	b.WriteString("/-- what happens to the fork table / a fork edge at a place (`unknown` = shape not recognised: accepted by no lemma) -/\ninductive TouchKind where\n  | read | write | collect | close | unknown\nderiving Repr, DecidableEq\n\n")
	b.WriteString("structure Touch where\n  fn : Nat\n  kind : TouchKind\n  held : Held\n  goSource : String\nderiving Repr\n\n")
	b.WriteString("structure CallSite where\n  caller : Nat\n  callee : Nat\n  held : Held\n  viaGo : Bool\nderiving Repr\n\n")
	b.WriteString("structure Fn where\n  id : Nat\n  name : String\n  exported : Bool\n  /-- a function literal or a function of another file: nobody is known to call it under a lock -/\n  opaqueCaller : Bool\nderiving Repr\n\n")
	var tl, cl []string
	for _, t := range touches {
		tl = append(tl, fmt.Sprintf("  { fn := %d, kind := TouchKind.%s, held := %s, goSource := %s }", id(t.fn), t.kind, heldName[t.held], leanStr(t.fn+": "+t.src)))
	}
	for _, cs := range kept {
		v := "false"
		if cs.viaGo {
			v = "true"
		}
		cl = append(cl, fmt.Sprintf("  { caller := %d, callee := %d, held := %s, viaGo := %s }", id(cs.caller), id(cs.callee), heldName[cs.held], v))
	}
	var fl []string
	for i, n := range names {
		exp := "false"
		r := []rune(n)
		if len(r) > 0 && unicode.IsUpper(r[0]) && !strings.ContainsAny(n, "$:.") {
			exp = "true"
		}
		op := "false"
		if strings.ContainsAny(n, "$:") {
			op = "true"
		}
		fl = append(fl, fmt.Sprintf("  { id := %d, name := %s, exported := %s, opaqueCaller := %s }", i, leanStr(n), exp, op))
	}
	list := func(name, ty string, items []string) {
		if len(items) == 0 {
			b.WriteString(fmt.Sprintf("def %s : List %s := []\n\n", name, ty))
			return
		}
		b.WriteString(fmt.Sprintf("def %s : List %s := [\n%s\n]\n\n", name, ty, strings.Join(items, ",\n")))
	}
	list("touches", "Touch", tl)
	list("callSites", "CallSite", cl)
	list("fns", "Fn", fl)
	b.WriteString("end Kap.C02.Gen\n")
	out := b.String()
	if err := os.MkdirAll(filepath.Join(lean, "Kap", "Gen"), 0o755); err != nil {
		fmt.Fprintln(os.Stderr, err)
		os.Exit(1)
	}
	path := filepath.Join(lean, "Kap", "Gen", "C02Locks.lean")
	if old, err := os.ReadFile(path); err == nil && string(old) == out {
		return // unchanged: keep the mtime so that lake does not rebuild
	}
	if err := os.WriteFile(path, []byte(out), 0o644); err != nil {
		fmt.Fprintln(os.Stderr, err)
		os.Exit(1)
	}
}
