module c03extract

go 1.18
