// Extractor for property C03: regenerates lean/Kap/Gen/C03.lean from the Go SOURCE of window.go
// (go/ast, standard library only).
//
// For each of the functions the model Kap/Model/C03.lean transcribes
//
//	(*windowTimeBuffer).insert / purge / points, newWindowByTime, (*windowByTime).Point / Barrier / batch,
//	newWindowByCount, (*windowByCount).Point / batch / points, (*WindowNode).newWindow
//
// it emits the statement skeleton of the body as a flat list of nodes (depth, kind, text): EVERY statement
// becomes a node — `if`/`else` with the condition, `for` with "init; cond; post", `range`, assignments and
// definitions with both sides, `++/--`, `return` with its results, `break`/`continue`, `panic`, calls, closures
// (whose bodies are walked too). Expressions are printed by go/printer and whitespace-normalised, so comments
// and formatting do not matter, anything else does. String literals inside panic(...) are dropped (messages are
// not behaviour the model has).
//
// FAIL CLOSED: a statement shape that is not recognised (select, type switch, go, defer, goto, labels, fallthrough, if/switch with an init
// statement, function literals outside `x := func…`) becomes a node of kind "unknown" carrying its source, a
// function that is missing becomes the single node ("missing"), and `unknownCount` counts them; the theorems
// of Kap/Props/C03Src.lean (skeleton = the one the model was transcribed from, unknownCount = 0) then fail.
// Nothing is ever dropped or defaulted.
// Env: VERIF_REPO (default /repo), VERIF_LEAN (default /verif/lean).
package main

import (
	"bytes"
	"fmt"
	"go/ast"
	"go/parser"
	"go/printer"
	"go/token"
	"os"
	"path/filepath"
	"strings"
)

var fset = token.NewFileSet()

func src(n ast.Node) string {
	if n == nil {
		return ""
	}
	var b bytes.Buffer
	printer.Fprint(&b, fset, n)
	t := strings.Join(strings.Fields(b.String()), " ")
	// a call broken over several lines prints as "f( a, b, )": make it layout-independent
	t = strings.ReplaceAll(t, ", )", ")")
	t = strings.ReplaceAll(t, "( ", "(")
	return t
}

func leanStr(s string) string {
	var b strings.Builder
	b.WriteByte('"')
	for _, r := range s {
		switch {
		case r == '"':
			b.WriteString("\\\"")
		case r == '\\':
			b.WriteString("\\\\")
		case r < 0x20 || r == 0x7f:
			fmt.Fprintf(&b, "\\x%02x", r)
		default:
			b.WriteRune(r)
		}
	}
	b.WriteByte('"')
	return b.String()
}

type node struct {
	depth      int
	kind, text string
}

type walker struct {
	nodes   []node
	unknown int
}

func (w *walker) emit(depth int, kind, text string) {
	if kind == "unknown" || kind == "missing" {
		w.unknown++
	}
	w.nodes = append(w.nodes, node{depth, kind, text})
}

// hasFuncLit reports a function literal anywhere inside n.
func hasFuncLit(n ast.Node) bool {
	found := false
	if n == nil {
		return false
	}
	ast.Inspect(n, func(x ast.Node) bool {
		if _, ok := x.(*ast.FuncLit); ok {
			found = true
		}
		return !found
	})
	return found
}

func (w *walker) block(b *ast.BlockStmt, depth int) {
	if b == nil {
		return
	}
	for _, s := range b.List {
		w.stmt(s, depth)
	}
}

func (w *walker) stmt(s ast.Stmt, depth int) {
	switch x := s.(type) {
	case *ast.BlockStmt:
		w.block(x, depth)
	case *ast.EmptyStmt:
		// `;` — nothing
	case *ast.IfStmt:
		if x.Init != nil || hasFuncLit(x.Cond) {
			w.emit(depth, "unknown", src(x))
			return
		}
		w.emit(depth, "if", src(x.Cond))
		w.block(x.Body, depth+1)
		if x.Else != nil {
			w.emit(depth, "else", "")
			w.stmt(x.Else, depth+1)
		}
	case *ast.ForStmt:
		if hasFuncLit(x.Init) || hasFuncLit(x.Cond) || hasFuncLit(x.Post) {
			w.emit(depth, "unknown", src(x))
			return
		}
		w.emit(depth, "for", src(x.Init)+"; "+src(x.Cond)+"; "+src(x.Post))
		w.block(x.Body, depth+1)
	case *ast.RangeStmt:
		if hasFuncLit(x.X) {
			w.emit(depth, "unknown", src(x))
			return
		}
		w.emit(depth, "range", src(x.Key)+", "+src(x.Value)+" "+x.Tok.String()+" range "+src(x.X))
		w.block(x.Body, depth+1)
	case *ast.AssignStmt:
		if len(x.Lhs) == 1 && len(x.Rhs) == 1 {
			if fl, ok := x.Rhs[0].(*ast.FuncLit); ok {
				w.emit(depth, "closure", src(x.Lhs[0])+" "+x.Tok.String()+" "+src(fl.Type))
				w.block(fl.Body, depth+1)
				return
			}
		}
		if hasFuncLit(x) {
			w.emit(depth, "unknown", src(x))
			return
		}
		w.emit(depth, "assign", src(x))
	case *ast.IncDecStmt:
		w.emit(depth, "incdec", src(x))
	case *ast.DeclStmt:
		if hasFuncLit(x) {
			w.emit(depth, "unknown", src(x))
			return
		}
		w.emit(depth, "decl", src(x))
	case *ast.ReturnStmt:
		if hasFuncLit(x) {
			w.emit(depth, "unknown", src(x))
			return
		}
		var rs []string
		for _, r := range x.Results {
			rs = append(rs, src(r))
		}
		w.emit(depth, "return", strings.Join(rs, ", "))
	case *ast.BranchStmt:
		if x.Label != nil || (x.Tok != token.BREAK && x.Tok != token.CONTINUE) {
			w.emit(depth, "unknown", src(x))
			return
		}
		w.emit(depth, x.Tok.String(), "")
	case *ast.SwitchStmt:
		if x.Init != nil || hasFuncLit(x.Tag) {
			w.emit(depth, "unknown", src(x))
			return
		}
		w.emit(depth, "switch", src(x.Tag))
		for _, c := range x.Body.List {
			cc, ok := c.(*ast.CaseClause)
			if !ok {
				w.emit(depth+1, "unknown", src(c))
				continue
			}
			if cc.List == nil {
				w.emit(depth+1, "default", "")
			} else {
				var es []string
				for _, e := range cc.List {
					if hasFuncLit(e) {
						w.emit(depth+1, "unknown", src(cc))
					}
					es = append(es, src(e))
				}
				w.emit(depth+1, "case", strings.Join(es, ", "))
			}
			for _, b := range cc.Body {
				w.stmt(b, depth+2)
			}
		}
	case *ast.ExprStmt:
		if call, ok := x.X.(*ast.CallExpr); ok && !hasFuncLit(call) {
			if id, ok := call.Fun.(*ast.Ident); ok && id.Name == "panic" {
				w.emit(depth, "panic", "")
				return
			}
			w.emit(depth, "call", src(call))
			return
		}
		w.emit(depth, "unknown", src(x))
	default:
		w.emit(depth, "unknown", src(s))
	}
}

func recvName(fd *ast.FuncDecl) string {
	if fd.Recv == nil || len(fd.Recv.List) == 0 {
		return ""
	}
	t := fd.Recv.List[0].Type
	if st, ok := t.(*ast.StarExpr); ok {
		t = st.X
	}
	if id, ok := t.(*ast.Ident); ok {
		return id.Name
	}
	return "?"
}

type target struct{ lean, recv, name string }

var targets = []target{
	{"insert", "windowTimeBuffer", "insert"},
	{"purge", "windowTimeBuffer", "purge"},
	{"points", "windowTimeBuffer", "points"},
	{"newWindowByTime", "", "newWindowByTime"},
	{"timePoint", "windowByTime", "Point"},
	{"timeBarrier", "windowByTime", "Barrier"},
	{"timeBatch", "windowByTime", "batch"},
	{"newWindowByCount", "", "newWindowByCount"},
	{"countPoint", "windowByCount", "Point"},
	{"countBarrier", "windowByCount", "Barrier"},
	{"countBatch", "windowByCount", "batch"},
	{"countPoints", "windowByCount", "points"},
	{"newWindow", "WindowNode", "newWindow"},
}

func main() {
	repo := os.Getenv("VERIF_REPO")
	if repo == "" {
		repo = "/repo"
	}
	lean := os.Getenv("VERIF_LEAN")
	if lean == "" {
		lean = "/verif/lean"
	}
	file := filepath.Join(repo, "window.go")
	f, err := parser.ParseFile(fset, file, nil, 0)
	if err != nil {
		fmt.Fprintln(os.Stderr, "c03extract:", err)
		os.Exit(1)
	}
	var out strings.Builder
	out.WriteString("/- GENERATED by /verif/extract/c03 from window.go (go/ast) on every run of bin/check — do not edit.\n")
	out.WriteString("   Statement skeletons of the functions Kap/Model/C03.lean transcribes; see the extractor for the node kinds. -/\n")
	out.WriteString("import Kap.Model.C03Src\nnamespace Kap.Gen.C03\nopen Kap.C03.Src (Node)\n\n")
	total := 0
	for _, t := range targets {
		w := &walker{}
		count := 0
		for _, d := range f.Decls {
			fd, ok := d.(*ast.FuncDecl)
			if !ok || fd.Name.Name != t.name || recvName(fd) != t.recv {
				continue
			}
			count++
			if fd.Body == nil {
				w.emit(0, "missing", t.recv+"."+t.name+" has no body")
				continue
			}
			// the signature is part of the skeleton (parameter order / result names matter to the transcription)
			w.emit(0, "func", src(fd.Type))
			w.block(fd.Body, 1)
		}
		if count != 1 {
			w = &walker{}
			w.emit(0, "missing", fmt.Sprintf("%s.%s found %d times", t.recv, t.name, count))
		}
		total += w.unknown
		fmt.Fprintf(&out, "def %s : List Node := [\n", t.lean)
		for i, n := range w.nodes {
			sep := ","
			if i == len(w.nodes)-1 {
				sep = ""
			}
			fmt.Fprintf(&out, "  ⟨%d, %s, %s⟩%s\n", n.depth, leanStr(n.kind), leanStr(n.text), sep)
		}
		out.WriteString("]\n\n")
	}
	fmt.Fprintf(&out, "/-- number of statements the extractor could not classify (must be 0) -/\ndef unknownCount : Nat := %d\n\nend Kap.Gen.C03\n", total)
	dst := filepath.Join(lean, "Kap", "Gen", "C03.lean")
	if err := os.MkdirAll(filepath.Dir(dst), 0o755); err != nil {
		fmt.Fprintln(os.Stderr, "c03extract:", err)
		os.Exit(1)
	}
	if old, err := os.ReadFile(dst); err == nil && string(old) == out.String() {
		return // unchanged: keep the mtime so lake does not rebuild
	}
	if err := os.WriteFile(dst, []byte(out.String()), 0o644); err != nil {
		fmt.Fprintln(os.Stderr, "c03extract:", err)
		os.Exit(1)
	}
}
