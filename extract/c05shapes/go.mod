module c05shapes

go 1.18
