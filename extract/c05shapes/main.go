// Extractor for property C05: regenerates lean/Kap/Gen/C05.lean from the Go SOURCE (go/ast, standard
// library only). Extracted SHAPE FACTS:
//   - node.go        node.start: the deferred closure — is `recover()` reached on every path, what is re-panicked
//   - tick/ast/parser.go  parser.recover (same questions + the unchecked `e.(error)`), every `panic(` argument,
//                    stopParse: does it drain the lexer's token channel
//   - tick/eval.go   tick.Evaluate: the deferred closure
//   - tick/ast/lex.go     peek: does it restore `width`; the TokenType iota block
//   - tick/ast/json.go    getNode: the cases of the typeOf switch and its default
//   - udf/server.go, udf/agent/io.go: functions containing an explicit `panic(`
//   - udf/server.go: request/response pairing (udfrr.go): channel per response kind, channel + asserted type per request
//
// FAIL CLOSED: a shape that is not recognised is emitted as `.unknown "<go source>"` / `none`, which no
// lemma covers, so the dependent theorems stop checking. Nothing is ever defaulted.
// Env: VERIF_REPO (default /repo), VERIF_LEAN (default /verif/lean).
package main

import (
	"bytes"
	"fmt"
	"go/ast"
	"go/parser"
	"go/printer"
	"go/token"
	"os"
	"path/filepath"
	"strconv"
	"strings"
)

var fset = token.NewFileSet()

func src(n ast.Node) string {
	var b bytes.Buffer
	printer.Fprint(&b, fset, n)
	s := strings.Join(strings.Fields(b.String()), " ")
	if len(s) > 160 {
		s = s[:160] + "…"
	}
	return s
}

func leanStr(s string) string {
	var b strings.Builder
	b.WriteByte('"')
	for _, r := range s {
		switch {
		case r == '"' || r == '\\':
			b.WriteByte('\\')
			b.WriteRune(r)
		case r == '\n':
			b.WriteString("\\n")
		case r == '\t':
			b.WriteString("\\t")
		default:
			b.WriteRune(r)
		}
	}
	b.WriteByte('"')
	return b.String()
}

func parseFile(repo, rel string) *ast.File {
	f, err := parser.ParseFile(fset, filepath.Join(repo, rel), nil, 0)
	if err != nil {
		fmt.Fprintln(os.Stderr, "c05shapes:", err)
		os.Exit(1)
	}
	return f
}

// findFunc returns the declaration of func name (recv = receiver type name without '*', "" for none).
func findFunc(f *ast.File, recv, name string) *ast.FuncDecl {
	for _, d := range f.Decls {
		fd, ok := d.(*ast.FuncDecl)
		if !ok || fd.Name.Name != name {
			continue
		}
		r := ""
		if fd.Recv != nil && len(fd.Recv.List) == 1 {
			t := fd.Recv.List[0].Type
			if s, ok := t.(*ast.StarExpr); ok {
				t = s.X
			}
			if id, ok := t.(*ast.Ident); ok {
				r = id.Name
			}
		}
		if r == recv {
			return fd
		}
	}
	return nil
}

func isCall(e ast.Expr, name string) bool {
	c, ok := e.(*ast.CallExpr)
	if !ok {
		return false
	}
	id, ok := c.Fun.(*ast.Ident)
	return ok && id.Name == name
}

func containsRecover(n ast.Node) bool {
	found := false
	ast.Inspect(n, func(x ast.Node) bool {
		if e, ok := x.(ast.Expr); ok && isCall(e, "recover") && len(e.(*ast.CallExpr).Args) == 0 {
			found = true
		}
		if _, ok := x.(*ast.FuncLit); ok && x != n {
			return false // recover() inside a nested closure does not recover for this one
		}
		return !found
	})
	return found
}

// stmtEvaluatesRecover: the statement evaluates recover() unconditionally when executed
// (`r := recover()`, `e := recover()`, `if r := recover(); …`).
func stmtEvaluatesRecover(s ast.Stmt) bool {
	switch t := s.(type) {
	case *ast.AssignStmt:
		return len(t.Rhs) == 1 && isCall(t.Rhs[0], "recover")
	case *ast.IfStmt:
		if t.Init != nil {
			return stmtEvaluatesRecover(t.Init)
		}
	case *ast.ExprStmt:
		return isCall(t.X, "recover")
	}
	return false
}

func isErrNotNil(e ast.Expr) bool {
	b, ok := e.(*ast.BinaryExpr)
	if !ok || b.Op != token.NEQ {
		return false
	}
	x, ok1 := b.X.(*ast.Ident)
	y, ok2 := b.Y.(*ast.Ident)
	return ok1 && ok2 && x.Name == "err" && y.Name == "nil"
}

// guardOf classifies where recover() sits in the body of a deferred function.
func guardOf(body *ast.BlockStmt) string {
	if !containsRecover(body) {
		return ".never"
	}
	for _, s := range body.List {
		if stmtEvaluatesRecover(s) {
			return ".always"
		}
		if _, ok := s.(*ast.ReturnStmt); ok {
			break
		}
		if containsRecover(s) {
			// first statement mentioning recover() is not an unconditional evaluation
			if ifs, ok := s.(*ast.IfStmt); ok && ifs.Init == nil && isErrNotNil(ifs.Cond) && ifs.Else == nil {
				for _, t := range ifs.Body.List {
					if stmtEvaluatesRecover(t) {
						return ".ifErrNonNil"
					}
					if containsRecover(t) {
						break
					}
				}
			}
			return ".unknown " + leanStr(src(s))
		}
	}
	return ".unknown " + leanStr(src(body))
}

// rethrowOf classifies the `panic(` calls of a deferred function.
func rethrowOf(body *ast.BlockStmt) string {
	var panics []*ast.CallExpr
	ast.Inspect(body, func(x ast.Node) bool {
		if c, ok := x.(*ast.CallExpr); ok && isCall(c, "panic") {
			panics = append(panics, c)
		}
		return true
	})
	if len(panics) == 0 {
		return ".nothing"
	}
	if len(panics) != 1 {
		return ".unknown " + leanStr(src(body))
	}
	// find the if statement guarding the panic
	var res string
	ast.Inspect(body, func(x ast.Node) bool {
		ifs, ok := x.(*ast.IfStmt)
		if !ok || res != "" {
			return true
		}
		// shape A: if _, ok := e.(runtime.Error); ok { panic(e) }
		if as, ok := ifs.Init.(*ast.AssignStmt); ok && len(as.Rhs) == 1 && len(ifs.Body.List) == 1 {
			if ta, ok := as.Rhs[0].(*ast.TypeAssertExpr); ok && src(ta.Type) == "runtime.Error" {
				if id, ok := ifs.Cond.(*ast.Ident); ok && id.Name == "ok" {
					if es, ok := ifs.Body.List[0].(*ast.ExprStmt); ok && es.X == ast.Expr(panics[0]) && src(panics[0].Args[0]) == src(ta.X) {
						res = ".runtimeErrors"
					}
				}
			}
		}
		// shape B: if r == ErrEmptyStack { … no panic … } else if r != nil { panic(r) }
		if b, ok := ifs.Cond.(*ast.BinaryExpr); ok && b.Op == token.EQL && src(b.Y) == "ErrEmptyStack" {
			if els, ok := ifs.Else.(*ast.IfStmt); ok && els.Else == nil && len(els.Body.List) == 1 {
				c, ok1 := els.Cond.(*ast.BinaryExpr)
				es, ok2 := els.Body.List[0].(*ast.ExprStmt)
				noPanicInThen := true
				ast.Inspect(ifs.Body, func(y ast.Node) bool {
					if cc, ok := y.(*ast.CallExpr); ok && isCall(cc, "panic") {
						noPanicInThen = false
					}
					return true
				})
				if ok1 && ok2 && noPanicInThen && c.Op == token.NEQ && src(c.X) == src(b.X) && src(c.Y) == "nil" &&
					es.X == ast.Expr(panics[0]) && src(panics[0].Args[0]) == src(b.X) {
					res = ".allButEmptyStack"
				}
			}
		}
		return true
	})
	if res == "" {
		return ".unknown " + leanStr(src(panics[0]))
	}
	return res
}

// assertsError: an `x.(error)` outside a comma-ok assignment.
func assertsError(body *ast.BlockStmt) bool {
	commaOK := map[ast.Expr]bool{}
	ast.Inspect(body, func(x ast.Node) bool {
		if as, ok := x.(*ast.AssignStmt); ok && len(as.Lhs) == 2 && len(as.Rhs) == 1 {
			commaOK[as.Rhs[0]] = true
		}
		return true
	})
	found := false
	ast.Inspect(body, func(x ast.Node) bool {
		if ta, ok := x.(*ast.TypeAssertExpr); ok && ta.Type != nil && src(ta.Type) == "error" && !commaOK[ta] {
			found = true
		}
		return true
	})
	return found
}

func shape(body *ast.BlockStmt) string {
	if body == nil {
		return "{ guard := .unknown \"deferred function not found\", rethrow := .unknown \"\", assertsError := true }"
	}
	return fmt.Sprintf("{ guard := %s, rethrow := %s, assertsError := %v }", guardOf(body), rethrowOf(body), assertsError(body))
}

// firstDeferredClosure returns the body of the first `defer func(...){…}(...)` in n.
func firstDeferredClosure(n ast.Node) *ast.BlockStmt {
	var res *ast.BlockStmt
	ast.Inspect(n, func(x ast.Node) bool {
		if d, ok := x.(*ast.DeferStmt); ok && res == nil {
			if fl, ok := d.Call.Fun.(*ast.FuncLit); ok {
				res = fl.Body
			}
		}
		return res == nil
	})
	return res
}

// hasArgsLenCheck: the function starts with `if len(args) != n { return … }`.
func hasArgsLenCheck(fd *ast.FuncDecl) bool {
	for _, st := range fd.Body.List {
		ifs, ok := st.(*ast.IfStmt)
		if !ok {
			continue
		}
		if strings.HasPrefix(src(ifs.Cond), "len(args) != ") && endsInReturn(ifs.Body) {
			return true
		}
	}
	return false
}

// insideArgsLenEq: the expression sits in the body of an `if len(args) == n {`.
func insideArgsLenEq(fd *ast.FuncDecl, e ast.Expr) bool {
	found := false
	ast.Inspect(fd.Body, func(n ast.Node) bool {
		if ifs, ok := n.(*ast.IfStmt); ok && strings.HasPrefix(src(ifs.Cond), "len(args) == ") &&
			ifs.Body.Pos() <= e.Pos() && e.End() <= ifs.Body.End() {
			found = true
		}
		return true
	})
	return found
}

func endsInReturn(b *ast.BlockStmt) bool {
	if len(b.List) == 0 {
		return false
	}
	_, ok := b.List[len(b.List)-1].(*ast.ReturnStmt)
	return ok
}

// classifySlice recognises exactly two guarded shapes and reports everything else as unknown:
//   (a) S[lo:hi] with S a string taken from `S, ok := args[k].(string)` and, BEFORE the slice, returning
//       ifs on `lo < 0`, `hi > int64(len(S))` / `hi > len(S)` (the length of the SAME operand) and `lo > hi`;
//   (b) xs[:i] / xs[i+1:] inside `for i, _ := range xs` (the index is the range key of the sliced operand).
func classifySlice(fd *ast.FuncDecl, se *ast.SliceExpr, where string) string {
	unknown := ".unknown " + leanStr(where+": "+src(se))
	x, ok := se.X.(*ast.Ident)
	if !ok || se.Slice3 {
		return unknown
	}
	// shape (b)
	rangeKey := ""
	ast.Inspect(fd.Body, func(n ast.Node) bool {
		if rs, ok := n.(*ast.RangeStmt); ok && src(rs.X) == x.Name && rs.Key != nil && rs.Pos() < se.Pos() && se.End() <= rs.End() {
			rangeKey = src(rs.Key)
		}
		return true
	})
	if rangeKey != "" {
		if se.Low == nil && se.High != nil && src(se.High) == rangeKey {
			return fmt.Sprintf(".rangeIndex %s %s", leanStr(where), leanStr(src(se)))
		}
		if se.High == nil && se.Low != nil && src(se.Low) == rangeKey+" + 1" {
			return fmt.Sprintf(".rangeIndex %s %s", leanStr(where), leanStr(src(se)))
		}
		return unknown
	}
	// shape (a)
	lo, ok1 := se.Low.(*ast.Ident)
	hi, ok2 := se.High.(*ast.Ident)
	if !ok1 || !ok2 {
		return unknown
	}
	isString := false
	var gLo, gHi, gOrd bool
	ast.Inspect(fd.Body, func(n ast.Node) bool {
		switch t := n.(type) {
		case *ast.AssignStmt:
			if len(t.Lhs) == 2 && len(t.Rhs) == 1 && src(t.Lhs[0]) == x.Name && t.Pos() < se.Pos() {
				if ta, ok := t.Rhs[0].(*ast.TypeAssertExpr); ok && ta.Type != nil && src(ta.Type) == "string" && strings.HasPrefix(src(ta.X), "args[") {
					isString = true
				}
			}
		case *ast.IfStmt:
			if t.End() > se.Pos() || t.Init != nil || t.Else != nil || !endsInReturn(t.Body) {
				return true
			}
			c := src(t.Cond)
			switch c {
			case lo.Name + " < 0":
				gLo = true
			case hi.Name + " > int64(len(" + x.Name + "))", hi.Name + " > len(" + x.Name + ")":
				gHi = true
			case lo.Name + " > " + hi.Name:
				gOrd = true
			}
		}
		return true
	})
	// the sliced operand must be the guarded string itself: no assignment to it between guard and slice
	reassigned := false
	ast.Inspect(fd.Body, func(n ast.Node) bool {
		if as, ok := n.(*ast.AssignStmt); ok && as.Pos() < se.Pos() {
			for _, l := range as.Lhs {
				if src(l) == x.Name && !(len(as.Lhs) == 2 && len(as.Rhs) == 1 && strings.HasPrefix(src(as.Rhs[0]), "args[")) {
					reassigned = true
				}
			}
		}
		return true
	})
	if isString && gLo && gHi && gOrd && !reassigned {
		return fmt.Sprintf(".guardedString %s %s", leanStr(where), leanStr(src(se)))
	}
	return unknown
}

func optBool(known, v bool) string {
	if !known {
		return "none"
	}
	return fmt.Sprintf("some %v", v)
}

func main() {
	repo := os.Getenv("VERIF_REPO")
	if repo == "" {
		repo = "/repo"
	}
	lean := os.Getenv("VERIF_LEAN")
	if lean == "" {
		lean = "/verif/lean"
	}
	var out strings.Builder
	out.WriteString("/- GENERATED by extract/c05shapes from the Go source — do not edit. -/\nimport Kap.Model.C05\nimport Kap.Model.C05Rr\nnamespace Kap.C05.Gen\n\n")

	// node.start
	nodeGo := parseFile(repo, "node.go")
	var nodeBody *ast.BlockStmt
	if fd := findFunc(nodeGo, "node", "start"); fd != nil {
		nodeBody = firstDeferredClosure(fd)
	}
	fmt.Fprintf(&out, "/-- node.go: the deferred closure of `node.start`. -/\ndef nodeStart : DeferShape := %s\n\n", shape(nodeBody))

	// parser.recover, panic arguments, stopParse
	parserGo := parseFile(repo, "tick/ast/parser.go")
	lexGo := parseFile(repo, "tick/ast/lex.go")
	var recBody *ast.BlockStmt
	if fd := findFunc(parserGo, "parser", "recover"); fd != nil {
		recBody = fd.Body
		// it must be what parse/parseLambda defer
		for _, name := range []string{"parse", "parseLambda"} {
			ok := false
			if pf := findFunc(parserGo, "parser", name); pf != nil {
				ast.Inspect(pf, func(x ast.Node) bool {
					if d, isD := x.(*ast.DeferStmt); isD && src(d.Call.Fun) == "p.recover" {
						ok = true
					}
					return true
				})
			}
			if !ok {
				recBody = nil
			}
		}
	}
	fmt.Fprintf(&out, "/-- tick/ast/parser.go: `parser.recover`, deferred by `parse` and `parseLambda`. -/\ndef parserRecover : DeferShape := %s\n\n", shape(recBody))
	errorsOnly, known := true, true
	for _, d := range parserGo.Decls {
		fd, ok := d.(*ast.FuncDecl)
		if !ok || fd.Body == nil {
			continue
		}
		ast.Inspect(fd.Body, func(x ast.Node) bool {
			c, ok := x.(*ast.CallExpr)
			if !ok || !isCall(c, "panic") || len(c.Args) != 1 {
				return true
			}
			a := src(c.Args[0])
			switch {
			case strings.HasPrefix(a, "fmt.Errorf("), strings.HasPrefix(a, "errors.New("):
			case fd.Name.Name == "recover" && a == "e": // re-panic of the recovered value
			default:
				errorsOnly = false
			}
			return true
		})
	}
	fmt.Fprintf(&out, "/-- every `panic(` in parser.go passes an error value (`fmt.Errorf(…)`) or re-panics. -/\ndef parserPanicsWithErrorsOnly : Option Bool := %s\n\n", optBool(known, errorsOnly))

	drains, dknown := false, false
	if sp := findFunc(parserGo, "parser", "stopParse"); sp != nil {
		dknown = true
		callsDrain := false
		onlySimple := true
		ast.Inspect(sp.Body, func(x ast.Node) bool {
			if c, ok := x.(*ast.CallExpr); ok {
				if src(c.Fun) == "p.lex.drain" {
					callsDrain = true
				} else {
					onlySimple = false
				}
			}
			return true
		})
		if callsDrain {
			// (*lexer).drain must be `for range l.tokens {}`
			okDrain := false
			if df := findFunc(lexGo, "lexer", "drain"); df != nil && len(df.Body.List) == 1 {
				if rs, ok := df.Body.List[0].(*ast.RangeStmt); ok && src(rs.X) == "l.tokens" && len(rs.Body.List) == 0 {
					okDrain = true
				}
			}
			if okDrain && onlySimple {
				drains = true
			} else {
				dknown = false
			}
		} else if !onlySimple {
			dknown = false
		}
	}
	fmt.Fprintf(&out, "/-- `parser.stopParse` receives the lexer's remaining tokens (`for range l.tokens {}`). -/\ndef stopParseDrains : Option Bool := %s\n\n", optBool(dknown, drains))

	// tick.Evaluate
	evalGo := parseFile(repo, "tick/eval.go")
	var evBody *ast.BlockStmt
	if fd := findFunc(evalGo, "", "Evaluate"); fd != nil {
		evBody = firstDeferredClosure(fd)
	}
	fmt.Fprintf(&out, "/-- tick/eval.go: the deferred closure of `tick.Evaluate`. -/\ndef evaluate : DeferShape := %s\n\n", shape(evBody))

	// lexer.peek
	pk, pkKnown := false, false
	if fd := findFunc(lexGo, "lexer", "peek"); fd != nil {
		var ss []string
		for _, s := range fd.Body.List {
			ss = append(ss, src(s))
		}
		j := strings.Join(ss, "; ")
		switch {
		case j == "r := l.next(); l.backup(); return r":
			pk, pkKnown = false, true
		case len(ss) == 5 && strings.HasSuffix(ss[0], ":= l.width") && ss[1] == "r := l.next()" && ss[2] == "l.backup()" &&
			ss[3] == "l.width = "+strings.TrimSuffix(ss[0], " := l.width") && ss[4] == "return r":
			pk, pkKnown = true, true
		}
	}
	fmt.Fprintf(&out, "/-- `lexer.peek` restores `l.width` after its next/backup pair. -/\ndef peekRestoresWidth : Option Bool := %s\n\n", optBool(pkKnown, pk))

	// TokenType iota block
	var consts []string
	for _, d := range lexGo.Decls {
		gd, ok := d.(*ast.GenDecl)
		if !ok || gd.Tok != token.CONST || len(gd.Specs) < 10 {
			continue
		}
		first, ok := gd.Specs[0].(*ast.ValueSpec)
		if !ok || len(first.Names) != 1 || first.Names[0].Name != "TokenError" || len(first.Values) != 1 || src(first.Values[0]) != "iota" {
			continue
		}
		for i, s := range gd.Specs {
			vs := s.(*ast.ValueSpec)
			if i > 0 && len(vs.Values) != 0 {
				consts = nil // not a plain iota block any more
				break
			}
			for _, n := range vs.Names {
				consts = append(consts, fmt.Sprintf("(%s, %d)", leanStr(n.Name), i))
			}
		}
	}
	fmt.Fprintf(&out, "/-- the `TokenType` iota block of lex.go. -/\ndef tokenConsts : List (String × Nat) := [%s]\n\n", strings.Join(consts, ", "))

	// getNode
	jsonGo := parseFile(repo, "tick/ast/json.go")
	var tags, odd []string
	defErr, defKnown := false, false
	if fd := findFunc(jsonGo, "JSONNode", "getNode"); fd != nil {
		ast.Inspect(fd.Body, func(x ast.Node) bool {
			sw, ok := x.(*ast.SwitchStmt)
			if !ok || src(sw.Tag) != "typ" {
				return true
			}
			defKnown = true
			for _, c := range sw.Body.List {
				cc := c.(*ast.CaseClause)
				if cc.List == nil { // default
					if len(cc.Body) == 1 {
						if rs, ok := cc.Body[0].(*ast.ReturnStmt); ok && len(rs.Results) == 2 && src(rs.Results[0]) == "nil" && src(rs.Results[1]) != "nil" {
							defErr = true
							continue
						}
					}
					defKnown = false
					continue
				}
				plain := len(cc.Body) == 1
				if plain {
					as, ok := cc.Body[0].(*ast.AssignStmt)
					plain = ok && len(as.Lhs) == 1 && src(as.Lhs[0]) == "n" && strings.HasPrefix(src(as.Rhs[0]), "&") && strings.HasSuffix(src(as.Rhs[0]), "Node{}")
				}
				for _, e := range cc.List {
					bl, ok := e.(*ast.BasicLit)
					if !ok || bl.Kind != token.STRING {
						odd = append(odd, src(e))
						continue
					}
					v, _ := strconv.Unquote(bl.Value)
					if plain {
						tags = append(tags, leanStr(v))
					} else {
						odd = append(odd, leanStr(v))
					}
				}
			}
			return false
		})
		// after the switch the node must be used as `n.unmarshal(node)`: that is the trap site when n is nil
	}
	fmt.Fprintf(&out, "/-- json.go `getNode`: tags whose case allocates a concrete node (`n = &XNode{}`). -/\ndef getNodeTags : List String := [%s]\n", strings.Join(tags, ", "))
	fmt.Fprintf(&out, "/-- cases of another shape (no lemma covers them). -/\ndef getNodeOddCases : List String := [%s]\n", strings.Join(odd, ", "))
	fmt.Fprintf(&out, "/-- the switch has a `default:` returning an error. -/\ndef getNodeDefaultErr : Option Bool := %s\n\n", optBool(defKnown, defErr))

	// explicit panics in the UDF code
	var sites []string
	for _, rel := range []string{"udf/server.go", "udf/agent/io.go"} {
		f := parseFile(repo, rel)
		for _, d := range f.Decls {
			fd, ok := d.(*ast.FuncDecl)
			if !ok || fd.Body == nil {
				continue
			}
			ast.Inspect(fd.Body, func(x ast.Node) bool {
				if c, ok := x.(*ast.CallExpr); ok && isCall(c, "panic") {
					sites = append(sites, leanStr(fd.Name.Name))
				}
				return true
			})
		}
	}
	fmt.Fprintf(&out, "/-- functions of udf/server.go and udf/agent/io.go that contain an explicit `panic(`. -/\ndef udfPanicSites : List String := [%s]\n\n", strings.Join(sites, ", "))

	// slice / index expressions in the builtin functions (tick/stateful/functions.go)
	fnGo := parseFile(repo, "tick/stateful/functions.go")
	var sliceSites []string
	for _, d := range fnGo.Decls {
		fd, ok := d.(*ast.FuncDecl)
		if !ok || fd.Body == nil || fd.Name.Name != "Call" {
			continue // the data-dependent path: the builtins' Call methods
		}
		recv := ""
		if fd.Recv != nil && len(fd.Recv.List) == 1 {
			recv = src(fd.Recv.List[0].Type) + "."
		}
		where := recv + fd.Name.Name
		ast.Inspect(fd.Body, func(x ast.Node) bool {
			switch t := x.(type) {
			case *ast.SliceExpr:
				sliceSites = append(sliceSites, classifySlice(fd, t, where))
			case *ast.IndexExpr:
				if id, ok := t.X.(*ast.Ident); ok && id.Name == "args" {
					if _, lit := t.Index.(*ast.BasicLit); lit && (hasArgsLenCheck(fd) || insideArgsLenEq(fd, t)) {
						return true // args[k] behind `if len(args) != n { return }` or inside `if len(args) == n {`
					}
				}
				sliceSites = append(sliceSites, ".unknown "+leanStr(where+": "+src(t)))
			}
			return true
		})
	}
	fmt.Fprintf(&out, "/-- every slice / index expression in the `Call` methods of tick/stateful/functions.go (other than\n`args[k]` behind a `len(args)` check), with the guards that dominate it. -/\ndef funcSliceSites : List SliceSite := [%s]\n\n", strings.Join(sliceSites, ", "))

	// inventory of every slice / index expression in the parser and the node constructors
	// (tick/ast/parser.go, tick/ast/node.go): compared with a REVIEWED list in Kap/Model/C05.lean
	var astSites []string
	for _, rel := range []string{"tick/ast/parser.go", "tick/ast/node.go"} {
		f := parseFile(repo, rel)
		for _, d := range f.Decls {
			fd, ok := d.(*ast.FuncDecl)
			if !ok || fd.Body == nil {
				continue
			}
			recv := ""
			if fd.Recv != nil && len(fd.Recv.List) == 1 {
				recv = strings.TrimPrefix(src(fd.Recv.List[0].Type), "*") + "."
			}
			ast.Inspect(fd.Body, func(x ast.Node) bool {
				switch x.(type) {
				case *ast.SliceExpr, *ast.IndexExpr:
					astSites = append(astSites, fmt.Sprintf("(%s, %s)", leanStr(recv+fd.Name.Name), leanStr(src(x))))
				}
				return true
			})
		}
	}
	fmt.Fprintf(&out, "/-- every slice / index expression of tick/ast/parser.go and tick/ast/node.go: (function, source). -/\ndef astSliceSites : List (String × String) := [%s]\n\n", strings.Join(astSites, ",\n  "))

	// tick/eval.go: the recover closure of evalFunc and what it protects
	var recBody2 *ast.BlockStmt
	defersRec, defersKnown := false, false
	if fd := findFunc(evalGo, "", "evalFunc"); fd != nil {
		ast.Inspect(fd.Body, func(x ast.Node) bool {
			if as, ok := x.(*ast.AssignStmt); ok && len(as.Lhs) == 1 && len(as.Rhs) == 1 && src(as.Lhs[0]) == "rec" {
				if fl, ok := as.Rhs[0].(*ast.FuncLit); ok {
					recBody2 = fl.Body
				}
			}
			// fnc := unboundFunc(func(obj interface{}) (…) { defer rec(obj, &err); … })
			if ce, ok := x.(*ast.CallExpr); ok && src(ce.Fun) == "unboundFunc" && len(ce.Args) == 1 {
				if fl, ok := ce.Args[0].(*ast.FuncLit); ok {
					defersKnown = true
					if len(fl.Body.List) > 0 {
						if d, ok := fl.Body.List[0].(*ast.DeferStmt); ok && src(d.Call.Fun) == "rec" {
							defersRec = true
						}
					}
				}
			}
			return true
		})
	}
	fmt.Fprintf(&out, "/-- tick/eval.go: the closure `rec` of `evalFunc` (deferred around every reflective call). -/\ndef evalFuncRecover : DeferShape := %s\n", shape(recBody2))
	fmt.Fprintf(&out, "/-- the function value built by `evalFunc` starts with `defer rec(obj, &err)`. -/\ndef evalFuncDefersRec : Option Bool := %s\n\n", optBool(defersKnown, defersRec))

	// inventory of slice / index / unchecked type-assertion sites of the evaluator (tick/eval.go, tick/stack.go)
	var evalSites []string
	for _, rel := range []string{"tick/eval.go", "tick/stack.go"} {
		f := parseFile(repo, rel)
		for _, d := range f.Decls {
			fd, ok := d.(*ast.FuncDecl)
			if !ok || fd.Body == nil {
				continue
			}
			recv := ""
			if fd.Recv != nil && len(fd.Recv.List) == 1 {
				recv = strings.TrimPrefix(src(fd.Recv.List[0].Type), "*") + "."
			}
			commaOK := map[ast.Expr]bool{}
			ast.Inspect(fd.Body, func(x ast.Node) bool {
				if as, ok := x.(*ast.AssignStmt); ok && len(as.Lhs) == 2 && len(as.Rhs) == 1 {
					commaOK[as.Rhs[0]] = true
				}
				if ts, ok := x.(*ast.TypeSwitchStmt); ok {
					ast.Inspect(ts.Assign, func(y ast.Node) bool {
						if ta, ok := y.(*ast.TypeAssertExpr); ok {
							commaOK[ta] = true
						}
						return true
					})
				}
				return true
			})
			ast.Inspect(fd.Body, func(x ast.Node) bool {
				switch t := x.(type) {
				case *ast.SliceExpr, *ast.IndexExpr:
					evalSites = append(evalSites, fmt.Sprintf("(%s, %s)", leanStr(recv+fd.Name.Name), leanStr(src(x))))
				case *ast.TypeAssertExpr:
					if !commaOK[t] && t.Type != nil {
						evalSites = append(evalSites, fmt.Sprintf("(%s, %s)", leanStr(recv+fd.Name.Name), leanStr(src(x))))
					}
				}
				return true
			})
		}
	}
	fmt.Fprintf(&out, "/-- every slice / index / unchecked type-assertion expression of tick/eval.go and tick/stack.go. -/\ndef evalSliceSites : List (String × String) := [%s]\n\n", strings.Join(evalSites, ",\n  "))

	// tick/ast/json.go: which pointer/interface-returning accessors answer (nil, nil) for a JSON null
	var nullAcc []string
	accKnown := true
	for _, name := range []string{"Regex", "Node", "IDNode", "RefNode"} {
		fd := findFunc(jsonGo, "JSONNode", name)
		if fd == nil {
			accKnown = false
			continue
		}
		ast.Inspect(fd.Body, func(x ast.Node) bool {
			ifs, ok := x.(*ast.IfStmt)
			if !ok {
				return true
			}
			b, ok := ifs.Cond.(*ast.BinaryExpr)
			if !ok || b.Op != token.EQL || src(b.Y) != "nil" {
				return true
			}
			if _, isErr := b.X.(*ast.Ident); isErr && src(b.X) == "err" {
				return true
			}
			for _, st := range ifs.Body.List {
				if rs, ok := st.(*ast.ReturnStmt); ok && len(rs.Results) == 2 && src(rs.Results[1]) == "nil" {
					nullAcc = append(nullAcc, leanStr(name))
				}
			}
			return true
		})
	}
	if !accKnown {
		nullAcc = append(nullAcc, leanStr("?unknown accessor set"))
	}
	fmt.Fprintf(&out, "/-- JSONNode accessors returning a pointer / interface that answer `(nil, nil)` when the field is null\n(`if x == nil { return nil, nil }`). -/\ndef jsonNullAccepting : List String := [%s]\n\n", strings.Join(nullAcc, ", "))

	out.WriteString(udfRouting(repo))
	out.WriteString(udfWrapperGuards(repo))

	out.WriteString("end Kap.C05.Gen\n")
	path := filepath.Join(lean, "Kap", "Gen", "C05.lean")
	os.MkdirAll(filepath.Dir(path), 0o755)
	if old, err := os.ReadFile(path); err == nil && string(old) == out.String() {
		return // unchanged: keep the timestamp so that lake does not rebuild
	}
	if err := os.WriteFile(path, []byte(out.String()), 0o644); err != nil {
		fmt.Fprintln(os.Stderr, "c05shapes:", err)
		os.Exit(1)
	}
}
