package main

// udf/server.go: the request / response pairing of udf.Server.
//   - handleResponse: for the cases `*agent.Response_{Info,Init,Snapshot,Restore}` of its type switch, the
//     channel the response is handed to (`s.doResponse(response, s.<chan>)`, resolved through doResponse's
//     parameter or, when doResponse sends to a field itself, that field)
//   - Info/Init/Snapshot/Restore: the channel `s.doRequestResponse(req, …)` receives from (resolved the same
//     way) and the type of the unchecked assertion on the response
//   - NewServer: the buffer size of each of those channels
// Anything of another shape goes to `udfRrOdd` (fail closed: `wellFormed` is then false).

import (
	"fmt"
	"go/ast"
	"go/token"
	"strings"
)

var rrKinds = []string{"Info", "Init", "Snapshot", "Restore"}

func rrLeanKind(name string) string { return "." + strings.ToLower(name) }

func rrKindOfType(e ast.Expr) string {
	s := src(e)
	for _, k := range rrKinds {
		if s == "*agent.Response_"+k {
			return k
		}
	}
	return ""
}

func recvName(fd *ast.FuncDecl) string {
	if fd.Recv != nil && len(fd.Recv.List) == 1 && len(fd.Recv.List[0].Names) == 1 {
		return fd.Recv.List[0].Names[0].Name
	}
	return ""
}

func paramIndex(fd *ast.FuncDecl, name string) int {
	i := 0
	for _, f := range fd.Type.Params.List {
		for _, n := range f.Names {
			if n.Name == name {
				return i
			}
			i++
		}
	}
	return -1
}

// fieldOf: `<recv>.<field>` → field
func fieldOf(e ast.Expr, recv string) string {
	if se, ok := e.(*ast.SelectorExpr); ok {
		if id, ok := se.X.(*ast.Ident); ok && id.Name == recv {
			return se.Sel.Name
		}
	}
	return ""
}

// helperChan finds THE channel operation of a helper: the send (doResponse) or the receive other than the
// abort/stop signals (doRequestResponse). Result: parameter position (>= 0) or field name.
func helperChan(fd *ast.FuncDecl, send bool) (param int, field string, problem string) {
	recv := recvName(fd)
	var chans []ast.Expr
	nonBlocking := true
	ast.Inspect(fd.Body, func(x ast.Node) bool {
		switch t := x.(type) {
		case *ast.SelectStmt:
			if send {
				hasDefault, hasSend := false, false
				for _, c := range t.Body.List {
					cc := c.(*ast.CommClause)
					if cc.Comm == nil {
						hasDefault = true
					} else if _, ok := cc.Comm.(*ast.SendStmt); ok {
						hasSend = true
					}
				}
				if hasSend && !hasDefault {
					nonBlocking = false
				}
			}
		case *ast.SendStmt:
			if send {
				chans = append(chans, t.Chan)
			}
		case *ast.UnaryExpr:
			if !send && t.Op == token.ARROW {
				if f := fieldOf(t.X, recv); f == "aborting" || f == "stopping" {
					return true
				}
				chans = append(chans, t.X)
			}
		}
		return true
	})
	if len(chans) != 1 {
		return -1, "", fmt.Sprintf("%s: %d channel operations", fd.Name.Name, len(chans))
	}
	if send && !nonBlocking {
		return -1, "", fd.Name.Name + ": the send is not guarded by a default case"
	}
	if send {
		// the send must sit in a select (with default, checked above); a bare send statement would block the reader
		bare := false
		for _, st := range fd.Body.List {
			if _, ok := st.(*ast.SendStmt); ok {
				bare = true
			}
		}
		if bare {
			return -1, "", fd.Name.Name + ": bare (blocking) send"
		}
	}
	if id, ok := chans[0].(*ast.Ident); ok {
		if i := paramIndex(fd, id.Name); i >= 0 {
			return i, "", ""
		}
	}
	if f := fieldOf(chans[0], recv); f != "" {
		return -1, f, ""
	}
	return -1, "", fd.Name.Name + ": channel " + src(chans[0])
}

func udfRouting(repo string) string {
	f := parseFile(repo, "udf/server.go")
	var odd []string
	var chanNames []string
	idx := func(name string) int {
		for i, n := range chanNames {
			if n == name {
				return i
			}
		}
		chanNames = append(chanNames, name)
		return len(chanNames) - 1
	}
	// resolve the channel of a call of a helper
	resolve := func(call *ast.CallExpr, caller *ast.FuncDecl, helper *ast.FuncDecl, send bool) (int, bool) {
		if helper == nil {
			odd = append(odd, "helper not found for "+src(call))
			return 0, false
		}
		p, field, problem := helperChan(helper, send)
		if problem != "" {
			odd = append(odd, problem)
			return 0, false
		}
		if field != "" {
			return idx(field), true
		}
		if p < len(call.Args) {
			if fl := fieldOf(call.Args[p], recvName(caller)); fl != "" {
				return idx(fl), true
			}
		}
		odd = append(odd, caller.Name.Name+": "+src(call))
		return 0, false
	}
	isHelperCall := func(e ast.Expr, caller *ast.FuncDecl, name string) *ast.CallExpr {
		c, ok := e.(*ast.CallExpr)
		if !ok {
			return nil
		}
		se, ok := c.Fun.(*ast.SelectorExpr)
		if !ok || se.Sel.Name != name {
			return nil
		}
		if id, ok := se.X.(*ast.Ident); !ok || id.Name != recvName(caller) {
			return nil
		}
		return c
	}
	doResponse := findFunc(f, "Server", "doResponse")
	doRequestResponse := findFunc(f, "Server", "doRequestResponse")

	var route, reads, asserts []string
	// handleResponse
	if hr := findFunc(f, "Server", "handleResponse"); hr == nil {
		odd = append(odd, "handleResponse not found")
	} else {
		nsw := 0
		ast.Inspect(hr.Body, func(x ast.Node) bool {
			ts, ok := x.(*ast.TypeSwitchStmt)
			if !ok {
				return true
			}
			nsw++
			for _, c := range ts.Body.List {
				cc := c.(*ast.CaseClause)
				for _, te := range cc.List {
					k := rrKindOfType(te)
					if k == "" {
						continue
					}
					var call *ast.CallExpr
					if len(cc.Body) == 1 {
						if es, ok := cc.Body[0].(*ast.ExprStmt); ok {
							call = isHelperCall(es.X, hr, "doResponse")
						}
					}
					if call == nil {
						odd = append(odd, "handleResponse case "+k+": body is not a single s.doResponse call")
						continue
					}
					if ch, ok := resolve(call, hr, doResponse, true); ok {
						route = append(route, fmt.Sprintf("(%s, %d)", rrLeanKind(k), ch))
					}
				}
			}
			return false
		})
		if nsw != 1 {
			odd = append(odd, fmt.Sprintf("handleResponse: %d type switches", nsw))
		}
	}
	// the four request methods
	for _, k := range rrKinds {
		fd := findFunc(f, "Server", k)
		if fd == nil {
			odd = append(odd, k+" not found")
			continue
		}
		var calls []*ast.CallExpr
		var tas []*ast.TypeAssertExpr
		checked := false
		ast.Inspect(fd.Body, func(x ast.Node) bool {
			switch t := x.(type) {
			case *ast.CallExpr:
				if c := isHelperCall(t, fd, "doRequestResponse"); c != nil {
					calls = append(calls, c)
				}
			case *ast.TypeAssertExpr:
				if t.Type != nil {
					tas = append(tas, t)
				}
			case *ast.AssignStmt:
				if len(t.Lhs) == 2 && len(t.Rhs) == 1 {
					if _, ok := t.Rhs[0].(*ast.TypeAssertExpr); ok {
						checked = true
					}
				}
			case *ast.TypeSwitchStmt:
				checked = true
			}
			return true
		})
		if len(calls) != 1 {
			odd = append(odd, fmt.Sprintf("%s: %d doRequestResponse calls", k, len(calls)))
		} else if ch, ok := resolve(calls[0], fd, doRequestResponse, false); ok {
			reads = append(reads, fmt.Sprintf("(%s, %d)", rrLeanKind(k), ch))
		}
		switch {
		case checked:
			odd = append(odd, k+": the response type is checked (comma-ok / type switch): the model's trap site is gone")
		case len(tas) != 1:
			odd = append(odd, fmt.Sprintf("%s: %d type assertions", k, len(tas)))
		case rrKindOfType(tas[0].Type) == "" || src(tas[0].X) != "resp.Message":
			odd = append(odd, k+": "+src(tas[0]))
		default:
			asserts = append(asserts, fmt.Sprintf("(%s, %s)", rrLeanKind(k), rrLeanKind(rrKindOfType(tas[0].Type))))
		}
	}
	// NewServer: buffer sizes
	caps := map[string]string{}
	if ns := findFunc(f, "", "NewServer"); ns != nil {
		ast.Inspect(ns.Body, func(x ast.Node) bool {
			kv, ok := x.(*ast.KeyValueExpr)
			if !ok {
				return true
			}
			key, ok := kv.Key.(*ast.Ident)
			if !ok || !isCall(kv.Value, "make") {
				return true
			}
			args := kv.Value.(*ast.CallExpr).Args
			if len(args) == 1 {
				caps[key.Name] = "some 0"
			} else if len(args) == 2 {
				if bl, ok := args[1].(*ast.BasicLit); ok && bl.Kind == token.INT {
					caps[key.Name] = "some " + bl.Value
				}
			}
			return true
		})
	}
	var chans []string
	for _, n := range chanNames {
		c, ok := caps[n]
		if !ok {
			c = "none"
		}
		chans = append(chans, fmt.Sprintf("(%s, %s)", leanStr(n), c))
	}
	var oddL []string
	for _, o := range odd {
		oddL = append(oddL, leanStr(o))
	}
	var b strings.Builder
	fmt.Fprintf(&b, "/-- udf/server.go: the one-slot channels that carry the answers to Info/Init/Snapshot/Restore\n(position = channel number) with their buffer size in `NewServer`. -/\ndef udfChans : List (String × Option Nat) := [%s]\n", strings.Join(chans, ", "))
	fmt.Fprintf(&b, "/-- `handleResponse`: the channel a response of each kind is handed to (`doResponse`). -/\ndef udfRoute : List (Rr.Kind × Nat) := [%s]\n", strings.Join(route, ", "))
	fmt.Fprintf(&b, "/-- `Info`/`Init`/`Snapshot`/`Restore`: the channel `doRequestResponse` receives the answer from. -/\ndef udfReads : List (Rr.Kind × Nat) := [%s]\n", strings.Join(reads, ", "))
	fmt.Fprintf(&b, "/-- … and the type their unchecked assertion `resp.Message.(*agent.Response_J)` demands. -/\ndef udfAsserts : List (Rr.Kind × Rr.Kind) := [%s]\n", strings.Join(asserts, ", "))
	fmt.Fprintf(&b, "/-- shapes the extractor did not recognise (no lemma covers them). -/\ndef udfRrOdd : List String := [%s]\n\n", strings.Join(oddL, ", "))
	return b.String()
}

// udf.go: do UDFProcess / UDFSocket .Snapshot and .Abort check for the server that Open() has not created yet?
// guarded = the body compares something named …server… with nil.
func udfWrapperGuards(repo string) string {
	f := parseFile(repo, "udf.go")
	var ents []string
	for _, w := range []struct{ recv, meth, lean string }{
		{"UDFProcess", "Snapshot", ".processSnapshot"}, {"UDFProcess", "Abort", ".processAbort"},
		{"UDFSocket", "Snapshot", ".socketSnapshot"}, {"UDFSocket", "Abort", ".socketAbort"},
	} {
		fd := findFunc(f, w.recv, w.meth)
		if fd == nil || fd.Body == nil {
			continue // absent: guardOf is false
		}
		guarded := false
		ast.Inspect(fd.Body, func(x ast.Node) bool {
			if b, ok := x.(*ast.BinaryExpr); ok && (b.Op == token.EQL || b.Op == token.NEQ) {
				l, r := src(b.X), src(b.Y)
				if (r == "nil" && strings.Contains(l, "server")) || (l == "nil" && strings.Contains(r, "server")) {
					guarded = true
				}
			}
			return true
		})
		ents = append(ents, fmt.Sprintf("(%s, %v)", w.lean, guarded))
	}
	return fmt.Sprintf("/-- udf.go: the wrapper methods reachable before Open() and whether they check for the missing server. -/\ndef udfWrapperGuards : List (Rr.Wrapper × Bool) := [%s]\n\n", strings.Join(ents, ", "))
}
