module c06groups

go 1.18
