// Extractor for property C06: the structural fact "every NewGroup allocates the state its group uses", read off the Go
// SOURCE of the kapacitor root package (go/ast, standard library only, purely syntactic) and written to
// lean/Kap/Gen/C06.lean, where Kap.Props.C06Scan states and checks the claim over the generated table.
//
// For every type T with a method NewGroup (a GroupedReceiver driven by edge.groupedConsumer) it emits
//   - groupTypes: the struct types with receiver methods (Point/BeginBatch/...) that are built by composite literals in the
//     code reachable from T.NewGroup (methods of T and package-level functions, depth <= 6) — the per-group receivers;
//   - exprFields: each field of T whose type mentions stateful.Expression, with how the run-time code (all methods of T and of
//     its group types) uses it: `copyResetOnly` (only x.CopyReset(), range-and-CopyReset, passed to a function that only does
//     that, len/nil tests), `evaluated` (anything else: the compiled expression object — and the state of its stateful
//     functions — is used by all groups), or `unknown` for a shape the extractor does not recognise;
//   - mutated: node-level fields that methods of T (other than run*) or methods of its group types assign / increment /
//     index-assign / delete from / take the address of — node-level MUTABLE state reachable from a per-group receiver;
//   - assignedInRun: fields assigned in T's run* method (once, before the consumer starts).
// FAIL CLOSED: a node without recognisable group types gets groupTypes = [], an unrecognised use is `unknown`; the Lean
// statement is false on both. Env: VERIF_REPO (default /repo), VERIF_LEAN (default /verif/lean).
package main

import (
	"bytes"
	"fmt"
	"go/ast"
	"go/parser"
	"go/printer"
	"go/token"
	"os"
	"path/filepath"
	"sort"
	"strconv"
	"strings"
)

var entryMethods = map[string]bool{"BeginBatch": true, "BatchPoint": true, "EndBatch": true, "Point": true, "Barrier": true,
	"DeleteGroup": true, "BufferedBatch": true}

type method struct {
	recvName string
	decl     *ast.FuncDecl
}

var (
	fset    = token.NewFileSet()
	structs = map[string]*ast.StructType{}
	funcs   = map[string]*ast.FuncDecl{}
	methods = map[string]map[string]method{} // type -> name -> method
)

func src(n ast.Node) string {
	var b bytes.Buffer
	printer.Fprint(&b, fset, n)
	return strings.Join(strings.Fields(b.String()), " ")
}

func recvType(fd *ast.FuncDecl) (string, string) {
	if fd.Recv == nil || len(fd.Recv.List) == 0 {
		return "", ""
	}
	t := fd.Recv.List[0].Type
	if s, ok := t.(*ast.StarExpr); ok {
		t = s.X
	}
	id, ok := t.(*ast.Ident)
	if !ok {
		return "", ""
	}
	name := ""
	if len(fd.Recv.List[0].Names) > 0 {
		name = fd.Recv.List[0].Names[0].Name
	}
	return id.Name, name
}

func fieldsOf(t string) map[string]string { // field name -> type source (embedded structs of the package are flattened)
	out := map[string]string{}
	st, ok := structs[t]
	if !ok {
		return out
	}
	for _, f := range st.Fields.List {
		ts := src(f.Type)
		if len(f.Names) == 0 {
			base := strings.TrimPrefix(ts, "*")
			for k, v := range fieldsOf(base) {
				out[k] = v
			}
			continue
		}
		for _, n := range f.Names {
			out[n.Name] = ts
		}
	}
	return out
}

// reachable function bodies from T.NewGroup
func reachable(T string) []*ast.FuncDecl {
	var out []*ast.FuncDecl
	seen := map[string]bool{}
	var visit func(fd *ast.FuncDecl, recv string, depth int)
	visit = func(fd *ast.FuncDecl, recv string, depth int) {
		key := fmt.Sprint(fd.Pos())
		if fd.Body == nil || seen[key] || depth > 6 {
			return
		}
		seen[key] = true
		out = append(out, fd)
		ast.Inspect(fd.Body, func(n ast.Node) bool {
			c, ok := n.(*ast.CallExpr)
			if !ok {
				return true
			}
			switch f := c.Fun.(type) {
			case *ast.Ident:
				if g, ok := funcs[f.Name]; ok {
					visit(g, "", depth+1)
				}
			case *ast.SelectorExpr:
				if x, ok := f.X.(*ast.Ident); ok && recv != "" && x.Name == recv {
					if m, ok := methods[T][f.Sel.Name]; ok {
						visit(m.decl, m.recvName, depth+1)
					}
				}
			}
			return true
		})
	}
	if m, ok := methods[T]["NewGroup"]; ok {
		visit(m.decl, m.recvName, 0)
	}
	return out
}

func isReceiverType(t string) bool {
	for m := range methods[t] {
		if entryMethods[m] {
			return true
		}
	}
	// a type embedding a receiver type
	if st, ok := structs[t]; ok {
		for _, f := range st.Fields.List {
			if len(f.Names) == 0 {
				if isReceiverType(strings.TrimPrefix(src(f.Type), "*")) {
					return true
				}
			}
		}
	}
	return false
}

type use struct{ kind, detail string }

type facts struct {
	node          string
	groupTypes    []string
	exprFields    map[string]use
	mutated       map[string]bool
	assignedInRun map[string]bool
}

// paramOnlyCopyReset: does package function fn use its idx-th parameter only by ranging over it and calling CopyReset on
// the elements (or len / nil tests)?
func paramOnlyCopyReset(fn *ast.FuncDecl, idx int) bool {
	i := 0
	name := ""
	for _, f := range fn.Type.Params.List {
		for _, n := range f.Names {
			if i == idx {
				name = n.Name
			}
			i++
		}
	}
	if name == "" || fn.Body == nil {
		return false
	}
	ok := true
	parents := parentMap(fn.Body)
	ast.Inspect(fn.Body, func(n ast.Node) bool {
		id, isId := n.(*ast.Ident)
		if !isId || id.Name != name {
			return true
		}
		if k := classifyExprUse(id, parents, fn.Body); k.kind != "copyResetOnly" {
			ok = false
		}
		return true
	})
	return ok
}

func parentMap(root ast.Node) map[ast.Node]ast.Node {
	pm := map[ast.Node]ast.Node{}
	var stack []ast.Node
	ast.Inspect(root, func(n ast.Node) bool {
		if n == nil {
			stack = stack[:len(stack)-1]
			return true
		}
		if len(stack) > 0 {
			pm[n] = stack[len(stack)-1]
		}
		stack = append(stack, n)
		return true
	})
	return pm
}

// valueOnlyCopyReset: inside body, is identifier v used only as v.CopyReset() or in nil comparisons?
func valueOnlyCopyReset(v string, body ast.Node) bool {
	ok := true
	parents := parentMap(body)
	ast.Inspect(body, func(n ast.Node) bool {
		id, isId := n.(*ast.Ident)
		if !isId || id.Name != v {
			return true
		}
		p := parents[id]
		switch pp := p.(type) {
		case *ast.SelectorExpr:
			if pp.X == id && pp.Sel.Name == "CopyReset" {
				if _, isCall := parents[pp].(*ast.CallExpr); isCall {
					return true
				}
			}
			if pp.Sel == id { // a field/method that happens to have the same name
				return true
			}
		case *ast.BinaryExpr:
			if pp.Op == token.EQL || pp.Op == token.NEQ {
				return true
			}
		case *ast.RangeStmt:
			if pp.Value == id || pp.Key == id {
				return true
			}
		}
		ok = false
		return true
	})
	return ok
}

// classifyExprUse classifies ONE occurrence `e` (a selector chain or identifier denoting a node-level expression field).
func classifyExprUse(e ast.Expr, parents map[ast.Node]ast.Node, scope ast.Node) use {
	p := parents[e]
	switch pp := p.(type) {
	case *ast.SelectorExpr: // e.CopyReset()
		if pp.X == e && pp.Sel.Name == "CopyReset" {
			if _, ok := parents[pp].(*ast.CallExpr); ok {
				return use{"copyResetOnly", ""}
			}
		}
	case *ast.RangeStmt: // for i, x := range e { ... x.CopyReset() ... }
		if pp.X == e {
			if pp.Value == nil {
				return use{"copyResetOnly", ""}
			}
			if v, ok := pp.Value.(*ast.Ident); ok && valueOnlyCopyReset(v.Name, pp.Body) {
				return use{"copyResetOnly", ""}
			}
			return use{"evaluated", src(pp.X) + " ranged, elements used directly"}
		}
	case *ast.CallExpr:
		if id, ok := pp.Fun.(*ast.Ident); ok {
			if id.Name == "len" || id.Name == "cap" {
				return use{"copyResetOnly", ""}
			}
			if fn, ok := funcs[id.Name]; ok {
				for i, a := range pp.Args {
					if a == e && paramOnlyCopyReset(fn, i) {
						return use{"copyResetOnly", ""}
					}
				}
			}
		}
		return use{"evaluated", src(pp)}
	case *ast.BinaryExpr:
		if pp.Op == token.EQL || pp.Op == token.NEQ {
			return use{"copyResetOnly", ""}
		}
	case *ast.IndexExpr:
		if pp.X == e {
			return use{"evaluated", src(pp)}
		}
	}
	if p == nil {
		return use{"unknown", src(e)}
	}
	return use{"evaluated", src(p)}
}

func worse(a, b use) use {
	rank := map[string]int{"": 0, "copyResetOnly": 1, "evaluated": 2, "unknown": 3}
	if rank[b.kind] > rank[a.kind] {
		return b
	}
	return a
}

func scanMethod(fa *facts, fd *ast.FuncDecl, recv string, nodeFields map[string]string, viaNodeRef map[string]bool, isNodeMethod bool, inRun bool) {
	if fd.Body == nil {
		return
	}
	parents := parentMap(fd.Body)
	// aliases of the node: x := g.n
	alias := map[string]bool{}
	if isNodeMethod {
		alias[recv] = true
	}
	ast.Inspect(fd.Body, func(n ast.Node) bool {
		as, ok := n.(*ast.AssignStmt)
		if !ok || len(as.Lhs) != 1 || len(as.Rhs) != 1 {
			return true
		}
		if sel, ok := as.Rhs[0].(*ast.SelectorExpr); ok {
			if x, ok := sel.X.(*ast.Ident); ok && x.Name == recv && viaNodeRef[sel.Sel.Name] {
				if id, ok := as.Lhs[0].(*ast.Ident); ok {
					alias[id.Name] = true
				}
			}
		}
		return true
	})
	// node field accesses
	isNodeField := func(e ast.Expr) (string, bool) {
		sel, ok := e.(*ast.SelectorExpr)
		if !ok {
			return "", false
		}
		if _, ok := nodeFields[sel.Sel.Name]; !ok {
			return "", false
		}
		switch x := sel.X.(type) {
		case *ast.Ident:
			if alias[x.Name] {
				return sel.Sel.Name, true
			}
		case *ast.SelectorExpr:
			if r, ok := x.X.(*ast.Ident); ok && r.Name == recv && viaNodeRef[x.Sel.Name] {
				return sel.Sel.Name, true
			}
		}
		return "", false
	}
	mark := func(f string) {
		if inRun {
			fa.assignedInRun[f] = true
		} else {
			fa.mutated[f] = true
		}
	}
	lhsField := func(e ast.Expr) (string, bool) {
		for {
			switch x := e.(type) {
			case *ast.IndexExpr:
				e = x.X
				continue
			case *ast.ParenExpr:
				e = x.X
				continue
			case *ast.StarExpr:
				e = x.X
				continue
			}
			break
		}
		return isNodeField(e)
	}
	ast.Inspect(fd.Body, func(n ast.Node) bool {
		switch x := n.(type) {
		case *ast.AssignStmt:
			for _, l := range x.Lhs {
				if f, ok := lhsField(l); ok {
					mark(f)
				}
			}
		case *ast.IncDecStmt:
			if f, ok := lhsField(x.X); ok {
				mark(f)
			}
		case *ast.UnaryExpr:
			if x.Op == token.AND {
				if f, ok := lhsField(x.X); ok {
					mark(f)
				}
			}
		case *ast.CallExpr:
			if id, ok := x.Fun.(*ast.Ident); ok && id.Name == "delete" && len(x.Args) > 0 {
				if f, ok := lhsField(x.Args[0]); ok {
					mark(f)
				}
			}
		case *ast.SelectorExpr:
			if f, ok := isNodeField(x); ok && strings.Contains(nodeFields[f], "stateful.Expression") {
				fa.exprFields[f] = worse(fa.exprFields[f], classifyExprUse(x, parents, fd.Body))
			}
		}
		return true
	})
}

func chars(s string) string {
	var o []string
	for _, r := range s {
		switch r {
		case '\'':
			o = append(o, `'\''`)
		case '\\':
			o = append(o, `'\\'`)
		default:
			o = append(o, "'"+string(r)+"'")
		}
	}
	return "[" + strings.Join(o, ",") + "]"
}

func lq(s string) string { return "\"" + strings.NewReplacer("\\", "\\\\", "\"", "\\\"").Replace(s) + "\"" }
func llist(xs []string) string {
	q := make([]string, len(xs))
	for i, x := range xs {
		q[i] = lq(x)
	}
	return "[" + strings.Join(q, ", ") + "]"
}
func keys(m map[string]bool) []string {
	var o []string
	for k := range m {
		o = append(o, k)
	}
	sort.Strings(o)
	return o
}

func main() {
	repo := os.Getenv("VERIF_REPO")
	if repo == "" {
		repo = "/repo"
	}
	lean := os.Getenv("VERIF_LEAN")
	if lean == "" {
		lean = "/verif/lean"
	}
	matches, _ := filepath.Glob(filepath.Join(repo, "*.go"))
	sort.Strings(matches)
	for _, f := range matches {
		b := filepath.Base(f)
		if strings.HasSuffix(b, "_test.go") || strings.HasPrefix(b, "verif_hooks") {
			continue
		}
		file, err := parser.ParseFile(fset, f, nil, 0)
		if err != nil {
			fmt.Fprintln(os.Stderr, "parse:", err)
			os.Exit(1)
		}
		for _, d := range file.Decls {
			switch x := d.(type) {
			case *ast.GenDecl:
				for _, s := range x.Specs {
					if ts, ok := s.(*ast.TypeSpec); ok {
						if st, ok := ts.Type.(*ast.StructType); ok {
							structs[ts.Name.Name] = st
						}
					}
				}
			case *ast.FuncDecl:
				if t, r := recvType(x); t != "" {
					if methods[t] == nil {
						methods[t] = map[string]method{}
					}
					methods[t][x.Name.Name] = method{r, x}
				} else if x.Recv == nil {
					funcs[x.Name.Name] = x
				}
			}
		}
	}
	var nodes []string
	for t, ms := range methods {
		if _, ok := ms["NewGroup"]; ok {
			nodes = append(nodes, t)
		}
	}
	sort.Strings(nodes)
	var all []*facts
	for _, T := range nodes {
		fa := &facts{node: T, exprFields: map[string]use{}, mutated: map[string]bool{}, assignedInRun: map[string]bool{}}
		nodeFields := fieldsOf(T)
		gset := map[string]bool{}
		for _, fd := range reachable(T) {
			ast.Inspect(fd.Body, func(n ast.Node) bool {
				if cl, ok := n.(*ast.CompositeLit); ok {
					if id, ok := cl.Type.(*ast.Ident); ok && isReceiverType(id.Name) {
						gset[id.Name] = true
					}
				}
				return true
			})
		}
		// embedded group types count too (their methods run for the outer type)
		for changed := true; changed; {
			changed = false
			for g := range gset {
				if st, ok := structs[g]; ok {
					for _, f := range st.Fields.List {
						if len(f.Names) == 0 {
							b := strings.TrimPrefix(src(f.Type), "*")
							if isReceiverType(b) && !gset[b] {
								gset[b] = true
								changed = true
							}
						}
					}
				}
			}
		}
		fa.groupTypes = keys(gset)
		// expression fields start as "copyResetOnly" candidates only once seen; a field never used at run time is fine
		for f, ts := range nodeFields {
			if strings.Contains(ts, "stateful.Expression") {
				fa.exprFields[f] = use{"copyResetOnly", ""}
			}
		}
		for name, m := range methods[T] {
			scanMethod(fa, m.decl, m.recvName, nodeFields, nil, true, strings.HasPrefix(name, "run"))
		}
		for g := range gset {
			refs := map[string]bool{}
			for fn, ts := range fieldsOf(g) {
				if ts == "*"+T {
					refs[fn] = true
				}
			}
			for _, m := range methods[g] {
				scanMethod(fa, m.decl, m.recvName, nodeFields, refs, false, false)
			}
		}
		all = append(all, fa)
	}
	var b strings.Builder
	b.WriteString("/- GENERATED by /verif/extract/c06groups from the Go source of the kapacitor root package. Do not edit. -/\n")
	b.WriteString("namespace Kap.Gen.C06\n\n")
	b.WriteString("inductive Use where\n  | copyResetOnly\n  | evaluated (how : String)\n  | unknown (src : String)\nderiving DecidableEq, Repr\n\n")
	b.WriteString("structure NodeFacts where\n  node : String\n  groupTypes : List String\n  exprFields : List (String × Use)\n  mutated : List String\n  assignedInRun : List String\nderiving Repr\n\n")
	b.WriteString("def facts : List NodeFacts := [\n")
	for i, fa := range all {
		var efs []string
		var names []string
		for f := range fa.exprFields {
			names = append(names, f)
		}
		sort.Strings(names)
		for _, f := range names {
			u := fa.exprFields[f]
			switch u.kind {
			case "copyResetOnly":
				efs = append(efs, fmt.Sprintf("(%s, .copyResetOnly)", lq(f)))
			case "evaluated":
				efs = append(efs, fmt.Sprintf("(%s, .evaluated %s)", lq(f), lq(u.detail)))
			default:
				efs = append(efs, fmt.Sprintf("(%s, .unknown %s)", lq(f), lq(u.detail)))
			}
		}
		fmt.Fprintf(&b, "  { node := %s, groupTypes := %s,\n    exprFields := [%s],\n    mutated := %s, assignedInRun := %s }", lq(fa.node), llist(fa.groupTypes),
			strings.Join(efs, ", "), llist(keys(fa.mutated)), llist(keys(fa.assignedInRun)))
		if i+1 < len(all) {
			b.WriteString(",")
		}
		b.WriteString("\n")
	}
	b.WriteString("]\n\n")
	// every field of a pipeline node that holds a lambda expression (pipeline/*.go)
	b.WriteString("/-- (pipeline node type, field) for every field whose type mentions ast.LambdaNode -/\ndef lambdaFields : List (String × String) := [\n")
	var lf []string
	pm, _ := filepath.Glob(filepath.Join(repo, "pipeline", "*.go"))
	sort.Strings(pm)
	for _, f := range pm {
		if strings.HasSuffix(f, "_test.go") {
			continue
		}
		file, err := parser.ParseFile(fset, f, nil, 0)
		if err != nil {
			fmt.Fprintln(os.Stderr, "parse:", err)
			os.Exit(1)
		}
		for _, d := range file.Decls {
			gd, ok := d.(*ast.GenDecl)
			if !ok {
				continue
			}
			for _, sp := range gd.Specs {
				ts, ok := sp.(*ast.TypeSpec)
				if !ok {
					continue
				}
				st, ok := ts.Type.(*ast.StructType)
				if !ok {
					continue
				}
				for _, fl := range st.Fields.List {
					if strings.Contains(src(fl.Type), "ast.LambdaNode") {
						for _, n := range fl.Names {
							lf = append(lf, fmt.Sprintf("  (%s, %s)", lq(ts.Name.Name), lq(n.Name)))
						}
					}
				}
			}
		}
	}
	sort.Strings(lf)
	b.WriteString(strings.Join(lf, ",\n") + "\n]\n\n")
	// the node chains of the C06 harness (kind, TICKscript fragment), read from the harness SOURCE
	harn := os.Getenv("VERIF_HARNESS")
	if harn == "" {
		harn = "/verif/harness"
	}
	b.WriteString("/-- (kind, TICKscript fragment) of every node chain the C06 harness generates (harness/c06/c06.go, nodeDefs) -/\ndef harnessKinds : List (String × String) := [\n")
	var hk, hkl []string
	if file, err := parser.ParseFile(fset, filepath.Join(harn, "c06", "c06.go"), nil, 0); err == nil {
		ast.Inspect(file, func(n ast.Node) bool {
			vs, ok := n.(*ast.ValueSpec)
			if !ok || len(vs.Names) != 1 || vs.Names[0].Name != "nodeDefs" || len(vs.Values) != 1 {
				return true
			}
			cl, ok := vs.Values[0].(*ast.CompositeLit)
			if !ok {
				return true
			}
			for _, e := range cl.Elts {
				kv, ok := e.(*ast.KeyValueExpr)
				if !ok {
					continue
				}
				k, ok1 := kv.Key.(*ast.BasicLit)
				v, ok2 := kv.Value.(*ast.CompositeLit)
				if !ok1 || !ok2 || len(v.Elts) == 0 {
					continue
				}
				sl, ok := v.Elts[0].(*ast.BasicLit)
				if !ok {
					continue
				}
				ks, _ := strconv.Unquote(k.Value)
				ss, _ := strconv.Unquote(sl.Value)
				norm := strings.Join(strings.Fields(ss), " ")
				hk = append(hk, fmt.Sprintf("  (%s, %s)", lq(ks), lq(norm)))
				hkl = append(hkl, fmt.Sprintf("  (%s, %s)", chars(ks), chars(norm)))
			}
			return false
		})
	}
	sort.Strings(hk)
	b.WriteString(strings.Join(hk, ",\n") + "\n]\n\n")
	// the same list as character lists (cheap for the kernel: no String decoding inside `decide`)
	b.WriteString("def harnessKindsL : List (List Char × List Char) := [\n")
	b.WriteString(strings.Join(hkl, ",\n") + "\n]\n\nend Kap.Gen.C06\n")
	out := filepath.Join(lean, "Kap", "Gen", "C06.lean")
	os.MkdirAll(filepath.Dir(out), 0o755)
	if old, err := os.ReadFile(out); err == nil && string(old) == b.String() {
		return // unchanged: keep the mtime so that lake does not rebuild
	}
	if err := os.WriteFile(out, []byte(b.String()), 0o644); err != nil {
		fmt.Fprintln(os.Stderr, err)
		os.Exit(1)
	}
}
