module c07consts

go 1.18
