// Extractor for property C07: regenerates lean/Kap/Gen/C07.lean from the Go SOURCE (go/ast, standard library
// only) with the buffer sizes the stop-protocol model is parameterised by:
//
//   - defaultEdgeBufferSize (edge.go) and that newEdge / newFork / stream pass exactly this constant to
//     edge.NewChannelEdge (edge.go: `edge.NewChannelEdge(t, defaultEdgeBufferSize)`)
//   - alert.DefaultEventBufferSize and alert.MinimumEventBufferSize (alert/topics.go) and the clamp
//     `if bufferSize < MinimumEventBufferSize { bufferSize = DefaultEventBufferSize }` of newHandler
//   - that the alert service creates its topics with buffer size 0 is NOT extracted (the harness passes 0 itself)
//
// FAIL CLOSED: a shape that is not recognised is emitted as the undefined identifier
// `unrecognised_shape_<name>`, so Kap/Gen/C07.lean (and with it the driver) stops building. Nothing is defaulted.
// Env: VERIF_REPO (default /repo), VERIF_LEAN (default /verif/lean).
package main

import (
	"bytes"
	"fmt"
	"go/ast"
	"go/parser"
	"go/printer"
	"go/token"
	"os"
	"path/filepath"
	"strings"
)

var fset = token.NewFileSet()

func src(n ast.Node) string {
	var b bytes.Buffer
	printer.Fprint(&b, fset, n)
	return strings.Join(strings.Fields(b.String()), " ")
}

func parse(path string) *ast.File {
	f, err := parser.ParseFile(fset, path, nil, 0)
	if err != nil {
		fmt.Fprintln(os.Stderr, "c07consts:", err)
		os.Exit(1)
	}
	return f
}

// intConst returns the literal of `const name = <int literal>`.
func intConst(f *ast.File, name string) (string, bool) {
	for _, d := range f.Decls {
		g, ok := d.(*ast.GenDecl)
		if !ok || g.Tok != token.CONST {
			continue
		}
		for _, sp := range g.Specs {
			vs := sp.(*ast.ValueSpec)
			for i, n := range vs.Names {
				if n.Name != name || i >= len(vs.Values) {
					continue
				}
				if bl, ok := vs.Values[i].(*ast.BasicLit); ok && bl.Kind == token.INT && strings.Trim(bl.Value, "0123456789") == "" {
					return bl.Value, true
				}
				return "", false
			}
		}
	}
	return "", false
}

// funcBody returns the source of a function body, whitespace-normalised.
func funcBody(f *ast.File, name string) string {
	for _, d := range f.Decls {
		if fd, ok := d.(*ast.FuncDecl); ok && fd.Name.Name == name && fd.Body != nil {
			return src(fd.Body)
		}
	}
	return ""
}

func main() {
	repo := os.Getenv("VERIF_REPO")
	if repo == "" {
		repo = "/repo"
	}
	lean := os.Getenv("VERIF_LEAN")
	if lean == "" {
		lean = "/verif/lean"
	}
	edgeGo := parse(filepath.Join(repo, "edge.go"))
	topicsGo := parse(filepath.Join(repo, "alert", "topics.go"))

	val := func(f *ast.File, name string) string {
		if v, ok := intConst(f, name); ok {
			return v
		}
		return "unrecognised_shape_" + name
	}
	edgeCap := val(edgeGo, "defaultEdgeBufferSize")
	// newEdge must hand exactly the constant to the channel edge (it ignores its `size` argument today)
	if !strings.Contains(funcBody(edgeGo, "newEdge"), "edge.NewChannelEdge(t, defaultEdgeBufferSize)") {
		edgeCap = "unrecognised_shape_newEdge"
	}
	defQ := val(topicsGo, "DefaultEventBufferSize")
	minQ := val(topicsGo, "MinimumEventBufferSize")
	clamp := "if bufferSize < MinimumEventBufferSize { bufferSize = DefaultEventBufferSize }"
	if !strings.Contains(funcBody(topicsGo, "newHandler"), clamp) {
		defQ = "unrecognised_shape_newHandler"
	}

	// node.go: the exit path of a node must visit EVERY child edge / parent edge: a range loop over n.outs (n.ins)
	// whose body is exactly the call, nothing that can leave the loop early.
	nodeGo := parse(filepath.Join(repo, "node.go"))
	visitsAll := func(fn, over, call string) string {
		for _, d := range nodeGo.Decls {
			fd, ok := d.(*ast.FuncDecl)
			if !ok || fd.Name.Name != fn || fd.Body == nil {
				continue
			}
			if fd.Type.Results != nil && len(fd.Type.Results.List) > 0 {
				return "unrecognised_shape_" + fn + "_returns_a_value"
			}
			if len(fd.Body.List) != 1 {
				return "unrecognised_shape_" + fn
			}
			rs, ok := fd.Body.List[0].(*ast.RangeStmt)
			if !ok || src(rs.X) != over || len(rs.Body.List) != 1 {
				return "unrecognised_shape_" + fn
			}
			es, ok := rs.Body.List[0].(*ast.ExprStmt)
			if !ok || src(es.X) != call {
				return "unrecognised_shape_" + fn
			}
			return "true"
		}
		return "unrecognised_shape_" + fn + "_missing"
	}
	closeAll := visitsAll("closeChildEdges", "n.outs", "child.Close()")
	abortAll := visitsAll("abortParentEdges", "n.ins", "in.Abort()")
	// node.start must call closeChildEdges unconditionally: a top-level statement of its deferred exit handler
	uncond := false
	for _, d := range nodeGo.Decls {
		fd, ok := d.(*ast.FuncDecl)
		if !ok || fd.Name.Name != "start" || fd.Body == nil {
			continue
		}
		ast.Inspect(fd.Body, func(n ast.Node) bool {
			ds, ok := n.(*ast.DeferStmt)
			if !ok {
				return true
			}
			if fl, ok := ds.Call.Fun.(*ast.FuncLit); ok {
				for _, st := range fl.Body.List {
					if es, ok := st.(*ast.ExprStmt); ok && src(es.X) == "n.closeChildEdges()" {
						uncond = true
					}
				}
			}
			return true
		})
	}
	if !uncond {
		closeAll = "unrecognised_shape_start_closeChildEdges"
	}

	var b strings.Builder
	b.WriteString("/- GENERATED by /verif/extract/c07consts from edge.go and alert/topics.go — do not edit. -/\n")
	b.WriteString("namespace Kap.C07.Gen\n\n")
	fmt.Fprintf(&b, "/-- `defaultEdgeBufferSize` (edge.go), the size newEdge gives every channel edge. -/\ndef edgeCap : Nat := %s\n\n", edgeCap)
	fmt.Fprintf(&b, "/-- `alert.DefaultEventBufferSize`: the queue of a bufHandler created with a size below the minimum. -/\ndef handlerQueue : Nat := %s\n\n", defQ)
	fmt.Fprintf(&b, "/-- `alert.MinimumEventBufferSize`. -/\ndef handlerQueueMin : Nat := %s\n\n", minQ)
	b.WriteString("end Kap.C07.Gen\n")
	// the shapes go into a file of their own: only Props imports it, so an unrecognised shape breaks the theorem
	// while the driver still builds and the harness can look for a failing input
	var sh strings.Builder
	sh.WriteString("/- GENERATED by /verif/extract/c07consts from node.go — do not edit. -/\nnamespace Kap.C07.Gen\n\n")
	fmt.Fprintf(&sh, "/-- node.closeChildEdges is `for _, child := range n.outs { child.Close() }`, called unconditionally by the deferred exit handler of node.start: every child edge is closed, whatever an earlier Close returned. -/\ndef closeChildEdgesVisitsAll : Bool := %s\n\n", closeAll)
	fmt.Fprintf(&sh, "/-- node.abortParentEdges is `for _, in := range n.ins { in.Abort() }`. -/\ndef abortParentEdgesVisitsAll : Bool := %s\n\nend Kap.C07.Gen\n", abortAll)
	shOut := filepath.Join(lean, "Kap", "Gen", "C07Shape.lean")
	if old, err := os.ReadFile(shOut); err != nil || string(old) != sh.String() {
		if err := os.WriteFile(shOut, []byte(sh.String()), 0o644); err != nil {
			fmt.Fprintln(os.Stderr, err)
			os.Exit(1)
		}
	}
	out := filepath.Join(lean, "Kap", "Gen", "C07.lean")
	if err := os.MkdirAll(filepath.Dir(out), 0o755); err != nil {
		fmt.Fprintln(os.Stderr, err)
		os.Exit(1)
	}
	if old, err := os.ReadFile(out); err == nil && string(old) == b.String() {
		return // unchanged: keep the timestamp so lake does not rebuild
	}
	if err := os.WriteFile(out, []byte(b.String()), 0o644); err != nil {
		fmt.Fprintln(os.Stderr, err)
		os.Exit(1)
	}
}
