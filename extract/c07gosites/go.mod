module c07gosites

go 1.18
