// Re-buffering half of the C10 extractor: transcribes the methods of edge.BatchBuffer (edge/buffered.go) statement by
// statement into the IR of Kap/Model/C10Buf.lean (`Kap.C10.Buf.Stmt`) and lists every file that uses a BatchBuffer.
//
// Discipline under test: what a node has EMITTED is never written again. BufferedBatchMessage(end) hands the slice
// r.points itself to the children, so BeginBatch has to start every batch on a fresh slice; `r.points = r.points[:0]`
// (re-using the backing array of the batch that was just handed on) is transcribed as what it is (pointsTrunc) and the
// Lean side (Props/C10: extracted program = the program the stability theorem is about) rejects it.
// FAIL CLOSED: a statement that is none of the recognised shapes becomes `.unknown "<source>"`, a method of BatchBuffer
// other than the three known ones is listed in `bufferOtherMethods`, a file that mentions BatchBuffer is listed in
// `bufferUsers` (the harness drives the users it knows; a new one must be looked at).
package main

import (
	"fmt"
	"go/ast"
	"go/parser"
	"go/token"
	"os"
	"path/filepath"
	"sort"
	"strings"
)

type bufCtx struct {
	recv  string // receiver name
	param string // the parameter of the method
	hint  string // identifier bound to <param>.SizeHint() by an if-init, if any
}

func (c bufCtx) isHint(x ast.Expr) bool {
	s := src(x)
	return s == c.param+".SizeHint()" || (c.hint != "" && s == c.hint)
}

func (c bufCtx) stmt(s ast.Stmt) string {
	unk := func() string { return ".unknown " + leanStr(src(s)) }
	pts := c.recv + ".points"
	switch s := s.(type) {
	case *ast.ReturnStmt:
		if len(s.Results) != 1 {
			return unk()
		}
		r := src(s.Results[0])
		if r == "nil" {
			return ".retNil"
		}
		if r == fmt.Sprintf("NewBufferedBatchMessage(%s.begin, %s, %s)", c.recv, pts, c.param) {
			return ".emitShared"
		}
		return unk()
	case *ast.ExprStmt:
		if src(s.X) == fmt.Sprintf("%s.begin.SetSizeHint(len(%s))", c.recv, pts) {
			return ".setHint"
		}
		return unk()
	case *ast.AssignStmt:
		if s.Tok != token.ASSIGN || len(s.Lhs) != 1 || len(s.Rhs) != 1 {
			return unk()
		}
		l, r := src(s.Lhs[0]), src(s.Rhs[0])
		switch {
		case l == c.recv+".begin" && r == c.param+".ShallowCopy()":
			return ".beginCopy"
		case l == c.recv+".begin" && r == c.param:
			return ".beginShare"
		case l == pts && r == pts+"[:0]":
			return ".pointsTrunc"
		case l == pts && r == fmt.Sprintf("append(%s, %s)", pts, c.param):
			return ".pointsAppend"
		case l == pts:
			if call, ok := s.Rhs[0].(*ast.CallExpr); ok && calleeName(call) == "make" && len(call.Args) == 3 &&
				src(call.Args[0]) == "[]BatchPointMessage" && src(call.Args[1]) == "0" && c.isHint(call.Args[2]) {
				return ".pointsMake"
			}
		}
		return unk()
	case *ast.IfStmt:
		cc := c
		if s.Init != nil {
			as, ok := s.Init.(*ast.AssignStmt)
			if !ok || as.Tok != token.DEFINE || len(as.Lhs) != 1 || len(as.Rhs) != 1 || src(as.Rhs[0]) != c.param+".SizeHint()" {
				return unk()
			}
			cc.hint = src(as.Lhs[0])
		}
		be, ok := s.Cond.(*ast.BinaryExpr)
		if !ok {
			return unk()
		}
		capx := "cap(" + pts + ")"
		if !(be.Op == token.GTR && cc.isHint(be.X) && src(be.Y) == capx || be.Op == token.LSS && src(be.X) == capx && cc.isHint(be.Y)) {
			return unk()
		}
		var els []ast.Stmt
		switch e := s.Else.(type) {
		case nil:
		case *ast.BlockStmt:
			els = e.List
		default:
			return unk()
		}
		return fmt.Sprintf("(.ite .hintGtCap %s %s)", cc.list(s.Body.List), cc.list(els))
	}
	return unk()
}

func (c bufCtx) list(ss []ast.Stmt) string {
	var out []string
	for _, s := range ss {
		out = append(out, c.stmt(s))
	}
	return "[" + strings.Join(out, ", ") + "]"
}

// bufferedLean returns the Lean definitions `bufferProg`, `bufferOtherMethods`, `bufferUsers`.
func bufferedLean(repo string) string {
	methods := map[string]string{"BeginBatch": `[.unknown "method missing"]`, "BatchPoint": `[.unknown "method missing"]`, "BufferedBatchMessage": `[.unknown "method missing"]`}
	var other []string
	af, err := parser.ParseFile(fset, filepath.Join(repo, "edge", "buffered.go"), nil, 0)
	if err != nil {
		fmt.Fprintln(os.Stderr, err)
		os.Exit(1)
	}
	seen := map[string]int{}
	for _, d := range af.Decls {
		fd, ok := d.(*ast.FuncDecl)
		if !ok || fd.Recv == nil || len(fd.Recv.List) != 1 {
			continue
		}
		rt := strings.TrimPrefix(src(fd.Recv.List[0].Type), "*")
		if rt != "BatchBuffer" {
			continue
		}
		name := fd.Name.Name
		seen[name]++
		_, known := methods[name]
		if !known || seen[name] > 1 || fd.Body == nil || len(fd.Recv.List[0].Names) != 1 || !strings.HasPrefix(src(fd.Recv.List[0].Type), "*") ||
			len(fd.Type.Params.List) != 1 || len(fd.Type.Params.List[0].Names) != 1 {
			other = append(other, name)
			continue
		}
		c := bufCtx{recv: fd.Recv.List[0].Names[0].Name, param: fd.Type.Params.List[0].Names[0].Name}
		methods[name] = c.list(fd.Body.List)
	}
	// every file (root package and edge) that mentions BatchBuffer
	var users []string
	for _, dir := range []string{"", "edge"} {
		ents, _ := os.ReadDir(filepath.Join(repo, dir))
		for _, e := range ents {
			n := e.Name()
			if e.IsDir() || !strings.HasSuffix(n, ".go") || strings.HasSuffix(n, "_test.go") || strings.HasPrefix(n, "verif_hooks") ||
				dir == "edge" && n == "buffered.go" {
				continue
			}
			f, err := parser.ParseFile(fset, filepath.Join(repo, dir, n), nil, 0)
			if err != nil {
				users = append(users, filepath.Join(dir, n)+":unparsable")
				continue
			}
			uses := false
			ast.Inspect(f, func(x ast.Node) bool {
				if id, ok := x.(*ast.Ident); ok && id.Name == "BatchBuffer" {
					uses = true
				}
				return !uses
			})
			if uses {
				users = append(users, filepath.Join(dir, n))
			}
		}
	}
	sort.Strings(users)
	sort.Strings(other)
	strs := func(xs []string) string {
		var q []string
		for _, x := range xs {
			q = append(q, leanStr(x))
		}
		return "[" + strings.Join(q, ", ") + "]"
	}
	var b strings.Builder
	b.WriteString("\n/-- edge/buffered.go: the methods of BatchBuffer, statement by statement -/\ndef bufferProg : Kap.C10.Buf.Prog :=\n")
	fmt.Fprintf(&b, "  { beginM := %s\n    pointM := %s\n    endM := %s }\n", methods["BeginBatch"], methods["BatchPoint"], methods["BufferedBatchMessage"])
	fmt.Fprintf(&b, "\n/-- methods of BatchBuffer other than BeginBatch / BatchPoint / BufferedBatchMessage (or of an unexpected signature) -/\ndef bufferOtherMethods : List String := %s\n", strs(other))
	fmt.Fprintf(&b, "\n/-- the files of the root package and of package edge that use a BatchBuffer -/\ndef bufferUsers : List String := %s\n", strs(users))
	return b.String()
}
