module c10alias

go 1.18
