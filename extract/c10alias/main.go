// Extractor for property C10 (aliasing half): regenerates lean/Kap/Gen/C10.lean from the Go SOURCE of the node files of
// the property (go/ast, standard library only, purely syntactic).
//
// Contract under test (edge/messages.go, doc of Message): a message handed to a node is shared with the sibling
// branches; a node may only write to a message object it obtained by ShallowCopy() (or created), and to a map/slice it
// obtained by Copy()/make()/a literal/a fresh call — never to reference data read out of the incoming message.
//
// For every function of the node files the extractor emits
//   - `write`  facts: a syntactic write (m[k] = v, delete(m,k), x[i] op= v, append(x…) re-using x, sort.*(x), copy(x, …),
//     msg.SetXxx(…)) together with the ORIGIN of the written object;
//   - `call`   facts: a reference-typed argument passed to another function of these files (or to a closure bound to one),
//     with the origin of the argument, so that writes to parameters are judged at the call sites (transitively, in Lean);
//   - `unknown` facts: a statement or expression shape the extractor does not recognise where a write could hide.
// Origins: fresh (Copy/make/literal/new message/fresh call), own (receiver state), input (the incoming message object or
// reference data read out of it — also through a ShallowCopy, which shares its maps), msgcopy (a ShallowCopy of the
// incoming message: own object, shared contents), param i (judged at call sites), scalar.
// Joins at control-flow merges take the worse origin, except for the recognised copy-on-write idiom
//     if !copied { m = m.Copy(); copied = true }
// FAIL CLOSED: anything else that is written and not classified is an `unknown` fact; `noWriteToInput` is false on it.
// The same file also receives the statement-by-statement transcription of edge.BatchBuffer (see buffered.go: "what a node
// has emitted is never written again").
// Env: VERIF_REPO (default /repo), VERIF_LEAN (default /verif/lean).
package main

import (
	"bytes"
	"fmt"
	"go/ast"
	"go/parser"
	"go/printer"
	"go/token"
	"os"
	"path/filepath"
	"sort"
	"strings"
)

var files = []string{"where.go", "eval.go", "default.go", "delete.go", "shift.go", "sample.go", "derivative.go", "change_detect.go",
	"state_tracking.go", "flatten.go", "combine.go", "group_by.go"}

var entryMethods = map[string]bool{"BeginBatch": true, "BatchPoint": true, "EndBatch": true, "Point": true, "Barrier": true,
	"DeleteGroup": true, "BufferedBatch": true, "NewGroup": true}

// getters of messages that return reference data (or sub-messages) shared with the message
var refGetters = map[string]bool{"Fields": true, "Tags": true, "Dimensions": true, "Points": true, "GroupInfo": true, "Begin": true, "End": true}
var msgSetters = map[string]bool{"SetFields": true, "SetTags": true, "SetTime": true, "SetDimensions": true, "SetTagsAndDimensions": true,
	"SetName": true, "SetSizeHint": true, "SetPoints": true, "SetBegin": true, "SetEnd": true, "SetDatabase": true, "SetRetentionPolicy": true}

// calls whose result is a new object
var freshCalls = map[string]bool{"make": true, "new": true, "Copy": true, "SortedKeys": true, "SortedFields": true, "ToGroupID": true,
	"NewPointMessage": true, "NewBatchPointMessage": true, "NewBufferedBatchMessage": true, "NewBeginBatchMessage": true,
	"NewEndBatchMessage": true, "BatchPointFromPoint": true, "ToSet": true, "Get": true, "String": true, "Errorf": true, "New": true,
	"NewExpression": true, "NewScopePool": true, "FindReferenceVariables": true, "CopyReset": true, "Round": true, "Truncate": true,
	"Add": true, "Sub": true, "Local": true, "Time": true, "Name": true, "SizeHint": true, "Len": true, "Count": true, "len": true, "cap": true,
	"float64": true, "int64": true, "int": true, "string": true, "Equal": true, "After": true, "IsZero": true, "KV": true, "Sprintf": true,
	"NewReceiverFromForwardReceiverWithStats": true, "NewTimedForwardReceiver": true, "NewGroupedConsumer": true,
	"NewConsumerWithReceiver": true, "CardinalityVar": true, "NewIntFuncGauge": true, "Eval": true, "EvalBool": true, "Type": true,
	"Has": true, "ReferenceVariables": true, "GroupID": true, "track": true, "numToFloat": true, "EvalPredicate": true, "fillScope": true}

type origin struct {
	kind string // scalar fresh own msgcopy param input unknown
	idx  int
}

var rank = map[string]int{"scalar": 0, "fresh": 1, "own": 2, "msgcopy": 3, "param": 4, "input": 5, "unknown": 6}

func join(a, b origin) origin {
	if a.kind == "param" && b.kind == "param" && a.idx != b.idx {
		return origin{"unknown", 0}
	}
	if rank[a.kind] >= rank[b.kind] {
		return a
	}
	return b
}

func (o origin) lean() string {
	if o.kind == "param" {
		return fmt.Sprintf("(.param %d)", o.idx)
	}
	return "." + o.kind
}

var fset = token.NewFileSet()

func src(n ast.Node) string {
	var b bytes.Buffer
	printer.Fprint(&b, fset, n)
	s := strings.Join(strings.Fields(b.String()), " ")
	if len(s) > 90 {
		s = s[:90] + "…"
	}
	return s
}

type fn struct {
	id     int
	file   string
	name   string // Recv.Name or Name, or Callee#k for a closure bound to parameter k of Callee
	decl   *ast.FuncDecl
	lit    *ast.FuncLit
	params []string // parameter names in order
	entry  bool
	pidx   map[string]int
}

type fact struct {
	kind   string // write call unknown
	fn     int
	wkind  string // content msgset
	o      origin
	callee int
	arg    int
	note   string
}

var (
	fns      []*fn
	byName   = map[string][]*fn{} // file/name(short) -> candidates
	facts    []fact
	stored   = map[string]origin{} // receiver field name -> worst origin ever stored into it
	closures = map[*ast.FuncLit]*fn{}
)

func refLike(t ast.Expr) (msg, ref bool) {
	s := src(t)
	switch {
	case strings.HasPrefix(s, "edge.") && (strings.HasSuffix(s, "Message") || strings.Contains(s, "FieldsTagsTime") || s == "edge.TimeSetter" || s == "edge.PointMeta"):
		return true, true
	case s == "edge.GroupInfo" || s == "models.Fields" || s == "models.Tags" || s == "models.Dimensions" || strings.HasPrefix(s, "[]") || strings.HasPrefix(s, "map[") || strings.HasPrefix(s, "*bytes."):
		return false, true
	}
	return false, false
}

type env map[string]origin

func (e env) clone() env {
	c := env{}
	for k, v := range e {
		c[k] = v
	}
	return c
}
func joinEnv(a, b env) env {
	c := env{}
	for k, v := range a {
		if w, ok := b[k]; ok {
			c[k] = join(v, w)
		} else {
			c[k] = v
		}
	}
	for k, v := range b {
		if _, ok := a[k]; !ok {
			c[k] = v
		}
	}
	return c
}

type walker struct {
	f    *fn
	recv string
}

func calleeName(c *ast.CallExpr) string {
	switch x := c.Fun.(type) {
	case *ast.Ident:
		return x.Name
	case *ast.SelectorExpr:
		return x.Sel.Name
	}
	return ""
}

func (w *walker) add(f fact) { f.fn = w.f.id; facts = append(facts, f) }

func (w *walker) origin(e env, x ast.Expr) origin {
	switch x := x.(type) {
	case nil:
		return origin{"scalar", 0}
	case *ast.BasicLit, *ast.FuncLit:
		return origin{"scalar", 0}
	case *ast.Ident:
		if x.Name == "nil" {
			return origin{"fresh", 0}
		}
		if x.Name == "true" || x.Name == "false" || x.Name == "_" {
			return origin{"scalar", 0}
		}
		if o, ok := e[x.Name]; ok {
			return o
		}
		return origin{"scalar", 0} // package names, constants, functions
	case *ast.ParenExpr:
		return w.origin(e, x.X)
	case *ast.StarExpr:
		return w.origin(e, x.X)
	case *ast.UnaryExpr:
		return w.origin(e, x.X)
	case *ast.BinaryExpr:
		return origin{"scalar", 0}
	case *ast.TypeAssertExpr:
		return w.origin(e, x.X)
	case *ast.SliceExpr:
		return w.origin(e, x.X)
	case *ast.IndexExpr:
		return w.origin(e, x.X)
	case *ast.KeyValueExpr:
		return w.origin(e, x.Value)
	case *ast.CompositeLit:
		o := origin{"fresh", 0}
		for _, el := range x.Elts {
			eo := w.origin(e, el)
			if eo.kind != "scalar" {
				o = join(o, eo)
			}
		}
		return o
	case *ast.SelectorExpr:
		// a field of the receiver (or deeper): own, unless an input reference was stored there
		base := w.origin(e, x.X)
		if base.kind == "own" {
			if so, ok := stored[x.Sel.Name]; ok {
				return join(origin{"own", 0}, so)
			}
			return base
		}
		return base
	case *ast.CallExpr:
		name := calleeName(x)
		// conversions keep the object
		if name == "BatchPointMessages" || (name == "Fields" || name == "Tags") && len(x.Args) == 1 && isPkgSel(x.Fun, "models") {
			return w.origin(e, x.Args[0])
		}
		if sel, ok := x.Fun.(*ast.SelectorExpr); ok {
			base := w.origin(e, sel.X)
			if name == "ShallowCopy" {
				switch base.kind {
				case "input", "param", "msgcopy":
					return origin{"msgcopy", 0}
				default:
					return base
				}
			}
			if name == "Copy" {
				return origin{"fresh", 0}
			}
			if refGetters[name] && len(x.Args) == 0 {
				switch base.kind {
				case "input", "msgcopy":
					return origin{"input", 0} // shared with the incoming message
				case "param":
					return base
				case "own", "fresh":
					return origin{"own", 0}
				}
				return origin{"unknown", 0}
			}
		}
		if name == "append" && len(x.Args) > 0 {
			return w.origin(e, x.Args[0])
		}
		if freshCalls[name] {
			return origin{"fresh", 0}
		}
		if cands := resolve(w.f.file, name); len(cands) > 0 {
			// the result of a function of these files may alias any of its reference arguments
			o := origin{"fresh", 0}
			for _, a := range x.Args {
				ao := w.origin(e, a)
				if ao.kind != "scalar" {
					o = join(o, ao)
				}
			}
			return o
		}
		return origin{"unknown", 0}
	}
	return origin{"unknown", 0}
}

func isPkgSel(f ast.Expr, pkg string) bool {
	s, ok := f.(*ast.SelectorExpr)
	if !ok {
		return false
	}
	id, ok := s.X.(*ast.Ident)
	return ok && id.Name == pkg
}

func resolve(file, name string) []*fn {
	if c := byName[file+"/"+name]; len(c) > 0 {
		return c
	}
	var out []*fn
	for _, f := range files {
		out = append(out, byName[f+"/"+name]...)
	}
	return out
}

// calls: writes hidden in calls + call facts
func (w *walker) call(e env, c *ast.CallExpr) {
	name := calleeName(c)
	for _, a := range c.Args {
		w.expr(e, a)
	}
	if sel, ok := c.Fun.(*ast.SelectorExpr); ok {
		w.expr(e, sel.X)
		if msgSetters[name] {
			w.add(fact{kind: "write", wkind: "msgset", o: w.origin(e, sel.X), note: src(c)})
			return
		}
		if id, ok := sel.X.(*ast.Ident); ok && id.Name == "sort" {
			if len(c.Args) > 0 {
				w.add(fact{kind: "write", wkind: "content", o: w.origin(e, c.Args[0]), note: src(c)})
			}
			return
		}
	}
	switch name {
	case "delete":
		w.add(fact{kind: "write", wkind: "content", o: w.origin(e, c.Args[0]), note: src(c)})
		return
	case "copy":
		w.add(fact{kind: "write", wkind: "content", o: w.origin(e, c.Args[0]), note: src(c)})
		return
	case "append":
		// append may write into the backing array of its first argument
		o := w.origin(e, c.Args[0])
		if o.kind != "fresh" && o.kind != "scalar" {
			w.add(fact{kind: "write", wkind: "content", o: o, note: src(c)})
		}
		return
	}
	// a call of a function parameter that a closure is bound to (combination.Do calls f(indicesCopy))
	if id, ok := c.Fun.(*ast.Ident); ok {
		if k, isParam := w.f.pidx[id.Name]; isParam {
			for _, cl := range fns {
				if cl.lit != nil && cl.name == fmt.Sprintf("%s#%d", shortName(w.f.name), k) {
					for i, a := range c.Args {
						if o := w.origin(e, a); o.kind != "scalar" {
							w.add(fact{kind: "call", callee: cl.id, arg: i, o: o, note: src(c)})
						}
					}
				}
			}
			return
		}
	}
	for _, cand := range resolve(w.f.file, name) {
		if cand.lit != nil {
			continue
		}
		for i, a := range c.Args {
			if i >= len(cand.params) {
				break
			}
			if _, isRef := cand.pidx[cand.params[i]]; !isRef {
				continue
			}
			if o := w.origin(e, a); o.kind != "scalar" {
				w.add(fact{kind: "call", callee: cand.id, arg: i, o: o, note: src(c)})
			}
		}
	}
}

func shortName(n string) string {
	if i := strings.LastIndex(n, "."); i >= 0 {
		return n[i+1:]
	}
	return n
}

// expr: look for calls inside an expression
func (w *walker) expr(e env, x ast.Expr) {
	ast.Inspect(x, func(n ast.Node) bool {
		switch n := n.(type) {
		case *ast.FuncLit:
			if cl, ok := closures[n]; ok {
				_ = cl // analysed as its own function
			} else {
				// an unbound closure: analyse its body in the current environment
				w.block(e.clone(), n.Body.List)
			}
			return false
		case *ast.CallExpr:
			// arguments are visited by call itself
			w.call(e, n)
			return false
		}
		return true
	})
}

func (w *walker) assignTarget(e env, lhs ast.Expr, o origin, define bool) {
	switch l := lhs.(type) {
	case *ast.Ident:
		if l.Name != "_" {
			e[l.Name] = o
		}
	case *ast.IndexExpr:
		w.add(fact{kind: "write", wkind: "content", o: w.origin(e, l.X), note: src(lhs) + " = …"})
		w.expr(e, l.Index)
	case *ast.SelectorExpr:
		base := w.origin(e, l.X)
		if id, ok := l.X.(*ast.Ident); ok && id.Name == w.recv || base.kind == "own" {
			// store into receiver state: remember what flows there
			if o.kind == "input" || o.kind == "param" || o.kind == "msgcopy" || o.kind == "unknown" {
				stored[l.Sel.Name] = join(stored[l.Sel.Name], origin{"input", 0})
			}
			return
		}
		// a field of a local struct VALUE (dims.ByName = …) is a private copy; through a pointer we cannot tell
		if base.kind == "unknown" {
			w.add(fact{kind: "unknown", note: src(lhs) + " = …"})
		}
	case *ast.StarExpr:
		w.add(fact{kind: "unknown", note: src(lhs) + " = …"})
	default:
		w.add(fact{kind: "unknown", note: src(lhs) + " = …"})
	}
}

// copyOnWrite recognises `if !flag { v = v.Copy(); flag = true }`
func copyOnWrite(s *ast.IfStmt) (string, bool) {
	u, ok := s.Cond.(*ast.UnaryExpr)
	if !ok || u.Op != token.NOT || s.Else != nil || s.Init != nil || len(s.Body.List) != 2 {
		return "", false
	}
	flag, ok := u.X.(*ast.Ident)
	if !ok {
		return "", false
	}
	a1, ok1 := s.Body.List[0].(*ast.AssignStmt)
	a2, ok2 := s.Body.List[1].(*ast.AssignStmt)
	if !ok1 || !ok2 || len(a1.Lhs) != 1 || len(a2.Lhs) != 1 {
		return "", false
	}
	v, ok := a1.Lhs[0].(*ast.Ident)
	if !ok || src(a1.Rhs[0]) != v.Name+".Copy()" {
		return "", false
	}
	if src(a2.Lhs[0]) != flag.Name || src(a2.Rhs[0]) != "true" {
		return "", false
	}
	return v.Name, true
}

func (w *walker) block(e env, list []ast.Stmt) env {
	for _, s := range list {
		e = w.stmt(e, s)
	}
	return e
}

func (w *walker) stmt(e env, s ast.Stmt) env {
	switch s := s.(type) {
	case nil, *ast.EmptyStmt, *ast.BranchStmt:
	case *ast.ExprStmt:
		w.expr(e, s.X)
	case *ast.DeclStmt:
		if gd, ok := s.Decl.(*ast.GenDecl); ok {
			for _, sp := range gd.Specs {
				if vs, ok := sp.(*ast.ValueSpec); ok {
					for i, n := range vs.Names {
						if i < len(vs.Values) {
							w.expr(e, vs.Values[i])
							e[n.Name] = w.origin(e, vs.Values[i])
						} else {
							e[n.Name] = origin{"fresh", 0} // zero value
						}
					}
				}
			}
		}
	case *ast.AssignStmt:
		for _, r := range s.Rhs {
			w.expr(e, r)
		}
		if s.Tok != token.ASSIGN && s.Tok != token.DEFINE {
			// x op= v
			if _, ok := s.Lhs[0].(*ast.IndexExpr); ok {
				w.assignTarget(e, s.Lhs[0], origin{"scalar", 0}, false)
			}
			break
		}
		if len(s.Rhs) == 1 && len(s.Lhs) > 1 {
			o := w.origin(e, s.Rhs[0])
			if _, isIdx := s.Rhs[0].(*ast.IndexExpr); isIdx { // v, ok := m[k]
				w.assignTarget(e, s.Lhs[0], o, s.Tok == token.DEFINE)
				w.assignTarget(e, s.Lhs[1], origin{"scalar", 0}, s.Tok == token.DEFINE)
				break
			}
			if _, isTA := s.Rhs[0].(*ast.TypeAssertExpr); isTA {
				w.assignTarget(e, s.Lhs[0], o, s.Tok == token.DEFINE)
				w.assignTarget(e, s.Lhs[1], origin{"scalar", 0}, s.Tok == token.DEFINE)
				break
			}
			for _, l := range s.Lhs {
				w.assignTarget(e, l, o, s.Tok == token.DEFINE)
			}
			break
		}
		os := make([]origin, len(s.Rhs))
		for i, r := range s.Rhs {
			os[i] = w.origin(e, r)
		}
		for i, l := range s.Lhs {
			if i < len(os) {
				w.assignTarget(e, l, os[i], s.Tok == token.DEFINE)
			}
		}
	case *ast.IncDecStmt:
		if _, ok := s.X.(*ast.IndexExpr); ok {
			w.assignTarget(e, s.X, origin{"scalar", 0}, false)
		}
	case *ast.ReturnStmt:
		for _, r := range s.Results {
			w.expr(e, r)
		}
	case *ast.DeferStmt:
		w.call(e, s.Call)
	case *ast.BlockStmt:
		e = w.block(e, s.List)
	case *ast.LabeledStmt:
		e = w.stmt(e, s.Stmt)
	case *ast.IfStmt:
		if v, ok := copyOnWrite(s); ok {
			e[v] = origin{"fresh", 0}
			break
		}
		e = w.stmt(e, s.Init)
		w.expr(e, s.Cond)
		a := w.block(e.clone(), s.Body.List)
		b := e.clone()
		if s.Else != nil {
			b = w.stmt(b, s.Else)
		}
		e = joinEnv(a, b)
	case *ast.ForStmt:
		e = w.stmt(e, s.Init)
		if s.Cond != nil {
			w.expr(e, s.Cond)
		}
		// two rounds: what the body does may flow back to its top
		a := w.block(e.clone(), s.Body.List)
		a = w.stmt(a, s.Post)
		e = joinEnv(e, a)
		save := len(facts)
		a = w.block(e.clone(), s.Body.List)
		dedupe(save)
		e = joinEnv(e, a)
	case *ast.RangeStmt:
		w.expr(e, s.X)
		xo := w.origin(e, s.X)
		inner := e.clone()
		if k, ok := s.Key.(*ast.Ident); ok && k.Name != "_" {
			inner[k.Name] = origin{"scalar", 0}
		}
		if v, ok := s.Value.(*ast.Ident); ok && v.Name != "_" {
			inner[v.Name] = xo
		}
		a := w.block(inner.clone(), s.Body.List)
		e = joinEnv(e, a)
		save := len(facts)
		inner2 := e.clone()
		if k, ok := s.Key.(*ast.Ident); ok && k.Name != "_" {
			inner2[k.Name] = origin{"scalar", 0}
		}
		if v, ok := s.Value.(*ast.Ident); ok && v.Name != "_" {
			inner2[v.Name] = xo
		}
		a = w.block(inner2, s.Body.List)
		dedupe(save)
		e = joinEnv(e, a)
	case *ast.SwitchStmt:
		e = w.stmt(e, s.Init)
		if s.Tag != nil {
			w.expr(e, s.Tag)
		}
		out := e.clone()
		for _, c := range s.Body.List {
			cc := c.(*ast.CaseClause)
			for _, x := range cc.List {
				w.expr(e, x)
			}
			out = joinEnv(out, w.block(e.clone(), cc.Body))
		}
		e = out
	case *ast.TypeSwitchStmt:
		e = w.stmt(e, s.Init)
		var bound string
		var xo origin
		if as, ok := s.Assign.(*ast.AssignStmt); ok {
			bound = as.Lhs[0].(*ast.Ident).Name
			xo = w.origin(e, as.Rhs[0])
		}
		out := e.clone()
		for _, c := range s.Body.List {
			cc := c.(*ast.CaseClause)
			in := e.clone()
			if bound != "" {
				in[bound] = xo
			}
			out = joinEnv(out, w.block(in, cc.Body))
		}
		e = out
	default:
		w.add(fact{kind: "unknown", note: fmt.Sprintf("%T: %s", s, src(s))})
	}
	return e
}

// dedupe removes facts appended after `from` that repeat an earlier fact of the same function (second loop round)
func dedupe(from int) {
	seen := map[string]bool{}
	for _, f := range facts[:from] {
		seen[key(f)] = true
	}
	out := facts[:from]
	for _, f := range facts[from:] {
		if !seen[key(f)] {
			seen[key(f)] = true
			out = append(out, f)
		}
	}
	facts = out
}
func key(f fact) string {
	return fmt.Sprintf("%s|%d|%s|%s%d|%d|%d|%s", f.kind, f.fn, f.wkind, f.o.kind, f.o.idx, f.callee, f.arg, f.note)
}

func leanStr(s string) string {
	return `"` + strings.ReplaceAll(strings.ReplaceAll(s, `\`, `\\`), `"`, `\"`) + `"`
}

func main() {
	repo := os.Getenv("VERIF_REPO")
	if repo == "" {
		repo = "/repo"
	}
	leanDir := os.Getenv("VERIF_LEAN")
	if leanDir == "" {
		leanDir = "/verif/lean"
	}
	parsed := map[string]*ast.File{}
	for _, f := range files {
		af, err := parser.ParseFile(fset, filepath.Join(repo, f), nil, 0)
		if err != nil {
			fmt.Fprintln(os.Stderr, err)
			os.Exit(1)
		}
		parsed[f] = af
	}
	// pass 0: the functions
	for _, f := range files {
		for _, d := range parsed[f].Decls {
			fd, ok := d.(*ast.FuncDecl)
			if !ok || fd.Body == nil {
				continue
			}
			name := fd.Name.Name
			if fd.Recv != nil && len(fd.Recv.List) > 0 {
				name = strings.TrimPrefix(src(fd.Recv.List[0].Type), "*") + "." + name
			}
			x := &fn{file: f, name: name, decl: fd, entry: entryMethods[fd.Name.Name] && fd.Recv != nil, pidx: map[string]int{}}
			i := 0
			for _, p := range fd.Type.Params.List {
				_, ref := refLike(p.Type)
				_, isFunc := p.Type.(*ast.FuncType)
				for _, n := range p.Names {
					x.params = append(x.params, n.Name)
					if ref || isFunc {
						x.pidx[n.Name] = i
					}
					i++
				}
				if len(p.Names) == 0 {
					x.params = append(x.params, "_")
					i++
				}
			}
			fns = append(fns, x)
			byName[f+"/"+fd.Name.Name] = append(byName[f+"/"+fd.Name.Name], x)
		}
	}
	// closures passed to a function of these files become functions "Callee#k"
	for _, x := range append([]*fn(nil), fns...) {
		ast.Inspect(x.decl.Body, func(n ast.Node) bool {
			c, ok := n.(*ast.CallExpr)
			if !ok {
				return true
			}
			for k, a := range c.Args {
				lit, ok := a.(*ast.FuncLit)
				if !ok {
					continue
				}
				if cands := resolve(x.file, calleeName(c)); len(cands) > 0 {
					cl := &fn{file: x.file, name: fmt.Sprintf("%s#%d", calleeName(c), k), lit: lit, pidx: map[string]int{}}
					i := 0
					for _, p := range lit.Type.Params.List {
						_, ref := refLike(p.Type)
						for _, n := range p.Names {
							cl.params = append(cl.params, n.Name)
							if ref {
								cl.pidx[n.Name] = i
							}
							i++
						}
					}
					closures[lit] = cl
					fns = append(fns, cl)
				}
			}
			return true
		})
	}
	for i, x := range fns {
		x.id = i
	}
	// two passes: the first collects what is stored into receiver fields
	closureEnv := map[*ast.FuncLit]env{}
	for pass := 0; pass < 2; pass++ {
		facts = nil
		for _, x := range fns {
			if x.lit != nil {
				continue
			}
			w := &walker{f: x}
			e := env{}
			if x.decl.Recv != nil && len(x.decl.Recv.List) > 0 && len(x.decl.Recv.List[0].Names) > 0 {
				w.recv = x.decl.Recv.List[0].Names[0].Name
				e[w.recv] = origin{"own", 0}
			}
			for _, p := range x.decl.Type.Params.List {
				_, ref := refLike(p.Type)
				for _, n := range p.Names {
					switch {
					case !ref:
						e[n.Name] = origin{"scalar", 0}
					case x.entry:
						e[n.Name] = origin{"input", 0}
					default:
						e[n.Name] = origin{"param", x.pidx[n.Name]}
					}
				}
			}
			if x.decl.Type.Results != nil {
				for _, r := range x.decl.Type.Results.List {
					for _, n := range r.Names {
						e[n.Name] = origin{"fresh", 0}
					}
				}
			}
			// remember the environment at each bound closure (approximation: the environment at function entry
			// joined with everything assigned anywhere is not needed here: closures only read captured messages)
			ast.Inspect(x.decl.Body, func(n ast.Node) bool {
				if lit, ok := n.(*ast.FuncLit); ok {
					if _, bound := closures[lit]; bound {
						closureEnv[lit] = e
					}
				}
				return true
			})
			final := w.block(e, x.decl.Body.List)
			for lit, cl := range closures {
				if closureEnv[lit] != nil && containsLit(x.decl.Body, lit) {
					cw := &walker{f: cl, recv: w.recv}
					ce := final.clone() // captured variables as they are at the end of the enclosing function (worst case of joins)
					for n, i := range cl.pidx {
						ce[n] = origin{"param", i}
					}
					for _, n := range cl.params {
						if _, ok := cl.pidx[n]; !ok {
							ce[n] = origin{"scalar", 0}
						}
					}
					cw.block(ce, lit.Body.List)
				}
			}
		}
	}
	// output
	var b strings.Builder
	b.WriteString("/- GENERATED by extract/c10alias from the Go source of the C10 node files. Do not edit. -/\nimport Kap.Model.C10Alias\nimport Kap.Model.C10Buf\nnamespace Kap.Gen.C10\nopen Kap.C10.Alias\n\n")
	b.WriteString("/-- functions: id = position -/\ndef funcs : List String := [\n")
	for i, x := range fns {
		sep := ","
		if i == len(fns)-1 {
			sep = ""
		}
		fmt.Fprintf(&b, "  %s%s\n", leanStr(x.file+":"+x.name), sep)
	}
	b.WriteString("]\n\ndef facts : List Fact := [\n")
	sort.SliceStable(facts, func(i, j int) bool { return facts[i].fn < facts[j].fn })
	for i, f := range facts {
		sep := ","
		if i == len(facts)-1 {
			sep = ""
		}
		switch f.kind {
		case "write":
			fmt.Fprintf(&b, "  .write %d .%s %s%s  -- %s: %s\n", f.fn, f.wkind, f.o.lean(), sep, fns[f.fn].name, f.note)
		case "call":
			fmt.Fprintf(&b, "  .call %d %d %d %s%s  -- %s: %s\n", f.fn, f.callee, f.arg, f.o.lean(), sep, fns[f.fn].name, f.note)
		default:
			fmt.Fprintf(&b, "  .unknown %d %s%s\n", f.fn, leanStr(f.note), sep)
		}
	}
	b.WriteString("]\n")
	b.WriteString(bufferedLean(repo))
	b.WriteString("\nend Kap.Gen.C10\n")
	out := filepath.Join(leanDir, "Kap", "Gen", "C10.lean")
	os.MkdirAll(filepath.Dir(out), 0o755)
	if old, err := os.ReadFile(out); err == nil && string(old) == b.String() {
		return // unchanged: keep the olean fresh
	}
	if err := os.WriteFile(out, []byte(b.String()), 0o644); err != nil {
		fmt.Fprintln(os.Stderr, err)
		os.Exit(1)
	}
}

func containsLit(body *ast.BlockStmt, lit *ast.FuncLit) bool {
	found := false
	ast.Inspect(body, func(n ast.Node) bool {
		if n == ast.Node(lit) {
			found = true
		}
		return !found
	})
	return found
}
