module c13extract

go 1.18
