// Extractor for property C13: regenerates lean/Kap/Gen/C13.lean from the Go SOURCE of
// tick/ast/lex.go and tick/ast/parser.go (go/ast, standard library only).
//
// Extracted (table-like code):
//   - the TokenType constant block: which constants lie strictly between begin_tok_operator and
//     end_tok_operator (= the binary expression operators, `IsExprOperator`), in iota order, and the
//     class markers (math / logic / comp) they fall under
//   - `operatorStr` (operator <-> token string), including the entry of TokenNot
//   - `precedence` of parser.go (operator -> binding power)
//   - `unaryOperatorChars`, `durationUnits`, the `keywords` map
//
// FAIL CLOSED: an operator without a string or without a precedence entry is emitted as `none`
// (Go would silently use the zero value of the array); a shape that is not recognised is added to
// `unknown`. The theorems `Kap.Props.C13.gen_table_total` / `gen_no_unknown` stop checking then.
// Env: VERIF_REPO (default /repo), VERIF_LEAN (default /verif/lean).
package main

import (
	"bytes"
	"fmt"
	"go/ast"
	"go/parser"
	"go/printer"
	"go/token"
	"os"
	"path/filepath"
	"strconv"
	"strings"
)

var fset = token.NewFileSet()

func src(n ast.Node) string {
	var b bytes.Buffer
	printer.Fprint(&b, fset, n)
	return strings.Join(strings.Fields(b.String()), " ")
}

func leanStr(s string) string {
	var b strings.Builder
	b.WriteByte('"')
	for _, r := range s {
		switch {
		case r == '"':
			b.WriteString("\\\"")
		case r == '\\':
			b.WriteString("\\\\")
		case r == '\n':
			b.WriteString("\\n")
		case r < 0x20 || r == 0x7f:
			fmt.Fprintf(&b, "\\x%02x", r)
		default:
			b.WriteRune(r)
		}
	}
	b.WriteByte('"')
	return b.String()
}

func env(k, d string) string {
	if v := os.Getenv(k); v != "" {
		return v
	}
	return d
}

func main() {
	repo := env("VERIF_REPO", "/repo")
	lean := env("VERIF_LEAN", "/verif/lean")
	var unknown []string

	lexF, err := parser.ParseFile(fset, filepath.Join(repo, "tick/ast/lex.go"), nil, 0)
	if err != nil {
		fmt.Fprintln(os.Stderr, err)
		os.Exit(1)
	}
	parF, err := parser.ParseFile(fset, filepath.Join(repo, "tick/ast/parser.go"), nil, 0)
	if err != nil {
		fmt.Fprintln(os.Stderr, err)
		os.Exit(1)
	}

	// ---- the TokenType const block (the one that declares TokenError) ----
	var tokNames []string
	for _, d := range lexF.Decls {
		g, ok := d.(*ast.GenDecl)
		if !ok || g.Tok != token.CONST {
			continue
		}
		var names []string
		has := false
		for _, s := range g.Specs {
			vs := s.(*ast.ValueSpec)
			for _, n := range vs.Names {
				names = append(names, n.Name)
				if n.Name == "TokenError" {
					has = true
				}
			}
			if len(vs.Values) > 0 && !(len(names) == 1 && src(vs.Values[0]) == "iota") {
				if has {
					unknown = append(unknown, "const block: "+src(vs))
				}
			}
		}
		if has {
			tokNames = names
		}
	}
	if tokNames == nil {
		unknown = append(unknown, "TokenType const block not found")
	}
	// operators = exported names strictly between begin_tok_operator and end_tok_operator
	type opInfo struct{ name, cls string }
	var ops []opInfo
	in, cls := false, ""
	seenBegin, seenEnd := false, false
	for _, n := range tokNames {
		switch {
		case n == "begin_tok_operator":
			in, seenBegin = true, true
		case n == "end_tok_operator":
			in, seenEnd = false, true
		case strings.HasPrefix(n, "begin_tok_operator_"):
			cls = strings.TrimPrefix(n, "begin_tok_operator_")
		case strings.HasPrefix(n, "end_tok_operator_"):
			cls = ""
		case in && strings.HasPrefix(n, "Token"):
			ops = append(ops, opInfo{n, cls})
		case in:
			unknown = append(unknown, "unexpected constant inside the operator range: "+n)
		}
	}
	if !seenBegin || !seenEnd {
		unknown = append(unknown, "begin_tok_operator/end_tok_operator markers not found")
	}

	// ---- keyed composite literal tables ----
	table := func(f *ast.File, name string) (map[string]string, bool) {
		out := map[string]string{}
		found := false
		for _, d := range f.Decls {
			g, ok := d.(*ast.GenDecl)
			if !ok || g.Tok != token.VAR {
				continue
			}
			for _, s := range g.Specs {
				vs := s.(*ast.ValueSpec)
				if len(vs.Names) != 1 || vs.Names[0].Name != name || len(vs.Values) != 1 {
					continue
				}
				cl, ok := vs.Values[0].(*ast.CompositeLit)
				if !ok {
					unknown = append(unknown, name+": "+src(vs.Values[0]))
					continue
				}
				found = true
				for _, e := range cl.Elts {
					kv, ok := e.(*ast.KeyValueExpr)
					if !ok {
						unknown = append(unknown, name+" element: "+src(e))
						continue
					}
					var k string
					switch kk := kv.Key.(type) {
					case *ast.Ident:
						k = kk.Name
					case *ast.BasicLit:
						k = kk.Value
					default:
						unknown = append(unknown, name+" key: "+src(kv.Key))
						continue
					}
					switch v := kv.Value.(type) {
					case *ast.BasicLit:
						if _, dup := out[k]; dup {
							unknown = append(unknown, name+" duplicate key: "+k)
						}
						out[k] = v.Value
					case *ast.Ident:
						out[k] = v.Name
					default:
						unknown = append(unknown, name+" value: "+src(kv.Value))
					}
				}
			}
		}
		return out, found
	}
	opStr, ok1 := table(lexF, "operatorStr")
	prec, ok2 := table(parF, "precedence")
	kw, ok3 := table(lexF, "keywords")
	if !ok1 {
		unknown = append(unknown, "operatorStr table not found")
	}
	if !ok2 {
		unknown = append(unknown, "precedence table not found")
	}
	if !ok3 {
		unknown = append(unknown, "keywords table not found")
	}
	// string constants
	consts := map[string]string{}
	for _, d := range lexF.Decls {
		g, ok := d.(*ast.GenDecl)
		if !ok || g.Tok != token.CONST {
			continue
		}
		for _, s := range g.Specs {
			vs := s.(*ast.ValueSpec)
			if len(vs.Names) == 1 && len(vs.Values) == 1 {
				if bl, ok := vs.Values[0].(*ast.BasicLit); ok && bl.Kind == token.STRING {
					if v, err := strconv.Unquote(bl.Value); err == nil {
						consts[vs.Names[0].Name] = v
					}
				}
			}
		}
	}
	unq := func(what, lit string) string {
		v, err := strconv.Unquote(lit)
		if err != nil {
			unknown = append(unknown, what+": not a string literal: "+lit)
			return ""
		}
		return v
	}
	// every key of the two tables must be a known constant
	known := map[string]bool{}
	for _, n := range tokNames {
		known[n] = true
	}
	isOp := map[string]bool{}
	for _, o := range ops {
		isOp[o.name] = true
	}
	for k := range opStr {
		if !known[k] {
			unknown = append(unknown, "operatorStr key is not a TokenType constant: "+k)
		} else if !isOp[k] && k != "TokenNot" {
			unknown = append(unknown, "operatorStr key outside the operator range: "+k)
		}
	}
	for k := range prec {
		if !isOp[k] {
			unknown = append(unknown, "precedence key is not an expression operator: "+k)
		}
	}

	var b strings.Builder
	b.WriteString("/- GENERATED by /verif/extract/c13 from tick/ast/lex.go and tick/ast/parser.go. Do not edit. -/\n")
	b.WriteString("namespace Kap.C13.Gen\n\n")
	b.WriteString("/-- The binary expression operators: TokenType constants strictly between `begin_tok_operator` and\n`end_tok_operator` (what `IsExprOperator` accepts), in iota order. -/\n")
	b.WriteString("inductive BinOp where\n")
	for _, o := range ops {
		fmt.Fprintf(&b, "  | %s\n", o.name)
	}
	b.WriteString("  deriving DecidableEq, Repr, Inhabited\n\n")
	b.WriteString("def BinOp.all : List BinOp := [")
	for i, o := range ops {
		if i > 0 {
			b.WriteString(", ")
		}
		b.WriteString("." + o.name)
	}
	b.WriteString("]\n\n")
	b.WriteString("/-- `operatorStr[op]`; `none` = no entry in the Go table (Go would use \"\"). -/\ndef BinOp.str? : BinOp → Option String\n")
	for _, o := range ops {
		if v, ok := opStr[o.name]; ok {
			fmt.Fprintf(&b, "  | .%s => some %s\n", o.name, leanStr(unq("operatorStr", v)))
		} else {
			fmt.Fprintf(&b, "  | .%s => none\n", o.name)
		}
	}
	b.WriteString("\n/-- `precedence[op]` of parser.go; `none` = no entry in the Go table (Go would use 0). -/\ndef BinOp.prec? : BinOp → Option Nat\n")
	for _, o := range ops {
		if v, ok := prec[o.name]; ok {
			if n, err := strconv.Atoi(v); err == nil && n >= 0 {
				fmt.Fprintf(&b, "  | .%s => some %d\n", o.name, n)
				continue
			}
			unknown = append(unknown, "precedence value: "+o.name+" = "+v)
		}
		fmt.Fprintf(&b, "  | .%s => none\n", o.name)
	}
	b.WriteString("\n/-- class marker the constant is declared under (math / logic / comp). -/\ndef BinOp.cls : BinOp → String\n")
	for _, o := range ops {
		fmt.Fprintf(&b, "  | .%s => %s\n", o.name, leanStr(o.cls))
	}
	if v, ok := opStr["TokenNot"]; ok {
		fmt.Fprintf(&b, "\n/-- `operatorStr[TokenNot]`. -/\ndef notStr? : Option String := some %s\n", leanStr(unq("operatorStr", v)))
	} else {
		b.WriteString("\ndef notStr? : Option String := none\n")
	}
	for _, c := range []string{"unaryOperatorChars", "durationUnits"} {
		if v, ok := consts[c]; ok {
			fmt.Fprintf(&b, "\ndef %s : String := %s\n", c, leanStr(v))
		} else {
			unknown = append(unknown, "string constant not found: "+c)
			fmt.Fprintf(&b, "\ndef %s : String := \"\"\n", c)
		}
	}
	// keywords: key is a KW_ constant, value a token constant
	b.WriteString("\n/-- the `keywords` map: keyword text ↦ token constant. -/\ndef keywords : List (String × String) := [")
	first := true
	var kwKeys []string
	for k := range kw {
		kwKeys = append(kwKeys, k)
	}
	// deterministic order
	for i := 0; i < len(kwKeys); i++ {
		for j := i + 1; j < len(kwKeys); j++ {
			if kwKeys[j] < kwKeys[i] {
				kwKeys[i], kwKeys[j] = kwKeys[j], kwKeys[i]
			}
		}
	}
	for _, k := range kwKeys {
		text, ok := consts[k]
		if !ok {
			unknown = append(unknown, "keyword key is not a string constant: "+k)
			continue
		}
		if !first {
			b.WriteString(", ")
		}
		first = false
		fmt.Fprintf(&b, "(%s, %s)", leanStr(text), leanStr(kw[k]))
	}
	b.WriteString("]\n")
	b.WriteString("\n/-- shapes the extractor did not recognise (must be empty: theorem `gen_no_unknown`). -/\ndef unknown : List String := [")
	for i, u := range unknown {
		if i > 0 {
			b.WriteString(", ")
		}
		b.WriteString(leanStr(u))
	}
	b.WriteString("]\n\nend Kap.C13.Gen\n")

	out := filepath.Join(lean, "Kap/Gen/C13.lean")
	os.MkdirAll(filepath.Dir(out), 0o755)
	old, _ := os.ReadFile(out)
	if string(old) != b.String() {
		if err := os.WriteFile(out, []byte(b.String()), 0o644); err != nil {
			fmt.Fprintln(os.Stderr, err)
			os.Exit(1)
		}
	}
	fmt.Printf("c13extract: %d operators, %d unknown -> %s\n", len(ops), len(unknown), out)
}
