module c13jsonextract

go 1.18
