// Extractor for property C13 (pipeline JSON): regenerates lean/Kap/Gen/C13Json.lean from the Go SOURCE of
// pipeline/*.go (go/ast, standard library only).
//
// For every `func (n *XNode) MarshalJSON` / `UnmarshalJSON` of package pipeline it extracts
//   - the node kind: the literal of `TypeOf{Type: "..."}` (Marshal) / the literal(s) the decoded `raw.Type` is
//     compared with (`if raw.Type != "window" { return err }`, or a `switch raw.Type` whose default returns an error);
//     a kind that is a field of the node (`Type: n.Method`) is resolved through the constructor calls
//     (`newInfluxQLNode("count", ...)`) and gives one table entry per literal;
//   - the set of top-level JSON keys of the anonymous `raw` struct, computed with the rules of encoding/json:
//     tag name (options stripped), Go name when untagged, `json:"-"` and unexported fields skipped, untagged embedded
//     structs (`TypeOf`, `*Alias` where `type Alias XNode`, `chainnode`, `*AlertNodeData`, ...) flattened one level
//     deeper, the shallowest field wins. A key that encoding/json would silently DROP (two fields of the same depth and
//     tagged-ness) is reported in `jsonUnknown`.
//   - UDFNode builds / reads a `JSONNode` map: the calls of the JSONNode methods (SetType/SetID/Set/CheckTypeOf/ID/
//     String/Field, `range`) are interpreted; a computed key is the marker "*".
//
// From pipeline/json.go: the literal keys of the maps filled in `init()` that `unmarshalNode` indexes with `typ.Type`
// (the kinds the decoder can dispatch), the Go type each entry constructs, the special-case functions, the keys the
// dispatcher itself reads before it constructs the node, and the `unmarshalX` functions nobody registers.
//
// FAIL CLOSED: every shape that is not recognised is an entry of `jsonUnknown` with a reason (theorem
// `json_no_unknown` stops checking); nothing is guessed.
// Env: VERIF_REPO (default /repo), VERIF_LEAN (default /verif/lean).
package main

import (
	"fmt"
	"go/ast"
	"go/parser"
	"go/token"
	"os"
	"path/filepath"
	"reflect"
	"sort"
	"strconv"
	"strings"
)

func env(k, d string) string {
	if v := os.Getenv(k); v != "" {
		return v
	}
	return d
}

func leanStr(s string) string { return strconv.Quote(s) }

type pkg struct {
	types   map[string]ast.Expr                 // package-level type name -> type expression
	consts  map[string]string                   // package-level string constants
	methods map[string]map[string]*ast.FuncDecl // receiver type -> method name -> decl
	funcs   map[string]*ast.FuncDecl            // top-level functions
	fileOf  map[*ast.FuncDecl]string
	all     []*ast.FuncDecl
	unknown []string
}

func (p *pkg) bad(format string, a ...interface{}) {
	p.unknown = append(p.unknown, fmt.Sprintf(format, a...))
}

func recvType(fd *ast.FuncDecl) (typ, name string) {
	if fd.Recv == nil || len(fd.Recv.List) == 0 {
		return "", ""
	}
	t := fd.Recv.List[0].Type
	if se, ok := t.(*ast.StarExpr); ok {
		t = se.X
	}
	if id, ok := t.(*ast.Ident); ok {
		typ = id.Name
	}
	if len(fd.Recv.List[0].Names) > 0 {
		name = fd.Recv.List[0].Names[0].Name
	}
	return
}

func strLit(e ast.Expr) (string, bool) {
	if bl, ok := e.(*ast.BasicLit); ok && bl.Kind == token.STRING {
		s, err := strconv.Unquote(bl.Value)
		return s, err == nil
	}
	return "", false
}

func isIdent(e ast.Expr, name string) bool {
	id, ok := e.(*ast.Ident)
	return ok && id.Name == name
}

func isSel(e ast.Expr, x, sel string) bool {
	s, ok := e.(*ast.SelectorExpr)
	return ok && s.Sel.Name == sel && isIdent(s.X, x)
}

// ---------------------------------------------------------------- encoding/json field flattening

type jfield struct {
	name   string
	depth  int
	tagged bool
}

// resolve follows named types (function-local first) down to a type literal.
func (p *pkg) resolve(e ast.Expr, local map[string]ast.Expr) (ast.Expr, bool) {
	for i := 0; i < 16; i++ {
		id, ok := e.(*ast.Ident)
		if !ok {
			return e, true
		}
		if t, ok := local[id.Name]; ok {
			e = t
			continue
		}
		if t, ok := p.types[id.Name]; ok {
			e = t
			continue
		}
		return nil, false
	}
	return nil, false
}

func jsonTag(f *ast.Field) (name string, has bool, ok bool) {
	if f.Tag == nil {
		return "", false, true
	}
	raw, err := strconv.Unquote(f.Tag.Value)
	if err != nil {
		return "", false, false
	}
	v, has := reflect.StructTag(raw).Lookup("json")
	if !has {
		return "", false, true
	}
	if v == "-" {
		return "-", true, true
	}
	return strings.Split(v, ",")[0], true, true
}

func (p *pkg) flatten(st *ast.StructType, local map[string]ast.Expr, depth int, ctx string, probs *[]string) []jfield {
	var out []jfield
	if depth > 8 {
		*probs = append(*probs, ctx+": embedding deeper than 8")
		return nil
	}
	for _, f := range st.Fields.List {
		tag, has, ok := jsonTag(f)
		if !ok {
			*probs = append(*probs, ctx+": unreadable struct tag")
			continue
		}
		if has && tag == "-" {
			continue
		}
		if len(f.Names) == 0 { // embedded
			t := f.Type
			if se, ok := t.(*ast.StarExpr); ok {
				t = se.X
			}
			id, isId := t.(*ast.Ident)
			if !isId {
				*probs = append(*probs, ctx+": embedded field of a type of another package")
				continue
			}
			under, ok := p.resolve(id, local)
			if !ok {
				*probs = append(*probs, ctx+": embedded type "+id.Name+" not found in the package")
				continue
			}
			sub, isStruct := under.(*ast.StructType)
			if !ast.IsExported(id.Name) && !isStruct {
				continue // encoding/json ignores embedded unexported non-struct types
			}
			if tag != "" {
				out = append(out, jfield{tag, depth, true})
				continue
			}
			if isStruct {
				out = append(out, p.flatten(sub, local, depth+1, ctx, probs)...)
				continue
			}
			out = append(out, jfield{id.Name, depth, false})
			continue
		}
		for _, n := range f.Names {
			if !ast.IsExported(n.Name) {
				continue
			}
			if tag != "" {
				out = append(out, jfield{tag, depth, true})
			} else {
				out = append(out, jfield{n.Name, depth, false})
			}
		}
	}
	return out
}

// keysOf applies the dominance rule of encoding/json (shallowest, then tagged; a tie drops the key).
func keysOf(fs []jfield, ctx string, probs *[]string) []string {
	by := map[string][]jfield{}
	for _, f := range fs {
		by[f.name] = append(by[f.name], f)
	}
	var keys []string
	for name, l := range by {
		min := l[0].depth
		for _, f := range l {
			if f.depth < min {
				min = f.depth
			}
		}
		tagged, untagged := 0, 0
		for _, f := range l {
			if f.depth == min {
				if f.tagged {
					tagged++
				} else {
					untagged++
				}
			}
		}
		if tagged == 1 || (tagged == 0 && untagged == 1) {
			keys = append(keys, name)
		} else {
			*probs = append(*probs, fmt.Sprintf("%s: key %s is ambiguous at depth %d (encoding/json drops it silently)", ctx, name, min))
		}
	}
	sort.Strings(keys)
	return keys
}

// ---------------------------------------------------------------- JSONNode (map) interpretation

type sval struct {
	s  string
	ok bool
}

type access struct {
	key       string // "*" when computed
	write     bool
	val       sval // value written (writes only)
	kindCheck bool // this is a `if j[typeOf] != <val> { return err }` check
}

func (p *pkg) evalStr(e ast.Expr, env map[string]sval) sval {
	if s, ok := strLit(e); ok {
		return sval{s, true}
	}
	if id, ok := e.(*ast.Ident); ok {
		if v, ok := env[id.Name]; ok {
			return v
		}
		if c, ok := p.consts[id.Name]; ok {
			return sval{c, true}
		}
	}
	return sval{}
}

func keyOf(v sval) string {
	if v.ok {
		return v.s
	}
	return "*"
}

// chainRoot: x.M1(..).M2(..) -> is the innermost receiver the variable v or the literal JSONNode{} ?
func chainRoot(e ast.Expr, v string) bool {
	for {
		switch x := e.(type) {
		case *ast.Ident:
			return x.Name == v
		case *ast.CompositeLit:
			return isIdent(x.Type, "JSONNode") && len(x.Elts) == 0
		case *ast.CallExpr:
			sel, ok := x.Fun.(*ast.SelectorExpr)
			if !ok {
				return false
			}
			e = sel.X
		case *ast.ParenExpr:
			e = x.X
		default:
			return false
		}
	}
}

// interp walks a body in which the JSONNode value is called v and returns its map accesses.
func (p *pkg) interp(body ast.Node, v string, env map[string]sval, depth int, ctx string, probs *[]string) []access {
	var out []access
	if depth > 6 {
		*probs = append(*probs, ctx+": JSONNode call depth > 6")
		return nil
	}
	typeOfKey := p.consts["NodeTypeOf"]
	handled := map[ast.Node]bool{}
	defKey := map[string]sval{} // local x defined by `x, ok := v[K]`
	ast.Inspect(body, func(n ast.Node) bool {
		switch x := n.(type) {
		case *ast.FuncLit:
			*probs = append(*probs, ctx+": function literal in a JSONNode body")
			return false
		case *ast.AssignStmt:
			for i, l := range x.Lhs {
				if ix, ok := l.(*ast.IndexExpr); ok && isIdent(ix.X, v) {
					handled[ix] = true
					handled[ix.X] = true
					val := sval{}
					if len(x.Rhs) == len(x.Lhs) {
						val = p.evalStr(x.Rhs[i], env)
					}
					out = append(out, access{key: keyOf(p.evalStr(ix.Index, env)), write: true, val: val})
				}
				if id, ok := l.(*ast.Ident); ok && id.Name == v {
					handled[id] = true
				}
			}
			if len(x.Rhs) == 1 {
				if ix, ok := x.Rhs[0].(*ast.IndexExpr); ok && isIdent(ix.X, v) {
					if id, ok := x.Lhs[0].(*ast.Ident); ok {
						defKey[id.Name] = p.evalStr(ix.Index, env)
					}
				}
			}
		case *ast.IndexExpr:
			if isIdent(x.X, v) && !handled[x] {
				handled[x.X] = true
				out = append(out, access{key: keyOf(p.evalStr(x.Index, env))})
			}
		case *ast.RangeStmt:
			if isIdent(x.X, v) {
				handled[x.X] = true
				out = append(out, access{key: "*"})
			}
		case *ast.CallExpr:
			sel, ok := x.Fun.(*ast.SelectorExpr)
			if !ok || !chainRoot(sel.X, v) {
				// json.Marshal(&v) is the only other call that may take v
				if ok && isIdent(sel.X, "json") && sel.Sel.Name == "Marshal" && len(x.Args) == 1 {
					a := x.Args[0]
					if u, ok := a.(*ast.UnaryExpr); ok && u.Op == token.AND {
						a = u.X
					}
					if isIdent(a, v) {
						handled[a] = true
					}
				}
				return true
			}
			if id, ok := sel.X.(*ast.Ident); ok {
				handled[id] = true
			}
			m := p.methods["JSONNode"][sel.Sel.Name]
			if m == nil || m.Body == nil {
				*probs = append(*probs, ctx+": unknown JSONNode method "+sel.Sel.Name)
				return true
			}
			_, rn := recvType(m)
			sub := map[string]sval{}
			i := 0
			for _, f := range m.Type.Params.List {
				for _, pn := range f.Names {
					if i < len(x.Args) {
						sub[pn.Name] = p.evalStr(x.Args[i], env)
					} else {
						sub[pn.Name] = sval{}
					}
					i++
				}
			}
			out = append(out, p.interp(m.Body, rn, sub, depth+1, ctx+"/"+sel.Sel.Name, probs)...)
		case *ast.IfStmt:
			// kind check: `if t != typ { return <error> }` with t read from v[typeOf] and typ known
			be, ok := x.Cond.(*ast.BinaryExpr)
			if !ok || be.Op != token.NEQ {
				return true
			}
			a, aok := be.X.(*ast.Ident)
			b, bok := be.Y.(*ast.Ident)
			if !aok || !bok {
				return true
			}
			k, isRead := defKey[a.Name]
			val, isKnown := env[b.Name]
			if isRead && k.ok && k.s == typeOfKey && isKnown && val.ok && returnsError(x.Body) {
				out = append(out, access{key: typeOfKey, kindCheck: true, val: val})
			}
		case *ast.ReturnStmt:
			for _, r := range x.Results {
				if isIdent(r, v) {
					handled[r] = true
				}
			}
		}
		return true
	})
	ast.Inspect(body, func(n ast.Node) bool {
		if id, ok := n.(*ast.Ident); ok && id.Name == v && !handled[id] {
			*probs = append(*probs, fmt.Sprintf("%s: unrecognised use of the JSONNode %s", ctx, v))
		}
		return true
	})
	return out
}

// returnsError: the block ends in a return whose last result is not nil.
func returnsError(b *ast.BlockStmt) bool {
	if b == nil || len(b.List) == 0 {
		return false
	}
	r, ok := b.List[len(b.List)-1].(*ast.ReturnStmt)
	if !ok || len(r.Results) == 0 {
		return false
	}
	return !isIdent(r.Results[len(r.Results)-1], "nil")
}

// ---------------------------------------------------------------- per-node Marshal / Unmarshal

type entry struct {
	goType string
	kind   string
	keys   []string
}

func localTypes(body *ast.BlockStmt) map[string]ast.Expr {
	local := map[string]ast.Expr{}
	for _, s := range body.List {
		if ds, ok := s.(*ast.DeclStmt); ok {
			if gd, ok := ds.Decl.(*ast.GenDecl); ok && gd.Tok == token.TYPE {
				for _, sp := range gd.Specs {
					ts := sp.(*ast.TypeSpec)
					local[ts.Name.Name] = ts.Type
				}
			}
		}
	}
	return local
}

// defOf finds the top-level definition `var v = X` / `v := X` of a body.
func defOf(body *ast.BlockStmt, v string) ast.Expr {
	var found ast.Expr
	n := 0
	for _, s := range body.List {
		switch x := s.(type) {
		case *ast.DeclStmt:
			if gd, ok := x.Decl.(*ast.GenDecl); ok && gd.Tok == token.VAR {
				for _, sp := range gd.Specs {
					vs := sp.(*ast.ValueSpec)
					for i, nm := range vs.Names {
						if nm.Name == v {
							n++
							if i < len(vs.Values) {
								found = vs.Values[i]
							}
						}
					}
				}
			}
		case *ast.AssignStmt:
			if x.Tok == token.DEFINE {
				for i, l := range x.Lhs {
					if isIdent(l, v) && len(x.Rhs) == len(x.Lhs) {
						n++
						found = x.Rhs[i]
					}
				}
			}
		}
	}
	if n != 1 {
		return nil
	}
	return found
}

func stripAddr(e ast.Expr) ast.Expr {
	if u, ok := e.(*ast.UnaryExpr); ok && u.Op == token.AND {
		return u.X
	}
	return e
}

func isNoop(body *ast.BlockStmt) bool {
	if len(body.List) != 1 {
		return false
	}
	r, ok := body.List[0].(*ast.ReturnStmt)
	if !ok {
		return false
	}
	for _, e := range r.Results {
		if !isIdent(e, "nil") {
			return false
		}
	}
	return true
}

// fieldKinds resolves a kind that is the field `field` of node type T: the literals passed to the constructor.
func (p *pkg) fieldKinds(T, field, ctx string) []string {
	var kinds []string
	found := false
	for _, fd := range p.all {
		if fd.Body == nil {
			continue
		}
		rt, _ := recvType(fd)
		// assignments x.field = ... are allowed only on the decoding side
		ast.Inspect(fd.Body, func(n ast.Node) bool {
			as, ok := n.(*ast.AssignStmt)
			if !ok {
				return true
			}
			for _, l := range as.Lhs {
				if s, ok := l.(*ast.SelectorExpr); ok && s.Sel.Name == field {
					dec := (fd.Name.Name == "UnmarshalJSON" && rt == T) || (fd.Name.Name == "unmarshalNode" && rt == "Pipeline")
					if !dec {
						p.bad("%s: field %s is assigned in %s (kind not a constructor literal)", ctx, field, fd.Name.Name)
					}
				}
			}
			return true
		})
		// composite literals T{field: param}
		ast.Inspect(fd.Body, func(n ast.Node) bool {
			cl, ok := n.(*ast.CompositeLit)
			if !ok || !isIdent(cl.Type, T) {
				return true
			}
			for _, el := range cl.Elts {
				kv, ok := el.(*ast.KeyValueExpr)
				if !ok || !isIdent(kv.Key, field) {
					continue
				}
				found = true
				if s, ok := strLit(kv.Value); ok {
					kinds = append(kinds, s)
					continue
				}
				id, ok := kv.Value.(*ast.Ident)
				idx := -1
				if ok && fd.Recv == nil {
					i := 0
					for _, f := range fd.Type.Params.List {
						for _, pn := range f.Names {
							if pn.Name == id.Name {
								idx = i
							}
							i++
						}
					}
				}
				if idx < 0 {
					p.bad("%s: %s{%s: ...} in %s is neither a literal nor a parameter", ctx, T, field, fd.Name.Name)
					continue
				}
				// every call of the constructor
				calls := 0
				for _, g := range p.all {
					if g.Body == nil {
						continue
					}
					ast.Inspect(g.Body, func(m ast.Node) bool {
						c, ok := m.(*ast.CallExpr)
						if !ok || !isIdent(c.Fun, fd.Name.Name) {
							return true
						}
						calls++
						if idx >= len(c.Args) {
							p.bad("%s: call of %s without argument %d", ctx, fd.Name.Name, idx)
							return true
						}
						if s, ok := strLit(c.Args[idx]); ok {
							kinds = append(kinds, s)
						} else {
							p.bad("%s: %s called in %s with a computed kind", ctx, fd.Name.Name, g.Name.Name)
						}
						return true
					})
				}
				if calls == 0 {
					p.bad("%s: constructor %s is never called", ctx, fd.Name.Name)
				}
			}
			return true
		})
	}
	if !found {
		p.bad("%s: no constructor sets %s.%s", ctx, T, field)
	}
	sort.Strings(kinds)
	var u []string
	for i, k := range kinds {
		if i == 0 || kinds[i-1] != k {
			u = append(u, k)
		}
	}
	return u
}

func (p *pkg) marshal(fd *ast.FuncDecl, T, rn string) (noop bool, es []entry) {
	ctx := T + ".MarshalJSON"
	if isNoop(fd.Body) {
		return true, nil
	}
	// exactly one json.Marshal call, in a return; every other return yields nil bytes
	var arg ast.Expr
	nMarshal := 0
	okReturns := true
	ast.Inspect(fd.Body, func(n ast.Node) bool {
		switch x := n.(type) {
		case *ast.FuncLit:
			return false
		case *ast.CallExpr:
			if isSel(x.Fun, "json", "Marshal") {
				nMarshal++
			}
		case *ast.ReturnStmt:
			switch len(x.Results) {
			case 1:
				c, ok := x.Results[0].(*ast.CallExpr)
				if ok && isSel(c.Fun, "json", "Marshal") && len(c.Args) == 1 {
					arg = c.Args[0]
				} else {
					okReturns = false
				}
			case 2:
				if !isIdent(x.Results[0], "nil") {
					okReturns = false
				}
			default:
				okReturns = false
			}
		}
		return true
	})
	if nMarshal != 1 || arg == nil || !okReturns {
		p.bad("%s: not of the form `... return json.Marshal(raw)`", ctx)
		return
	}
	id, ok := stripAddr(arg).(*ast.Ident)
	if !ok {
		p.bad("%s: json.Marshal of something that is not a local variable", ctx)
		return
	}
	def := defOf(fd.Body, id.Name)
	if def == nil {
		p.bad("%s: no single definition of %s", ctx, id.Name)
		return
	}
	var probs []string
	if cl, ok := stripAddr(def).(*ast.CompositeLit); ok {
		st, ok := cl.Type.(*ast.StructType)
		if !ok {
			p.bad("%s: %s is not an anonymous struct", ctx, id.Name)
			return
		}
		keys := keysOf(p.flatten(st, localTypes(fd.Body), 0, ctx, &probs), ctx, &probs)
		// kind
		var kinds []string
		for _, el := range cl.Elts {
			kv, ok := el.(*ast.KeyValueExpr)
			if !ok || !isIdent(kv.Key, "TypeOf") {
				continue
			}
			tl, ok := kv.Value.(*ast.CompositeLit)
			if !ok || !isIdent(tl.Type, "TypeOf") {
				continue
			}
			for _, tel := range tl.Elts {
				tkv, ok := tel.(*ast.KeyValueExpr)
				if !ok || !isIdent(tkv.Key, "Type") {
					continue
				}
				if s, ok := strLit(tkv.Value); ok {
					kinds = []string{s}
				} else if sel, ok := tkv.Value.(*ast.SelectorExpr); ok && isIdent(sel.X, rn) {
					kinds = p.fieldKinds(T, sel.Sel.Name, ctx)
				}
			}
		}
		if len(kinds) == 0 {
			probs = append(probs, ctx+": no literal TypeOf{Type: ...}")
		}
		hasType := false
		for _, k := range keys {
			if k == p.consts["NodeTypeOf"] {
				hasType = true
			}
		}
		if !hasType {
			probs = append(probs, ctx+": the raw struct has no typeOf key")
		}
		p.unknown = append(p.unknown, probs...)
		if len(probs) > 0 {
			return
		}
		for _, k := range kinds {
			es = append(es, entry{T, k, keys})
		}
		return
	}
	// JSONNode builder
	if c, ok := def.(*ast.CallExpr); ok && chainRoot(c, id.Name) {
		acc := p.interp(fd.Body, id.Name, map[string]sval{}, 0, ctx, &probs)
		set := map[string]bool{}
		kind := sval{}
		for _, a := range acc {
			if !a.write {
				probs = append(probs, ctx+": reads the JSONNode it builds")
				continue
			}
			set[a.key] = true
			if a.key == p.consts["NodeTypeOf"] {
				kind = a.val
			}
		}
		if !kind.ok {
			probs = append(probs, ctx+": no literal kind (SetType)")
		}
		p.unknown = append(p.unknown, probs...)
		if len(probs) > 0 {
			return
		}
		var keys []string
		for k := range set {
			keys = append(keys, k)
		}
		sort.Strings(keys)
		return false, []entry{{T, kind.s, keys}}
	}
	p.bad("%s: %s is neither &struct{...}{...} nor a JSONNode builder chain", ctx, id.Name)
	return
}

func (p *pkg) unmarshal(fd *ast.FuncDecl, T, rn string) (noop bool, es []entry) {
	ctx := T + ".UnmarshalJSON"
	if isNoop(fd.Body) {
		return true, nil
	}
	// the decode call: json.Unmarshal(data, raw) or <decoder>.Decode(&raw)
	var target ast.Expr
	nDec := 0
	ast.Inspect(fd.Body, func(n ast.Node) bool {
		c, ok := n.(*ast.CallExpr)
		if !ok {
			return true
		}
		if isSel(c.Fun, "json", "Unmarshal") && len(c.Args) == 2 {
			nDec++
			target = c.Args[1]
		} else if s, ok := c.Fun.(*ast.SelectorExpr); ok && s.Sel.Name == "Decode" && len(c.Args) == 1 {
			nDec++
			target = c.Args[0]
		}
		return true
	})
	var probs []string
	if nDec == 1 {
		id, ok := stripAddr(target).(*ast.Ident)
		if !ok {
			p.bad("%s: decodes into something that is not a local variable", ctx)
			return
		}
		def := defOf(fd.Body, id.Name)
		if def == nil {
			p.bad("%s: no single definition of %s", ctx, id.Name)
			return
		}
		cl, ok := stripAddr(def).(*ast.CompositeLit)
		if !ok {
			p.bad("%s: %s is not &struct{...}{...}", ctx, id.Name)
			return
		}
		st, ok := cl.Type.(*ast.StructType)
		if !ok {
			p.bad("%s: %s is not an anonymous struct", ctx, id.Name)
			return
		}
		keys := keysOf(p.flatten(st, localTypes(fd.Body), 0, ctx, &probs), ctx, &probs)
		// kind check on <raw>.Type
		var kinds []string
		for _, s := range fd.Body.List {
			switch x := s.(type) {
			case *ast.IfStmt:
				be, ok := x.Cond.(*ast.BinaryExpr)
				if ok && be.Op == token.NEQ && isSel(be.X, id.Name, "Type") && x.Init == nil && returnsError(x.Body) {
					if k, ok := strLit(be.Y); ok {
						kinds = append(kinds, k)
					}
				}
			case *ast.SwitchStmt:
				if x.Init != nil || !isSel(x.Tag, id.Name, "Type") {
					continue
				}
				var ks []string
				hasDefault := false
				good := true
				for _, cs := range x.Body.List {
					cc := cs.(*ast.CaseClause)
					if cc.List == nil {
						hasDefault = len(cc.Body) > 0 && returnsError(&ast.BlockStmt{List: cc.Body})
						continue
					}
					for _, e := range cc.List {
						if k, ok := strLit(e); ok {
							ks = append(ks, k)
						} else {
							good = false
						}
					}
				}
				if hasDefault && good {
					kinds = append(kinds, ks...)
				} else {
					probs = append(probs, ctx+": switch on the kind without a rejecting default or with computed cases")
				}
			}
		}
		if len(kinds) == 0 {
			probs = append(probs, ctx+": no check of the decoded kind")
		}
		p.unknown = append(p.unknown, probs...)
		if len(probs) > 0 {
			return
		}
		sort.Strings(kinds)
		for _, k := range kinds {
			es = append(es, entry{T, k, keys})
		}
		return
	}
	// JSONNode: props, err := NewJSONNode(data); return n.<m>(props)
	if nDec == 0 {
		var v string
		for _, s := range fd.Body.List {
			if as, ok := s.(*ast.AssignStmt); ok && len(as.Rhs) == 1 {
				if c, ok := as.Rhs[0].(*ast.CallExpr); ok && isIdent(c.Fun, "NewJSONNode") && len(as.Lhs) > 0 {
					if id, ok := as.Lhs[0].(*ast.Ident); ok {
						v = id.Name
					}
				}
			}
		}
		var m *ast.FuncDecl
		if v != "" {
			if r, ok := fd.Body.List[len(fd.Body.List)-1].(*ast.ReturnStmt); ok && len(r.Results) == 1 {
				if c, ok := r.Results[0].(*ast.CallExpr); ok && len(c.Args) == 1 && isIdent(c.Args[0], v) {
					if s, ok := c.Fun.(*ast.SelectorExpr); ok && isIdent(s.X, rn) {
						m = p.methods[T][s.Sel.Name]
					}
				}
			}
		}
		// v may only be used in the definition, the error check and that call
		uses := 0
		ast.Inspect(fd.Body, func(n ast.Node) bool {
			if isId, ok := n.(*ast.Ident); ok && isId.Name == v {
				uses++
			}
			return true
		})
		if m == nil || m.Body == nil || uses != 2 || len(m.Type.Params.List) != 1 || len(m.Type.Params.List[0].Names) != 1 ||
			!isIdent(m.Type.Params.List[0].Type, "JSONNode") {
			p.bad("%s: neither a struct decode nor `props := NewJSONNode(data); return n.m(props)`", ctx)
			return
		}
		pn := m.Type.Params.List[0].Names[0].Name
		acc := p.interp(m.Body, pn, map[string]sval{}, 0, ctx, &probs)
		set := map[string]bool{}
		var kinds []string
		for _, a := range acc {
			if a.write {
				probs = append(probs, ctx+": writes the JSONNode it reads")
				continue
			}
			set[a.key] = true
			if a.kindCheck {
				kinds = append(kinds, a.val.s)
			}
		}
		if len(kinds) != 1 {
			probs = append(probs, ctx+": no single check of the decoded kind")
		}
		p.unknown = append(p.unknown, probs...)
		if len(probs) > 0 {
			return
		}
		var keys []string
		for k := range set {
			keys = append(keys, k)
		}
		sort.Strings(keys)
		return false, []entry{{T, kinds[0], keys}}
	}
	p.bad("%s: %d decode calls", ctx, nDec)
	return
}

// ---------------------------------------------------------------- pipeline/json.go

type dispatch struct {
	kind    string
	table   string
	special string // name of the registered function, "" for a closure
	goType  string // node type the entry constructs ("" = not recognised)
}

// scopeOf: variable -> declared type inside a function: parameters, `x, ok := y.(T)` and `x, ok := f(...)` (first
// result type of a function of the package).
func (p *pkg) scopeOf(params *ast.FieldList, body ast.Node) map[string]ast.Expr {
	sc := map[string]ast.Expr{}
	if params != nil {
		for _, f := range params.List {
			for _, n := range f.Names {
				sc[n.Name] = f.Type
			}
		}
	}
	ast.Inspect(body, func(x ast.Node) bool {
		if as, ok := x.(*ast.AssignStmt); ok && as.Tok == token.DEFINE && len(as.Rhs) == 1 && len(as.Lhs) >= 1 {
			if ta, ok := as.Rhs[0].(*ast.TypeAssertExpr); ok && ta.Type != nil {
				if id, ok := as.Lhs[0].(*ast.Ident); ok {
					sc[id.Name] = ta.Type
				}
			}
			if c, ok := as.Rhs[0].(*ast.CallExpr); ok {
				if fn, ok := c.Fun.(*ast.Ident); ok {
					if fd := p.funcs[fn.Name]; fd != nil && fd.Type.Results != nil && len(fd.Type.Results.List) >= 1 {
						if id, ok := as.Lhs[0].(*ast.Ident); ok {
							sc[id.Name] = fd.Type.Results.List[0].Type
						}
					}
				}
			}
		}
		return true
	})
	return sc
}

// constructedType: `x.M(...)`, `newX()` or `&T{}`: the node type *T it yields ("" = not recognised).
func (p *pkg) constructedType(e ast.Expr, scope map[string]ast.Expr) string {
	c, ok := e.(*ast.CallExpr)
	if !ok {
		if u, ok := e.(*ast.UnaryExpr); ok && u.Op == token.AND {
			if cl, ok := u.X.(*ast.CompositeLit); ok {
				if id, ok := cl.Type.(*ast.Ident); ok && strings.HasSuffix(id.Name, "Node") {
					return id.Name
				}
			}
		}
		return ""
	}
	switch f := c.Fun.(type) {
	case *ast.Ident:
		if fd := p.funcs[f.Name]; fd != nil {
			return resultNode(fd.Type)
		}
	case *ast.SelectorExpr:
		recv, ok := f.X.(*ast.Ident)
		if !ok {
			return ""
		}
		t, ok := scope[recv.Name]
		if !ok {
			return ""
		}
		if se, ok := t.(*ast.StarExpr); ok {
			t = se.X
		}
		id, ok := t.(*ast.Ident)
		if !ok {
			return ""
		}
		if it, ok := p.types[id.Name].(*ast.InterfaceType); ok {
			for _, m := range it.Methods.List {
				if len(m.Names) == 1 && m.Names[0].Name == f.Sel.Name {
					if ft, ok := m.Type.(*ast.FuncType); ok {
						return resultNode(ft)
					}
				}
			}
			return ""
		}
		if m := p.methods[id.Name][f.Sel.Name]; m != nil {
			return resultNode(m.Type)
		}
	}
	return ""
}

func resultNode(ft *ast.FuncType) string {
	if ft.Results == nil || len(ft.Results.List) != 1 {
		return ""
	}
	if se, ok := ft.Results.List[0].Type.(*ast.StarExpr); ok {
		if id, ok := se.X.(*ast.Ident); ok && strings.HasSuffix(id.Name, "Node") {
			return id.Name
		}
	}
	return ""
}

// childType: in a special-case function, the node type of the value passed to json.Unmarshal(data, child)
// (every assignment to it must construct the same type).
func (p *pkg) childType(fd *ast.FuncDecl) string {
	targets := map[string]bool{}
	ast.Inspect(fd.Body, func(x ast.Node) bool {
		if c, ok := x.(*ast.CallExpr); ok && isSel(c.Fun, "json", "Unmarshal") && len(c.Args) == 2 {
			if id, ok := c.Args[1].(*ast.Ident); ok {
				targets[id.Name] = true
			} else {
				targets["?"] = true
			}
		}
		return true
	})
	// a helper `raw := &struct{...}{}` decoded on the way is not the child
	for t := range targets {
		if def := defOf(fd.Body, t); def != nil {
			if cl, ok := stripAddr(def).(*ast.CompositeLit); ok {
				if _, ok := cl.Type.(*ast.StructType); ok {
					delete(targets, t)
				}
			}
		}
	}
	if len(targets) != 1 {
		return ""
	}
	name := ""
	for t := range targets {
		name = t
	}
	scope := p.scopeOf(fd.Type.Params, fd.Body)
	res := ""
	okAll := true
	seen := 0
	ast.Inspect(fd.Body, func(x ast.Node) bool {
		switch s := x.(type) {
		case *ast.AssignStmt:
			for i, l := range s.Lhs {
				if isIdent(l, name) {
					seen++
					t := ""
					if len(s.Rhs) == len(s.Lhs) {
						t = p.constructedType(s.Rhs[i], scope)
					}
					if t == "" || (res != "" && res != t) {
						okAll = false
					}
					res = t
				}
			}
		case *ast.ValueSpec:
			for _, nm := range s.Names {
				if nm.Name == name {
					t := ""
					if se, ok := s.Type.(*ast.StarExpr); ok && len(s.Values) == 0 {
						if id, ok := se.X.(*ast.Ident); ok {
							t = id.Name
						}
					}
					if t == "" || (res != "" && res != t) {
						okAll = false
					}
					res = t
				}
			}
		}
		return true
	})
	if !okAll || seen == 0 {
		return ""
	}
	return res
}

// rawReads: keys of every `var raw = &struct{...}{}` decoded with json.Unmarshal(data, raw) inside a node that is NOT the child.
func (p *pkg) rawReads(body ast.Node, ctx string) []string {
	var keys []string
	ast.Inspect(body, func(x ast.Node) bool {
		var val ast.Expr
		switch s := x.(type) {
		case *ast.ValueSpec:
			if len(s.Values) == 1 {
				val = s.Values[0]
			}
		case *ast.AssignStmt:
			if s.Tok == token.DEFINE && len(s.Rhs) == 1 {
				val = s.Rhs[0]
			}
		}
		if val == nil {
			return true
		}
		if cl, ok := stripAddr(val).(*ast.CompositeLit); ok {
			if st, ok := cl.Type.(*ast.StructType); ok {
				var probs []string
				keys = append(keys, keysOf(p.flatten(st, nil, 0, ctx, &probs), ctx, &probs)...)
				p.unknown = append(p.unknown, probs...)
			}
		}
		return true
	})
	sort.Strings(keys)
	return keys
}

func main() {
	repo := env("VERIF_REPO", "/repo")
	lean := env("VERIF_LEAN", "/verif/lean")
	fset := token.NewFileSet()
	files, _ := filepath.Glob(filepath.Join(repo, "pipeline/*.go"))
	sort.Strings(files)
	p := &pkg{types: map[string]ast.Expr{}, consts: map[string]string{}, methods: map[string]map[string]*ast.FuncDecl{},
		funcs: map[string]*ast.FuncDecl{}, fileOf: map[*ast.FuncDecl]string{}}
	for _, fn := range files {
		if strings.HasSuffix(fn, "_test.go") {
			continue
		}
		f, err := parser.ParseFile(fset, fn, nil, 0)
		if err != nil {
			fmt.Fprintln(os.Stderr, err)
			os.Exit(1)
		}
		for _, d := range f.Decls {
			switch x := d.(type) {
			case *ast.GenDecl:
				for _, sp := range x.Specs {
					switch s := sp.(type) {
					case *ast.TypeSpec:
						p.types[s.Name.Name] = s.Type
					case *ast.ValueSpec:
						if x.Tok == token.CONST {
							for i, nm := range s.Names {
								if i < len(s.Values) {
									if v, ok := strLit(s.Values[i]); ok {
										p.consts[nm.Name] = v
									}
								}
							}
						}
					}
				}
			case *ast.FuncDecl:
				p.all = append(p.all, x)
				p.fileOf[x] = filepath.Base(fn)
				if x.Recv == nil {
					p.funcs[x.Name.Name] = x
				} else {
					t, _ := recvType(x)
					if p.methods[t] == nil {
						p.methods[t] = map[string]*ast.FuncDecl{}
					}
					p.methods[t][x.Name.Name] = x
				}
			}
		}
	}
	if len(p.all) == 0 {
		p.bad("no Go source found under %s/pipeline", repo)
	}
	if p.consts["NodeTypeOf"] == "" || p.consts["NodeID"] == "" {
		p.bad("constants NodeTypeOf / NodeID not found")
	}

	// ---- per-node tables
	var mar, unm []entry
	var noopM, noopU []string
	var typeNames []string
	for t := range p.methods {
		typeNames = append(typeNames, t)
	}
	sort.Strings(typeNames)
	for _, T := range typeNames {
		if T == "Pipeline" {
			continue
		}
		m, u := p.methods[T]["MarshalJSON"], p.methods[T]["UnmarshalJSON"]
		if m == nil && u == nil {
			continue
		}
		if !strings.HasSuffix(T, "Node") {
			p.bad("%s has MarshalJSON/UnmarshalJSON but is not named ...Node", T)
			continue
		}
		if m == nil || u == nil {
			p.bad("%s has only one of MarshalJSON / UnmarshalJSON", T)
		}
		if m != nil && m.Body != nil {
			_, rn := recvType(m)
			noop, es := p.marshal(m, T, rn)
			if noop {
				noopM = append(noopM, T)
			}
			mar = append(mar, es...)
		}
		if u != nil && u.Body != nil {
			_, rn := recvType(u)
			noop, es := p.unmarshal(u, T, rn)
			if noop {
				noopU = append(noopU, T)
			}
			unm = append(unm, es...)
		}
	}
	// a node that writes nothing must be skipped by Pipeline.MarshalJSON: `if _, ok := n.(*T); ok { continue }`
	skipped := map[string]bool{}
	if pm := p.methods["Pipeline"]["MarshalJSON"]; pm != nil && pm.Body != nil {
		ast.Inspect(pm.Body, func(n ast.Node) bool {
			is, ok := n.(*ast.IfStmt)
			if !ok || is.Init == nil || len(is.Body.List) != 1 {
				return true
			}
			if br, ok := is.Body.List[0].(*ast.BranchStmt); !ok || br.Tok != token.CONTINUE {
				return true
			}
			if as, ok := is.Init.(*ast.AssignStmt); ok && len(as.Rhs) == 1 {
				if ta, ok := as.Rhs[0].(*ast.TypeAssertExpr); ok {
					if se, ok := ta.Type.(*ast.StarExpr); ok {
						if id, ok := se.X.(*ast.Ident); ok {
							skipped[id.Name] = true
						}
					}
				}
			}
			return true
		})
	} else {
		p.bad("Pipeline.MarshalJSON not found")
	}
	for _, T := range noopM {
		if !skipped[T] {
			p.bad("%s.MarshalJSON writes nothing but Pipeline.MarshalJSON does not skip it", T)
		}
	}
	if strings.Join(noopM, ",") != strings.Join(noopU, ",") {
		p.bad("no-op MarshalJSON %v and no-op UnmarshalJSON %v differ", noopM, noopU)
	}

	// ---- the decoder
	var disp []dispatch
	var dispReads [][2]interface{} // kind, keys
	tables := map[string][]dispatch{}
	initFn, un := p.funcs["init"], p.methods["Pipeline"]["unmarshalNode"]
	var specialUnused []string
	if initFn == nil || un == nil || p.fileOf[initFn] != "json.go" {
		p.bad("json.go: init / Pipeline.unmarshalNode not found")
	} else {
		for _, s := range initFn.Body.List {
			as, ok := s.(*ast.AssignStmt)
			if !ok || len(as.Lhs) != 1 || len(as.Rhs) != 1 {
				p.bad("json.go init: statement that is not `table = map[string]...{...}`")
				continue
			}
			name, ok := as.Lhs[0].(*ast.Ident)
			cl, ok2 := as.Rhs[0].(*ast.CompositeLit)
			if !ok || !ok2 {
				p.bad("json.go init: statement that is not `table = map[string]...{...}`")
				continue
			}
			if mt, ok := cl.Type.(*ast.MapType); !ok || !isIdent(mt.Key, "string") {
				p.bad("json.go init: %s is not a map[string]...", name.Name)
				continue
			}
			if _, dup := tables[name.Name]; dup {
				p.bad("json.go init: %s assigned twice", name.Name)
			}
			tables[name.Name] = []dispatch{}
			for _, el := range cl.Elts {
				kv, ok := el.(*ast.KeyValueExpr)
				if !ok {
					p.bad("json.go init: %s has an element without key", name.Name)
					continue
				}
				k, ok := strLit(kv.Key)
				if !ok {
					p.bad("json.go init: %s has a computed key", name.Name)
					continue
				}
				d := dispatch{kind: k, table: name.Name}
				switch v := kv.Value.(type) {
				case *ast.Ident:
					d.special = v.Name
					if f := p.funcs[v.Name]; f != nil && f.Body != nil {
						d.goType = p.childType(f)
					} else {
						p.bad("json.go init: %s[%s] = %s is not a function of the package", name.Name, k, v.Name)
					}
				case *ast.FuncLit:
					if len(v.Body.List) == 1 {
						if r, ok := v.Body.List[0].(*ast.ReturnStmt); ok && len(r.Results) == 1 {
							d.goType = p.constructedType(r.Results[0], p.scopeOf(v.Type.Params, v.Body))
						}
					}
				default:
					p.bad("json.go init: %s[%s] is neither a function nor a closure", name.Name, k)
				}
				if d.goType == "" {
					p.bad("json.go init: the node type constructed by %s[%s] is not recognised", name.Name, k)
				}
				tables[name.Name] = append(tables[name.Name], d)
			}
		}
		// the tables unmarshalNode indexes with typ.Type, and what each branch reads itself
		typParam := ""
		for _, f := range un.Type.Params.List {
			if isIdent(f.Type, "TypeOf") && len(f.Names) == 1 {
				typParam = f.Names[0].Name
			}
		}
		used := map[string]bool{}
		ast.Inspect(un.Body, func(n ast.Node) bool {
			ix, ok := n.(*ast.IndexExpr)
			if !ok {
				return true
			}
			id, ok := ix.X.(*ast.Ident)
			if !ok {
				return true
			}
			if _, isTable := tables[id.Name]; !isTable {
				return true
			}
			if typParam == "" || !isSel(ix.Index, typParam, "Type") {
				p.bad("unmarshalNode: %s indexed with something else than the node kind", id.Name)
				return true
			}
			used[id.Name] = true
			return true
		})
		// keys the dispatcher reads: per `if ok {...}` block that follows `x, ok := table[typ.Type]`
		cur := ""
		for _, s := range un.Body.List {
			switch x := s.(type) {
			case *ast.AssignStmt:
				cur = ""
				if len(x.Rhs) == 1 {
					if ix, ok := x.Rhs[0].(*ast.IndexExpr); ok {
						if id, ok := ix.X.(*ast.Ident); ok {
							cur = id.Name
						}
					}
				}
			case *ast.IfStmt:
				if cur != "" {
					keys := p.rawReads(x.Body, "unmarshalNode/"+cur)
					for _, d := range tables[cur] {
						if len(keys) > 0 {
							dispReads = append(dispReads, [2]interface{}{d.kind, keys})
						}
					}
				}
				cur = ""
			}
		}
		var tnames []string
		for t := range tables {
			tnames = append(tnames, t)
		}
		sort.Strings(tnames)
		for _, t := range tnames {
			if !used[t] {
				p.bad("json.go: table %s is filled in init but unmarshalNode does not index it", t)
				continue
			}
			for _, d := range tables[t] {
				disp = append(disp, d)
				if d.special != "" {
					if f := p.funcs[d.special]; f != nil && f.Body != nil {
						if keys := p.rawReads(f.Body, d.special); len(keys) > 0 {
							dispReads = append(dispReads, [2]interface{}{d.kind, keys})
						}
					}
				}
			}
		}
		// nobody else may touch the tables
		for _, fd := range p.all {
			if fd == initFn || fd == un || fd.Body == nil {
				continue
			}
			ast.Inspect(fd.Body, func(n ast.Node) bool {
				if id, ok := n.(*ast.Ident); ok {
					if _, isTable := tables[id.Name]; isTable {
						p.bad("json.go: table %s is used in %s", id.Name, fd.Name.Name)
					}
				}
				return true
			})
		}
		// unmarshalX functions nobody registers
		reg := map[string]bool{}
		for _, d := range disp {
			reg[d.special] = true
		}
		for name, fd := range p.funcs {
			if p.fileOf[fd] == "json.go" && strings.HasPrefix(name, "unmarshal") && len(name) > 9 && name[9] >= 'A' && name[9] <= 'Z' && !reg[name] {
				specialUnused = append(specialUnused, name)
			}
		}
		sort.Strings(specialUnused)
	}
	sort.Slice(disp, func(i, j int) bool { return disp[i].kind < disp[j].kind })
	for i := 1; i < len(disp); i++ {
		if disp[i].kind == disp[i-1].kind {
			p.bad("json.go: kind %s is registered in %s and %s (the first table unmarshalNode looks at wins)", disp[i].kind, disp[i-1].table, disp[i].table)
		}
	}
	sort.Slice(dispReads, func(i, j int) bool { return dispReads[i][0].(string) < dispReads[j][0].(string) })
	sort.Slice(mar, func(i, j int) bool {
		if mar[i].goType != mar[j].goType {
			return mar[i].goType < mar[j].goType
		}
		return mar[i].kind < mar[j].kind
	})
	sort.Slice(unm, func(i, j int) bool {
		if unm[i].goType != unm[j].goType {
			return unm[i].goType < unm[j].goType
		}
		return unm[i].kind < unm[j].kind
	})

	// ---- emit
	var b strings.Builder
	list := func(l []string) string {
		q := make([]string, len(l))
		for i, s := range l {
			q[i] = leanStr(s)
		}
		return "[" + strings.Join(q, ", ") + "]"
	}
	table := func(name, doc string, es []entry) {
		b.WriteString("/-- " + doc + " -/\ndef " + name + " : List (String × String × List String) := [\n")
		for i, e := range es {
			b.WriteString("  (" + leanStr(e.goType) + ", " + leanStr(e.kind) + ", " + list(e.keys) + ")")
			if i+1 < len(es) {
				b.WriteString(",")
			}
			b.WriteString("\n")
		}
		b.WriteString("]\n\n")
	}
	b.WriteString("/- GENERATED by /verif/extract/c13json from pipeline/*.go. Do not edit. -/\nnamespace Kap.C13.Gen\n\n")
	table("jsonMarshal", "(Go node type, kind written as `typeOf`, sorted top-level JSON keys its MarshalJSON writes; \"*\" = computed keys)", mar)
	table("jsonUnmarshal", "(Go node type, kind its UnmarshalJSON accepts, sorted top-level JSON keys it reads; \"*\" = every other key)", unm)
	b.WriteString("/-- kinds `Pipeline.unmarshalNode` can dispatch (literal keys of the tables of json.go it indexes with the kind) -/\ndef jsonDecoderKinds : List String := ")
	var dk []string
	for _, d := range disp {
		dk = append(dk, d.kind)
	}
	b.WriteString(list(dk) + "\n\n")
	b.WriteString("/-- (kind, table of json.go, registered special-case function or \"\" for a closure, Go node type the entry constructs) -/\ndef jsonDispatch : List (String × String × String × String) := [\n")
	for i, d := range disp {
		b.WriteString("  (" + leanStr(d.kind) + ", " + leanStr(d.table) + ", " + leanStr(d.special) + ", " + leanStr(d.goType) + ")")
		if i+1 < len(disp) {
			b.WriteString(",")
		}
		b.WriteString("\n")
	}
	b.WriteString("]\n\n/-- (kind, keys the dispatcher itself decodes before it constructs the node) -/\ndef jsonDispatchReads : List (String × List String) := [\n")
	for i, d := range dispReads {
		b.WriteString("  (" + leanStr(d[0].(string)) + ", " + list(d[1].([]string)) + ")")
		if i+1 < len(dispReads) {
			b.WriteString(",")
		}
		b.WriteString("\n")
	}
	b.WriteString("]\n\n/-- node types whose MarshalJSON / UnmarshalJSON do nothing and which Pipeline.MarshalJSON skips -/\ndef jsonNoop : List String := " + list(noopM) + "\n\n")
	b.WriteString("/-- `unmarshalX` functions of json.go that no table registers (dead code) -/\ndef jsonSpecialUnused : List String := " + list(specialUnused) + "\n\n")
	b.WriteString("/-- shapes the extractor did not recognise (must be empty: theorem `json_no_unknown`) -/\ndef jsonUnknown : List String := " + list(p.unknown) + "\n\nend Kap.C13.Gen\n")
	out := filepath.Join(lean, "Kap/Gen/C13Json.lean")
	old, _ := os.ReadFile(out)
	if string(old) != b.String() {
		if err := os.WriteFile(out, []byte(b.String()), 0o644); err != nil {
			fmt.Fprintln(os.Stderr, err)
			os.Exit(1)
		}
	}
	fmt.Printf("c13jsonextract: %d marshal entries, %d unmarshal entries, %d decoder kinds, %d dispatcher reads, %d no-op, %d unknown -> %s\n",
		len(mar), len(unm), len(disp), len(dispReads), len(noopM), len(p.unknown), out)
}
