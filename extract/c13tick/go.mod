module c13tickextract

go 1.18
