// Extractor for property C13 (pipeline -> TICKscript): regenerates lean/Kap/Gen/C13Tick.lean from the Go SOURCE
// of pipeline/tick/*.go (go/ast, standard library only).
//
// For every `func (n *XNode) Build(...)` it walks the body in evaluation order and records every call of the
// builder methods Pipe / PipeZeroValueOK / At / Dot / DotIf / DotNotNil / DotZeroValueOK / DotRemoveZeroValue /
// DotNotEmpty on the function builder: (method, first argument when it is a string literal). The result per
// node kind (= the literal of the Pipe call) is the ORDER in which properties can be emitted and, through the
// method, the elision rule (Dot: dropped when every argument is a zero value; DotIf: emitted iff the flag is
// set; DotNotNil / DotZeroValueOK: zero values kept; ...).
//
// FAIL CLOSED: a builder whose node name is not a literal is listed in `tickDynamic` (no order claim is made for
// it); a builder method called with a non-literal property name, or a Build without any Pipe/At call, is put in
// `tickUnknown` (theorem `tick_no_unknown` stops checking).
//
// VALUES (depth round 5): every Build body is also translated, statement by statement, into the little builder
// language of lean/Kap/Model/C13Tick.lean (`tickBuild`): builder calls with their argument EXPRESSIONS (fields of
// the pipeline node, the helpers args / largs / dimensions, n.Parents[1:], an octal NumberNode literal), `for`
// loops over slices, the sorted-map-keys idiom, `if` on a flag / len(x) > 0 / x == 0 / x != 0. FAIL CLOSED: any
// statement, condition or expression of another shape becomes `.unknown "<what>"`, which the model interpreter
// refuses to execute (the node is then reported as not covered, never rendered by a default).
// Env: VERIF_REPO (default /repo), VERIF_LEAN (default /verif/lean).
package main

import (
	"fmt"
	"go/ast"
	"go/parser"
	"go/token"
	"os"
	"path/filepath"
	"sort"
	"strconv"
	"strings"
)

var builder = map[string]bool{"Pipe": true, "PipeZeroValueOK": true, "At": true, "Dot": true, "DotIf": true, "DotNotNil": true,
	"DotZeroValueOK": true, "DotRemoveZeroValue": true, "DotNotEmpty": true}

func env(k, d string) string {
	if v := os.Getenv(k); v != "" {
		return v
	}
	return d
}

func leanStr(s string) string { return strconv.Quote(s) }

type entry struct{ method, name string }

// ---------------------------------------------------------------------------------------------
// value level: Build bodies -> builder language

var helpers = map[string]bool{"args": true, "largs": true, "dimensions": true}

type xl struct {
	recv    string
	bound   map[string]bool
	keysOf  map[string]string // local -> Lean term of the map whose keys it collects (until sort.Strings)
	pending map[string]bool   // declared locals not yet bound
}

func unk(what string) string { return "(.unknown " + leanStr(what) + ")" }

func (x *xl) expr(e ast.Expr) string {
	switch v := e.(type) {
	case *ast.ParenExpr:
		return x.expr(v.X)
	case *ast.Ident:
		if x.bound[v.Name] {
			return "(.var " + leanStr(v.Name) + ")"
		}
		return unk("identifier " + v.Name)
	case *ast.SelectorExpr:
		if id, ok := v.X.(*ast.Ident); ok && id.Name == x.recv {
			return unk("builder field " + v.Sel.Name)
		}
		return "(.sel " + x.expr(v.X) + " " + leanStr(v.Sel.Name) + ")"
	case *ast.IndexExpr:
		return "(.index " + x.expr(v.X) + " " + x.expr(v.Index) + ")"
	case *ast.SliceExpr:
		// n.Parents[1:]
		if sel, ok := v.X.(*ast.SelectorExpr); ok && v.High == nil && v.Max == nil {
			if id, ok := sel.X.(*ast.Ident); ok && id.Name == x.recv && sel.Sel.Name == "Parents" {
				if bl, ok := v.Low.(*ast.BasicLit); ok && bl.Value == "1" {
					return ".parentsTail"
				}
			}
		}
		return unk("slice expression")
	case *ast.CallExpr:
		if id, ok := v.Fun.(*ast.Ident); ok && len(v.Args) == 1 && helpers[id.Name] && !v.Ellipsis.IsValid() {
			return "(.helper " + leanStr(id.Name) + " " + x.expr(v.Args[0]) + ")"
		}
		return unk("call")
	case *ast.UnaryExpr:
		// &ast.NumberNode{IsInt: true, Int64: E, Base: 8}
		if cl, ok := v.X.(*ast.CompositeLit); ok && v.Op == token.AND {
			if sel, ok := cl.Type.(*ast.SelectorExpr); ok && sel.Sel.Name == "NumberNode" && len(cl.Elts) == 3 {
				var val ast.Expr
				okShape := true
				for _, el := range cl.Elts {
					kv, ok := el.(*ast.KeyValueExpr)
					if !ok {
						okShape = false
						break
					}
					k, _ := kv.Key.(*ast.Ident)
					switch {
					case k != nil && k.Name == "IsInt":
						if id, ok := kv.Value.(*ast.Ident); !ok || id.Name != "true" {
							okShape = false
						}
					case k != nil && k.Name == "Base":
						if bl, ok := kv.Value.(*ast.BasicLit); !ok || bl.Value != "8" {
							okShape = false
						}
					case k != nil && k.Name == "Int64":
						val = kv.Value
					default:
						okShape = false
					}
				}
				if okShape && val != nil {
					return "(.octal " + x.expr(val) + ")"
				}
			}
		}
		return unk("unary expression")
	}
	return unk(fmt.Sprintf("expression %T", e))
}

func (x *xl) cond(e ast.Expr) string {
	switch v := e.(type) {
	case *ast.ParenExpr:
		return x.cond(v.X)
	case *ast.Ident, *ast.SelectorExpr:
		return "(.flag " + x.expr(e) + ")"
	case *ast.BinaryExpr:
		isLit := func(e ast.Expr, s string) bool { bl, ok := e.(*ast.BasicLit); return ok && bl.Value == s }
		if call, ok := v.X.(*ast.CallExpr); ok {
			if id, ok := call.Fun.(*ast.Ident); ok && id.Name == "len" && len(call.Args) == 1 && isLit(v.Y, "0") &&
				(v.Op == token.GTR || v.Op == token.NEQ) {
				return "(.lenPos " + x.expr(call.Args[0]) + ")"
			}
			return ".unknown"
		}
		if isLit(v.Y, "0") || isLit(v.Y, `""`) {
			switch v.Op {
			case token.EQL:
				return "(.isZero " + x.expr(v.X) + ")"
			case token.NEQ:
				return "(.nonZero " + x.expr(v.X) + ")"
			}
		}
	}
	return ".unknown"
}

// builder call chain rooted at the receiver, in evaluation order
func (x *xl) chain(e ast.Expr, out *[]string) bool {
	call, ok := e.(*ast.CallExpr)
	if !ok {
		id, ok := e.(*ast.Ident)
		return ok && id.Name == x.recv
	}
	sel, ok := call.Fun.(*ast.SelectorExpr)
	if !ok || !builder[sel.Sel.Name] {
		return false
	}
	if !x.chain(sel.X, out) {
		return false
	}
	if len(call.Args) == 0 {
		*out = append(*out, unk("builder call without a name"))
		return true
	}
	bl, ok := call.Args[0].(*ast.BasicLit)
	if !ok || bl.Kind != token.STRING {
		*out = append(*out, unk("builder call "+sel.Sel.Name+" with a computed name"))
		return true
	}
	name, _ := strconv.Unquote(bl.Value)
	var as []string
	for i, a := range call.Args[1:] {
		spread := "false"
		if call.Ellipsis.IsValid() && i == len(call.Args)-2 {
			spread = "true"
		}
		as = append(as, "("+x.expr(a)+", "+spread+")")
	}
	*out = append(*out, "(.call "+leanStr(sel.Sel.Name)+" "+leanStr(name)+" ["+strings.Join(as, ", ")+"])")
	return true
}

func isBlank(e ast.Expr) bool {
	if e == nil {
		return true
	}
	id, ok := e.(*ast.Ident)
	return ok && id.Name == "_"
}

func identName(e ast.Expr) string {
	if id, ok := e.(*ast.Ident); ok {
		return id.Name
	}
	return ""
}

// `dst = append(dst, v)`
func appendOf(st ast.Stmt) (dst, v string) {
	as, ok := st.(*ast.AssignStmt)
	if !ok || len(as.Lhs) != 1 || len(as.Rhs) != 1 || as.Tok != token.ASSIGN {
		return "", ""
	}
	call, ok := as.Rhs[0].(*ast.CallExpr)
	if !ok || identName(call.Fun) != "append" || len(call.Args) != 2 || call.Ellipsis.IsValid() {
		return "", ""
	}
	if identName(as.Lhs[0]) == "" || identName(as.Lhs[0]) != identName(call.Args[0]) {
		return "", ""
	}
	return identName(as.Lhs[0]), identName(call.Args[1])
}

// `dst[i] = v`
func indexAssignOf(st ast.Stmt) (dst, i, v string) {
	as, ok := st.(*ast.AssignStmt)
	if !ok || len(as.Lhs) != 1 || len(as.Rhs) != 1 || as.Tok != token.ASSIGN {
		return "", "", ""
	}
	ix, ok := as.Lhs[0].(*ast.IndexExpr)
	if !ok {
		return "", "", ""
	}
	return identName(ix.X), identName(ix.Index), identName(as.Rhs[0])
}

func (x *xl) block(list []ast.Stmt) []string {
	var out []string
	for _, st := range list {
		out = append(out, x.stmt(st)...)
	}
	return out
}

func emptyInit(e ast.Expr) bool {
	switch v := e.(type) {
	case *ast.CallExpr:
		return identName(v.Fun) == "make"
	case *ast.CompositeLit:
		return len(v.Elts) == 0
	}
	return false
}

func (x *xl) stmt(st ast.Stmt) []string {
	switch v := st.(type) {
	case *ast.ReturnStmt:
		if len(v.Results) == 2 {
			a, ok1 := v.Results[0].(*ast.SelectorExpr)
			b, ok2 := v.Results[1].(*ast.SelectorExpr)
			if ok1 && ok2 && identName(a.X) == x.recv && a.Sel.Name == "prev" && identName(b.X) == x.recv && b.Sel.Name == "err" {
				return nil
			}
		}
		return []string{unk("return")}
	case *ast.DeclStmt:
		if gd, ok := v.Decl.(*ast.GenDecl); ok && gd.Tok == token.VAR {
			for _, sp := range gd.Specs {
				vs, ok := sp.(*ast.ValueSpec)
				if !ok || len(vs.Values) != 0 {
					return []string{unk("var with a value")}
				}
				for _, n := range vs.Names {
					x.pending[n.Name] = true
				}
			}
			return nil
		}
		return []string{unk("declaration")}
	case *ast.AssignStmt:
		if v.Tok == token.DEFINE && len(v.Lhs) == 1 && len(v.Rhs) == 1 && identName(v.Lhs[0]) != "" {
			name := identName(v.Lhs[0])
			if emptyInit(v.Rhs[0]) {
				x.pending[name] = true
				return nil
			}
			if _, ok := v.Rhs[0].(*ast.UnaryExpr); ok {
				t := x.expr(v.Rhs[0])
				x.bound[name] = true
				return []string{"(.bind " + leanStr(name) + " " + t + ")"}
			}
		}
		return []string{unk("assignment")}
	case *ast.ExprStmt:
		if call, ok := v.X.(*ast.CallExpr); ok {
			if sel, ok := call.Fun.(*ast.SelectorExpr); ok && identName(sel.X) == "sort" && sel.Sel.Name == "Strings" && len(call.Args) == 1 {
				loc := identName(call.Args[0])
				if m, ok := x.keysOf[loc]; ok {
					delete(x.keysOf, loc)
					x.bound[loc] = true
					return []string{"(.sortedKeys " + leanStr(loc) + " " + m + ")"}
				}
				return []string{unk("sort.Strings of something else")}
			}
		}
		var out []string
		if x.chain(v.X, &out) {
			return out
		}
		return []string{unk("expression statement")}
	case *ast.IfStmt:
		if v.Init != nil {
			return []string{unk("if with init")}
		}
		c := x.cond(v.Cond)
		thn := x.block(v.Body.List)
		var els []string
		switch e := v.Else.(type) {
		case nil:
		case *ast.BlockStmt:
			els = x.block(e.List)
		default:
			els = x.stmt(e)
		}
		return []string{"(.ifElse " + c + " [" + strings.Join(thn, ", ") + "] [" + strings.Join(els, ", ") + "])"}
	case *ast.RangeStmt:
		if v.Tok != token.DEFINE {
			return []string{unk("range without :=")}
		}
		key, val := identName(v.Key), identName(v.Value)
		if len(v.Body.List) == 1 {
			// keys of a map, collected for sort.Strings
			if dst, src := appendOf(v.Body.List[0]); dst != "" && v.Value == nil && key != "" && key != "_" && src == key && x.pending[dst] {
				x.keysOf[dst] = x.expr(v.X)
				return nil
			}
			// elements copied into a []interface{}
			if dst, src := appendOf(v.Body.List[0]); dst != "" && isBlank(v.Key) && val != "" && src == val && x.pending[dst] {
				x.bound[dst] = true
				return []string{"(.collect " + leanStr(dst) + " " + x.expr(v.X) + ")"}
			}
			if dst, i, src := indexAssignOf(v.Body.List[0]); dst != "" && key != "" && key != "_" && i == key && val != "" && src == val && x.pending[dst] {
				x.bound[dst] = true
				return []string{"(.collect " + leanStr(dst) + " " + x.expr(v.X) + ")"}
			}
		}
		if isBlank(v.Key) && val != "" && val != "_" {
			over := x.expr(v.X)
			was := x.bound[val]
			x.bound[val] = true
			body := x.block(v.Body.List)
			x.bound[val] = was
			return []string{"(.forEach " + leanStr(val) + " " + over + " [" + strings.Join(body, ", ") + "])"}
		}
		return []string{unk("range shape")}
	}
	return []string{unk(fmt.Sprintf("statement %T", st))}
}

// translate one Build method: (pipeline type of the parameter, parameter name, statements)
func translateBuild(fd *ast.FuncDecl) (string, string, []string, bool) {
	if fd.Recv == nil || len(fd.Recv.List) != 1 || len(fd.Recv.List[0].Names) != 1 {
		return "", "", nil, false
	}
	if fd.Type.Params == nil || len(fd.Type.Params.List) != 1 || len(fd.Type.Params.List[0].Names) != 1 {
		return "", "", nil, false
	}
	pt, ok := fd.Type.Params.List[0].Type.(*ast.StarExpr)
	if !ok {
		return "", "", nil, false
	}
	sel, ok := pt.X.(*ast.SelectorExpr)
	if !ok || identName(sel.X) != "pipeline" {
		return "", "", nil, false
	}
	param := fd.Type.Params.List[0].Names[0].Name
	x := &xl{recv: fd.Recv.List[0].Names[0].Name, bound: map[string]bool{param: true}, keysOf: map[string]string{}, pending: map[string]bool{}}
	body := x.block(fd.Body.List)
	for loc := range x.keysOf {
		body = append(body, unk("keys of a map collected in "+loc+" but never sorted"))
	}
	return sel.Sel.Name, param, body, true
}

func main() {
	repo := env("VERIF_REPO", "/repo")
	lean := env("VERIF_LEAN", "/verif/lean")
	fset := token.NewFileSet()
	files, _ := filepath.Glob(filepath.Join(repo, "pipeline/tick/*.go"))
	sort.Strings(files)
	table := map[string][]entry{}
	var names, dynamic, unknown []string
	type build struct {
		typ, param string
		body       []string
	}
	var builds []build
	for _, fn := range files {
		if strings.HasSuffix(fn, "_test.go") {
			continue
		}
		f, err := parser.ParseFile(fset, fn, nil, 0)
		if err != nil {
			fmt.Fprintln(os.Stderr, err)
			os.Exit(1)
		}
		for _, d := range f.Decls {
			fd, ok := d.(*ast.FuncDecl)
			if !ok || fd.Name.Name != "Build" || fd.Recv == nil || fd.Body == nil {
				continue
			}
			recv := "?"
			if se, ok := fd.Recv.List[0].Type.(*ast.StarExpr); ok {
				if id, ok := se.X.(*ast.Ident); ok {
					recv = id.Name
				}
			}
			if recv == "AST" {
				continue
			}
			if typ, param, body, ok := translateBuild(fd); ok {
				builds = append(builds, build{typ, param, body})
			}
			var es []entry
			var localUnknown []string
			node := ""
			dyn := false
			// post-order over call expressions = evaluation order of a method chain
			var walk func(n ast.Node)
			walk = func(n ast.Node) {
				ast.Inspect(n, func(x ast.Node) bool {
					call, ok := x.(*ast.CallExpr)
					if !ok {
						return true
					}
					sel, ok := call.Fun.(*ast.SelectorExpr)
					if !ok || !builder[sel.Sel.Name] {
						return true
					}
					// receiver first (inner calls of the chain), then arguments are not builder calls
					walk(sel.X)
					name := ""
					if len(call.Args) > 0 {
						if bl, ok := call.Args[0].(*ast.BasicLit); ok && bl.Kind == token.STRING {
							name, _ = strconv.Unquote(bl.Value)
						}
					}
					m := sel.Sel.Name
					if m == "Pipe" || m == "PipeZeroValueOK" || m == "At" {
						if name == "" {
							dyn = true
						} else if node == "" {
							node = name
						}
					} else if name == "" {
						localUnknown = append(localUnknown, recv+"."+m+": property name is not a string literal")
					} else {
						es = append(es, entry{m, name})
					}
					return false
				})
			}
			walk(fd.Body)
			if !dyn {
				unknown = append(unknown, localUnknown...)
			}
			switch {
			case dyn:
				dynamic = append(dynamic, recv)
			case node == "":
				// stream / batch sources and helpers build an identifier, no function: nothing to order
				if len(es) > 0 {
					unknown = append(unknown, recv+": properties without a Pipe/At call")
				}
			default:
				if _, dup := table[node]; dup {
					unknown = append(unknown, "two builders for node "+node)
				}
				table[node] = es
				names = append(names, node)
			}
		}
	}
	sort.Strings(names)
	sort.Strings(dynamic)
	var b strings.Builder
	b.WriteString("/- GENERATED by /verif/extract/c13tick from pipeline/tick/*.go. Do not edit. -/\nimport Kap.Model.C13TickLang\nnamespace Kap.C13.Gen\nopen Kap.C13.Tick (BExpr BCond BStmt)\n\n")
	b.WriteString("/-- node kind ↦ the builder calls of its `Build` method in evaluation order: (method, property) -/\n")
	b.WriteString("def tickTable : List (String × List (String × String)) := [\n")
	for i, n := range names {
		b.WriteString("  (" + leanStr(n) + ", [")
		for j, e := range table[n] {
			if j > 0 {
				b.WriteString(", ")
			}
			b.WriteString("(" + leanStr(e.method) + ", " + leanStr(e.name) + ")")
		}
		b.WriteString("])")
		if i+1 < len(names) {
			b.WriteString(",")
		}
		b.WriteString("\n")
	}
	b.WriteString("]\n\n/-- builders whose node name is computed (no order claim) -/\ndef tickDynamic : List String := [")
	for i, n := range dynamic {
		if i > 0 {
			b.WriteString(", ")
		}
		b.WriteString(leanStr(n))
	}
	b.WriteString("]\n\n/-- shapes the extractor did not recognise (must be empty: theorem `tick_no_unknown`) -/\ndef tickUnknown : List String := [")
	for i, n := range unknown {
		if i > 0 {
			b.WriteString(", ")
		}
		b.WriteString(leanStr(n))
	}
	b.WriteString("]\n\n")
	sort.Slice(builds, func(i, j int) bool { return builds[i].typ < builds[j].typ })
	b.WriteString("/-- pipeline node type ↦ (parameter name, body of its `Build` method in the builder language of Kap/Model/C13Tick.lean) -/\n")
	b.WriteString("def tickBuild : List (String × String × List Kap.C13.Tick.BStmt) := [\n")
	for i, bd := range builds {
		b.WriteString("  (" + leanStr(bd.typ) + ", " + leanStr(bd.param) + ", [\n    " + strings.Join(bd.body, ",\n    ") + "])")
		if i+1 < len(builds) {
			b.WriteString(",")
		}
		b.WriteString("\n")
	}
	b.WriteString("]\n\nend Kap.C13.Gen\n")
	out := filepath.Join(lean, "Kap/Gen/C13Tick.lean")
	old, _ := os.ReadFile(out)
	if string(old) != b.String() {
		if err := os.WriteFile(out, []byte(b.String()), 0o644); err != nil {
			fmt.Fprintln(os.Stderr, err)
			os.Exit(1)
		}
	}
	fmt.Printf("c13tickextract: %d node kinds, %d dynamic, %d unknown -> %s\n", len(names), len(dynamic), len(unknown), out)
}
