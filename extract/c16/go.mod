module c16extract

go 1.18
