// Extractor for property C16: regenerates lean/Kap/Gen/C16.lean from the Go SOURCE of batch.go and query.go
// (go/ast, standard library only).
//
// Extracted (the table-like arithmetic of the batch machinery, as small expression trees):
//   - QueryNode.doQuery: `stop := …`, the arguments of SetStartTime / SetStopTime, the condition and the value of
//     the batch time stamp (`bch.Begin().SetTime(…)`)
//   - QueryNode.Queries: the default of `stop`, how `current` advances, the `break` conditions in order,
//     `qstop := …`, the arguments of SetStartTime / SetStopTime on the clone
//   - timeTicker.Next: `if <cond> { return <a> }; return <b>`
//   - Query.SetStartTime: guard and value of the group-by offset assignment
//   - Query.Dimensions: the guards that reject a time dimension
//
// FAIL CLOSED: a shape that is not recognised is emitted as `.unknown "<go source>"`, which evaluates to `none`, so
// the theorems of Kap.Props.C16 that tie these trees to the model (gen_*) stop checking. Nothing is defaulted.
// Env: VERIF_REPO (default /repo), VERIF_LEAN (default /verif/lean).
package main

import (
	"bytes"
	"fmt"
	"go/ast"
	"go/parser"
	"go/printer"
	"go/token"
	"os"
	"path/filepath"
	"strings"
)

var fset = token.NewFileSet()

func src(n ast.Node) string {
	var b bytes.Buffer
	printer.Fprint(&b, fset, n)
	return strings.Join(strings.Fields(b.String()), " ")
}

func leanStr(s string) string {
	s = strings.ReplaceAll(s, `\`, `\\`)
	s = strings.ReplaceAll(s, `"`, `\"`)
	return `"` + s + `"`
}

func unknownT(n ast.Node) string { return "(.unknown " + leanStr(src(n)) + ")" }
func unknownB(n ast.Node) string { return "(.unknown " + leanStr(src(n)) + ")" }

// isNameChain: x, x.y.z, and calls without arguments in such a chain (x.y().z()) — read as one named quantity.
func isNameChain(e ast.Expr) bool {
	switch x := e.(type) {
	case *ast.Ident:
		return true
	case *ast.SelectorExpr:
		return isNameChain(x.X)
	case *ast.CallExpr:
		if len(x.Args) != 0 {
			return false
		}
		if s, ok := x.Fun.(*ast.SelectorExpr); ok {
			return isNameChain(s.X)
		}
	}
	return false
}

func isEpoch(e ast.Expr) bool { return src(e) == "time.Unix(0, 0)" }

// timeExpr translates a Go time/duration expression.
func timeExpr(e ast.Expr) string {
	switch x := e.(type) {
	case *ast.ParenExpr:
		return timeExpr(x.X)
	case *ast.BinaryExpr:
		switch x.Op {
		case token.MUL:
			if u, ok := x.X.(*ast.UnaryExpr); ok && u.Op == token.SUB && src(u.X) == "1" {
				return "(.neg " + timeExpr(x.Y) + ")"
			}
		case token.REM:
			return "(.tmod " + timeExpr(x.X) + " " + timeExpr(x.Y) + ")"
		}
	case *ast.CallExpr:
		if s, ok := x.Fun.(*ast.SelectorExpr); ok && len(x.Args) == 1 {
			switch s.Sel.Name {
			case "Add":
				return "(.add " + timeExpr(s.X) + " " + timeExpr(x.Args[0]) + ")"
			case "Truncate":
				return "(.truncate " + timeExpr(s.X) + " " + timeExpr(x.Args[0]) + ")"
			case "Round":
				return "(.round " + timeExpr(s.X) + " " + timeExpr(x.Args[0]) + ")"
			case "Sub":
				if isEpoch(x.Args[0]) {
					return "(.sinceEpoch " + timeExpr(s.X) + ")"
				}
			case "Next":
				if src(s.X) == "n.ticker" {
					return "(.tickerNext " + timeExpr(x.Args[0]) + ")"
				}
			}
		}
	}
	if isNameChain(e) {
		return "(.name " + leanStr(src(e)) + ")"
	}
	return unknownT(e)
}

// boolExpr translates a Go condition.
func boolExpr(e ast.Expr) string {
	switch x := e.(type) {
	case *ast.ParenExpr:
		return boolExpr(x.X)
	case *ast.UnaryExpr:
		if x.Op == token.NOT {
			return "(.not " + boolExpr(x.X) + ")"
		}
	case *ast.BinaryExpr:
		switch x.Op {
		case token.LOR:
			return "(.or " + boolExpr(x.X) + " " + boolExpr(x.Y) + ")"
		case token.LAND:
			return "(.and " + boolExpr(x.X) + " " + boolExpr(x.Y) + ")"
		case token.NEQ:
			if src(x.Y) == "nil" && isNameChain(x.X) {
				return "(.notNil " + leanStr(src(x.X)) + ")"
			}
		case token.LEQ:
			if src(x.Y) == "0" {
				return "(.nonPositive " + timeExpr(x.X) + ")"
			}
		}
	case *ast.CallExpr:
		if s, ok := x.Fun.(*ast.SelectorExpr); ok {
			switch {
			case s.Sel.Name == "IsZero" && len(x.Args) == 0:
				return "(.isZero " + timeExpr(s.X) + ")"
			case s.Sel.Name == "After" && len(x.Args) == 1:
				return "(.after " + timeExpr(s.X) + " " + timeExpr(x.Args[0]) + ")"
			}
		}
	}
	if isNameChain(e) {
		return "(.flag " + leanStr(src(e)) + ")"
	}
	return unknownB(e)
}

func findFunc(f *ast.File, recv, name string) *ast.FuncDecl {
	for _, d := range f.Decls {
		fd, ok := d.(*ast.FuncDecl)
		if !ok || fd.Name.Name != name {
			continue
		}
		if recv == "" && fd.Recv == nil {
			return fd
		}
		if fd.Recv != nil && len(fd.Recv.List) == 1 && strings.TrimPrefix(src(fd.Recv.List[0].Type), "*") == recv {
			return fd
		}
	}
	return nil
}

type found struct {
	assigns map[string][]ast.Expr // LHS source -> RHS (":=" and "=")
	calls   map[string][][]ast.Expr
	ifs     []*ast.IfStmt
}

func scan(n ast.Node) *found {
	r := &found{assigns: map[string][]ast.Expr{}, calls: map[string][][]ast.Expr{}}
	ast.Inspect(n, func(x ast.Node) bool {
		switch s := x.(type) {
		case *ast.FuncLit:
			return false
		case *ast.AssignStmt:
			if len(s.Lhs) == 1 && len(s.Rhs) == 1 {
				r.assigns[src(s.Lhs[0])] = append(r.assigns[src(s.Lhs[0])], s.Rhs[0])
			}
		case *ast.CallExpr:
			if sel, ok := s.Fun.(*ast.SelectorExpr); ok {
				r.calls[sel.Sel.Name] = append(r.calls[sel.Sel.Name], s.Args)
			}
		case *ast.IfStmt:
			r.ifs = append(r.ifs, s)
		}
		return true
	})
	return r
}

var out strings.Builder

func defT(name, val string) { fmt.Fprintf(&out, "def %s : TE := %s\n", name, val) }
func defB(name, val string) { fmt.Fprintf(&out, "def %s : BE := %s\n", name, val) }

func missing(what string) string { return "(.unknown " + leanStr("not found or ambiguous: "+what) + ")" }

func oneAssign(f *found, lhs string) string {
	if xs := f.assigns[lhs]; len(xs) == 1 {
		return timeExpr(xs[0])
	}
	return missing("assignment to " + lhs)
}

func oneCallArg(f *found, method string) string {
	if xs := f.calls[method]; len(xs) == 1 && len(xs[0]) == 1 {
		return timeExpr(xs[0][0])
	}
	return missing("call of " + method)
}

// bodyIs: the block consists of exactly one statement with the given source.
func bodyIs(b *ast.BlockStmt, s string) bool { return len(b.List) == 1 && src(b.List[0]) == s }

func main() {
	repo := os.Getenv("VERIF_REPO")
	if repo == "" {
		repo = "/repo"
	}
	lean := os.Getenv("VERIF_LEAN")
	if lean == "" {
		lean = "/verif/lean"
	}
	parse := func(name string) *ast.File {
		f, err := parser.ParseFile(fset, filepath.Join(repo, name), nil, 0)
		if err != nil {
			fmt.Fprintln(os.Stderr, err)
			os.Exit(1)
		}
		return f
	}
	batch := parse("batch.go")
	query := parse("query.go")

	out.WriteString("/- GENERATED by /verif/extract/c16 from batch.go and query.go — do not edit. -/\nimport Kap.Model.C16Expr\nnamespace Kap.C16.Gen\nopen Kap.C16\n\n")

	// ---- QueryNode.doQuery
	if fd := findFunc(batch, "QueryNode", "doQuery"); fd != nil {
		f := scan(fd.Body)
		defT("doQueryStop", oneAssign(f, "stop"))
		defT("doQueryStartArg", oneCallArg(f, "SetStartTime"))
		defT("doQueryStopArg", oneCallArg(f, "SetStopTime"))
		defT("batchTimeValue", oneCallArg(f, "SetTime"))
		cond := missing("if … { bch.Begin().SetTime(…) }")
		n := 0
		for _, i := range f.ifs {
			if i.Else == nil && len(i.Body.List) == 1 && strings.Contains(src(i.Body.List[0]), ".SetTime(") {
				cond = boolExpr(i.Cond)
				n++
			}
		}
		if n != 1 {
			cond = missing("exactly one if around SetTime")
		}
		defB("batchTimeCond", cond)
	} else {
		for _, n := range []string{"doQueryStop", "doQueryStartArg", "doQueryStopArg", "batchTimeValue"} {
			defT(n, missing("QueryNode.doQuery"))
		}
		defB("batchTimeCond", missing("QueryNode.doQuery"))
	}

	// ---- QueryNode.Queries
	if fd := findFunc(batch, "QueryNode", "Queries"); fd != nil {
		f := scan(fd.Body)
		ini, adv := missing("current := …; current = …"), missing("current := …; current = …")
		if xs := f.assigns["current"]; len(xs) == 2 {
			ini, adv = timeExpr(xs[0]), timeExpr(xs[1])
		}
		defT("queriesInit", ini)
		defT("queriesAdvance", adv)
		defT("queriesQstop", oneAssign(f, "qstop"))
		defT("queriesStartArg", oneCallArg(f, "SetStartTime"))
		defT("queriesStopArg", oneCallArg(f, "SetStopTime"))
		var breaks []string
		stopDefault := missing("if stop.IsZero() { stop = now }")
		for _, i := range f.ifs {
			switch {
			case i.Else == nil && bodyIs(i.Body, "break"):
				breaks = append(breaks, boolExpr(i.Cond))
			case i.Else == nil && bodyIs(i.Body, "stop = now"):
				stopDefault = boolExpr(i.Cond)
			}
		}
		defB("queriesStopDefaultsToNowWhen", stopDefault)
		fmt.Fprintf(&out, "def queriesBreaks : List BE := [%s]\n", strings.Join(breaks, ", "))
	} else {
		for _, n := range []string{"queriesInit", "queriesAdvance", "queriesQstop", "queriesStartArg", "queriesStopArg"} {
			defT(n, missing("QueryNode.Queries"))
		}
		defB("queriesStopDefaultsToNowWhen", missing("QueryNode.Queries"))
		out.WriteString("def queriesBreaks : List BE := []\n")
	}

	// ---- timeTicker.Next: `if c { return a }; return b`
	nc, na, nb := missing("timeTicker.Next"), missing("timeTicker.Next"), missing("timeTicker.Next")
	if fd := findFunc(batch, "timeTicker", "Next"); fd != nil && len(fd.Body.List) == 2 {
		i, ok1 := fd.Body.List[0].(*ast.IfStmt)
		r2, ok2 := fd.Body.List[1].(*ast.ReturnStmt)
		if ok1 && ok2 && i.Else == nil && i.Init == nil && len(i.Body.List) == 1 && len(r2.Results) == 1 {
			if r1, ok := i.Body.List[0].(*ast.ReturnStmt); ok && len(r1.Results) == 1 {
				nc, na, nb = boolExpr(i.Cond), timeExpr(r1.Results[0]), timeExpr(r2.Results[0])
			}
		}
	}
	defB("nextCond", nc)
	defT("nextThen", na)
	defT("nextElse", nb)

	// ---- Query.SetStartTime: `if g { q.groupByOffsetDL.Val = v }`
	gc, gv := missing("Query.SetStartTime"), missing("Query.SetStartTime")
	if fd := findFunc(query, "Query", "SetStartTime"); fd != nil {
		n := 0
		for _, i := range scan(fd.Body).ifs {
			if i.Else == nil && len(i.Body.List) == 1 {
				if a, ok := i.Body.List[0].(*ast.AssignStmt); ok && len(a.Lhs) == 1 && src(a.Lhs[0]) == "q.groupByOffsetDL.Val" && a.Tok == token.ASSIGN {
					gc, gv = boolExpr(i.Cond), timeExpr(a.Rhs[0])
					n++
				}
			}
		}
		if n != 1 {
			gc, gv = missing("one guarded assignment to q.groupByOffsetDL.Val"), missing("one guarded assignment to q.groupByOffsetDL.Val")
		}
	}
	defB("gbOffsetGuard", gc)
	defT("gbOffsetValue", gv)

	// ---- Query.Dimensions: guards `if <len> <= 0 { return fmt.Errorf(…) }`
	var rejects []string
	if fd := findFunc(query, "Query", "Dimensions"); fd != nil {
		for _, i := range scan(fd.Body).ifs {
			if b, ok := i.Cond.(*ast.BinaryExpr); ok && b.Op == token.LEQ && i.Else == nil && len(i.Body.List) == 1 {
				if r, ok := i.Body.List[0].(*ast.ReturnStmt); ok && len(r.Results) == 1 && strings.HasPrefix(src(r.Results[0]), "fmt.Errorf(") {
					rejects = append(rejects, boolExpr(i.Cond))
				}
			}
		}
	}
	fmt.Fprintf(&out, "def dimensionRejects : List BE := [%s]\n", strings.Join(rejects, ", "))

	out.WriteString("\nend Kap.C16.Gen\n")
	dir := filepath.Join(lean, "Kap", "Gen")
	os.MkdirAll(dir, 0o755)
	p := filepath.Join(dir, "C16.lean")
	if old, err := os.ReadFile(p); err == nil && string(old) == out.String() {
		return // unchanged: keep the mtime so lake does not rebuild
	}
	if err := os.WriteFile(p, []byte(out.String()), 0o644); err != nil {
		fmt.Fprintln(os.Stderr, err)
		os.Exit(1)
	}
}
