module c17extract

go 1.18
