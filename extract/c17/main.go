// Extractor for property C17: regenerates lean/Kap/Gen/C17.lean from the Go SOURCE of
// task/backend/scheduler/treescheduler.go (go/ast, standard library only).
//
// Extracted:
//   - the field order of Item.Less: the return expression must have the lexicographic shape
//     `it.F1 < it2.F1 || ((it.F1 == it2.F1) && it.F2 < it2.F2)`  ->  lessKeys := [F1, F2]
//   - the due test of iterator(): the `if` that stops the Ascend pass must have the shape
//     `if time.Unix(it.A+it.B, 0).After(ts) { return false }`       ->  dueSum := [A, B], dueStop := after
//     with `ts` the parameter of iterator, and process() must call `s.iterator(s.time.Now())`.
//
// FAIL CLOSED: a shape that is not recognised is emitted as an `unknown "<go source>"` entry, for which the
// model has no meaning and no lemma exists, so the dependent theorems stop checking. Nothing is defaulted.
// Env: VERIF_REPO (default /repo), VERIF_LEAN (default /verif/lean).
package main

import (
	"bytes"
	"fmt"
	"go/ast"
	"go/parser"
	"go/printer"
	"go/token"
	"os"
	"path/filepath"
	"strings"
)

var fset = token.NewFileSet()

func src(n ast.Node) string {
	var b bytes.Buffer
	printer.Fprint(&b, fset, n)
	return strings.Join(strings.Fields(b.String()), " ")
}

func leanStr(s string) string {
	s = strings.ReplaceAll(s, "\\", "\\\\")
	s = strings.ReplaceAll(s, "\"", "\\\"")
	return "\"" + s + "\""
}

func unparen(e ast.Expr) ast.Expr {
	for {
		p, ok := e.(*ast.ParenExpr)
		if !ok {
			return e
		}
		e = p.X
	}
}

// sel returns (receiver name, field) of `x.f`.
func sel(e ast.Expr) (string, string, bool) {
	s, ok := unparen(e).(*ast.SelectorExpr)
	if !ok {
		return "", "", false
	}
	id, ok := s.X.(*ast.Ident)
	if !ok {
		return "", "", false
	}
	return id.Name, s.Sel.Name, true
}

func fld(name string) (string, bool) {
	switch name {
	case "when":
		return "Fld.when", true
	case "id":
		return "Fld.id", true
	case "next":
		return "Fld.next", true
	case "Offset":
		return "Fld.offset", true
	}
	return "", false
}

// cmp recognises `a.F op b.F` with the same field on both sides and returns F.
func cmp(e ast.Expr, op token.Token, a, b string) (string, bool) {
	be, ok := unparen(e).(*ast.BinaryExpr)
	if !ok || be.Op != op {
		return "", false
	}
	ra, fa, ok1 := sel(be.X)
	rb, fb, ok2 := sel(be.Y)
	if !ok1 || !ok2 || ra != a || rb != b || fa != fb {
		return "", false
	}
	return fa, true
}

func lessKeys(f *ast.File) string {
	for _, d := range f.Decls {
		fd, ok := d.(*ast.FuncDecl)
		if !ok || fd.Name.Name != "Less" || fd.Recv == nil || len(fd.Recv.List) != 1 {
			continue
		}
		if t, ok := fd.Recv.List[0].Type.(*ast.Ident); !ok || t.Name != "Item" {
			continue
		}
		unknown := "[Fld.unknown " + leanStr(src(fd.Body)) + "]"
		if len(fd.Recv.List[0].Names) != 1 || len(fd.Body.List) != 2 {
			return unknown
		}
		a := fd.Recv.List[0].Names[0].Name
		// it2 := bItem.(Item)
		as, ok := fd.Body.List[0].(*ast.AssignStmt)
		if !ok || len(as.Lhs) != 1 || len(as.Rhs) != 1 {
			return unknown
		}
		bid, ok := as.Lhs[0].(*ast.Ident)
		if !ok {
			return unknown
		}
		if ta, ok := as.Rhs[0].(*ast.TypeAssertExpr); !ok || src(ta.Type) != "Item" {
			return unknown
		}
		b := bid.Name
		ret, ok := fd.Body.List[1].(*ast.ReturnStmt)
		if !ok || len(ret.Results) != 1 {
			return unknown
		}
		or, ok := unparen(ret.Results[0]).(*ast.BinaryExpr)
		if !ok || or.Op != token.LOR {
			return unknown
		}
		f1, ok := cmp(or.X, token.LSS, a, b)
		if !ok {
			return unknown
		}
		and, ok := unparen(or.Y).(*ast.BinaryExpr)
		if !ok || and.Op != token.LAND {
			return unknown
		}
		f1e, ok1 := cmp(and.X, token.EQL, a, b)
		f2, ok2 := cmp(and.Y, token.LSS, a, b)
		if !ok1 || !ok2 || f1e != f1 {
			return unknown
		}
		l1, k1 := fld(f1)
		l2, k2 := fld(f2)
		if !k1 || !k2 {
			return unknown
		}
		return "[" + l1 + ", " + l2 + "]"
	}
	return "[Fld.unknown \"Item.Less not found\"]"
}

func dueTest(f *ast.File) (sum, stop, clock string) {
	sum, stop, clock = "[Fld.unknown \"iterator not found\"]", "Stop.unknown \"iterator not found\"", "process/iterator not found"
	for _, d := range f.Decls {
		fd, ok := d.(*ast.FuncDecl)
		if !ok {
			continue
		}
		if fd.Name.Name == "process" {
			clock = "unknown: " + src(fd.Body)
			ast.Inspect(fd.Body, func(n ast.Node) bool {
				if c, ok := n.(*ast.CallExpr); ok && src(c.Fun) == "s.iterator" && len(c.Args) == 1 {
					clock = src(c.Args[0])
				}
				return true
			})
		}
		if fd.Name.Name != "iterator" || fd.Type.Params == nil || len(fd.Type.Params.List) != 1 || len(fd.Type.Params.List[0].Names) != 1 {
			continue
		}
		ts := fd.Type.Params.List[0].Names[0].Name
		var found []*ast.IfStmt
		ast.Inspect(fd.Body, func(n ast.Node) bool {
			if is, ok := n.(*ast.IfStmt); ok && strings.Contains(src(is.Cond), "time.Unix") {
				found = append(found, is)
			}
			return true
		})
		if len(found) != 1 {
			sum, stop = "[Fld.unknown "+leanStr(src(fd.Body))+"]", "Stop.unknown \"no single time.Unix test\""
			continue
		}
		is := found[0]
		unk := leanStr(src(is))
		sum, stop = "[Fld.unknown "+unk+"]", "Stop.unknown "+unk
		// body: return false
		if len(is.Body.List) != 1 || is.Else != nil || is.Init != nil {
			continue
		}
		if r, ok := is.Body.List[0].(*ast.ReturnStmt); !ok || len(r.Results) != 1 || src(r.Results[0]) != "false" {
			continue
		}
		// cond: time.Unix(it.A+it.B, 0).After(ts)
		call, ok := unparen(is.Cond).(*ast.CallExpr)
		if !ok || len(call.Args) != 1 || src(call.Args[0]) != ts {
			continue
		}
		m, ok := call.Fun.(*ast.SelectorExpr)
		if !ok || m.Sel.Name != "After" {
			continue
		}
		ux, ok := m.X.(*ast.CallExpr)
		if !ok || src(ux.Fun) != "time.Unix" || len(ux.Args) != 2 || src(ux.Args[1]) != "0" {
			continue
		}
		add, ok := unparen(ux.Args[0]).(*ast.BinaryExpr)
		if !ok || add.Op != token.ADD {
			continue
		}
		ra, fa, ok1 := sel(add.X)
		rb, fb, ok2 := sel(add.Y)
		if !ok1 || !ok2 || ra != rb {
			continue
		}
		la, k1 := fld(fa)
		lb, k2 := fld(fb)
		if !k1 || !k2 {
			continue
		}
		sum, stop = "["+la+", "+lb+"]", "Stop.after"
	}
	return
}

// ---- task/backend/coordinator/coordinator.go: what is forwarded to the scheduler ----

func callsOf(n ast.Node) (sched, rel int) {
	ast.Inspect(n, func(x ast.Node) bool {
		if c, ok := x.(*ast.CallExpr); ok {
			switch src(c.Fun) {
			case "c.sch.Schedule":
				sched++
			case "c.sch.Release":
				rel++
			}
		}
		return true
	})
	return
}

func coordShapes(f *ast.File) (created, updated, deleted, pick string) {
	unk := func(what string, n ast.Node) string {
		if n == nil {
			return "CoordShape.unknown " + leanStr(what+" not found")
		}
		return "CoordShape.unknown " + leanStr(src(n))
	}
	created, updated, deleted = unk("TaskCreated", nil), unk("TaskUpdated", nil), unk("TaskDeleted", nil)
	pick = "PickShape.unknown \"NewSchedulableTask not found\""
	for _, d := range f.Decls {
		fd, ok := d.(*ast.FuncDecl)
		if !ok || fd.Body == nil {
			continue
		}
		switch fd.Name.Name {
		case "TaskCreated":
			created = unk("", fd.Body)
			s, r := callsOf(fd.Body)
			// t, err := NewSchedulableTask(task); if err != nil { return err }; if err = c.sch.Schedule(t); ... ; return nil
			if s == 1 && r == 0 && len(fd.Body.List) == 4 && strings.HasPrefix(src(fd.Body.List[0]), "t, err := NewSchedulableTask(task)") &&
				src(fd.Body.List[1]) == "if err != nil { return err }" &&
				src(fd.Body.List[2]) == "if err = c.sch.Schedule(t); err != nil { return err }" && src(fd.Body.List[3]) == "return nil" {
				created = "CoordShape.schedule"
			}
		case "TaskDeleted":
			deleted = unk("", fd.Body)
			s, r := callsOf(fd.Body)
			if s == 0 && r == 1 && len(fd.Body.List) == 3 && src(fd.Body.List[0]) == "tid := scheduler.ID(id)" &&
				strings.HasPrefix(src(fd.Body.List[1]), "if err := c.sch.Release(tid); err != nil") && src(fd.Body.List[2]) == "return nil" {
				deleted = "CoordShape.release"
			}
		case "TaskUpdated":
			updated = unk("", fd.Body)
			s, r := callsOf(fd.Body)
			if s != 1 || r != 1 || len(fd.Body.List) != 5 {
				continue
			}
			if src(fd.Body.List[0]) != "sid := scheduler.ID(to.ID)" || src(fd.Body.List[1]) != "t, err := NewSchedulableTask(to)" ||
				src(fd.Body.List[2]) != "if err != nil { return err }" || src(fd.Body.List[4]) != "return nil" {
				continue
			}
			is, ok := fd.Body.List[3].(*ast.IfStmt)
			if !ok || is.Else == nil || src(is.Cond) != "to.Status != from.Status && to.Status == string(taskmodel.TaskInactive)" {
				continue
			}
			s1, r1 := callsOf(is.Body)
			s2, r2 := callsOf(is.Else)
			if s1 == 0 && r1 == 1 && s2 == 1 && r2 == 0 && strings.Contains(src(is.Body), "c.sch.Release(sid)") && strings.Contains(src(is.Else), "c.sch.Schedule(t)") {
				updated = "CoordShape.releaseIfBecameInactiveElseSchedule"
			}
		case "NewSchedulableTask":
			pick = "PickShape.unknown " + leanStr(src(fd.Body))
			var got bool
			for i, st := range fd.Body.List {
				if src(st) == "ts := task.CreatedAt" && i+1 < len(fd.Body.List) {
					want := "if task.LatestScheduled.IsZero() || task.LatestScheduled.Before(task.LatestCompleted) { ts = task.LatestCompleted } else if !task.LatestScheduled.IsZero() { ts = task.LatestScheduled }"
					if src(fd.Body.List[i+1]) == want {
						got = true
					}
				}
			}
			if got && strings.Contains(src(fd.Body), "sch, ts, err = scheduler.NewSchedule(effCron, ts)") &&
				strings.Contains(src(fd.Body), "return SchedulableTask{Task: task, sch: sch, lsc: ts}, nil") &&
				strings.Contains(src(fd.Body), "if task.Cron == \"\" && task.Every == \"\" { return SchedulableTask{}, errors.New(\"invalid cron or every\") }") {
				pick = "PickShape.completedIfScheduledZeroOrOlderElseScheduled"
			}
		}
	}
	return
}

func main() {
	repo := os.Getenv("VERIF_REPO")
	if repo == "" {
		repo = "/repo"
	}
	lean := os.Getenv("VERIF_LEAN")
	if lean == "" {
		lean = "/verif/lean"
	}
	path := filepath.Join(repo, "task/backend/scheduler/treescheduler.go")
	f, err := parser.ParseFile(fset, path, nil, 0)
	if err != nil {
		fmt.Fprintln(os.Stderr, "c17extract:", err)
		os.Exit(1)
	}
	keys := lessKeys(f)
	sum, stop, clock := dueTest(f)
	if clock != "s.time.Now()" {
		stop = "Stop.unknown " + leanStr("iterator is not given the scheduler's clock: "+clock)
	}
	cpath := filepath.Join(repo, "task/backend/coordinator/coordinator.go")
	cf, err := parser.ParseFile(fset, cpath, nil, 0)
	if err != nil {
		fmt.Fprintln(os.Stderr, "c17extract:", err)
		os.Exit(1)
	}
	cCreated, cUpdated, cDeleted, cPick := coordShapes(cf)
	var b strings.Builder
	b.WriteString("/- GENERATED by extract/c17 from task/backend/scheduler/treescheduler.go on every run — do not edit. -/\n")
	b.WriteString("namespace Kap.C17.Gen\n\n")
	b.WriteString("/-- A field of `Item`. -/\ninductive Fld where\n  | when | id | next | offset\n  | unknown (src : String)\nderiving DecidableEq, Repr\n\n")
	b.WriteString("/-- How the due test ends the Ascend pass: `.after` = `if time.Unix(sum, 0).After(ts) { return false }`. -/\ninductive Stop where\n  | after\n  | unknown (src : String)\nderiving DecidableEq, Repr\n\n")
	b.WriteString("/-- `Item.Less` compares these fields lexicographically. -/\ndef lessKeys : List Fld := " + keys + "\n\n")
	b.WriteString("/-- The due test of `iterator` adds these fields … -/\ndef dueSum : List Fld := " + sum + "\n\n")
	b.WriteString("/-- … and stops the pass when that time is after the scheduler's clock (`s.time.Now()` read in `process`). -/\ndef dueStop : Stop := " + stop + "\n\n")
	b.WriteString("/-- What a coordinator callback forwards to the scheduler. -/\ninductive CoordShape where\n  | schedule                                -- Schedule(NewSchedulableTask(task)), errors returned\n  | release                                 -- Release(id)\n  | releaseIfBecameInactiveElseSchedule     -- NewSchedulableTask(to) first; Release iff to.Status != from.Status && to.Status == inactive, else Schedule\n  | unknown (src : String)\nderiving DecidableEq, Repr\n\n")
	b.WriteString("/-- Which time NewSchedulableTask hands to NewSchedule as last-scheduled. -/\ninductive PickShape where\n  | completedIfScheduledZeroOrOlderElseScheduled\n  | unknown (src : String)\nderiving DecidableEq, Repr\n\n")
	b.WriteString("def coordCreated : CoordShape := " + cCreated + "\n")
	b.WriteString("def coordUpdated : CoordShape := " + cUpdated + "\n")
	b.WriteString("def coordDeleted : CoordShape := " + cDeleted + "\n")
	b.WriteString("def pickTs : PickShape := " + cPick + "\n\n")
	b.WriteString("end Kap.C17.Gen\n")
	out := filepath.Join(lean, "Kap/Gen/C17.lean")
	if old, err := os.ReadFile(out); err == nil && string(old) == b.String() {
		return // unchanged: keep the timestamp so that lake does not rebuild
	}
	if err := os.MkdirAll(filepath.Dir(out), 0o755); err != nil {
		fmt.Fprintln(os.Stderr, err)
		os.Exit(1)
	}
	if err := os.WriteFile(out, []byte(b.String()), 0o644); err != nil {
		fmt.Fprintln(os.Stderr, err)
		os.Exit(1)
	}
}
