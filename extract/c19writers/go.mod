module c19writers

go 1.18
