// Extractor for property C19: WHO writes to the byte stream of the UDF boundary.
//
// agent.WriteMessage puts a message on the wire with TWO Write calls (varint length, then payload). That is only
// a frame when no other goroutine writes to the same stream in between: the framing theorems of Kap.Props.C19 are
// about the byte stream of ONE writer (Kap.C19.wireSingle). This extractor computes, for udf/server.go (type
// Server, stream field `out`) and udf/agent/agent.go (type Agent, stream field `out`), every GOROUTINE ROOT from
// which a write to the stream field is reachable through static method calls on the receiver:
//   * every `go` statement (its called method or its function literal) is a root, named go@<enclosing>#<k>:<call>;
//   * every exported method is a root (it runs on the caller's goroutine), named api@<method>;
// and emits the roots that reach a write into lean/Kap/Gen/C19Writers.lean. The theorem
// Kap.Props.C19.one_writer_per_stream demands exactly one root per stream. FAIL CLOSED: any use of the stream field
// that is not `WriteMessage(_, x.out)`, `x.out.Write(..)` or `x.out.Close()` (alias, argument of another call,
// assignment after construction) is emitted as a root named unknown@<function>:<source text>.
// Env: VERIF_REPO (default /repo), VERIF_LEAN (default /verif/lean).
package main

import (
	"bytes"
	"fmt"
	"go/ast"
	"go/parser"
	"go/printer"
	"go/token"
	"os"
	"path/filepath"
	"sort"
	"strings"
)

var fset = token.NewFileSet()

func src(n ast.Node) string {
	var b bytes.Buffer
	printer.Fprint(&b, fset, n)
	return strings.Join(strings.Fields(b.String()), " ")
}

func leanStr(s string) string {
	s = strings.ReplaceAll(s, "\\", "\\\\")
	s = strings.ReplaceAll(s, "\"", "\\\"")
	return "\"" + s + "\""
}

// body facts of one unit of code that runs on one goroutine
type unit struct {
	name    string
	writes  bool     // contains a write to recv.<field>
	calls   []string // static calls recv.m(...)
	unknown []string // uses of recv.<field> no rule covers
}

type scanner struct {
	typ, field string
	units      map[string]*unit // method name -> facts (nested go statements excluded)
	roots      []*unit          // go statements
	exported   []string
	ctorOK     map[ast.Node]bool
}

func isField(e ast.Expr, recv, field string) bool {
	se, ok := e.(*ast.SelectorExpr)
	if !ok || se.Sel.Name != field {
		return false
	}
	id, ok := se.X.(*ast.Ident)
	return ok && id.Name == recv
}

// scanBody walks the statements that run on the goroutine executing `node`; nested go statements become roots.
func (s *scanner) scanBody(u *unit, node ast.Node, recv, encl string, goCount *int) {
	handled := map[ast.Node]bool{}
	ast.Inspect(node, func(n ast.Node) bool {
		switch x := n.(type) {
		case *ast.GoStmt:
			*goCount++
			call := "func"
			if _, isLit := x.Call.Fun.(*ast.FuncLit); !isLit {
				call = src(x.Call.Fun)
			}
			r := &unit{name: fmt.Sprintf("go@%s#%d:%s", encl, *goCount, call)}
			if lit, isLit := x.Call.Fun.(*ast.FuncLit); isLit {
				s.scanBody(r, lit.Body, recv, encl, goCount)
			} else if se, ok := x.Call.Fun.(*ast.SelectorExpr); ok {
				if id, ok := se.X.(*ast.Ident); ok && id.Name == recv {
					r.calls = append(r.calls, se.Sel.Name)
				} else {
					// a goroutine running foreign code: harmless unless it is handed the stream (checked below)
				}
			}
			for _, a := range x.Call.Args {
				s.scanBody(r, a, recv, encl, goCount)
			}
			s.roots = append(s.roots, r)
			return false
		case *ast.CallExpr:
			// WriteMessage(_, recv.out) / agent.WriteMessage(_, recv.out)
			fn := src(x.Fun)
			if (fn == "WriteMessage" || fn == "agent.WriteMessage") && len(x.Args) == 2 && isField(x.Args[1], recv, s.field) {
				u.writes = true
				handled[x.Args[1]] = true
			}
			if se, ok := x.Fun.(*ast.SelectorExpr); ok {
				if isField(se.X, recv, s.field) {
					handled[se.X] = true
					switch se.Sel.Name {
					case "Write":
						u.writes = true
					case "Close":
					default:
						u.unknown = append(u.unknown, src(x))
					}
				} else if id, ok := se.X.(*ast.Ident); ok && id.Name == recv {
					u.calls = append(u.calls, se.Sel.Name)
				}
			}
		case *ast.SelectorExpr:
			if isField(x, recv, s.field) && !handled[x] {
				u.unknown = append(u.unknown, src(x))
			}
			// a method value recv.m (not called here) may run anywhere: treat as a call from this unit
		}
		return true
	})
}

func scan(path, typ, field string) (writers []string, err error) {
	f, err := parser.ParseFile(fset, path, nil, 0)
	if err != nil {
		return nil, err
	}
	s := &scanner{typ: typ, field: field, units: map[string]*unit{}}
	for _, d := range f.Decls {
		fd, ok := d.(*ast.FuncDecl)
		if !ok || fd.Body == nil {
			continue
		}
		if fd.Recv == nil || len(fd.Recv.List) == 0 {
			// plain functions: the constructor may set the field in a composite literal (KeyValueExpr, no
			// SelectorExpr); any selector use of a <typ> value's field here is unknown
			ast.Inspect(fd.Body, func(n ast.Node) bool {
				if se, ok := n.(*ast.SelectorExpr); ok && se.Sel.Name == field {
					writers = append(writers, "unknown@"+fd.Name.Name+":"+src(se))
				}
				return true
			})
			continue
		}
		t := fd.Recv.List[0].Type
		if st, ok := t.(*ast.StarExpr); ok {
			t = st.X
		}
		if src(t) != typ {
			continue
		}
		recv := "_"
		if len(fd.Recv.List[0].Names) > 0 {
			recv = fd.Recv.List[0].Names[0].Name
		}
		u := &unit{name: fd.Name.Name}
		n := 0
		s.scanBody(u, fd.Body, recv, fd.Name.Name, &n)
		s.units[fd.Name.Name] = u
		if ast.IsExported(fd.Name.Name) {
			s.exported = append(s.exported, fd.Name.Name)
		}
	}
	// reachability over static calls
	var reach func(u *unit, seen map[string]bool) (bool, []string)
	reach = func(u *unit, seen map[string]bool) (bool, []string) {
		w, unk := u.writes, append([]string(nil), u.unknown...)
		for _, c := range u.calls {
			if seen[c] {
				continue
			}
			seen[c] = true
			if cu, ok := s.units[c]; ok {
				w2, unk2 := reach(cu, seen)
				w = w || w2
				unk = append(unk, unk2...)
			}
		}
		return w, unk
	}
	for _, r := range s.roots {
		w, unk := reach(r, map[string]bool{})
		if w {
			writers = append(writers, r.name)
		}
		for _, x := range unk {
			writers = append(writers, "unknown@"+r.name+":"+x)
		}
	}
	sort.Strings(s.exported)
	for _, e := range s.exported {
		w, unk := reach(s.units[e], map[string]bool{e: true})
		if w {
			writers = append(writers, "api@"+e)
		}
		for _, x := range unk {
			writers = append(writers, "unknown@api@"+e+":"+x)
		}
	}
	// unknown uses in methods no root reaches are still reported (dead today, live tomorrow)
	for name, u := range s.units {
		for _, x := range u.unknown {
			writers = append(writers, "unknown@"+name+":"+x)
		}
	}
	sort.Strings(writers)
	out := writers[:0]
	for i, w := range writers {
		if i == 0 || writers[i-1] != w {
			out = append(out, w)
		}
	}
	return out, nil
}

func main() {
	repo := os.Getenv("VERIF_REPO")
	if repo == "" {
		repo = "/repo"
	}
	lean := os.Getenv("VERIF_LEAN")
	if lean == "" {
		lean = "/verif/lean"
	}
	var b strings.Builder
	b.WriteString("/- GENERATED by /verif/extract/c19writers from the Go source — do not edit.\n   Goroutine roots (go statements, exported methods) from which a write to the boundary's byte stream is reachable. -/\n")
	b.WriteString("namespace Kap.C19.Gen\n\n")
	for _, t := range []struct{ def, file, typ, field string }{
		{"serverWriters", "udf/server.go", "Server", "out"},
		{"agentWriters", "udf/agent/agent.go", "Agent", "out"},
	} {
		ws, err := scan(filepath.Join(repo, t.file), t.typ, t.field)
		if err != nil {
			fmt.Fprintln(os.Stderr, "c19writers:", err)
			os.Exit(1)
		}
		fmt.Fprintf(&b, "/-- %s, type %s, stream field `%s`: (kind of root: go | api | unknown, root) -/\ndef %s : List (String × String) := [", t.file, t.typ, t.field, t.def)
		for i, w := range ws {
			if i > 0 {
				b.WriteString(", ")
			}
			k := strings.Index(w, "@")
			fmt.Fprintf(&b, "(%s, %s)", leanStr(w[:k]), leanStr(w[k+1:]))
		}
		b.WriteString("]\n\n")
	}
	b.WriteString("end Kap.C19.Gen\n")
	out := filepath.Join(lean, "Kap", "Gen", "C19Writers.lean")
	if old, err := os.ReadFile(out); err == nil && string(old) == b.String() {
		return
	}
	if err := os.WriteFile(out, []byte(b.String()), 0o644); err != nil {
		fmt.Fprintln(os.Stderr, err)
		os.Exit(1)
	}
}
