module c20extract

go 1.18
