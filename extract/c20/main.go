// Extractor for property C20: regenerates lean/Kap/Gen/C20.lean from the Go SOURCE of
// auth/auth.go and services/httpd/handler.go (go/ast, standard library only).
//
// Extracted (all of it table-like code):
//   - the Privilege bit constants (`1 << iota` block)
//   - the resource roots and suffixes, the '/' -> '_' replacement of DatabaseResource
//   - BasePath, BasePreviewPath, SubscriptionUser
//   - the switch of requiredPrivilegeForHTTPMethod (case lists, returned privilege, default = error)
//   - the shape of the two boolean expressions of AuthorizeAction (early allow, `authorized`)
//   - whether each clause of `switch creds.Method` in authenticate() leaves the function on its own
//     (the `default:` clause of the snapshot does not `return`)
//
// FAIL CLOSED: a shape that is not recognised is emitted as an `unknown "<go source>"` entry, which no
// lemma covers, so the dependent theorems stop checking. Nothing is ever defaulted.
// Env: VERIF_REPO (default /repo), VERIF_LEAN (default /verif/lean).
package main

import (
	"bytes"
	"fmt"
	"go/ast"
	"go/parser"
	"go/printer"
	"go/token"
	"os"
	"path/filepath"
	"strconv"
	"strings"
)

var fset = token.NewFileSet()

func src(n ast.Node) string {
	var b bytes.Buffer
	printer.Fprint(&b, fset, n)
	return strings.Join(strings.Fields(b.String()), " ")
}

func leanStr(s string) string {
	var b strings.Builder
	b.WriteByte('"')
	for _, r := range s {
		switch {
		case r == '"':
			b.WriteString("\\\"")
		case r == '\\':
			b.WriteString("\\\\")
		case r == '\n':
			b.WriteString("\\n")
		case r < 0x20 || r == 0x7f:
			fmt.Fprintf(&b, "\\x%02x", r)
		default:
			b.WriteRune(r)
		}
	}
	b.WriteByte('"')
	return b.String()
}

// leanChars renders a Go string as a Lean `List Char` literal.
func leanChars(s string) string {
	var items []string
	for _, r := range s {
		switch {
		case r == '\'':
			items = append(items, `'\''`)
		case r == '\\':
			items = append(items, `'\\'`)
		case r < 0x20 || r >= 0x7f:
			items = append(items, fmt.Sprintf("Char.ofNat %d", r))
		default:
			items = append(items, "'"+string(r)+"'")
		}
	}
	return "[" + strings.Join(items, ", ") + "]"
}

var problems []string

func problem(format string, a ...interface{}) { problems = append(problems, fmt.Sprintf(format, a...)) }

func die(format string, a ...interface{}) {
	fmt.Fprintf(os.Stderr, "extract/c20: "+format+"\n", a...)
	os.Exit(1)
}

func parse(path string) *ast.File {
	f, err := parser.ParseFile(fset, path, nil, 0)
	if err != nil {
		die("%v", err)
	}
	return f
}

func funcDecl(f *ast.File, name string, recv string) *ast.FuncDecl {
	for _, d := range f.Decls {
		fd, ok := d.(*ast.FuncDecl)
		if !ok || fd.Name.Name != name {
			continue
		}
		if recv == "" && fd.Recv == nil {
			return fd
		}
		if recv != "" && fd.Recv != nil && len(fd.Recv.List) == 1 && src(fd.Recv.List[0].Type) == recv {
			return fd
		}
	}
	return nil
}

// stringConsts returns every `name = "literal"` constant of the file.
func stringConsts(f *ast.File) map[string]string {
	out := map[string]string{}
	for _, d := range f.Decls {
		gd, ok := d.(*ast.GenDecl)
		if !ok || gd.Tok != token.CONST {
			continue
		}
		for _, s := range gd.Specs {
			vs := s.(*ast.ValueSpec)
			for i, n := range vs.Names {
				if i < len(vs.Values) {
					if bl, ok := vs.Values[i].(*ast.BasicLit); ok && bl.Kind == token.STRING {
						if v, err := strconv.Unquote(bl.Value); err == nil {
							out[n.Name] = v
						}
					}
				}
			}
		}
	}
	return out
}

// privilegeConsts recognises exactly
//
//	const ( A Privilege = 1 << iota ; B ; C ; ... )
//
// and returns the names in order (value of the i-th name = 1<<i). ok=false on any other shape.
func privilegeConsts(f *ast.File) (names []string, ok bool, why string) {
	for _, d := range f.Decls {
		gd, isGen := d.(*ast.GenDecl)
		if !isGen || gd.Tok != token.CONST || len(gd.Specs) == 0 {
			continue
		}
		first := gd.Specs[0].(*ast.ValueSpec)
		if first.Type == nil || src(first.Type) != "Privilege" {
			continue
		}
		if len(first.Names) != 1 || len(first.Values) != 1 || src(first.Values[0]) != "1 << iota" {
			return nil, false, src(gd)
		}
		names = append(names, first.Names[0].Name)
		for _, s := range gd.Specs[1:] {
			vs := s.(*ast.ValueSpec)
			if len(vs.Names) != 1 || len(vs.Values) != 0 || vs.Type != nil {
				return nil, false, src(gd)
			}
			names = append(names, vs.Names[0].Name)
		}
		return names, true, ""
	}
	return nil, false, "no `Privilege = 1 << iota` const block"
}

// emitRoutes extracts every Route literal NewHandler registers (the per-method loop is expanded) with its
// BypassAuth flag and whether the handler receives the user, and checks the shape of addRawRoute.
func emitRoutes(hF *ast.File, consts map[string]string, w func(string, ...interface{})) {
	w("")
	w("/-- One route registered by NewHandler. `forward` = the handler has the AuthorizationHandler signature. -/")
	w("structure GenRoute where")
	w("  method : List Char")
	w("  pattern : List Char")
	w("  handler : List Char")
	w("  bypassAuth : Bool")
	w("  forward : Bool")
	w("deriving Repr, DecidableEq")
	nh := funcDecl(hF, "NewHandler", "")
	if nh == nil {
		problem("NewHandler not found")
		w("def allowedMethods : List (List Char) := []")
		w("def routes : List GenRoute := []")
		return
	}
	// number of parameters of the functions of this file (3 => receives the user)
	arity := map[string]int{}
	for _, d := range hF.Decls {
		if fd, ok := d.(*ast.FuncDecl); ok {
			n := 0
			for _, f := range fd.Type.Params.List {
				if len(f.Names) == 0 {
					n++
				} else {
					n += len(f.Names)
				}
			}
			arity[fd.Name.Name] = n
		}
	}
	pattern := func(e ast.Expr) (string, bool) {
		switch x := e.(type) {
		case *ast.BasicLit:
			if x.Kind == token.STRING {
				v, err := strconv.Unquote(x.Value)
				return v, err == nil
			}
		case *ast.BinaryExpr:
			if x.Op == token.ADD {
				id, ok1 := x.X.(*ast.Ident)
				bl, ok2 := x.Y.(*ast.BasicLit)
				if ok1 && ok2 && bl.Kind == token.STRING {
					base, has := consts[id.Name]
					v, err := strconv.Unquote(bl.Value)
					return base + v, has && err == nil
				}
			}
		}
		return "", false
	}
	type route struct {
		method, pattern, handler   string
		perMethod, bypass, forward bool
	}
	parseRoute := func(cl *ast.CompositeLit) (route, bool) {
		var r route
		seen := map[string]bool{}
		for _, el := range cl.Elts {
			kv, ok := el.(*ast.KeyValueExpr)
			if !ok {
				return r, false
			}
			key := src(kv.Key)
			seen[key] = true
			switch key {
			case "Method":
				if bl, ok := kv.Value.(*ast.BasicLit); ok && bl.Kind == token.STRING {
					r.method, _ = strconv.Unquote(bl.Value)
				} else if src(kv.Value) == "method" {
					r.perMethod = true
				} else {
					return r, false
				}
			case "Pattern":
				p, ok := pattern(kv.Value)
				if !ok {
					return r, false
				}
				r.pattern = p
			case "HandlerFunc":
				r.handler = src(kv.Value)
				name := r.handler
				if i := strings.LastIndex(name, "."); i >= 0 {
					name = name[i+1:]
				}
				switch {
				case strings.HasPrefix(r.handler, "pprof."):
					r.forward = false // net/http/pprof handlers are func(ResponseWriter, *Request)
				case arity[name] == 2:
					r.forward = false
				case arity[name] == 3:
					r.forward = true
				default:
					return r, false
				}
			case "BypassAuth":
				if src(kv.Value) != "true" {
					return r, false
				}
				r.bypass = true
			case "NoGzip", "NoJSON":
			default:
				return r, false
			}
		}
		return r, seen["Method"] && seen["Pattern"] && seen["HandlerFunc"]
	}
	var allowed []string
	var loopRoutes, fixed []route
	for _, st := range nh.Body.List {
		switch x := st.(type) {
		case *ast.AssignStmt:
			if len(x.Lhs) == 1 && src(x.Lhs[0]) == "allowedMethods" {
				if cl, ok := x.Rhs[0].(*ast.CompositeLit); ok && src(cl.Type) == "[]string" {
					for _, e := range cl.Elts {
						if bl, ok := e.(*ast.BasicLit); ok && bl.Kind == token.STRING {
							v, _ := strconv.Unquote(bl.Value)
							allowed = append(allowed, v)
						} else {
							problem("allowedMethods: element not a string literal: %s", src(e))
						}
					}
				} else {
					problem("allowedMethods is not a []string literal")
				}
			}
		case *ast.RangeStmt:
			if src(x.X) != "allowedMethods" || src(x.Value) != "method" {
				problem("NewHandler: unrecognised range statement over %s", src(x.X))
				continue
			}
			vars := map[string]route{}
			for _, bs := range x.Body.List {
				switch y := bs.(type) {
				case *ast.AssignStmt:
					if cl, ok := y.Rhs[0].(*ast.CompositeLit); ok && src(cl.Type) == "Route" {
						r, ok := parseRoute(cl)
						if !ok {
							problem("NewHandler loop: unrecognised Route literal: %s", src(cl))
						}
						vars[src(y.Lhs[0])] = r
					} else if src(y) != "h.methodMux[method] = NewServeMux()" {
						problem("NewHandler loop: unrecognised statement: %s", src(y))
					}
				case *ast.ExprStmt:
					call, ok := y.X.(*ast.CallExpr)
					if ok && src(call.Fun) == "h.addRawRoute" && len(call.Args) == 1 {
						if r, has := vars[src(call.Args[0])]; has {
							loopRoutes = append(loopRoutes, r)
							continue
						}
					}
					problem("NewHandler loop: unrecognised statement: %s", src(y))
				default:
					problem("NewHandler loop: unrecognised statement: %s", src(bs))
				}
			}
		case *ast.ExprStmt:
			call, ok := x.X.(*ast.CallExpr)
			if ok && src(call.Fun) == "h.addRawRoutes" && len(call.Args) == 1 {
				if cl, ok := call.Args[0].(*ast.CompositeLit); ok && src(cl.Type) == "[]Route" {
					for _, e := range cl.Elts {
						rl, ok := e.(*ast.CompositeLit)
						if !ok {
							problem("NewHandler: route element is not a literal: %s", src(e))
							continue
						}
						r, ok := parseRoute(rl)
						if !ok || r.perMethod {
							problem("NewHandler: unrecognised Route literal: %s", src(rl))
							continue
						}
						fixed = append(fixed, r)
					}
					continue
				}
			}
			problem("NewHandler: unrecognised statement: %s", src(x))
		case *ast.ReturnStmt:
		default:
			problem("NewHandler: unrecognised statement: %s", src(st))
		}
	}
	var ms []string
	for _, m := range allowed {
		ms = append(ms, leanChars(m))
	}
	w("def allowedMethods : List (List Char) := [%s]", strings.Join(ms, ", "))
	var rs []string
	one := func(m string, r route) {
		rs = append(rs, fmt.Sprintf("⟨%s, %s, %s, %v, %v⟩", leanChars(m), leanChars(r.pattern), leanChars(r.handler), r.bypass, r.forward))
	}
	for _, m := range allowed {
		for _, r := range loopRoutes {
			one(m, r)
		}
	}
	for _, r := range fixed {
		one(r.method, r)
	}
	w("def routes : List GenRoute := [%s]", strings.Join(rs, ",\n  "))

	// no caller outside this file may mark a route BypassAuth (the theorems assume added routes are not exempt)
	repoRoot := filepath.Dir(filepath.Dir(filepath.Dir(fset.Position(hF.Pos()).Filename)))
	filepath.Walk(repoRoot, func(path string, info os.FileInfo, err error) error {
		if err != nil {
			return nil
		}
		if info.IsDir() {
			if n := info.Name(); n == "vendor" || n == ".git" || n == "node_modules" {
				return filepath.SkipDir
			}
			return nil
		}
		if !strings.HasSuffix(path, ".go") || strings.HasSuffix(path, filepath.Join("services", "httpd", "handler.go")) {
			return nil
		}
		if b, err := os.ReadFile(path); err == nil && bytes.Contains(b, []byte("BypassAuth")) {
			problem("BypassAuth is used outside services/httpd/handler.go: %s", strings.TrimPrefix(path, repoRoot))
		}
		return nil
	})

	// addRawRoute: handlers that receive the user are wrapped with h.requireAuthentication; plain handlers
	// with requireAuth, which is switched off exactly when r.BypassAuth && h.exposePprof.
	ok := false
	if fd := funcDecl(hF, "addRawRoute", "*Handler"); fd != nil && len(fd.Body.List) >= 3 {
		a := src(fd.Body.List[1])
		b := src(fd.Body.List[2])
		ok = a == "if hf, ok := r.HandlerFunc.(func(http.ResponseWriter, *http.Request, auth.User)); ok { handler = authenticate(authorizeForward(hf), h, h.requireAuthentication) }" &&
			b == "if hf, ok := r.HandlerFunc.(func(http.ResponseWriter, *http.Request)); ok { requireAuth := h.requireAuthentication if r.BypassAuth && h.exposePprof { requireAuth = false } handler = authenticate(authorize(hf), h, requireAuth) }"
		if !ok {
			problem("addRawRoute: authentication wrapping not recognised: %s ;; %s", a, b)
		}
	} else {
		problem("addRawRoute not found")
	}

	// AddRoute / AddPreviewRoute: the only ways a caller outside NewHandler registers a route. A pattern that is
	// not empty and does not begin with '/' is refused, then the route goes to addRawRoute under prefix + pattern
	// (model: addRoutePattern / viaAddRoute; hypothesis of theorem served_resource_below_api).
	for _, x := range [][2]string{{"AddRoute", "BasePath"}, {"AddPreviewRoute", "BasePreviewPath"}} {
		want := "{ if len(r.Pattern) > 0 && r.Pattern[0] != '/' { return fmt.Errorf(\"route patterns must begin with a '/' %s\", r.Pattern) } r.Pattern = " + x[1] + " + r.Pattern return h.addRawRoute(r) }"
		if fd := funcDecl(hF, x[0], "*Handler"); fd == nil {
			problem("%s not found", x[0])
		} else if got := src(fd.Body); got != want {
			problem("%s: pattern test / prefixing not recognised: %s", x[0], got)
		}
	}
	// … and addRawRoute(s) is called from nowhere else than those two, addRawRoutes and NewHandler
	pkgDir := filepath.Dir(fset.Position(hF.Pos()).Filename)
	if ents, err := os.ReadDir(pkgDir); err == nil {
		for _, e := range ents {
			n := e.Name()
			if e.IsDir() || !strings.HasSuffix(n, ".go") || strings.HasSuffix(n, "_test.go") {
				continue
			}
			f, err := parser.ParseFile(token.NewFileSet(), filepath.Join(pkgDir, n), nil, 0)
			if err != nil {
				problem("cannot parse %s: %v", n, err)
				continue
			}
			for _, d := range f.Decls {
				fd, ok := d.(*ast.FuncDecl)
				if !ok || fd.Body == nil {
					continue
				}
				allowed := n == "handler.go" && (fd.Name.Name == "AddRoute" || fd.Name.Name == "AddPreviewRoute" || fd.Name.Name == "addRawRoutes" || fd.Name.Name == "NewHandler")
				ast.Inspect(fd.Body, func(x ast.Node) bool {
					if se, ok := x.(*ast.SelectorExpr); ok && (se.Sel.Name == "addRawRoute" || se.Sel.Name == "addRawRoutes") && !allowed {
						problem("addRawRoute(s) is called from %s in %s: a route may be registered without the pattern test of AddRoute", fd.Name.Name, n)
					}
					return true
				})
			}
		}
	} else {
		problem("cannot list %s: %v", pkgDir, err)
	}
}

func main() {
	repo := os.Getenv("VERIF_REPO")
	if repo == "" {
		repo = "/repo"
	}
	leanDir := os.Getenv("VERIF_LEAN")
	if leanDir == "" {
		leanDir = "/verif/lean"
	}
	authF := parse(filepath.Join(repo, "auth", "auth.go"))
	hF := parse(filepath.Join(repo, "services", "httpd", "handler.go"))

	var o strings.Builder
	w := func(format string, a ...interface{}) { fmt.Fprintf(&o, format+"\n", a...) }
	w("/- GENERATED by /verif/extract/c20 from auth/auth.go and services/httpd/handler.go — do not edit, not committed. -/")
	w("namespace Kap.C20.Gen")
	w("")
	w("/-- One `case` of `requiredPrivilegeForHTTPMethod`. -/")
	w("inductive MethodCase where")
	w("  | priv (methods : List (List Char)) (privilege : Nat)   -- `return auth.X, nil`")
	w("  | unknown (src : String)                            -- not recognised: no lemma covers it")
	w("deriving Repr, DecidableEq")
	w("")
	w("/-- Shape of a boolean expression of `AuthorizeAction`. -/")
	w("inductive Shape where")
	w("  | noPrivilegesOrAdmin      -- `action.Privilege == NoPrivileges || u.admin`")
	w("  | andNonZeroOrEqAll        -- `p&action.Privilege != 0 || p == AllPrivileges` (before fix d662ebb)")
	w("  | andNonZeroOrAllBit       -- `p&action.Privilege != 0 || p&AllPrivileges != 0`")
	w("  | storeAssign              -- NewUser: `ps[clean] = mask` (before fix 06df506)")
	w("  | storeOr                  -- NewUser: `ps[clean] |= mask`")
	w("  | unknown (src : String)")
	w("deriving Repr, DecidableEq")
	w("")

	// ---- privilege constants
	privVal := map[string]uint{}
	names, ok, why := privilegeConsts(authF)
	if ok {
		var items []string
		for i, n := range names {
			privVal[n] = 1 << uint(i)
			items = append(items, fmt.Sprintf("(%s, %d)", leanStr(n), 1<<uint(i)))
		}
		w("def privilegeConsts : List (String × Nat) := [%s]", strings.Join(items, ", "))
	} else {
		w("def privilegeConsts : List (String × Nat) := []")
		problem("Privilege const block not recognised: %s", why)
	}
	for _, n := range []string{"NoPrivileges", "ReadPrivilege", "WritePrivilege", "DeletePrivilege", "AllPrivileges"} {
		lean := strings.ToLower(n[:1]) + n[1:]
		if v, has := privVal[n]; has {
			w("def %s : Nat := %d", lean, v)
		} else {
			w("def %s : Nat := 0", lean)
			problem("constant auth.%s not found", n)
		}
	}
	w("")

	// ---- string constants
	ac, hc := stringConsts(authF), stringConsts(hF)
	emitStr := func(lean string, m map[string]string, goName string) {
		if v, has := m[goName]; has {
			w("def %s : List Char := %s", lean, leanChars(v))
		} else {
			w("def %s : List Char := []", lean)
			problem("string constant %s not found", goName)
		}
	}
	emitStr("databaseRootResource", ac, "databaseRootResource")
	emitStr("apiRootResource", ac, "apiRootResource")
	emitStr("cleanSuffix", ac, "cleanSuffix")
	emitStr("dirtySuffix", ac, "dirtySuffix")
	emitStr("basePath", hc, "BasePath")
	emitStr("basePreviewPath", hc, "BasePreviewPath")
	emitStr("subscriptionUser", hc, "SubscriptionUser")

	// ---- APIResource: `return path.Join(apiRootResource, p)`
	apiOK := false
	if fd := funcDecl(authF, "APIResource", ""); fd != nil && len(fd.Body.List) == 1 {
		apiOK = src(fd.Body.List[0]) == "return path.Join(apiRootResource, p)"
	}
	if !apiOK {
		problem("APIResource is not `return path.Join(apiRootResource, p)`")
	}

	// ---- DatabaseResource: the replacement call, the empty-name branch, the suffix branch, the join
	repOld, repNew, dbShape := "", "", false
	if fd := funcDecl(authF, "DatabaseResource", ""); fd != nil {
		var stmts []string
		for _, s := range fd.Body.List {
			stmts = append(stmts, src(s))
		}
		want := []string{
			`if database == "" { return databaseRootResource }`,
			``, // db := strings.Replace(database, OLD, NEW, -1)
			`if db == database { db += cleanSuffix } else { db += dirtySuffix }`,
			`return path.Join(databaseRootResource, db)`,
		}
		if len(stmts) == len(want) && stmts[0] == want[0] && stmts[2] == want[2] && stmts[3] == want[3] {
			if as, ok := fd.Body.List[1].(*ast.AssignStmt); ok && len(as.Rhs) == 1 && src(as.Lhs[0]) == "db" {
				if call, ok := as.Rhs[0].(*ast.CallExpr); ok && src(call.Fun) == "strings.Replace" && len(call.Args) == 4 &&
					src(call.Args[0]) == "database" && src(call.Args[3]) == "-1" {
					a, okA := call.Args[1].(*ast.BasicLit)
					b, okB := call.Args[2].(*ast.BasicLit)
					if okA && okB && a.Kind == token.STRING && b.Kind == token.STRING {
						repOld, _ = strconv.Unquote(a.Value)
						repNew, _ = strconv.Unquote(b.Value)
						dbShape = true
					}
				}
			}
		}
	}
	if !dbShape {
		problem("DatabaseResource: statement shape not recognised")
	}
	w("def dbReplaceOld : List Char := %s", leanChars(repOld))
	w("def dbReplaceNew : List Char := %s", leanChars(repNew))
	w("")

	// ---- AuthorizeAction expressions
	early, authorized := "", ""
	if fd := funcDecl(authF, "AuthorizeAction", "User"); fd != nil {
		if len(fd.Body.List) > 0 {
			if is, ok := fd.Body.List[0].(*ast.IfStmt); ok && is.Init == nil && is.Else == nil && len(is.Body.List) == 1 && src(is.Body.List[0]) == "return nil" {
				early = src(is.Cond)
			}
		}
		ast.Inspect(fd, func(n ast.Node) bool {
			if as, ok := n.(*ast.AssignStmt); ok && len(as.Lhs) == 1 && src(as.Lhs[0]) == "authorized" && len(as.Rhs) == 1 {
				authorized = src(as.Rhs[0])
			}
			return true
		})
	}
	shape := func(s, want, ctor string) string {
		if s == want {
			return "." + ctor
		}
		return ".unknown " + leanStr(s)
	}
	w("def earlyAllowShape : Shape := %s", shape(early, "action.Privilege == NoPrivileges || u.admin", "noPrivilegesOrAdmin"))
	switch authorized {
	case "p&action.Privilege != 0 || p == AllPrivileges":
		w("def authorizedShape : Shape := .andNonZeroOrEqAll")
	case "p&action.Privilege != 0 || p&AllPrivileges != 0":
		w("def authorizedShape : Shape := .andNonZeroOrAllBit")
	default:
		w("def authorizedShape : Shape := .unknown %s", leanStr(authorized))
	}
	// NewUser: how a cleaned resource's mask is stored, and that the mask is the OR of the listed privileges
	store, maskOr := "", false
	if fd := funcDecl(authF, "NewUser", ""); fd != nil {
		ast.Inspect(fd, func(n ast.Node) bool {
			if as, ok := n.(*ast.AssignStmt); ok && len(as.Lhs) == 1 && len(as.Rhs) == 1 {
				if src(as.Lhs[0]) == "ps[clean]" {
					store = src(as)
				}
				if src(as) == "mask |= p" {
					maskOr = true
				}
			}
			return true
		})
	}
	switch store {
	case "ps[clean] = mask":
		w("def newUserStoreShape : Shape := .storeAssign")
	case "ps[clean] |= mask":
		w("def newUserStoreShape : Shape := .storeOr")
	default:
		w("def newUserStoreShape : Shape := .unknown %s", leanStr(store))
	}
	if !maskOr {
		problem("NewUser: `mask |= p` not found")
	}
	w("")

	// ---- requiredPrivilegeForHTTPMethod
	var cases []string
	tagUpper, defaultIsErr, defaultSrc := false, false, ""
	if fd := funcDecl(hF, "requiredPrivilegeForHTTPMethod", ""); fd != nil && len(fd.Body.List) == 1 {
		if sw, ok := fd.Body.List[0].(*ast.SwitchStmt); ok {
			tagUpper = sw.Init != nil && src(sw.Init) == "m := strings.ToUpper(method)" && sw.Tag != nil && src(sw.Tag) == "m"
			for _, c := range sw.Body.List {
				cc := c.(*ast.CaseClause)
				if cc.List == nil {
					defaultSrc = src(cc)
					if len(cc.Body) == 1 {
						if rs, ok := cc.Body[0].(*ast.ReturnStmt); ok && len(rs.Results) == 2 && src(rs.Results[1]) != "nil" {
							defaultIsErr = true
						}
					}
					continue
				}
				var ms []string
				good := true
				for _, e := range cc.List {
					bl, ok := e.(*ast.BasicLit)
					if !ok || bl.Kind != token.STRING {
						good = false
						break
					}
					v, _ := strconv.Unquote(bl.Value)
					ms = append(ms, leanChars(v))
				}
				priv, hasPriv := uint(0), false
				if good && len(cc.Body) == 1 {
					if rs, ok := cc.Body[0].(*ast.ReturnStmt); ok && len(rs.Results) == 2 && src(rs.Results[1]) == "nil" {
						if se, ok := rs.Results[0].(*ast.SelectorExpr); ok && src(se.X) == "auth" {
							priv, hasPriv = privVal[se.Sel.Name]
						}
					}
				}
				if good && hasPriv {
					cases = append(cases, fmt.Sprintf(".priv [%s] %d", strings.Join(ms, ", "), priv))
				} else {
					cases = append(cases, ".unknown "+leanStr(src(cc)))
				}
			}
		} else {
			cases = append(cases, ".unknown "+leanStr(src(fd.Body)))
		}
	} else {
		cases = append(cases, `.unknown "requiredPrivilegeForHTTPMethod: function not found or not a single switch"`)
	}
	w("def methodCases : List MethodCase := [%s]", strings.Join(cases, ",\n  "))
	if !tagUpper {
		problem("requiredPrivilegeForHTTPMethod: switch tag is not `m := strings.ToUpper(method); m`")
	}
	if !defaultIsErr {
		problem("requiredPrivilegeForHTTPMethod: default clause does not return an error: %s", defaultSrc)
	}
	w("")

	// ---- authenticate: does every clause of `switch creds.Method` that writes an error leave the function?
	// For each clause: (label, ends with return on its own = its last statement is a ReturnStmt)
	var clauses []string
	foundSwitch, defaultReturns, haveDefault := false, false, false
	if fd := funcDecl(hF, "authenticate", ""); fd != nil {
		ast.Inspect(fd, func(n ast.Node) bool {
			sw, ok := n.(*ast.SwitchStmt)
			if !ok || sw.Tag == nil || src(sw.Tag) != "creds.Method" {
				return true
			}
			foundSwitch = true
			for _, c := range sw.Body.List {
				cc := c.(*ast.CaseClause)
				label := "default"
				if cc.List != nil {
					var ls []string
					for _, e := range cc.List {
						ls = append(ls, src(e))
					}
					label = strings.Join(ls, ",")
				}
				endsReturn := false
				if len(cc.Body) > 0 {
					_, endsReturn = cc.Body[len(cc.Body)-1].(*ast.ReturnStmt)
				}
				clauses = append(clauses, fmt.Sprintf("(%s, %v)", leanStr(label), endsReturn))
				if label == "default" {
					defaultReturns, haveDefault = endsReturn, true
				}
			}
			return false
		})
	}
	w("/-- clauses of `switch creds.Method` in authenticate(): (label, its last statement is `return`). -/")
	if !foundSwitch {
		problem("authenticate: `switch creds.Method` not found")
	}
	w("def authClauses : List (String × Bool) := [%s]", strings.Join(clauses, ", "))
	w("/-- `default:` clause present / ends with `return` (when absent, Go falls out of the switch: same as no return). -/")
	w("def authHasDefault : Bool := %v", haveDefault)
	w("def authDefaultReturns : Bool := %v", defaultReturns)
	// the authentication method constants (iota block)
	var methods []string
	for _, d := range hF.Decls {
		gd, ok := d.(*ast.GenDecl)
		if !ok || gd.Tok != token.CONST || len(gd.Specs) == 0 {
			continue
		}
		first := gd.Specs[0].(*ast.ValueSpec)
		if first.Type != nil && src(first.Type) == "AuthenticationMethod" && len(first.Values) == 1 && src(first.Values[0]) == "iota" {
			for _, s := range gd.Specs {
				methods = append(methods, leanStr(s.(*ast.ValueSpec).Names[0].Name))
			}
		}
	}
	w("def authMethods : List String := [%s]", strings.Join(methods, ", "))
	if len(methods) == 0 {
		problem("AuthenticationMethod iota block not found")
	}

	// ---- Handler.ServeHTTP: what chooses the per-method mux, and what of the request is read on the way.
	// FAIL CLOSED: the index of h.methodMux must be a plain variable (or r.Method itself); every write to that variable
	// is listed with its source text, anything that is not a plain assignment is listed as `unknown:…`; every use of the
	// request parameter is listed (`r.Method`, `r` handed on, or whatever else - r.Header, r.URL, r.FormValue …).
	// Theorem gen_routes_on_wire_method demands exactly ["r.Method", "\"GET\""] and ["r.Method", "r"].
	{
		var sources, uses []string
		addTo := func(l *[]string, v string) {
			for _, x := range *l {
				if x == v {
					return
				}
			}
			*l = append(*l, v)
		}
		fd := funcDecl(hF, "ServeHTTP", "*Handler")
		if fd == nil || fd.Type.Params == nil || len(fd.Type.Params.List) != 2 || len(fd.Type.Params.List[1].Names) != 1 {
			problem("Handler.ServeHTTP not found or of an unknown signature")
			sources, uses = []string{"unknown:ServeHTTP"}, []string{"unknown:ServeHTTP"}
		} else {
			rq := fd.Type.Params.List[1].Names[0].Name
			// the variables that index h.methodMux
			idx := map[string]bool{}
			nIndex := 0
			ast.Inspect(fd.Body, func(n ast.Node) bool {
				ie, ok := n.(*ast.IndexExpr)
				if !ok || !strings.HasSuffix(src(ie.X), ".methodMux") {
					return true
				}
				nIndex++
				switch x := ie.Index.(type) {
				case *ast.Ident:
					idx[x.Name] = true
				default:
					if src(ie.Index) == rq+".Method" {
						addTo(&sources, rq+".Method")
					} else {
						addTo(&sources, "unknown:index "+src(ie.Index))
					}
				}
				return true
			})
			if nIndex != 1 {
				addTo(&sources, fmt.Sprintf("unknown:%d uses of methodMux", nIndex))
			}
			// every mention of methodMux in the file besides NewHandler / addRawRoute / ServeHTTP is another way to a mux
			for _, d := range hF.Decls {
				if f2, ok := d.(*ast.FuncDecl); ok && f2.Body != nil && f2.Name.Name != "NewHandler" && f2.Name.Name != "addRawRoute" && f2.Name.Name != "ServeHTTP" {
					// (delRawRoute deregisters a pattern, serveRoutes lists the patterns: they may look at a mux but not serve with it)
					if body := src(f2.Body); strings.Contains(body, "methodMux") && strings.Contains(body, "ServeHTTP") {
						addTo(&sources, "unknown:methodMux used to serve in "+f2.Name.Name)
					}
				}
			}
			ast.Inspect(fd.Body, func(n ast.Node) bool {
				switch x := n.(type) {
				case *ast.AssignStmt:
					for i, l := range x.Lhs {
						id, ok := l.(*ast.Ident)
						if !ok || !idx[id.Name] {
							continue
						}
						if len(x.Lhs) == len(x.Rhs) && (x.Tok == token.ASSIGN || x.Tok == token.DEFINE) {
							addTo(&sources, src(x.Rhs[i]))
						} else {
							addTo(&sources, "unknown:"+src(x))
						}
					}
				case *ast.ValueSpec:
					for i, id := range x.Names {
						if idx[id.Name] {
							if i < len(x.Values) {
								addTo(&sources, src(x.Values[i]))
							} else {
								addTo(&sources, "unknown:"+id.Name+" declared without a value")
							}
						}
					}
				case *ast.IncDecStmt:
					if id, ok := x.X.(*ast.Ident); ok && idx[id.Name] {
						addTo(&sources, "unknown:"+src(x))
					}
				case *ast.UnaryExpr:
					if id, ok := x.X.(*ast.Ident); ok && x.Op == token.AND && idx[id.Name] {
						addTo(&sources, "unknown:"+src(x))
					}
				case *ast.RangeStmt:
					for _, e := range []ast.Expr{x.Key, x.Value} {
						if id, ok := e.(*ast.Ident); ok && idx[id.Name] {
							addTo(&sources, "unknown:range writes "+id.Name)
						}
					}
				}
				return true
			})
			ast.Inspect(fd.Body, func(n ast.Node) bool {
				switch x := n.(type) {
				case *ast.SelectorExpr:
					if id, ok := x.X.(*ast.Ident); ok && id.Name == rq {
						addTo(&uses, rq+"."+x.Sel.Name)
						return false
					}
				case *ast.Ident:
					if x.Name == rq {
						addTo(&uses, rq)
					}
				}
				return true
			})
		}
		var a, b []string
		for _, x := range sources {
			a = append(a, leanStr(x))
		}
		for _, x := range uses {
			b = append(b, leanStr(x))
		}
		w("/-- `Handler.ServeHTTP`: the source texts of everything assigned to the variable that indexes `h.methodMux`. -/")
		w("def serveHTTPMethodSources : List String := [%s]", strings.Join(a, ", "))
		w("/-- `Handler.ServeHTTP`: every way the request parameter is used (field reads, or handed on whole). -/")
		w("def serveHTTPRequestUses : List String := [%s]", strings.Join(b, ", "))
	}

	// ---- the route table of NewHandler and the authentication wrapping of addRawRoute
	emitRoutes(hF, hc, w)

	var ps []string
	for _, p := range problems {
		ps = append(ps, leanStr(p))
	}
	w("/-- Everything the extractor could not recognise (theorem `Kap.Props.C20.gen_recognised` demands `[]`). -/")
	w("def problems : List String := [%s]", strings.Join(ps, ", "))
	w("")
	w("end Kap.C20.Gen")

	out := filepath.Join(leanDir, "Kap", "Gen", "C20.lean")
	if err := os.MkdirAll(filepath.Dir(out), 0o755); err != nil {
		die("%v", err)
	}
	// do not touch the file when nothing changed (keeps lake's build cache warm)
	if old, err := os.ReadFile(out); err == nil && string(old) == o.String() {
		return
	}
	if err := os.WriteFile(out, []byte(o.String()), 0o644); err != nil {
		die("%v", err)
	}
}
