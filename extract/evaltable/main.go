// evaltable regenerates lean/Kap/Gen/C04.lean from the Go SOURCE of tick/stateful/evaluation_funcs.go:
// one `Kap.C04.Entry` per key of the `evaluationFuncs` map (operator × left type × right type), with the
// EvalX method applied to each operand, the control shape (plain / AND short circuit / OR short circuit),
// the zero-divisor guard, the resultContainer field, the Go result expression and the declared returnType.
//
// It recognises a fixed set of syntactic shapes and FAILS CLOSED: anything else becomes
// `Shape.unknown` / `RExp.unknown "<go source>"`, which no lemma covers, so `Kap.Props.C04.table_sound`
// stops checking. It never defaults.
//
// env: VERIF_REPO (default /repo), VERIF_LEAN (default /verif/lean).
package main

import (
	"bytes"
	"fmt"
	"go/ast"
	"go/parser"
	"go/printer"
	"go/token"
	"os"
	"path/filepath"
	"strings"
)

var fset = token.NewFileSet()

func src(n ast.Node) string {
	var b bytes.Buffer
	printer.Fprint(&b, fset, n)
	return strings.Join(strings.Fields(b.String()), " ")
}

func leanStr(s string) string {
	s = strings.ReplaceAll(s, "\\", "\\\\")
	s = strings.ReplaceAll(s, "\"", "\\\"")
	return "\"" + s + "\""
}

var tyNames = map[string]string{
	"TFloat": ".float", "TInt": ".int", "TString": ".string", "TBool": ".bool", "TRegex": ".regex",
	"TTime": ".time", "TDuration": ".duration", "TMissing": ".missing", "InvalidType": ".invalid",
}
var opNames = map[string]string{
	"TokenAnd": ".and", "TokenOr": ".or", "TokenEqual": ".eq", "TokenNotEqual": ".ne", "TokenLess": ".lt",
	"TokenLessEqual": ".le", "TokenGreater": ".gt", "TokenGreaterEqual": ".ge", "TokenRegexEqual": ".reEq",
	"TokenRegexNotEqual": ".reNe", "TokenPlus": ".plus", "TokenMinus": ".minus", "TokenMult": ".mult",
	"TokenDiv": ".div", "TokenMod": ".mod",
}
var methodTy = map[string]string{
	"EvalBool": ".bool", "EvalInt": ".int", "EvalFloat": ".float", "EvalString": ".string",
	"EvalDuration": ".duration", "EvalRegex": ".regex", "EvalTime": ".time", "EvalMissing": ".missing",
}
var fieldTy = map[string]string{
	"BoolValue": ".bool", "Int64Value": ".int", "Float64Value": ".float", "StringValue": ".string", "DurationValue": ".duration",
}
var isField = map[string]string{
	"BoolValue": "IsBoolValue", "Int64Value": "IsInt64Value", "Float64Value": "IsFloat64Value",
	"StringValue": "IsStringValue", "DurationValue": "IsDurationValue",
}
var goOps = map[token.Token]string{
	token.ADD: ".add", token.SUB: ".sub", token.MUL: ".mul", token.QUO: ".quo", token.REM: ".rem",
	token.LSS: ".lt", token.LEQ: ".le", token.GTR: ".gt", token.GEQ: ".ge", token.EQL: ".eq", token.NEQ: ".ne",
	token.LAND: ".land", token.LOR: ".lor",
}

// selector "ast.X" -> X
func astSel(e ast.Expr) (string, bool) {
	s, ok := e.(*ast.SelectorExpr)
	if !ok {
		return "", false
	}
	x, ok := s.X.(*ast.Ident)
	if !ok || x.Name != "ast" {
		return "", false
	}
	return s.Sel.Name, true
}

func rexp(e ast.Expr) string {
	switch x := e.(type) {
	case *ast.ParenExpr:
		return rexp(x.X)
	case *ast.Ident:
		if x.Name == "left" {
			return ".left"
		}
		if x.Name == "right" {
			return ".right"
		}
	case *ast.BinaryExpr:
		if op, ok := goOps[x.Op]; ok {
			return fmt.Sprintf("(.bin %s %s %s)", op, rexp(x.X), rexp(x.Y))
		}
	case *ast.UnaryExpr:
		if x.Op == token.NOT {
			return fmt.Sprintf("(.not %s)", rexp(x.X))
		}
	case *ast.CallExpr:
		if len(x.Args) == 1 {
			switch f := x.Fun.(type) {
			case *ast.Ident:
				if f.Name == "float64" {
					return fmt.Sprintf("(.conv .toFloat %s)", rexp(x.Args[0]))
				}
				if f.Name == "int64" {
					return fmt.Sprintf("(.conv .toInt %s)", rexp(x.Args[0]))
				}
			case *ast.SelectorExpr:
				if p, ok := f.X.(*ast.Ident); ok {
					if p.Name == "time" && f.Sel.Name == "Duration" {
						return fmt.Sprintf("(.conv .toDur %s)", rexp(x.Args[0]))
					}
					if p.Name == "right" && f.Sel.Name == "MatchString" {
						if a, ok := x.Args[0].(*ast.Ident); ok && a.Name == "left" {
							return ".matchRL"
						}
					}
				}
			}
		}
	}
	return "(.unknown " + leanStr(src(e)) + ")"
}

// `if <v>, err = <node>.EvalX(scope, executionState); err != nil { return <rc>, &ErrSide{error: err, <side>: true} }`
func evalStmt(s ast.Stmt, v, node, side string) (string, bool) {
	is, ok := s.(*ast.IfStmt)
	if !ok || is.Else != nil || is.Init == nil {
		return "", false
	}
	as, ok := is.Init.(*ast.AssignStmt)
	if !ok || as.Tok != token.ASSIGN || len(as.Lhs) != 2 || len(as.Rhs) != 1 {
		return "", false
	}
	if l0, ok := as.Lhs[0].(*ast.Ident); !ok || l0.Name != v {
		return "", false
	}
	if l1, ok := as.Lhs[1].(*ast.Ident); !ok || l1.Name != "err" {
		return "", false
	}
	call, ok := as.Rhs[0].(*ast.CallExpr)
	if !ok || len(call.Args) != 2 || src(call.Args[0]) != "scope" || src(call.Args[1]) != "executionState" {
		return "", false
	}
	sel, ok := call.Fun.(*ast.SelectorExpr)
	if !ok || src(sel.X) != node {
		return "", false
	}
	m, ok := methodTy[sel.Sel.Name]
	if !ok {
		return "", false
	}
	if src(is.Cond) != "err != nil" || len(is.Body.List) != 1 {
		return "", false
	}
	ret, ok := is.Body.List[0].(*ast.ReturnStmt)
	if !ok || len(ret.Results) != 2 {
		return "", false
	}
	if src(ret.Results[1]) != "&ErrSide{error: err, "+side+": true}" {
		return "", false
	}
	return m, true
}

type entry struct {
	op, lt, rt, lm, rm, shape, res, rexp, ret string
	zero                                      bool
}

func unknownEntry(op, lt, rt, why string) entry {
	return entry{op: op, lt: lt, rt: rt, lm: ".invalid", rm: ".invalid", shape: ".unknown", res: ".invalid",
		rexp: "(.unknown " + leanStr(why) + ")", ret: ".invalid"}
}

func parseFunc(op, lt, rt string, fl *ast.FuncLit, ret string) entry {
	e := entry{op: op, lt: lt, rt: rt, ret: ret, shape: ".plain"}
	stmts := fl.Body.List
	// leading `var left T`, `var right T`, `var err error`
	i := 0
	decls := []string{}
	for i < len(stmts) {
		d, ok := stmts[i].(*ast.DeclStmt)
		if !ok {
			break
		}
		decls = append(decls, src(d))
		i++
	}
	if len(decls) != 3 || !strings.HasPrefix(decls[0], "var left ") || !strings.HasPrefix(decls[1], "var right ") || decls[2] != "var err error" {
		return unknownEntry(op, lt, rt, "declarations: "+strings.Join(decls, "; "))
	}
	rest := stmts[i:]
	if len(rest) < 3 {
		return unknownEntry(op, lt, rt, "body too short")
	}
	var ok bool
	if e.lm, ok = evalStmt(rest[0], "left", "leftNode", "IsLeft"); !ok {
		return unknownEntry(op, lt, rt, "left evaluation: "+src(rest[0]))
	}
	rest = rest[1:]
	// optional short circuit
	if is, isIf := rest[0].(*ast.IfStmt); isIf && is.Init == nil {
		switch src(is) {
		case "if !left { return boolFalseResultContainer, nil }":
			e.shape = ".andSC"
		case "if left { return boolTrueResultContainer, nil }":
			e.shape = ".orSC"
		default:
			return unknownEntry(op, lt, rt, "statement between the evaluations: "+src(is))
		}
		rest = rest[1:]
	}
	if len(rest) < 2 {
		return unknownEntry(op, lt, rt, "body too short")
	}
	if e.rm, ok = evalStmt(rest[0], "right", "rightNode", "IsRight"); !ok {
		return unknownEntry(op, lt, rt, "right evaluation: "+src(rest[0]))
	}
	rest = rest[1:]
	// optional zero guard
	if is, isIf := rest[0].(*ast.IfStmt); isIf {
		if src(is) == "if right == 0 { return emptyResultContainer, &ErrSide{error: errIntegerDivideByZero, IsRight: true} }" {
			e.zero = true
			rest = rest[1:]
		} else {
			return unknownEntry(op, lt, rt, "statement before the result: "+src(is))
		}
	}
	if len(rest) != 1 {
		return unknownEntry(op, lt, rt, "unexpected statements before the result")
	}
	r, isRet := rest[0].(*ast.ReturnStmt)
	if !isRet || len(r.Results) != 2 || src(r.Results[1]) != "nil" {
		return unknownEntry(op, lt, rt, "result: "+src(rest[0]))
	}
	cl, isCl := r.Results[0].(*ast.CompositeLit)
	if !isCl || src(cl.Type) != "resultContainer" || len(cl.Elts) != 2 {
		return unknownEntry(op, lt, rt, "result: "+src(rest[0]))
	}
	kv0, ok0 := cl.Elts[0].(*ast.KeyValueExpr)
	kv1, ok1 := cl.Elts[1].(*ast.KeyValueExpr)
	if !ok0 || !ok1 {
		return unknownEntry(op, lt, rt, "result: "+src(rest[0]))
	}
	field := src(kv0.Key)
	res, okf := fieldTy[field]
	if !okf || src(kv1.Key) != isField[field] || src(kv1.Value) != "true" {
		return unknownEntry(op, lt, rt, "result fields: "+src(rest[0]))
	}
	e.res = res
	e.rexp = rexp(kv0.Value)
	return e
}

// builtinNames lists the string keys of every assignment `statelessFuncs[<key>] = …` / `funcs[<key>] = …` in
// functions.go. A key that is not a string literal is emitted as "<non-literal: …>", which no classification
// list contains (fail closed).
func builtinNames(path string) []string {
	f, err := parser.ParseFile(fset, path, nil, 0)
	if err != nil {
		fmt.Fprintln(os.Stderr, "evaltable:", err)
		os.Exit(1)
	}
	var names []string
	ast.Inspect(f, func(n ast.Node) bool {
		as, ok := n.(*ast.AssignStmt)
		if !ok || len(as.Lhs) != 1 {
			return true
		}
		ix, ok := as.Lhs[0].(*ast.IndexExpr)
		if !ok {
			return true
		}
		m, ok := ix.X.(*ast.Ident)
		if !ok || (m.Name != "statelessFuncs" && m.Name != "funcs") {
			return true
		}
		if lit, ok := ix.Index.(*ast.BasicLit); ok && lit.Kind == token.STRING {
			names = append(names, strings.Trim(lit.Value, "\"`"))
		} else if id, ok := ix.Index.(*ast.Ident); ok && m.Name == "funcs" && id.Name == "n" {
			// `for n, f := range statelessFuncs { funcs[n] = f }`: the copy loop of NewFunctions, no new name
		} else {
			names = append(names, "<non-literal: "+src(ix.Index)+">")
		}
		return true
	})
	if len(names) == 0 {
		names = append(names, "<no builtin registrations found>")
	}
	return names
}

func main() {
	repo := os.Getenv("VERIF_REPO")
	if repo == "" {
		repo = "/repo"
	}
	lean := os.Getenv("VERIF_LEAN")
	if lean == "" {
		lean = "/verif/lean"
	}
	path := filepath.Join(repo, "tick/stateful/evaluation_funcs.go")
	f, err := parser.ParseFile(fset, path, nil, 0)
	if err != nil {
		fmt.Fprintln(os.Stderr, "evaltable:", err)
		os.Exit(1)
	}
	var table *ast.CompositeLit
	for _, d := range f.Decls {
		gd, ok := d.(*ast.GenDecl)
		if !ok || gd.Tok != token.VAR {
			continue
		}
		for _, sp := range gd.Specs {
			vs := sp.(*ast.ValueSpec)
			for i, n := range vs.Names {
				if n.Name == "evaluationFuncs" && i < len(vs.Values) {
					if cl, ok := vs.Values[i].(*ast.CompositeLit); ok {
						table = cl
					}
				}
			}
		}
	}
	if table == nil {
		fmt.Fprintln(os.Stderr, "evaltable: var evaluationFuncs = map[...]{...} not found in", path)
		os.Exit(1)
	}
	var entries []entry
	for _, el := range table.Elts {
		kv, ok := el.(*ast.KeyValueExpr)
		if !ok {
			entries = append(entries, unknownEntry(".and", ".invalid", ".invalid", "element: "+src(el)))
			continue
		}
		// key
		op, lt, rt := "", "", ""
		if kc, ok := kv.Key.(*ast.CompositeLit); ok && len(kc.Elts) == 3 {
			for _, ke := range kc.Elts {
				kkv, ok := ke.(*ast.KeyValueExpr)
				if !ok {
					continue
				}
				name, _ := astSel(kkv.Value)
				switch src(kkv.Key) {
				case "operator":
					op = opNames[name]
				case "leftType":
					lt = tyNames[name]
				case "rightType":
					rt = tyNames[name]
				}
			}
		}
		if op == "" || lt == "" || rt == "" {
			entries = append(entries, unknownEntry(".and", ".invalid", ".invalid", "key: "+src(kv.Key)))
			continue
		}
		// value: {f: func…, returnType: ast.T}
		vc, ok := kv.Value.(*ast.CompositeLit)
		var fl *ast.FuncLit
		ret := ""
		if ok && len(vc.Elts) == 2 {
			for _, ve := range vc.Elts {
				vkv, ok := ve.(*ast.KeyValueExpr)
				if !ok {
					continue
				}
				switch src(vkv.Key) {
				case "f":
					fl, _ = vkv.Value.(*ast.FuncLit)
				case "returnType":
					name, _ := astSel(vkv.Value)
					ret = tyNames[name]
				}
			}
		}
		if fl == nil || ret == "" {
			entries = append(entries, unknownEntry(op, lt, rt, "value: "+src(kv.Value)[:60]))
			continue
		}
		entries = append(entries, parseFunc(op, lt, rt, fl, ret))
	}

	names := builtinNames(filepath.Join(repo, "tick/stateful/functions.go"))

	var b strings.Builder
	b.WriteString("-- GENERATED by /verif/extract/evaltable from tick/stateful/evaluation_funcs.go and functions.go — do not edit.\n")
	b.WriteString("import Kap.Model.C04Base\nnamespace Kap.C04.Gen\nopen Kap.C04\n\n")
	fmt.Fprintf(&b, "/-- the `evaluationFuncs` map, %d keys, in source order -/\ndef table : List Entry := [\n", len(entries))
	for i, e := range entries {
		sep := ","
		if i == len(entries)-1 {
			sep = ""
		}
		fmt.Fprintf(&b, "  { op := %s, lt := %s, rt := %s, lm := %s, rm := %s, shape := %s, zeroGuard := %v, res := %s, rexp := %s, ret := %s }%s\n",
			e.op, e.lt, e.rt, e.lm, e.rm, e.shape, e.zero, e.res, e.rexp, e.ret, sep)
	}
	b.WriteString("]\n\n")
	fmt.Fprintf(&b, "/-- every name registered in `statelessFuncs[...]` / `funcs[...]` of functions.go, %d names, in source order -/\ndef builtinNames : List String := [", len(names))
	for i, n := range names {
		if i > 0 {
			b.WriteString(", ")
		}
		b.WriteString(leanStr(n))
	}
	b.WriteString("]\n\nend Kap.C04.Gen\n")
	out := filepath.Join(lean, "Kap/Gen/C04.lean")
	os.MkdirAll(filepath.Dir(out), 0o755)
	old, _ := os.ReadFile(out)
	if string(old) != b.String() { // keep the mtime when nothing changed (no needless rebuild)
		if err := os.WriteFile(out, []byte(b.String()), 0o644); err != nil {
			fmt.Fprintln(os.Stderr, "evaltable:", err)
			os.Exit(1)
		}
	}
	fmt.Printf("evaltable: %d entries -> %s\n", len(entries), out)
}
