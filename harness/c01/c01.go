// Package c01 is the harness for property C01 (alert level / recovery state machine).
//
// It drives the REAL AlertNode of /repo through a real TaskMaster + alert service:
//   - stream form:  stream|from().groupBy('host')|alert()...@sink()          fed through TaskMaster.WritePoints
//   - batch form:   batch|query(..).groupBy('host')|alert()...@bsink()       fed through TaskMaster.BatchCollectors
//     (the route a batch replay takes; no InfluxDB involved)
//
// The TICKscript is generated from the `cfg` line of a case. Level predicates are plain boolean fields
// (`.warn(lambda: "w")`, `.warnReset(lambda: "rw")`), so a case line controls the outcome of every predicate of
// every point directly: `1` true, `0` false, `m` field missing (evaluation error), `x` field of the wrong type
// (evaluation error). Observed: the events a recording alert.Handler registered on the alert's topic receives
// (ID, level, time, duration) and the data forwarded below the alert node (levelField, durationField, idField).
package c01

import (
	"fmt"
	"os"
	"strconv"
	"strings"
	"time"

	imodels "github.com/influxdata/influxdb/models"
	"github.com/influxdata/kapacitor"
	"github.com/influxdata/kapacitor/alert"
	"github.com/influxdata/kapacitor/edge"
	"github.com/influxdata/kapacitor/models"

	"verifharness/kit"
)

// ---- case configuration ------------------------------------------------------------------------

type cfg struct {
	form   string // "s" stream, "b" batch, "doc" the documented example (stream, thresholds on "value")
	lv     string // 3 chars 0/1: info warn crit expression configured
	rs     string // 3 chars 0/1: infoReset warnReset critReset configured
	sco    bool
	scoDur int64 // microseconds (0 = none)
	noRec  bool
	all    bool
	flap   bool
	lo, hi float64
	hist   int64 // -1: property not set (pipeline default)
	win    int   // form w: window().periodCount(win).everyCount(win)
}

func parseCfg(t []string) (cfg, error) {
	c := cfg{form: "s", lv: "111", rs: "000", hist: -1, win: 2}
	for _, kv := range t[1:] {
		i := strings.IndexByte(kv, '=')
		if i < 0 {
			return c, fmt.Errorf("bad cfg token %q", kv)
		}
		k, v := kv[:i], kv[i+1:]
		switch k {
		case "form":
			c.form = v
		case "lv":
			c.lv = v
		case "rs":
			c.rs = v
		case "sco":
			c.sco = v == "1"
		case "scodur":
			c.scoDur, _ = strconv.ParseInt(v, 10, 64)
		case "norec":
			c.noRec = v == "1"
		case "all":
			c.all = v == "1"
		case "flap":
			c.flap = v == "1"
		case "lo":
			c.lo = bitsF(v)
		case "hi":
			c.hi = bitsF(v)
		case "hist":
			c.hist, _ = strconv.ParseInt(v, 10, 64)
		case "win":
			c.win, _ = strconv.Atoi(v)
			if c.win < 1 {
				c.win = 1
			}
		default:
			return c, fmt.Errorf("unknown cfg key %q", k)
		}
	}
	if len(c.lv) != 3 || len(c.rs) != 3 {
		return c, fmt.Errorf("lv/rs need 3 digits")
	}
	return c, nil
}

func bitsF(h string) float64 {
	u, _ := strconv.ParseUint(h, 16, 64)
	return mathFloat64frombits(u)
}

func fnum(f float64) string {
	s := strconv.FormatFloat(f, 'f', -1, 64)
	if !strings.Contains(s, ".") {
		s += ".0"
	}
	return s
}

var lvNames = []string{"info", "warn", "crit"}
var lvFields = []string{"i", "w", "c"}
var rsFields = []string{"ri", "rw", "rc"}

// alertProps renders the property chain of the alert node from the configuration.
func (c cfg) alertProps(topic string) string {
	var b strings.Builder
	if c.form == "doc" {
		// pipeline/alert.go:100-127, verbatim thresholds
		b.WriteString(`.info(lambda: "value" > 60).infoReset(lambda: "value" < 50)`)
		b.WriteString(`.warn(lambda: "value" > 70).warnReset(lambda: "value" < 60)`)
		b.WriteString(`.crit(lambda: "value" > 80).critReset(lambda: "value" < 70)`)
	} else {
		for k := 0; k < 3; k++ {
			if c.lv[k] == '1' {
				fmt.Fprintf(&b, ".%s(lambda: \"%s\")", lvNames[k], lvFields[k])
			}
			if c.rs[k] == '1' {
				fmt.Fprintf(&b, ".%sReset(lambda: \"%s\")", lvNames[k], rsFields[k])
			}
		}
	}
	fmt.Fprintf(&b, ".topic('%s').levelField('lvl').durationField('dur').idField('aid').messageField('msg').levelTag('ltag').idTag('itag')", topic)
	if c.sco {
		if c.scoDur != 0 {
			fmt.Fprintf(&b, ".stateChangesOnly(%du)", c.scoDur)
		} else {
			b.WriteString(".stateChangesOnly()")
		}
	}
	if c.noRec {
		b.WriteString(".noRecoveries()")
	}
	if c.all {
		b.WriteString(".all()")
	}
	if c.flap {
		fmt.Fprintf(&b, ".flapping(%s, %s)", fnum(c.lo), fnum(c.hi))
	}
	if c.hist >= 0 {
		fmt.Fprintf(&b, ".history(%d)", c.hist)
	}
	return b.String()
}

func (c cfg) script(topic string) (string, kapacitor.TaskType) {
	if c.form == "w" {
		// batches made by a real window node; the first @bsink() records what the alert node is fed
		return fmt.Sprintf("stream|from().measurement('m').groupBy('host')|window().periodCount(%d).everyCount(%d)@bsink()|alert()", c.win, c.win) +
			c.alertProps(topic) + "@bsink()", kapacitor.StreamTask
	}
	if c.form == "b" {
		return "batch|query('SELECT * FROM \"db\".\"rp\".\"m\"').period(1s).every(1s).groupBy('host')|alert()" + c.alertProps(topic) + "@bsink()", kapacitor.BatchTask
	}
	return "stream|from().measurement('m').groupBy('host')|alert()" + c.alertProps(topic) + "@sink()", kapacitor.StreamTask
}

// ---- executing one case on the real code ---------------------------------------------------------

var dbrps = []kapacitor.DBRP{{Database: "db", RetentionPolicy: "rp"}}

type runner struct {
	tm     *kit.TM
	used   int
	caseNo int
}

func (r *runner) get() (*kit.TM, error) {
	if r.tm != nil && r.used >= 40 {
		r.tm.Close()
		r.tm = nil
	}
	if r.tm == nil {
		tm, err := kit.NewTM(kit.TMOpts{})
		if err != nil {
			return nil, err
		}
		r.tm, r.used = tm, 0
	}
	r.used++
	return r.tm, nil
}

func (r *runner) close() {
	if r.tm != nil {
		r.tm.Close()
		r.tm = nil
	}
}

func fieldsOf(vec string) (models.Fields, error) {
	if len(vec) != 6 {
		return nil, fmt.Errorf("condition vector needs 6 symbols: %q", vec)
	}
	f := models.Fields{"keep": int64(1)}
	names := append(append([]string{}, lvFields...), rsFields...)
	for k, n := range names {
		switch vec[k] {
		case '1':
			f[n] = true
		case '0':
			f[n] = false
		case 'm': // missing
		case 'x':
			f[n] = "notabool"
		default:
			return nil, fmt.Errorf("bad symbol in %q", vec)
		}
	}
	return f, nil
}

// vecOf is the inverse of fieldsOf: the condition vector of a recorded point.
func vecOf(f models.Fields) string {
	names := append(append([]string{}, lvFields...), rsFields...)
	b := make([]byte, len(names))
	for k, n := range names {
		switch v := f[n].(type) {
		case bool:
			if v {
				b[k] = '1'
			} else {
				b[k] = '0'
			}
		case nil:
			b[k] = 'm'
		default:
			b[k] = 'x'
		}
	}
	return string(b)
}

func lvlNum(s string) string {
	switch s {
	case "OK":
		return "0"
	case "INFO":
		return "1"
	case "WARNING":
		return "2"
	case "CRITICAL":
		return "3"
	}
	return "bad"
}

// escC is kit.Esc with ':' escaped too (':' separates the parts of an observation token).
func escC(s string) string { return strings.ReplaceAll(kit.Esc(s), ":", "%3A") }

// fwdFields renders what the alert node forwarded for one point: the ID of the data (measurement:group), the values of
// idField, levelField, the time, durationField, messageField, levelTag, idTag and the number of points of the message.
func fwdFields(id string, t int64, f models.Fields, tags models.Tags, n int) string {
	lv, _ := f["lvl"].(string)
	aid, _ := f["aid"].(string)
	msg, _ := f["msg"].(string)
	d, ok := f["dur"].(int64)
	ds := "bad"
	if ok {
		ds = strconv.FormatInt(d, 10)
	}
	return fmt.Sprintf("%s:%s:%s:%d:%s:%s:%s:%s:%d", escC(id), escC(aid), escC(lv), t, ds, escC(msg), escC(tags["ltag"]), escC(tags["itag"]), n)
}

func list(xs []string) string {
	if len(xs) == 0 {
		return "-"
	}
	return strings.Join(xs, ",")
}

func stripObs(l string) string {
	if i := strings.Index(l, " => "); i >= 0 {
		return l[:i]
	}
	return l
}

// execCase runs the op lines of one case and returns them followed by the observation lines.
func (r *runner) execCase(ops []string) (out []string, err error) {
	c := cfg{form: "s", lv: "111", rs: "000", hist: -1, win: 2}
	cb := c
	extra := map[string]string{}
	var body [][]string
	for _, raw := range ops {
		l := stripObs(raw)
		t := strings.Fields(l)
		if len(t) == 0 {
			continue
		}
		switch t[0] {
		case "cfg", "cfgb":
			// inh= / catb= belong to form i only
			var keep []string
			for _, kv := range t {
				if strings.HasPrefix(kv, "inh=") || strings.HasPrefix(kv, "catb=") {
					extra[kv[:strings.IndexByte(kv, '=')]] = kv[strings.IndexByte(kv, '=')+1:]
				} else {
					keep = append(keep, kv)
				}
			}
			if t[0] == "cfg" {
				c, err = parseCfg(keep)
			} else {
				cb, err = parseCfg(keep)
			}
			if err != nil {
				return nil, err
			}
			out = append(out, l)
		case "pa", "pb":
			if len(t) != 4 {
				return nil, fmt.Errorf("bad op %q", l)
			}
			body = append(body, t)
			out = append(out, l)
		case "eventsa", "eventsb":
		case "p", "b", "v", "restart":
			body = append(body, t)
			out = append(out, l)
		case "events", "fwd", "wb":
			// observation lines (and derived window batches) of a previous run: recomputed below
		default:
			return nil, fmt.Errorf("unknown op %q", l)
		}
	}
	if c.form == "i" {
		for _, t := range body {
			if t[0] != "pa" && t[0] != "pb" {
				return nil, fmt.Errorf("form i takes pa/pb ops only")
			}
		}
		if c.lv == "000" || cb.lv == "000" {
			return nil, fmt.Errorf("form i needs a level expression on both alerts (markers)")
		}
		return r.execInhibit(c, extra, cb, body, out)
	}
	tm, err := r.get()
	if err != nil {
		return nil, err
	}
	r.caseNo++
	topic := fmt.Sprintf("top%d", r.caseNo)
	rec := &kit.EventRec{}
	tm.Alert.RegisterAnonHandler(topic, rec)
	script, tt := c.script(topic)

	// Every run of the task gets its own child TaskMaster sharing the services (alert service, UDF sink) of the
	// backbone, exactly as kapacitor does for a replay: Drain() ends a TaskMaster's life, and it is the only public
	// way to know that everything written has been routed.
	var sinkKeys []string
	gen := 0
	var et *kapacitor.ExecutingTask
	var child *kapacitor.TaskMaster
	var taskID string
	start := func() error {
		gen++
		taskID = fmt.Sprintf("c%dg%d", r.caseNo, gen)
		child = tm.TM.New("tm-" + taskID)
		if err := child.Open(); err != nil {
			return err
		}
		task, err := child.NewTask(taskID, script, tt, dbrps, 0, nil)
		if err != nil {
			child.Close()
			return fmt.Errorf("NewTask: %v\n%s", err, script)
		}
		et, err = child.StartTask(task)
		if err != nil {
			child.Close()
			return fmt.Errorf("StartTask: %v", err)
		}
		return nil
	}
	stop := func() error {
		if tt == kapacitor.BatchTask {
			for _, bc := range child.BatchCollectors(taskID) {
				bc.Close()
			}
		} else {
			// closes the task's fork edge after everything written so far has been routed
			child.Drain()
		}
		werr := et.Wait()
		child.DeleteTask(taskID)
		child.Close()
		for _, k := range tm.Rec.Keys() {
			if strings.HasPrefix(k, taskID+"/") {
				sinkKeys = append(sinkKeys, k)
			}
		}
		return werr
	}
	fail := func(err error) ([]string, error) {
		stop()
		tm.Alert.DeregisterAnonHandler(topic, rec)
		tm.Alert.DeleteTopic(topic)
		return nil, err
	}
	if err := start(); err != nil {
		return nil, err
	}
	for _, t := range body {
		switch t[0] {
		case "p", "v": // p <gid> <t> <vec>   |   v <gid> <t> <value>
			if tt != kapacitor.StreamTask {
				return fail(fmt.Errorf("point op in a batch case"))
			}
			gid, _ := kit.Unesc(t[1])
			ts, _ := strconv.ParseInt(t[2], 10, 64)
			var f models.Fields
			if t[0] == "v" {
				v, _ := strconv.ParseInt(t[3], 10, 64)
				f = models.Fields{"value": v}
			} else if f, err = fieldsOf(t[3]); err != nil {
				return fail(err)
			}
			pt, err := imodels.NewPoint("m", imodels.NewTags(map[string]string{"host": gid}), imodels.Fields(f), time.Unix(0, ts).UTC())
			if err != nil {
				return fail(err)
			}
			if err := child.WritePoints("db", "rp", imodels.ConsistencyLevelAll, []imodels.Point{pt}); err != nil {
				return fail(err)
			}
		case "b": // b <gid> <tmax> <t:vec,t:vec|->
			if tt != kapacitor.BatchTask {
				return fail(fmt.Errorf("batch op in a stream case"))
			}
			gid, _ := kit.Unesc(t[1])
			tmax, _ := strconv.ParseInt(t[2], 10, 64)
			var pts []edge.BatchPointMessage
			if t[3] != "-" {
				for _, ps := range strings.Split(t[3], ",") {
					i := strings.IndexByte(ps, ':')
					if i < 0 {
						return fail(fmt.Errorf("bad batch point %q", ps))
					}
					ts, _ := strconv.ParseInt(ps[:i], 10, 64)
					f, err := fieldsOf(ps[i+1:])
					if err != nil {
						return fail(err)
					}
					pts = append(pts, edge.NewBatchPointMessage(f, models.Tags{"host": gid}, time.Unix(0, ts).UTC()))
				}
			}
			begin := edge.NewBeginBatchMessage("m", models.Tags{"host": gid}, false, time.Unix(0, tmax).UTC(), len(pts))
			bb := edge.NewBufferedBatchMessage(begin, pts, edge.NewEndBatchMessage())
			cs := child.BatchCollectors(taskID)
			if len(cs) != 1 {
				return fail(fmt.Errorf("expected one batch collector, got %d", len(cs)))
			}
			if err := cs[0].CollectBatch(bb); err != nil {
				return fail(err)
			}
		case "restart":
			// stop the task (all input processed) and start it again: per-ID state is restored from the topic
			if c.form == "w" {
				return fail(fmt.Errorf("restart is not supported in form w"))
			}
			if err := stop(); err != nil {
				return fail(fmt.Errorf("task failed: %v", err))
			}
			if err := start(); err != nil {
				return fail(err)
			}
		}
	}
	if err := stop(); err != nil {
		return nil, fmt.Errorf("task failed: %v", err)
	}
	// Deregistering closes the handler's queue, which drains it: everything collected has been handed over.
	tm.Alert.DeregisterAnonHandler(topic, rec)
	tm.Alert.DeleteTopic(topic)

	if c.form == "w" {
		// sinkKeys = [<task>/bsinkA (under the window), <task>/bsinkB (under the alert)], sorted
		if len(sinkKeys) > 2 {
			return nil, fmt.Errorf("form w: unexpected sinks %v", sinkKeys)
		}
		if len(sinkKeys) >= 1 {
			for _, m := range tm.Rec.Get(sinkKeys[0]) {
				bb, ok := m.(edge.BufferedBatchMessage)
				if !ok {
					continue
				}
				var pts []string
				for _, bp := range bb.Points() {
					pts = append(pts, fmt.Sprintf("%d:%s", bp.Time().UnixNano(), vecOf(bp.Fields())))
				}
				out = append(out, fmt.Sprintf("wb %s %d %s", kit.Esc(bb.Tags()["host"]), bb.Time().UnixNano(), list(pts)))
			}
			sinkKeys = sinkKeys[1:]
		}
	}
	var evs []string
	for _, e := range rec.Get() {
		evs = append(evs, fmt.Sprintf("%s:%d:%d:%d", kit.Esc(e.State.ID), int(e.State.Level), e.State.Time.UnixNano(), int64(e.State.Duration)))
	}
	out = append(out, "events => "+list(evs))

	var fw []string
	for _, k := range sinkKeys {
		for _, m := range tm.Rec.Get(k) {
			switch x := m.(type) {
			case edge.PointMessage:
				id := "m:" + string(x.GroupID())
				fw = append(fw, fwdFields(id, x.Time().UnixNano(), x.Fields(), x.Tags(), 1))
			case edge.BufferedBatchMessage:
				// every point of a forwarded batch, and the batch's own tags, must carry the same event data.
				// (The tags of a batch ARE its group: levelTag/idTag re-group the forwarded batch by design of
				// beginBatchMessage.SetTags, so the data is identified by its host tag, not by GroupID.)
				id := "m:host=" + x.Tags()["host"]
				first := fwdFields(id, x.Time().UnixNano(), models.Fields{}, x.Tags(), len(x.Points()))
				for i, bp := range x.Points() {
					s := fwdFields(id, x.Time().UnixNano(), bp.Fields(), bp.Tags(), len(x.Points()))
					if i == 0 {
						bt := fwdFields(id, x.Time().UnixNano(), bp.Fields(), x.Tags(), len(x.Points()))
						if bt != s {
							first = escC(id) + ":inconsistent-batch-tags"
							break
						}
						first = s
					} else if s != first {
						first = escC(id) + ":inconsistent-points"
						break
					}
				}
				fw = append(fw, first)
			}
		}
	}
	out = append(out, "fwd => "+list(fw))
	return out, nil
}

// ---- plumbing ------------------------------------------------------------------------------------

func emit(out *kit.Out, id string, lines []string) {
	out.Line("case", id)
	for _, l := range lines {
		out.Line(l)
	}
	out.Line("end")
	out.Flush()
}

// Run: `vh-c01 -seed S -n N [-tier thorough]` generates; `vh-c01 -ops file` re-executes the cases of a file.
func Run(args []string) int {
	f := kit.ParseFlags(args)
	out := kit.NewOut()
	defer out.Flush()
	r := &runner{}
	defer r.close()
	run := func(id string, ops []string) bool {
		lines, err := r.execCase(ops)
		if err != nil {
			fmt.Fprintf(os.Stderr, "case %s: %v\n", id, err)
			return false
		}
		emit(out, id, lines)
		return true
	}
	if f.Ops != "" {
		lines, err := kit.ReadLines(f.Ops)
		if err != nil {
			fmt.Fprintln(os.Stderr, err)
			return 2
		}
		var cur []string
		id := ""
		for _, l := range lines {
			t := strings.Fields(l)
			switch {
			case len(t) == 2 && t[0] == "case":
				id, cur = t[1], nil
			case len(t) == 1 && t[0] == "end":
				if !run(id, cur) {
					return 2
				}
			default:
				cur = append(cur, l)
			}
		}
		return 0
	}
	rnd := kit.NewRand(f.Seed)
	for i := 0; i < f.N; i++ {
		if !run(fmt.Sprintf("g%d", i), genCase(rnd.Fork(), i)) {
			return 2
		}
	}
	slices, _ := strconv.Atoi(f.Extra["slices"])
	if slices < 1 {
		slices = 1
	}
	if !exhaustive(run, f.Tier, int(f.Seed%uint64(slices)), slices) {
		return 2
	}
	return 0
}

var _ = alert.OK
