// Package c01 is the harness for property C01 (runs the real kapacitor code, prints op lines).
package c01

import (
	"fmt"
	"os"
)

// Run is replaced by the property's harness.
func Run(args []string) int {
	fmt.Fprintln(os.Stderr, "c01: harness not implemented yet")
	return 3
}
