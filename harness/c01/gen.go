package c01

import (
	"fmt"
	"math"
	"strings"

	"verifharness/kit"
)

func mathFloat64frombits(u uint64) float64 { return math.Float64frombits(u) }

// percentChangeValues lists the values alertState.percentChange can take for a ring of n slots when exactly the
// comparisons in `mask` see a change (bit i = loop iteration i); used to put flapping thresholds ON a reachable
// value (boundary of `p > high` / `p < low`). The formula is repeated here only to aim the generator; what the
// code does with the threshold is judged by the driver.
func percentChangeValue(n int, mask uint) float64 {
	const maxWeight, weightDiff = 1.2, 1.5
	changes := 0.0
	weight := maxWeight / weightDiff
	step := (maxWeight - weight) / float64(n-1)
	for i := 0; i < n-1; i++ {
		if mask&(1<<uint(i)) != 0 {
			changes += weight
		}
		weight += step
	}
	return changes / float64(n-1)
}

var gids = []string{"a", "b", "c c", "é=1"}

// vecFor builds a condition vector in which `lvl` is the highest level whose predicate holds (0 = none holds);
// lower levels and the resets are random; with probability errP a symbol becomes an evaluation error.
func vecFor(r *kit.Rand, lvl int, errP int) string {
	b := []byte("000000")
	for k := 1; k <= 3; k++ {
		switch {
		case k == lvl:
			b[k-1] = '1'
		case k < lvl:
			b[k-1] = "01"[r.Intn(2)]
		default:
			b[k-1] = '0'
			if r.Chance(errP, 100) {
				b[k-1] = "mx"[r.Intn(2)] // an erroring predicate counts as not matching
			}
		}
	}
	for k := 3; k < 6; k++ {
		b[k] = "01"[r.Intn(2)]
		if r.Chance(errP, 100) {
			b[k] = "mx"[r.Intn(2)]
		}
	}
	return string(b)
}

func randVec(r *kit.Rand) string {
	b := make([]byte, 6)
	for k := range b {
		switch x := r.Intn(100); {
		case x < 40:
			b[k] = '1'
		case x < 88:
			b[k] = '0'
		case x < 95:
			b[k] = 'm'
		default:
			b[k] = 'x'
		}
	}
	return string(b)
}

func bits3(r *kit.Rand, pOne int) string {
	b := make([]byte, 3)
	for k := range b {
		b[k] = '0'
		if r.Chance(pOne, 100) {
			b[k] = '1'
		}
	}
	return string(b)
}

// genInhibit: the inhibition world (form i): alert A inhibits category x per host, alert B is in category x (or y);
// A walks in and out of OK (with noRecoveries / stateChangesOnly variants), B is mostly not OK; points interleaved.
func genInhibit(r *kit.Rand) []string {
	one := func(allowNoRec bool) string {
		lv := bits3(r, 70)
		if lv == "000" {
			lv = "010"
		}
		sco := r.Chance(1, 2)
		scoDur := 0
		if sco && r.Chance(1, 2) {
			scoDur = kit.Pick(r, []int{1, 5})
		}
		noRec := allowNoRec && r.Chance(1, 2)
		hist := kit.Pick(r, []int{-1, 0, 2, 3, 21})
		return fmt.Sprintf("lv=%s rs=%s sco=%d scodur=%d norec=%d all=0 flap=0 lo=%s hi=%s hist=%d",
			lv, bits3(r, 30), b2i(sco), scoDur, b2i(noRec), kit.F64(0.25), kit.F64(0.5), hist)
	}
	inh := "host"
	if r.Chance(1, 4) {
		inh = "host+dc"
	}
	catb := "x"
	if r.Chance(1, 6) {
		catb = "y"
	}
	ops := []string{"cfg form=i " + one(true) + " inh=" + inh + " catb=" + catb, "cfgb " + one(r.Chance(1, 3))}
	hosts := []string{"a", "b", "c c"}[:1+r.Intn(3)]
	tm := int64(1_000_000_000_000)
	curA := map[string]int{}
	n := 8 + r.Intn(30)
	for k := 0; k < n; k++ {
		h := kit.Pick(r, hosts)
		tm += int64(kit.Pick(r, []int{1, 1, 500, 1000, 2500, 5000}))
		if r.Chance(2, 5) {
			// A: toggle between OK and not OK often, sometimes stay, sometimes another non-OK level
			tgt := 0
			switch x := r.Intn(10); {
			case x < 4:
				if curA[h] == 0 {
					tgt = 1 + r.Intn(3)
				}
			case x < 6:
				tgt = curA[h]
			default:
				tgt = r.Intn(4)
			}
			curA[h] = tgt
			ops = append(ops, fmt.Sprintf("pa %s %d %s", kit.Esc(h), tm, vecFor(r, tgt, 8)))
		} else {
			tgt := 1 + r.Intn(3)
			if r.Chance(1, 4) {
				tgt = 0
			}
			ops = append(ops, fmt.Sprintf("pb %s %d %s", kit.Esc(h), tm, vecFor(r, tgt, 8)))
		}
	}
	return ops
}

// genCase produces the op lines (without observations) of one generated case.
func genCase(r *kit.Rand, i int) []string {
	if i%7 == 3 {
		return genInhibit(r)
	}
	form := "s"
	if i%3 == 1 {
		form = "b"
	}
	if i%6 == 5 {
		form = "w" // stream -> window(count) -> alert: batches made by a real window node
	}
	win := 1 + r.Intn(3)
	lv := bits3(r, 80)
	rs := bits3(r, 50)
	if r.Chance(1, 10) {
		lv = "111"
		rs = "111"
	}
	sco := r.Chance(1, 2)
	var scoDur int64
	if sco && r.Chance(2, 3) {
		scoDur = int64(kit.Pick(r, []int{1, 2, 5, 10, 1000}))
	}
	noRec := r.Chance(1, 4)
	all := form != "s" && r.Chance(1, 3)
	if form == "s" && r.Chance(1, 20) {
		all = true // all() on a stream alert: documented as having no effect
	}
	hist := int64(-1)
	if r.Chance(1, 2) {
		hist = int64(kit.Pick(r, []int{0, 1, 2, 3, 4, 5, 21}))
	}
	flap := r.Chance(1, 4)
	lo, hi := 0.25, 0.5
	if flap {
		n := int(hist)
		if hist < 0 {
			n = 21
		}
		if n < 2 {
			n = 2
		}
		if hist < 0 && r.Chance(1, 2) {
			hist = int64(kit.Pick(r, []int{2, 3, 4, 5}))
			n = int(hist)
		}
		switch r.Intn(3) {
		case 0:
			lo, hi = kit.Pick(r, []float64{0.1, 0.25, 0.3, 0.0}), kit.Pick(r, []float64{0.3, 0.5, 0.7, 0.79, 0.9})
		default:
			// thresholds exactly on reachable values of percentChange
			m := n - 1
			if m > 6 {
				m = 6
			}
			hi = percentChangeValue(n, uint(1+r.Intn((1<<uint(m))-1)))
			lo = percentChangeValue(n, uint(r.Intn(1<<uint(m))))
			if lo > hi && r.Chance(3, 4) {
				lo, hi = hi, lo
			}
		}
		if lo > 1 {
			lo = 1
		}
		if hi > 1 {
			hi = 1
		}
	}
	ops := []string{fmt.Sprintf("cfg form=%s lv=%s rs=%s sco=%d scodur=%d norec=%d all=%d flap=%d lo=%s hi=%s hist=%d",
		form, lv, rs, b2i(sco), scoDur, b2i(noRec), b2i(all), b2i(flap), kit.F64(lo), kit.F64(hi), hist)}
	if form == "w" {
		ops[0] += fmt.Sprintf(" win=%d", win)
	}

	nG := 1 + r.Intn(3)
	if r.Chance(1, 2) {
		nG = 1
	}
	size := 3 + r.Intn(14)
	if i%11 == 0 {
		size = 25 + r.Intn(30)
	}
	if form == "w" {
		size *= 2
	}
	tm := int64(1_000_000_000_000) + int64(r.Intn(1000))
	sd := scoDur * 1000 // ns
	stepT := func() {
		switch x := r.Intn(100); {
		case sd > 0 && x < 15:
			tm += sd - 1
		case sd > 0 && x < 30:
			tm += sd
		case sd > 0 && x < 40:
			tm += sd + 1
		case sd > 0 && x < 50:
			tm += sd / 2
		case x < 60:
			tm += 1
		case x < 66:
			// equal timestamps
		case x < 69:
			tm -= int64(1 + r.Intn(5)) // time going backwards
		default:
			tm += int64(1 + r.Intn(2000))
		}
	}
	// per group: a walk over target levels (each next target is drawn so that all ordered pairs show up)
	cur := make([]int, nG)
	nextVec := func(g int) string {
		if r.Chance(1, 4) {
			return randVec(r)
		}
		var tgt int
		switch x := r.Intn(100); {
		case x < 35:
			tgt = cur[g] // stay
		case x < 55:
			tgt = 0
		default:
			tgt = r.Intn(4)
		}
		cur[g] = tgt
		return vecFor(r, tgt, 12)
	}
	// task restarts: per-ID state is restored from the topic (the last delivered event of the ID), in every
	// configuration incl. noRecoveries / flapping / stateChangesOnly
	restarts := form != "w" && r.Chance(1, 4)
	for k := 0; k < size; k++ {
		g := r.Intn(nG)
		gid := kit.Esc(gids[g])
		stepT()
		if restarts && k > 0 && r.Chance(1, 6) {
			ops = append(ops, "restart")
		}
		if form == "s" || form == "w" {
			ops = append(ops, fmt.Sprintf("p %s %d %s", gid, tm, nextVec(g)))
			continue
		}
		n := r.Intn(5)
		if r.Chance(1, 3) {
			n = 1
		}
		var pts []string
		pt := tm
		for j := 0; j < n; j++ {
			pts = append(pts, fmt.Sprintf("%d:%s", pt-int64(r.Intn(50)), nextVec(g)))
		}
		tmax := tm + int64(r.Intn(3))
		if len(pts) == 0 {
			ops = append(ops, fmt.Sprintf("b %s %d -", gid, tmax))
		} else {
			ops = append(ops, fmt.Sprintf("b %s %d %s", gid, tmax, strings.Join(pts, ",")))
		}
	}
	return ops
}

func b2i(b bool) int {
	if b {
		return 1
	}
	return 0
}

// exhaustive emits ALL walks of length L over (highest holding level 0..3) x (outcome of every reset 0/1) for a
// fixed list of configurations; several walks share one task as different alert IDs. The walks are split in
// `slices` parts so that the parallel seeds of one check run share the work (slice = seed mod slices).
func exhaustive(run func(id string, ops []string) bool, tier string, slice, slices int) bool {
	L := 4
	forms := []string{"s", "b"}
	rss := []string{"111"}
	type knob struct{ sco, scodur, norec int }
	knobs := []knob{{1, 5, 0}, {0, 0, 1}}
	if tier == "thorough" {
		L = 5
		rss = []string{"111", "010"}
		knobs = []knob{{0, 0, 0}, {1, 0, 0}, {1, 5, 0}, {0, 0, 1}, {1, 5, 1}}
	}
	total := 1
	for i := 0; i < L; i++ {
		total *= 8
	}
	const perCase = 32
	caseNo := 0
	for _, form := range forms {
		for _, rs := range rss {
			for _, k := range knobs {
				for start := 0; start < total; start += perCase {
					caseNo++
					if caseNo%slices != slice {
						continue
					}
					ops := []string{fmt.Sprintf("cfg form=%s lv=111 rs=%s sco=%d scodur=%d norec=%d all=0 flap=0 lo=%s hi=%s hist=2",
						form, rs, k.sco, k.scodur, k.norec, kit.F64(0.25), kit.F64(0.5))}
					// step k of every walk of this case, interleaved
					for step := 0; step < L; step++ {
						for w := start; w < start+perCase && w < total; w++ {
							code := w
							for j := 0; j < step; j++ {
								code /= 8
							}
							sym := code % 8
							lvl, r := sym/2, sym%2
							vec := []byte("000000")
							for q := 1; q <= lvl; q++ {
								vec[q-1] = '1' // every level up to the target holds: the downward search finds the next lower one
							}
							for q := 3; q < 6; q++ {
								vec[q] = "01"[r]
							}
							tm := int64(1_000_000_000_000) + int64(step)*2500 // interval 5us: the third point of a run of equal levels is exactly at the interval
							gid := fmt.Sprintf("w%d", w)
							if form == "s" {
								ops = append(ops, fmt.Sprintf("p %s %d %s", gid, tm, vec))
							} else {
								ops = append(ops, fmt.Sprintf("b %s %d %d:%s", gid, tm+1, tm, vec))
							}
						}
					}
					if !run(fmt.Sprintf("x%d", caseNo), ops) {
						return false
					}
				}
			}
		}
	}
	return true
}
