package c01

import (
	"fmt"
	"strconv"
	"strings"
	"sync"
	"time"

	imodels "github.com/influxdata/influxdb/models"
	"github.com/influxdata/kapacitor"
	"github.com/influxdata/kapacitor/alert"

	"verifharness/kit"
)

// Form i: the inhibition world. ONE task with two alert nodes:
//
//	stream|from().measurement('ma').groupBy('host')|alert()<cfg>.inhibit('x', <inh tags>).topic(ta)     (alert A)
//	stream|from().measurement('mb').groupBy('host')|alert()<cfgb>.category(<catb>).topic(tb)             (alert B)
//
// `pa <host> <t> <vec>` / `pb <host> <t> <vec>` write one point to A / B. The two nodes run in different goroutines, so
// after every point the harness writes a MARKER point of a fresh host (`~a<n>` / `~b<n>`, every level predicate true)
// to the same measurement and waits until the marker's event has reached the recording handler: the node processes its
// input in order, so the real point has been processed (incl. its inhibitors set) before the next op is written. A
// marker ID is new every time (its first non-OK point always sends an event, whatever stateChangesOnly/noRecoveries say)
// and its host occurs nowhere else, so its inhibitor matches no event of B. Marker events are filtered out.

type syncRec struct {
	mu   sync.Mutex
	cond *sync.Cond
	evs  []alert.Event
	seen map[string]bool
}

func newSyncRec() *syncRec {
	r := &syncRec{seen: map[string]bool{}}
	r.cond = sync.NewCond(&r.mu)
	return r
}

func (h *syncRec) Handle(e alert.Event) {
	h.mu.Lock()
	h.evs = append(h.evs, e)
	h.seen[e.State.ID] = true
	h.cond.Broadcast()
	h.mu.Unlock()
}

func (h *syncRec) wait(id string, d time.Duration) bool {
	deadline := time.Now().Add(d)
	timer := time.AfterFunc(d, func() { h.mu.Lock(); h.cond.Broadcast(); h.mu.Unlock() })
	defer timer.Stop()
	h.mu.Lock()
	defer h.mu.Unlock()
	for !h.seen[id] {
		if time.Now().After(deadline) {
			return false
		}
		h.cond.Wait()
	}
	return true
}

func (r *runner) execInhibit(c cfg, extra map[string]string, cb cfg, body [][]string, head []string) (out []string, err error) {
	out = head
	tm, err := r.get()
	if err != nil {
		return nil, err
	}
	r.caseNo++
	ta, tb := fmt.Sprintf("top%da", r.caseNo), fmt.Sprintf("top%db", r.caseNo)
	ra, rb := newSyncRec(), newSyncRec()
	tm.Alert.RegisterAnonHandler(ta, ra)
	tm.Alert.RegisterAnonHandler(tb, rb)
	inh := "'host'"
	if extra["inh"] == "host+dc" {
		inh = "'host', 'dc'" // A's groups have no dc tag: the inhibitor asks for dc == "", which B's events (no dc tag) satisfy
	}
	catb := extra["catb"]
	if catb == "" {
		catb = "x"
	}
	c.form, cb.form = "s", "s"
	script := "stream|from().measurement('ma').groupBy('host')|alert()" + c.alertProps(ta) + ".inhibit('x', " + inh + ")\n" +
		"stream|from().measurement('mb').groupBy('host')|alert()" + cb.alertProps(tb) + ".category('" + catb + "')\n"
	taskID := fmt.Sprintf("c%di", r.caseNo)
	child := tm.TM.New("tm-" + taskID)
	if err := child.Open(); err != nil {
		return nil, err
	}
	cleanup := func() {
		child.Close()
		tm.Alert.DeregisterAnonHandler(ta, ra)
		tm.Alert.DeregisterAnonHandler(tb, rb)
		tm.Alert.DeleteTopic(ta)
		tm.Alert.DeleteTopic(tb)
	}
	task, err := child.NewTask(taskID, script, kapacitor.StreamTask, dbrps, 0, nil)
	if err != nil {
		cleanup()
		return nil, fmt.Errorf("NewTask: %v\n%s", err, script)
	}
	et, err := child.StartTask(task)
	if err != nil {
		cleanup()
		return nil, fmt.Errorf("StartTask: %v", err)
	}
	write := func(m, host string, ts int64, vec string) error {
		f, err := fieldsOf(vec)
		if err != nil {
			return err
		}
		pt, err := imodels.NewPoint(m, imodels.NewTags(map[string]string{"host": host}), imodels.Fields(f), time.Unix(0, ts).UTC())
		if err != nil {
			return err
		}
		return child.WritePoints("db", "rp", imodels.ConsistencyLevelAll, []imodels.Point{pt})
	}
	for n, t := range body {
		host, _ := kit.Unesc(t[1])
		ts, _ := strconv.ParseInt(t[2], 10, 64)
		m, rec, mk := "ma", ra, fmt.Sprintf("~a%d", n)
		if t[0] == "pb" {
			m, rec, mk = "mb", rb, fmt.Sprintf("~b%d", n)
		}
		err := write(m, host, ts, t[3])
		if err == nil {
			err = write(m, mk, ts, "111000")
		}
		if err == nil && !rec.wait(m+":host="+mk, 10*time.Second) {
			err = fmt.Errorf("marker %s of op %d never produced an event", mk, n)
		}
		if err != nil {
			child.Drain()
			et.Wait()
			cleanup()
			return nil, err
		}
	}
	child.Drain()
	werr := et.Wait()
	child.DeleteTask(taskID)
	cleanup()
	if werr != nil {
		return nil, fmt.Errorf("task failed: %v", werr)
	}
	render := func(h *syncRec) string {
		var evs []string
		for _, e := range h.evs {
			if strings.Contains(e.State.ID, ":host=~") {
				continue
			}
			evs = append(evs, fmt.Sprintf("%s:%d:%d:%d", kit.Esc(e.State.ID), int(e.State.Level), e.State.Time.UnixNano(), int64(e.State.Duration)))
		}
		return list(evs)
	}
	out = append(out, "eventsa => "+render(ra), "eventsb => "+render(rb))
	return out, nil
}
