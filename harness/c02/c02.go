// Package c02 is the harness for property C02 (stream routing: every selected point exactly once, in order,
// only to tasks that declared the database/retention policy, unaffected by other tasks' start/stop/delete).
//
// It drives a REAL kapacitor.TaskMaster (kit.NewTM) with generated histories of
//
//	cfg <defaultRP> <api|http>
//	startfail <id> <dbrps> <froms>  the same, but the task store reports a snapshot that cannot be loaded: StartTask must fail
//	start <id> <dbrps> <froms>      NewTask(script generated from <froms>, one `@sink()` under every from()) + StartTask
//	stop <id> / delete <id>         StopTask / DeleteTask
//	write <db> <rp> <points>        TaskMaster.WritePoints, or POST /kapacitor/v1/write (serveWriteLine) in http mode
//	final <id> <i>                  => ids of the points the sink under the i-th from() of task <id> recorded, in order
//	quiesce                         => number of waits that timed out (0 unless the implementation lost points)
//
// and prints what the implementation did after ` => `.
//
// Linearisation: WritePoints only enqueues on the TaskMaster's own write_points edge; the routing decision is
// taken later by the forking goroutine (forkPoint). Before every start/stop/delete and before the final
// read-out the harness therefore waits until every accepted point has been forked (exact: the public
// `ingress` statistics count one per finished forkPoint) and, for the task that is being stopped, until its
// sinks hold the number of points the harness expects (UDF nodes abort on stop and drop their backlog: that
// loss path belongs to C07). The expectation is only used for WAITING (with a time-out); the verdict is taken by
// the Lean driver from the recorded sequences.
package c02

import (
	"bytes"
	"expvar"
	"fmt"
	"net/http"
	"os"
	"strconv"
	"strings"
	"time"

	imodels "github.com/influxdata/influxdb/models"
	"github.com/influxdata/kapacitor"
	"github.com/influxdata/kapacitor/edge"
	kexpvar "github.com/influxdata/kapacitor/expvar"
	"github.com/influxdata/kapacitor/server/vars"

	"verifharness/kit"
)

// ---------------------------------------------------------------------------------------------
// data of a case

type fromDef struct {
	db, rp, name string
	wh           int // -1 = no where()
}

type taskDef struct {
	id    string
	dbrps [][2]string
	froms []fromDef
}

type point struct {
	id   int64
	name string
	pass []int // oracle: indices of the where-predicates that are true of this point
	v    int64
	host string
}

// The where() predicates a from() may carry. `eval` is the harness' own reading of the lambda (the lambda
// evaluator itself is the subject of C04); an evaluation error counts as "does not pass" (stream.go matches()).
var preds = []struct {
	lambda string
	eval   func(p *point) bool
}{
	{`"v" > 5`, func(p *point) bool { return p.v > 5 }},
	{`"host" == 'a'`, func(p *point) bool { return p.host == "a" }},
	{`"v" % 2 == 0`, func(p *point) bool { return p.v%2 == 0 }},
	{`"nosuchfield" > 0`, func(p *point) bool { return false }}, // evaluation error => no match
	{`"v" >= 0`, func(p *point) bool { return true }},
}

func passOf(p *point) []int {
	var r []int
	for i := range preds {
		if preds[i].eval(p) {
			r = append(r, i)
		}
	}
	return r
}

// pass is derived from (v, host): v = id-derived, so a point token only needs id|name|v|host; the pass list is
// printed too (it is what the model consumes) and re-derived on replay.
func pointTok(p *point) string {
	ps := "-"
	if len(p.pass) > 0 {
		var s []string
		for _, k := range p.pass {
			s = append(s, strconv.Itoa(k))
		}
		ps = strings.Join(s, ";")
	}
	return fmt.Sprintf("%d|%s|%s|%d|%s", p.id, kit.Esc(p.name), ps, p.v, kit.Esc(p.host))
}

func parsePoint(tok string) (*point, error) {
	f := strings.Split(tok, "|")
	if len(f) != 5 {
		return nil, fmt.Errorf("bad point %q", tok)
	}
	id, err := strconv.ParseInt(f[0], 10, 64)
	if err != nil {
		return nil, err
	}
	name, err := kit.Unesc(f[1])
	if err != nil {
		return nil, err
	}
	v, err := strconv.ParseInt(f[3], 10, 64)
	if err != nil {
		return nil, err
	}
	host, err := kit.Unesc(f[4])
	if err != nil {
		return nil, err
	}
	if name == "" {
		// influxdb's models.Point keeps name and tags in one key (`name,tag=value`); with an empty name the tags
		// cannot be read back (a limitation of that library, not of kapacitor): such points carry no tags here
		host = ""
	}
	p := &point{id: id, name: name, v: v, host: host}
	p.pass = passOf(p)
	return p, nil
}

func dbrpsTok(d [][2]string) string {
	if len(d) == 0 {
		return "-"
	}
	var s []string
	for _, x := range d {
		s = append(s, kit.Esc(x[0])+"|"+kit.Esc(x[1]))
	}
	return strings.Join(s, ",")
}

func parseDBRPs(tok string) ([][2]string, error) {
	if tok == "-" {
		return nil, nil
	}
	var out [][2]string
	for _, x := range strings.Split(tok, ",") {
		f := strings.Split(x, "|")
		if len(f) != 2 {
			return nil, fmt.Errorf("bad dbrp %q", x)
		}
		a, e1 := kit.Unesc(f[0])
		b, e2 := kit.Unesc(f[1])
		if e1 != nil || e2 != nil {
			return nil, fmt.Errorf("bad dbrp %q", x)
		}
		out = append(out, [2]string{a, b})
	}
	return out, nil
}

func fromsTok(fs []fromDef) string {
	var s []string
	for _, f := range fs {
		wh := "-"
		if f.wh >= 0 {
			wh = strconv.Itoa(f.wh)
		}
		s = append(s, kit.Esc(f.db)+"|"+kit.Esc(f.rp)+"|"+kit.Esc(f.name)+"|"+wh)
	}
	return strings.Join(s, ",")
}

func parseFroms(tok string) ([]fromDef, error) {
	var out []fromDef
	for _, x := range strings.Split(tok, ",") {
		f := strings.Split(x, "|")
		if len(f) != 4 {
			return nil, fmt.Errorf("bad from %q", x)
		}
		db, e1 := kit.Unesc(f[0])
		rp, e2 := kit.Unesc(f[1])
		nm, e3 := kit.Unesc(f[2])
		if e1 != nil || e2 != nil || e3 != nil {
			return nil, fmt.Errorf("bad from %q", x)
		}
		wh := -1
		if f[3] != "-" {
			k, err := strconv.Atoi(f[3])
			if err != nil || k < 0 || k >= len(preds) {
				return nil, fmt.Errorf("bad where index %q", f[3])
			}
			wh = k
		}
		out = append(out, fromDef{db: db, rp: rp, name: nm, wh: wh})
	}
	return out, nil
}

func tickStr(s string) string {
	return "'" + strings.ReplaceAll(strings.ReplaceAll(s, `\`, `\\`), `'`, `\'`) + "'"
}

// script renders the task: one `stream|from()…@sink()` statement per from-node. Pipeline node ids are assigned in
// creation order: stream0, from1, sink2, from3, sink4, … so the sink under from #i is node `sink<2i+2>`.
func script(d *taskDef) string {
	var b strings.Builder
	for _, f := range d.froms {
		b.WriteString("stream\n    |from()\n")
		if f.db != "" {
			b.WriteString("        .database(" + tickStr(f.db) + ")\n")
		}
		if f.rp != "" {
			b.WriteString("        .retentionPolicy(" + tickStr(f.rp) + ")\n")
		}
		if f.name != "" {
			b.WriteString("        .measurement(" + tickStr(f.name) + ")\n")
		}
		if f.wh >= 0 {
			b.WriteString("        .where(lambda: " + preds[f.wh].lambda + ")\n")
		}
		b.WriteString("    @sink()\n")
	}
	return b.String()
}

func sinkKey(id string, i int) string { return fmt.Sprintf("%s/sink%d", id, 2*i+2) }

// selects is the harness' own reading of the from() selection (used only to know how long to wait).
func selects(f *fromDef, db, rp string, p *point) bool {
	if f.db != "" && f.db != db {
		return false
	}
	if f.rp != "" && f.rp != rp {
		return false
	}
	if f.name != "" && f.name != p.name {
		return false
	}
	if f.wh >= 0 {
		return preds[f.wh].eval(p)
	}
	return true
}

// ---------------------------------------------------------------------------------------------
// executing one case on the real TaskMaster

// snapStore is the TaskMaster's TaskStore: it has a (corrupt) snapshot exactly for the ids in `fail`.
type snapStore struct{ fail map[string]bool }

func (s *snapStore) SaveSnapshot(string, *kapacitor.TaskSnapshot) error { return nil }
func (s *snapStore) HasSnapshot(id string) bool                         { return s.fail[id] }
func (s *snapStore) LoadSnapshot(string) (*kapacitor.TaskSnapshot, error) {
	return nil, errSnapshot
}

var errSnapshot = fmt.Errorf("snapshot cannot be loaded")

const tmID = "verif" // kit.NewTM's TaskMaster id (tag `task_master` of the ingress statistics)

// A TaskMaster never unpublishes its ingress statistics (and tasks that were never started keep their node
// statistics), so the process-wide statistics map would grow with every case and make GetStatsData slow. The
// harness removes what a case published once its TaskMaster is closed (statistics only, nothing reads them).
func statKeys() map[string]bool {
	keys := map[string]bool{}
	if m, ok := expvar.Get(vars.Product).(*kexpvar.Map); ok && m != nil {
		m.Do(func(kv expvar.KeyValue) { keys[kv.Key] = true })
	}
	return keys
}

func dropStatsExcept(keep map[string]bool) {
	for k := range statKeys() {
		if !keep[k] {
			vars.DeleteStatistic(k)
		}
	}
}

func ingressSum() int64 {
	data, err := vars.GetStatsData()
	if err != nil {
		return -1
	}
	var sum int64
	for _, d := range data {
		if d.Name == "ingress" && d.Tags["task_master"] == tmID {
			if v, ok := d.Values["points_received"].(int64); ok {
				sum += v
			}
		}
	}
	return sum
}

// edgesBalanced reports whether every edge of the given tasks has emitted everything it collected, together
// with a fingerprint of the counters.
func edgeSnapshot(tasks map[string]bool) (balanced bool, fp string) {
	data, err := vars.GetStatsData()
	if err != nil {
		return false, ""
	}
	balanced = true
	var parts []string
	for _, d := range data {
		if d.Name != "edges" || !tasks[d.Tags["task"]] {
			continue
		}
		c, _ := d.Values["collected"].(int64)
		e, _ := d.Values["emitted"].(int64)
		if c != e {
			balanced = false
		}
		parts = append(parts, fmt.Sprintf("%s/%s/%s:%d:%d", d.Tags["task"], d.Tags["parent"], d.Tags["child"], c, e))
	}
	// order of the stats map is not stable: sort
	sortStrings(parts)
	return balanced, strings.Join(parts, " ")
}

func sortStrings(a []string) {
	for i := 1; i < len(a); i++ {
		for j := i; j > 0 && a[j] < a[j-1]; j-- {
			a[j], a[j-1] = a[j-1], a[j]
		}
	}
}

// once a wait has timed out (points were lost: the case will be judged SPECFAIL), later waits are kept short so
// that a broken implementation is reported quickly instead of running into the harness time-out
var shortWaits bool

type runner struct {
	tm        *kit.TM
	http      bool
	defRP     string
	running   map[string]*taskDef
	everDef   map[string]int // task id -> max number of from-nodes ever started under it
	order     []string       // task ids in first-start order
	expected  map[string]int // sink key -> number of points expected so far
	written   int64
	base      int64
	timeouts  int
	waitLimit time.Duration
	store     *snapStore
	hung      string // set when a call into the real code did not return (the process must then exit)
}

// call runs one call into the real code under a watchdog: a TaskMaster call that blocks for ever (e.g. StopTask
// waiting for an edge nobody closes) must end the case with an observation, not hang the harness.
func (r *runner) call(what string, f func() error) (error, bool) {
	if r.hung != "" {
		return nil, true
	}
	done := make(chan error, 1)
	pan := make(chan interface{}, 1)
	go func() {
		defer func() {
			if rec := recover(); rec != nil {
				pan <- rec
			}
		}()
		done <- f()
	}()
	select {
	case err := <-done:
		return err, false
	case rec := <-pan:
		panic(rec)
	case <-time.After(hangLimit):
		r.hung = what
		return nil, true
	}
}

var hangLimit = 10 * time.Second

func (r *runner) limit() time.Duration {
	if shortWaits || r.timeouts > 0 {
		return 150 * time.Millisecond
	}
	return r.waitLimit
}

func (r *runner) timedOut() {
	r.timeouts++
	shortWaits = true
}

func (r *runner) waitForked() {
	if r.hung != "" {
		return
	}
	deadline := time.Now().Add(r.limit())
	for i := 0; ; i++ {
		if ingressSum()-r.base >= r.written {
			return
		}
		if time.Now().After(deadline) {
			r.timedOut()
			return
		}
		if i < 20 {
			time.Sleep(50 * time.Microsecond)
		} else {
			time.Sleep(time.Millisecond)
		}
	}
}

// waitSinks waits until every sink of the given running tasks holds the expected number of points, then (best
// effort, matters only when the implementation delivers MORE than expected) until the tasks' edges are balanced
// and two consecutive counter snapshots agree.
func (r *runner) waitSinks(ids map[string]bool, settle bool) {
	if r.hung != "" {
		return
	}
	deadline := time.Now().Add(r.limit())
	for id := range ids {
		d := r.running[id]
		if d == nil {
			continue
		}
		for i := range d.froms {
			k := sinkKey(id, i)
			// A shortfall is certain long before the hard limit when everything has been forked and the task's
			// edges are balanced and have not moved for 400 ms: nothing more can arrive.
			prevFP, stableSince, lastSnap := "", time.Time{}, time.Time{}
			for n := 0; ; n++ {
				if len(r.tm.Rec.Get(k)) >= r.expected[k] {
					break
				}
				now := time.Now()
				if now.After(deadline) {
					r.timedOut()
					break
				}
				if n >= 20 && now.Sub(lastSnap) > 20*time.Millisecond {
					lastSnap = now
					ok, fp := edgeSnapshot(map[string]bool{id: true})
					if ok && fp == prevFP {
						if now.Sub(stableSince) > 400*time.Millisecond {
							r.timedOut()
							break
						}
					} else {
						prevFP, stableSince = fp, now
					}
				}
				if n < 20 {
					time.Sleep(50 * time.Microsecond)
				} else {
					time.Sleep(time.Millisecond)
				}
			}
		}
	}
	if !settle {
		return
	}
	prev := ""
	for n := 0; n < 200; n++ {
		ok, fp := edgeSnapshot(ids)
		if ok && fp == prev {
			return
		}
		prev = fp
		time.Sleep(500 * time.Microsecond)
	}
}

func (r *runner) start(d *taskDef, failSnapshot bool) string {
	var dbrps []kapacitor.DBRP
	for _, x := range d.dbrps {
		dbrps = append(dbrps, kapacitor.DBRP{Database: x[0], RetentionPolicy: x[1]})
	}
	task, err := r.tm.TM.NewTask(d.id, script(d), kapacitor.StreamTask, dbrps, 0, nil)
	if err != nil {
		return "err:newtask"
	}
	r.waitForked()
	if r.running[d.id] != nil {
		// restart in place: the old incarnation's sinks share the recording keys, let them finish first
		r.waitSinks(map[string]bool{d.id: true}, true)
	}
	r.store.fail[d.id] = failSnapshot
	err, hung := r.call("StartTask "+d.id, func() error { _, e := r.tm.TM.StartTask(task); return e })
	delete(r.store.fail, d.id)
	if hung {
		return "hang"
	}
	if err != nil {
		if len(dbrps) == 0 {
			return "err:nodbrp"
		}
		if r.running[d.id] != nil {
			return "err:executing"
		}
		if err == errSnapshot {
			return "err:snapshot"
		}
		return "err:start"
	}
	if failSnapshot {
		return "ok" // StartTask succeeded although the snapshot cannot be loaded
	}
	if _, seen := r.everDef[d.id]; !seen {
		r.order = append(r.order, d.id)
	}
	if len(d.froms) > r.everDef[d.id] {
		r.everDef[d.id] = len(d.froms)
	}
	r.running[d.id] = d
	return "ok"
}

func (r *runner) stop(id string, del bool) string {
	r.waitForked()
	r.waitSinks(map[string]bool{id: true}, true)
	err, hung := r.call("StopTask/DeleteTask "+id, func() error {
		if del {
			return r.tm.TM.DeleteTask(id)
		}
		return r.tm.TM.StopTask(id)
	})
	if hung {
		return "hang"
	}
	delete(r.running, id)
	if err != nil {
		return "err"
	}
	return "ok"
}

var baseTime = time.Unix(1700000000, 0).UTC()

func lpEsc(s string, measurement bool) string {
	s = strings.ReplaceAll(s, `\`, `\\`)
	s = strings.ReplaceAll(s, ",", `\,`)
	s = strings.ReplaceAll(s, " ", `\ `)
	if !measurement {
		s = strings.ReplaceAll(s, "=", `\=`)
	}
	return s
}

func (r *runner) write(db, rp string, pts []*point) string {
	if r.http {
		var body bytes.Buffer
		for _, p := range pts {
			fmt.Fprintf(&body, "%s,host=%s id=%di,v=%di %d\n", lpEsc(p.name, true), lpEsc(p.host, false), p.id, p.v, baseTime.UnixNano()+p.id)
		}
		u := r.tm.HTTPD.URL() + "/write?db=" + urlEsc(db) + "&rp=" + urlEsc(rp)
		var resp *http.Response
		err, hung := r.call("POST /write", func() error { var e error; resp, e = http.Post(u, "text/plain", &body); return e })
		if hung {
			return "hang"
		}
		if err != nil {
			return "err:http"
		}
		resp.Body.Close()
		if resp.StatusCode != http.StatusNoContent {
			return "err:" + strconv.Itoa(resp.StatusCode)
		}
	} else {
		var mps []imodels.Point
		for _, p := range pts {
			tags := map[string]string{}
			if p.host != "" {
				tags["host"] = p.host
			}
			mp, err := imodels.NewPoint(p.name, imodels.NewTags(tags),
				imodels.Fields{"id": p.id, "v": p.v}, baseTime.Add(time.Duration(p.id)))
			if err != nil {
				return "err:point"
			}
			mps = append(mps, mp)
		}
		err, hung := r.call("WritePoints", func() error { return r.tm.TM.WritePoints(db, rp, imodels.ConsistencyLevelAll, mps) })
		if hung {
			return "hang"
		}
		if err != nil {
			return "err:write"
		}
	}
	r.written += int64(len(pts))
	erp := rp
	if erp == "" {
		erp = r.defRP
	}
	for id, d := range r.running {
		declared := false
		for _, x := range d.dbrps {
			if x[0] == db && x[1] == erp {
				declared = true
			}
		}
		if !declared {
			continue
		}
		for i := range d.froms {
			for _, p := range pts {
				if selects(&d.froms[i], db, erp, p) {
					r.expected[sinkKey(id, i)]++
				}
			}
		}
	}
	return "ok"
}

func urlEsc(s string) string {
	var b strings.Builder
	for i := 0; i < len(s); i++ {
		c := s[i]
		if c >= 'a' && c <= 'z' || c >= 'A' && c <= 'Z' || c >= '0' && c <= '9' {
			b.WriteByte(c)
		} else {
			fmt.Fprintf(&b, "%%%02X", c)
		}
	}
	return b.String()
}

func idsOf(msgs []edge.Message) string {
	if len(msgs) == 0 {
		return "-"
	}
	var s []string
	for _, m := range msgs {
		pm, ok := m.(edge.PointMessage)
		if !ok {
			s = append(s, "x")
			continue
		}
		if v, ok := pm.Fields()["id"].(int64); ok {
			s = append(s, strconv.FormatInt(v, 10))
		} else {
			s = append(s, "x")
		}
	}
	return strings.Join(s, ",")
}

// execCase runs the op lines of one case and returns them with observations. `final`/`quiesce` lines are
// (re)generated from what was started, so a shrunk or hand-written case needs none.
func execCase(ops []string) (out []string, hung string) {
	r := &runner{running: map[string]*taskDef{}, everDef: map[string]int{}, expected: map[string]int{}, waitLimit: 8 * time.Second}
	if s := os.Getenv("VERIF_C02_WAIT_MS"); s != "" {
		if v, err := strconv.Atoi(s); err == nil {
			r.waitLimit = time.Duration(v) * time.Millisecond
		}
	}
	var lines [][]string
	for _, raw := range ops {
		line := raw
		if i := strings.Index(line, " => "); i >= 0 {
			line = line[:i]
		}
		t := strings.Fields(line)
		if len(t) == 0 || t[0] == "final" || t[0] == "quiesce" {
			continue
		}
		if t[0] == "cfg" && len(t) >= 2 {
			r.defRP, _ = kit.Unesc(t[1])
			r.http = len(t) >= 3 && t[2] == "http"
		}
		lines = append(lines, t)
	}
	statsBefore := statKeys()
	tm, err := kit.NewTM(kit.TMOpts{NoOpen: true})
	if err != nil {
		fmt.Fprintln(os.Stderr, "c02: cannot build TaskMaster:", err)
		os.Exit(4)
	}
	if len(statsBefore) == 0 {
		statsBefore = statKeys() // first case: keep what the shared services published
	}
	defer dropStatsExcept(statsBefore)
	r.tm = tm
	r.store = &snapStore{fail: map[string]bool{}}
	tm.TM.TaskStore = r.store
	tm.TM.DefaultRetentionPolicy = r.defRP
	if err := tm.TM.Open(); err != nil {
		fmt.Fprintln(os.Stderr, "c02: cannot open TaskMaster:", err)
		os.Exit(4)
	}
	if r.http {
		tm.HTTPD.Handler.PointsWriter = tm.TM
	}
	r.base = ingressSum()
	guard := func(line string, f func() string) {
		defer func() {
			if rec := recover(); rec != nil {
				out = append(out, line+" => panic")
			}
		}()
		out = append(out, line+" => "+f())
	}
	for _, t := range lines {
		line := strings.Join(t, " ")
		if r.hung != "" {
			break
		}
		switch t[0] {
		case "cfg":
			out = append(out, line)
		case "start", "startfail":
			if len(t) != 4 {
				out = append(out, line+" => badop")
				continue
			}
			id, _ := kit.Unesc(t[1])
			dbrps, e1 := parseDBRPs(t[2])
			froms, e2 := parseFroms(t[3])
			if e1 != nil || e2 != nil {
				out = append(out, line+" => badop")
				continue
			}
			guard(line, func() string { return r.start(&taskDef{id: id, dbrps: dbrps, froms: froms}, t[0] == "startfail") })
		case "stop", "delete":
			id, _ := kit.Unesc(t[1])
			guard(line, func() string { return r.stop(id, t[0] == "delete") })
		case "write":
			if len(t) != 4 {
				out = append(out, line+" => badop")
				continue
			}
			db, _ := kit.Unesc(t[1])
			rp, _ := kit.Unesc(t[2])
			var pts []*point
			bad := false
			var toks []string
			for _, x := range strings.Split(t[3], ",") {
				p, err := parsePoint(x)
				if err != nil {
					bad = true
					break
				}
				pts = append(pts, p)
				toks = append(toks, pointTok(p))
			}
			if bad {
				out = append(out, line+" => badop")
				continue
			}
			// re-render the points so that the oracle column (pass) is always the harness' own
			line = fmt.Sprintf("write %s %s %s", t[1], t[2], strings.Join(toks, ","))
			guard(line, func() string { return r.write(db, rp, pts) })
		default:
			out = append(out, line+" => badop")
		}
	}
	// final read-out: everything forked, every running task's sinks complete and quiet, then close
	r.waitForked()
	all := map[string]bool{}
	for id := range r.running {
		all[id] = true
	}
	r.waitSinks(all, true)
	if _, hung := r.call("TaskMaster.Close", func() error { tm.Close(); return nil }); hung {
		out = append(out, "close => hang")
	}
	if r.http {
		tm.HTTPD.Handler.PointsWriter = nil
	}
	for _, id := range r.order {
		for i := 0; i < r.everDef[id]; i++ {
			out = append(out, fmt.Sprintf("final %s %d => %s", kit.Esc(id), i, idsOf(tm.Rec.Get(sinkKey(id, i)))))
		}
	}
	out = append(out, fmt.Sprintf("quiesce => %d", r.timeouts))
	return out, r.hung
}

func emit(out *kit.Out, id string, lines []string) {
	out.Line("case", id)
	for _, l := range lines {
		out.Line(l)
	}
	out.Line("end")
	out.Flush()
}

// Run: `vh-c02 -seed S -n N [-tier thorough]` generates; `vh-c02 -ops file` re-executes the cases of a file.
func Run(args []string) int {
	f := kit.ParseFlags(args)
	out := kit.NewOut()
	defer out.Flush()
	if f.Ops != "" {
		lines, err := kit.ReadLines(f.Ops)
		if err != nil {
			fmt.Fprintln(os.Stderr, err)
			return 2
		}
		var cur []string
		id := ""
		for _, l := range lines {
			t := strings.Fields(l)
			switch {
			case len(t) == 2 && t[0] == "case":
				id, cur = t[1], nil
			case len(t) == 1 && t[0] == "end":
				lines, hung := execCase(cur)
				emit(out, id, lines)
				if hung != "" {
					fmt.Fprintf(os.Stderr, "c02: %s did not return within %v in case %s: the real code hangs\n", hung, hangLimit, id)
					return 3
				}
			default:
				cur = append(cur, l)
			}
		}
		return 0
	}
	r := kit.NewRand(f.Seed)
	for i := 0; i < f.N; i++ {
		lines, hung := execCase(genCase(r.Fork(), i, f.Tier))
		emit(out, fmt.Sprintf("g%d", i), lines)
		if hung != "" {
			fmt.Fprintf(os.Stderr, "c02: %s did not return within %v in case g%d: the real code hangs\n", hung, hangLimit, i)
			return 3
		}
	}
	return 0
}
