// Package c02 is the harness for property C02 (stream routing: every selected point exactly once, in order,
// only to tasks that declared the database/retention policy, unaffected by other tasks' start/stop/delete).
//
// It drives a REAL kapacitor.TaskMaster (kit.NewTM) with generated histories of
//
//	cfg <defaultRP> <api|http>
//	startfail <id> <dbrps> <froms>  the same, but the task store reports a snapshot that cannot be loaded: StartTask must fail
//	start <id> <dbrps> <froms>      NewTask(script generated from <froms>, one `@sink()` under every from()) + StartTask
//	stop <id> / delete <id>         StopTask / DeleteTask
//	write <db> <rp> <points>        TaskMaster.WritePoints, or POST /kapacitor/v1/write (serveWriteLine) in http mode
//	hwrite <db> <rp> <prec> <lines> [<flags>]
//	                                always POST /kapacitor/v1/write: `db`/`rp` = % means "parameter absent", <prec> one of
//	                                - n u ms s m h x (x: unknown to the server), a line is `!k` (k-th malformed line of a pool),
//	                                `#k` (comment / blank line) or <point>@<integer time stamp in that precision>; flags: gz
//	                                (gzip body), gzhdr (gzip header, body is no gzip stream), gztrunc (truncated stream), cons
//	                                (a consistency parameter)  => ok | err:<status>
//	points                          id|name|pass|v|host|dc|time-ns (tags host and dc, absent when %; fields id, v)
//	from-nodes                      db|rp|measurement|where[|options|parent], options = letters of optLetters
//	udp <db> <rp> <flow|held> <datagram>&<datagram>&…
//	                                a real services/udp Service (Database db, RetentionPolicy rp, PointsWriter = the TaskMaster) is
//	                                opened on a loopback port and sent the datagrams (lines as in hwrite, precision ns) from one
//	                                socket, in order. `held`: the FIRST WritePoints call the service makes is held back (back-pressure:
//	                                WritePoints may block as long as it likes on tm.writesMu / a full write_points edge) until serve()
//	                                has read ALL datagrams; `flow`: nothing is held, the scheduler decides.
//	                                => ok|err:… pf=<points_parse_fail> calls=<n;n;…> (len(points) of every WritePoints call, in order;
//	                                suffix e = it returned an error, p = it panicked)
//	cwrite <db> <rp> <w1>&<w2>&…    one goroutine per writer, each calling WritePoints with its points, all at once
//	drain                           TaskMaster.Drain: every fork is deleted, the executions end; WritePoints is closed for good
//	swrite <db> <rp> <points>       points fed through a StreamCollector of tm.Stream(name) (works after a drain too)
//	final <id> <i>                  => the points the sink under the i-th from() of task <id> recorded, in order, whole (see sinkIDs)
//	quiesce                         => number of waits that timed out (0 unless the implementation lost points)
//
// and prints what the implementation did after ` => `.
//
// Linearisation: WritePoints only enqueues on the TaskMaster's own write_points edge; the routing decision is
// taken later by the forking goroutine (forkPoint). Before every start/stop/delete and before the final
// read-out the harness therefore waits until every accepted point has been forked (exact: the public
// `ingress` statistics count one per finished forkPoint) and, for the task that is being stopped, until its
// sinks hold the number of points the harness expects (UDF nodes abort on stop and drop their backlog: that
// loss path belongs to C07). The expectation is only used for WAITING (with a time-out); the verdict is taken by
// the Lean driver from the recorded sequences.
package c02

import (
	"bytes"
	"compress/gzip"
	"expvar"
	"fmt"
	"net"
	"net/http"
	"os"
	"os/exec"
	"path/filepath"
	"strconv"
	"strings"
	"sync"
	"sync/atomic"
	"time"

	imodels "github.com/influxdata/influxdb/models"
	"github.com/influxdata/kapacitor"
	"github.com/influxdata/kapacitor/edge"
	kexpvar "github.com/influxdata/kapacitor/expvar"
	"github.com/influxdata/kapacitor/keyvalue"
	"github.com/influxdata/kapacitor/models"
	"github.com/influxdata/kapacitor/server/vars"
	"github.com/influxdata/kapacitor/services/udp"

	"verifharness/kit"
)

// ---------------------------------------------------------------------------------------------
// data of a case

type fromDef struct {
	db, rp, name string
	wh           int       // -1 = no where()
	opts         string    // letters of optLetters: groupBy(...) variants, groupByMeasurement(), truncate(d), round(d)
	parent       int       // -1 = stream|from(); j = chained below from-node #j (j earlier)
	loops        []loopDef // kapacitorLoopback() nodes below this from-node
}

// loopDef: one `|kapacitorLoopback().database(db).retentionPolicy(rp)[.measurement(name)][.tag(k, v)…]`.
type loopDef struct {
	db, rp, name string
	tags         [][2]string // in key order
}

// loop token: db;rp;name[;k=v…] (every part kit.Esc'ed)
func loopTok(l *loopDef) string {
	parts := []string{kit.Esc(l.db), kit.Esc(l.rp), kit.Esc(l.name)}
	for _, kv := range l.tags {
		parts = append(parts, kit.Esc(kv[0])+"="+kit.Esc(kv[1]))
	}
	return strings.Join(parts, ";")
}

func parseLoop(tok string) (loopDef, error) {
	var l loopDef
	f := strings.Split(tok, ";")
	if len(f) < 3 {
		return l, fmt.Errorf("bad loop %q", tok)
	}
	var e1, e2, e3 error
	l.db, e1 = kit.Unesc(f[0])
	l.rp, e2 = kit.Unesc(f[1])
	l.name, e3 = kit.Unesc(f[2])
	if e1 != nil || e2 != nil || e3 != nil {
		return l, fmt.Errorf("bad loop %q", tok)
	}
	for _, kv := range f[3:] {
		x := strings.Split(kv, "=")
		if len(x) != 2 {
			return l, fmt.Errorf("bad loop tag %q", kv)
		}
		k, e1 := kit.Unesc(x[0])
		v, e2 := kit.Unesc(x[1])
		if e1 != nil || e2 != nil || k == "" || k == "host" {
			// (the where-lambdas of the harness read the tag host: a loopback node never sets it, so the oracle column of a
			// point written back is the one of the point it was made from)
			return l, fmt.Errorf("bad loop tag %q", kv)
		}
		if n := len(l.tags); n > 0 && l.tags[n-1][0] >= k {
			return l, fmt.Errorf("loop tags must be listed in key order: %q", tok)
		}
		l.tags = append(l.tags, [2]string{k, v})
	}
	return l, nil
}

func (d *taskDef) hasLoops() bool {
	for _, f := range d.froms {
		if len(f.loops) > 0 {
			return true
		}
	}
	return false
}

// selfLoop: newKapacitorLoopbackNode refuses a node that writes into one of the task's own dbrps.
func (d *taskDef) selfLoop() bool {
	for _, f := range d.froms {
		for _, l := range f.loops {
			for _, x := range d.dbrps {
				if x[0] == l.db && x[1] == l.rp {
					return true
				}
			}
		}
	}
	return false
}

type taskDef struct {
	id    string
	dbrps [][2]string
	froms []fromDef
}

type point struct {
	id   int64
	name string
	pass []int // oracle: indices of the where-predicates that are true of this point
	v    int64
	host string
	dc   string // second tag ("" = absent)
	t    int64  // time, Unix ns
}

// The from() options a letter stands for, in the order script() renders them. A later groupBy call replaces the
// dimensions of an earlier one (pipeline.FromNode.GroupBy assigns), so do the letters here.
//
//	g groupBy('host')          G groupBy('zone', 'host') (listed unsorted; no point has a zone tag)
//	D groupBy('host', 'dc', 'host') (a duplicate)        a groupBy(*)
//	m groupByMeasurement()
//	t truncate(1s)   T truncate(7s) (7 s does not divide a day: Go's year-1 origin is visible)   n truncate(-1s) (no-op)
//	r round(1s)      R round(7s)
const optLetters = "gGDamtTnrR"

type fromOpts struct {
	dims        []string
	star        bool
	byName      bool
	trunc, rnd  time.Duration
	groupByCall string // the rendered .groupBy(...) property, "" = none
}

func optsOf(letters string) fromOpts {
	var o fromOpts
	for _, c := range letters {
		switch c {
		case 'g':
			o.dims, o.star, o.groupByCall = []string{"host"}, false, ".groupBy('host')"
		case 'G':
			o.dims, o.star, o.groupByCall = []string{"zone", "host"}, false, ".groupBy('zone', 'host')"
		case 'D':
			o.dims, o.star, o.groupByCall = []string{"host", "dc", "host"}, false, ".groupBy('host', 'dc', 'host')"
		case 'a':
			o.dims, o.star, o.groupByCall = nil, true, ".groupBy(*)"
		case 'm':
			o.byName = true
		case 't':
			o.trunc = time.Second
		case 'T':
			o.trunc = 7 * time.Second
		case 'n':
			o.trunc = -time.Second
		case 'r':
			o.rnd = time.Second
		case 'R':
			o.rnd = 7 * time.Second
		}
	}
	return o
}

// The where() predicates a from() may carry. `eval` is the harness' own reading of the lambda (the lambda
// evaluator itself is the subject of C04); an evaluation error counts as "does not pass" (stream.go matches()).
var preds = []struct {
	lambda string
	eval   func(p *point) bool
}{
	{`"v" > 5`, func(p *point) bool { return p.v > 5 }},
	{`"host" == 'a'`, func(p *point) bool { return p.host == "a" }},
	{`"v" % 2 == 0`, func(p *point) bool { return p.v%2 == 0 }},
	{`"nosuchfield" > 0`, func(p *point) bool { return false }}, // evaluation error => no match
	{`"v" >= 0`, func(p *point) bool { return true }},
}

func passOf(p *point) []int {
	var r []int
	for i := range preds {
		if preds[i].eval(p) {
			r = append(r, i)
		}
	}
	return r
}

// pass is derived from (v, host): v = id-derived, so a point token only needs id|name|v|host; the pass list is
// printed too (it is what the model consumes) and re-derived on replay.
func pointTok(p *point) string {
	ps := "-"
	if len(p.pass) > 0 {
		var s []string
		for _, k := range p.pass {
			s = append(s, strconv.Itoa(k))
		}
		ps = strings.Join(s, ";")
	}
	return fmt.Sprintf("%d|%s|%s|%d|%s|%s|%d", p.id, kit.Esc(p.name), ps, p.v, kit.Esc(p.host), kit.Esc(p.dc), p.t)
}

func parsePoint(tok string) (*point, error) {
	f := strings.Split(tok, "|")
	if len(f) != 5 && len(f) != 7 {
		return nil, fmt.Errorf("bad point %q", tok)
	}
	id, err := strconv.ParseInt(f[0], 10, 64)
	if err != nil {
		return nil, err
	}
	name, err := kit.Unesc(f[1])
	if err != nil {
		return nil, err
	}
	v, err := strconv.ParseInt(f[3], 10, 64)
	if err != nil {
		return nil, err
	}
	host, err := kit.Unesc(f[4])
	if err != nil {
		return nil, err
	}
	dc, t := "", origTime(id).UnixNano() // 5-field tokens (older corpus files): no second tag, the conventional time
	if len(f) == 7 {
		if dc, err = kit.Unesc(f[5]); err != nil {
			return nil, err
		}
		if t, err = strconv.ParseInt(f[6], 10, 64); err != nil {
			return nil, err
		}
	}
	if name == "" {
		// influxdb's models.Point keeps name and tags in one key (`name,tag=value`); with an empty name the tags
		// cannot be read back (a limitation of that library, not of kapacitor): such points carry no tags here
		host, dc = "", ""
	}
	p := &point{id: id, name: name, v: v, host: host, dc: dc, t: t}
	p.pass = passOf(p)
	return p, nil
}

func dbrpsTok(d [][2]string) string {
	if len(d) == 0 {
		return "-"
	}
	var s []string
	for _, x := range d {
		s = append(s, kit.Esc(x[0])+"|"+kit.Esc(x[1]))
	}
	return strings.Join(s, ",")
}

func parseDBRPs(tok string) ([][2]string, error) {
	if tok == "-" {
		return nil, nil
	}
	var out [][2]string
	for _, x := range strings.Split(tok, ",") {
		f := strings.Split(x, "|")
		if len(f) != 2 {
			return nil, fmt.Errorf("bad dbrp %q", x)
		}
		a, e1 := kit.Unesc(f[0])
		b, e2 := kit.Unesc(f[1])
		if e1 != nil || e2 != nil {
			return nil, fmt.Errorf("bad dbrp %q", x)
		}
		out = append(out, [2]string{a, b})
	}
	return out, nil
}

func fromsTok(fs []fromDef) string {
	var s []string
	for _, f := range fs {
		wh := "-"
		if f.wh >= 0 {
			wh = strconv.Itoa(f.wh)
		}
		tok := kit.Esc(f.db) + "|" + kit.Esc(f.rp) + "|" + kit.Esc(f.name) + "|" + wh
		if f.opts != "" || f.parent >= 0 || len(f.loops) > 0 {
			o, par := "-", "-"
			if f.opts != "" {
				o = f.opts
			}
			if f.parent >= 0 {
				par = strconv.Itoa(f.parent)
			}
			tok += "|" + o + "|" + par
		}
		if len(f.loops) > 0 {
			var ls []string
			for k := range f.loops {
				ls = append(ls, loopTok(&f.loops[k]))
			}
			tok += "|" + strings.Join(ls, "~")
		}
		s = append(s, tok)
	}
	return strings.Join(s, ",")
}

func parseFroms(tok string) ([]fromDef, error) {
	var out []fromDef
	for _, x := range strings.Split(tok, ",") {
		f := strings.Split(x, "|")
		if len(f) != 4 && len(f) != 6 && len(f) != 7 {
			return nil, fmt.Errorf("bad from %q", x)
		}
		db, e1 := kit.Unesc(f[0])
		rp, e2 := kit.Unesc(f[1])
		nm, e3 := kit.Unesc(f[2])
		if e1 != nil || e2 != nil || e3 != nil {
			return nil, fmt.Errorf("bad from %q", x)
		}
		wh := -1
		if f[3] != "-" {
			k, err := strconv.Atoi(f[3])
			if err != nil || k < 0 || k >= len(preds) {
				return nil, fmt.Errorf("bad where index %q", f[3])
			}
			wh = k
		}
		fd := fromDef{db: db, rp: rp, name: nm, wh: wh, parent: -1}
		if len(f) == 7 {
			for _, lt := range strings.Split(f[6], "~") {
				l, err := parseLoop(lt)
				if err != nil {
					return nil, err
				}
				fd.loops = append(fd.loops, l)
			}
		}
		if len(f) >= 6 {
			if f[4] != "-" {
				if strings.Trim(f[4], optLetters) != "" {
					return nil, fmt.Errorf("bad from options %q", f[4])
				}
				fd.opts = f[4]
			}
			if f[5] != "-" {
				j, err := strconv.Atoi(f[5])
				if err != nil || j < 0 || j >= len(out) {
					return nil, fmt.Errorf("bad parent %q", f[5])
				}
				fd.parent = j
			}
		}
		out = append(out, fd)
	}
	return out, nil
}

func tickStr(s string) string {
	return "'" + strings.ReplaceAll(strings.ReplaceAll(s, `\`, `\\`), `'`, `\'`) + "'"
}

// script renders the task: one `stream|from()…@sink()` statement per from-node. Pipeline node ids are assigned in
// creation order: stream0, from1, sink2, from3, sink4, … so the sink under from #i is node `sink<2i+2>`.
func script(d *taskDef) string {
	var b strings.Builder
	for i, f := range d.froms {
		src := "stream"
		if f.parent >= 0 {
			src = fmt.Sprintf("f%d", f.parent)
		}
		fmt.Fprintf(&b, "var f%d = %s\n    |from()\n", i, src)
		if f.db != "" {
			b.WriteString("        .database(" + tickStr(f.db) + ")\n")
		}
		if f.rp != "" {
			b.WriteString("        .retentionPolicy(" + tickStr(f.rp) + ")\n")
		}
		if f.name != "" {
			b.WriteString("        .measurement(" + tickStr(f.name) + ")\n")
		}
		if f.wh >= 0 {
			b.WriteString("        .where(lambda: " + preds[f.wh].lambda + ")\n")
		}
		o := optsOf(f.opts)
		if o.groupByCall != "" {
			b.WriteString("        " + o.groupByCall + "\n")
		}
		if o.byName {
			b.WriteString("        .groupByMeasurement()\n")
		}
		if o.trunc != 0 {
			fmt.Fprintf(&b, "        .truncate(%ds)\n", int64(o.trunc/time.Second))
		}
		if o.rnd != 0 {
			fmt.Fprintf(&b, "        .round(%ds)\n", int64(o.rnd/time.Second))
		}
		fmt.Fprintf(&b, "f%d\n    @sink()\n", i)
	}
	// the loopback nodes come last, so that the sinks keep their node ids
	for i, f := range d.froms {
		for k := range f.loops {
			fmt.Fprintf(&b, "f%d\n%s", i, loopScript(&f.loops[k]))
		}
	}
	return b.String()
}

func loopScript(l *loopDef) string {
	var b strings.Builder
	b.WriteString("    |kapacitorLoopback()\n")
	b.WriteString("        .database(" + tickStr(l.db) + ")\n")
	b.WriteString("        .retentionPolicy(" + tickStr(l.rp) + ")\n")
	if l.name != "" {
		b.WriteString("        .measurement(" + tickStr(l.name) + ")\n")
	}
	for _, kv := range l.tags {
		b.WriteString("        .tag(" + tickStr(kv[0]) + ", " + tickStr(kv[1]) + ")\n")
	}
	return b.String()
}

func sinkKey(id string, i int) string { return fmt.Sprintf("%s/sink%d", id, 2*i+2) }

// selects is the harness' own reading of the from() selection (used only to know how long to wait).
func selectsChain(d *taskDef, i int, db, rp string, p *point) bool {
	for j := i; j >= 0; j = d.froms[j].parent {
		if !selects(&d.froms[j], db, rp, p) {
			return false
		}
	}
	return true
}

func selects(f *fromDef, db, rp string, p *point) bool {
	if f.db != "" && f.db != db {
		return false
	}
	if f.rp != "" && f.rp != rp {
		return false
	}
	if f.name != "" && f.name != p.name {
		return false
	}
	if f.wh >= 0 {
		return preds[f.wh].eval(p)
	}
	return true
}

// ---------------------------------------------------------------------------------------------
// executing one case on the real TaskMaster

// snapStore is the TaskMaster's TaskStore: it has a (corrupt) snapshot exactly for the ids in `fail`.
type snapStore struct{ fail map[string]bool }

func (s *snapStore) SaveSnapshot(string, *kapacitor.TaskSnapshot) error { return nil }
func (s *snapStore) HasSnapshot(id string) bool                         { return s.fail[id] }
func (s *snapStore) LoadSnapshot(string) (*kapacitor.TaskSnapshot, error) {
	return nil, errSnapshot
}

var errSnapshot = fmt.Errorf("snapshot cannot be loaded")

const tmID = "verif" // kit.NewTM's TaskMaster id (tag `task_master` of the ingress statistics)

// A TaskMaster never unpublishes its ingress statistics (and tasks that were never started keep their node
// statistics), so the process-wide statistics map would grow with every case and make GetStatsData slow. The
// harness removes what a case published once its TaskMaster is closed (statistics only, nothing reads them).
func statKeys() map[string]bool {
	keys := map[string]bool{}
	if m, ok := expvar.Get(vars.Product).(*kexpvar.Map); ok && m != nil {
		m.Do(func(kv expvar.KeyValue) { keys[kv.Key] = true })
	}
	return keys
}

func dropStatsExcept(keep map[string]bool) {
	for k := range statKeys() {
		if !keep[k] {
			vars.DeleteStatistic(k)
		}
	}
}

func ingressSum() int64 {
	data, err := vars.GetStatsData()
	if err != nil {
		return -1
	}
	var sum int64
	for _, d := range data {
		if d.Name == "ingress" && d.Tags["task_master"] == tmID {
			if v, ok := d.Values["points_received"].(int64); ok {
				sum += v
			}
		}
	}
	return sum
}

// edgesBalanced reports whether every edge of the given tasks has emitted everything it collected, together
// with a fingerprint of the counters.
func edgeSnapshot(tasks map[string]bool) (balanced bool, fp string) {
	data, err := vars.GetStatsData()
	if err != nil {
		return false, ""
	}
	balanced = true
	var parts []string
	for _, d := range data {
		if d.Name != "edges" || !tasks[d.Tags["task"]] {
			continue
		}
		c, _ := d.Values["collected"].(int64)
		e, _ := d.Values["emitted"].(int64)
		if c != e {
			balanced = false
		}
		parts = append(parts, fmt.Sprintf("%s/%s/%s:%d:%d", d.Tags["task"], d.Tags["parent"], d.Tags["child"], c, e))
	}
	// order of the stats map is not stable: sort
	sortStrings(parts)
	return balanced, strings.Join(parts, " ")
}

func sortStrings(a []string) {
	for i := 1; i < len(a); i++ {
		for j := i; j > 0 && a[j] < a[j-1]; j-- {
			a[j], a[j-1] = a[j-1], a[j]
		}
	}
}

// once a wait has timed out (points were lost: the case will be judged SPECFAIL), later waits are kept short so
// that a broken implementation is reported quickly instead of running into the harness time-out
var shortWaits bool

type runner struct {
	tm         *kit.TM
	http       bool
	defRP      string
	running    map[string]*taskDef
	everDef    map[string]int // task id -> max number of from-nodes ever started under it
	order      []string       // task ids in first-start order
	expected   map[string]int // sink key -> number of points expected so far
	written    int64
	base       int64
	timeouts   int
	waitLimit  time.Duration
	store      *snapStore
	stream     kapacitor.StreamCollector // tm.Stream("c02"), made on first use
	lastSource string
	noise      int64 // points of the background writer handed to WritePoints so far (atomic)
	noiseStop  chan struct{}
	noiseDone  chan struct{}
	wrote      map[int64]*wpoint
	epochs     map[string][]epoch // sink key -> which from-node definition recorded from which index on
	hung       string             // set when a call into the real code did not return (the process must then exit)
	noiseSeen  int                // noise points found in the sinks' recordings (they were routed to tasks of the case)
	closed     bool               // Drain was called: WriteKapacitorPoint refuses every loopback write from now on
	batch      map[string]string  // running BATCH tasks (id -> token of their loopback node)
}

type epoch struct {
	from int // index into the sink's recording at which this incarnation begins
	def  *taskDef
	i    int
}

// startNoise (race-detector runs): a background goroutine hammers WritePoints while the case runs, so that forkPoint
// overlaps StartTask / a failing StartTask / StopTask / DeleteTask (which the harness otherwise serialises against the
// forking of the case's own points). Six of seven noise points go to the databases, retention policies and
// measurements the tasks of the case subscribe to: they ARE routed to the very edges delFork closes while they are
// on their way (a Collect on a closed edge is a process-killing panic: theorem never_sends_on_closed_edge says the
// model never does it, tm.mu is what must prevent it in the code); the seventh goes to a pair nobody declares. Noise
// points carry ids >= noiseBase; the sinks' recordings are read without them (realCount, sinkIDs), so the verdict on
// the case's own points is taken as in every other case.
const noiseBase = int64(1) << 40

func (r *runner) startNoise() {
	r.noiseStop, r.noiseDone = make(chan struct{}), make(chan struct{})
	go func() {
		defer close(r.noiseDone)
		rps := []string{"autogen", "r2", ""}
		for n := int64(0); ; n++ {
			select {
			case <-r.noiseStop:
				return
			default:
			}
			db, rp, name := genDBs[n%2], rps[(n/2)%3], genNames[(n/6)%int64(len(genNames))]
			if n%7 == 6 {
				db, rp, name = "d9", "noise", "noise"
			}
			mp, err := imodels.NewPoint(name, imodels.NewTags(map[string]string{"host": "a"}), imodels.Fields{"id": noiseBase + n, "v": n % 10}, baseTime)
			if err != nil {
				return
			}
			atomic.AddInt64(&r.noise, 1)
			if r.tm.TM.WritePoints(db, rp, imodels.ConsistencyLevelAll, []imodels.Point{mp}) != nil {
				atomic.AddInt64(&r.noise, -1)
				return
			}
			time.Sleep(40 * time.Microsecond)
		}
	}()
}

func isNoise(m edge.Message) bool {
	if pm, ok := m.(edge.PointMessage); ok {
		if id, ok := pm.Fields()["id"].(int64); ok {
			return id >= noiseBase
		}
	}
	return false
}

// realCount: how many points of the case (not noise) the sink holds.
func (r *runner) realCount(key string) int {
	msgs := r.tm.Rec.Get(key)
	if r.noiseDone == nil {
		return len(msgs)
	}
	n := 0
	for _, m := range msgs {
		if !isNoise(m) {
			n++
		}
	}
	return n
}

func (r *runner) stopNoise() {
	if r.noiseStop == nil {
		return
	}
	close(r.noiseStop)
	select {
	case <-r.noiseDone:
	case <-time.After(2 * time.Second): // the writer is stuck in WritePoints: the forking goroutine is blocked
	}
	r.noiseStop = nil
}

// call runs one call into the real code under a watchdog: a TaskMaster call that blocks for ever (e.g. StopTask
// waiting for an edge nobody closes) must end the case with an observation, not hang the harness.
func (r *runner) call(what string, f func() error) (error, bool) {
	if r.hung != "" {
		return nil, true
	}
	done := make(chan error, 1)
	pan := make(chan interface{}, 1)
	go func() {
		defer func() {
			if rec := recover(); rec != nil {
				pan <- rec
			}
		}()
		done <- f()
	}()
	select {
	case err := <-done:
		return err, false
	case rec := <-pan:
		panic(rec)
	case <-time.After(hangLimit):
		r.hung = what
		return nil, true
	}
}

var hangLimit = 10 * time.Second

func (r *runner) limit() time.Duration {
	if shortWaits || r.timeouts > 0 {
		return 150 * time.Millisecond
	}
	return r.waitLimit
}

func (r *runner) timedOut() {
	r.timeouts++
	shortWaits = true
}

func (r *runner) waitForked() {
	if r.hung != "" {
		return
	}
	deadline := time.Now().Add(r.limit())
	// The write_points edge is FIFO and the noise counter runs ahead of the noise actually queued, so once this many
	// points have been forked, every point of the case written so far is among them.
	want := r.written + atomic.LoadInt64(&r.noise)
	for i := 0; ; i++ {
		if ingressSum()-r.base >= want {
			return
		}
		if time.Now().After(deadline) {
			r.timedOut()
			return
		}
		if i < 20 {
			time.Sleep(50 * time.Microsecond)
		} else {
			time.Sleep(time.Millisecond)
		}
	}
}

// waitSinks waits until every sink of the given running tasks holds the expected number of points, then (best
// effort, matters only when the implementation delivers MORE than expected) until the tasks' edges are balanced
// and two consecutive counter snapshots agree.
func (r *runner) waitSinks(ids map[string]bool, settle bool) {
	if r.hung != "" {
		return
	}
	deadline := time.Now().Add(r.limit())
	for id := range ids {
		d := r.running[id]
		if d == nil {
			continue
		}
		for i := range d.froms {
			k := sinkKey(id, i)
			// A shortfall is certain long before the hard limit when everything has been forked and the task's
			// edges are balanced and have not moved for 400 ms: nothing more can arrive.
			prevFP, stableSince, lastSnap := "", time.Time{}, time.Time{}
			for n := 0; ; n++ {
				if r.realCount(k) >= r.expected[k] {
					break
				}
				now := time.Now()
				if now.After(deadline) {
					r.timedOut()
					break
				}
				if n >= 20 && now.Sub(lastSnap) > 20*time.Millisecond {
					lastSnap = now
					ok, fp := edgeSnapshot(map[string]bool{id: true})
					if ok && fp == prevFP {
						if now.Sub(stableSince) > 400*time.Millisecond {
							r.timedOut()
							break
						}
					} else {
						prevFP, stableSince = fp, now
					}
				}
				if n < 20 {
					time.Sleep(50 * time.Microsecond)
				} else {
					time.Sleep(time.Millisecond)
				}
			}
		}
	}
	if !settle || r.noiseStop != nil {
		return // (under the hammer the edges never come to rest)
	}
	prev := ""
	for n := 0; n < 200; n++ {
		ok, fp := edgeSnapshot(ids)
		if ok && fp == prev {
			return
		}
		prev = fp
		time.Sleep(500 * time.Microsecond)
	}
}

func (r *runner) start(d *taskDef, failSnapshot bool) string {
	var dbrps []kapacitor.DBRP
	for _, x := range d.dbrps {
		dbrps = append(dbrps, kapacitor.DBRP{Database: x[0], RetentionPolicy: x[1]})
	}
	if !d.selfLoop() && r.loopCycle(d) {
		return "skip:cycle" // not executed: the harness does not build cycles of loopback nodes
	}
	task, err := r.tm.TM.NewTask(d.id, script(d), kapacitor.StreamTask, dbrps, 0, nil)
	if err != nil {
		return "err:newtask"
	}
	r.waitForked()
	if r.running[d.id] != nil {
		// restart in place: the old incarnation's sinks share the recording keys, let them finish first
		r.waitSinks(map[string]bool{d.id: true}, true)
	}
	r.store.fail[d.id] = failSnapshot
	err, hung := r.call("StartTask "+d.id, func() error { _, e := r.tm.TM.StartTask(task); return e })
	delete(r.store.fail, d.id)
	if hung {
		return "hang"
	}
	if err != nil {
		if len(dbrps) == 0 {
			return "err:nodbrp"
		}
		if r.running[d.id] != nil {
			return "err:executing"
		}
		if strings.Contains(err.Error(), "loop detected") {
			return "err:loop"
		}
		if err == errSnapshot {
			return "err:snapshot"
		}
		return "err:start"
	}
	if failSnapshot {
		return "ok" // StartTask succeeded although the snapshot cannot be loaded
	}
	if _, seen := r.everDef[d.id]; !seen {
		r.order = append(r.order, d.id)
	}
	if len(d.froms) > r.everDef[d.id] {
		r.everDef[d.id] = len(d.froms)
	}
	r.running[d.id] = d
	for i := range d.froms {
		k := sinkKey(d.id, i)
		// an earlier incarnation of this id is stopped, so its sinks are final: the new one records from here on
		r.epochs[k] = append(r.epochs[k], epoch{from: len(r.tm.Rec.Get(k)), def: d, i: i})
	}
	return "ok"
}

func (r *runner) stop(id string, del bool) string {
	r.waitForked()
	r.waitSinks(map[string]bool{id: true}, true)
	err, hung := r.call("StopTask/DeleteTask "+id, func() error {
		if del {
			return r.tm.TM.DeleteTask(id)
		}
		return r.tm.TM.StopTask(id)
	})
	if hung {
		return "hang"
	}
	delete(r.running, id)
	if err != nil {
		return "err"
	}
	return "ok"
}

var baseTime = time.Unix(1700000000, 0).UTC()

func lpEsc(s string, measurement bool) string {
	s = strings.ReplaceAll(s, `\`, `\\`)
	s = strings.ReplaceAll(s, ",", `\,`)
	s = strings.ReplaceAll(s, " ", `\ `)
	if !measurement {
		s = strings.ReplaceAll(s, "=", `\=`)
	}
	return s
}

// origTime is the time a point is written with: 300 ms apart, so that truncate(1s)/round(1s) are visible.
func origTime(id int64) time.Time { return baseTime.Add(time.Duration(id) * 300 * time.Millisecond) }

// "x" is a precision the server does not know: it counts as nanoseconds
var precUnit = map[string]int64{"-": 1, "n": 1, "u": 1e3, "ms": 1e6, "s": 1e9, "m": 60e9, "h": 3600e9, "x": 1}

// what the harness remembers of a written point (to check what the sinks recorded)
type wpoint struct {
	p      *point
	db, rp string
	t      time.Time
}

func (r *runner) mkPoints(pts []*point) ([]imodels.Point, bool) {
	var mps []imodels.Point
	for _, p := range pts {
		tags := map[string]string{}
		if p.host != "" {
			tags["host"] = p.host
		}
		if p.dc != "" {
			tags["dc"] = p.dc
		}
		mp, err := imodels.NewPoint(p.name, imodels.NewTags(tags), imodels.Fields{"id": p.id, "v": p.v}, time.Unix(0, p.t).UTC())
		if err != nil {
			return nil, false
		}
		mps = append(mps, mp)
	}
	return mps, true
}

// post sends one body to the /write endpoint; db / rp / precision "" = parameter absent. flags (comma separated):
// gz = the body is sent gzip-compressed with `Content-Encoding: gzip`; gzhdr = that header on a body that is no gzip
// stream; gztrunc = a gzip stream cut short; cons = a `consistency` parameter (never read by kapacitor).
func (r *runner) post(db, rp, prec string, hasDB, hasRP bool, flags string, body []byte) string {
	var q []string
	gzHeader := false
	for _, fl := range strings.Split(flags, ",") {
		switch fl {
		case "gz", "gztrunc":
			var zb bytes.Buffer
			zw := gzip.NewWriter(&zb)
			zw.Write(body)
			zw.Close()
			body = zb.Bytes()
			if fl == "gztrunc" {
				body = body[:len(body)-6] // drop the trailer and the end of the deflate stream
			}
			gzHeader = true
		case "gzhdr":
			gzHeader = true
		case "cons":
			q = append(q, "consistency=bogus")
		}
	}
	if hasDB {
		q = append(q, "db="+urlEsc(db))
	}
	if hasRP {
		q = append(q, "rp="+urlEsc(rp))
	}
	if prec != "" && prec != "-" {
		q = append(q, "precision="+prec)
	}
	u := r.tm.HTTPD.URL() + "/write?" + strings.Join(q, "&")
	var resp *http.Response
	err, hung := r.call("POST /write", func() error {
		req, e := http.NewRequest("POST", u, bytes.NewReader(body))
		if e != nil {
			return e
		}
		req.Header.Set("Content-Type", "text/plain")
		if gzHeader {
			req.Header.Set("Content-Encoding", "gzip")
		}
		resp, e = http.DefaultClient.Do(req)
		return e
	})
	if hung {
		return "hang"
	}
	if err != nil {
		return "err:http"
	}
	resp.Body.Close()
	if resp.StatusCode != http.StatusNoContent {
		return "err:" + strconv.Itoa(resp.StatusCode)
	}
	return "ok"
}

// lpLine renders the point as a line with the integer time stamp ts (in the request's precision).
func lpLine(p *point, ts int64) string {
	tags := ""
	if p.dc != "" {
		tags += ",dc=" + lpEsc(p.dc, false)
	}
	if p.host != "" {
		tags += ",host=" + lpEsc(p.host, false)
	}
	return fmt.Sprintf("%s%s id=%di,v=%di %d\n", lpEsc(p.name, true), tags, p.id, p.v, ts)
}

// accepted does the book-keeping of points the implementation accepted.
func (r *runner) accepted(db, rp string, pts []*point, times map[int64]time.Time) {
	r.acceptedFrom(db, rp, pts, times, 0)
}

// acceptedFrom: depth > 0 = the points were written back by a loopback node (they are forked like every other point and
// counted by the ingress statistics; the harness' own cross-check of recorded points is only made for depth 0).
func (r *runner) acceptedFrom(db, rp string, pts []*point, times map[int64]time.Time, depth int) {
	r.written += int64(len(pts))
	erp := rp
	if erp == "" {
		erp = r.defRP
	}
	if depth == 0 {
		for _, p := range pts {
			t, ok := times[p.id]
			if !ok {
				t = time.Unix(0, p.t).UTC()
			}
			r.wrote[p.id] = &wpoint{p: p, db: db, rp: erp, t: t}
		}
	}
	for id, d := range r.running {
		declared := false
		for _, x := range d.dbrps {
			if x[0] == db && x[1] == erp {
				declared = true
			}
		}
		if !declared {
			continue
		}
		for i := range d.froms {
			for _, p := range pts {
				if selectsChain(d, i, db, erp, p) {
					r.expected[sinkKey(id, i)]++
					// every loopback node below this from-node writes the point back (refused after Drain)
					for k := range d.froms[i].loops {
						l := &d.froms[i].loops[k]
						if r.closed || depth >= 8 {
							continue
						}
						q := *p
						if l.name != "" {
							q.name = l.name
						}
						r.acceptedFrom(l.db, l.rp, []*point{&q}, nil, depth+1)
					}
				}
			}
		}
	}
}

// loopCycle: would starting d close a cycle of loopback nodes among the running tasks (points would circulate for ever)?
func (r *runner) loopCycle(d *taskDef) bool {
	edges := map[[2]string][][2]string{}
	add := func(t *taskDef) {
		for _, f := range t.froms {
			for _, l := range f.loops {
				for _, x := range t.dbrps {
					edges[x] = append(edges[x], [2]string{l.db, l.rp})
				}
			}
		}
	}
	for id, t := range r.running {
		if id != d.id {
			add(t)
		}
	}
	add(d)
	state := map[[2]string]int{}
	var visit func(x [2]string) bool
	visit = func(x [2]string) bool {
		if state[x] == 1 {
			return true
		}
		if state[x] == 2 {
			return false
		}
		state[x] = 1
		for _, y := range edges[x] {
			if visit(y) {
				return true
			}
		}
		state[x] = 2
		return false
	}
	for x := range edges {
		if visit(x) {
			return true
		}
	}
	return false
}

// source: WritePoints and a StreamCollector feed two different forking goroutines; the order between points of
// different sources is only defined once the earlier ones have been forked.
func (r *runner) source(which string) {
	if r.lastSource != "" && r.lastSource != which {
		r.waitForked()
	}
	r.lastSource = which
}

func (r *runner) write(db, rp string, pts []*point) string {
	r.source("writepoints")
	times := map[int64]time.Time{}
	if r.http {
		var body bytes.Buffer
		for _, p := range pts {
			body.WriteString(lpLine(p, p.t))
		}
		if obs := r.post(db, rp, "", true, true, "", body.Bytes()); obs != "ok" {
			return obs
		}
	} else {
		mps, ok := r.mkPoints(pts)
		if !ok {
			return "err:point"
		}
		err, hung := r.call("WritePoints", func() error { return r.tm.TM.WritePoints(db, rp, imodels.ConsistencyLevelAll, mps) })
		if hung {
			return "hang"
		}
		if err == kapacitor.ErrTaskMasterClosed {
			return "err:closed"
		}
		if err != nil {
			return "err:write"
		}
	}
	r.accepted(db, rp, pts, times)
	return "ok"
}

// swrite feeds points through a StreamCollector (the API replays and the upstream tests use); it is not closed by Drain.
func (r *runner) swrite(db, rp string, pts []*point) string {
	r.source("stream")
	if r.stream == nil {
		st, err := r.tm.TM.Stream("c02")
		if err != nil {
			return "err:stream"
		}
		r.stream = st
	}
	err, hung := r.call("StreamCollector.CollectPoint", func() error {
		for _, p := range pts {
			tags := models.Tags{}
			if p.host != "" {
				tags["host"] = p.host
			}
			if p.dc != "" {
				tags["dc"] = p.dc
			}
			pm := edge.NewPointMessage(p.name, db, rp, models.Dimensions{}, models.Fields{"id": p.id, "v": p.v}, tags, time.Unix(0, p.t).UTC())
			if e := r.stream.CollectPoint(pm); e != nil {
				return e
			}
		}
		return nil
	})
	if hung {
		return "hang"
	}
	if err != nil {
		return "err:write"
	}
	r.accepted(db, rp, pts, nil)
	return "ok"
}

// drain: TaskMaster.Drain. Everything written is forked and has reached the sinks before (Drain itself waits for the
// forking goroutine of WritePoints only).
func (r *runner) drain() string {
	r.waitForked()
	all := map[string]bool{}
	for id := range r.running {
		all[id] = true
	}
	r.waitSinks(all, true)
	if r.stream != nil {
		// Drain waits for EVERY forking goroutine: an open StreamCollector would block it (the upstream tests close theirs first)
		r.stream.Close()
		r.stream = nil
	}
	_, hung := r.call("TaskMaster.Drain", func() error { r.tm.TM.Drain(); return nil })
	if hung {
		return "hang"
	}
	r.running = map[string]*taskDef{}
	r.closed = true
	return "ok"
}

// bloop: the kapacitorLoopback() node of a BATCH task writes the points of one batch. The batch task
// (`batch|query(…)|kapacitorLoopback()…`, dbrp bd.autogen) is started on first use without StartBatching (no query is
// ever made) and fed through its BatchCollector, as replays do.
func (r *runner) bloop(id string, l *loopDef, bname string, pts []*point) string {
	r.source("writepoints")
	tok := loopTok(l)
	if cur, ok := r.batch[id]; ok && cur != tok {
		r.waitForked() // everything its node wrote back has been forked
		if _, hung := r.call("StopTask (batch) "+id, func() error { return r.stopBatch(id) }); hung {
			return "hang"
		}
	}
	if _, ok := r.batch[id]; !ok {
		scr := "batch\n    |query('SELECT * FROM \"bd\".\"autogen\".\"m\"')\n        .period(1s)\n        .every(1h)\n" + loopScript(l)
		task, err := r.tm.TM.NewTask(id, scr, kapacitor.BatchTask, []kapacitor.DBRP{{Database: "bd", RetentionPolicy: "autogen"}}, 0, nil)
		if err != nil {
			return "err:newtask"
		}
		err, hung := r.call("StartTask (batch) "+id, func() error { _, e := r.tm.TM.StartTask(task); return e })
		if hung {
			return "hang"
		}
		if err != nil {
			return "err:start"
		}
		r.batch[id] = tok
	}
	cs := r.tm.TM.BatchCollectors(id)
	if len(cs) != 1 {
		return "err:collectors"
	}
	var bps []edge.BatchPointMessage
	var tmax time.Time
	for _, p := range pts {
		tags := models.Tags{}
		if p.host != "" {
			tags["host"] = p.host
		}
		if p.dc != "" {
			tags["dc"] = p.dc
		}
		t := time.Unix(0, p.t).UTC()
		if t.After(tmax) {
			tmax = t
		}
		bps = append(bps, edge.NewBatchPointMessage(models.Fields{"id": p.id, "v": p.v}, tags, t))
	}
	bb := edge.NewBufferedBatchMessage(edge.NewBeginBatchMessage(bname, models.Tags{}, false, tmax, len(bps)), bps, edge.NewEndBatchMessage())
	err, hung := r.call("BatchCollector.CollectBatch", func() error { return cs[0].CollectBatch(bb) })
	if hung {
		return "hang"
	}
	if err != nil {
		return "err:write"
	}
	if !r.closed {
		var qs []*point
		for _, p := range pts {
			q := *p
			q.name = bname
			if l.name != "" {
				q.name = l.name // the node's measurement property (ignored on batch edges before the fix: commit of findings/C02.txt)
			}
			qs = append(qs, &q)
		}
		r.acceptedFrom(l.db, l.rp, qs, nil, 1)
	} else {
		// every write is refused: wait until the node has seen the whole batch (nothing else tells)
		time.Sleep(20 * time.Millisecond)
	}
	return "ok"
}

func (r *runner) stopBatch(id string) error {
	for _, bc := range r.tm.TM.BatchCollectors(id) {
		bc.Close()
	}
	delete(r.batch, id)
	return r.tm.TM.DeleteTask(id)
}

// malformed line-protocol lines (each makes models.ParsePointsWithPrecision fail)
var badLines = []string{"cpu_without_fields", "cpu v=", "cpu,host= v=1i", "cpu v=1i notatime"}

// one line of an hwrite body
type hline struct {
	p    *point // nil: no point
	ts   int64  // the integer time stamp of the line, in the request's precision
	bad  int    // p == nil: index into badLines, or
	skip int    // >= 0: a line without a point (0 = comment, 1 = blank)
}

var skipLines = []string{"# a comment", "   "}

// hwrite: one HTTP request.
func (r *runner) hwrite(db, rp, prec string, hasDB, hasRP bool, flags string, lines []hline) string {
	r.source("writepoints")
	var body bytes.Buffer
	times := map[int64]time.Time{}
	var good []*point
	for _, l := range lines {
		switch {
		case l.p != nil:
			body.WriteString(lpLine(l.p, l.ts))
			times[l.p.id] = time.Unix(0, l.ts*precUnit[prec]).UTC()
			good = append(good, l.p)
		case l.skip >= 0:
			body.WriteString(skipLines[l.skip%len(skipLines)] + "\n")
		default:
			body.WriteString(badLines[l.bad%len(badLines)] + "\n")
		}
	}
	obs := r.post(db, rp, prec, hasDB, hasRP, flags, body.Bytes())
	if obs == "ok" {
		r.accepted(db, rp, good, times)
	}
	return obs
}

// ---------------------------------------------------------------------------------------------
// UDP ingestion (services/udp): bytes of one datagram -> models.ParsePoints -> PointsWriter.WritePoints

type udpDiag struct{}

func (udpDiag) Error(string, error, ...keyvalue.T) {}
func (udpDiag) StartedListening(string)            {}
func (udpDiag) ClosedService()                     {}

// gateWriter is the PointsWriter the udp.Service is given: the TaskMaster's WritePoints behind a gate. While the gate is shut the
// call blocks before it has looked at a single point - which is what WritePoints does under back-pressure (tm.writesMu held by
// Drain/Close, or the write_points edge full); the points it is handed are only converted (mp.Name(), mp.Tags(), mp.Fields())
// once it runs. It records len(points) and the outcome of every call; a panic of the conversion is recovered here (the call runs
// on the service's own goroutine, it would kill the process).
type gateWriter struct {
	tm    *kapacitor.TaskMaster
	gate  chan struct{}
	mu    sync.Mutex
	calls []string
}

func (g *gateWriter) WritePoints(db, rp string, c imodels.ConsistencyLevel, pts []imodels.Point) (err error) {
	<-g.gate
	res := strconv.Itoa(len(pts))
	defer func() {
		if rec := recover(); rec != nil {
			res += "p"
			err = fmt.Errorf("panic in WritePoints")
		} else if err != nil {
			res += "e"
		}
		g.mu.Lock()
		g.calls = append(g.calls, res)
		g.mu.Unlock()
	}()
	return g.tm.WritePoints(db, rp, c, pts)
}

func (g *gateWriter) snapshot() []string {
	g.mu.Lock()
	defer g.mu.Unlock()
	return append([]string{}, g.calls...)
}

// udpStat reads one counter of the service listening on addr (a counter that was never incremented does not exist yet: 0).
func udpStat(addr, key string) int64 {
	data, err := vars.GetStatsData()
	if err != nil {
		return -1
	}
	for _, d := range data {
		if d.Name == "udp" && d.Tags["bind"] == addr {
			if v, ok := d.Values[key].(int64); ok {
				return v
			}
		}
	}
	return 0
}

const maxNanoTime = int64(^uint64(0)>>1) - 1 // influxdb models.MaxNanoTime; every generated stamp is far above MinNanoTime

// lineFails: the harness' own reading (for its waiting only) of which lines make models.ParsePoints return an error.
func (l *hline) fails() bool { return l.p == nil && l.skip < 0 || l.p != nil && l.ts > maxNanoTime }

func (r *runner) udp(db, rp, mode string, packets [][]hline) string {
	r.source("writepoints")
	g := &gateWriter{tm: r.tm.TM, gate: make(chan struct{})}
	opened := false
	open := func() {
		if !opened {
			opened = true
			close(g.gate)
		}
	}
	defer open()
	if mode != "held" {
		open()
	}
	svc := udp.NewService(udp.Config{Enabled: true, BindAddress: "127.0.0.1:0", Database: db, RetentionPolicy: rp}, udpDiag{})
	svc.PointsWriter = g
	if err := svc.Open(); err != nil {
		return "err:open pf=0 calls=-"
	}
	addr := svc.Addr().String()
	status := "ok"
	conn, err := net.DialUDP("udp", nil, svc.Addr())
	if err != nil {
		status = "err:dial"
	}
	var total int64
	if status == "ok" {
		for _, pk := range packets {
			var body bytes.Buffer
			for _, l := range pk {
				switch {
				case l.p != nil:
					body.WriteString(lpLine(l.p, l.ts))
				case l.skip >= 0:
					body.WriteString(skipLines[l.skip%len(skipLines)] + "\n")
				default:
					body.WriteString(badLines[l.bad%len(badLines)] + "\n")
				}
			}
			if n, err := conn.Write(body.Bytes()); err != nil || n != body.Len() {
				status = "err:send"
				break
			}
			total += int64(body.Len())
		}
		conn.Close()
	}
	poll := func(limit time.Duration, done func() bool) bool {
		deadline := time.Now().Add(limit)
		for i := 0; ; i++ {
			if done() {
				return true
			}
			if time.Now().After(deadline) {
				return false
			}
			if i < 40 {
				time.Sleep(50 * time.Microsecond)
			} else {
				time.Sleep(time.Millisecond)
			}
		}
	}
	// serve() has read every datagram (they are counted before they are handed to processPackets) ...
	if status == "ok" && !poll(3*time.Second, func() bool { return udpStat(addr, "bytes_rx") >= total }) {
		status = "err:rx"
	}
	// ... only now may the first WritePoints call go on
	open()
	var pf int64
	if status == "ok" && !poll(r.limit(), func() bool {
		pf = udpStat(addr, "points_parse_fail")
		return int64(len(g.snapshot()))+pf >= int64(len(packets))
	}) {
		status = "err:stuck"
	}
	pf = udpStat(addr, "points_parse_fail")
	if _, hung := r.call("udp.Service.Close", func() error { return svc.Close() }); hung {
		return "hang pf=0 calls=-"
	}
	calls := g.snapshot()
	if status == "ok" && !r.closed {
		for _, pk := range packets {
			var good []*point
			times := map[int64]time.Time{}
			bad := false
			for k := range pk {
				if pk[k].fails() {
					bad = true
				}
				if pk[k].p != nil {
					good = append(good, pk[k].p)
					times[pk[k].p.id] = time.Unix(0, pk[k].ts).UTC()
				}
			}
			if !bad && len(good) > 0 {
				r.accepted(db, rp, good, times)
			}
		}
	}
	cs := "-"
	if len(calls) > 0 {
		cs = strings.Join(calls, ";")
	}
	return fmt.Sprintf("%s pf=%d calls=%s", status, pf, cs)
}

// parseHLines: the lines of one body / datagram (`!k`, `#k`, `<point>@<ts>`), re-rendered with the harness' own oracle column.
func parseHLines(tok string) (lines []hline, toks []string, ok bool) {
	for _, x := range strings.Split(tok, ",") {
		if strings.HasPrefix(x, "!") || strings.HasPrefix(x, "#") {
			k, err := strconv.Atoi(x[1:])
			if err != nil || k < 0 {
				return nil, nil, false
			}
			if x[0] == '!' {
				lines = append(lines, hline{bad: k, skip: -1})
			} else {
				lines = append(lines, hline{skip: k})
			}
			toks = append(toks, x)
			continue
		}
		ptok, tsTok, hasTS := strings.Cut(x, "@")
		p, err := parsePoint(ptok)
		if err != nil || p.name == "" || !hasTS {
			return nil, nil, false
		}
		ts, err := strconv.ParseInt(tsTok, 10, 64)
		if err != nil {
			return nil, nil, false
		}
		lines, toks = append(lines, hline{p: p, ts: ts, skip: -1}), append(toks, pointTok(p)+"@"+strconv.FormatInt(ts, 10))
	}
	return lines, toks, true
}

// cwrite: several writers at once, one WritePoints call each.
func (r *runner) cwrite(db, rp string, writers [][]*point) string {
	r.source("writepoints")
	var batches [][]imodels.Point
	for _, w := range writers {
		mps, ok := r.mkPoints(w)
		if !ok {
			return "err:point"
		}
		batches = append(batches, mps)
	}
	err, hung := r.call("WritePoints (concurrent)", func() error {
		start := make(chan struct{})
		errs := make(chan error, len(batches))
		for _, b := range batches {
			b := b
			go func() {
				<-start
				errs <- r.tm.TM.WritePoints(db, rp, imodels.ConsistencyLevelAll, b)
			}()
		}
		close(start)
		var first error
		for range batches {
			if e := <-errs; e != nil && first == nil {
				first = e
			}
		}
		return first
	})
	if hung {
		return "hang"
	}
	if err != nil {
		return "err:write"
	}
	for _, w := range writers {
		r.accepted(db, rp, w, nil)
	}
	return "ok"
}

func urlEsc(s string) string {
	var b strings.Builder
	for i := 0; i < len(s); i++ {
		c := s[i]
		if c >= 'a' && c <= 'z' || c >= 'A' && c <= 'Z' || c >= '0' && c <= '9' {
			b.WriteByte(c)
		} else {
			fmt.Fprintf(&b, "%%%02X", c)
		}
	}
	return b.String()
}

// sinkIDs renders what a sink recorded, one token per point, in order:
//
//	<id>[!c][!t][!d]|<name>|<db>|<rp>|<time ns>|<byName 0/1>|<dimension tag names ;>|<tags k=v ;>|<fields k=v ;>
//
// (maps sorted by key). The Lean driver judges these against the documented point (spec) and the model. The suffixes
// are the harness' own, independent comparison with the written point, kept as a cross-check of the driver: `!c`
// content (name, db, rp, tags, fields), `!t` time (after the truncate / round of the from-nodes above the sink), `!d`
// dimensions (groupBy / groupByMeasurement of ITS from-node).
func (r *runner) sinkIDs(key string) string {
	msgs := r.tm.Rec.Get(key)
	eps := r.epochs[key]
	var s []string
	for n, m := range msgs {
		if isNoise(m) {
			r.noiseSeen++
			continue
		}
		pm, ok := m.(edge.PointMessage)
		if !ok {
			s = append(s, "x")
			continue
		}
		id, ok := pm.Fields()["id"].(int64)
		if !ok {
			s = append(s, "x")
			continue
		}
		tok := strconv.FormatInt(id, 10)
		var ep *epoch
		for k := range eps {
			if eps[k].from <= n {
				ep = &eps[k]
			}
		}
		_, looped := pm.Tags()["lb"] // written back by a loopback node (every generated one sets the tag lb): judged by the Lean driver only
		if w := r.wrote[id]; w != nil && ep != nil && !looped {
			host, hasHost := pm.Tags()["host"]
			dc, hasDC := pm.Tags()["dc"]
			v, _ := pm.Fields()["v"].(int64)
			nTags := 0
			if w.p.host != "" {
				nTags++
			}
			if w.p.dc != "" {
				nTags++
			}
			if pm.Name() != w.p.name || pm.Database() != w.db || pm.RetentionPolicy() != w.rp || v != w.p.v ||
				host != w.p.host || hasHost != (w.p.host != "") || dc != w.p.dc || hasDC != (w.p.dc != "") ||
				len(pm.Fields()) != 2 || len(pm.Tags()) != nTags {
				tok += "!c"
			}
			// time: the from-nodes from the top of the chain down to this one truncate, then round
			var chain []int
			for j := ep.i; j >= 0; j = ep.def.froms[j].parent {
				chain = append([]int{j}, chain...)
			}
			t := w.t
			for _, j := range chain {
				o := optsOf(ep.def.froms[j].opts)
				if o.trunc != 0 {
					t = t.Truncate(o.trunc)
				}
				if o.rnd != 0 {
					t = t.Round(o.rnd)
				}
			}
			if !pm.Time().Equal(t) {
				tok += "!t"
			}
			o := optsOf(ep.def.froms[ep.i].opts)
			want := append([]string{}, o.dims...)
			if o.star {
				want = nil
				if w.p.dc != "" {
					want = append(want, "dc")
				}
				if w.p.host != "" {
					want = append(want, "host")
				}
			}
			sortStrings(want)
			// a dimension named twice is one dimension (groupBy('host','dc','host') groups like groupBy('dc','host'))
			uniq := want[:0]
			for _, d := range want {
				if len(uniq) == 0 || uniq[len(uniq)-1] != d {
					uniq = append(uniq, d)
				}
			}
			want = uniq
			dims := pm.Dimensions()
			if dims.ByName != o.byName || strings.Join(dims.TagNames, ",") != strings.Join(want, ",") {
				tok += "!d"
			}
		}
		s = append(s, tok+"|"+obsPoint(pm))
	}
	if len(s) == 0 {
		return "-"
	}
	return strings.Join(s, ",")
}

// obsPoint renders everything a recorded PointMessage holds.
func obsPoint(pm edge.PointMessage) string {
	list := func(a []string) string {
		if len(a) == 0 {
			return "-"
		}
		return strings.Join(a, ";")
	}
	var tn, tags, fields []string
	for _, x := range pm.Dimensions().TagNames {
		tn = append(tn, kit.Esc(x))
	}
	for k, v := range pm.Tags() {
		tags = append(tags, kit.Esc(k)+"="+kit.Esc(v))
	}
	for k, v := range pm.Fields() {
		if i, ok := v.(int64); ok {
			fields = append(fields, kit.Esc(k)+"="+strconv.FormatInt(i, 10))
		} else {
			fields = append(fields, kit.Esc(k)+"=?")
		}
	}
	sortStrings(tags)
	sortStrings(fields)
	by := "0"
	if pm.Dimensions().ByName {
		by = "1"
	}
	return fmt.Sprintf("%s|%s|%s|%d|%s|%s|%s|%s", kit.Esc(pm.Name()), kit.Esc(pm.Database()), kit.Esc(pm.RetentionPolicy()),
		pm.Time().UnixNano(), by, list(tn), list(tags), list(fields))
}

// execCase runs the op lines of one case and returns them with observations. `final`/`quiesce` lines are
// (re)generated from what was started, so a shrunk or hand-written case needs none.
func execCase(ops []string) (out []string, hung string) {
	if len(ops) == 1 {
		if t := strings.Fields(ops[0]); len(t) >= 3 && t[0] == "hammer" {
			n, _ := strconv.Atoi(t[2])
			return hammerCase(t[1], n), ""
		}
	}
	r := &runner{running: map[string]*taskDef{}, everDef: map[string]int{}, expected: map[string]int{}, waitLimit: 8 * time.Second,
		wrote: map[int64]*wpoint{}, epochs: map[string][]epoch{}, batch: map[string]string{}}
	if s := os.Getenv("VERIF_C02_WAIT_MS"); s != "" {
		if v, err := strconv.Atoi(s); err == nil {
			r.waitLimit = time.Duration(v) * time.Millisecond
		}
	}
	var lines [][]string
	noisy := false
	for _, raw := range ops {
		line := raw
		if i := strings.Index(line, " => "); i >= 0 {
			line = line[:i]
		}
		t := strings.Fields(line)
		if len(t) == 0 || t[0] == "final" || t[0] == "quiesce" || t[0] == "race" {
			continue
		}
		if t[0] == "cfg" && len(t) >= 2 {
			r.defRP, _ = kit.Unesc(t[1])
			r.http = len(t) >= 3 && t[2] == "http"
			noisy = len(t) >= 4 && t[3] == "noise"
		}
		lines = append(lines, t)
	}
	statsBefore := statKeys()
	tm, err := kit.NewTM(kit.TMOpts{NoOpen: true})
	if err != nil {
		fmt.Fprintln(os.Stderr, "c02: cannot build TaskMaster:", err)
		os.Exit(4)
	}
	if len(statsBefore) == 0 {
		statsBefore = statKeys() // first case: keep what the shared services published
	}
	defer dropStatsExcept(statsBefore)
	r.tm = tm
	r.store = &snapStore{fail: map[string]bool{}}
	tm.TM.TaskStore = r.store
	tm.TM.DefaultRetentionPolicy = r.defRP
	if err := tm.TM.Open(); err != nil {
		fmt.Fprintln(os.Stderr, "c02: cannot open TaskMaster:", err)
		os.Exit(4)
	}
	tm.HTTPD.Handler.PointsWriter = tm.TM // the shared httpd service writes into this case's TaskMaster
	r.base = ingressSum()
	if noisy {
		r.startNoise()
	}
	guard := func(line string, f func() string) {
		defer func() {
			if rec := recover(); rec != nil {
				out = append(out, line+" => panic")
			}
		}()
		out = append(out, line+" => "+f())
	}
	for _, t := range lines {
		line := strings.Join(t, " ")
		if r.hung != "" {
			break
		}
		switch t[0] {
		case "cfg":
			out = append(out, line)
		case "start", "startfail":
			if len(t) != 4 {
				out = append(out, line+" => badop")
				continue
			}
			id, _ := kit.Unesc(t[1])
			dbrps, e1 := parseDBRPs(t[2])
			froms, e2 := parseFroms(t[3])
			if e1 != nil || e2 != nil {
				out = append(out, line+" => badop")
				continue
			}
			guard(line, func() string { return r.start(&taskDef{id: id, dbrps: dbrps, froms: froms}, t[0] == "startfail") })
		case "drain":
			guard(line, func() string { return r.drain() })
		case "bloop":
			if len(t) != 5 {
				out = append(out, line+" => badop")
				continue
			}
			id, _ := kit.Unesc(t[1])
			l, e1 := parseLoop(t[2])
			bname, e2 := kit.Unesc(t[3])
			var pts []*point
			var toks []string
			ok := e1 == nil && e2 == nil && l.db != "" && l.rp != "" && bname != "" && !(l.db == "bd" && l.rp == "autogen") &&
				r.everDef[id] == 0 && r.running[id] == nil // (a batch task must not reuse the id of a stream task: they share tm.tasks)
			if ok {
				for _, x := range strings.Split(t[4], ",") {
					p, err := parsePoint(x)
					if err != nil {
						ok = false
						break
					}
					pts, toks = append(pts, p), append(toks, pointTok(p))
				}
			}
			if !ok {
				out = append(out, line+" => badop")
				continue
			}
			line = fmt.Sprintf("bloop %s %s %s %s", t[1], t[2], t[3], strings.Join(toks, ","))
			guard(line, func() string { return r.bloop(id, &l, bname, pts) })
		case "swrite":
			if len(t) != 4 {
				out = append(out, line+" => badop")
				continue
			}
			db, _ := kit.Unesc(t[1])
			rp, _ := kit.Unesc(t[2])
			var pts []*point
			var toks []string
			ok := rp != ""
			for _, x := range strings.Split(t[3], ",") {
				p, err := parsePoint(x)
				if err != nil {
					ok = false
					break
				}
				pts, toks = append(pts, p), append(toks, pointTok(p))
			}
			if !ok {
				out = append(out, line+" => badop")
				continue
			}
			line = fmt.Sprintf("swrite %s %s %s", t[1], t[2], strings.Join(toks, ","))
			guard(line, func() string { return r.swrite(db, rp, pts) })
		case "stop", "delete":
			id, _ := kit.Unesc(t[1])
			guard(line, func() string { return r.stop(id, t[0] == "delete") })
		case "hwrite":
			if (len(t) != 5 && len(t) != 6) || precUnit[t[3]] == 0 {
				out = append(out, line+" => badop")
				continue
			}
			db, _ := kit.Unesc(t[1])
			rp, _ := kit.Unesc(t[2])
			flags := "-"
			if len(t) == 6 {
				flags = t[5]
			}
			var lines []hline
			var toks []string
			ok := true
			for _, x := range strings.Split(t[4], ",") {
				if strings.HasPrefix(x, "!") || strings.HasPrefix(x, "#") {
					k, err := strconv.Atoi(x[1:])
					if err != nil || k < 0 {
						ok = false
						break
					}
					if x[0] == '!' {
						lines = append(lines, hline{bad: k, skip: -1})
					} else {
						lines = append(lines, hline{skip: k})
					}
					toks = append(toks, x)
					continue
				}
				// <point>@<ts>; without @<ts> (older corpus files): the point's time in the request's precision
				ptok, tsTok, hasTS := strings.Cut(x, "@")
				p, err := parsePoint(ptok)
				if err != nil || p.name == "" {
					ok = false
					break
				}
				ts := p.t / precUnit[t[3]]
				if hasTS {
					if ts, err = strconv.ParseInt(tsTok, 10, 64); err != nil {
						ok = false
						break
					}
				}
				lines, toks = append(lines, hline{p: p, ts: ts, skip: -1}), append(toks, pointTok(p)+"@"+strconv.FormatInt(ts, 10))
			}
			if !ok {
				out = append(out, line+" => badop")
				continue
			}
			line = fmt.Sprintf("hwrite %s %s %s %s %s", t[1], t[2], t[3], strings.Join(toks, ","), flags)
			guard(line, func() string { return r.hwrite(db, rp, t[3], t[1] != "%", t[2] != "%", flags, lines) })
		case "udp":
			if len(t) != 5 || (t[3] != "flow" && t[3] != "held") {
				out = append(out, line+" => badop")
				continue
			}
			{
				db, _ := kit.Unesc(t[1])
				rp, _ := kit.Unesc(t[2])
				var packets [][]hline
				var ptoks []string
				ok := db != ""
				for _, pk := range strings.Split(t[4], "&") {
					lines, toks, good := parseHLines(pk)
					if !good {
						ok = false
						break
					}
					packets, ptoks = append(packets, lines), append(ptoks, strings.Join(toks, ","))
				}
				if !ok {
					out = append(out, line+" => badop")
					continue
				}
				line = fmt.Sprintf("udp %s %s %s %s", t[1], t[2], t[3], strings.Join(ptoks, "&"))
				guard(line, func() string { return r.udp(db, rp, t[3], packets) })
			}
		case "cwrite":
			if len(t) != 4 {
				out = append(out, line+" => badop")
				continue
			}
			db, _ := kit.Unesc(t[1])
			rp, _ := kit.Unesc(t[2])
			var writers [][]*point
			var wtoks []string
			ok := true
			for _, w := range strings.Split(t[3], "&") {
				var pts []*point
				var toks []string
				for _, x := range strings.Split(w, ",") {
					p, err := parsePoint(x)
					if err != nil {
						ok = false
						break
					}
					pts, toks = append(pts, p), append(toks, pointTok(p))
				}
				writers, wtoks = append(writers, pts), append(wtoks, strings.Join(toks, ","))
			}
			if !ok {
				out = append(out, line+" => badop")
				continue
			}
			line = fmt.Sprintf("cwrite %s %s %s", t[1], t[2], strings.Join(wtoks, "&"))
			guard(line, func() string { return r.cwrite(db, rp, writers) })
		case "write":
			if len(t) != 4 {
				out = append(out, line+" => badop")
				continue
			}
			db, _ := kit.Unesc(t[1])
			rp, _ := kit.Unesc(t[2])
			var pts []*point
			bad := false
			var toks []string
			for _, x := range strings.Split(t[3], ",") {
				p, err := parsePoint(x)
				if err != nil {
					bad = true
					break
				}
				pts = append(pts, p)
				toks = append(toks, pointTok(p))
			}
			if bad {
				out = append(out, line+" => badop")
				continue
			}
			// re-render the points so that the oracle column (pass) is always the harness' own
			line = fmt.Sprintf("write %s %s %s", t[1], t[2], strings.Join(toks, ","))
			guard(line, func() string { return r.write(db, rp, pts) })
		default:
			out = append(out, line+" => badop")
		}
	}
	// final read-out: everything forked, every running task's sinks complete and quiet, then close
	r.stopNoise()
	r.waitForked()
	if r.stream != nil && r.hung == "" {
		r.stream.Close() // its forking goroutine ends; everything it was given has been forked
	}
	all := map[string]bool{}
	for id := range r.running {
		all[id] = true
	}
	r.waitSinks(all, true)
	for id := range r.batch {
		id := id
		r.call("StopTask (batch) "+id, func() error { return r.stopBatch(id) })
	}
	if _, hung := r.call("TaskMaster.Close", func() error { tm.Close(); return nil }); hung {
		out = append(out, "close => hang")
	}
	tm.HTTPD.Handler.PointsWriter = nil
	for _, id := range r.order {
		for i := 0; i < r.everDef[id]; i++ {
			out = append(out, fmt.Sprintf("final %s %d => %s", kit.Esc(id), i, r.sinkIDs(sinkKey(id, i))))
		}
	}
	if noisy {
		out = append(out, fmt.Sprintf("race hammer => %d", r.noiseSeen))
	}
	out = append(out, fmt.Sprintf("quiesce => %d", r.timeouts))
	return out, r.hung
}

func emit(out *kit.Out, id string, lines []string) {
	out.Line("case", id)
	for _, l := range lines {
		out.Line(l)
	}
	out.Line("end")
	out.Flush()
}

// Run: `vh-c02 -seed S -n N [-tier thorough]` generates; `vh-c02 -ops file` re-executes the cases of a file.
func Run(args []string) int {
	f := kit.ParseFlags(args)
	out := kit.NewOut()
	defer out.Flush()
	if f.Ops != "" {
		lines, err := kit.ReadLines(f.Ops)
		if err != nil {
			fmt.Fprintln(os.Stderr, err)
			return 2
		}
		var cur []string
		id := ""
		for _, l := range lines {
			t := strings.Fields(l)
			switch {
			case len(t) == 2 && t[0] == "case":
				id, cur = t[1], nil
			case len(t) == 1 && t[0] == "end":
				lines, hung := execCase(cur)
				emit(out, id, lines)
				if hung != "" {
					fmt.Fprintf(os.Stderr, "c02: %s did not return within %v in case %s: the real code hangs\n", hung, hangLimit, id)
					return 3
				}
			default:
				cur = append(cur, l)
			}
		}
		return 0
	}
	r := kit.NewRand(f.Seed)
	if f.Tier == "hammerchild" {
		return hammerChild(f.Extra["variant"], f.N)
	}
	if f.Tier == "racechild" {
		// child process built with -race: concurrent-writer heavy cases
		for i := 0; i < f.N; i++ {
			lines, hung := execCase(genCase(r.Fork(), i, "racechild"))
			emit(out, fmt.Sprintf("rc%d", i), lines)
			if hung != "" {
				return 3
			}
		}
		return 0
	}
	if f.Tier == "thorough" {
		defer raceChild(out, f.Seed, f.N)
	}
	for i := 0; i < f.N; i++ {
		lines, hung := execCase(genCase(r.Fork(), i, f.Tier))
		emit(out, fmt.Sprintf("g%d", i), lines)
		if hung != "" {
			fmt.Fprintf(os.Stderr, "c02: %s did not return within %v in case g%d: the real code hangs\n", hung, hangLimit, i)
			return 3
		}
	}
	// the interleavings inside one forkPoint (hammer.go): every variant once per seed job
	for i, v := range hammerVariants {
		hn := 40000
		if v == "task" {
			hn = 20000
		}
		emit(out, fmt.Sprintf("h%d", i), hammerCase(v, hn))
	}
	return 0
}

// raceChild (thorough tier): rebuild this harness with the Go race detector and run cases under it (the routing path
// is shared by the writers' goroutines, the forking goroutine and StartTask/StopTask). Only one of the parallel seed
// jobs of a check run does it (lock file in the run's scratch dir). The child's cases are copied to the output and
// judged like every other case; a final case reports how many data races the detector printed (driver: SPECFAIL
// no-data-race when it is not 0). Same mechanism as harness/c12.
func raceChild(out *kit.Out, seed uint64, n int) {
	scratch := os.Getenv("VERIF_SCRATCH")
	if scratch == "" {
		return
	}
	lock, err := os.OpenFile(filepath.Join(scratch, "c02-race.lock"), os.O_CREATE|os.O_EXCL|os.O_WRONLY, 0o644)
	if err != nil {
		return // another seed job of this run does it
	}
	lock.Close()
	exe, err := os.Executable()
	if err != nil {
		emit(out, "race", []string{"race check tasks=0 => err:exe"})
		return
	}
	bin := filepath.Join(scratch, "vh-c02-race")
	build := exec.Command("go", "build", "-race", "-tags", "verif", "-o", bin, "./cmd/c02")
	build.Dir = filepath.Join(filepath.Dir(exe), "..", "harness")
	build.Env = append(os.Environ(), "GOFLAGS=-mod=mod", "GOPROXY=off", "CGO_ENABLED=1")
	if msg, err := build.CombinedOutput(); err != nil {
		fmt.Fprintln(os.Stderr, "c02: race build failed:", err, string(msg))
		emit(out, "race", []string{"race check tasks=0 => err:build"})
		return
	}
	defer os.Remove(bin)
	k := n / 25
	if k < 20 {
		k = 20
	}
	if k > 80 {
		k = 80
	}
	child := exec.Command(bin, "-seed", strconv.FormatUint(seed, 10), "-n", strconv.Itoa(k), "-tier", "racechild")
	child.Env = append(os.Environ(), "GORACE=exitcode=0")
	var so, se strings.Builder
	child.Stdout, child.Stderr = &so, &se
	if err := child.Run(); err != nil {
		fmt.Fprintln(os.Stderr, "c02: race child failed:", err, se.String())
		emit(out, "race", []string{fmt.Sprintf("race check tasks=%d => err:run", k)})
		return
	}
	for _, l := range strings.Split(so.String(), "\n") {
		if strings.TrimSpace(l) != "" {
			out.Line(l)
		}
	}
	races := strings.Count(se.String(), "WARNING: DATA RACE")
	if races > 0 {
		fmt.Fprintln(os.Stderr, se.String())
	}
	emit(out, "race", []string{fmt.Sprintf("race check tasks=%d => %d", k, races)})
}
