// Package c02 is the harness for property C02 (runs the real kapacitor code, prints op lines).
package c02

import (
	"fmt"
	"os"
)

// Run is replaced by the property's harness.
func Run(args []string) int {
	fmt.Fprintln(os.Stderr, "c02: harness not implemented yet")
	return 3
}
