package c02

import (
	"fmt"
	"strings"

	"verifharness/kit"
)

// ---------------------------------------------------------------------------------------------
// generator: branch-directed histories (see checks/C02.json "rule")

var (
	genDBs   = []string{"d1", "d2"}
	genRPs   = []string{"autogen", "r2"}
	genNames = []string{"cpu", "mem", "disk", "c p,u"}
	genIDs   = []string{"t1", "t2", "t3", "t4"}
)

func genFrom(r *kit.Rand, names []string) fromDef {
	f := fromDef{wh: -1}
	if r.Chance(2, 3) {
		f.name = kit.Pick(r, names)
	}
	if r.Chance(1, 5) {
		f.db = kit.Pick(r, genDBs)
	}
	if r.Chance(1, 5) {
		f.rp = kit.Pick(r, genRPs)
	}
	if r.Chance(1, 3) {
		f.wh = r.Intn(len(preds))
	}
	return f
}

func genTask(r *kit.Rand, id string, names []string, focus bool) *taskDef {
	d := genTask0(r, id, names, focus)
	for i := range d.froms {
		d.froms[i].parent = -1
	}
	// from() options that do not take part in the routing (checked on the recorded points)
	for i := range d.froms {
		if r.Chance(1, 4) {
			d.froms[i].opts = kit.Pick(r, []string{"g", "a", "m", "t", "r", "gt", "tr", "gm", "ar", "G", "D", "T", "R", "TR", "Tr", "GmT", "amtR", "n", "nr", "Dm"})
		}
	}
	// shallow-copy discipline: a re-stamping from() next to a plain sibling with the same selection
	if len(d.froms) > 0 && len(d.froms) < 3 && r.Chance(1, 6) {
		sib := d.froms[0]
		sib.opts = ""
		d.froms[0].opts = kit.Pick(r, []string{"tg", "Ta", "rm", "TRG"})
		d.froms = append(d.froms, sib)
	}
	// a from() chained below another from()
	if len(d.froms) > 0 && len(d.froms) < 4 && r.Chance(1, 4) {
		f := fromDef{wh: -1, parent: r.Intn(len(d.froms))}
		switch r.Intn(4) {
		case 0:
			f.name = kit.Pick(r, names)
		case 1:
			f.wh = r.Intn(len(preds))
		case 2:
			f.name = d.froms[f.parent].name
			f.wh = r.Intn(len(preds))
		}
		if r.Chance(1, 3) {
			f.opts = kit.Pick(r, []string{"g", "t", "r", "T", "R", "a", "Gm", "tr"})
		}
		d.froms = append(d.froms, f)
	}
	return d
}

func genTask0(r *kit.Rand, id string, names []string, focus bool) *taskDef {
	d := &taskDef{id: id}
	if focus {
		// crowded keys: every task declares d1.autogen, so several tasks share exact and empty-measurement keys
		d.dbrps = [][2]string{{"d1", "autogen"}}
		if r.Chance(1, 3) {
			d.dbrps = append(d.dbrps, [2]string{kit.Pick(r, genDBs), kit.Pick(r, genRPs)})
		}
		m := kit.Pick(r, names)
		switch r.Intn(6) {
		case 0, 1:
			d.froms = []fromDef{{name: m, wh: -1}}
		case 2:
			d.froms = []fromDef{{wh: -1}}
		case 3:
			d.froms = []fromDef{{name: m, wh: -1}, {wh: -1}}
		case 4:
			d.froms = []fromDef{{wh: r.Intn(len(preds))}, {name: m, wh: -1}}
		default:
			d.froms = []fromDef{{name: m, wh: -1}, {name: kit.Pick(r, names), wh: r.Intn(len(preds))}}
		}
		return d
	}
	// dbrps
	switch k := r.Intn(100); {
	case k < 4:
		// none: StartTask must refuse
	case k < 8:
		d.dbrps = [][2]string{{kit.Pick(r, genDBs), ""}} // declared with an empty rp
	default:
		n := r.Range(1, 3)
		seen := map[[2]string]bool{}
		for len(d.dbrps) < n {
			x := [2]string{kit.Pick(r, genDBs), kit.Pick(r, genRPs)}
			if seen[x] && r.Chance(3, 4) {
				continue // (a repeated pair is allowed now and then)
			}
			seen[x] = true
			d.dbrps = append(d.dbrps, x)
		}
	}
	m := kit.Pick(r, names)
	m2 := kit.Pick(r, names)
	switch r.Intn(10) {
	case 0:
		d.froms = []fromDef{{name: m, wh: -1}}
	case 1:
		d.froms = []fromDef{{wh: -1}}
	case 2, 3:
		// a selective and an unselective from(): subscribed under (db,rp,m) AND (db,rp,"")
		d.froms = []fromDef{{name: m, wh: -1}, {wh: -1}}
		if r.Bool() {
			d.froms[0], d.froms[1] = d.froms[1], d.froms[0]
		}
		if r.Chance(1, 3) {
			d.froms[r.Intn(2)].wh = r.Intn(len(preds))
		}
	case 4:
		// the same measurement twice: the fork key is listed twice
		d.froms = []fromDef{{name: m, wh: -1}, {name: m, wh: r.Intn(len(preds))}}
	case 5:
		d.froms = []fromDef{{name: m, wh: -1}, {name: m2, wh: -1}}
	case 6:
		d.froms = []fromDef{{name: m, db: kit.Pick(r, genDBs), wh: -1}, {rp: kit.Pick(r, genRPs), wh: -1}}
	default:
		n := r.Range(1, 3)
		for i := 0; i < n; i++ {
			d.froms = append(d.froms, genFrom(r, names))
		}
	}
	return d
}

// genPoint: tags host (always, unless the name is empty: see parsePoint) and dc (half of the points), times 300 ms apart so
// that truncate / round are visible and halfway values (…500 ms) occur.
func genPoint(r *kit.Rand, id int64, name string) *point {
	p := &point{id: id, name: name, v: int64(r.Intn(10)), host: kit.Pick(r, []string{"a", "b"}), dc: kit.Pick(r, []string{"", "", "x", "y"}),
		t: origTime(id).UnixNano()}
	if name == "" {
		p.host, p.dc = "", ""
	}
	return p
}

func startLine(d *taskDef) string {
	return fmt.Sprintf("start %s %s %s", kit.Esc(d.id), dbrpsTok(d.dbrps), fromsTok(d.froms))
}

// genLoopCase: histories with kapacitorLoopback() nodes. Levels keep the loops acyclic: external pairs (d1/d2) are level 0,
// lo1.lr level 1, lo2.lr level 2; a task only loops into a level above every pair it declares. t1 is fed by external writers and
// writes back into lo1 (or lo2), t2 declares lo1.lr (sometimes an external pair too: its sinks see both sources interleaved) and
// may write back into lo2, t3 declares lo2.lr and/or lo1.lr, t4 is a task that loops into its own pair (refused) or an ordinary
// one; a batch task's loopback node (bloop) writes into lo1 / lo2 as well. Calls stay small (the C07 finding
// loopback-stop-deadlock needs a full write_points edge).
func genLoopCase(r *kit.Rand, idx int) []string {
	var ops []string
	defRP := kit.Pick(r, []string{"autogen", "autogen", "r2", ""})
	ops = append(ops, fmt.Sprintf("cfg %s api", kit.Esc(defRP)))
	names := genNames[:r.Range(2, 3)]
	wnames := append(append([]string{}, names...), "other")
	lo := [][2]string{{"lo1", "lr"}, {"lo2", "lr"}}
	var pid int64
	mkLoop := func(level int, lb string) loopDef {
		l := loopDef{db: lo[level-1][0], rp: lo[level-1][1], tags: [][2]string{{"lb", lb}}}
		switch r.Intn(4) {
		case 0:
			l.name = "looped"
		case 1:
			l.name = kit.Pick(r, names)
		}
		if r.Chance(1, 3) {
			l.tags = [][2]string{{"dc", "z"}, {"lb", lb}} // dc: a tag half of the points carry
		}
		if r.Chance(1, 5) {
			l.tags = append(l.tags, [2]string{"zone", "e u"})
		}
		return l
	}
	genDef := func(id string) *taskDef {
		var d *taskDef
		switch id {
		case "t1":
			d = genTask(r, id, names, false)
			if len(d.dbrps) == 0 || d.dbrps[0][1] == "" {
				d.dbrps = [][2]string{{"d1", "autogen"}}
			}
			if r.Chance(1, 2) {
				d.dbrps = [][2]string{{"d1", "autogen"}} // the pair most writes go to
			}
			if len(d.froms) == 0 {
				d.froms = []fromDef{{wh: -1, parent: -1}}
			}
			i := r.Intn(len(d.froms))
			d.froms[i].loops = append(d.froms[i].loops, mkLoop(1+r.Intn(5)/4, "1"))
			if r.Chance(1, 4) {
				j := r.Intn(len(d.froms))
				d.froms[j].loops = append(d.froms[j].loops, mkLoop(r.Range(1, 2), "3"))
			}
			if r.Chance(1, 8) {
				d.froms[i].loops = nil // sometimes restarted without its loopback node
			}
		case "t2":
			d = &taskDef{id: id, dbrps: [][2]string{lo[0]}}
			if r.Chance(1, 3) {
				d.dbrps = append(d.dbrps, [2]string{"d1", "autogen"})
			}
			switch r.Intn(4) {
			case 0:
				d.froms = []fromDef{{wh: -1, parent: -1}}
			case 1:
				d.froms = []fromDef{{name: kit.Pick(r, append([]string{"looped"}, names...)), wh: -1, parent: -1}, {wh: -1, parent: -1}}
			case 2:
				d.froms = []fromDef{{wh: r.Intn(len(preds)), parent: -1, opts: kit.Pick(r, []string{"", "t", "g", "ar"})}}
			default:
				d.froms = []fromDef{{name: "looped", wh: -1, parent: -1}, {db: "lo1", wh: -1, parent: -1}}
			}
			if r.Chance(1, 2) {
				i := r.Intn(len(d.froms))
				d.froms[i].loops = append(d.froms[i].loops, mkLoop(2, "2"))
			}
		case "t3":
			d = &taskDef{id: id, dbrps: [][2]string{lo[1]}}
			if r.Chance(1, 2) {
				d.dbrps = append(d.dbrps, lo[0])
			}
			if r.Chance(1, 4) {
				d.dbrps = append(d.dbrps, [2]string{kit.Pick(r, genDBs), "autogen"})
			}
			d.froms = []fromDef{{wh: -1, parent: -1}}
			if r.Chance(1, 3) {
				d.froms = append(d.froms, fromDef{name: kit.Pick(r, append([]string{"looped", "bat"}, names...)), wh: -1, parent: -1})
			}
		default:
			d = genTask(r, id, names, false)
			if r.Chance(1, 2) && len(d.dbrps) > 0 && d.dbrps[0][1] != "" && len(d.froms) > 0 {
				// loops into one of its own pairs: "loop detected", StartTask refuses
				x := d.dbrps[r.Intn(len(d.dbrps))]
				if x[1] != "" {
					d.froms[0].loops = []loopDef{{db: x[0], rp: x[1], tags: [][2]string{{"lb", "4"}}}}
				}
			}
		}
		return d
	}
	ids := []string{"t1", "t2", "t3", "t4"}[:r.Range(2, 4)]
	running := map[string]bool{}
	drained := false
	doStart := func(id string) {
		d := genDef(id)
		ops = append(ops, startLine(d))
		if len(d.dbrps) > 0 && !d.selfLoop() {
			running[id] = true
		}
	}
	pts := func(n int, nm []string) string {
		var toks []string
		for i := 0; i < n; i++ {
			pid++
			p := genPoint(r, pid, kit.Pick(r, nm))
			p.pass = passOf(p)
			toks = append(toks, pointTok(p))
		}
		return strings.Join(toks, ",")
	}
	doWrite := func() {
		db, rp := "d1", kit.Pick(r, []string{"autogen", "autogen", ""})
		switch r.Intn(10) {
		case 0:
			db = "d2"
		case 1:
			rp = "r2"
		case 2:
			db, rp = kit.Pick(r, []string{"lo1", "lo2"}), "lr" // an external writer into a loop target
		}
		n := r.Range(1, 6)
		if r.Chance(1, 8) {
			n = r.Range(10, 40)
		}
		verb := "write"
		if drained {
			verb = "swrite"
			if rp == "" {
				rp = "autogen"
			}
		} else if r.Chance(1, 8) {
			ops = append(ops, genUDP(r, db, rp, names, &pid)) // the points reach the looping tasks through the UDP listener
			return
		}
		ops = append(ops, fmt.Sprintf("%s %s %s %s", verb, kit.Esc(db), kit.Esc(rp), pts(n, wnames)))
	}
	doBatch := func() {
		l := mkLoop(r.Range(1, 2), "7")
		ops = append(ops, fmt.Sprintf("bloop b1 %s %s %s", loopTok(&l), kit.Pick(r, []string{"bat", "cpu", "looped"}), pts(r.Range(1, 4), []string{"m"})))
	}
	doStart("t1")
	doStart("t2")
	for _, id := range ids[2:] {
		if r.Chance(2, 3) {
			doStart(id)
		}
	}
	nOps := r.Range(8, 30)
	drainAt := -1
	if r.Chance(1, 5) {
		drainAt = nOps/2 + r.Intn(nOps/2)
	}
	for i := 0; i < nOps; i++ {
		if i == drainAt {
			ops = append(ops, "drain")
			drained, running = true, map[string]bool{}
			continue
		}
		switch k := r.Intn(100); {
		case k < 55:
			doWrite()
		case k < 63:
			doBatch()
		case k < 80:
			// the task store's update of an enabled task (changed dbrps / loops / from-nodes): StopTask + StartTask
			id := kit.Pick(r, ids)
			if running[id] {
				ops = append(ops, "stop "+kit.Esc(id))
				delete(running, id)
				if r.Chance(1, 3) {
					doWrite()
				}
			}
			doStart(id)
		case k < 92:
			id := kit.Pick(r, ids)
			ops = append(ops, kit.Pick(r, []string{"stop ", "stop ", "delete "})+kit.Esc(id))
			delete(running, id)
		default:
			id := kit.Pick(r, ids)
			if running[id] {
				doStart(id) // live: refused
			} else {
				doWrite()
			}
		}
	}
	doWrite()
	return ops
}

// genUDP: one `udp` op: 1-5 datagrams of 1-6 points (now and then 10-40), half of the ops at least two datagrams with points back to
// back; a malformed line / an out-of-range time stamp (the datagram is dropped whole), comment and blank lines, a datagram without
// any point; two out of three ops hold the first WritePoints call back until every datagram has been read.
func genUDP(r *kit.Rand, db, rp string, names []string, pid *int64) string {
	mode := kit.Pick(r, []string{"held", "held", "flow"})
	nPk := r.Range(1, 5)
	if r.Chance(1, 2) && nPk < 2 {
		nPk = 2
	}
	var pks []string
	for k := 0; k < nPk; k++ {
		if r.Chance(1, 12) {
			pks = append(pks, fmt.Sprintf("#%d", r.Intn(2))) // no point at all
			continue
		}
		n := r.Range(1, 6)
		if r.Chance(1, 10) {
			n = r.Range(10, 40)
		}
		badAt := -1
		if r.Chance(1, 7) {
			badAt = r.Intn(n + 1)
		}
		var toks []string
		for j := 0; j <= n; j++ {
			if j == badAt {
				toks = append(toks, fmt.Sprintf("!%d", r.Intn(len(badLines))))
			}
			if r.Chance(1, 10) {
				toks = append(toks, fmt.Sprintf("#%d", r.Intn(2)))
			}
			if j == n {
				break
			}
			*pid++
			p := genPoint(r, *pid, kit.Pick(r, names))
			p.pass = passOf(p)
			ts := p.t
			if r.Chance(1, 40) {
				ts = maxNanoTime + 1 // outside the range models.CheckTime accepts: the line fails
			}
			toks = append(toks, pointTok(p)+"@"+fmt.Sprint(ts))
		}
		pks = append(pks, strings.Join(toks, ","))
	}
	return fmt.Sprintf("udp %s %s %s %s", kit.Esc(db), kit.Esc(rp), mode, strings.Join(pks, "&"))
}

func genCase(r *kit.Rand, idx int, tier string) []string {
	if tier != "racechild" && idx%4 == 1 {
		return genLoopCase(r, idx)
	}
	var ops []string
	defRP := kit.Pick(r, []string{"autogen", "autogen", "r2", ""})
	mode := "api"
	if tier == "thorough" && idx%4 == 3 {
		mode = "http"
	}
	if tier == "racechild" {
		mode = "api noise" // forkPoint keeps running while tasks start and stop
	}
	ops = append(ops, fmt.Sprintf("cfg %s %s", kit.Esc(defRP), mode))
	names := genNames[:r.Range(2, len(genNames))]
	focus := r.Chance(2, 5)
	if focus {
		names = genNames[:r.Range(1, 2)]
	}
	wnames := append([]string{}, names...)
	wnames = append(wnames, "other")
	if mode == "api" && r.Chance(1, 4) {
		wnames = append(wnames, "") // a point without a measurement name (possible through the Go API only)
	}
	nTasks := r.Range(1, 4)
	if focus {
		nTasks = r.Range(3, 4)
	}
	ids := genIDs[:nTasks]
	running := map[string]*taskDef{}
	defs := map[string]*taskDef{}
	var pid int64
	nOps := r.Range(8, 40)
	if idx%12 == 5 {
		nOps = r.Range(40, 90)
	}
	doStart := func(id string) {
		d := defs[id]
		if d == nil || r.Chance(1, 3) {
			d = genTask(r, id, names, focus)
			defs[id] = d
		}
		ops = append(ops, startLine(d))
		if len(d.dbrps) > 0 {
			running[id] = d
		}
	}
	doWrite := func(n int) {
		db := kit.Pick(r, genDBs)
		if r.Chance(1, 12) {
			db = "d3"
		}
		rp := kit.Pick(r, []string{"autogen", "r2", "", "autogen", "r2", ""})
		if r.Chance(1, 12) {
			rp = "r3"
		}
		if focus && r.Chance(2, 3) {
			db, rp = "d1", "autogen"
			if defRP == "autogen" && r.Chance(1, 3) {
				rp = ""
			}
		}
		var toks []string
		for i := 0; i < n; i++ {
			pid++
			p := genPoint(r, pid, kit.Pick(r, wnames))
			p.pass = passOf(p)
			toks = append(toks, pointTok(p))
		}
		ops = append(ops, fmt.Sprintf("write %s %s %s", kit.Esc(db), kit.Esc(rp), strings.Join(toks, ",")))
	}
	drainAt := -1
	if r.Chance(1, 4) {
		drainAt = nOps/2 + r.Intn(nOps/2+1)
	}
	drained := false
	doSWrite := func() {
		db, rp := kit.Pick(r, genDBs), kit.Pick(r, genRPs)
		if focus && r.Chance(2, 3) {
			db, rp = "d1", "autogen"
		}
		var toks []string
		for j := r.Range(1, 4); j > 0; j-- {
			pid++
			p := genPoint(r, pid, kit.Pick(r, wnames))
			p.pass = passOf(p)
			toks = append(toks, pointTok(p))
		}
		ops = append(ops, fmt.Sprintf("swrite %s %s %s", kit.Esc(db), kit.Esc(rp), strings.Join(toks, ",")))
	}
	doHWrite := func() {
		// one HTTP request: precision, absent rp / db parameter, possibly a malformed line somewhere in the body
		db := kit.Esc(kit.Pick(r, genDBs))
		if r.Chance(1, 10) {
			db = "%"
		}
		rp := kit.Esc(kit.Pick(r, []string{"autogen", "r2", "", ""}))
		if focus && r.Chance(1, 2) {
			db, rp = "d1", "autogen"
		}
		n := r.Range(1, 5)
		badAt := -1
		if r.Chance(1, 3) {
			badAt = r.Intn(n + 1)
		}
		prec := kit.Pick(r, []string{"-", "n", "u", "ms", "s", "m", "h", "x"})
		var toks []string
		for j := 0; j <= n; j++ {
			if j == badAt {
				toks = append(toks, fmt.Sprintf("!%d", r.Intn(len(badLines))))
			}
			if r.Chance(1, 8) {
				toks = append(toks, fmt.Sprintf("#%d", r.Intn(2))) // a comment / a blank line
			}
			if j == n {
				break
			}
			pid++
			p := genPoint(r, pid, kit.Pick(r, names))
			p.pass = passOf(p)
			ts := p.t / precUnit[prec]
			if r.Chance(1, 12) {
				// a time stamp that leaves the int64 ns range under precision h (the whole request is refused) and is a
				// perfectly good one under every other precision
				ts = 2562048
			}
			toks = append(toks, pointTok(p)+"@"+fmt.Sprint(ts))
		}
		flags := kit.Pick(r, []string{"-", "-", "-", "gz", "gz", "cons", "gz,cons", "gzhdr", "gztrunc"})
		ops = append(ops, fmt.Sprintf("hwrite %s %s %s %s %s", db, rp, prec, strings.Join(toks, ","), flags))
	}
	doUDP := func() {
		db, rp := kit.Pick(r, genDBs), kit.Pick(r, []string{"autogen", "r2", "", "autogen"})
		if focus && r.Chance(2, 3) {
			db, rp = "d1", "autogen"
		}
		ops = append(ops, genUDP(r, db, rp, names, &pid))
	}
	doStart(ids[0])
	if focus {
		for _, id := range ids[1:] {
			if r.Chance(3, 4) {
				doStart(id)
			}
		}
	}
	for i := 0; i < nOps; i++ {
		if i == drainAt {
			// Drain: the executions end but stay in tm.tasks; afterwards WritePoints is refused, points come through a
			// StreamCollector, and every id may be started again (a live one still may not)
			ops = append(ops, "drain")
			drained = true
			running = map[string]*taskDef{}
			continue
		}
		if tier != "racechild" && r.Chance(1, 14) {
			doUDP() // (after a drain: every WritePoints call of the service is refused)
			continue
		}
		if drained {
			switch k := r.Intn(100); {
			case k < 45:
				doSWrite()
			case k < 50:
				doWrite(r.Range(1, 3)) // refused: err:closed (err:500 in http mode)
			case k < 55:
				doHWrite() // parsed, then refused: 500 (or 400 when the request is bad anyway)
			case k < 80:
				id := kit.Pick(r, ids)
				if running[id] != nil && r.Chance(1, 2) {
					ops = append(ops, "stop "+kit.Esc(id))
					delete(running, id)
				}
				doStart(id) // an ended execution: accepted; a live one: refused
			case k < 92:
				id := kit.Pick(r, ids)
				ops = append(ops, "stop "+kit.Esc(id))
				delete(running, id)
			default:
				id := kit.Pick(r, ids)
				ops = append(ops, "delete "+kit.Esc(id))
				delete(running, id)
			}
			continue
		}
		if r.Chance(1, 25) {
			doSWrite()
			continue
		}
		switch k := r.Intn(100); {
		case k < 7:
			doHWrite()
		case k < 13:
			// several writers at once
			db, rp := kit.Pick(r, genDBs), kit.Pick(r, []string{"autogen", "r2", ""})
			if focus {
				db, rp = "d1", "autogen"
			}
			var ws []string
			for w := r.Range(2, 4); w > 0; w-- {
				var toks []string
				for j := r.Range(3, 40); j > 0; j-- {
					pid++
					p := genPoint(r, pid, kit.Pick(r, wnames))
					p.pass = passOf(p)
					toks = append(toks, pointTok(p))
				}
				ws = append(ws, strings.Join(toks, ","))
			}
			ops = append(ops, fmt.Sprintf("cwrite %s %s %s", kit.Esc(db), kit.Esc(rp), strings.Join(ws, "&")))
		case k < 58:
			n := r.Range(1, 4)
			if r.Chance(1, 10) {
				n = r.Range(5, 40)
			}
			doWrite(n)
		case k < 76:
			id := kit.Pick(r, ids)
			if running[id] != nil && r.Chance(1, 6) {
				// StartTask of an id that is executing (same or another definition): must be refused, nothing changes
				d := defs[id]
				if r.Bool() {
					d = genTask(r, id, names, focus)
				}
				if len(d.dbrps) > 0 {
					ops = append(ops, startLine(d))
					continue
				}
			}
			if running[id] != nil {
				// the task store's way: stop, maybe write, start again
				ops = append(ops, "stop "+kit.Esc(id))
				delete(running, id)
				if r.Bool() {
					doWrite(r.Range(1, 3))
				}
			}
			doStart(id)
		case k < 80:
			// a start that fails after the fork was made (snapshot cannot be loaded), of an id that is not executing
			id := kit.Pick(r, genIDs)
			if running[id] == nil {
				d := genTask(r, id, names, focus)
				ops = append(ops, "startfail"+startLine(d)[len("start"):])
			}
		case k < 91:
			id := kit.Pick(r, ids)
			ops = append(ops, "stop "+kit.Esc(id)) // possibly not running: no-op
			delete(running, id)
		default:
			id := kit.Pick(r, ids)
			ops = append(ops, "delete "+kit.Esc(id))
			delete(running, id)
		}
	}
	if (tier == "thorough" && idx%25 == 7) || (tier != "thorough" && idx%60 == 7) {
		// more than one edge buffer (1000) in a single call
		if !drained {
			doWrite(1500)
		}
	}
	if drained {
		doSWrite()
	} else {
		doWrite(r.Range(1, 4))
	}
	return ops
}
