// Stop-while-writing hammer (every tier): the interleavings INSIDE one forkPoint, which the sequential histories never
// reach. A CHILD process (this harness, `-tier hammerchild`) runs a real TaskMaster with
//
//   - one KEEPER subscribed to (db, rp, cpu): its input edge is read by a goroutine that records the ids it gets,
//   - 3 FLIPPERS subscribed to the same points that are started and stopped in a loop as fast as possible:
//     variant `fork`    tm.NewFork / tm.DelFork on the exact measurement key (what StartTask / StopTask do for the routing),
//     variant `forkall` tm.NewFork / tm.DelFork on the whole db.rp (empty-measurement key),
//     variant `task`    real stream tasks: tm.StartTask / tm.StopTask,
//   - one writer that writes points 0..n-1 through TaskMaster.WritePoints (batches of 1-7) and then Drains.
//
// The child prints what the keeper recorded; the parent prints the op line
//
//	hammer <variant> <n> => <ok|crash|hang|err> <flips: 0|1> <points WritePoints accepted> <ranges of ids the keeper recorded, e.g. 0-19999>
//
// A goroutine of the real code that panics (send on an edge that delFork closed) kills the CHILD, never the harness:
// observation `crash`. The verdict is the Lean spec's (Kap.C02.Lock.hammerSpec): no crash, keeper = 0..written-1.
package c02

import (
	"bytes"
	"fmt"
	"os"
	"os/exec"
	"strconv"
	"strings"
	"sync"
	"sync/atomic"
	"time"

	imodels "github.com/influxdata/influxdb/models"
	"github.com/influxdata/kapacitor"
	"github.com/influxdata/kapacitor/edge"

	"verifharness/kit"
)

var hammerVariants = []string{"fork", "forkall", "task"}

const hammerWall = 2500 * time.Millisecond // the writer stops early after this (then n is not reached: observation err)

func ranges(ids []int64) string {
	if len(ids) == 0 {
		return "-"
	}
	var parts []string
	lo, hi := ids[0], ids[0]
	for _, x := range ids[1:] {
		if x == hi+1 {
			hi = x
			continue
		}
		parts = append(parts, fmt.Sprintf("%d-%d", lo, hi))
		lo, hi = x, x
	}
	parts = append(parts, fmt.Sprintf("%d-%d", lo, hi))
	return strings.Join(parts, ",")
}

// hammerChild runs in the child process. Exit code 0 and one line `keeper <flips> <ranges>` on stdout when it survives.
func hammerChild(variant string, n int) int {
	tm, err := kit.NewTM(kit.TMOpts{NoOpen: true})
	if err != nil {
		fmt.Fprintln(os.Stderr, "c02 hammer: cannot build TaskMaster:", err)
		return 4
	}
	tm.TM.TaskStore = &snapStore{fail: map[string]bool{}}
	if err := tm.TM.Open(); err != nil {
		fmt.Fprintln(os.Stderr, "c02 hammer: cannot open TaskMaster:", err)
		return 4
	}
	dbrps := []kapacitor.DBRP{{Database: "d1", RetentionPolicy: "autogen"}}
	keeper, err := tm.TM.NewFork("keeper", dbrps, []string{"cpu"})
	if err != nil {
		fmt.Fprintln(os.Stderr, "c02 hammer: NewFork keeper:", err)
		return 4
	}
	var got []int64
	keeperDone := make(chan struct{})
	go func() {
		defer close(keeperDone)
		for m, ok := keeper.Emit(); ok; m, ok = keeper.Emit() {
			if p, isP := m.(edge.PointMessage); isP {
				if id, isI := p.Fields()["id"].(int64); isI {
					got = append(got, id)
				}
			}
		}
	}()
	stop := make(chan struct{})
	var flips int64
	var wg sync.WaitGroup
	for k := 0; k < 3; k++ {
		id := fmt.Sprintf("flip%d", k)
		wg.Add(1)
		go func() {
			defer wg.Done()
			for {
				select {
				case <-stop:
					return
				default:
				}
				switch variant {
				case "task":
					if _, err := tm.StartStream(id, "stream\n  |from().measurement('cpu')\n  |log()\n", dbrps); err != nil {
						fmt.Fprintln(os.Stderr, "c02 hammer: StartTask:", err)
						return
					}
					_ = tm.TM.StopTask(id)
				default:
					ms := []string{"cpu"}
					if variant == "forkall" {
						ms = []string{""}
					}
					e, err := tm.TM.NewFork(id, dbrps, ms)
					if err != nil {
						return // closed: the writer has drained
					}
					done := make(chan struct{})
					go func() {
						defer close(done)
						for _, ok := e.Emit(); ok; _, ok = e.Emit() {
						}
					}()
					tm.TM.DelFork(id)
					<-done
				}
				atomic.AddInt64(&flips, 1)
			}
		}()
	}
	t0 := time.Now()
	base := time.Unix(1700000000, 0).UTC()
	written := 0
	for i := 0; i < n && time.Since(t0) < hammerWall; {
		k := 1 + i%7
		var mps []imodels.Point
		for j := 0; j < k && i < n; j, i = j+1, i+1 {
			mp, err := imodels.NewPoint("cpu", imodels.NewTags(map[string]string{"host": "a"}), imodels.Fields{"id": int64(i), "v": int64(i % 10)}, base.Add(time.Duration(i)*time.Millisecond))
			if err != nil {
				return 4
			}
			mps = append(mps, mp)
		}
		if err := tm.TM.WritePoints("d1", "autogen", imodels.ConsistencyLevelAll, mps); err != nil {
			fmt.Fprintln(os.Stderr, "c02 hammer: WritePoints:", err)
			return 4
		}
		written = i
	}
	close(stop)
	wg.Wait()
	tm.TM.Drain() // everything written is forked, then every edge is closed
	<-keeperDone
	f := 0
	if atomic.LoadInt64(&flips) > 0 {
		f = 1
	}
	fmt.Printf("keeper %d %d %s\n", f, written, ranges(got))
	os.Stdout.Sync()
	return 0
}

// hammerCase runs the child and renders the op line with what was observed.
func hammerCase(variant string, n int) []string {
	line := fmt.Sprintf("hammer %s %d", variant, n)
	ok := false
	for _, v := range hammerVariants {
		ok = ok || v == variant
	}
	exe, err := os.Executable()
	if !ok || n <= 0 || err != nil {
		return []string{line + " => badop"}
	}
	child := exec.Command(exe, "-tier", "hammerchild", "-n", strconv.Itoa(n), "-variant", variant)
	var so, se bytes.Buffer
	child.Stdout, child.Stderr = &so, &se
	if err := child.Start(); err != nil {
		return []string{line + " => err 0 0 -"}
	}
	done := make(chan error, 1)
	go func() { done <- child.Wait() }()
	select {
	case err = <-done:
	case <-time.After(30 * time.Second):
		_ = child.Process.Kill()
		<-done
		return []string{line + " => hang 0 0 -"}
	}
	if err != nil {
		status := "crash"
		if ee, isExit := err.(*exec.ExitError); isExit && ee.ExitCode() == 4 {
			status = "err" // the harness' own set-up failed
		}
		msg := se.String()
		if i := strings.Index(msg, "panic:"); i >= 0 {
			msg = msg[i:]
		}
		if len(msg) > 240 {
			msg = msg[:240]
		}
		fmt.Fprintf(os.Stderr, "c02: hammer child (%s) ended with %v: %s\n", variant, err, msg)
		return []string{line + " => " + status + " 0 0 -"}
	}
	for _, l := range strings.Split(so.String(), "\n") {
		t := strings.Fields(l)
		if len(t) == 4 && t[0] == "keeper" {
			return []string{line + " => ok " + t[1] + " " + t[2] + " " + t[3]}
		}
	}
	return []string{line + " => err 0 0 -"}
}
