// Package c03 is the harness for property C03 (window contents and emission schedule).
//
// It runs the REAL kapacitor window code and prints op lines with what the implementation did:
//
//   - hook cases (`tw …` / `cw …` header): one group's window receiver, created by the real
//     WindowNode.newWindow through the `verif` hook VerifNewWindow, is driven message by message
//     (`p <t> <id>` point, `b <t>` barrier). Observation per message:
//     `<out> <start> <stop> <size> <len> <cap> <nextEmit> <aux>` where <out> is `-` (nothing emitted),
//     `<tmax>:<id>,<id>,…` (`<tmax>:-` for an empty batch) or `panic`, and the integers are the ring
//     buffer indexes of the real struct after the message.
//   - task cases (`task tw …` / `task cw …` header): a real stream task
//     `stream|from().measurement('m').groupBy('g')|window()…@bsink()` on a real TaskMaster receives the
//     points of several interleaved groups (`w <group> <t> <id>`); `final <group>` observes every batch
//     the sink below the window got for that group, in order.
//
// Times are Unix nanoseconds (time.Unix(0, t).UTC()); ids are carried in the field "id".
package c03

import (
	"fmt"
	"os"
	"strconv"
	"strings"
	"time"

	imodels "github.com/influxdata/influxdb/models"
	"github.com/influxdata/kapacitor"
	"github.com/influxdata/kapacitor/edge"
	"github.com/influxdata/kapacitor/models"

	"verifharness/kit"
)

func atoi(s string) int64 { v, _ := strconv.ParseInt(s, 10, 64); return v }

func stripObs(l string) string {
	if i := strings.Index(l, " => "); i >= 0 {
		return l[:i]
	}
	return l
}

// renderBatch renders an emitted batch; `sent` maps id -> time sent (to detect a point whose time was altered).
func renderBatch(b edge.BufferedBatchMessage, sent map[int64]int64) string {
	var ids []string
	for _, bp := range b.Points() {
		id, ok := bp.Fields()["id"].(int64)
		switch {
		case !ok:
			ids = append(ids, "noid")
		case sent[id] != bp.Time().UnixNano():
			ids = append(ids, fmt.Sprintf("%d~%d", id, bp.Time().UnixNano()))
		default:
			ids = append(ids, strconv.FormatInt(id, 10))
		}
	}
	s := "-"
	if len(ids) > 0 {
		s = strings.Join(ids, ",")
	}
	if b.Begin().SizeHint() != len(b.Points()) {
		s += "!sizehint"
	}
	return fmt.Sprintf("%d:%s", b.Begin().Time().UnixNano(), s)
}

// ---- hook cases ----

func execHook(lines []string) (out []string) {
	if len(lines) == 0 {
		return nil
	}
	h := strings.Fields(stripObs(lines[0]))
	out = append(out, strings.Join(h, " "))
	var period, every time.Duration
	var align, fill bool
	var pc, ec int64
	switch h[0] {
	case "tw":
		if len(h) != 5 {
			return out
		}
		period, every, align, fill = time.Duration(atoi(h[1])), time.Duration(atoi(h[2])), h[3] == "1", h[4] == "1"
	case "cw":
		if len(h) != 4 {
			return out
		}
		pc, ec, fill = atoi(h[1]), atoi(h[2]), h[3] == "1"
	default:
		return out
	}
	var w *kapacitor.VerifWindow
	sent := map[int64]int64{}
	dead := false
	for _, raw := range lines[1:] {
		line := stripObs(raw)
		t := strings.Fields(line)
		if len(t) == 0 {
			continue
		}
		if dead {
			out = append(out, line+" => panic")
			continue
		}
		var pm edge.PointMessage
		var bm edge.BarrierMessage
		var first edge.PointMeta
		switch {
		case t[0] == "p" && len(t) == 3:
			sent[atoi(t[2])] = atoi(t[1])
			pm = edge.NewPointMessage("m", "db", "rp", models.Dimensions{}, models.Fields{"id": atoi(t[2])}, models.Tags{}, time.Unix(0, atoi(t[1])).UTC())
			first = pm
		case t[0] == "b" && len(t) == 2:
			bm = edge.NewBarrierMessage(edge.GroupInfo{}, time.Unix(0, atoi(t[1])).UTC())
			first = bm
		default:
			out = append(out, line)
			continue
		}
		obs := func() (obs string) {
			defer func() {
				if r := recover(); r != nil {
					if os.Getenv("VERIF_LOG") != "" {
						fmt.Fprintln(os.Stderr, "panic:", r)
					}
					obs = "panic"
					dead = true
				}
			}()
			if w == nil {
				var err error
				w, err = kapacitor.VerifNewWindow(first, period, every, align, fill, pc, ec)
				if err != nil {
					dead = true
					return "err"
				}
			}
			var b edge.BufferedBatchMessage
			var err error
			if pm != nil {
				b, err = w.Point(pm)
			} else {
				b, err = w.Barrier(bm)
			}
			if err != nil {
				return "err"
			}
			o := "-"
			if b != nil {
				o = renderBatch(b, sent)
			}
			s, e, z, l, c, ne, aux := w.Ring()
			return fmt.Sprintf("%s %d %d %d %d %d %d %d", o, s, e, z, l, c, ne, aux)
		}()
		out = append(out, line+" => "+obs)
	}
	return out
}

// ---- task cases ----

func durLit(ns int64) string { return fmt.Sprintf("%du", ns/1000) }

// defScripts: task definitions whose acceptance the window node's validation decides (`def <name>` cases).
var defScripts = map[string]struct {
	batch  bool
	script string
}{
	"stream-window":           {false, "stream\n|from().measurement('m')\n|window().period(10s).every(5s)\n"},
	"stream-window-count":     {false, "stream\n|from().measurement('m')\n|window().periodCount(3).everyCount(2)\n"},
	"batch-query-window":      {true, "batch\n|query('SELECT v FROM \"db\".\"rp\".\"m\"').period(10s).every(10s)\n|window().period(10s).every(10s)\n"},
	"window-after-window":     {false, "stream\n|from().measurement('m')\n|window().period(10s).every(10s)\n|window().period(10s).every(10s)\n"},
	"window-no-period":        {false, "stream\n|from().measurement('m')\n|window()\n"},
	"window-period-and-count": {false, "stream\n|from().measurement('m')\n|window().period(10s).periodCount(3).everyCount(1)\n"},
	"window-count-align":      {false, "stream\n|from().measurement('m')\n|window().periodCount(3).everyCount(1).align()\n"},
	"window-count-no-every":   {false, "stream\n|from().measurement('m')\n|window().periodCount(3)\n"},
	"window-count-every-neg":  {false, "stream\n|from().measurement('m')\n|window().periodCount(3).everyCount(-1)\n"},
	"window-every-only":       {false, "stream\n|from().measurement('m')\n|window().every(10s)\n"},
}

func execDef(lines []string) (out []string) {
	h := strings.Fields(stripObs(lines[0]))
	if len(h) != 2 {
		return []string{strings.Join(h, " ") + " => err"}
	}
	d, ok := defScripts[h[1]]
	if !ok {
		return []string{strings.Join(h, " ") + " => unknown"}
	}
	obs := func() (obs string) {
		defer func() {
			if r := recover(); r != nil {
				obs = "panic"
			}
		}()
		tm, err := kit.NewTM(kit.TMOpts{})
		if err != nil {
			return "err"
		}
		defer tm.Close()
		tt := kapacitor.StreamTask
		if d.batch {
			tt = kapacitor.BatchTask
		}
		task, err := tm.TM.NewTask("c03def", d.script, tt, []kapacitor.DBRP{{Database: "db", RetentionPolicy: "rp"}}, 0, nil)
		if err != nil {
			return "rejected"
		}
		if d.batch {
			// a batch task needs an InfluxDB service to start; definition acceptance is what matters here
			return "accepted"
		}
		if _, err := tm.TM.StartTask(task); err != nil {
			return "rejected"
		}
		return "accepted"
	}()
	return []string{strings.Join(h, " ") + " => " + obs}
}

func execTask(lines []string) (out []string) {
	h := strings.Fields(stripObs(lines[0]))
	out = append(out, strings.Join(h, " "))
	fail := func(what string) []string {
		for _, raw := range lines[1:] {
			line := stripObs(raw)
			if strings.HasPrefix(line, "final ") || strings.HasPrefix(line, "in ") {
				line += " => " + what
			}
			out = append(out, line)
		}
		return out
	}
	if len(h) < 2 {
		return fail("err")
	}
	var win string
	rest := h
	switch {
	case h[1] == "tw" && len(h) >= 6:
		win = "|window()\n    .period(" + durLit(atoi(h[2])) + ")"
		if atoi(h[3]) != 0 {
			win += "\n    .every(" + durLit(atoi(h[3])) + ")"
		}
		if h[4] == "1" {
			win += "\n    .align()"
		}
		if h[5] == "1" {
			win += "\n    .fillPeriod()"
		}
		rest = h[6:]
	case h[1] == "cw" && len(h) >= 5:
		win = fmt.Sprintf("|window()\n    .periodCount(%d)\n    .everyCount(%d)", atoi(h[2]), atoi(h[3]))
		if h[4] == "1" {
			win += "\n    .fillPeriod()"
		}
		rest = h[5:]
	default:
		return fail("err")
	}
	barrier := ""
	withBarrier, del := false, false
	if len(rest) == 3 && rest[0] == "barrier" {
		withBarrier, del = true, rest[2] == "1"
		barrier = "|barrier()\n    .idle(" + durLit(atoi(rest[1])) + ")"
		if del {
			barrier += "\n    .delete(TRUE)"
		}
		barrier += "\n  @sink()\n  "
	} else if len(rest) != 0 {
		return fail("err")
	}
	script := "stream\n  |from()\n    .measurement('m')\n    .groupBy('g')\n  " + barrier + win + "\n  @bsink()\n"
	tm, err := kit.NewTM(kit.TMOpts{})
	if err != nil {
		return fail("err")
	}
	defer tm.Close()
	et, err := tm.StartStream("c03", script, []kapacitor.DBRP{{Database: "db", RetentionPolicy: "rp"}})
	if err != nil {
		if os.Getenv("VERIF_LOG") != "" {
			fmt.Fprintln(os.Stderr, "task:", err, "\n", script)
		}
		return fail("err")
	}
	// what the sink directly above the window has seen so far, per group
	sinkKey := func(prefix string) string {
		for _, k := range tm.Rec.Keys() {
			if strings.HasPrefix(k, "c03/"+prefix) {
				return k
			}
		}
		return ""
	}
	// kind of the last message the sink above the window has recorded per group: 'p', 'b' or 'd'
	lastKinds := func() (map[string]byte, int) {
		last := map[string]byte{}
		npoints := 0
		k := sinkKey("sink")
		if k == "" {
			return last, 0
		}
		for _, m := range tm.Rec.Get(k) {
			switch x := m.(type) {
			case edge.PointMessage:
				npoints++
				last[x.Tags()["g"]] = 'p'
			case edge.BarrierMessage:
				last[x.GroupInfo().Tags["g"]] = 'b'
			case edge.DeleteGroupMessage:
				last[x.GroupInfo().Tags["g"]] = 'd'
			}
		}
		return last, npoints
	}
	sent := map[int64]int64{}
	active := map[string]bool{}
	// wait (real time) until the idle barrier of every group written so far has fired (and, with delete, the
	// group has been deleted): the last message recorded for the group is a barrier resp. a deletion
	waitIdle := func() {
		want := byte('b')
		if del {
			want = 'd'
		}
		deadline := time.Now().Add(5 * time.Second)
		for time.Now().Before(deadline) {
			last, npoints := lastKinds()
			done := npoints >= len(sent) // every point written so far has passed the barrier node
			for g := range active {
				if last[g] != want {
					done = false
				}
			}
			if done {
				break
			}
			time.Sleep(2 * time.Millisecond)
		}
	}
	for _, raw := range lines[1:] {
		t := strings.Fields(stripObs(raw))
		switch {
		case len(t) == 4 && t[0] == "w":
			g, _ := kit.Unesc(t[1])
			active[g] = true
			sent[atoi(t[3])] = atoi(t[2])
			pt, err := imodels.NewPoint("m", imodels.NewTags(map[string]string{"g": g}), imodels.Fields{"id": atoi(t[3])}, time.Unix(0, atoi(t[2])).UTC())
			if err != nil {
				return fail("err")
			}
			if err := tm.TM.WritePoints("db", "rp", imodels.ConsistencyLevelAll, []imodels.Point{pt}); err != nil {
				return fail("err")
			}
		case len(t) == 1 && t[0] == "idle" && withBarrier:
			waitIdle()
		}
	}
	if withBarrier && del {
		// Quiesce before stopping: with delete(TRUE) the barrier node's idle timer goroutine collects a
		// DeleteGroup message into the node's OWN input edge; if the timer fires while the task is being
		// drained that edge is already closed and kapacitor panics ("send on closed channel", barrier.go
		// emitBarrier) — a defect of the barrier node outside property C03, avoided here.
		waitIdle()
	}
	tm.TM.Drain()
	done := make(chan error, 1)
	go func() { done <- et.Wait() }()
	select {
	case err := <-done:
		if err != nil {
			return fail("taskerr")
		}
	case <-time.After(60 * time.Second):
		return fail("timeout")
	}
	byGroup := map[string][]string{}
	inGroup := map[string][]string{}
	if k := sinkKey("bsink"); k != "" {
		for _, m := range tm.Rec.Get(k) {
			if b, ok := m.(edge.BufferedBatchMessage); ok {
				g := b.Begin().Tags()["g"]
				byGroup[g] = append(byGroup[g], renderBatch(b, sent))
			}
		}
	}
	if k := sinkKey("sink"); k != "" {
		for _, m := range tm.Rec.Get(k) {
			switch x := m.(type) {
			case edge.PointMessage:
				g := x.Tags()["g"]
				id, ok := x.Fields()["id"].(int64)
				if !ok || sent[id] != x.Time().UnixNano() {
					inGroup[g] = append(inGroup[g], "p:bad")
				} else {
					inGroup[g] = append(inGroup[g], fmt.Sprintf("p:%d", id))
				}
			case edge.BarrierMessage:
				g := x.GroupInfo().Tags["g"]
				inGroup[g] = append(inGroup[g], fmt.Sprintf("b:%d", x.Time().UnixNano()))
			case edge.DeleteGroupMessage:
				g := x.GroupInfo().Tags["g"]
				inGroup[g] = append(inGroup[g], "d")
			default:
				inGroup[""] = append(inGroup[""], "other")
			}
		}
	}
	for _, raw := range lines[1:] {
		line := stripObs(raw)
		t := strings.Fields(line)
		if len(t) == 2 && (t[0] == "final" || t[0] == "in") {
			g, _ := kit.Unesc(t[1])
			src := byGroup
			if t[0] == "in" {
				src = inGroup
			}
			if bs := src[g]; len(bs) > 0 {
				line += " => " + strings.Join(bs, " ")
			} else {
				line += " => none"
			}
		}
		out = append(out, line)
	}
	return out
}

func execCase(lines []string) []string {
	if len(lines) == 0 {
		return nil
	}
	if strings.HasPrefix(lines[0], "task ") {
		return execTask(lines)
	}
	if strings.HasPrefix(lines[0], "def ") {
		return execDef(lines)
	}
	return execHook(lines)
}

func emit(out *kit.Out, id string, lines []string) {
	out.Line("case", id)
	for _, l := range lines {
		out.Line(l)
	}
	out.Line("end")
	out.Flush()
}

// Run: `vh-c03 -seed S -n N [-tier thorough]` generates; `vh-c03 -ops file` re-executes the cases of a file.
func Run(args []string) int {
	f := kit.ParseFlags(args)
	out := kit.NewOut()
	defer out.Flush()
	if f.Ops != "" {
		lines, err := kit.ReadLines(f.Ops)
		if err != nil {
			fmt.Fprintln(os.Stderr, err)
			return 2
		}
		var cur []string
		id := ""
		for _, l := range lines {
			t := strings.Fields(l)
			switch {
			case len(t) == 2 && t[0] == "case":
				id, cur = t[1], nil
			case len(t) == 1 && t[0] == "end":
				emit(out, id, execCase(cur))
			default:
				cur = append(cur, l)
			}
		}
		return 0
	}
	generate(out, f)
	return 0
}
