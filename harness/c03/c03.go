// Package c03 is the harness for property C03 (runs the real kapacitor code, prints op lines).
package c03

import (
	"fmt"
	"os"
)

// Run is replaced by the property's harness.
func Run(args []string) int {
	fmt.Fprintln(os.Stderr, "c03: harness not implemented yet")
	return 3
}
