package c03

// Case generators. They are feedback-directed: while a case is being generated its messages are fed to a
// live window (the real code, through the hook) whose ring indexes and nextEmit are read back, so the
// generator can aim at the structural states of the ring (drained at each phase, full, wrapped, growth
// while wrapped) and at the boundaries of the schedule (t = nextEmit, nextEmit±1, T-period, T-period±1).
// The feedback only steers generation; the emitted case is re-executed from scratch by execCase.

import (
	"fmt"
	"strings"
	"time"

	"github.com/influxdata/kapacitor"
	"github.com/influxdata/kapacitor/edge"
	"github.com/influxdata/kapacitor/models"

	"verifharness/kit"
)

type live struct {
	w                 *kapacitor.VerifWindow
	period, every     int64
	align, fill       bool
	start, stop, size int
	length, capacity  int
	nextEmit          int64
	have              bool
	dead              bool
	emitted           bool
}

func (l *live) feed(isPoint bool, t int64, id int64) {
	if l.dead {
		return
	}
	defer func() {
		if r := recover(); r != nil {
			l.dead = true
		}
	}()
	var first edge.PointMeta
	var pm edge.PointMessage
	var bm edge.BarrierMessage
	if isPoint {
		pm = edge.NewPointMessage("m", "db", "rp", models.Dimensions{}, models.Fields{"id": id}, models.Tags{}, time.Unix(0, t).UTC())
		first = pm
	} else {
		bm = edge.NewBarrierMessage(edge.GroupInfo{}, time.Unix(0, t).UTC())
		first = bm
	}
	if l.w == nil {
		w, err := kapacitor.VerifNewWindow(first, time.Duration(l.period), time.Duration(l.every), l.align, l.fill, 0, 0)
		if err != nil {
			l.dead = true
			return
		}
		l.w = w
	}
	var b edge.BufferedBatchMessage
	if isPoint {
		b, _ = l.w.Point(pm)
	} else {
		b, _ = l.w.Barrier(bm)
	}
	l.emitted = b != nil
	l.start, l.stop, l.size, l.length, l.capacity, l.nextEmit, _ = l.w.Ring()
	l.have = true
}

var units = []int64{1, 1, 7, 1000, 1000000, 1000000000, 1000000000, 60 * 1000000000}

func pickT0(r *kit.Rand, unit int64) int64 {
	switch r.Intn(5) {
	case 0:
		return 0
	case 1:
		return unit * int64(r.Range(0, 100))
	case 2:
		return -unit * int64(r.Range(1, 100))
	case 3:
		return 1700000000*1000000000 + int64(r.Intn(1000000))*unit
	default:
		return int64(r.Intn(50))*unit + int64(r.Intn(3))
	}
}

func pickEvery(r *kit.Rand, P int, mode int) int {
	switch mode {
	case 0:
		return 0
	case 1:
		if P > 1 {
			return r.Range(1, P-1)
		}
		return P
	case 2:
		return P
	default:
		return P + r.Range(1, 2*P)
	}
}

type caseBuf struct {
	lines []string
	id    int64
}

func (c *caseBuf) point(l *live, t int64) {
	c.id++
	c.lines = append(c.lines, fmt.Sprintf("p %d %d", t, c.id))
	if l != nil {
		l.feed(true, t, c.id)
	}
}
func (c *caseBuf) barrier(l *live, t int64) {
	c.lines = append(c.lines, fmt.Sprintf("b %d", t))
	if l != nil {
		l.feed(false, t, 0)
	}
}

// genTimeRandom: mixed gap patterns, boundaries taken from the live nextEmit.
func genTimeRandom(r *kit.Rand, task bool) []string {
	unit := kit.Pick(r, units)
	if task && unit < 1000 {
		unit = 1000
	}
	P := r.Range(1, 12)
	E := pickEvery(r, P, r.Intn(4))
	period, every := int64(P)*unit, int64(E)*unit
	l := &live{period: period, every: every, align: r.Chance(2, 5), fill: r.Chance(2, 5)}
	c := &caseBuf{}
	c.lines = append(c.lines, fmt.Sprintf("tw %d %d %s %s", period, every, b01(l.align), b01(l.fill)))
	t := pickT0(r, unit)
	n := r.Range(1, 60)
	if r.Chance(1, 8) {
		n = r.Range(60, 140)
	}
	barrierPct := 0
	switch r.Intn(6) {
	case 0:
		barrierPct = 10
	case 1:
		barrierPct = 40
	}
	if task {
		barrierPct = 0
	}
	ooo := !task && r.Chance(1, 25)
	jitter := unit > 1 && r.Chance(1, 3)
	for i := 0; i < n; i++ {
		if i > 0 {
			switch k := r.Intn(100); {
			case k < 22:
				// equal timestamp
			case k < 45:
				t += int64(r.Range(1, 2)) * unit
			case k < 60 && l.have:
				// aim at the schedule boundary
				b := l.nextEmit + int64(r.Range(-1, 1))
				if r.Chance(1, 3) {
					b = l.nextEmit + int64(r.Range(-1, 1))*unit
				}
				if b >= t || ooo {
					t = b
				}
			case k < 70 && l.have:
				// aim at the content boundary of the NEXT window: T-period, ±1
				b := l.nextEmit - period + int64(r.Range(-1, 1))
				if every == 0 {
					b = t + period + int64(r.Range(-1, 1))
				}
				if b >= t {
					t = b
				}
			case k < 82:
				t += period + int64(r.Range(0, 2*P))*unit // silence long enough to drain
			case k < 85:
				t += int64(r.Range(10, 1000)) * period
			default:
				t += int64(r.Range(1, P)) * unit
			}
			if jitter && r.Chance(1, 4) {
				t += int64(r.Range(0, 2))
			}
			if ooo && r.Chance(1, 6) {
				t -= int64(r.Range(1, P)) * unit
			}
		}
		if r.Intn(100) < barrierPct {
			c.barrier(l, t)
		} else {
			c.point(l, t)
		}
	}
	return c.lines
}

// genTimePhase: rounds of "k points, then a trigger" on a window with every >= period, steering the ring
// through drained / full / wrapped states at every index phase (the feedback tells cap and size).
func genTimePhase(r *kit.Rand) []string {
	unit := kit.Pick(r, []int64{1, 7, 1000, 1000000000})
	P := r.Range(2, 6)
	E := P * r.Range(1, 3)
	if r.Chance(1, 4) {
		E = P + r.Range(0, P)
	}
	// room inside one `every` step for many distinct timestamps
	scale := int64(r.Range(4, 16))
	period, every := int64(P)*unit*scale, int64(E)*unit*scale
	l := &live{period: period, every: every, align: r.Chance(1, 4), fill: r.Chance(1, 4)}
	c := &caseBuf{}
	c.lines = append(c.lines, fmt.Sprintf("tw %d %d %s %s", period, every, b01(l.align), b01(l.fill)))
	t := pickT0(r, unit)
	c.point(l, t)
	rounds := r.Range(2, 9)
	for round := 0; round < rounds && !l.dead && len(c.lines) < 160; round++ {
		ne := l.nextEmit
		room := l.capacity - l.size
		var k int
		switch r.Intn(6) {
		case 0:
			k = room // fill exactly
		case 1:
			k = room - 1
		case 2:
			k = room + 1 // forces growth
		case 3:
			k = 0
		default:
			k = r.Range(0, 5)
		}
		if k < 0 {
			k = 0
		}
		if k > 40 {
			k = 40
		}
		// placement relative to the left edge ne-period of the next window
		edgeT := ne - period
		place := r.Intn(4) // 0 early (all purged), 1 late (all kept), 2 straddle, 3 on the edge
		for j := 0; j < k; j++ {
			var want int64
			switch place {
			case 0:
				want = t
				if edgeT-1 > t && r.Chance(1, 2) {
					want = t + int64(r.Intn(int(min64(edgeT-1-t, 3*unit)+1)))
				}
				if want >= edgeT {
					want = t
				}
			case 1:
				want = max64(t, edgeT)
				if ne-1 > want {
					want += int64(r.Intn(int(min64(ne-1-want, 2*unit) + 1)))
				}
			case 2:
				if j < (k+1)/2 {
					want = t
				} else {
					want = max64(t, edgeT+int64(r.Intn(2)))
				}
			default:
				want = max64(t, edgeT+int64(r.Range(-1, 1)))
			}
			if want < t {
				want = t
			}
			if want >= ne {
				want = max64(t, ne-1)
			}
			if want >= ne {
				break // no room before the next emission
			}
			t = want
			c.point(l, t)
		}
		// trigger
		trig := max64(t, l.nextEmit)
		switch r.Intn(5) {
		case 0:
			trig += unit
		case 1:
			trig += period * int64(r.Range(1, 3)) // long silence
		case 2:
			trig += 1
		}
		t = trig
		if r.Chance(1, 8) {
			c.barrier(l, t)
		} else {
			c.point(l, t)
		}
	}
	return c.lines
}

func genCount(r *kit.Rand) []string {
	pc := r.Range(1, 8)
	ec := r.Range(1, 12)
	if r.Chance(1, 3) {
		ec = r.Range(1, pc)
	}
	c := &caseBuf{}
	c.lines = append(c.lines, fmt.Sprintf("cw %d %d %s", pc, ec, b01(r.Bool())))
	n := r.Range(1, 50)
	t := int64(r.Intn(100))
	for i := 0; i < n; i++ {
		t += int64(r.Intn(3))
		if r.Chance(1, 12) {
			c.barrier(nil, t)
		} else {
			c.point(nil, t)
		}
	}
	return c.lines
}

var groupPool = []string{"a", "b", "c", "a b", "é", "g5", "g6", "g7", "g,8", "g=9", "g10", "g11"}

// genTask: several groups, each with its own message sequence (generated like the hook cases), interleaved.
func genTask(r *kit.Rand) []string {
	var header string
	var seqs [][]string // per group: lines "p t id"
	ng := r.Range(1, 4)
	if r.Chance(1, 4) {
		ng = r.Range(6, len(groupPool)) // many interleaved groups
	}
	if r.Chance(1, 3) {
		pc, ec, fill := r.Range(1, 6), r.Range(1, 8), r.Bool()
		header = fmt.Sprintf("task cw %d %d %s", pc, ec, b01(fill))
		for g := 0; g < ng; g++ {
			c := &caseBuf{}
			t := int64(r.Intn(100)) * 1000
			for i, n := 0, r.Range(1, 25); i < n; i++ {
				t += int64(r.Intn(3)) * 500
				c.point(nil, t)
			}
			seqs = append(seqs, c.lines)
		}
	} else {
		first := genTimeRandom(r, true)
		header = "task " + first[0]
		cfg := strings.Fields(first[0])
		seqs = append(seqs, first[1:])
		for g := 1; g < ng; g++ {
			// same configuration, fresh message pattern
			period, every := atoi(cfg[1]), atoi(cfg[2])
			l := &live{period: period, every: every, align: cfg[3] == "1", fill: cfg[4] == "1"}
			c := &caseBuf{}
			t := pickT0(r, 1000)
			for i, n := 0, r.Range(1, 40); i < n; i++ {
				if i > 0 {
					switch k := r.Intn(10); {
					case k < 2:
					case k < 5:
						t += period / int64(r.Range(1, 4))
					case k < 7 && l.have && l.nextEmit+int64(r.Range(-1, 1)) >= t:
						t = l.nextEmit + int64(r.Range(-1, 1))
					case k < 9:
						t += period + int64(r.Intn(3))*every
					default:
						t += int64(r.Range(1, 5)) * 1000
					}
				}
				c.point(l, t)
			}
			seqs = append(seqs, c.lines)
		}
	}
	// interleave, renumbering ids globally
	lines := []string{header}
	idx := make([]int, len(seqs))
	id := 0
	for {
		var open []int
		for g := range seqs {
			if idx[g] < len(seqs[g]) {
				open = append(open, g)
			}
		}
		if len(open) == 0 {
			break
		}
		g := kit.Pick(r, open)
		burst := r.Range(1, 4)
		for ; burst > 0 && idx[g] < len(seqs[g]); burst-- {
			f := strings.Fields(seqs[g][idx[g]])
			idx[g]++
			if f[0] != "p" {
				continue
			}
			id++
			lines = append(lines, fmt.Sprintf("w %s %s %d", kit.Esc(groupPool[g]), f[1], id))
		}
	}
	for g := range seqs {
		lines = append(lines, "final "+kit.Esc(groupPool[g]))
	}
	return lines
}

// genTaskBarrier: a real `barrier().idle(…)` node (optionally `.delete(TRUE)`) above the window. Bursts of
// points for a few groups, then real-time idleness until the barrier node has emitted a barrier (and deleted
// the group), then the next burst far enough ahead in data time: the window sees barriers, group deletions
// and re-creations produced by the real node.
func genTaskBarrier(r *kit.Rand) []string {
	const idle = int64(60 * 1000000) // 60 ms, real time and data time
	unit := int64(5 * 1000000)
	del := r.Chance(2, 3)
	var header string
	if r.Chance(1, 4) {
		header = fmt.Sprintf("task cw %d %d %s barrier %d %s", r.Range(1, 4), r.Range(1, 5), b01(r.Bool()), idle, b01(del))
	} else {
		P := r.Range(1, 12)
		E := pickEvery(r, P, r.Intn(4))
		header = fmt.Sprintf("task tw %d %d %s %s barrier %d %s", int64(P)*unit, int64(E)*unit, b01(r.Chance(1, 3)), b01(r.Chance(1, 3)), idle, b01(del))
	}
	lines := []string{header}
	ng := r.Range(1, 3)
	t := int64(r.Intn(100)) * unit
	id := 0
	bursts := r.Range(2, 3)
	for b := 0; b < bursts; b++ {
		for g := 0; g < ng; g++ {
			if b > 0 && r.Chance(1, 4) {
				continue // this group stays silent in this burst
			}
			tg := t + int64(r.Intn(3))*unit
			for i, n := 0, r.Range(1, 6); i < n; i++ {
				tg += int64(r.Intn(4)) * unit
				if r.Chance(1, 5) {
					tg += int64(r.Range(2, 14)) * unit
				}
				id++
				lines = append(lines, fmt.Sprintf("w %s %d %d", kit.Esc(groupPool[g]), tg, id))
			}
		}
		if b+1 < bursts || r.Bool() {
			lines = append(lines, "idle")
		}
		// next burst: far enough that the barrier node (which drops points older than its last barrier) lets it pass
		t += int64(r.Range(200, 400)) * idle
	}
	for g := 0; g < ng; g++ {
		lines = append(lines, "in "+kit.Esc(groupPool[g]))
	}
	for g := 0; g < ng; g++ {
		lines = append(lines, "final "+kit.Esc(groupPool[g]))
	}
	return lines
}

func b01(b bool) string {
	if b {
		return "1"
	}
	return "0"
}
func min64(a, b int64) int64 {
	if a < b {
		return a
	}
	return b
}
func max64(a, b int64) int64 {
	if a > b {
		return a
	}
	return b
}

func generate(out *kit.Out, f kit.Flags) {
	r := kit.NewRand(f.Seed)
	nTask, nBarrier := 24, 6
	if f.Tier == "thorough" {
		nTask, nBarrier = 60+f.N/100, 40
	}
	if v, ok := f.Extra["tasks"]; ok {
		nTask = int(atoi(v))
	}
	for i := 0; i < f.N; i++ {
		rr := r.Fork()
		var lines []string
		switch k := i % 20; {
		case k < 9:
			lines = genTimeRandom(rr, false)
		case k < 16:
			lines = genTimePhase(rr)
		default:
			lines = genCount(rr)
		}
		emit(out, fmt.Sprintf("g%d", i), execCase(lines))
	}
	for i := 0; i < nTask; i++ {
		emit(out, fmt.Sprintf("k%d", i), execCase(genTask(r.Fork())))
	}
	if v, ok := f.Extra["barriers"]; ok {
		nBarrier = int(atoi(v))
	}
	for i := 0; i < nBarrier; i++ {
		emit(out, fmt.Sprintf("b%d", i), execCase(genTaskBarrier(r.Fork())))
	}
}
