// Package c04 is the harness for property C04 (runs the real kapacitor code, prints op lines).
package c04

import (
	"fmt"
	"os"
)

// Run is replaced by the property's harness.
func Run(args []string) int {
	fmt.Fprintln(os.Stderr, "c04: harness not implemented yet")
	return 3
}
