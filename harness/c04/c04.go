// Package c04 is the harness for property C04: it compiles generated lambda ASTs with the REAL
// stateful.NewExpression and evaluates them over HISTORIES of scopes with changing field types through
// Expression.Eval, Type+EvalBool (what EvalPredicate does after fillScope), the direct EvalX methods and
// Type, on the expression itself and on CopyReset copies, and prints what the implementation answered. The ASTs
// contain lambda nodes (LAM: *ast.LambdaNode inside the expression, EvalLambdaNode) at any position.
// External library calls (regex matching, math/strings/strconv/time functions) are computed here with the
// Go library directly — never through kapacitor — and carried in the op lines as oracle tables. The `re` lines
// (regexp.MatchString of pattern and subject) are emitted for EVERY =~ / !~ with leaf operands; the driver uses them as
// the reference value for patterns outside the fragment it defines itself (literals + anchors) and compares them with
// its own definition inside it. gen.go draws pattern / subject pairs designed to separate the readings of a pattern.
package c04

import (
	"fmt"
	"os"
	"regexp"
	"strconv"
	"strings"
	"time"

	"github.com/influxdata/kapacitor"
	"github.com/influxdata/kapacitor/models"
	"github.com/influxdata/kapacitor/tick/ast"
	"github.com/influxdata/kapacitor/tick/stateful"

	"verifharness/kit"
)

// ---- values ----

func renderVal(v interface{}) string {
	switch x := v.(type) {
	case bool:
		if x {
			return "b:1"
		}
		return "b:0"
	case int64:
		return "i:" + strconv.FormatInt(x, 10)
	case float64:
		return "f:" + kit.F64(x)
	case string:
		return "s:" + kit.Esc(x)
	case time.Duration:
		return "d:" + strconv.FormatInt(int64(x), 10)
	case *regexp.Regexp:
		return "r:" + kit.Esc(x.String())
	case time.Time:
		return "t:" + strconv.FormatInt(x.UnixNano(), 10)
	case *ast.Missing:
		return "m"
	}
	return "?"
}

func parseVal(tok string) (interface{}, error) {
	if tok == "m" {
		return ast.MissingValue, nil
	}
	i := strings.IndexByte(tok, ':')
	if i < 0 {
		return nil, fmt.Errorf("bad value %q", tok)
	}
	k, body := tok[:i], tok[i+1:]
	switch k {
	case "b":
		return body == "1", nil
	case "i":
		v, err := strconv.ParseInt(body, 10, 64)
		return v, err
	case "d":
		v, err := strconv.ParseInt(body, 10, 64)
		return time.Duration(v), err
	case "t":
		v, err := strconv.ParseInt(body, 10, 64)
		return time.Unix(0, v).UTC(), err
	case "f":
		if body == "nan" {
			body = "7ff8000000000001"
		}
		v, err := strconv.ParseUint(body, 16, 64)
		return f64frombits(v), err
	case "s":
		return kit.Unesc(body)
	case "r":
		p, err := kit.Unesc(body)
		if err != nil {
			return nil, err
		}
		return regexp.Compile(p)
	}
	return nil, fmt.Errorf("bad value %q", tok)
}

func tyName(t ast.ValueType) string {
	switch t {
	case ast.TFloat:
		return "float"
	case ast.TInt:
		return "int"
	case ast.TString:
		return "string"
	case ast.TBool:
		return "bool"
	case ast.TRegex:
		return "regex"
	case ast.TTime:
		return "time"
	case ast.TDuration:
		return "duration"
	case ast.TMissing:
		return "missing"
	case ast.InvalidType:
		return "invalid"
	}
	return "other"
}

func leanTy(t ast.ValueType) string { return "." + tyName(t) }

// ---- expressions: token form <-> ast ----

var binOps = map[string]ast.TokenType{
	"and": ast.TokenAnd, "or": ast.TokenOr, "eq": ast.TokenEqual, "ne": ast.TokenNotEqual, "lt": ast.TokenLess,
	"le": ast.TokenLessEqual, "gt": ast.TokenGreater, "ge": ast.TokenGreaterEqual, "reEq": ast.TokenRegexEqual,
	"reNe": ast.TokenRegexNotEqual, "plus": ast.TokenPlus, "minus": ast.TokenMinus, "mult": ast.TokenMult,
	"div": ast.TokenDiv, "mod": ast.TokenMod,
}

// ex is the harness's own expression tree.
type ex struct {
	kind string // L R U B F FM LAM
	op   string // operator / function name / reference name
	val  interface{}
	kids []*ex
}

func (e *ex) tokens() []string {
	switch e.kind {
	case "L":
		return []string{"L", renderVal(e.val)}
	case "R":
		return []string{"R", kit.Esc(e.op)}
	case "U":
		return append([]string{"U", e.op}, e.kids[0].tokens()...)
	case "B":
		t := []string{"B", e.op}
		t = append(t, e.kids[0].tokens()...)
		return append(t, e.kids[1].tokens()...)
	case "FM":
		return []string{"FM", e.op}
	case "LAM":
		return append([]string{"LAM"}, e.kids[0].tokens()...)
	default:
		t := []string{"F", e.op, strconv.Itoa(len(e.kids))}
		for _, k := range e.kids {
			t = append(t, k.tokens()...)
		}
		return t
	}
}

func parseEx(t []string) (*ex, []string, error) {
	if len(t) == 0 {
		return nil, nil, fmt.Errorf("empty expression")
	}
	switch t[0] {
	case "L":
		v, err := parseVal(t[1])
		return &ex{kind: "L", val: v}, t[2:], err
	case "R":
		n, err := kit.Unesc(t[1])
		return &ex{kind: "R", op: n}, t[2:], err
	case "U":
		k, rest, err := parseEx(t[2:])
		return &ex{kind: "U", op: t[1], kids: []*ex{k}}, rest, err
	case "B":
		l, rest, err := parseEx(t[2:])
		if err != nil {
			return nil, nil, err
		}
		r, rest, err := parseEx(rest)
		return &ex{kind: "B", op: t[1], kids: []*ex{l, r}}, rest, err
	case "FM":
		return &ex{kind: "FM", op: t[1]}, t[2:], nil
	case "LAM":
		k, rest, err := parseEx(t[1:])
		return &ex{kind: "LAM", kids: []*ex{k}}, rest, err
	case "F":
		n, _ := strconv.Atoi(t[2])
		e := &ex{kind: "F", op: t[1]}
		rest := t[3:]
		for i := 0; i < n; i++ {
			k, r, err := parseEx(rest)
			if err != nil {
				return nil, nil, err
			}
			e.kids = append(e.kids, k)
			rest = r
		}
		return e, rest, nil
	}
	return nil, nil, fmt.Errorf("bad expression token %q", t[0])
}

func (e *ex) node() ast.Node {
	switch e.kind {
	case "L":
		switch v := e.val.(type) {
		case bool:
			return &ast.BoolNode{Bool: v}
		case int64:
			return &ast.NumberNode{IsInt: true, Int64: v}
		case float64:
			return &ast.NumberNode{IsFloat: true, Float64: v}
		case string:
			return &ast.StringNode{Literal: v}
		case time.Duration:
			return &ast.DurationNode{Dur: v}
		case *regexp.Regexp:
			return &ast.RegexNode{Regex: v, Literal: v.String()}
		}
		return &ast.StringNode{Literal: "?"}
	case "R":
		return &ast.ReferenceNode{Reference: e.op}
	case "U":
		op := ast.TokenNot
		if e.op == "neg" {
			op = ast.TokenMinus
		}
		return &ast.UnaryNode{Operator: op, Node: e.kids[0].node()}
	case "B":
		return &ast.BinaryNode{Operator: binOps[e.op], Left: e.kids[0].node(), Right: e.kids[1].node()}
	case "LAM":
		// a lambda node INSIDE the expression: what `var w = lambda: …` used in another lambda leaves in the AST
		return &ast.LambdaNode{Expression: e.kids[0].node()}
	case "FM":
		args := []ast.Node{}
		for i := 0; i < 5; i++ {
			args = append(args, &ast.NumberNode{IsFloat: true, Float64: 1})
		}
		return &ast.FunctionNode{Type: ast.GlobalFunc, Func: e.op, Args: args}
	default:
		args := []ast.Node{}
		for _, k := range e.kids {
			args = append(args, k.node())
		}
		return &ast.FunctionNode{Type: ast.GlobalFunc, Func: e.op, Args: args}
	}
}

// ---- running one case on the real code ----

type binding struct {
	name string
	val  interface{}
}

func mkScope(bs []binding) *stateful.Scope {
	s := stateful.NewScope()
	for _, b := range bs {
		s.Set(b.name, b.val)
	}
	return s
}

func obsValue(v interface{}, err error) string {
	if err != nil {
		return "err"
	}
	return "ok " + renderVal(v)
}

// leafVal: the value of a leaf argument (literal or reference) under the bindings; ok=false when undefined.
func leafVal(e *ex, bs []binding) (interface{}, bool) {
	switch e.kind {
	case "LAM": // a lambda around a leaf is that leaf's value
		return leafVal(e.kids[0], bs)
	case "L":
		return e.val, true
	case "R":
		for _, b := range bs {
			if b.name == e.op {
				return b.val, true
			}
		}
	}
	return nil, false
}

// oracleLines: for every regex node and every library function call with leaf operands, the library's answer
// under these bindings.
func oracleLines(e *ex, bs []binding, seen map[string]bool, out *[]string) {
	for _, k := range e.kids {
		oracleLines(k, bs, seen, out)
	}
	add := func(l string) {
		if !seen[l] {
			seen[l] = true
			*out = append(*out, l)
		}
	}
	switch {
	case e.kind == "B" && (e.op == "reEq" || e.op == "reNe"):
		l, okl := leafVal(e.kids[0], bs)
		r, okr := leafVal(e.kids[1], bs)
		if okl && okr {
			if s, ok := l.(string); ok {
				if re, ok := r.(*regexp.Regexp); ok {
					b := "0"
					if re.MatchString(s) {
						b = "1"
					}
					add("re " + kit.Esc(re.String()) + " " + kit.Esc(s) + " " + b)
				}
			}
		}
	case e.kind == "F" && oracleFn[e.op]:
		args := []interface{}{}
		toks := []string{}
		for _, k := range e.kids {
			v, ok := leafVal(k, bs)
			if !ok {
				return
			}
			args = append(args, v)
			toks = append(toks, renderVal(v))
		}
		res := "err"
		if v, ok := libCall(e.op, args); ok {
			res = renderVal(v)
		}
		add(strings.TrimSpace("ora " + e.op + " " + strings.Join(toks, " ") + " " + res))
	}
}

// oracleFn: the builtins whose VALUE the Lean model takes from the library (Kap.C04.Lib.oracleFns); everything else
// the model defines itself. float/string/duration are oracle only for the argument types the model does not define
// (decimal <-> float, duration parsing); extra oracle lines are harmless.
var oracleFn = func() map[string]bool {
	m := map[string]bool{}
	for _, n := range strings.Fields(`acos acosh asin asinh atan atan2 atanh cbrt ceil cos cosh erf erfc exp exp2 expm1 floor gamma hypot
		j0 j1 jn log log10 log1p log2 logb mod pow pow10 sin sinh sqrt tan tanh trunc y0 y1 yn
		strToLower strToUpper strTrimSpace
		regexReplace unixNano minute hour weekday day month year humanBytes float string duration`) {
		m[n] = true
	}
	return m
}()

type evalOp struct {
	inst  int
	path  string
	binds []binding // the scope (for a point: what fillScope is expected to bind, used for the oracle lines only)
	// path == "point": kapacitor.EvalPredicate against this point
	tm     int64
	fields []binding
	tags   []binding
}

// point implements edge.FieldsTagsTimeGetter.
type point struct {
	tm     time.Time
	fields models.Fields
	tags   models.Tags
}

func (p point) Fields() models.Fields { return p.fields }
func (p point) Tags() models.Tags     { return p.tags }
func (p point) Time() time.Time       { return p.tm }

// fillScope binds "time" to the point's time in the PROCESS-LOCAL zone (now.Local()): hour()/day()/weekday() of a point are
// read in that zone. The harness pins the zone - independent of the machine's - to one that is NOT UTC and not a whole
// number of hours (+05:30), so that an evaluation in UTC (or in the zone the time value happened to carry) gives another
// hour, minute, day and weekday than the documented one.
func init() { time.Local = time.FixedZone("VRF", 5*3600+30*60) }

// denoted: the scope the property expects for a point (own reading of the documentation, used only to decide
// which oracle entries to supply).
func (o evalOp) denoted(names []string) []binding {
	var bs []binding
	for _, n := range names {
		if n == "time" {
			bs = append(bs, binding{n, time.Unix(0, o.tm).In(time.Local)})
			continue
		}
		var fv, tv interface{}
		for _, f := range o.fields {
			if f.name == n && fv == nil {
				fv = f.val
			}
		}
		for _, t := range o.tags {
			if t.name == n && tv == nil {
				tv = t.val
			}
		}
		switch {
		case fv != nil && tv != nil:
		case fv != nil:
			bs = append(bs, binding{n, fv})
		case tv != nil:
			bs = append(bs, binding{n, tv})
		default:
			bs = append(bs, binding{n, ast.MissingValue})
		}
	}
	return bs
}

func (o evalOp) line() string {
	if o.path == "point" {
		t := []string{"pt", strconv.Itoa(o.inst), strconv.FormatInt(o.tm, 10)}
		for _, b := range o.fields {
			t = append(t, "F", kit.Esc(b.name), renderVal(b.val))
		}
		for _, b := range o.tags {
			t = append(t, "T", kit.Esc(b.name), kit.Esc(b.val.(string)))
		}
		return strings.Join(t, " ")
	}
	t := []string{"ev", strconv.Itoa(o.inst), o.path}
	for _, b := range o.binds {
		t = append(t, kit.Esc(b.name), renderVal(b.val))
	}
	return strings.Join(t, " ")
}

// execCase runs the lines of one case (observations stripped) and returns them with fresh observations and
// fresh oracle lines.
func execCase(lines []string) (out []string) {
	var e *ex
	var insts = map[int]stateful.Expression{}
	seen := map[string]bool{}
	// first pass: expression + all scopes, to emit the oracle tables before the evaluations
	var evs []evalOp
	for _, raw := range lines {
		line := raw
		if i := strings.Index(line, " => "); i >= 0 {
			line = line[:i]
		}
		t := strings.Fields(line)
		if len(t) == 0 {
			continue
		}
		switch t[0] {
		case "expr":
			x, _, err := parseEx(t[1:])
			if err != nil {
				return []string{"bad " + err.Error()}
			}
			e = x
		case "ev":
			k, _ := strconv.Atoi(t[1])
			o := evalOp{inst: k, path: t[2]}
			for i := 3; i+1 < len(t); i += 2 {
				n, _ := kit.Unesc(t[i])
				v, err := parseVal(t[i+1])
				if err != nil {
					return []string{"bad " + err.Error()}
				}
				o.binds = append(o.binds, binding{n, v})
			}
			evs = append(evs, o)
		case "pt":
			k, _ := strconv.Atoi(t[1])
			tm, _ := strconv.ParseInt(t[2], 10, 64)
			o := evalOp{inst: k, path: "point", tm: tm}
			for i := 3; i+2 < len(t); i += 3 {
				n, _ := kit.Unesc(t[i+1])
				if t[i] == "F" {
					v, err := parseVal(t[i+2])
					if err != nil {
						return []string{"bad " + err.Error()}
					}
					o.fields = append(o.fields, binding{n, v})
				} else {
					v, _ := kit.Unesc(t[i+2])
					o.tags = append(o.tags, binding{n, v})
				}
			}
			evs = append(evs, o)
		}
	}
	if e == nil {
		return []string{"bad no-expression"}
	}
	out = append(out, "expr "+strings.Join(e.tokens(), " "))
	var oras []string
	refSet := map[string]bool{}
	collectRefs(e, refSet)
	var refNames []string
	for n := range refSet {
		refNames = append(refNames, n)
	}
	sortStrings(refNames)
	for i := range evs {
		if evs[i].path == "point" {
			evs[i].binds = evs[i].denoted(refNames)
		}
		oracleLines(e, evs[i].binds, seen, &oras)
	}
	var pool stateful.ScopePool
	out = append(out, oras...)
	guard := func(line string, f func() string) {
		defer func() {
			if r := recover(); r != nil {
				out = append(out, line+" => panic")
			}
		}()
		out = append(out, line+" => "+f())
	}
	evIdx := 0
	for _, raw := range lines {
		line := raw
		if i := strings.Index(line, " => "); i >= 0 {
			line = line[:i]
		}
		t := strings.Fields(line)
		if len(t) == 0 {
			continue
		}
		switch t[0] {
		case "compile":
			guard("compile", func() string {
				se, err := stateful.NewExpression(e.node())
				if err != nil {
					return "err"
				}
				insts[0] = se
				return "ok"
			})
		case "inst":
			k, _ := strconv.Atoi(t[1])
			if insts[0] != nil {
				insts[k] = insts[0].CopyReset()
				out = append(out, line)
			}
		case "ev", "pt":
			o := evs[evIdx]
			evIdx++
			se := insts[o.inst]
			if se == nil {
				if insts[0] == nil {
					continue // the expression did not compile: nothing to evaluate
				}
				out = append(out, "bad unknown-instance")
				continue
			}
			guard(o.line(), func() string {
				if o.path == "point" {
					if pool == nil {
						pool = stateful.NewScopePool(ast.FindReferenceVariables(e.node()))
					}
					p := point{tm: time.Unix(0, o.tm).UTC(), fields: models.Fields{}, tags: models.Tags{}}
					for _, f := range o.fields {
						p.fields[f.name] = f.val
					}
					for _, tg := range o.tags {
						p.tags[tg.name] = tg.val.(string)
					}
					return obsValue(kapacitor.EvalPredicate(se, pool, p))
				}
				sc := mkScope(o.binds)
				switch o.path {
				case "eval":
					return obsValue(se.Eval(sc))
				case "pred":
					if _, err := se.Type(sc); err != nil {
						return "err"
					}
					return obsValue(se.EvalBool(sc))
				case "type":
					ty, err := se.Type(sc)
					if err != nil {
						return "err"
					}
					return "ok " + tyName(ty)
				case "dInt":
					return obsValue(se.EvalInt(sc))
				case "dFloat":
					return obsValue(se.EvalFloat(sc))
				case "dString":
					return obsValue(se.EvalString(sc))
				case "dBool":
					return obsValue(se.EvalBool(sc))
				case "dDuration":
					return obsValue(se.EvalDuration(sc))
				}
				return "bad-path"
			})
		}
	}
	return out
}

func emit(out *kit.Out, id string, lines []string) {
	out.Line("case", id)
	for _, l := range lines {
		out.Line(l)
	}
	out.Line("end")
}

// genSigs writes lean/Kap/Gen/C04Sigs.lean from the Signature() maps of the linked kapacitor.
func genSigs() int {
	lean := os.Getenv("VERIF_LEAN")
	if lean == "" {
		lean = "/verif/lean"
	}
	funcs := stateful.NewFunctions()
	names := []string{}
	for n := range funcs {
		names = append(names, n)
	}
	sortStrings(names)
	var b strings.Builder
	b.WriteString("-- GENERATED by vh-c04 -gensigs from stateful.NewFunctions()[name].Signature() of the linked kapacitor — do not edit.\n")
	b.WriteString("import Kap.Model.C04Base\nnamespace Kap.C04.Gen\nopen Kap.C04\n\n/-- builtin function signatures (domain ↦ return type) -/\ndef sigs : List Sig := [\n")
	var rows []string
	for _, n := range names {
		var doms []string
		for d, ret := range funcs[n].Signature() {
			var tys []string
			for _, t := range d {
				if t == ast.InvalidType {
					break
				}
				tys = append(tys, leanTy(t))
			}
			doms = append(doms, fmt.Sprintf("  { name := %q, dom := [%s], ret := %s }", n, strings.Join(tys, ", "), leanTy(ret)))
		}
		sortStrings(doms)
		rows = append(rows, doms...)
	}
	b.WriteString(strings.Join(rows, ",\n"))
	b.WriteString("\n]\n\nend Kap.C04.Gen\n")
	path := lean + "/Kap/Gen/C04Sigs.lean"
	os.MkdirAll(lean+"/Kap/Gen", 0o755)
	old, _ := os.ReadFile(path)
	if string(old) != b.String() {
		if err := os.WriteFile(path, []byte(b.String()), 0o644); err != nil {
			fmt.Fprintln(os.Stderr, err)
			return 1
		}
	}
	fmt.Printf("gensigs: %d signatures -> %s\n", len(rows), path)
	return 0
}

func sortStrings(xs []string) {
	for i := 1; i < len(xs); i++ {
		for j := i; j > 0 && xs[j] < xs[j-1]; j-- {
			xs[j], xs[j-1] = xs[j-1], xs[j]
		}
	}
}

// Run: `vh-c04 -seed S -n N [-tier thorough]` generates; `vh-c04 -ops file` re-executes the cases of a file;
// `vh-c04 -gensigs x` regenerates the signature table.
func Run(args []string) int {
	f := kit.ParseFlags(args)
	if _, ok := f.Extra["gensigs"]; ok {
		return genSigs()
	}
	out := kit.NewOut()
	defer out.Flush()
	if f.Ops != "" {
		lines, err := kit.ReadLines(f.Ops)
		if err != nil {
			fmt.Fprintln(os.Stderr, err)
			return 2
		}
		var cur []string
		id := ""
		for _, l := range lines {
			t := strings.Fields(l)
			switch {
			case len(t) == 2 && t[0] == "case":
				id, cur = t[1], nil
			case len(t) == 1 && t[0] == "end":
				emit(out, id, execCase(cur))
				out.Flush()
			default:
				cur = append(cur, l)
			}
		}
		return 0
	}
	// kit.NewRand(s+1) is kit.NewRand(s) advanced by one step (the state is seed*golden+c), so consecutive seeds would
	// generate almost the same cases shifted by one: mix the seed first.
	r := kit.NewRand(kit.NewRand(f.Seed).U64() ^ (f.Seed * 0xD6E8FEB86659FD93))
	for i := 0; i < f.N; i++ {
		emit(out, fmt.Sprintf("g%d", i), execCase(genCase(r.Fork(), i, f.Tier == "thorough")))
		out.Flush()
	}
	return 0
}
