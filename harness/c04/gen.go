package c04

// Case generator: type-directed random ASTs over the full operator × type matrix and the builtins, with
// injected ill-typed sub-expressions, evaluated over histories of scopes in which references change type,
// go missing or undefined between consecutive points, through all entry paths and on CopyReset copies;
// plus directed shapes (one per structural case of the evaluator) with randomised details.

import (
	"math"
	"regexp"
	"strconv"
	"strings"
	"time"

	"github.com/influxdata/kapacitor/tick/ast"

	"verifharness/kit"
)

var (
	intPool   = []int64{0, 1, -1, 2, 3, 7, -3, 10, 60, math.MinInt64, math.MaxInt64}
	floatPool = []float64{0, math.Copysign(0, -1), 1, -1, 2, 3, 7, -1.5, 2.5, 10, 0.1, math.NaN(), math.Inf(1), math.Inf(-1), 1e19, -1e19, 9007199254740993}
	strPool   = []string{"", "a", "abc", "b", "é", "日本", "😀", "a😀b", "éa", "a b", "Zz", "abcabc", "true", "12", "1s",
		strings.Repeat("д", 33), strings.Repeat("aд", 50), strings.Repeat("x", 40), "ab\xffc", "  pad  ",
		"\ufffdé\xe2\x82z\ufffd", "日aé日", "\xc3é\xa9"}
	// cutsets / character sets of the rune-set functions: empty, one ASCII byte, several ASCII bytes, multi-byte runes (2, 3, 4 bytes),
	// mixed, a literal U+FFFD, invalid bytes (a lone lead byte, a lone continuation byte, a truncated 3-byte rune) - an invalid
	// byte in the set is the rune U+FFFD and matches every invalid byte and every literal U+FFFD of the string
	cutPool = []string{"", "a", " ", "ab", "cba", "é", "д", "日", "😀", "aé", "日本", "é日😀", "aд", "\ufffd", "\xff", "\xc3", "\xa9", "\xe2\x82", "z\ufffd",
		"abcdefghij", "éдaz 日"}
	numStrPool = []string{"12", "-5", "+7", "0", "9223372036854775807", "9223372036854775808", "-9223372036854775808", "-9223372036854775809",
		"1_0", "", "abc", "1.5", " 1", "true", "T", "false", "F", "1", "TRUE", "tRuE", "0x10"}
	asciiPool = []string{"", "a", "abc", "hello", "abcabc"}
	durPool   = []time.Duration{0, time.Second, -time.Second, 1, time.Minute, math.MaxInt64, 3 * time.Millisecond}
	rePool    = []string{"a", "^a.c$", "b+", "", "[0-9]+", "é"}
)

// reference names by the type they have in the base environment
var refsOf = map[string][]string{
	"int": {"a", "n"}, "float": {"x", "y"}, "string": {"s", "u"}, "ascii": {"w"}, "numstr": {"v"}, "bool": {"p", "q"},
	"duration": {"d", "e"}, "time": {"time"},
}
var baseTy = map[string]string{"a": "int", "n": "int", "x": "float", "y": "float", "s": "string", "u": "string", "w": "ascii", "v": "numstr",
	"p": "bool", "q": "bool", "d": "duration", "e": "duration", "time": "time"}

type gen struct {
	r        *kit.Rand
	used     map[string]bool
	wantInst int      // > 0: the case wants this many CopyReset copies (groups)
	strs     []string // subjects designed for the regex patterns of this case (see regex): string values are drawn from them too
}

// ---- regex: pattern / subject pairs designed to SEPARATE readings of a pattern ----
//
// A pattern is built from a word W in one of the forms below (Q = W with its metacharacters escaped); its subjects are W
// itself, strings that contain W as a PROPER substring (W as prefix, suffix, in the middle, twice), strings without W, the
// empty string, W in another case, W next to a line break, W with its dot replaced. On these pairs an anchored literal
// (equality), a one-sided anchor (prefix / suffix), an unanchored literal (substring), an escaped and an unescaped dot, the
// case and multi-line flags, an escaped `$` and a real one all give DIFFERENT answers.
var reWords = []string{"web01", "a", "abc", "cpu", "eu-west", "a.b", "web01.example.com", "x y", "Zz", "12", "é", "日本"}

var reForms = []func(w, q string) string{
	func(w, q string) string { return q },                          // literal: substring
	func(w, q string) string { return "^" + q + "$" },              // anchored literal: equality
	func(w, q string) string { return `\A` + q + `\z` },            // the same with \A \z
	func(w, q string) string { return "^(?:" + q + ")$" },          // the same around a group
	func(w, q string) string { return "^" + q },                    // prefix
	func(w, q string) string { return q + "$" },                    // suffix
	func(w, q string) string { return `\A` + q },                   //
	func(w, q string) string { return q + `\z` },                   //
	func(w, q string) string { return "^" + q + `\z` },             // mixed anchors
	func(w, q string) string { return "(?i)^" + q + "$" },          // case flag
	func(w, q string) string { return "(?i)" + q },                 //
	func(w, q string) string { return "(?m)^" + q + "$" },          // multi-line: ^ $ at line breaks
	func(w, q string) string { return "^" + q + "$|^zz$" },         // alternation of anchored literals
	func(w, q string) string { return "(^" + q + "$)" },            // capture group around it
	func(w, q string) string { return "^" + q + ".*$" },            //
	func(w, q string) string { return "^.*" + q + "$" },            //
	func(w, q string) string { return "^" + q + "+$" },             // repetition of the last character
	func(w, q string) string { return "^" + w + "$" },              // UNescaped: a dot is any character
	func(w, q string) string { return "^" + q + `\$` },             // an escaped $ is a character, not an anchor
	func(w, q string) string { return "^^" + q + "$$" },            // repeated anchors
	func(w, q string) string { return q + "^" },                    // anchor in the wrong place: never matches (unless W is empty)
	func(w, q string) string { return "$" + q },                    //
	func(w, q string) string { return "^" + strings.ReplaceAll(q, "-", `\-`) + "$" }, // escaped punctuation
	func(w, q string) string { return "^$" },                       // only the empty string
	func(w, q string) string { return "" },                         // everything
	func(w, q string) string { return "^" },                        //
	func(w, q string) string { return "$" },                        //
}

// reSubjects: the strings that separate the readings of a pattern built from w.
func reSubjects(w string) []string {
	last := w[len(w)-1:]
	up, low := strings.ToUpper(w), strings.ToLower(w)
	other := up
	if other == w {
		other = low
	}
	return []string{w, w + "1", "x" + w, "x" + w + "y", w + w, w[:len(w)-1], w[1:], "", "zzz", other, w + "\n", "\n" + w, "x\n" + w + "\ny",
		strings.ReplaceAll(w, ".", "x"), w + last, w + "$", w + ".evil.org", "zz"}
}

// regex draws a pattern (3/4 designed, 1/4 from the small pool of classes / repetition) and remembers its subjects.
func (g *gen) regex() *regexp.Regexp {
	r := g.r
	if r.Chance(1, 4) {
		p := kit.Pick(r, rePool)
		g.strs = append(g.strs, "a", "abc", "xabcx", "a\nc", "12", "x12", "", "é", "bb")
		return regexp.MustCompile(p)
	}
	w := kit.Pick(r, reWords)
	// the anchored / one-sided / plain literal forms are the frequent ones
	f := reForms[r.Intn(len(reForms))]
	if r.Chance(1, 3) {
		f = reForms[r.Intn(9)]
	}
	re, err := regexp.Compile(f(w, regexp.QuoteMeta(w)))
	if err != nil {
		re = regexp.MustCompile(regexp.QuoteMeta(w))
	}
	g.strs = append(g.strs, reSubjects(w)...)
	return re
}

// strVal: a string value - one of the regex subjects of this case (2/3 when there are any) or a pool string.
func (g *gen) strVal() string {
	if len(g.strs) > 0 && g.r.Chance(2, 3) {
		return kit.Pick(g.r, g.strs)
	}
	return kit.Pick(g.r, strPool)
}

func (g *gen) valOf(ty string) interface{} {
	r := g.r
	switch ty {
	case "int":
		return kit.Pick(r, intPool)
	case "float":
		return kit.Pick(r, floatPool)
	case "string":
		return g.strVal()
	case "ascii":
		return g.strVal()
	case "numstr":
		return kit.Pick(r, numStrPool)
	case "bool":
		return r.Bool()
	case "duration":
		return kit.Pick(r, durPool)
	case "time":
		return time.Unix(int64(r.Intn(2000000000)), int64(r.Intn(1000))).UTC()
	case "regex":
		return g.regex()
	}
	return ast.MissingValue
}

func lit(v interface{}) *ex        { return &ex{kind: "L", val: v} }
func ref(n string) *ex             { return &ex{kind: "R", op: n} }
func un(op string, e *ex) *ex      { return &ex{kind: "U", op: op, kids: []*ex{e}} }
func bin(op string, l, r *ex) *ex  { return &ex{kind: "B", op: op, kids: []*ex{l, r}} }
func call(fn string, a ...*ex) *ex { return &ex{kind: "F", op: fn, kids: a} }
func lam(e *ex) *ex                { return &ex{kind: "LAM", kids: []*ex{e}} } // a lambda node nested in the expression
func (g *gen) ref(ty string) *ex   { n := kit.Pick(g.r, refsOf[ty]); g.used[n] = true; return ref(n) }
func (g *gen) leaf(ty string) *ex {
	if g.r.Chance(1, 25) {
		return lam(g.leaf(ty)) // `var w = lambda: "x"` used as a value
	}
	if ty == "regex" || g.r.Chance(1, 3) {
		return lit(g.valOf(ty))
	}
	return g.ref(ty)
}

var allTys = []string{"int", "float", "string", "bool", "duration"}

// expr generates an expression meant to have type ty under the base environment; with a small probability a
// sub-expression of another type is injected (ill-typed input).
func (g *gen) expr(ty string, depth int) *ex {
	r := g.r
	if r.Chance(1, 14) {
		ty = kit.Pick(r, allTys)
	}
	if depth <= 0 || r.Chance(1, 5) {
		if ty == "ascii" {
			ty = "string"
		}
		return g.leaf(ty)
	}
	d := depth - 1
	if r.Chance(1, 16) {
		return lam(g.expr(ty, d)) // a lambda node at any position (stateful or not, dynamic or constant, lambdas in lambdas)
	}
	switch ty {
	case "bool":
		switch r.Intn(13) {
		case 0, 1, 2, 3:
			op := kit.Pick(r, []string{"eq", "ne", "lt", "le", "gt", "ge"})
			switch r.Intn(7) {
			case 0:
				return bin(op, g.expr("int", d), g.expr("int", d))
			case 1:
				return bin(op, g.expr("float", d), g.expr("float", d))
			case 2:
				return bin(op, g.expr("int", d), g.expr("float", d))
			case 3:
				return bin(op, g.expr("float", d), g.expr("int", d))
			case 4:
				return bin(op, g.expr("string", d), g.expr("string", d))
			case 5:
				return bin(op, g.expr("duration", d), g.expr("duration", d))
			default:
				return bin(kit.Pick(r, []string{"eq", "ne"}), g.expr("bool", d), g.expr("bool", d))
			}
		case 4, 5:
			return bin(kit.Pick(r, []string{"and", "or"}), g.expr("bool", d), g.expr("bool", d))
		case 6:
			return un("not", g.expr("bool", d))
		case 7:
			re := g.leaf("regex") // the regex may sit in a lambda node (EvalRegex); drawn first: its subjects feed the string values
			return bin(kit.Pick(r, []string{"reEq", "reNe"}), g.leaf("string"), re)
		case 8:
			n := kit.Pick(r, []string{"a", "x", "s", "p", "z"})
			g.used[n] = true
			return call("isPresent", ref(n))
		case 9:
			if r.Chance(1, 4) {
				return call("strContainsAny", g.strArg(d), g.cutArg())
			}
			return call(kit.Pick(r, []string{"strContains", "strHasPrefix", "strHasSuffix"}), g.strArg(d), g.subArg())
		case 10:
			return call("if", g.expr("bool", d), g.expr("bool", d), g.expr("bool", d))
		case 11:
			return call("bool", g.leaf(kit.Pick(r, []string{"int", "float", "numstr", "numstr", "bool"})))
		default:
			return bin("gt", call("count"), lit(int64(r.Intn(4))))
		}
	case "int":
		switch r.Intn(10) {
		case 0, 1, 2, 3:
			return bin(kit.Pick(r, []string{"plus", "minus", "mult", "div", "mod"}), g.expr("int", d), g.expr("int", d))
		case 4:
			return bin("div", g.expr("duration", d), g.expr("duration", d))
		case 5:
			return un("neg", g.expr("int", d))
		case 6:
			if r.Bool() {
				return call(kit.Pick(r, []string{"unixNano", "hour", "minute", "day", "weekday"}), g.ref("time"))
			}
			return call("count")
		case 7:
			if r.Bool() {
				return call("strLength", g.strArg(d))
			}
			return call("int", g.leaf(kit.Pick(r, []string{"numstr", "numstr", "float", "bool", "int", "duration"})))
		case 8:
			return call("if", g.expr("bool", d), g.expr("int", d), g.expr("int", d))
		default:
			if r.Chance(1, 4) {
				return call(kit.Pick(r, []string{"strIndexAny", "strLastIndexAny"}), g.strArg(d), g.cutArg())
			}
			return call(kit.Pick(r, []string{"strIndex", "strLastIndex", "strCount"}), g.strArg(d), g.subArg())
		}
	case "float":
		switch r.Intn(10) {
		case 0, 1, 2, 3:
			return bin(kit.Pick(r, []string{"plus", "minus", "mult", "div"}), g.expr("float", d), g.expr("float", d))
		case 4:
			return un("neg", g.expr("float", d))
		case 5:
			return call("sigma", g.expr("float", d))
		case 6:
			return call("spread", g.expr("float", d))
		case 7:
			if r.Chance(1, 3) {
				return call("abs", g.expr("float", d))
			}
			return call(kit.Pick(r, []string{"sqrt", "floor", "sin", "float", "float"}), g.leaf(kit.Pick(r, []string{"float", "float", "int", "numstr", "bool"})))
		case 8:
			if r.Bool() {
				return call(kit.Pick(r, []string{"max", "min"}), g.expr("float", d), g.expr("float", d))
			}
			return call(kit.Pick(r, []string{"pow", "mod"}), g.leaf("float"), g.leaf("float"))
		default:
			return call("if", g.expr("bool", d), g.expr("float", d), g.expr("float", d))
		}
	case "string", "ascii":
		switch r.Intn(6) {
		case 0, 1:
			return bin("plus", g.expr("string", d), g.expr("string", d))
		case 2:
			return g.substr()
		case 3:
			if r.Bool() {
				return call("string", g.leaf(kit.Pick(r, []string{"int", "bool", "duration", "string", "float"}))) // float argument: library oracle, so a leaf
			}
			return call(kit.Pick(r, []string{"strToUpper", "strTrimSpace", "string"}), g.leaf(kit.Pick(r, []string{"string", "string", "float"})))
		case 4:
			if r.Bool() {
				return call("strReplace", g.strArg(d), g.subArg(), g.leaf("string"), kit.Pick(r, []*ex{lit(int64(-1)), lit(int64(0)), lit(int64(1)), lit(int64(2)), lit(int64(100)), g.ref("int")}))
			}
			return call("if", g.expr("bool", d), g.expr("string", d), g.expr("string", d))
		default:
			if r.Chance(1, 2) {
				return call(kit.Pick(r, []string{"strTrim", "strTrimLeft", "strTrimRight"}), g.strArg(d), g.cutArg())
			}
			return call(kit.Pick(r, []string{"strTrimPrefix", "strTrimSuffix"}), g.strArg(d), g.subArg())
		}
	case "duration":
		switch r.Intn(10) {
		case 0, 1:
			return bin(kit.Pick(r, []string{"plus", "minus"}), g.expr("duration", d), g.expr("duration", d))
		case 2:
			return bin("mult", g.expr("duration", d), g.expr("int", d))
		case 3:
			return bin("mult", g.expr("int", d), g.expr("duration", d))
		case 4:
			return bin("mult", g.expr("duration", d), g.expr("float", d))
		case 5:
			return bin("mult", g.expr("float", d), g.expr("duration", d))
		case 6:
			return bin("div", g.expr("duration", d), g.expr(kit.Pick(r, []string{"int", "float"}), d))
		case 7:
			return un("neg", g.expr("duration", d))
		case 8:
			return call("duration", g.leaf(kit.Pick(r, []string{"int", "float", "duration", "string"})), lit(kit.Pick(r, durPool)))
		default:
			return call("if", g.expr("bool", d), g.expr("duration", d), g.expr("duration", d))
		}
	}
	return g.leaf("int")
}

func collectRefs(e *ex, into map[string]bool) {
	if e.kind == "R" {
		into[e.op] = true
	}
	for _, k := range e.kids {
		collectRefs(k, into)
	}
}

// scope draws values for the references: mostly of the base type, sometimes of another type (numeric flips are
// the most frequent: they keep the expression well typed with ANOTHER table entry), missing, or undefined.
func (g *gen) scope(names []string, flip int) []binding {
	r := g.r
	var bs []binding
	for _, n := range names {
		ty := baseTy[n]
		if ty == "" {
			ty = "int" // "z"
		}
		if r.Intn(100) < flip {
			switch k := r.Intn(20); {
			case k < 11 && (ty == "int" || ty == "float" || ty == "duration"):
				ty = kit.Pick(r, []string{"int", "float", "duration"})
			case k < 16:
				ty = kit.Pick(r, allTys)
			case k < 18:
				bs = append(bs, binding{n, ast.MissingValue})
				continue
			default:
				continue // undefined
			}
		}
		bs = append(bs, binding{n, g.valOf(ty)})
	}
	return bs
}

var paths = []string{"eval", "pred", "type", "dInt", "dFloat", "dString", "dBool", "dDuration"}

func directOf(ty string) string {
	switch ty {
	case "int":
		return "dInt"
	case "float":
		return "dFloat"
	case "string", "ascii":
		return "dString"
	case "bool":
		return "dBool"
	}
	return "dDuration"
}

func genCase(r *kit.Rand, i int, thorough bool) []string {
	g := &gen{r: r, used: map[string]bool{}}
	var e *ex
	ty := kit.Pick(r, allTys)
	flip := 30
	mainPath := ""
	usePoints := r.Chance(1, 4)
	if usePoints && r.Chance(3, 4) {
		ty = "bool" // EvalPredicate wants a boolean
	}
	if i%16 == 15 { // lambda nodes nested in the expression, asked by one or several groups
		e, ty, mainPath, flip = g.lambdaDirected()
	} else if r.Chance(1, 3) {
		e, ty, mainPath, flip = g.directed(i)
	} else {
		depth := 1 + r.Intn(4)
		if thorough && r.Chance(1, 4) {
			depth = 5
		}
		e = g.expr(ty, depth)
	}
	used := map[string]bool{}
	collectRefs(e, used)
	var names []string
	for n := range used {
		names = append(names, n)
	}
	sortStrings(names)
	lines := []string{"expr " + strings.Join(e.tokens(), " "), "compile"}
	nInst := 1
	if r.Chance(1, 3) {
		nInst = 2 + r.Intn(2)
	}
	if g.wantInst > 0 {
		nInst = g.wantInst
	}
	for k := 1; k < nInst; k++ {
		lines = append(lines, "inst "+strconv.Itoa(k))
	}
	n := 2 + r.Intn(6)
	if thorough {
		n += r.Intn(6)
	}
	for j := 0; j < n; j++ {
		if usePoints && !r.Chance(1, 6) {
			lines = append(lines, g.point(names, r.Intn(nInst), flip).line())
			continue
		}
		p := mainPath
		if p == "" || r.Chance(1, 4) {
			switch k := r.Intn(100); {
			case k < 45:
				p = "eval"
			case k < 65:
				p = "pred"
			case k < 80:
				p = directOf(ty)
			case k < 87:
				p = kit.Pick(r, paths[3:])
			default:
				p = "type"
			}
		}
		o := evalOp{inst: r.Intn(nInst), path: p, binds: g.scope(names, flip)}
		lines = append(lines, o.line())
	}
	return lines
}

// directed: one shape per structural case of the evaluator, details randomised. Returns the expression, its
// base type, the entry path to prefer ("" = any) and the flip percentage.
func (g *gen) directed(i int) (*ex, string, string, int) {
	r := g.r
	i64 := func() *ex { return lit(kit.Pick(r, intPool)) }
	switch r.Intn(16) {
	case 14: // `"host" =~ /pattern/`: a designed pattern against subjects that separate its readings (field, tag or literal)
		re := lit(g.regex())
		var sub *ex = g.ref("string")
		if r.Chance(1, 6) {
			sub = lit(g.strVal())
		}
		var e *ex = bin(kit.Pick(r, []string{"reEq", "reNe"}), sub, re)
		switch r.Intn(6) {
		case 0:
			e = un("not", e)
		case 1: // two patterns over the same word set
			e = bin(kit.Pick(r, []string{"and", "or"}), e, bin(kit.Pick(r, []string{"reEq", "reNe"}), g.ref("string"), lam(lit(g.regex()))))
		}
		return e, "bool", "", 8
	case 0: // dynamic math node asked directly, operand type changes between points (ill-typed point in between)
		return bin(kit.Pick(r, []string{"plus", "minus", "mult"}), g.ref("int"), i64()), "int", "dInt", 50
	case 1: // node with constant operand types whose operand fails its type guard at run time
		return bin(kit.Pick(r, []string{"and", "or", "eq"}), un("not", g.ref("bool")), lit(r.Bool())), "bool", "pred", 50
	case 2: // stateful left operand, right operand changes between int, float and duration
		return bin("mult", call("count"), g.ref("int")), "int", "eval", 60
	case 3: // unary minus on something that is not a number
		k := kit.Pick(r, []string{"string", "bool", "regex"})
		inner := lit(g.valOf(k))
		if k != "regex" && r.Bool() {
			inner = g.ref(k)
		}
		var e *ex = un("neg", inner)
		if r.Bool() {
			e = bin("eq", e, lit(g.valOf(k)))
		}
		return e, "bool", "", 20
	case 4: // zero divisors on the predicate path
		den := kit.Pick(r, []*ex{g.ref("int"), lit(int64(0)), g.ref("duration")})
		num := kit.Pick(r, []*ex{i64(), g.ref("duration"), g.ref("int")})
		return bin("gt", bin(kit.Pick(r, []string{"div", "mod"}), num, den), lit(int64(1))), "bool", "pred", 40
	case 5: // strSubstring / index functions at the byte-length and rune-count boundaries of multi-byte strings
		switch r.Intn(6) {
		case 0: // rune-set functions: members at both ends, multi-byte and invalid-byte cutsets
			return call(kit.Pick(r, []string{"strTrim", "strTrimLeft", "strTrimRight"}), g.strArg(0), g.cutArg()), "string", "", 10
		case 1:
			return call(kit.Pick(r, []string{"strIndexAny", "strLastIndexAny"}), g.strArg(0), g.cutArg()), "int", "", 10
		case 2:
			return call("strContainsAny", g.strArg(0), g.cutArg()), "bool", "", 10
		case 3, 4:
			return g.substr(), "string", "", 10
		}
		return call(kit.Pick(r, []string{"strIndex", "strLastIndex", "strCount"}), g.strArg(0), g.subArg()), "int", "", 10
	case 6: // more than maxArgs arguments
		return bin("gt", &ex{kind: "FM", op: kit.Pick(r, []string{"abs", "count", "if", "nosuch"})}, lit(0.0)), "bool", "", 0
	case 7: // AND/OR short circuit over an ill-typed or faulting right operand
		bad := kit.Pick(r, []*ex{bin("gt", bin("div", i64(), g.ref("int")), lit(int64(0))), bin("gt", g.ref("string"), lit(int64(1))),
			call("bool", bin("plus", g.ref("int"), lit("a")))})
		return bin(kit.Pick(r, []string{"and", "or"}), g.ref("bool"), bad), "bool", "", 30
	case 8: // stateful functions per instance, well typed all along
		f := kit.Pick(r, []string{"sigma", "spread"})
		return bin(kit.Pick(r, []string{"plus", "mult"}), call(f, g.ref("float")), call(f, bin("plus", g.ref("float"), lit(1.0)))), "float", "eval", 0
	case 9: // int/float comparison matrix with flips
		return bin(kit.Pick(r, []string{"eq", "ne", "lt", "le", "gt", "ge"}), g.ref(kit.Pick(r, []string{"int", "float"})),
			kit.Pick(r, []*ex{lit(kit.Pick(r, floatPool)), i64(), g.ref("float"), g.ref("int")})), "bool", "", 60
	case 10: // nested dynamic math below a comparison
		return bin("gt", bin(kit.Pick(r, []string{"plus", "mult", "div"}), g.ref("int"), g.ref("int")), g.ref(kit.Pick(r, []string{"int", "float"}))), "bool", "", 55
	case 11: // missing / undefined references and isPresent
		n := kit.Pick(r, []string{"a", "z"})
		g.used[n] = true
		return call("if", call("isPresent", ref(n)), kit.Pick(r, []*ex{ref(n), un("neg", ref(n))}), i64()), "int", "", 70
	case 12: // duration arithmetic with float conversions
		return bin(kit.Pick(r, []string{"mult", "div"}), g.ref("duration"), g.ref(kit.Pick(r, []string{"float", "int"}))), "duration", "", 40
	case 13: // the point's time
		return bin(kit.Pick(r, []string{"ge", "lt", "eq"}), call(kit.Pick(r, []string{"unixNano", "hour", "minute", "day", "month", "year", "weekday"}), g.ref("time")),
			kit.Pick(r, []*ex{i64(), g.ref("int")})), "bool", "", 30
	default: // count() shared cache, separate state
		return bin("gt", call("count"), lit(int64(r.Intn(3)))), "bool", "pred", 0
	}
}

// lambdaDirected: shapes around EvalLambdaNode — the recorded finding (a stateful function inside a nested lambda, one or several
// groups), its state separate from the enclosing expression's, stateless lambdas under several groups, lambdas in lambdas, dynamic
// lambdas whose body changes type, a lambda around a missing reference as a function argument, a lambda that yields a time.
func (g *gen) lambdaDirected() (*ex, string, string, int) {
	r := g.r
	g.wantInst = 1 + r.Intn(3)
	k := lit(int64(r.Intn(4)))
	switch r.Intn(10) {
	case 0: // the finding: (lambda: count()) > k
		return bin("gt", lam(call("count")), k), "bool", kit.Pick(r, []string{"pred", "eval", "dBool"}), 0
	case 1: // lambda: count() > k, possibly under AND with a field (short circuit skips the lambda: its counter stands still)
		w := lam(bin("gt", call("count"), k))
		if r.Bool() {
			return bin(kit.Pick(r, []string{"and", "or"}), g.ref("bool"), w), "bool", "pred", 0
		}
		return w, "bool", "pred", 0
	case 2: // sigma / spread inside the lambda, over a field
		f := kit.Pick(r, []string{"sigma", "spread"})
		return bin("gt", lam(call(f, g.ref("float"))), lit(kit.Pick(r, []float64{0, 0.5, 1, 2}))), "bool", "", 0
	case 3: // the lambda's own functions are separate from the enclosing expression's: count() * (lambda: count())
		return bin(kit.Pick(r, []string{"mult", "plus", "minus"}), call("count"), lam(call("count"))), "int", "eval", 0
	case 4: // two lambda nodes, each with its own state; a lambda in a lambda
		if r.Bool() {
			return bin("plus", lam(call("count")), bin("mult", lit(int64(10)), lam(call("count")))), "int", "eval", 0
		}
		return bin("plus", lam(bin("mult", lit(int64(10)), lam(call("count")))), lam(lam(call("count")))), "int", "eval", 0
	case 5: // a STATELESS lambda inside a stateful expression under several groups: no deviation
		g.wantInst = 2 + r.Intn(2)
		return bin("gt", bin("mult", call("count"), lam(bin("mult", g.ref("int"), lit(int64(2))))), lit(int64(15))), "bool", "", 10
	case 6: // a dynamic lambda whose body changes type between points
		return bin(kit.Pick(r, []string{"plus", "mult", "lt"}), lam(g.ref("int")), kit.Pick(r, []*ex{lit(int64(2)), lit(2.5), g.ref("int")})), "int", "", 60
	case 7: // a lambda around a missing / undefined reference as a function argument
		n := kit.Pick(r, []string{"a", "z"})
		g.used[n] = true
		return call("if", call("isPresent", lam(ref(n))), lam(kit.Pick(r, []*ex{ref(n), un("neg", ref(n))})), lit(int64(7))), "int", "", 70
	case 8: // a lambda that yields a time: EvalLambdaNode.EvalTime refuses
		return bin("ge", call(kit.Pick(r, []string{"hour", "unixNano"}), lam(g.ref("time"))), lit(int64(0))), "bool", "", 0
	default: // constant lambdas (the binary node above them is specialised at construction) and a failing constant one
		return bin(kit.Pick(r, []string{"plus", "eq", "and"}), lam(lit(kit.Pick(r, intPool))), lam(kit.Pick(r, []*ex{lit(int64(3)), lit(true), lit(1.5)}))), "int", "", 0
	}
}

var fieldTys = []string{"int", "float", "string", "bool"}

// point draws a point for kapacitor.EvalPredicate: every referenced name is a field (mostly of its base type when
// that is a field type), a tag, both (collision), or absent (missing).
func (g *gen) point(names []string, inst, flip int) evalOp {
	r := g.r
	o := evalOp{inst: inst, path: "point", tm: int64(r.Intn(2000000000))*1000000000 + int64(r.Intn(1000))}
	for _, n := range names {
		ty := baseTy[n]
		if ty == "ascii" {
			ty = "string"
		}
		legal := ty == "int" || ty == "float" || ty == "string" || ty == "bool"
		if !legal || r.Intn(100) < flip {
			ty = kit.Pick(r, fieldTys)
		}
		switch k := r.Intn(100); {
		case k < 68:
			o.fields = append(o.fields, binding{n, g.valOf(ty)})
		case k < 80:
			o.tags = append(o.tags, binding{n, g.strVal()})
		case k < 86:
			o.fields = append(o.fields, binding{n, g.valOf(ty)})
			o.tags = append(o.tags, binding{n, g.strVal()})
		}
	}
	if r.Chance(1, 10) { // a field or tag nobody references, and one called "time" (ignored: time is the point's time)
		o.fields = append(o.fields, binding{"unused", int64(1)})
		o.tags = append(o.tags, binding{"time", "x"})
	}
	return o
}

// strArg: a string argument — a literal or reference (any pool string, multi-byte and long ones included) or,
// sometimes, a computed string.
func (g *gen) strArg(d int) *ex {
	if d > 0 && g.r.Chance(1, 4) {
		return g.expr("string", d-1)
	}
	return g.leaf(kit.Pick(g.r, []string{"string", "ascii"}))
}

// subArg: a substring / prefix / suffix argument: pieces of pool strings (whole runes and single bytes of multi-byte runes).
func (g *gen) subArg() *ex {
	r := g.r
	if r.Chance(1, 3) {
		return g.leaf("string")
	}
	s := kit.Pick(r, strPool)
	if len(s) == 0 {
		return lit("")
	}
	i := r.Intn(len(s))
	j := i + r.Intn(len(s)-i+1)
	if j-i > 4 {
		j = i + 4
	}
	return lit(s[i:j])
}

// cutArg: the cutset / character-set argument of strTrim*, str*Any: a pool cutset (ASCII, multi-byte, invalid bytes), runes or single
// bytes cut from a pool string (so that members occur in the strings), or any string leaf.
func (g *gen) cutArg() *ex {
	r := g.r
	switch r.Intn(4) {
	case 0:
		return g.leaf("string")
	case 1:
		return g.subArg()
	default:
		return lit(kit.Pick(r, cutPool))
	}
}

// substr: strSubstring on a string with indexes at 0, 1, n-1, n, n+1 for n = byte length and n = rune count, negatives, 33.
func (g *gen) substr() *ex {
	r := g.r
	s := kit.Pick(r, strPool)
	n, rc := int64(len(s)), int64(len([]rune(s)))
	cands := []int64{0, 1, n - 1, n, n + 1, rc - 1, rc, rc + 1, -1, 2, 33, n / 2}
	a, b := kit.Pick(r, cands), kit.Pick(r, cands)
	if r.Chance(2, 3) && a > b {
		a, b = b, a
	}
	var first *ex = lit(s)
	if r.Chance(1, 3) {
		first = g.ref("ascii")
	}
	mk := func(v int64) *ex {
		if r.Chance(1, 6) {
			return g.ref("int")
		}
		return lit(v)
	}
	return call("strSubstring", first, mk(a), mk(b))
}
