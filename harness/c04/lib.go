package c04

// libCall answers an external (library) function call with the Go library directly. It is the oracle for
// every builtin the Lean model does not define itself; it never goes through kapacitor. ok=false means the
// call is rejected (wrong argument types / count, unparsable string, index out of range …).

import (
	"math"
	"regexp"
	"strconv"
	"strings"
	"time"

	humanize "github.com/dustin/go-humanize"
	"github.com/influxdata/influxql"
)

func f64frombits(b uint64) float64 { return math.Float64frombits(b) }

var math1 = map[string]func(float64) float64{
	"abs": math.Abs, "acos": math.Acos, "acosh": math.Acosh, "asin": math.Asin, "asinh": math.Asinh, "atan": math.Atan,
	"atanh": math.Atanh, "cbrt": math.Cbrt, "ceil": math.Ceil, "cos": math.Cos, "cosh": math.Cosh, "erf": math.Erf,
	"erfc": math.Erfc, "exp": math.Exp, "exp2": math.Exp2, "expm1": math.Expm1, "floor": math.Floor, "gamma": math.Gamma,
	"j0": math.J0, "j1": math.J1, "log": math.Log, "log10": math.Log10, "log1p": math.Log1p, "log2": math.Log2,
	"logb": math.Logb, "sin": math.Sin, "sinh": math.Sinh, "sqrt": math.Sqrt, "tan": math.Tan, "tanh": math.Tanh,
	"trunc": math.Trunc, "y0": math.Y0, "y1": math.Y1,
}
var math2 = map[string]func(float64, float64) float64{
	"atan2": math.Atan2, "hypot": math.Hypot, "max": math.Max, "min": math.Min, "mod": math.Mod, "pow": math.Pow,
}
var mathIF = map[string]func(int, float64) float64{"jn": math.Jn, "yn": math.Yn}
var str2bool = map[string]func(string, string) bool{
	"strContains": strings.Contains, "strContainsAny": strings.ContainsAny, "strHasPrefix": strings.HasPrefix, "strHasSuffix": strings.HasSuffix,
}
var str2int = map[string]func(string, string) int{
	"strCount": strings.Count, "strIndex": strings.Index, "strIndexAny": strings.IndexAny, "strLastIndex": strings.LastIndex,
	"strLastIndexAny": strings.LastIndexAny,
}
var str2str = map[string]func(string, string) string{
	"strTrim": strings.Trim, "strTrimLeft": strings.TrimLeft, "strTrimPrefix": strings.TrimPrefix, "strTrimRight": strings.TrimRight,
	"strTrimSuffix": strings.TrimSuffix,
}
var str1str = map[string]func(string) string{"strToLower": strings.ToLower, "strToUpper": strings.ToUpper, "strTrimSpace": strings.TrimSpace}
var timeFn = map[string]func(time.Time) int64{
	"unixNano": func(t time.Time) int64 { return t.UnixNano() }, "minute": func(t time.Time) int64 { return int64(t.Minute()) },
	"hour": func(t time.Time) int64 { return int64(t.Hour()) }, "weekday": func(t time.Time) int64 { return int64(t.Weekday()) },
	"day": func(t time.Time) int64 { return int64(t.Day()) }, "month": func(t time.Time) int64 { return int64(t.Month()) },
	"year": func(t time.Time) int64 { return int64(t.Year()) },
}

func libCall(name string, a []interface{}) (interface{}, bool) {
	fl := func(i int) (float64, bool) { v, ok := a[i].(float64); return v, ok }
	st := func(i int) (string, bool) { v, ok := a[i].(string); return v, ok }
	in := func(i int) (int64, bool) { v, ok := a[i].(int64); return v, ok }
	if f, ok := math1[name]; ok {
		if len(a) != 1 {
			return nil, false
		}
		x, ok := fl(0)
		if !ok {
			return nil, false
		}
		return f(x), true
	}
	if f, ok := math2[name]; ok {
		if len(a) != 2 {
			return nil, false
		}
		x, ok1 := fl(0)
		y, ok2 := fl(1)
		if !ok1 || !ok2 {
			return nil, false
		}
		return f(x, y), true
	}
	if f, ok := mathIF[name]; ok {
		if len(a) != 2 {
			return nil, false
		}
		n, ok1 := in(0)
		y, ok2 := fl(1)
		if !ok1 || !ok2 || n > 1<<20 || n < -(1<<20) {
			return nil, false // kapacitor rejects orders beyond 2^20 (math.Jn/Yn run in time proportional to the order)
		}
		return f(int(n), y), true
	}
	if name == "pow10" {
		if len(a) != 1 {
			return nil, false
		}
		n, ok := in(0)
		if !ok {
			return nil, false
		}
		return math.Pow10(int(n)), true
	}
	two := func() (string, string, bool) {
		if len(a) != 2 {
			return "", "", false
		}
		x, ok1 := st(0)
		y, ok2 := st(1)
		return x, y, ok1 && ok2
	}
	if f, ok := str2bool[name]; ok {
		x, y, ok := two()
		if !ok {
			return nil, false
		}
		return f(x, y), true
	}
	if f, ok := str2int[name]; ok {
		x, y, ok := two()
		if !ok {
			return nil, false
		}
		return int64(f(x, y)), true
	}
	if f, ok := str2str[name]; ok {
		x, y, ok := two()
		if !ok {
			return nil, false
		}
		return f(x, y), true
	}
	if f, ok := str1str[name]; ok {
		if len(a) != 1 {
			return nil, false
		}
		x, ok := st(0)
		if !ok {
			return nil, false
		}
		return f(x), true
	}
	if f, ok := timeFn[name]; ok {
		if len(a) != 1 {
			return nil, false
		}
		t, ok := a[0].(time.Time)
		if !ok {
			return nil, false
		}
		return f(t), true
	}
	switch name {
	case "strLength":
		if len(a) != 1 {
			return nil, false
		}
		x, ok := st(0)
		if !ok {
			return nil, false
		}
		return int64(len(x)), true
	case "strSubstring":
		// the bytes [start, stop) of the string
		if len(a) != 3 {
			return nil, false
		}
		x, ok0 := st(0)
		i, ok1 := in(1)
		j, ok2 := in(2)
		if !ok0 || !ok1 || !ok2 || i < 0 || j < i || j > int64(len(x)) {
			return nil, false
		}
		return string([]byte(x)[i:j]), true
	case "regexReplace":
		if len(a) != 3 {
			return nil, false
		}
		re, ok0 := a[0].(*regexp.Regexp)
		s, ok1 := st(1)
		rp, ok2 := st(2)
		if !ok0 || !ok1 || !ok2 {
			return nil, false
		}
		return re.ReplaceAllString(s, rp), true
	case "humanBytes":
		if len(a) != 1 {
			return nil, false
		}
		switch x := a[0].(type) {
		case float64:
			return humanize.Bytes(uint64(x)), true
		case int64:
			return humanize.Bytes(uint64(x)), true
		}
		return nil, false
	case "bool":
		if len(a) != 1 {
			return nil, false
		}
		switch x := a[0].(type) {
		case bool:
			return x, true
		case string:
			v, err := strconv.ParseBool(x)
			return v, err == nil
		case int64:
			if x == 0 || x == 1 {
				return x == 1, true
			}
		case float64:
			if x == 0 || x == 1 {
				return x == 1, true
			}
		}
		return nil, false
	case "int":
		if len(a) != 1 {
			return nil, false
		}
		switch x := a[0].(type) {
		case int64:
			return x, true
		case float64:
			return int64(x), true
		case string:
			v, err := strconv.ParseInt(x, 10, 64)
			return v, err == nil
		case bool:
			if x {
				return int64(1), true
			}
			return int64(0), true
		case time.Duration:
			return int64(x), true
		}
		return nil, false
	case "float":
		if len(a) != 1 {
			return nil, false
		}
		switch x := a[0].(type) {
		case int64:
			return float64(x), true
		case float64:
			return x, true
		case string:
			v, err := strconv.ParseFloat(x, 64)
			return v, err == nil
		case bool:
			if x {
				return float64(1), true
			}
			return float64(0), true
		}
		return nil, false
	case "string":
		if len(a) != 1 {
			return nil, false
		}
		switch x := a[0].(type) {
		case int64:
			return strconv.FormatInt(x, 10), true
		case float64:
			return strconv.FormatFloat(x, 'f', -1, 64), true
		case bool:
			return strconv.FormatBool(x), true
		case time.Duration:
			return influxql.FormatDuration(x), true
		case string:
			return x, true
		}
		return nil, false
	case "duration":
		if len(a) != 1 && len(a) != 2 {
			return nil, false
		}
		unit := func() (time.Duration, bool) {
			if len(a) != 2 {
				return 0, false
			}
			u, ok := a[1].(time.Duration)
			return u, ok
		}
		switch x := a[0].(type) {
		case time.Duration:
			return x, true
		case int64:
			u, ok := unit()
			if !ok {
				return nil, false
			}
			return time.Duration(x) * u, true
		case float64:
			u, ok := unit()
			if !ok {
				return nil, false
			}
			return time.Duration(x * float64(u)), true
		case string:
			d, err := influxql.ParseDuration(x)
			return d, err == nil
		}
		return nil, false
	}
	return nil, false
}
