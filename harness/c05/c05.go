// Package c05 is the harness for property C05 ("no script, data point or peer message can crash the
// daemon or kill a task").
//
// Every operation runs the REAL kapacitor code in a CHILD PROCESS (this binary re-executed with
// `-worker`): the parent sends one op line, the worker answers one observation line. A panic in any
// goroutine of the implementation (e.g. the lexer goroutine), a hang or a process exit therefore IS an
// observation (`X crash`, `X hang`) of the op that was running and never kills the harness. Inside the
// worker each op is additionally wrapped in recover (observation `panic`) and in a goroutine census
// (observation `leak=<n>`).
package c05

import (
	"bufio"
	"fmt"
	"io"
	"os"
	"os/exec"
	"strconv"
	"strings"
	"sync"
	"sync/atomic"
	"time"

	"verifharness/kit"
)

// ---------------------------------------------------------------------------------------------
// worker pool (parent side)

type worker struct {
	cmd *exec.Cmd
	in  io.WriteCloser
	out *bufio.Reader
}

func startWorker() (*worker, error) {
	exe, err := os.Executable()
	if err != nil {
		return nil, err
	}
	cmd := exec.Command(exe, "-worker")
	cmd.Env = os.Environ()
	if os.Getenv("VERIF_LOG") != "" {
		cmd.Stderr = os.Stderr
	}
	in, err := cmd.StdinPipe()
	if err != nil {
		return nil, err
	}
	out, err := cmd.StdoutPipe()
	if err != nil {
		return nil, err
	}
	if err := cmd.Start(); err != nil {
		return nil, err
	}
	return &worker{cmd: cmd, in: in, out: bufio.NewReaderSize(out, 1<<20)}, nil
}

func (w *worker) kill() {
	w.in.Close()
	w.cmd.Process.Kill()
	w.cmd.Wait()
}

// hangs counts ops that timed out in this run: every one of them is already a violation, so later
// ops get less and less patience (a scanner that spins on every unterminated literal must not turn the
// run into hours).
var hangs int64

func opTimeout(op string) time.Duration {
	switch h := atomic.LoadInt64(&hangs); {
	case h >= 40:
		return 300 * time.Millisecond
	case h >= 12:
		return time.Second
	case h >= 3:
		return 4 * time.Second
	}
	switch strings.SplitN(op, " ", 2)[0] {
	case "live", "livex", "udfsrv", "udfwrite", "udfrr", "udftask", "http", "jsontask":
		return 40 * time.Second
	}
	return 15 * time.Second
}

// ask sends one op to the worker and returns its observation; alive=false when the worker is gone.
func (w *worker) ask(op string) (obs string, alive bool) {
	if _, err := io.WriteString(w.in, op+"\n"); err != nil {
		w.kill()
		return "X crash", false
	}
	type res struct {
		s   string
		err error
	}
	ch := make(chan res, 1)
	go func() {
		for {
			line, err := w.out.ReadString('\n')
			if err != nil {
				ch <- res{"", err}
				return
			}
			if strings.HasPrefix(line, "R ") {
				ch <- res{strings.TrimSpace(line[2:]), nil}
				return
			}
			// anything else is stray library output: ignored
		}
	}()
	select {
	case r := <-ch:
		if r.err != nil {
			w.kill()
			return "X crash", false
		}
		if strings.HasPrefix(r.s, "X ") {
			// the worker itself gave up on the op (e.g. a node that spins for ever): do not reuse it
			atomic.AddInt64(&hangs, 1)
			w.kill()
			return r.s, false
		}
		return r.s, true
	case <-time.After(opTimeout(op)):
		atomic.AddInt64(&hangs, 1)
		w.kill()
		<-ch
		return "X hang", false
	}
}

// execCases runs the cases on a pool of workers and returns the op lines with observations, in order.
func execCases(cases [][]string, nworkers int) [][]string {
	out := make([][]string, len(cases))
	idx := make(chan int, len(cases))
	for i := range cases {
		idx <- i
	}
	close(idx)
	var wg sync.WaitGroup
	for k := 0; k < nworkers; k++ {
		wg.Add(1)
		go func() {
			defer wg.Done()
			var w *worker
			defer func() {
				if w != nil {
					w.kill()
				}
			}()
			for i := range idx {
				var res []string
				for _, raw := range cases[i] {
					op := normalizeOp(stripObs(raw))
					if op == "" {
						continue
					}
					if w == nil {
						var err error
						if w, err = startWorker(); err != nil {
							fmt.Fprintln(os.Stderr, "c05: cannot start worker:", err)
							os.Exit(3)
						}
					}
					obs, alive := w.ask(op)
					if !alive {
						w = nil
					}
					if strings.HasPrefix(op, "pbatch ") && strings.HasPrefix(obs, "X ") {
						// the process died / hung somewhere in the batch: redo its strings one by one so that
						// the failing input is named
						for _, e := range strings.Fields(op)[2:] {
							for _, k := range []string{"prog", "fmt", "lambda"} {
								sop := normalizeOp("parse " + k + " " + e)
								if w == nil {
									var err error
									if w, err = startWorker(); err != nil {
										fmt.Fprintln(os.Stderr, "c05: cannot start worker:", err)
										os.Exit(3)
									}
								}
								o, al := w.ask(sop)
								if !al {
									w = nil
								}
								res = append(res, sop+" => "+o)
							}
						}
						continue
					}
					res = append(res, op+" => "+obs)
				}
				out[i] = res
			}
		}()
	}
	wg.Wait()
	return out
}

func stripObs(line string) string {
	if i := strings.Index(line, " => "); i >= 0 {
		return line[:i]
	}
	return strings.TrimSpace(line)
}

// normalizeOp recomputes the oracle tokens of an op line (the character-class table of `lex`/`parse`
// lines is computed here with Go's unicode tables, whatever the file said).
func normalizeOp(op string) string {
	t := strings.Fields(op)
	if len(t) == 0 {
		return ""
	}
	switch t[0] {
	case "lex":
		if len(t) >= 2 {
			s, _ := kit.Unesc(t[1])
			return "lex " + t[1] + " " + clsTable(s)
		}
	case "pbatch":
		if len(t) >= 3 {
			var all strings.Builder
			for _, e := range t[2:] {
				s, _ := kit.Unesc(e)
				all.WriteString(s)
				all.WriteByte(' ')
			}
			return "pbatch " + clsTable(all.String()) + " " + strings.Join(t[2:], " ")
		}
	case "parse":
		if len(t) >= 3 {
			s, _ := kit.Unesc(t[2])
			return "parse " + t[1] + " " + t[2] + " " + clsTable(s)
		}
	}
	return strings.Join(t, " ")
}

// ---------------------------------------------------------------------------------------------
// entry point

func Run(args []string) int {
	if len(args) > 0 && args[0] == "-worker" {
		return workerMain()
	}
	f := kit.ParseFlags(args)
	nw := 6
	if v, err := strconv.Atoi(os.Getenv("VERIF_WORKERS")); err == nil && v > 0 {
		nw = v
	}
	var ids []string
	var cases [][]string
	if f.Ops != "" {
		lines, err := kit.ReadLines(f.Ops)
		if err != nil {
			fmt.Fprintln(os.Stderr, "c05:", err)
			return 3
		}
		var cur []string
		id := ""
		for _, l := range lines {
			t := strings.Fields(l)
			switch {
			case len(t) == 2 && t[0] == "case":
				id, cur = t[1], nil
			case len(t) == 1 && t[0] == "end":
				ids = append(ids, id)
				cases = append(cases, cur)
				cur = nil
			default:
				cur = append(cur, l)
			}
		}
	} else {
		cases = generate(f)
		for i := range cases {
			ids = append(ids, fmt.Sprintf("g%d", i))
		}
	}
	res := execCases(cases, nw)
	out := kit.NewOut()
	for i, c := range res {
		out.Line("case", ids[i])
		for _, l := range c {
			out.Line(l)
		}
		out.Line("end")
	}
	out.Flush()
	return 0
}
