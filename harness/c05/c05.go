// Package c05 is the harness for property C05 (runs the real kapacitor code, prints op lines).
package c05

import (
	"fmt"
	"os"
)

// Run is replaced by the property's harness.
func Run(args []string) int {
	fmt.Fprintln(os.Stderr, "c05: harness not implemented yet")
	return 3
}
