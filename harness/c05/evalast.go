package c05

// `evalast <ignoreMissingVars 0|1> <script>`: the REAL tick.Evaluate on an empty scope with a fixed set of
// predefined vars. Observation: `<ok|err|panic> <AST of ast.Parse in prefix form | ->`. The driver runs the
// evaluator MODEL (Kap/Model/C05Eval.lean) on that AST, checks that the AST has the shape the stack-depth
// theorem assumes (`parserShaped`), and compares the ok/err verdict wherever it does not hinge on the
// reflection / expression oracle.

import (
	"fmt"
	"strings"

	"verifharness/kit"

	"github.com/influxdata/kapacitor/tick"
	"github.com/influxdata/kapacitor/tick/ast"
	"github.com/influxdata/kapacitor/tick/stateful"
)

// must agree with `Kap.C05.Drv.evalPre` in the driver
func evalPredefined() map[string]tick.Var {
	return map[string]tick.Var{
		"pi":   {Type: ast.TInt, Value: int64(3)},
		"ps":   {Type: ast.TString, Value: "s"},
		"pl":   {Type: ast.TList, Value: []tick.Var{{Type: ast.TString, Value: "a"}}},
		"pbad": {Type: ast.TList, Value: int64(1)},
	}
}

func serAst(b *strings.Builder, n ast.Node) {
	w := func(s string) { b.WriteByte(' '); b.WriteString(s) }
	switch x := n.(type) {
	case *ast.BoolNode:
		w("Lb")
	case *ast.NumberNode:
		if x.IsInt {
			w("Li")
		} else {
			w("Lf")
		}
	case *ast.DurationNode:
		w("Ld")
	case *ast.StringNode:
		w("Ls")
	case *ast.RegexNode:
		w("Lr")
	case *ast.StarNode:
		w("L*")
	case *ast.UnaryNode:
		w("U")
		w(fmt.Sprint(int(x.Operator)))
		serAst(b, x.Node)
	case *ast.BinaryNode:
		w("O")
		serAst(b, x.Left)
		serAst(b, x.Right)
	case *ast.LambdaNode:
		w("M")
		serAst(b, x.Expression)
	case *ast.ListNode:
		w("[")
		w(fmt.Sprint(len(x.Nodes)))
		for _, c := range x.Nodes {
			serAst(b, c)
		}
	case *ast.TypeDeclarationNode:
		w("T")
		w(kit.Esc(x.Node.Ident))
		w(kit.Esc(x.Type.Ident))
	case *ast.DeclarationNode:
		w("V")
		w(kit.Esc(x.Left.Ident))
		serAst(b, x.Right)
	case *ast.ChainNode:
		w("C")
		serAst(b, x.Left)
		serAst(b, x.Right)
	case *ast.FunctionNode:
		w("F")
		switch x.Type {
		case ast.GlobalFunc:
			w("g")
		case ast.ChainFunc:
			w("c")
		case ast.PropertyFunc:
			w("p")
		case ast.DynamicFunc:
			w("d")
		default:
			w("?")
		}
		w(kit.Esc(x.Func))
		w(fmt.Sprint(len(x.Args)))
		for _, c := range x.Args {
			serAst(b, c)
		}
	case *ast.ProgramNode:
		w("P")
		w(fmt.Sprint(len(x.Nodes)))
		for _, c := range x.Nodes {
			serAst(b, c)
		}
	case *ast.IdentifierNode:
		w("I")
		w(kit.Esc(x.Ident))
	case nil:
		w("NIL")
	default:
		w("X")
	}
}

func execEvalAst(mode, script string) string {
	return guarded(false, func() string {
		var b strings.Builder
		root, perr := ast.Parse(script)
		if perr != nil {
			b.WriteString(" -")
		} else {
			serAst(&b, root)
		}
		res := "panic"
		func() {
			defer func() {
				if r := recover(); r != nil {
					res = "panic"
				}
			}()
			_, err := tick.Evaluate(script, stateful.NewScope(), evalPredefined(), mode == "1")
			res = errObs(err)
		}()
		return res + b.String()
	})
}

// statements that reach every branch of eval / evalUnary / evalDeclaration / evalTypeDeclaration / evalChain /
// evalFunc / resolveIdents on an empty scope
var evalStmts = []string{
	"var x = 1", "var x = 1.5", "var x = 'a'", "var x = 10s", "var x = /r/", "var x = TRUE", "var x = *",
	"var x = lambda: \"v\" > 1", "var x = lambda: y > 1", "var x = ['a', 'b']", "var x = [*]", "var x = [y]", "var x = []",
	"var y = x", "var y = -x", "var y = !x", "var y = -'a'", "var y = !TRUE", "var y = -1", "var y = -1.0",
	"var y = -1s", "var y = !1", "var y = - -1", "var y = !!FALSE", "var y = -TRUE",
	"var x int", "var x float", "var x bool", "var x string", "var x regex", "var x duration", "var x lambda",
	"var x list", "var x star", "var x bogus", "var y int",
	"var pi = 2", "var pi = 'a'", "var pl = ['z']", "var pl = 1", "var pbad = ['q']", "var ps = 'q'",
	"var pi int", "var pl list", "var pbad list", "var ps int", "var ps string",
	"x", "y", "x.y", "x|y()", "x.y()", "x@y()", "x.y.z", "x|y().z(1)", "pi.y", "pi|y()",
	"f()", "f(1)", "f(x)", "f(g())", "f(['a'])", "f(x, y)", "f(-x)", "f(lambda: 1)", "var z = f()", "var z = f(x)",
	"var w = 1 + 1", "var w = 1 + x", "var w = x + y", "var w = x + 'a'", "var w = f(x) + 1", "var w = -x + 1", "1 + 1",
	"var l2 = [x, 'b']", "var l2 = [x, y]", "var l3 = [pl]",
	"dbrp \"a\".\"b\"", "-x", "!x", "'s'", "\"ref\"", "var r = \"ref\"", "var r = \"ref\".y", "*", "1", "TRUE",
	"var n = x.y", "var n = x|y()", "var n = x|y(z)", "var v = y|f(x)",
}

func evalCases(r *kit.Rand, n int, shard, nshards int) [][]string {
	var cases [][]string
	k := 0
	add := func(s string) {
		if k%nshards == shard {
			cases = append(cases, []string{"evalast 0 " + kit.Esc(s)}, []string{"evalast 1 " + kit.Esc(s)})
		}
		k++
	}
	add("")
	for _, s := range evalStmts {
		add(s)
	}
	// every ordered pair with a defining first statement (scope effects), sharded
	for _, a := range evalStmts {
		if !strings.HasPrefix(a, "var ") {
			continue
		}
		for _, b := range evalStmts {
			if strings.Contains(b, "x") || strings.Contains(b, "y") || strings.HasPrefix(b, "var p") {
				add(a + "\n" + b)
			}
		}
	}
	// random programs of 3-5 statements
	for i := 0; i < n; i++ {
		var ss []string
		for j := r.Range(3, 5); j > 0; j-- {
			ss = append(ss, kit.Pick(r, evalStmts))
		}
		s := strings.Join(ss, "\n")
		cases = append(cases, []string{fmt.Sprintf("evalast %d %s", r.Intn(2), kit.Esc(s))})
	}
	return cases
}
