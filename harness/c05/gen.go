package c05

import (
	"encoding/json"
	"fmt"
	"os"
	"regexp"
	"sort"
	"strings"
	"unicode/utf8"

	"github.com/influxdata/kapacitor/pipeline"
	"github.com/influxdata/kapacitor/tick/ast"
	"github.com/influxdata/kapacitor/tick/stateful"

	"verifharness/kit"
)

// alphabet: one symbol per character class the scanner distinguishes (plus two keywords).
var alphabet = []string{
	"a", "m", "s", "1", ".", "-", "!", "=", "~", "<", "+", "/", "\\", "'", "\"", " ", "\n", "(", ")", "|", ":", ",",
	"é",        // 2-byte letter
	"µ",        // 2-byte letter that is also a duration unit
	"€",        // 3-byte symbol
	"𝄞",        // 4-byte symbol
	"\xff",     // invalid UTF-8
	" ",   // 2-byte space
	"lambda",   // keyword with one-rune lookahead
}

var baseScripts = []string{
	"stream\n    |from()\n        .measurement('cpu')\n        .where(lambda: \"host\" == 'a' AND \"usage\" > 10.5)\n    |window()\n        .period(10s)\n        .every(5s)\n    |mean('usage')\n        .as('m')\n    |alert()\n        .crit(lambda: \"m\" > 80)\n        .topic('t')\n",
	"var period = 10s\nvar name string\nvar xs = ['a', 'b', *]\nstream\n    |from()\n        .measurement(name)\n        .groupBy(xs)\n    |window()\n        .period(period)\n        .every(period)\n    |count('value')\n    @sink()\n",
	"// leading comment\n// second line\nvar re = /^a.*\\/b$/\nbatch\n    |query('SELECT mean(v) FROM \"db\".\"rp\".\"m\"')\n        .period(1m)\n        .every(30s)\n        .groupBy(time(10s), *)\n    |eval(lambda: \"mean\" * 2.0 - -1.0, lambda: if(\"mean\" =~ re, 1, 0))\n        .as('d', 'r')\n        .keep()\n    |httpOut('x')\n",
	"dbrp \"telegraf\".\"autogen\"\nstream|from().measurement('m')|where(lambda: 10 / \"v\" > 1 OR !(\"b\") AND \"s\" != '''it's''')|stateCount(lambda: \"v\" % 2 == 0)|log()\n",
	"var a = stream|from().measurement('a')\nvar b = stream|from().measurement('b')\na|join(b).as('a','b').tolerance(1ms)|derivative('a.v').unit(1µ).nonNegative()|influxDBOut().database('d').tag('k','v')\n",
	"stream|from()|default().field('x', 1.0).tag('t', 'v')|flatten().on('host')|sideload().source('file:///tmp').order('a.yml').field('f', 1)|stateDuration(lambda: TRUE).unit(1h)\n",
}

var baseLambdas = []string{
	`"a" + 1 > 2 AND ("b" =~ /x\/y/ OR !"c")`,
	`if("v" % 2 == 0, strSubstring('abc', 0, 1), 'x') != 'a'`,
	`-1.5e3 * float("x") / 10 <= sigma("y") - 2h`,
	`"x" >= 1 AND FALSE OR "y" !~ /z/ AND "d" < 1ms OR TRUE`,
}

var mutTokens = []string{
	".", "(", ")", "'", "\"", "lambda:", "lambda", "|", "@", "var x = ", "1", "1.5", "1s", "10ms", "1µ", "TRUE", "AND", "OR", "=~", "!~", "==", "=",
	"/", "//", "/*/", "'''", "\\", "\n", " ", ",", "[", "]", "*", "-", "!", "é", "𝄞", "\xff", " ", "dbrp", "stream", "from", ".measurement",
	"|where(lambda: 1/0 > 1)", "|eval()", "@sink()", "@nosuch()", ".nosuch()", "|nosuch()", ".as", ".period", "|window", "string", "x",
}

func mutate(r *kit.Rand, s string) string {
	n := 1 + r.Intn(3)
	for i := 0; i < n; i++ {
		pos := 0
		if len(s) > 0 {
			pos = r.Intn(len(s) + 1)
		}
		switch r.Intn(7) {
		case 0: // insert
			s = s[:pos] + kit.Pick(r, mutTokens) + s[pos:]
		case 1: // delete a run
			end := pos + 1 + r.Intn(4)
			if end > len(s) {
				end = len(s)
			}
			s = s[:pos] + s[end:]
		case 2: // replace one byte by a token
			if pos < len(s) {
				s = s[:pos] + kit.Pick(r, mutTokens) + s[pos+1:]
			}
		case 3: // truncate
			s = s[:pos]
		case 4: // duplicate a chunk
			end := pos + r.Intn(12)
			if end > len(s) {
				end = len(s)
			}
			s = s[:end] + s[pos:end] + s[end:]
		case 5: // drop the parentheses of a call: `.name(args)` -> `.name`
			if i := strings.Index(s[pos:], "("); i >= 0 {
				if j := strings.Index(s[pos+i:], ")"); j >= 0 {
					s = s[:pos+i] + s[pos+i+j+1:]
				}
			}
		case 6: // swap quote kinds
			if i := strings.IndexAny(s[pos:], "'\""); i >= 0 {
				b := []byte(s)
				if b[pos+i] == '\'' {
					b[pos+i] = '"'
				} else {
					b[pos+i] = '\''
				}
				s = string(b)
			}
		}
	}
	return s
}

// chain scripts built from the real node API with arguments of every kind (valid and not)
var chainNodes = []string{"from", "window", "mean", "count", "where", "eval", "alert", "stateCount", "stateDuration", "groupBy", "derivative", "log",
	"httpOut", "influxDBOut", "join", "union", "default", "delete", "flatten", "sample", "shift", "top", "bottom", "percentile", "elapsed",
	"barrier", "changeDetect", "combine", "deadman", "stats", "k8sAutoscale", "swarmAutoscale", "ec2Autoscale", "kapacitorLoopback", "sideload", "httpPost", "noSuchNode", "query"}
var chainProps = []string{"measurement", "period", "every", "as", "crit", "warn", "info", "topic", "id", "message", "groupBy", "where", "database",
	"retentionPolicy", "align", "fill", "keep", "quiet", "unit", "nonNegative", "on", "tolerance", "field", "tag", "tags", "stateChangesOnly", "flapping",
	"history", "all", "noRecoveries", "log", "exec", "email", "slack", "post", "tcp", "details", "durationField", "levelTag", "idTag", "inhibit", "category",
	"usePointTimes", "byMeasurement", "truncate", "round", "offset", "cron", "cluster", "noSuchProp", "mean", "count", "buffer", "flushInterval", "create", "streamName", "order", "source", "delimiter", "prefix", "level"}
var chainArgs = []string{"", "'s'", "\"r\"", "1", "1.5", "-1", "0", "1s", "0s", "-1s", "TRUE", "*", "/re/", "lambda: \"v\" > 1", "lambda: 1", "lambda: 'a'", "lambda: \"a\" / 0",
	"['a','b']", "[*]", "[]", "x", "'a', 'b'", "1, 2, 3", "lambda: \"v\", lambda: \"w\"", "time(1s)", "time()", "'a', lambda: 1", "stream", "9223372036854775808", "1e400", "''", "'''x'''"}

func genChain(r *kit.Rand) string {
	var b strings.Builder
	if r.Chance(1, 4) {
		b.WriteString("var x = " + kit.Pick(r, []string{"1", "'a'", "1s", "lambda: \"v\" > 1", "['a']", "stream", "/r/", "*"}) + "\n")
	}
	b.WriteString(kit.Pick(r, []string{"stream", "batch", "stream", "x"}))
	n := 1 + r.Intn(5)
	for i := 0; i < n; i++ {
		op := "|"
		if r.Chance(1, 10) {
			op = kit.Pick(r, []string{".", "@"})
		}
		b.WriteString(op + kit.Pick(r, chainNodes))
		if !r.Chance(1, 12) {
			b.WriteString("(" + kit.Pick(r, chainArgs) + ")")
		}
		for j := r.Intn(4); j > 0; j-- {
			b.WriteString("." + kit.Pick(r, chainProps))
			if !r.Chance(1, 10) {
				b.WriteString("(" + kit.Pick(r, chainArgs) + ")")
			}
		}
	}
	return b.String()
}

// JSON documents: marshalled real ASTs, then mutated
func baseJSON() (lambdas, programs []string) {
	for _, l := range baseLambdas {
		if n, err := ast.ParseLambda(l); err == nil {
			if b, err := json.Marshal(n); err == nil {
				lambdas = append(lambdas, string(b))
			}
		}
	}
	for _, s := range baseScripts {
		if n, err := ast.Parse(s); err == nil {
			if b, err := json.Marshal(n); err == nil {
				programs = append(programs, string(b))
			}
		}
	}
	return
}

var nodeTags = []string{"number", "dbrp", "duration", "bool", "unary", "binary", "declaration", "typeDeclaration", "identifier", "reference", "string",
	"list", "regex", "star", "func", "lambda", "program", "comment", "chain", "bogus", "", "Number", "lambda ", "nil"}

var jsonValues = []string{"null", "1", "-1", "1.5", "\"x\"", "\"\"", "true", "[]", "{}", "[1]", "{\"typeOf\":\"bogus\"}", "{\"typeOf\":\"chain\"}", "{\"typeOf\":\"star\"}",
	"{\"typeOf\":1}", "[{\"typeOf\":\"number\"}]", "\"1s\"", "\"((\"", "1e400", "9223372036854775808"}

// mutateJSON re-writes one value (or key) somewhere in the document tree.
func mutateJSON(r *kit.Rand, doc string) string {
	var v interface{}
	if err := json.Unmarshal([]byte(doc), &v); err != nil {
		return mutate(r, doc)
	}
	var paths [][]interface{}
	var walk func(x interface{}, p []interface{})
	walk = func(x interface{}, p []interface{}) {
		paths = append(paths, append([]interface{}(nil), p...))
		switch t := x.(type) {
		case map[string]interface{}:
			ks := make([]string, 0, len(t))
			for k := range t {
				ks = append(ks, k)
			}
			sort.Strings(ks)
			for _, k := range ks {
				walk(t[k], append(p, k))
			}
		case []interface{}:
			for i := range t {
				walk(t[i], append(p, i))
			}
		}
	}
	walk(v, nil)
	target := paths[r.Intn(len(paths))]
	var repl interface{}
	json.Unmarshal([]byte(kit.Pick(r, jsonValues)), &repl)
	if len(target) > 0 {
		if k, ok := target[len(target)-1].(string); ok && k == "typeOf" && r.Chance(2, 3) {
			repl = kit.Pick(r, nodeTags)
		}
	}
	del := r.Chance(1, 5)
	var set func(x interface{}, p []interface{}) interface{}
	set = func(x interface{}, p []interface{}) interface{} {
		if len(p) == 0 {
			return repl
		}
		switch t := x.(type) {
		case map[string]interface{}:
			k := p[0].(string)
			if len(p) == 1 && del {
				delete(t, k)
			} else {
				t[k] = set(t[k], p[1:])
			}
			return t
		case []interface{}:
			i := p[0].(int)
			t[i] = set(t[i], p[1:])
			return t
		}
		return x
	}
	v = set(v, target)
	b, _ := json.Marshal(v)
	if r.Chance(1, 10) {
		return mutate(r, string(b))
	}
	return string(b)
}

var varsDocs = []string{
	`{"a":{"type":"int","value":1},"b":{"type":"duration","value":"1s"},"c":{"type":"list","value":[{"type":"string","value":"x"}]}}`,
	`{"f":{"type":"float","value":1.5},"l":{"type":"lambda","value":"\"v\" > 1"},"s":{"type":"star","value":""},"r":{"type":"regex","value":"a.*"}}`,
}

var udfTokens = []string{"K", "I", "T", "S", "R", "X", "B0", "B2", "B-1", "B-9223372036854775808", "B1152921504606846976", "B9223372036854775807", "P", "P", "P", "E", "E", "N", "G"}
var udfHuge = []string{"H2147483648", "H4611686018427387904", "H9223372036854775808", "H18446744073709551615", "H5", "H1048576"}

func genUDFSeq(r *kit.Rand) []string {
	n := r.Intn(9)
	var s []string
	for i := 0; i < n; i++ {
		s = append(s, kit.Pick(r, udfTokens))
	}
	if r.Chance(1, 4) {
		s = append(s, kit.Pick(r, udfHuge))
	}
	return s
}

func genUDFBytes(r *kit.Rand) []byte {
	var b []byte
	n := r.Intn(5)
	for i := 0; i < n; i++ {
		switch r.Intn(8) {
		case 0, 1, 2: // a well-formed frame
			b = append(b, encodeResp(kit.Pick(r, []string{"K", "P", "B2", "E", "N", "G", "X"}))...)
		case 3: // frame with a random payload
			k := r.Intn(6)
			b = append(b, uvarint(uint64(k))...)
			for j := 0; j < k; j++ {
				b = append(b, byte(r.Intn(256)))
			}
		case 4: // huge announced size
			b = append(b, uvarint(kit.Pick(r, []uint64{1 << 31, 1<<31 + 1, 1 << 32, 1 << 40, 1 << 62, 1 << 63, 1<<64 - 1, 1<<63 - 1}))...)
			b = append(b, 1, 2, 3)
		case 5: // over-long varint
			for j := 0; j < 9+r.Intn(3); j++ {
				b = append(b, 0x80|byte(r.Intn(128)))
			}
			b = append(b, byte(r.Intn(4)))
		case 6: // truncated frame
			k := 2 + r.Intn(1000)
			b = append(b, uvarint(uint64(k))...)
			for j := 0; j < r.Intn(k); j++ {
				b = append(b, byte(r.Intn(256)))
			}
			return b
		case 7: // dangling continuation byte
			b = append(b, 0x80|byte(r.Intn(128)))
			if r.Bool() {
				return b
			}
		}
	}
	return b
}

// ---- expressions over EVERY builtin function, taken from the live registry (stateful.NewFunctions) ----

// argExpr gives, for an argument type, the lambda text that makes the argument DATA dependent.
func argExpr(vt ast.ValueType, nth map[ast.ValueType]int) (string, bool) {
	k := nth[vt]
	nth[vt]++
	switch vt {
	case ast.TString:
		return []string{`"s"`, `"t"`, `"s"`, `"t"`}[k%4], true
	case ast.TInt:
		return []string{`"a"`, `"b"`, `"a"`}[k%3], true
	case ast.TFloat:
		return `"f"`, true
	case ast.TBool:
		return `("a" >= 0)`, true
	case ast.TDuration:
		return `1s * "a"`, true
	case ast.TRegex:
		return []string{`/д+/`, `/(?i)[a-z𝄞]*/`}[k%2], true
	case ast.TTime:
		return `"time"`, true
	}
	return "", false
}

type fnExpr struct{ name, expr string }

// builtinExprs: one boolean expression per (builtin, signature domain) that is true whenever the call
// evaluates without error.
func builtinExprs() []fnExpr {
	fs := stateful.NewFunctions()
	var names []string
	for n := range fs {
		names = append(names, n)
	}
	sort.Strings(names)
	var out []fnExpr
	for _, n := range names {
		var doms []string
		exprs := map[string]string{}
		for d, ret := range fs[n].Signature() {
			var args []string
			ok := true
			nth := map[ast.ValueType]int{}
			for _, vt := range d {
				if vt == ast.InvalidType {
					break
				}
				a, good := argExpr(vt, nth)
				if !good {
					ok = false
					break
				}
				args = append(args, a)
			}
			if !ok {
				continue
			}
			call := n + "(" + strings.Join(args, ", ") + ")"
			var e string
			switch ret {
			case ast.TBool, ast.TInt, ast.TFloat, ast.TString, ast.TDuration:
				e = "strLength(string(" + call + ")) >= 0"
			case ast.TTime:
				e = "unixNano(" + call + ") != 1"
			default:
				continue
			}
			key := d.String()
			doms = append(doms, key)
			exprs[key] = e
		}
		sort.Strings(doms)
		for _, k := range doms {
			out = append(out, fnExpr{n, exprs[k]})
		}
	}
	return out
}

// hostile string values: multi-byte, of lengths around the allocator's size classes
func hostileStrings(r *kit.Rand) []string {
	var out []string
	for _, n := range []int{0, 1, 31, 32, 33, 40, 100} {
		for _, u := range []string{"д", "𝄞", "aд", "é𝄞"} {
			out = append(out, strings.Repeat(u, n))
		}
	}
	out = append(out, "abcdef", strings.Repeat("x", 40), "\xff\xfe", "д\x00д")
	return out
}

func boundaryInts(s string) []int64 {
	n := int64(utf8.RuneCountInString(s))
	b := int64(len(s))
	return []int64{0, 1, n - 1, n, n + 1, b - 1, b, b + 1, -1, 2 * b, (n + b) / 2, -9223372036854775808, 9223372036854775807}
}

func genLiveX(r *kit.Rand, fe fnExpr, hs []string) []string {
	node := kit.Pick(r, []string{"where", "where", "eval", "stateCount", "alert", "stateDuration"})
	line := "livex " + node + " " + fe.name + " " + kit.Esc(fe.expr)
	for k := 0; k < 8; k++ {
		s := kit.Pick(r, hs)
		bi := boundaryInts(s)
		t := kit.Pick(r, []string{"", "д", "𝄞", "aд", s, "c", "\xff"})
		line += fmt.Sprintf(" s=s:%s;t=s:%s;a=i:%d;b=i:%d;f=f:%s", kit.Esc(s), kit.Esc(t), kit.Pick(r, bi), kit.Pick(r, bi),
			kit.Pick(r, []string{"1.5", "0", "-1", "1e308", "-1e308", "5e-324", "0.5"}))
	}
	return []string{line}
}

// ---- HTTP entry points ----
var lpBodies = []string{
	"m,host=a v=1i 1\n", "m v=1.5\n", "m,host=a,region=b v=1i,w=\"s\",b=t 1000000000\nm2 x=2 2\n", "", "\n\n", "m", "m ", "m v", "m v=", "m v=1i 1 1", "m,=a v=1",
	",host=a v=1", "m,host v=1", "m v=1i -9223372036854775808", "m v=1i 9223372036854775808", "m v=9223372036854775808i", "m v=1e400", "m v=NaN", "m v=\"unterminated",
	"m\\ x,ho\\,st=a\\=b v\\ =1", "m v=1i 1\r\n", "\xff\xfe v=1", "m \xff=1", "m v=\"\xff\"", "m,host=\x00 v=1", "m v=1i " + strings.Repeat("9", 40), strings.Repeat("m,host=a v=1i 1\n", 200),
	"m v=1i,v=2i", "m,host=a,host=b v=1", "# comment\nm v=1", "m v=t", "m v=T,w=F,x=true,y=FALSE", "m v=-", "m v=.", "m v=1.i", "m v=0x10", "m v=1u",
}
var httpPrecisions = []string{"", "n", "u", "ms", "s", "m", "h", "x", "ns", "%00", "nn", "S"}

func urlq(s string) string {
	var b strings.Builder
	for i := 0; i < len(s); i++ {
		c := s[i]
		if c >= 'a' && c <= 'z' || c >= 'A' && c <= 'Z' || c >= '0' && c <= '9' || c == '_' || c == '-' || c == '.' {
			b.WriteByte(c)
		} else {
			fmt.Fprintf(&b, "%%%02X", c)
		}
	}
	return b.String()
}

func genHTTP(r *kit.Rand) []string {
	body := kit.Pick(r, lpBodies)
	if r.Chance(1, 2) {
		body = mutate(r, body)
	}
	switch r.Intn(10) {
	case 0, 1, 2, 3, 4, 5:
		path := kit.Pick(r, []string{"/kapacitor/v1/write", "/write", "/kapacitor/v1preview/write", "/kapacitor/v1/write/"})
		var q []string
		if !r.Chance(1, 8) {
			q = append(q, "db="+urlq(kit.Pick(r, []string{"db", "", "nodb", "d b", "д", "a/b", "\x00"})))
		}
		if !r.Chance(1, 4) {
			q = append(q, "rp="+urlq(kit.Pick(r, []string{"rp", "", "norp", "r p", "\xff"})))
		}
		if r.Chance(2, 3) {
			q = append(q, "precision="+kit.Pick(r, httpPrecisions))
		}
		if r.Chance(1, 6) {
			q = append(q, kit.Pick(r, []string{"consistency=all", "consistency=bogus", "u=x&p=y", "db=db&db=other", "%zz=1", "a=%", ";=;"}))
		}
		if len(q) > 0 {
			path += "?" + strings.Join(q, "&")
		}
		return []string{"http " + kit.Pick(r, []string{"POST", "POST", "POST", "POST", "POST", "POST", "POST", "GET", "PUT", "DELETE", "OPTIONS", "HEAD", "PATCH"}) + " " + kit.Esc(path) + " " +
			kit.Pick(r, []string{"plain", "plain", "plain", "gzip", "badgzip", "truncgzip"}) + " " + kit.Esc(body)}
	case 6:
		return []string{"http " + kit.Pick(r, []string{"GET", "HEAD", "POST", "OPTIONS"}) + " " + kit.Esc(kit.Pick(r, []string{"/kapacitor/v1/ping", "/kapacitor/v1/debug/vars", "/kapacitor/v1/debug/pprof/cmdline", "/kapacitor/v1/debug/pprof/symbol", "/", "/kapacitor/v1", "/kapacitor/v1/", "/kapacitor/v1/nosuch", "/kapacitor/v1preview/ping", "/kapacitor/v1/:routes", "/kapacitor/v1/routes", "//write", "/kapacitor/v1/../v1/ping", "/kapacitor/v1/ping?%zz"})) + " plain %"}
	default:
		return []string{"http POST " + kit.Esc("/kapacitor/v1/loglevel") + " " + kit.Pick(r, []string{"plain", "badgzip"}) + " " +
			kit.Esc(kit.Pick(r, []string{`{"level":"DEBUG"}`, `{"level":"nosuch"}`, `{"level":1}`, `{`, ``, `null`, `[]`, `{"level":null}`, `"x"`, "\xff"}))}
	}
}

// structural alphabet: comments, continuation lines, unterminated literals and escapes are all
// combinations of these
var structAlphabet = []string{"/", "\n", "'", "\"", "\\", "a", "1", " ", "|", ".", "(", ")", "-", "é"}

// directed comment cases: every token kind, then `//…` comment lines, then continuation lines
func commentCases() [][]string {
	toks := []string{"", "a", "1", "1.5", "1s", "'s'", "\"r\"", "/re/", "(", ")", "[", "]", "|", ".", "@", ",", "*", "+", "-", "!", "==", "=~", "=", "lambda:", "TRUE", "var", "AND", "a(", "a()", "a|b()", "a.b", "var x = 1"}
	comments := []string{"//", "// c", "//c", "// c\n// d", "//\n//", "// é", "///", "// c //"}
	conts := []string{"", "/", "//", "/x", " /", "/ ", "/\n/", "//\n/", "/*", "/\n", "\t/", "/é", "/'", "/\"", "/\\"}
	sufs := []string{"", "\n", "\na", "\n|b()", "\n/ 2", "\n.c()"}
	var cases [][]string
	for _, t := range toks {
		for _, c := range comments {
			for _, k := range conts {
				for _, sf := range sufs {
					for _, sep := range []string{" ", "\n"} {
						s := t + sep + c + "\n" + k + sf
						cases = append(cases, lexLines(s, "prog", "fmt", "lambda"))
					}
				}
			}
		}
	}
	// comments between chain links, inside lambdas, before EOF without newline
	for _, s := range []string{
		"stream\n// c\n/\n|from()", "stream\n    // c\n    |from()\n    // d\n    /\n    .measurement('m')", "stream|from()// c", "stream|from() // c\n/",
		"stream|where(lambda: 1 // c\n/ 2 > 0)", "stream|where(lambda: \"a\" // c\n/\n\"b\" > 0)", "stream|eval(lambda: 1 // c\n  / // d\n  2)", "lambda: 1 // c\n/", "1 // c\n/ 2",
		"var x = 1 // c\n/\nstream", "// c\n/\nvar x = 1", "stream\n|from() // a\n// b\n/ c\n|log()", "stream|from()\n//\n/\n//\n|log()", "stream // c\n/", "// only", "//", "//\n", "//\n/", "//\n/\n", "/ //\n/",
	} {
		cases = append(cases, lexLines(s, "prog", "fmt", "lambda", "task", "pipeS"))
	}
	return cases
}

// ---- systematic JSON field variants ----
// Base documents are marshalled real ASTs / pipelines; for EVERY field of EVERY object in them the field is
// set to null / removed / given each wrong JSON type / emptied / replaced by bogus or wrong-kind nodes.

var jsonLambdaSources = []string{
	`"host" =~ /a.*/ AND "v" > 1`, `"host" !~ /b/ OR !"b"`, `-"v" + 2 * 3 - 1 / 1 % 2 < 10 AND "f" >= 1.5 OR "f" <= 0.5`,
	`if("v" == 1, 'x', 'y') != 'x' AND strLength("s") > 2`, `"d" > 1s AND "d" < 2h`, `TRUE AND !FALSE`, `sigma("f") > 3.0`,
	`regexReplace("s", /b/, 'x') == 'axc'`, `"host" == 'a' AND ("s" =~ /^a/ OR "s" == '')`, `count() > 0`, `int("f") == 1 AND float("v") == 1.0`,
}
var jsonExtraProgramDocs = []string{
	`{"typeOf":"program","nodes":[{"typeOf":"comment","comments":["a","b"]},{"typeOf":"star"}]}`,
}

var jsonProgramSources = []string{
	"dbrp \"db\".\"rp\"\nvar x = 1\nvar y string\nvar l = ['a', *]\n// c\nstream\n    |from()\n        .measurement('m')\n        .where(lambda: \"host\" =~ /a/)\n    |where(lambda: \"v\" > 0)\n    |log()\n",
	"var re = /a.*/\nvar d = 10s\nstream|from()|eval(lambda: -\"v\", lambda: !\"b\").as('a','b')|alert().crit(lambda: \"a\" < 0).topic('t')@sink()\n",
}
var jsonPipelineScripts = []string{
	"stream|from().measurement('m').where(lambda: \"host\" =~ /a/)|where(lambda: \"v\" > 0 AND \"s\" =~ /b/)|log()",
	"stream|from().measurement('m')|eval(lambda: \"v\" * 2, lambda: strLength(\"s\")).as('x','n')|stateCount(lambda: \"x\" > 1)|alert().crit(lambda: \"n\" > 0).warn(lambda: \"s\" !~ /z/).topic('jt')|log()",
}

var jsonVariantValues = []string{"null", "1", "-1.5", "\"\"", "\"x\"", "true", "[]", "{}", "[null]", "[1]", "{\"typeOf\":\"bogus\"}", "{\"typeOf\":\"star\"}",
	"{\"typeOf\":\"regex\",\"regex\":null}", "{\"typeOf\":\"string\",\"literal\":\"x\"}", "{\"typeOf\":\"number\"}", "[{\"typeOf\":\"star\"},null]", "\"((\"", "\"=~\"", "\"+\""}

// fieldVariants returns every document obtained from doc by rewriting ONE field of ONE object.
func fieldVariants(doc string) []string {
	var root interface{}
	dec := json.NewDecoder(strings.NewReader(doc))
	dec.UseNumber()
	if err := dec.Decode(&root); err != nil {
		return nil
	}
	type loc struct {
		obj map[string]interface{}
		key string
	}
	var locs []loc
	var walk func(x interface{})
	walk = func(x interface{}) {
		switch t := x.(type) {
		case map[string]interface{}:
			ks := make([]string, 0, len(t))
			for k := range t {
				ks = append(ks, k)
			}
			sort.Strings(ks)
			for _, k := range ks {
				locs = append(locs, loc{t, k})
				walk(t[k])
			}
		case []interface{}:
			for _, e := range t {
				walk(e)
			}
		}
	}
	walk(root)
	var out []string
	for _, l := range locs {
		old, had := l.obj[l.key]
		// missing
		delete(l.obj, l.key)
		if b, err := json.Marshal(root); err == nil {
			out = append(out, string(b))
		}
		for _, v := range jsonVariantValues {
			var repl interface{}
			json.Unmarshal([]byte(v), &repl)
			l.obj[l.key] = repl
			if b, err := json.Marshal(root); err == nil {
				out = append(out, string(b))
			}
		}
		if had {
			l.obj[l.key] = old
		}
	}
	return out
}

// unmarshalFields parses tick/ast/node.go of the tree under test: typeOf tag -> fields its unmarshal reads.
func unmarshalFields() map[string][]string {
	repo := os.Getenv("VERIF_REPO")
	if repo == "" {
		repo = "/repo"
	}
	b, err := os.ReadFile(repo + "/tick/ast/node.go")
	if err != nil {
		return nil
	}
	res := map[string][]string{}
	src := string(b)
	reFn := regexp.MustCompile(`(?s)func \([a-z] \*(\w+)\) unmarshal\(props JSONNode\) error \{(.*?)\n\}\n`)
	reTag := regexp.MustCompile(`CheckTypeOf\("(\w+)"\)`)
	reFld := regexp.MustCompile(`props\.(\w+)\("(\w+)"\)`)
	for _, m := range reFn.FindAllStringSubmatch(src, -1) {
		tag := ""
		if t := reTag.FindStringSubmatch(m[2]); t != nil {
			tag = t[1]
		} else if m[1] == "ChainNode" {
			tag = "chain"
		} else {
			tag = "?" + m[1]
		}
		for _, f := range reFld.FindAllStringSubmatch(m[2], -1) {
			if f[1] == "CheckTypeOf" {
				continue
			}
			res[tag] = append(res[tag], f[2])
		}
	}
	return res
}

func jsonCases() [][]string {
	var cases [][]string
	covered := map[string]bool{} // "tag.field" present in some base document
	note := func(doc string) {
		var root interface{}
		json.Unmarshal([]byte(doc), &root)
		var walk func(x interface{})
		walk = func(x interface{}) {
			switch t := x.(type) {
			case map[string]interface{}:
				if tag, ok := t["typeOf"].(string); ok {
					for k := range t {
						covered[tag+"."+k] = true
					}
				}
				for _, v := range t {
					walk(v)
				}
			case []interface{}:
				for _, e := range t {
					walk(e)
				}
			}
		}
		walk(root)
	}
	for _, l := range jsonLambdaSources {
		n, err := ast.ParseLambda(l)
		if err != nil {
			continue
		}
		b, _ := json.Marshal(n)
		note(string(b))
		cases = append(cases, []string{"jsoneval lambda " + kit.Esc(string(b))})
		for _, v := range fieldVariants(string(b)) {
			cases = append(cases, []string{"jsoneval lambda " + kit.Esc(v)})
		}
	}
	for _, s := range jsonProgramSources {
		n, err := ast.Parse(s)
		if err != nil {
			continue
		}
		b, _ := json.Marshal(n)
		note(string(b))
		cases = append(cases, []string{"jsoneval program " + kit.Esc(string(b))})
		for _, v := range fieldVariants(string(b)) {
			cases = append(cases, []string{"jsoneval program " + kit.Esc(v)})
		}
	}
	for _, d := range jsonExtraProgramDocs {
		note(d)
		cases = append(cases, []string{"jsoneval program " + kit.Esc(d)})
		for _, v := range fieldVariants(d) {
			cases = append(cases, []string{"jsoneval program " + kit.Esc(v)})
		}
	}
	for _, s := range jsonPipelineScripts {
		p, err := pipeline.CreatePipeline(s, pipeline.StreamEdge, stateful.NewScope(), deadman{}, nil)
		if err != nil {
			continue
		}
		b, err := json.Marshal(p)
		if err != nil {
			continue
		}
		note(string(b))
		cases = append(cases, []string{"jsontask " + kit.Esc(string(b))})
		for _, v := range fieldVariants(string(b)) {
			cases = append(cases, []string{"jsontask " + kit.Esc(v)})
		}
	}
	// fail closed: a field some unmarshal method reads that no base document contains is a coverage hole
	uf := unmarshalFields()
	var tags []string
	for t := range uf {
		tags = append(tags, t)
	}
	sort.Strings(tags)
	for _, t := range tags {
		for _, f := range uf[t] {
			st := "covered"
			if !covered[t+"."+f] {
				st = "hole"
			}
			cases = append(cases, []string{"jsoncover " + kit.Esc(t) + " " + kit.Esc(f) + " " + st})
		}
	}
	if len(uf) == 0 {
		cases = append(cases, []string{"jsoncover % % hole"})
	}
	return cases
}

func lexLines(s string, kinds ...string) []string {
	e := kit.Esc(s)
	ls := []string{"lex " + e}
	for _, k := range kinds {
		ls = append(ls, "parse "+k+" "+e)
	}
	return ls
}

func generate(f kit.Flags) [][]string {
	r := kit.NewRand(f.Seed)
	thorough := f.Tier == "thorough"
	shard := int(f.Seed / 1000003)
	nshards := 1
	fmt.Sscanf(f.Extra["shards"], "%d", &nshards)
	if nshards < 1 {
		nshards = 1
	}
	shard %= nshards
	var cases [][]string

	// (1) fixed structural cases: every run
	for _, b := range []string{"ret-nil", "ret-err", "panic-err", "panic-str", "panic-rt", "panic-div"} {
		cases = append(cases, []string{"nodestart " + b})
	}
	for _, tg := range nodeTags {
		cases = append(cases, []string{"getnode " + kit.Esc(tg)})
	}
	for _, s := range baseScripts {
		cases = append(cases, lexLines(s, "prog", "fmt", "pipeS", "pipeB", "task", "tmpl"))
	}
	for _, s := range baseLambdas {
		cases = append(cases, lexLines(s, "lambda"))
	}
	for _, d := range varsDocs {
		cases = append(cases, []string{"json vars " + kit.Esc(d)})
	}
	cases = append(cases, []string{"http POST " + kit.Esc("/kapacitor/v1/write?db=db&rp=rp&precision=s") + " plain " + kit.Esc("m,host=a v=1i 1\n")},
		[]string{"http POST " + kit.Esc("/kapacitor/v1/write?db=db&rp=rp") + " gzip " + kit.Esc("m,host=a v=1i 1\n")},
		[]string{"http POST " + kit.Esc("/kapacitor/v1/write?db=db&rp=rp") + " badgzip " + kit.Esc("m v=1")},
		[]string{"http GET " + kit.Esc("/kapacitor/v1/ping") + " plain %"})
	cases = append(cases, []string{"udfwrite i f s b"}, []string{"udfwrite i d i"}, []string{"udfwrite n i"}, []string{"udfwrite t u i"})
	// answers to Info / Init / Snapshot / Restore nobody asked for, in every order relative to the requests
	cases = append(cases, rrDirected()...)

	// (2) ALL strings over the alphabet up to length 3 (quick) / 4 (thorough); the longest length is
	// sharded over the parallel seed runs
	maxLen := 3
	if thorough {
		maxLen = 4
	}
	if v := f.Extra["maxlen"]; v != "" {
		fmt.Sscanf(v, "%d", &maxLen)
	}
	var rec func(prefix string, depth, L int, counter *int)
	rec = func(prefix string, depth, L int, counter *int) {
		if depth == L {
			i := *counter
			*counter++
			if (L < maxLen && shard == 0) || (L == maxLen && i%nshards == shard) {
				cases = append(cases, lexLines(prefix, "prog", "lambda"))
			}
			return
		}
		for _, a := range alphabet {
			rec(prefix+a, depth+1, L, counter)
		}
	}
	for L := 0; L <= maxLen; L++ {
		c := 0
		rec("", 0, L, &c)
	}

	// (2b) ALL strings up to length 5 (quick) / 6 (thorough) over the STRUCTURAL alphabet, in batches
	// through ast.Parse, tick.Format and ast.ParseLambda (the longest length sharded over the seed runs)
	sMax := 5
	if thorough {
		sMax = 6
	}
	if v := f.Extra["smaxlen"]; v != "" {
		fmt.Sscanf(v, "%d", &sMax)
	}
	var batch []string
	flush := func() {
		if len(batch) > 0 {
			cases = append(cases, []string{"pbatch - " + strings.Join(batch, " ")})
			batch = nil
		}
	}
	var srec func(prefix string, depth, L int, counter *int)
	srec = func(prefix string, depth, L int, counter *int) {
		if depth == L {
			i := *counter
			*counter++
			if (L < sMax && shard == 0) || (L == sMax && i%nshards == shard) {
				batch = append(batch, kit.Esc(prefix))
				if len(batch) >= 96 {
					flush()
				}
			}
			return
		}
		for _, a := range structAlphabet {
			srec(prefix+a, depth+1, L, counter)
		}
	}
	for L := 1; L <= sMax; L++ {
		c := 0
		srec("", 0, L, &c)
	}
	flush()

	// (2c) directed comment cases (all of them, every run; sharded)
	for i, c := range commentCases() {
		if i%nshards == shard {
			cases = append(cases, c)
		}
	}

	// (2d) systematic JSON field variants, decoded AND formatted / compiled / evaluated / run as tasks (sharded)
	for i, c := range jsonCases() {
		if i%nshards == shard {
			cases = append(cases, c)
		}
	}

	// (2e) the evaluator (tick.Evaluate on an empty scope): directed statements, ordered pairs (sharded),
	// random programs; the driver replays the evaluator MODEL on the real AST
	evalN := 60
	if thorough {
		evalN = 600
	}
	cases = append(cases, evalCases(r.Fork(), evalN, shard, nshards)...)

	// (3) generated: mutated real scripts, API chains, lambdas, JSON, UDF peers
	lambdas, programs := baseJSON()
	for i := 0; i < f.N; i++ {
		switch i % 10 {
		case 8, 9:
			// longer random symbol strings (beyond the exhaustive length)
			var sb strings.Builder
			for j := 5 + r.Intn(6); j > 0; j-- {
				sb.WriteString(kit.Pick(r, alphabet))
			}
			cases = append(cases, lexLines(sb.String(), "prog", "lambda"))
		case 0, 1:
			s := mutate(r, kit.Pick(r, baseScripts))
			cases = append(cases, lexLines(s, "prog", "fmt", kit.Pick(r, []string{"pipeS", "pipeB"}), kit.Pick(r, []string{"task", "taskB", "tmpl"})))
		case 2, 3:
			s := genChain(r)
			if r.Chance(1, 3) {
				s = mutate(r, s)
			}
			cases = append(cases, lexLines(s, "prog", kit.Pick(r, []string{"task", "tmpl", "pipeS"})))
		case 4:
			s := mutate(r, kit.Pick(r, baseLambdas))
			cases = append(cases, lexLines(s, "lambda"))
			cases = append(cases, lexLines("stream|from()|where(lambda: "+s+")", "prog", "task"))
		case 5:
			switch r.Intn(3) {
			case 0:
				if len(lambdas) > 0 {
					cases = append(cases, []string{"json lambda " + kit.Esc(mutateJSON(r, kit.Pick(r, lambdas)))})
				}
			case 1:
				if len(programs) > 0 {
					cases = append(cases, []string{"json program " + kit.Esc(mutateJSON(r, kit.Pick(r, programs)))})
				}
			case 2:
				cases = append(cases, []string{"json vars " + kit.Esc(mutateJSON(r, kit.Pick(r, varsDocs)))})
			}
		case 6:
			if r.Chance(1, 4) {
				var ks []string
				for j := 1 + r.Intn(5); j > 0; j-- {
					ks = append(ks, kit.Pick(r, []string{"i", "f", "s", "b", "d", "n", "t", "u", "i", "f"}))
				}
				cases = append(cases, []string{"udfwrite " + strings.Join(ks, " ")})
				break
			}
			if r.Chance(1, 2) {
				cases = append(cases, []string{"udfrr " + strings.Join(genRR(r), " ")})
				break
			}
			cases = append(cases, []string{"udfsrv " + strings.Join(genUDFSeq(r), " ")})
		case 7:
			if r.Chance(1, 2) {
				cases = append(cases, genHTTP(r))
				break
			}
			b := genUDFBytes(r)
			cases = append(cases, []string{fmt.Sprintf("udfread %s %d", kit.Esc(string(b)), r.Intn(4))})
		}
	}

	// (3b) every builtin function (from the live registry) in a real task, fed multi-byte strings of
	// critical lengths and index arguments derived from BOTH the byte length and the rune count
	fes := builtinExprs()
	hs := hostileStrings(r)
	perFn := 1
	if thorough {
		perFn = 6
	}
	for _, fe := range fes {
		reps := perFn
		if strings.HasPrefix(fe.name, "str") || fe.name == "regexReplace" || fe.name == "humanBytes" || fe.name == "string" {
			reps = perFn * 4
		}
		for k := 0; k < reps; k++ {
			cases = append(cases, genLiveX(r, fe, hs))
		}
	}

	// (4) task-level liveness (real TaskMaster): a rotating subset in quick, everything in thorough
	var nodes, bads []string
	for k := range liveNodes {
		if k != "boom" {
			nodes = append(nodes, k)
		}
	}
	for k := range liveBad {
		bads = append(bads, k)
	}
	sort.Strings(nodes)
	sort.Strings(bads)
	cases = append(cases, []string{"live boom none"})
	// the tag-set copy every tag-writing node relies on, tied to the model function by function
	for _, n := range []int{-1, 0, 1, 2, 7} {
		for _, key := range []string{"k0", "t", "k6"} {
			cases = append(cases, []string{fmt.Sprintf("tagscopy %d %s", n, key)})
		}
	}
	k := 0
	for _, n := range nodes {
		for _, b := range bads {
			_, shape := liveBadTags[b]
			if thorough || shape || (k+int(f.Seed))%7 == 0 {
				cases = append(cases, []string{"live " + n + " " + b})
			}
			k++
		}
	}
	return cases
}
