package c05

// Generators for the request / response ops (`udfrr`, `udftask`, see udfrr.go).

import (
	"strings"

	"verifharness/kit"
)

const rrKindLetters = "ITSR"

// rrDirected: for every ordered pair (kind j of a response nobody asked for, kind k of a later request) the
// placements of the stray relative to the requests: before any request, right after another request was
// answered, while the request is in flight, two requests in flight answered in the other order, and a
// server abort with a response parked and a request waiting. Every script waits for a call before the peer
// sends the next message of that kind (no race between the requester and the reader is left open).
func rrDirected() [][]string {
	var cases [][]string
	add := func(steps ...string) { cases = append(cases, []string{"udfrr " + strings.Join(steps, " ")}) }
	for _, jb := range []byte(rrKindLetters) {
		for _, kb := range []byte(rrKindLetters) {
			j, k := string(jb), string(kb)
			if j == k {
				add("s"+j, "q"+k, "w"+k, "q"+k, "s"+k, "w"+k)
				add("qT", "sT", "wT", "s"+j, "q"+k, "w"+k)
				add("q"+k, "s"+k, "w"+k, "s"+k, "q"+k, "w"+k)
				add("s"+j, "s"+j, "q"+k, "w"+k, "sX", "q"+k, "w"+k)
				continue
			}
			add("s"+j, "q"+k, "s"+k, "w"+k, "q"+j, "w"+j)
			add("qT", "sT", "wT", "s"+j, "q"+k, "s"+k, "w"+k)
			add("q"+k, "s"+j, "s"+k, "w"+k, "q"+j, "w"+j)
			add("q"+k, "q"+j, "s"+j, "s"+k, "w"+k, "w"+j)
			add("s"+j, "q"+k, "sX", "w"+k, "q"+j, "w"+j)
		}
	}
	// a UDF behind a real task with a snapshot interval: one well-formed response nobody asked for
	for _, when := range []string{"T", "S", "P", "bS"} {
		for _, stray := range []string{"I", "T", "S", "R", "K"} {
			cases = append(cases, []string{"udftask " + when + " " + stray})
		}
	}
	cases = append(cases, []string{"udftask - K"})
	// a UDF (real UDFSocket / UDFProcess) that takes longer to start than the snapshot interval; a task stopped
	// while its UDF is still starting
	for _, when := range []string{"slowS", "slowP", "stopS", "stopP"} {
		cases = append(cases, []string{"udftask " + when + " K"})
	}
	return cases
}

// genRR: a random dialogue. The generator tracks what the per-kind slots and calls should be doing only to
// DIRECT the script (wait for a delivered call before the next message of its kind, rarely wait for a call
// nobody answers); what is expected is the model's business (Kap/Model/C05Rr.lean).
func genRR(r *kit.Rand) []string {
	slot := map[byte]bool{}
	req := map[byte]int{} // 0 idle, 1 waiting, 2 delivered
	aborted := false
	blockedUsed := false
	var s []string
	waitDelivered := func(k byte) {
		if req[k] == 2 {
			s = append(s, "w"+string(k))
			req[k] = 0
		}
	}
	n := 4 + r.Intn(10)
	for i := 0; i < n; i++ {
		k := rrKindLetters[r.Intn(4)]
		switch x := r.Intn(10); {
		case x < 4:
			waitDelivered(k)
			s = append(s, "s"+string(k))
			if !aborted {
				if req[k] == 1 {
					req[k] = 2
				} else {
					slot[k] = true
				}
			}
		case x < 7:
			waitDelivered(k)
			if req[k] != 0 {
				continue
			}
			s = append(s, "q"+string(k))
			switch {
			case aborted:
				req[k] = 2
			case slot[k]:
				slot[k] = false
				req[k] = 2
			default:
				req[k] = 1
			}
		case x < 9:
			switch {
			case req[k] == 2:
				waitDelivered(k)
			case req[k] == 1 && !blockedUsed && r.Chance(1, 25):
				blockedUsed = true
				s = append(s, "w"+string(k))
			case req[k] == 0 && r.Chance(1, 10):
				s = append(s, "w"+string(k))
			}
		default:
			if r.Chance(1, 3) {
				for _, kk := range []byte(rrKindLetters) {
					waitDelivered(kk)
				}
				s = append(s, "s"+kit.Pick(r, []string{"X", "N", "G"}))
				if !aborted {
					aborted = true
					for _, kk := range []byte(rrKindLetters) {
						if req[kk] == 1 {
							req[kk] = 2
						}
					}
				}
			} else {
				s = append(s, "sK")
			}
		}
	}
	for _, kk := range []byte(rrKindLetters) {
		waitDelivered(kk)
	}
	return s
}
