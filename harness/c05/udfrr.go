package c05

// UDF peer: answers to Info / Init / Snapshot / Restore that were asked for - or not.
//
//   udfrr <step>...      the real udf.Server on in-memory pipes; the harness is the peer AND the daemon side:
//       s<I|T|S|R>   the peer sends a well-formed info / init / snapshot / restore response (payload = tag =
//                    1-based position of the step), whether or not anybody asked
//       sK           a keepalive response;   sX / sN / sG  an error response / empty message / garbage frame
//       q<I|T|S|R>   a goroutine calls Info() / Init() / Snapshot() / Restore()
//       w<I|T|S|R>   wait for that call to return
//     After every peer message a marker point is sent and awaited on Out(): the reader goroutine has then
//     handled the message (sync point, no sleeping). At the end the server is aborted (what UDFNode.stopUDF
//     does) and every call still blocked must return.
//     Observation: one token per finished call `<K>:g<tag>` (returned the response with that tag), `<K>:abort`
//     (returned the server's error), `<K>:panic` (the calling goroutine panicked - in the daemon Snapshot() is
//     called by the task's snapshotter goroutine, which has no recover), `<K>:blocked`, `<K>:none`; then
//     `fin:ok|err` (what Stop returned).
//
//   udftask <when> <stray>   a real task `stream|from()@peer()@sink()` with a snapshot interval next to a
//     bystander task; `peer` is the real udf.Server talking over pipes to a scripted UDF that answers every
//     request correctly and ADDITIONALLY sends one well-formed response nobody asked for:
//       <when>  = T (right after the init answer) | S (right after the first snapshot answer) |
//                 P (right after echoing the second point) | bS (before the first snapshot answer) | - (never)
//       <stray> = I | T | S | R | K
//                 slowS / slowP: no stray, but the UDF is the real kapacitor.UDFSocket / UDFProcess over an in-memory
//                 socket / command whose Open / Start takes 150 ms (the snapshot interval is 10 ms)
//                 stopS / stopP: the same UDFs, no snapshotter, the task is stopped 30 ms after its start
//                 (observation `stopped`, or `X stoppanic` when the goroutine that stopped it panicked)
//     Observation as for `live`: `<canaries at the sink> <task error 0|1> <bystander points>/<sent> <snap>`
//     with snap = 1 when the UDF served at least two snapshot requests after the stray.

import (
	"bufio"
	"errors"
	"fmt"
	"io"
	"os"
	"strconv"
	"strings"
	"sync"
	"sync/atomic"
	"time"

	imodels "github.com/influxdata/influxdb/models"
	"github.com/influxdata/kapacitor"
	"github.com/influxdata/kapacitor/command"
	"github.com/influxdata/kapacitor/edge"
	"github.com/influxdata/kapacitor/udf"
	"github.com/influxdata/kapacitor/udf/agent"
)

func rrResponse(kind byte, tag int) *agent.Response {
	switch kind {
	case 'I':
		return &agent.Response{Message: &agent.Response_Info{Info: &agent.InfoResponse{
			Wants: agent.EdgeType_STREAM, Provides: agent.EdgeType_STREAM,
			Options: map[string]*agent.OptionInfo{"o" + strconv.Itoa(tag): {}},
		}}}
	case 'T':
		return &agent.Response{Message: &agent.Response_Init{Init: &agent.InitResponse{Success: false, Error: "#" + strconv.Itoa(tag)}}}
	case 'S':
		return &agent.Response{Message: &agent.Response_Snapshot{Snapshot: &agent.SnapshotResponse{Snapshot: []byte(strconv.Itoa(tag))}}}
	case 'R':
		return &agent.Response{Message: &agent.Response_Restore{Restore: &agent.RestoreResponse{Success: false, Error: "#" + strconv.Itoa(tag)}}}
	}
	return nil
}

func frameOf(r *agent.Response) []byte {
	var buf strings.Builder
	if err := agent.WriteMessage(r, &buf); err != nil {
		panic(err)
	}
	return []byte(buf.String())
}

// tagOfErr: Init / Restore report a refused init / restore as an error that ends with the peer's text.
func tagOfErr(err error) string {
	msg := err.Error()
	if i := strings.LastIndexByte(msg, '#'); i >= 0 {
		if _, e := strconv.Atoi(msg[i+1:]); e == nil {
			return "g" + msg[i+1:]
		}
	}
	return "abort"
}

// rrCall runs one of the four requests; a panic of the real code in this goroutine is the observation `panic`.
func rrCall(s *udf.Server, kind byte) (res string) {
	defer func() {
		if r := recover(); r != nil {
			res = "panic"
		}
	}()
	switch kind {
	case 'I':
		info, err := s.Info()
		if err != nil {
			return "abort"
		}
		for k := range info.Options {
			if strings.HasPrefix(k, "o") {
				return "g" + k[1:]
			}
		}
		return "g?"
	case 'T':
		if err := s.Init(nil); err != nil {
			return tagOfErr(err)
		}
		return "g?"
	case 'S':
		b, err := s.Snapshot()
		if err != nil {
			return "abort"
		}
		return "g" + string(b)
	case 'R':
		if err := s.Restore([]byte("x")); err != nil {
			return tagOfErr(err)
		}
		return "g?"
	}
	return "badop"
}

const rrBlockedAfter = 1500 * time.Millisecond

func execUDFRR(steps []string) string {
	for _, st := range steps {
		if len(st) != 2 || !strings.ContainsRune("sqw", rune(st[0])) {
			return "badop"
		}
		if st[0] == 's' && !strings.ContainsRune("ITSRKXNG", rune(st[1])) || st[0] != 's' && !strings.ContainsRune("ITSR", rune(st[1])) {
			return "badop"
		}
	}
	pr, pw := io.Pipe()     // peer -> server
	reqR, reqW := io.Pipe() // server -> peer
	abortedC := make(chan struct{})
	s := udf.NewServer("task", "node", bufio.NewReader(pr), reqW, nopDiag{}, 0,
		func() { close(abortedC) }, func() {})
	if err := s.Start(); err != nil {
		return "starterr"
	}
	go func() { // nobody reads the peer's pipe once the server has aborted: unblock pending writes
		<-abortedC
		pr.Close()
	}()
	marks := make(chan struct{}, 4096)
	go func() {
		for m := range s.Out() {
			if _, ok := m.(edge.PointMessage); ok {
				marks <- struct{}{}
			}
		}
	}()
	reqSeen := make(chan struct{}, 4096)
	go func() { // the peer reads (and forgets) what the server writes
		br := bufio.NewReader(reqR)
		var buf []byte
		for {
			req := new(agent.Request)
			if err := agent.ReadMessage(&buf, br, req); err != nil {
				reqR.Close()
				return
			}
			switch req.Message.(type) {
			case *agent.Request_Info, *agent.Request_Init, *agent.Request_Snapshot, *agent.Request_Restore:
				reqSeen <- struct{}{}
			}
		}
	}()
	aborted := func() bool {
		select {
		case <-abortedC:
			return true
		default:
			return false
		}
	}
	marker := frameOf(&agent.Response{Message: &agent.Response_Point{Point: &agent.Point{Time: 1, Name: "m", Database: "db", RetentionPolicy: "rp", FieldsInt: map[string]int64{"v": 1}}}})
	// send writes the frame and a marker point, and returns when the reader has handled both (or aborted)
	send := func(frame []byte) bool {
		wrote := make(chan struct{})
		go func() {
			pw.Write(frame)
			pw.Write(marker)
			close(wrote)
		}()
		select {
		case <-marks:
			<-wrote
			return true
		case <-abortedC:
			return true
		case <-time.After(15 * time.Second):
			return false
		}
	}
	inflight := map[byte]chan string{}
	var out []string
	for i, st := range steps {
		k := st[1]
		switch st[0] {
		case 's':
			if aborted() {
				continue
			}
			var frame []byte
			switch k {
			case 'K', 'X', 'N', 'G':
				frame = encodeResp(string(k))
			default:
				frame = frameOf(rrResponse(k, i+1))
			}
			if !send(frame) {
				return "X hang"
			}
		case 'q':
			if inflight[k] != nil {
				continue // two calls of one kind at a time: not driven (the model marks the script racy)
			}
			done := make(chan string, 1)
			inflight[k] = done
			go func() { done <- rrCall(s, k) }()
			// until the request has reached the peer, or the call is over already (server aborted)
			select {
			case <-reqSeen:
			case r := <-done:
				done <- r
			case <-time.After(15 * time.Second):
				return "X hang"
			}
		case 'w':
			done := inflight[k]
			if done == nil {
				out = append(out, string(k)+":none")
				continue
			}
			select {
			case r := <-done:
				out = append(out, string(k)+":"+r)
				delete(inflight, k)
			case <-time.After(rrBlockedAfter):
				out = append(out, string(k)+":blocked")
			}
		}
	}
	if len(inflight) > 0 {
		s.Abort(errors.New("end of script"))
		for _, k := range []byte("ITSR") {
			if done := inflight[k]; done != nil {
				select {
				case r := <-done:
					out = append(out, string(k)+":"+r)
				case <-time.After(15 * time.Second):
					return "X hang"
				}
			}
		}
	}
	pw.Close()
	stopped := make(chan error, 1)
	go func() { stopped <- s.Stop() }()
	select {
	case err := <-stopped:
		out = append(out, "fin:"+errObs(err))
	case <-time.After(15 * time.Second):
		return "X hang"
	}
	pr.Close()
	return strings.Join(out, " ")
}

// ---------------------------------------------------------------------------------------------
// the same peer behind a running task

// peerUDF is a udf.Interface backed by the REAL udf.Server (as UDFProcess / UDFSocket are), talking over
// in-memory pipes to a scripted UDF.
type peerUDF struct {
	*udf.Server
	closeAll func()
}

func (p *peerUDF) Open() error { return p.Server.Start() }
func (p *peerUDF) Close() error {
	err := p.Server.Stop()
	p.closeAll()
	return err
}

type peerScript struct {
	when  string
	stray byte
	// counters
	snapsAfter int64 // snapshot requests served after the stray was sent
	straySent  int32
}

var thePeerScript atomic.Value // *peerScript of the udftask op that is running

func newPeerUDF(taskID, nodeID string, d udf.Diagnostic, abortCallback func()) udf.Interface {
	ps, _ := thePeerScript.Load().(*peerScript)
	if ps == nil {
		ps = &peerScript{when: "-"}
	}
	pr, pw := io.Pipe()     // peer -> server
	reqR, reqW := io.Pipe() // server -> peer
	s := udf.NewServer(taskID, nodeID, bufio.NewReader(pr), reqW, d, 0, abortCallback, func() {})
	var once sync.Once
	closeAll := func() { once.Do(func() { pr.Close(); pw.Close(); reqR.Close() }) }
	go scriptedPeer(ps, reqR, pw)
	return &peerUDF{Server: s, closeAll: closeAll}
}

// scriptedPeer is the UDF on the other end of the pipes: it answers every request correctly and sends the one
// stray response of the script.
func scriptedPeer(ps *peerScript, reqR io.Reader, pw io.WriteCloser) {
	{
		defer pw.Close()
		br := bufio.NewReader(reqR)
		var buf []byte
		w := func(r *agent.Response) { agent.WriteMessage(r, pw) }
		stray := func() {
			if !atomic.CompareAndSwapInt32(&ps.straySent, 0, 1) {
				return
			}
			switch ps.stray {
			case 'K':
				w(&agent.Response{Message: &agent.Response_Keepalive{Keepalive: &agent.KeepaliveResponse{Time: 1}}})
			case 'I':
				w(&agent.Response{Message: &agent.Response_Info{Info: &agent.InfoResponse{Wants: agent.EdgeType_STREAM, Provides: agent.EdgeType_STREAM}}})
			case 'T':
				w(&agent.Response{Message: &agent.Response_Init{Init: &agent.InitResponse{Success: true}}})
			case 'S':
				w(&agent.Response{Message: &agent.Response_Snapshot{Snapshot: &agent.SnapshotResponse{Snapshot: []byte("stray")}}})
			case 'R':
				w(&agent.Response{Message: &agent.Response_Restore{Restore: &agent.RestoreResponse{Success: true}}})
			}
		}
		points := 0
		for {
			req := new(agent.Request)
			if err := agent.ReadMessage(&buf, br, req); err != nil {
				return
			}
			switch m := req.Message.(type) {
			case *agent.Request_Init:
				w(&agent.Response{Message: &agent.Response_Init{Init: &agent.InitResponse{Success: true}}})
				if ps.when == "T" {
					stray()
				}
			case *agent.Request_Snapshot:
				if ps.when == "bS" {
					stray()
				}
				if atomic.LoadInt32(&ps.straySent) == 1 || ps.when == "-" {
					atomic.AddInt64(&ps.snapsAfter, 1)
				}
				w(&agent.Response{Message: &agent.Response_Snapshot{Snapshot: &agent.SnapshotResponse{Snapshot: []byte("state")}}})
				if ps.when == "S" {
					stray()
				}
			case *agent.Request_Restore:
				w(&agent.Response{Message: &agent.Response_Restore{Restore: &agent.RestoreResponse{Success: true}}})
			case *agent.Request_Keepalive:
				w(&agent.Response{Message: &agent.Response_Keepalive{Keepalive: &agent.KeepaliveResponse{Time: m.Keepalive.Time}}})
			case *agent.Request_Point:
				w(&agent.Response{Message: &agent.Response_Point{Point: m.Point}})
				points++
				if ps.when == "P" && points == 2 {
					stray()
				}
			}
		}
	}
}

// A UDF that is SLOW TO START, everything else well-behaved: the real kapacitor.UDFSocket over an in-memory
// Socket whose Open takes `delay`, and the real kapacitor.UDFProcess over an in-memory command whose Start takes
// `delay`. Both create their udf.Server only in Open().

type memSocket struct {
	delay time.Duration
	ps    *peerScript
	mu    sync.Mutex
	in    io.WriteCloser
	out   io.Reader
	shut  func()
}

func (m *memSocket) Open() error {
	time.Sleep(m.delay)
	pr, pw := io.Pipe()
	reqR, reqW := io.Pipe()
	m.mu.Lock()
	m.in, m.out = reqW, pr
	m.shut = func() { pr.Close(); pw.Close(); reqR.Close(); reqW.Close() }
	m.mu.Unlock()
	go scriptedPeer(m.ps, reqR, pw)
	return nil
}
func (m *memSocket) Close() error {
	m.mu.Lock()
	defer m.mu.Unlock()
	if m.shut != nil {
		m.shut()
	}
	return nil
}
func (m *memSocket) In() io.WriteCloser { return m.in }
func (m *memSocket) Out() io.Reader     { return m.out }

type memCommander struct {
	delay time.Duration
	ps    *peerScript
}

func (c memCommander) NewCommand(command.Spec) command.Command {
	m := &memCommand{delay: c.delay, ps: c.ps, done: make(chan struct{})}
	m.pr, m.pw = io.Pipe()
	m.reqR, m.reqW = io.Pipe()
	m.errR, m.errW = io.Pipe()
	return m
}

type memCommand struct {
	delay    time.Duration
	ps       *peerScript
	pr, reqR *io.PipeReader
	pw, reqW *io.PipeWriter
	errR     *io.PipeReader
	errW     *io.PipeWriter
	done     chan struct{}
}

func (m *memCommand) Start() error {
	time.Sleep(m.delay) // fork/exec of a big interpreter, a loaded machine ...
	go func() {
		scriptedPeer(m.ps, m.reqR, m.pw)
		m.errW.Close()
		close(m.done)
	}()
	return nil
}
func (m *memCommand) Wait() error                        { <-m.done; return nil }
func (m *memCommand) Stdin(io.Reader)                    {}
func (m *memCommand) Stdout(io.Writer)                   {}
func (m *memCommand) Stderr(io.Writer)                   {}
func (m *memCommand) StdinPipe() (io.WriteCloser, error) { return m.reqW, nil }
func (m *memCommand) StdoutPipe() (io.Reader, error)     { return m.pr, nil }
func (m *memCommand) StderrPipe() (io.Reader, error)     { return m.errR, nil }
func (m *memCommand) Kill()                              { m.reqR.Close(); m.pw.Close() }

const slowStart = 150 * time.Millisecond

// newSlowUDF: what the UDF service of the daemon creates for a socket / process UDF (udf service Create).
func newSlowUDF(name, taskID, nodeID string, d udf.Diagnostic, abortCallback func()) udf.Interface {
	ps, _ := thePeerScript.Load().(*peerScript)
	if ps == nil {
		ps = &peerScript{when: "-"}
	}
	if name == "slowsock" {
		return kapacitor.NewUDFSocket(taskID, nodeID, &memSocket{delay: slowStart, ps: ps}, d, 0, abortCallback)
	}
	return kapacitor.NewUDFProcess(taskID, nodeID, memCommander{delay: slowStart, ps: ps}, command.Spec{Prog: "peer"}, d, 0, abortCallback)
}

var udfTaskSeq int

const udfTaskSnapshotEvery = 10 * time.Millisecond

func execUDFTask(when string, strayTok string) string {
	udfName, stopEarly := "peer", false
	switch when {
	case "T", "S", "P", "bS", "-":
	case "slowS", "stopS":
		udfName, stopEarly = "slowsock", when == "stopS"
	case "slowP", "stopP":
		udfName, stopEarly = "slowproc", when == "stopP"
	default:
		return "badop"
	}
	if len(strayTok) != 1 || !strings.ContainsRune("ITSRK", rune(strayTok[0])) {
		return "badop"
	}
	t := sharedTM()
	ps := &peerScript{when: when, stray: strayTok[0]}
	if udfName != "peer" {
		ps.when = "-" // slow to start, otherwise well-behaved: no stray
	}
	thePeerScript.Store(ps)
	udfTaskSeq++
	id := fmt.Sprintf("udftask%d", udfTaskSeq)
	oid := fmt.Sprintf("udfother%d", udfTaskSeq)
	other, err := t.StartStream(oid, "stream|from().measurement('m')@sink()", dbrps)
	if err != nil {
		return "othererr"
	}
	snapEvery := udfTaskSnapshotEvery
	if stopEarly {
		snapEvery = 0 // no snapshotter: only the stop meets the UDF that is still starting
	}
	task, err := t.TM.NewTask(id, "stream|from().measurement('m')@"+udfName+"()@sink()", kapacitor.StreamTask, dbrps, snapEvery, nil)
	if err != nil {
		t.TM.StopTask(oid)
		other.Wait()
		return "defineerr"
	}
	et, err := t.TM.StartTask(task)
	if err != nil {
		t.TM.StopTask(oid)
		other.Wait()
		return "defineerr"
	}
	if stopEarly {
		// the task is stopped while its UDF is still starting
		time.Sleep(slowStart / 5)
		stopped := make(chan string, 1)
		go func() {
			defer func() {
				if r := recover(); r != nil {
					stopped <- "X stoppanic"
				}
			}()
			t.TM.StopTask(id)
			et.Wait()
			stopped <- "stopped"
		}()
		var res string
		select {
		case res = <-stopped:
		case <-time.After(12 * time.Second):
			return "X hang"
		}
		if res != "stopped" {
			return res
		}
		t.TM.StopTask(oid)
		other.Wait()
		t.Rec.Reset()
		return res
	}
	count := func(task string) int {
		n := 0
		for _, k := range t.Rec.Keys() {
			if !strings.HasPrefix(k, task+"/") {
				continue
			}
			for _, m := range t.Rec.Get(k) {
				if _, ok := m.(edge.PointMessage); ok {
					n++
				}
			}
		}
		return n
	}
	const total = 6
	sent := 0
	write := func() {
		sent++
		p, err := imodels.NewPoint("m", imodels.NewTags(map[string]string{"host": "a"}), imodels.Fields{"canary": int64(1)}, time.Unix(int64(sent), 0).UTC())
		if err != nil {
			panic(err)
		}
		t.TM.WritePoints("db", "rp", imodels.ConsistencyLevelAll, []imodels.Point{p})
	}
	// three points, then let the snapshotter meet whatever the peer parked, then three more points
	for i := 0; i < 3; i++ {
		write()
	}
	deadline := time.Now().Add(10 * time.Second)
	for time.Now().Before(deadline) && (count(id) < 3 || atomic.LoadInt64(&ps.snapsAfter) < 2) {
		time.Sleep(2 * time.Millisecond)
	}
	for i := 0; i < 3; i++ {
		write()
	}
	deadline = time.Now().Add(10 * time.Second)
	for time.Now().Before(deadline) && (count(id) < total || count(oid) < total) {
		time.Sleep(2 * time.Millisecond)
	}
	snap := 0
	if atomic.LoadInt64(&ps.snapsAfter) >= 2 {
		snap = 1
	}
	taskErr := 0
	if !t.TM.IsExecuting(id) {
		taskErr = 1 // the task died on its own
	}
	waitErr := make(chan error, 1)
	go func() {
		t.TM.StopTask(id)
		waitErr <- et.Wait()
	}()
	select {
	case err := <-waitErr:
		// UDFSocket.Close wraps the errNodeAborted of an ordinary stop (errors.Wrap), which runUDF then no longer
		// recognises: EVERY StopTask of a task with a socket UDF reports "node aborted". That is not this
		// property's business: for the socket variant only a task that died by itself counts.
		if err != nil && udfName != "slowsock" {
			taskErr = 1
			if os.Getenv("VERIF_LOG") != "" {
				fmt.Fprintln(os.Stderr, "udftask: task error:", err)
			}
		}
	case <-time.After(12 * time.Second):
		return "X hang"
	}
	t.TM.StopTask(oid)
	other.Wait()
	res := fmt.Sprintf("%d %d %d/%d %d", count(id), taskErr, count(oid), total, snap)
	t.Rec.Reset()
	return res
}
