package c05

import (
	"bufio"
	"bytes"
	"compress/gzip"
	"encoding/binary"
	"encoding/json"
	"errors"
	"fmt"
	"io"
	"net/http"
	"os"
	"runtime"
	"sort"
	"strconv"
	"strings"
	"sync"
	"time"
	"unicode"
	"unicode/utf8"

	imodels "github.com/influxdata/influxdb/models"
	"github.com/influxdata/kapacitor"
	client "github.com/influxdata/kapacitor/client/v1"
	"github.com/influxdata/kapacitor/edge"
	"github.com/influxdata/kapacitor/keyvalue"
	"github.com/influxdata/kapacitor/models"
	"github.com/influxdata/kapacitor/pipeline"
	"github.com/influxdata/kapacitor/services/httpd"
	"github.com/influxdata/kapacitor/tick"
	"github.com/influxdata/kapacitor/tick/ast"
	"github.com/influxdata/kapacitor/tick/stateful"
	"github.com/influxdata/kapacitor/udf"
	"github.com/influxdata/kapacitor/udf/agent"

	"verifharness/kit"
)

// clsTable lists the unicode classes (L letter, D digit, S space) of every non-ASCII rune that
// utf8.DecodeRuneInString yields at ANY byte offset of s: the oracle table of the lexer model.
func clsTable(s string) string {
	m := map[rune]byte{}
	for i := 0; i < len(s); i++ {
		r, _ := utf8.DecodeRuneInString(s[i:])
		if r < 0x80 {
			continue
		}
		switch {
		case unicode.IsLetter(r):
			m[r] = 'L'
		case unicode.IsDigit(r):
			m[r] = 'D'
		case unicode.IsSpace(r):
			m[r] = 'S'
		}
	}
	if len(m) == 0 {
		return "-"
	}
	var rs []int
	for r := range m {
		rs = append(rs, int(r))
	}
	sort.Ints(rs)
	var b []string
	for _, r := range rs {
		b = append(b, fmt.Sprintf("%x:%c", r, m[rune(r)]))
	}
	return strings.Join(b, ",")
}

// ---------------------------------------------------------------------------------------------
// worker main loop

func workerMain() int {
	// shared background services first, so that they are not counted as leaks of an op
	kit.Diag()
	in := bufio.NewReaderSize(os.Stdin, 1<<20)
	out := bufio.NewWriter(os.Stdout)
	for {
		line, err := in.ReadString('\n')
		if line = strings.TrimSpace(line); line != "" {
			obs := execOp(line)
			out.WriteString("R " + obs + "\n")
			out.Flush()
		}
		if err != nil {
			return 0
		}
	}
}

// guarded runs f with a recover wrapper and a goroutine census.
func guarded(census bool, f func() string) (obs string) {
	g0 := 0
	if census {
		g0 = settle(-1)
	}
	func() {
		defer func() {
			if r := recover(); r != nil {
				obs = "panic"
			}
		}()
		obs = f()
	}()
	if census {
		g1 := settle(g0)
		leak := g1 - g0
		if leak < 0 {
			leak = 0
		}
		obs += " " + strconv.Itoa(leak)
	}
	return obs
}

// settle waits (briefly) for the goroutine count to come down to want (or to become stable when
// want < 0) and returns it.
func settle(want int) int {
	n := runtime.NumGoroutine()
	if want >= 0 {
		for i := 0; i < 60 && n > want; i++ {
			if i < 10 {
				runtime.Gosched()
			} else {
				time.Sleep(time.Duration(i) * 100 * time.Microsecond)
			}
			n = runtime.NumGoroutine()
		}
		return n
	}
	for i := 0; i < 5; i++ {
		runtime.Gosched()
		m := runtime.NumGoroutine()
		if m == n {
			return n
		}
		n = m
	}
	return n
}

func errObs(err error) string {
	if err != nil {
		return "err"
	}
	return "ok"
}

func execOp(line string) string {
	t := strings.Fields(line)
	un := func(s string) string { v, _ := kit.Unesc(s); return v }
	switch t[0] {
	case "lex":
		return execLex(un(t[1]))
	case "parse":
		return execParse(t[1], un(t[2]))
	case "getnode":
		return guarded(false, func() string {
			tag, _ := json.Marshal(un(t[1]))
			doc := `{"typeOf":"lambda","expression":{"typeOf":` + string(tag) + `}}`
			return errObs(json.Unmarshal([]byte(doc), &ast.LambdaNode{}))
		})
	case "json":
		return execJSON(t[1], un(t[2]))
	case "nodestart":
		return execNodeStart(t[1])
	case "udfread":
		k, _ := strconv.Atoi(t[2])
		return execUDFRead([]byte(un(t[1])), k)
	case "udfsrv":
		return execUDFSrv(t[1:])
	case "udfwrite":
		return execUDFWrite(t[1:])
	case "udfrr":
		return execUDFRR(t[1:])
	case "udftask":
		if len(t) != 3 {
			return "badop"
		}
		return execUDFTask(t[1], t[2])
	case "live":
		return execLive(t[1], t[2])
	case "tagscopy":
		// `tagscopy <n> <key>`: models.Tags.Copy() of a nil map (n = -1), an empty map (0) or a map with n entries
		// k0..k<n-1>, then an assignment to <key> in the copy (what default().tag, eval().tags, alert's levelTag/idTag,
		// sideload().tag and the loopback do with it). Observation: `<nil|map> <len> <set|panic> <len after>`.
		if len(t) != 3 {
			return "badop"
		}
		n, err := strconv.Atoi(t[1])
		if err != nil || n < -1 || n > 64 {
			return "badop"
		}
		var src models.Tags
		if n >= 0 {
			src = models.Tags{}
			for i := 0; i < n; i++ {
				src[fmt.Sprintf("k%d", i)] = "v"
			}
		}
		cp := src.Copy()
		kind := "map"
		if cp == nil {
			kind = "nil"
		}
		l0 := len(cp)
		res := func() (r string) {
			defer func() {
				if recover() != nil {
					r = "panic"
				}
			}()
			cp[un(t[2])] = "w"
			return "set"
		}()
		if (n <= 0 && len(src) != 0) || (n > 0 && len(src) != n) {
			return "X source-written"
		}
		return fmt.Sprintf("%s %d %s %d", kind, l0, res, len(cp))
	case "jsoncover":
		return "-"
	case "jsoneval":
		return execJSONEval(t[1], un(t[2]))
	case "jsontask":
		return execJSONTask(un(t[1]))
	case "pbatch":
		return execPBatch(t[2:])
	case "http":
		return execHTTP(t[1], un(t[2]), t[3], un(t[4]))
	case "livex":
		return execLiveX(t[1], un(t[3]), t[4:])
	case "evalast":
		if len(t) < 3 {
			return "badop"
		}
		return execEvalAst(t[1], un(t[2]))
	}
	return "badop"
}

// ---------------------------------------------------------------------------------------------
// lexer / parser / pipeline entry points

func execLex(s string) string {
	toks, closed := ast.VerifLex(s, 4*len(s)+16)
	var b strings.Builder
	b.WriteString("T")
	for _, tk := range toks {
		if tk.Typ == 0 {
			fmt.Fprintf(&b, " 0:%d:e", tk.Pos)
		} else {
			fmt.Fprintf(&b, " %d:%d:%d", tk.Typ, tk.Pos, len(tk.Val))
		}
	}
	if closed {
		b.WriteString(" C")
	} else {
		b.WriteString(" O")
	}
	return b.String()
}

var (
	tmOnce sync.Once
	theTM  *kit.TM
)

// sharedTM is the worker's TaskMaster (real alert service, sink UDFs + the `boom` UDF).
func sharedTM() *kit.TM {
	tmOnce.Do(func() {
		t, err := kit.NewTM(kit.TMOpts{})
		if err != nil {
			panic(err)
		}
		t.TM.UDFService = &udfService{sink: t.Sink}
		theTM = t
	})
	return theTM
}

type deadman struct{}

func (deadman) Interval() time.Duration { return 0 }
func (deadman) Threshold() float64      { return 0 }
func (deadman) Id() string              { return "" }
func (deadman) Message() string         { return "" }
func (deadman) Global() bool            { return false }

var dbrps = []kapacitor.DBRP{{Database: "db", RetentionPolicy: "rp"}}

func execParse(kind, s string) string {
	switch kind {
	case "task", "taskB", "tmpl":
		sharedTM() // outside the census
	}
	return guarded(true, func() string {
		switch kind {
		case "prog":
			_, err := ast.Parse(s)
			return errObs(err)
		case "lambda":
			_, err := ast.ParseLambda(s)
			return errObs(err)
		case "fmt":
			_, err := tick.Format(s)
			return errObs(err)
		case "pipeS", "pipeB":
			et := pipeline.StreamEdge
			if kind == "pipeB" {
				et = pipeline.BatchEdge
			}
			scope := stateful.NewScope()
			_, err := pipeline.CreatePipeline(s, et, scope, deadman{}, nil)
			return errObs(err)
		case "task", "taskB":
			tt := kapacitor.StreamTask
			if kind == "taskB" {
				tt = kapacitor.BatchTask
			}
			_, err := sharedTM().TM.NewTask("t", s, tt, dbrps, 0, nil)
			return errObs(err)
		case "tmpl":
			_, err := sharedTM().TM.NewTemplate("t", s, kapacitor.StreamTask)
			return errObs(err)
		}
		return "badop"
	})
}

func execJSON(kind, s string) string {
	return guarded(true, func() string {
		switch kind {
		case "lambda":
			return errObs(json.Unmarshal([]byte(s), &ast.LambdaNode{}))
		case "program":
			return errObs(json.Unmarshal([]byte(s), &ast.ProgramNode{}))
		case "pipeline":
			p := &pipeline.Pipeline{}
			return errObs(p.Unmarshal([]byte(s)))
		case "vars":
			v := client.Vars{}
			return errObs(json.Unmarshal([]byte(s), &v))
		}
		return "badop"
	})
}

// ---------------------------------------------------------------------------------------------
// node runner

var (
	pnOnce sync.Once
	aPNode pipeline.Node
)

func somePipelineNode() pipeline.Node {
	pnOnce.Do(func() {
		p, err := pipeline.CreatePipeline("stream|from()", pipeline.StreamEdge, stateful.NewScope(), deadman{}, nil)
		if err != nil {
			panic(err)
		}
		p.Walk(func(n pipeline.Node) error {
			if aPNode == nil {
				aPNode = n
			}
			return nil
		})
	})
	return aPNode
}

func execNodeStart(body string) string {
	pn := somePipelineNode()
	var run func() error
	switch body {
	case "ret-nil":
		run = func() error { return nil }
	case "ret-err":
		run = func() error { return errors.New("failed") }
	case "panic-err":
		run = func() error { panic(errors.New("boom")) }
	case "panic-str":
		run = func() error { panic("boom") }
	case "panic-rt":
		run = func() error {
			var m map[string]int
			m["x"] = 1 // runtime.Error
			return nil
		}
	case "panic-div":
		run = func() error {
			z := 0
			_ = 10 / z
			return nil
		}
	default:
		return "badop"
	}
	// not wrapped in recover: node.start runs `run` in its own goroutine; if the node runner does not
	// recover, the worker dies and the parent reports `X crash`.
	res := errObs(kapacitor.VerifNodeStart(pn, run))
	// node.start hands the result over BEFORE its deferred function returns: when the panic was not
	// recovered the process dies a moment after Wait() returned. Give it that moment, so that the death is
	// observed by THIS op.
	time.Sleep(30 * time.Millisecond)
	return res
}

// ---------------------------------------------------------------------------------------------
// UDF peer: frame reader

type chunkReader struct {
	r *bytes.Reader
	k int
}

func (c *chunkReader) Read(p []byte) (int, error) {
	if c.k > 0 && len(p) > c.k {
		p = p[:c.k]
	}
	return c.r.Read(p)
}
func (c *chunkReader) ReadByte() (byte, error) { return c.r.ReadByte() }

func execUDFRead(data []byte, k int) string {
	return guarded(false, func() string {
		r := &chunkReader{r: bytes.NewReader(data), k: k}
		var buf []byte
		var out []string
		for {
			resp := new(agent.Response)
			err := agent.ReadMessage(&buf, r, resp)
			off := len(data) - r.r.Len()
			if err == nil {
				out = append(out, fmt.Sprintf("m%d", off))
				continue
			}
			switch {
			case err == io.EOF:
				out = append(out, "eof")
			case err == io.ErrUnexpectedEOF:
				out = append(out, "vtrunc")
			case strings.Contains(err.Error(), "overflow"):
				out = append(out, "vover")
			case strings.Contains(err.Error(), "unexpected EOF, expected"):
				out = append(out, "ueof")
			case strings.Contains(err.Error(), "exceeds"):
				out = append(out, "big")
			default:
				out = append(out, fmt.Sprintf("perr%d", off))
			}
			return strings.Join(out, " ")
		}
	})
}

// ---------------------------------------------------------------------------------------------
// UDF peer: the real udf.Server fed with a scripted response stream

type nopDiag struct{}

func (nopDiag) Error(msg string, err error, ctx ...keyvalue.T) {}
func (nopDiag) UDFLog(msg string)                               {}

type discardWC struct{}

func (discardWC) Write(p []byte) (int, error) { return len(p), nil }
func (discardWC) Close() error                { return nil }

func uvarint(n uint64) []byte {
	b := make([]byte, binary.MaxVarintLen64)
	return b[:binary.PutUvarint(b, n)]
}

// encodeResp turns one response token into the bytes a UDF process would write.
func encodeResp(tok string) []byte {
	var buf bytes.Buffer
	w := func(r *agent.Response) []byte {
		if err := agent.WriteMessage(r, &buf); err != nil {
			panic(err)
		}
		return buf.Bytes()
	}
	pt := &agent.Point{Time: 1, Name: "m", Database: "db", RetentionPolicy: "rp", FieldsInt: map[string]int64{"v": 1}}
	switch tok[0] {
	case 'K':
		return w(&agent.Response{Message: &agent.Response_Keepalive{Keepalive: &agent.KeepaliveResponse{Time: 1}}})
	case 'I':
		return w(&agent.Response{Message: &agent.Response_Info{Info: &agent.InfoResponse{}}})
	case 'T':
		return w(&agent.Response{Message: &agent.Response_Init{Init: &agent.InitResponse{Success: true}}})
	case 'S':
		return w(&agent.Response{Message: &agent.Response_Snapshot{Snapshot: &agent.SnapshotResponse{}}})
	case 'R':
		return w(&agent.Response{Message: &agent.Response_Restore{Restore: &agent.RestoreResponse{Success: true}}})
	case 'X':
		return w(&agent.Response{Message: &agent.Response_Error{Error: &agent.ErrorResponse{Error: "peer says no"}}})
	case 'B':
		n, _ := strconv.ParseInt(tok[1:], 10, 64)
		return w(&agent.Response{Message: &agent.Response_Begin{Begin: &agent.BeginBatch{Name: "m", Size: n}}})
	case 'P':
		return w(&agent.Response{Message: &agent.Response_Point{Point: pt}})
	case 'E':
		return w(&agent.Response{Message: &agent.Response_End{End: &agent.EndBatch{Name: "m", Tmax: 5}}})
	case 'N': // a frame of length 0: decodes to a Response without any message
		return []byte{0}
	case 'G': // a frame whose payload is not a protobuf message
		return []byte{3, 0xFF, 0xFF, 0xFF}
	case 'H': // only a length prefix announcing <n> bytes, then the stream ends
		n, _ := strconv.ParseUint(tok[1:], 10, 64)
		return uvarint(n)
	}
	return nil
}

func execUDFSrv(toks []string) string {
	pr, pw := io.Pipe()
	aborted := make(chan struct{}, 1)
	s := udf.NewServer("task", "node", bufio.NewReader(pr), discardWC{}, nopDiag{}, 0,
		func() {
			select {
			case aborted <- struct{}{}:
			default:
			}
		}, func() {})
	if err := s.Start(); err != nil {
		return "starterr"
	}
	var outs []string
	done := make(chan struct{})
	go func() {
		defer close(done)
		for m := range s.Out() {
			switch x := m.(type) {
			case edge.PointMessage:
				outs = append(outs, "p")
			case edge.BufferedBatchMessage:
				outs = append(outs, fmt.Sprintf("b%d", len(x.Points())))
			default:
				outs = append(outs, "other")
			}
		}
	}()
	go func() {
		for _, tk := range toks {
			if b := encodeResp(tk); b != nil {
				if _, err := pw.Write(b); err != nil {
					break
				}
			}
		}
		pw.Close()
	}()
	select {
	case <-done:
	case <-time.After(20 * time.Second):
		return "X hang"
	}
	err := s.Stop()
	pr.Close()
	if len(outs) == 0 {
		outs = []string{"-"}
	}
	return strings.Join(outs, ",") + " " + errObs(err)
}

// execUDFWrite feeds the real udf.Server one point per kind (field "v" of that kind + field "c") and
// decodes what the server wrote to the UDF process: per Point request the field names that arrived.
type captureWC struct {
	mu  sync.Mutex
	buf bytes.Buffer
}

func (c *captureWC) Write(p []byte) (int, error) {
	c.mu.Lock()
	defer c.mu.Unlock()
	return c.buf.Write(p)
}
func (c *captureWC) Close() error { return nil }

func execUDFWrite(kinds []string) string {
	pr, pw := io.Pipe()
	out := &captureWC{}
	s := udf.NewServer("task", "node", bufio.NewReader(pr), out, nopDiag{}, 0, func() {}, func() {})
	if err := s.Start(); err != nil {
		return "starterr"
	}
	go func() {
		for range s.Out() {
		}
	}()
	for i, k := range kinds {
		var v interface{}
		switch k {
		case "i":
			v = int64(1)
		case "f":
			v = 1.5
		case "s":
			v = "x"
		case "b":
			v = true
		case "d":
			v = time.Second
		case "n":
			v = nil
		case "t":
			v = time.Unix(1, 0)
		case "u":
			v = uint64(1)
		default:
			return "badop"
		}
		p := edge.NewPointMessage("m", "db", "rp", models.Dimensions{}, models.Fields{"v": v, "c": int64(1)}, nil, time.Unix(int64(i), 0).UTC())
		select {
		case s.In() <- p:
		case <-time.After(5 * time.Second):
			return "X hang"
		}
	}
	// the writer goroutine handles the last point asynchronously; if it panics the process dies here
	time.Sleep(20 * time.Millisecond)
	pw.Close()
	err := s.Stop()
	pr.Close()
	out.mu.Lock()
	data := append([]byte(nil), out.buf.Bytes()...)
	out.mu.Unlock()
	r := bufio.NewReader(bytes.NewReader(data))
	var buf []byte
	var res []string
	for {
		req := new(agent.Request)
		if e := agent.ReadMessage(&buf, r, req); e != nil {
			break
		}
		if pt, ok := req.Message.(*agent.Request_Point); ok {
			var names []string
			for n := range pt.Point.FieldsInt {
				names = append(names, n)
			}
			for n := range pt.Point.FieldsDouble {
				names = append(names, n)
			}
			for n := range pt.Point.FieldsString {
				names = append(names, n)
			}
			for n := range pt.Point.FieldsBool {
				names = append(names, n)
			}
			sort.Strings(names)
			res = append(res, strings.Join(names, ""))
		}
	}
	if len(res) == 0 {
		res = []string{"-"}
	}
	return strings.Join(res, ",") + " " + errObs(err)
}

// ---------------------------------------------------------------------------------------------
// UDF service of the worker's TaskMaster: kit's sinks + `boom`, whose Open() panics inside runF

type udfService struct{ sink *kit.SinkUDFService }

func (s *udfService) List() []string { return append(s.sink.List(), "boom", "peer", "slowsock", "slowproc") }
func (s *udfService) Info(name string) (udf.Info, bool) {
	if name == "boom" || name == "peer" || name == "slowsock" || name == "slowproc" {
		return udf.Info{Wants: agent.EdgeType_STREAM, Provides: agent.EdgeType_STREAM, Options: map[string]*agent.OptionInfo{}}, true
	}
	return s.sink.Info(name)
}
func (s *udfService) Create(name, taskID, nodeID string, d udf.Diagnostic, abortCallback func()) (udf.Interface, error) {
	if name == "boom" {
		return boomUDF{}, nil
	}
	if name == "peer" {
		return newPeerUDF(taskID, nodeID, d, abortCallback), nil
	}
	if name == "slowsock" || name == "slowproc" {
		return newSlowUDF(name, taskID, nodeID, d, abortCallback), nil
	}
	return s.sink.Create(name, taskID, nodeID, d, abortCallback)
}

type boomUDF struct{}

func (boomUDF) Open() error                 { panic("boom: a node implementation panics in its run function") }
func (boomUDF) Info() (udf.Info, error)     { return udf.Info{}, nil }
func (boomUDF) Init([]*agent.Option) error  { return nil }
func (boomUDF) Abort(err error)             {}
func (boomUDF) Close() error                { return nil }
func (boomUDF) Snapshot() ([]byte, error)   { return nil, nil }
func (boomUDF) Restore([]byte) error        { return nil }
func (boomUDF) In() chan<- edge.Message     { return nil }
func (boomUDF) Out() <-chan edge.Message    { return nil }

// ---------------------------------------------------------------------------------------------
// task-level liveness: a bad point must cost at most that point

type liveSpec struct {
	script string // %s = expression
	expr   string
	canary imodels.Fields
	bad    imodels.Fields
}

var liveNodes = map[string]string{
	"where":         "stream|from().measurement('m')|where(lambda: %s)@sink()",
	"eval":          "stream|from().measurement('m')|eval(lambda: %s).as('x').keep()@sink()",
	"stateCount":    "stream|from().measurement('m')|stateCount(lambda: %s)@sink()",
	"stateDuration": "stream|from().measurement('m')|stateDuration(lambda: %s)@sink()",
	"alert":         "stream|from().measurement('m')|alert().crit(lambda: %s).topic('c05live')@sink()",
	"boom":          "stream|from().measurement('m')@boom()",
	// nodes that copy a point's tag set and write into the copy, drop tags, or regroup by them: the shape of the
	// point (no tags at all, an empty tag value, a tag the node is about to write) is the input here
	"defaultTag": "stream|from().measurement('m')|default().tag('t', 'v').tag('host', 'h')@sink()",
	"evalTags":   "stream|from().measurement('m')|eval(lambda: string(\"canary\")).as('x').tags('x').keep()@sink()",
	"deleteTag":  "stream|from().measurement('m')|delete().tag('host').tag('nosuch')@sink()",
	"groupByTag": "stream|from().measurement('m')|groupBy('host', 't')|default().tag('t', 'v')@sink()",
	"alertTag":   "stream|from().measurement('m')|alert().crit(lambda: \"canary\" >= 0).levelTag('lvl').idTag('aid').topic('c05livetag')@sink()",
}

// shapes of the BAD point other than its fields: nil = the ordinary {host: a}
var liveBadTags = map[string]map[string]string{
	"notags":      {},
	"emptytagval": {"host": ""},
	"hastarget":   {"host": "a", "t": "w", "x": "1", "lvl": "x", "aid": "y"},
}

// expression (boolean), canary fields (expression is true), bad fields
var liveBad = map[string]struct {
	expr   string
	canary imodels.Fields
	bad    imodels.Fields
}{
	"divzero":  {`10 / "v" > 1`, imodels.Fields{"v": int64(1)}, imodels.Fields{"v": int64(0)}},
	"modzero":  {`10 % "v" < 5`, imodels.Fields{"v": int64(3)}, imodels.Fields{"v": int64(0)}},
	"substr":   {`strLength(strSubstring('abcdef', "v", 2)) >= 0`, imodels.Fields{"v": int64(1)}, imodels.Fields{"v": int64(3)}},
	"substrhi": {`strLength(strSubstring('abcdef', 0, "v")) >= 0`, imodels.Fields{"v": int64(2)}, imodels.Fields{"v": int64(99)}},
	"substrlo": {`strLength(strSubstring('abcdef', "v", 4)) >= 0`, imodels.Fields{"v": int64(2)}, imodels.Fields{"v": int64(-1)}},
	"type":     {`"v" > 0`, imodels.Fields{"v": int64(1)}, imodels.Fields{"v": "str"}},
	"missing":  {`"v" > 0`, imodels.Fields{"v": int64(1)}, imodels.Fields{"w": int64(1)}},
	"boolv":    {`"v" > 0`, imodels.Fields{"v": int64(1)}, imodels.Fields{"v": true}},
	"fdivzero": {`10.0 / "v" > 1.0`, imodels.Fields{"v": 1.0}, imodels.Fields{"v": 0.0}},
	"minint":   {`"v" / -1 > 0`, imodels.Fields{"v": int64(-5)}, imodels.Fields{"v": int64(-9223372036854775808)}},
	"minmod":   {`"v" % -1 == 0`, imodels.Fields{"v": int64(-5)}, imodels.Fields{"v": int64(-9223372036854775808)}},
	"durzero":  {`1m / "v" > 1s`, imodels.Fields{"v": int64(1)}, imodels.Fields{"v": int64(0)}},
	"regex":    {`"v" =~ /a/`, imodels.Fields{"v": "a"}, imodels.Fields{"v": int64(1)}},
	"none":     {`"v" > 0`, imodels.Fields{"v": int64(1)}, imodels.Fields{"v": int64(2)}},
	// benign fields, unusual tag set (liveBadTags)
	"notags":      {`"v" > 0`, imodels.Fields{"v": int64(1)}, imodels.Fields{"v": int64(2), "canary": int64(0)}},
	"emptytagval": {`"v" > 0`, imodels.Fields{"v": int64(1)}, imodels.Fields{"v": int64(2), "canary": int64(0)}},
	"hastarget":   {`"v" > 0`, imodels.Fields{"v": int64(1)}, imodels.Fields{"v": int64(2), "canary": int64(0)}},
}

var liveSeq int

const liveCanariesAfter = 3

// execLive: two tasks on one TaskMaster; the task under test gets canary, BAD, 3 canaries; the
// bystander task gets the same stream. Observation: `<canaries seen by the task's sink> <task error
// 0|1> <points seen by the bystander>`.
func execLive(node, badk string) string {
	tmpl, ok := liveNodes[node]
	bk, ok2 := liveBad[badk]
	if !ok || !ok2 {
		return "badop"
	}
	t := sharedTM()
	liveSeq++
	id := fmt.Sprintf("live%d", liveSeq)
	oid := fmt.Sprintf("other%d", liveSeq)
	script := tmpl
	if strings.Contains(tmpl, "%s") {
		expr := bk.expr
		if node == "eval" {
			// eval wants the value, not the comparison
			if i := strings.LastIndexAny(expr, "<>="); i > 0 && !strings.HasPrefix(expr, "strLength") && !strings.Contains(expr, "=~") {
				expr = strings.TrimRight(expr[:i], "<>=! ")
			}
		}
		script = fmt.Sprintf(tmpl, expr)
	}
	other, err := t.StartStream(oid, "stream|from().measurement('m')@sink()", dbrps)
	if err != nil {
		return "othererr"
	}
	et, err := t.StartStream(id, script, dbrps)
	if err != nil {
		t.TM.StopTask(oid)
		return "defineerr"
	}
	mk := func(f imodels.Fields, canary bool, ts int64) imodels.Point {
		g := imodels.Fields{}
		for k, v := range f {
			g[k] = v
		}
		tags := map[string]string{"host": "a"}
		if canary {
			g["canary"] = int64(1)
		} else if bt, ok := liveBadTags[badk]; ok {
			tags = bt
		}
		p, err := imodels.NewPoint("m", imodels.NewTags(tags), g, time.Unix(ts, 0).UTC())
		if err != nil {
			panic(err)
		}
		return p
	}
	pts := []imodels.Point{mk(bk.canary, true, 1), mk(bk.bad, false, 2)}
	for i := 0; i < liveCanariesAfter; i++ {
		pts = append(pts, mk(bk.canary, true, int64(3+i)))
	}
	for _, p := range pts {
		t.TM.WritePoints("db", "rp", imodels.ConsistencyLevelAll, []imodels.Point{p})
		// the routing edge is asynchronous: give each point its turn
		time.Sleep(2 * time.Millisecond)
	}
	// wait until the bystander has everything (or 5 s)
	count := func(task string, onlyCanary bool) int {
		n := 0
		for _, k := range t.Rec.Keys() {
			if !strings.HasPrefix(k, task+"/") {
				continue
			}
			for _, m := range t.Rec.Get(k) {
				if pm, ok := m.(edge.PointMessage); ok {
					if v, c := pm.Fields()["canary"]; (c && v == int64(1)) || !onlyCanary {
						n++
					}
				}
			}
		}
		return n
	}
	want := 1 + liveCanariesAfter
	deadline := time.Now().Add(15 * time.Second)
	for time.Now().Before(deadline) && (count(oid, false) < len(pts) || count(id, true) < want) {
		time.Sleep(5 * time.Millisecond)
		if node == "boom" && count(oid, false) >= len(pts) {
			break
		}
	}
	// stop both tasks; a task that died reports its error here
	taskErr := 0
	waitErr := make(chan error, 1)
	go func() {
		t.TM.StopTask(id)
		waitErr <- et.Wait()
	}()
	select {
	case err := <-waitErr:
		if err != nil {
			taskErr = 1
		}
	case <-time.After(12 * time.Second):
		return "X hang"
	}
	t.TM.StopTask(oid)
	other.Wait()
	res := fmt.Sprintf("%d %d %d", count(id, true), taskErr, count(oid, false))
	t.Rec.Reset()
	return res
}

// ---------------------------------------------------------------------------------------------
// task-level liveness with generated expressions: `livex <node> <fn> <expr> <point>...`
// The task evaluates <expr> (true on the canary) in node <node>; it is fed canary, the listed points,
// 3 canaries. Observation as for `live`, or `nocanary` when the two leading canaries did not come through
// although the task is alive (the expression does not accept the benign canary: nothing to learn).

var canaryFields = imodels.Fields{"s": "abcdef", "t": "c", "a": int64(1), "b": int64(2), "f": 1.5}

func parsePointSpec(tok string) imodels.Fields {
	f := imodels.Fields{}
	for _, kv := range strings.Split(tok, ";") {
		i := strings.IndexByte(kv, '=')
		if i < 0 || len(kv) < i+3 {
			continue
		}
		k, v := kv[:i], kv[i+1:]
		switch v[0] {
		case 's':
			x, _ := kit.Unesc(v[2:])
			f[k] = x
		case 'i':
			n, _ := strconv.ParseInt(v[2:], 10, 64)
			f[k] = n
		case 'f':
			x, _ := strconv.ParseFloat(v[2:], 64)
			f[k] = x
		case 'b':
			f[k] = v[2:] == "1"
		}
	}
	return f
}

func execLiveX(node, expr string, pts []string) string {
	tmpl, ok := liveNodes[node]
	if !ok || node == "boom" {
		return "badop"
	}
	t := sharedTM()
	liveSeq++
	id := fmt.Sprintf("livex%d", liveSeq)
	oid := fmt.Sprintf("otherx%d", liveSeq)
	script := fmt.Sprintf(tmpl, expr)
	other, err := t.StartStream(oid, "stream|from().measurement('m')@sink()", dbrps)
	if err != nil {
		return "othererr"
	}
	et, err := t.StartStream(id, script, dbrps)
	if err != nil {
		t.TM.StopTask(oid)
		other.Wait()
		t.Rec.Reset()
		return "defineerr"
	}
	ts := int64(0)
	mk := func(f imodels.Fields, canary bool) (imodels.Point, bool) {
		g := imodels.Fields{}
		for k, v := range f {
			g[k] = v
		}
		if canary {
			g["canary"] = int64(1)
		}
		ts++
		p, err := imodels.NewPoint("m", imodels.NewTags(map[string]string{"host": "a"}), g, time.Unix(ts, 0).UTC())
		return p, err == nil
	}
	count := func(task string, onlyCanary bool) int {
		n := 0
		for _, k := range t.Rec.Keys() {
			if !strings.HasPrefix(k, task+"/") {
				continue
			}
			for _, m := range t.Rec.Get(k) {
				if pm, ok := m.(edge.PointMessage); ok {
					if _, c := pm.Fields()["canary"]; c || !onlyCanary {
						n++
					}
				}
			}
		}
		return n
	}
	write := func(p imodels.Point, ok bool) bool {
		if ok {
			t.TM.WritePoints("db", "rp", imodels.ConsistencyLevelAll, []imodels.Point{p})
		}
		return ok
	}
	finish := func() (int, bool) {
		taskErr := 0
		waitErr := make(chan error, 1)
		go func() {
			t.TM.StopTask(id)
			waitErr <- et.Wait()
		}()
		select {
		case err := <-waitErr:
			if err != nil {
				taskErr = 1
			}
		case <-time.After(12 * time.Second):
			return 0, false
		}
		t.TM.StopTask(oid)
		other.Wait()
		return taskErr, true
	}
	// two canaries first: does the expression accept them at all? (two, because an alert node lets the
	// first point through even when its expression fails)
	write(mk(canaryFields, true))
	write(mk(canaryFields, true))
	deadline := time.Now().Add(3 * time.Second)
	for time.Now().Before(deadline) && count(id, true) < 2 {
		time.Sleep(time.Millisecond)
	}
	if count(id, true) < 2 {
		te, ok := finish()
		t.Rec.Reset()
		if !ok {
			return "X hang"
		}
		if te == 0 {
			return "nocanary"
		}
		return fmt.Sprintf("0 %d 0/2", te)
	}
	total := 2
	for _, ps := range pts {
		if write(mk(parsePointSpec(ps), false)) {
			total++
		}
	}
	for i := 0; i < liveCanariesAfter; i++ {
		write(mk(canaryFields, true))
		total++
	}
	want := 2 + liveCanariesAfter
	deadline = time.Now().Add(15 * time.Second)
	for time.Now().Before(deadline) && (count(oid, false) < total || count(id, true) < want) {
		time.Sleep(2 * time.Millisecond)
	}
	te, ok2 := finish()
	if !ok2 {
		return "X hang"
	}
	res := fmt.Sprintf("%d %d %d/%d", count(id, true), te, count(oid, false), total)
	t.Rec.Reset()
	return res
}

// ---------------------------------------------------------------------------------------------
// services/httpd/handler.go: `http <method> <path?query> <plain|gzip|badgzip|truncgzip> <body>`
// against the real httpd service of the worker's TaskMaster (write endpoint wired to the TaskMaster).
// Observation: the status code, or `noresp` when the server dropped the connection without answering
// (what net/http does when a handler panics).

var httpOnce sync.Once

func execHTTP(method, path, enc, body string) string {
	t := sharedTM()
	httpOnce.Do(func() {
		t.HTTPD.Handler.PointsWriter = t.TM
		t.HTTPD.Handler.DiagService = kit.Diag() // what the real server wires for /loglevel
	})
	var rd io.Reader
	switch enc {
	case "gzip", "truncgzip":
		var b bytes.Buffer
		zw := gzip.NewWriter(&b)
		zw.Write([]byte(body))
		zw.Close()
		data := b.Bytes()
		if enc == "truncgzip" && len(data) > 4 {
			data = data[:len(data)/2]
		}
		rd = bytes.NewReader(data)
	default:
		rd = strings.NewReader(body)
	}
	req, err := http.NewRequest(method, strings.TrimSuffix(t.HTTPD.URL(), httpd.BasePath)+path, rd)
	if err != nil {
		return "badreq" // the client library refuses the request: nothing reaches the server
	}
	if enc != "plain" {
		req.Header.Set("Content-Encoding", "gzip")
	}
	cl := &http.Client{Timeout: 10 * time.Second, Transport: &http.Transport{DisableKeepAlives: true}}
	resp, err := cl.Do(req)
	if err != nil {
		if ne, ok := err.(interface{ Timeout() bool }); ok && ne.Timeout() {
			return "X hang"
		}
		return "noresp"
	}
	io.Copy(io.Discard, resp.Body)
	resp.Body.Close()
	return strconv.Itoa(resp.StatusCode)
}

// ---------------------------------------------------------------------------------------------
// `pbatch <cls> <s1> <s2> …`: ast.Parse, tick.Format and ast.ParseLambda on every string of the batch.
// Observation: per string three letters (o = ok, e = error, p = panic) and, last, the goroutines left
// behind by the whole batch.

func execPBatch(toks []string) string {
	g0 := settle(-1)
	var out []string
	one := func(f func() error) (c byte) {
		defer func() {
			if r := recover(); r != nil {
				c = 'p'
			}
		}()
		if err := f(); err != nil {
			return 'e'
		}
		return 'o'
	}
	for _, tk := range toks {
		s, _ := kit.Unesc(tk)
		r := []byte{
			one(func() error { _, err := ast.Parse(s); return err }),
			one(func() error { _, err := tick.Format(s); return err }),
			one(func() error { _, err := ast.ParseLambda(s); return err }),
		}
		out = append(out, string(r))
	}
	leak := settle(g0) - g0
	if leak < 0 {
		leak = 0
	}
	return strings.Join(out, " ") + " " + strconv.Itoa(leak)
}

// ---------------------------------------------------------------------------------------------
// JSON documents are not only decoded: what DECODES is formatted, compiled and evaluated.
// `jsoneval lambda|program <doc>` → five letters (o ok, e error, p panic, - not reached):
//   decode, ast.Format, stateful.NewExpression, EvalBool, Eval   (program: decode, Format, NewTask of the text)

func step1(f func() error) (c byte) {
	defer func() {
		if r := recover(); r != nil {
			c = 'p'
		}
	}()
	if err := f(); err != nil {
		return 'e'
	}
	return 'o'
}

func evalScope() *stateful.Scope {
	sc := stateful.NewScope()
	sc.Set("host", "a")
	sc.Set("s", "abc")
	sc.Set("v", int64(1))
	sc.Set("f", 1.5)
	sc.Set("b", true)
	sc.Set("d", time.Second)
	return sc
}

func execJSONEval(kind, doc string) string {
	res := []byte("-----")
	switch kind {
	case "lambda":
		l := &ast.LambdaNode{}
		res[0] = step1(func() error { return json.Unmarshal([]byte(doc), l) })
		if res[0] != 'o' {
			break
		}
		res[1] = step1(func() error { _ = ast.Format(l); return nil })
		var ex stateful.Expression
		res[2] = step1(func() error {
			var err error
			ex, err = stateful.NewExpression(l.Expression)
			return err
		})
		if res[2] != 'o' {
			break
		}
		res[3] = step1(func() error { _, err := ex.EvalBool(evalScope()); return err })
		res[4] = step1(func() error { _, err := ex.Eval(evalScope()); return err })
	case "program":
		n := &ast.ProgramNode{}
		res[0] = step1(func() error { return json.Unmarshal([]byte(doc), n) })
		if res[0] != 'o' {
			break
		}
		var text string
		res[1] = step1(func() error { text = ast.Format(n); return nil })
		if res[1] != 'o' {
			break
		}
		sharedTM()
		res[2] = step1(func() error { _, err := sharedTM().TM.NewTask("t", text, kapacitor.StreamTask, dbrps, 0, nil); return err })
	default:
		return "badop"
	}
	return string(res)
}

// `jsontask <pipeline JSON>`: Pipeline.Unmarshal; what decodes becomes a running task next to a bystander,
// is fed 5 points and stopped. Observation: `<decode o|e|p> <start o|e|p|-> <task error 0|1> <bystander seen>/<sent>`.
func execJSONTask(doc string) string {
	p := &pipeline.Pipeline{}
	d := step1(func() error { return p.Unmarshal([]byte(doc)) })
	if d != 'o' {
		return string(d) + " - 0 0/0"
	}
	t := sharedTM()
	liveSeq++
	id := fmt.Sprintf("jt%d", liveSeq)
	oid := fmt.Sprintf("jo%d", liveSeq)
	other, err := t.StartStream(oid, "stream|from().measurement('m')@sink()", dbrps)
	if err != nil {
		return "o othererr 0 0/0"
	}
	var et *kapacitor.ExecutingTask
	st := step1(func() error {
		task := &kapacitor.Task{ID: id, Pipeline: p, Type: kapacitor.StreamTask, DBRPs: dbrps}
		var err error
		et, err = t.TM.StartTask(task)
		return err
	})
	if st != 'o' {
		t.TM.StopTask(oid)
		other.Wait()
		t.Rec.Reset()
		return "o " + string(st) + " 0 0/0"
	}
	sent := 0
	for i := 0; i < 5; i++ {
		pt, err := imodels.NewPoint("m", imodels.NewTags(map[string]string{"host": "a"}),
			imodels.Fields{"v": int64(i + 1), "s": "abc", "f": 1.5, "b": true}, time.Unix(int64(i+1), 0).UTC())
		if err == nil {
			t.TM.WritePoints("db", "rp", imodels.ConsistencyLevelAll, []imodels.Point{pt})
			sent++
			time.Sleep(time.Millisecond)
		}
	}
	seen := func() int {
		n := 0
		for _, k := range t.Rec.Keys() {
			if strings.HasPrefix(k, oid+"/") {
				n += len(t.Rec.Get(k))
			}
		}
		return n
	}
	deadline := time.Now().Add(10 * time.Second)
	for time.Now().Before(deadline) && seen() < sent {
		time.Sleep(2 * time.Millisecond)
	}
	time.Sleep(5 * time.Millisecond)
	taskErr := 0
	waitErr := make(chan error, 1)
	go func() {
		t.TM.StopTask(id)
		waitErr <- et.Wait()
	}()
	select {
	case err := <-waitErr:
		if err != nil {
			taskErr = 1
		}
	case <-time.After(12 * time.Second):
		return "X hang"
	}
	t.TM.StopTask(oid)
	other.Wait()
	res := fmt.Sprintf("o o %d %d/%d", taskErr, seen(), sent)
	t.Rec.Reset()
	return res
}
