// Package c06 is the harness for property C06 (group identity and isolation). It runs the REAL kapacitor
// code in-process and prints op lines with what the implementation did. Three kinds of cases:
//
//	gid  – models.ToGroupID called directly on generated (name, tags, dimensions) triples;
//	gb   – a real stream task `from()|groupBy(...)` (or `from().groupBy(...)`) with an `@sink()` behind it:
//	       observed per point = the GroupID and Dimensions the node assigned (determineTagNames /
//	       computeTagNames / ToGroupID through edge.PointMessage.SetDimensions);
//	iso  – RELATIONAL runs through real tasks: the same pipeline `from()|groupBy(dims)|NODE@sink()` is run once
//	       on the full interleaved point list and once per group on that group's points alone; observed =
//	       every message that reached the sink (group key, time, projection, full content, the GroupID it carries),
//	       for each run. Optionally a stateless STAGE that rebuilds the group identity of every point sits between
//	       the groupBy and NODE (delete of a group-by tag, a further groupBy, default/eval writing a tag; see `stage`),
//	       or the grouping is configured on from(); the groups of the solo runs are those in force behind the stage.
package c06

import (
	"fmt"
	"os"
	"runtime"
	"sort"
	"strconv"
	"strings"
	"time"

	"github.com/influxdata/kapacitor"
	"github.com/influxdata/kapacitor/edge"
	"github.com/influxdata/kapacitor/models"

	"verifharness/kit"
)

// ---------------------------------------------------------------------------------------------
// token helpers

func escList(xs []string) string {
	if len(xs) == 0 {
		return "-"
	}
	o := make([]string, len(xs))
	for i, x := range xs {
		o[i] = kit.Esc(x)
	}
	return strings.Join(o, ",")
}

func unescList(tok string) []string {
	if tok == "-" {
		return nil
	}
	var o []string
	for _, x := range strings.Split(tok, ",") {
		v, _ := kit.Unesc(x)
		o = append(o, v)
	}
	return o
}

// tags on the wire: k=v,k=v in the ORDER GIVEN (the generator emits them sorted by key)
func parseTags(tok string) models.Tags {
	t := models.Tags{}
	if tok == "-" {
		return t
	}
	for _, kv := range strings.Split(tok, ",") {
		i := strings.Index(kv, "=")
		if i < 0 {
			continue
		}
		k, _ := kit.Unesc(kv[:i])
		v, _ := kit.Unesc(kv[i+1:])
		t[k] = v
	}
	return t
}

// fields on the wire: k=i:5,k=s:abc,k=b:1,k=f:<16 hex>
func parseFields(tok string) models.Fields {
	f := models.Fields{}
	if tok == "-" {
		return f
	}
	for _, kv := range strings.Split(tok, ",") {
		i := strings.Index(kv, "=")
		if i < 0 {
			continue
		}
		k, _ := kit.Unesc(kv[:i])
		v := kv[i+1:]
		switch {
		case strings.HasPrefix(v, "i:"):
			n, _ := strconv.ParseInt(v[2:], 10, 64)
			f[k] = n
		case strings.HasPrefix(v, "s:"):
			s, _ := kit.Unesc(v[2:])
			f[k] = s
		case strings.HasPrefix(v, "b:"):
			f[k] = v[2:] == "1"
		case strings.HasPrefix(v, "f:"):
			bits, _ := strconv.ParseUint(v[2:], 16, 64)
			f[k] = float64frombits(bits)
		}
	}
	return f
}

type pt struct {
	name   string
	tags   models.Tags
	fields models.Fields
	t      int64
}

func parsePt(t []string) (pt, bool) {
	if len(t) < 5 {
		return pt{}, false
	}
	name, _ := kit.Unesc(t[1])
	ns, _ := strconv.ParseInt(t[4], 10, 64)
	return pt{name: name, tags: parseTags(t[2]), fields: parseFields(t[3]), t: ns}, true
}

// (the last field of a rendered message is the GroupID string the message carries: the driver checks that equal ids
// <=> equal structured keys among the emitted messages and that the id is ToGroupID of the message's own parts)
//
// gkey renders the STRUCTURED identity of a group: by-name flag, the name when grouping by name, and the
// (dimension, value) pairs in dimension order. It never looks at the GroupID string.
func gkey(byName bool, name string, dims []string, tags models.Tags) string {
	b, n := "0", "%"
	if byName {
		b, n = "1", kit.Esc(name)
	}
	// a dimension listed twice (groupBy('host','host')) spells the same group (since fix 6ba92e9 the implementation
	// keeps it once as well; before, only the window node's batch header did): the key lists every dimension once
	var ps []string
	seen := map[string]bool{}
	for _, d := range dims {
		if seen[d] {
			continue
		}
		seen[d] = true
		ps = append(ps, kit.Esc(d)+"="+kit.Esc(tags[d]))
	}
	l := "-"
	if len(ps) > 0 {
		l = strings.Join(ps, ",")
	}
	return b + "~" + n + "~" + l
}

func proj(f models.Fields) string {
	if v, ok := f["o"]; ok {
		return kit.FieldVal(v)
	}
	return "-"
}

func renderMsg(m edge.Message) (string, bool) {
	switch x := m.(type) {
	case edge.PointMessage:
		d := x.Dimensions()
		return fmt.Sprintf("P|%s|%d|%s|%s|%s|%s|%s", gkey(d.ByName, x.Name(), d.TagNames, x.Tags()), x.Time().UnixNano(),
			proj(x.Fields()), kit.Esc(x.Name()), kit.FieldsStr(x.Fields()), kit.TagsStr(x.Tags()), kit.Esc(string(x.GroupID()))), true
	case edge.BufferedBatchMessage:
		d := x.Dimensions()
		var ps []string
		for _, bp := range x.Points() {
			ps = append(ps, fmt.Sprintf("%d!%s!%s", bp.Time().UnixNano(), kit.FieldsStr(bp.Fields()), kit.TagsStr(bp.Tags())))
		}
		l := "-"
		if len(ps) > 0 {
			l = strings.Join(ps, ";")
		}
		pj := fmt.Sprintf("n:%d", len(ps)) // projection of a batch: size and the times of its points
		for _, bp := range x.Points() {
			pj += fmt.Sprintf("/%d", bp.Time().UnixNano())
			if o, ok := bp.Fields()["o"]; ok {
				pj += "=" + kit.FieldVal(o)
			}
		}
		return fmt.Sprintf("B|%s|%d|%s|%s|%s|%s", gkey(d.ByName, x.Name(), d.TagNames, x.Tags()), x.Time().UnixNano(),
			pj, kit.Esc(x.Name()), l, kit.Esc(string(x.GroupID()))), true
	}
	return "", false
}

// ---------------------------------------------------------------------------------------------
// running one real stream task on a list of points

var dbrps = []kapacitor.DBRP{{Database: "db", RetentionPolicy: "rp"}}

// runTask starts a fresh TaskMaster + task, feeds the points through the TaskMaster's stream collector,
// drains, waits for the task to finish and returns everything its (single) sink node received.
func runTask(script string, pts []pt) (msgs []edge.Message, status string) {
	type res struct {
		msgs   []edge.Message
		status string
	}
	ch := make(chan res, 1)
	go func() {
		m, s := runTask1(script, pts)
		ch <- res{m, s}
	}()
	select {
	case r := <-ch:
		return r.msgs, r.status
	case <-time.After(20 * time.Second):
		// a run that does not finish is an observation (`hang`), not a harness failure; the goroutines of
		// the stuck TaskMaster are abandoned
		if os.Getenv("VERIF_LOG") != "" {
			buf := make([]byte, 1<<20)
			fmt.Fprintf(os.Stderr, "HANG\n%s\n%s\n", script, buf[:runtime.Stack(buf, true)])
		}
		return nil, "hang"
	}
}

func runTask1(script string, pts []pt) (msgs []edge.Message, status string) {
	status = "ok"
	defer func() {
		if r := recover(); r != nil {
			status = "panic"
		}
	}()
	t, err := kit.NewTM(kit.TMOpts{})
	if err != nil {
		return nil, "err:tm"
	}
	defer t.Close()
	et, err := t.StartStream("t", script, dbrps)
	if err != nil {
		if os.Getenv("VERIF_LOG") != "" {
			fmt.Fprintln(os.Stderr, "script error:", err, "\n", script)
		}
		return nil, "err:compile"
	}
	sc, err := t.TM.Stream("in")
	if err != nil {
		return nil, "err:stream"
	}
	for _, p := range pts {
		// every run gets its own copies of the maps (nodes may keep references)
		if err := sc.CollectPoint(edge.NewPointMessage(p.name, "db", "rp", models.Dimensions{}, p.fields.Copy(), p.tags.Copy(), time.Unix(0, p.t).UTC())); err != nil {
			status = "err:collect"
		}
	}
	sc.Close()
	t.TM.Drain()
	if err := et.Wait(); err != nil {
		status = "err:task"
	}
	for _, k := range t.Rec.Keys() {
		msgs = append(msgs, t.Rec.Get(k)...)
	}
	return msgs, status
}

func quoteTick(s string) string {
	return "'" + strings.ReplaceAll(strings.ReplaceAll(s, `\`, `\\`), `'`, `\'`) + "'"
}

func groupByArgs(star bool, dims []string) string {
	var a []string
	if star {
		a = append(a, "*")
	}
	for _, d := range dims {
		a = append(a, quoteTick(d))
	}
	return strings.Join(a, ", ")
}

// ---------------------------------------------------------------------------------------------
// gid

func execGid(line string, t []string) string {
	if len(t) < 5 {
		return line + " => bad"
	}
	name, _ := kit.Unesc(t[2])
	obs := func() (o string) {
		defer func() {
			if r := recover(); r != nil {
				o = "panic"
			}
		}()
		id := models.ToGroupID(name, parseTags(t[4]), models.Dimensions{ByName: t[1] == "1", TagNames: unescList(t[3])})
		return kit.Esc(string(id))
	}()
	return line + " => " + obs
}

// ---------------------------------------------------------------------------------------------
// gb: a real groupBy in a real task

func gbScript(t []string) string {
	// gb <from|node> <byName> <star> <dims> <excl>
	byName, star := t[2] == "1", t[3] == "1"
	dims, excl := unescList(t[4]), unescList(t[5])
	var b strings.Builder
	b.WriteString("stream\n  |from()")
	if t[1] == "from" {
		fmt.Fprintf(&b, "\n    .groupBy(%s)", groupByArgs(star, dims))
		if byName {
			b.WriteString("\n    .groupByMeasurement()")
		}
	} else {
		fmt.Fprintf(&b, "\n  |groupBy(%s)", groupByArgs(star, dims))
		if byName {
			b.WriteString("\n    .byMeasurement()")
		}
		if len(excl) > 0 {
			var q []string
			for _, x := range excl {
				q = append(q, quoteTick(x))
			}
			fmt.Fprintf(&b, "\n    .exclude(%s)", strings.Join(q, ", "))
		}
	}
	b.WriteString("\n  @sink()\n")
	return b.String()
}

func execGb(lines []string) []string {
	var out []string
	var cfg []string
	var pts []pt
	var ptLines []string
	for _, l := range lines {
		t := strings.Fields(l)
		switch t[0] {
		case "gb":
			cfg = t
			out = append(out, l)
		case "pt":
			if p, ok := parsePt(t); ok {
				pts = append(pts, p)
				ptLines = append(ptLines, l)
			}
		}
	}
	if len(cfg) < 6 {
		return append(out, "bad")
	}
	msgs, status := runTask(gbScript(cfg), pts)
	for i, l := range ptLines {
		obs := "lost"
		if status != "ok" {
			obs = status
		} else if len(msgs) == len(pts) {
			if pm, ok := msgs[i].(edge.PointMessage); ok {
				d := pm.Dimensions()
				b := "0"
				if d.ByName {
					b = "1"
				}
				obs = kit.Esc(string(pm.GroupID())) + " " + b + " " + escList(d.TagNames)
			}
		}
		out = append(out, l+" => "+obs)
	}
	return out
}

// ---------------------------------------------------------------------------------------------
// iso: relational runs

type nodeDef struct {
	script string // the node chain placed after groupBy; %d verbs take p1, p2 in order of appearance
	batch  bool   // the chain ends on a batch edge (@bsink instead of @sink)
	nargs  int
}

// Modelled kinds (the Lean driver predicts their output) and opaque kinds (relational oracle only).
var nodeDefs = map[string]nodeDef{
	// modelled
	"sample":     {"|sample(%d)", false, 1},
	"statecount": {"|stateCount(lambda: \"v\" > %d)\n    .as('o')", false, 1},
	"wherecount": {"|where(lambda: count() %% %d == %d)", false, 2},
	"evalcount":  {"|eval(lambda: count())\n    .as('o')", false, 0},
	"alertgt":    {"|alert()\n    .crit(lambda: count() > %d)\n    .levelField('o')", false, 1},
	"alertmod":   {"|alert()\n    .crit(lambda: count() %% %d == 0)\n    .levelField('o')", false, 1},
	"sum":        {"|sum('v')\n    .as('o')", false, 0},
	"count":      {"|count('v')\n    .as('o')", false, 0},
	// a lambda var used as a nested lambda node: its ExecutionState is per CopyReset copy = per group since fix 8ed14ac
	// (it was one for all groups: former finding nested-lambda-state-shared), like the outer expression's own count()
	"wherenested": {"|where(lambda: nl AND count() %% 2 == 1)", false, 0},
	"evalnested":  {"|eval(lambda: nc * 1000 + count())\n    .as('o')", false, 0},
	// stateCount / stateDuration whose lambda holds a stateful function (CopyReset per group in StateTrackingNode.newGroup)
	"statecountfn":    {"|stateCount(lambda: count() %% %d == 0)\n    .as('o')", false, 1},
	"statedurationfn": {"|stateDuration(lambda: count() %% %d != 0)\n    .as('o')\n    .unit(1s)", false, 1},
	"winstatecountfn": {"|window()\n    .periodCount(%d)\n    .everyCount(%d)\n  |stateCount(lambda: count() %% 2 == 0)\n    .as('o')", true, 2},
	// opaque: stream
	"statecountsigma":  {"|stateCount(lambda: sigma(\"v\") < 1.0)\n    .as('o')", false, 0},
	"statedurspread":   {"|stateDuration(lambda: spread(\"v\") < 5.0)\n    .as('o')\n    .unit(1s)", false, 0},
	"winstatedurfn":    {"|window()\n    .periodCount(%d)\n    .everyCount(%d)\n  |stateDuration(lambda: count() %% 2 == 0)\n    .as('o')\n    .unit(1s)", true, 2},
	"alertlevelsfn":    {"|alert()\n    .info(lambda: count() %% %d == 0)\n    .infoReset(lambda: count() %% 2 == 0)\n    .warn(lambda: spread(\"v\") > 4.0)\n    .crit(lambda: \"v\" > 8)\n    .levelField('o')", false, 1},
	"combinefn":        {"|combine(lambda: count() %% 2 == 1, lambda: TRUE)\n    .as('a', 'b')\n    .tolerance(1s)", false, 0},
	"alertnested": {"|alert()\n    .crit(lambda: nl)\n    .levelField('o')", false, 0},
	"stateduration": {"|stateDuration(lambda: \"v\" > %d)\n    .as('o')\n    .unit(1s)", false, 1},
	"derivative":    {"|derivative('v')\n    .unit(1s)\n    .as('o')", false, 0},
	"derivativenn":  {"|derivative('v')\n    .unit(1s)\n    .nonNegative()\n    .as('o')", false, 0},
	"changedetect":  {"|changeDetect('v')", false, 0},
	"evalsigma":     {"|eval(lambda: sigma(\"v\"))\n    .as('o')", false, 0},
	"evalspread":    {"|eval(lambda: spread(\"v\"), lambda: count())\n    .as('o', 'c')", false, 0},
	"eval2":         {"|eval(lambda: \"w\" + 1, lambda: count(), lambda: \"c\" %% 2)\n    .as('o', 'c', 'r')", false, 0},
	"wheresigma":    {"|where(lambda: sigma(\"v\") < 1.0)", false, 0},
	"alertsigma":    {"|alert()\n    .warn(lambda: sigma(\"v\") > 1.0)\n    .crit(lambda: \"v\" > %d)\n    .levelField('o')\n    .durationField('d')\n    .idField('i')", false, 1},
	"alertlevels":   {"|alert()\n    .info(lambda: \"v\" > %d)\n    .warn(lambda: \"v\" > %d + 2)\n    .crit(lambda: \"v\" > 8)\n    .critReset(lambda: \"v\" < 3)\n    .levelField('o')\n    .durationField('d')\n    .idTag('i')", false, 2},
	"alertreset":    {"|alert()\n    .warn(lambda: \"v\" > 2)\n    .warnReset(lambda: count() %% 3 == 0)\n    .crit(lambda: \"v\" > %d + 3)\n    .critReset(lambda: count() %% 2 == 0)\n    .levelField('o')", false, 1},
	"alertthr":      {"|alert()\n    .info(lambda: \"v\" > %d)\n    .warn(lambda: \"v\" > %d + 2)\n    .crit(lambda: \"v\" > %d + 4)\n    .levelField('o')", false, 3},
	"alertthrsco":   {"|alert()\n    .info(lambda: \"v\" > %d)\n    .warn(lambda: \"v\" > %d + 2)\n    .crit(lambda: \"v\" > %d + 4)\n    .stateChangesOnly()\n    .levelField('o')", false, 3},
	"alertsco":      {"|alert()\n    .warn(lambda: \"v\" > %d)\n    .crit(lambda: \"v\" > 8)\n    .stateChangesOnly()\n    .levelField('o')\n    .durationField('d')\n    .messageField('m')", false, 1},
	"alertflap":     {"|alert()\n    .crit(lambda: \"v\" > %d)\n    .flapping(0.25, 0.5)\n    .history(5)\n    .levelField('o')", false, 1},
	"last":          {"|last('v')\n    .as('o')", false, 0},
	"mean":          {"|mean('v')\n    .as('o')", false, 0},
	"cumsum":        {"|cumulativeSum('v')\n    .as('o')", false, 0},
	"movavg":        {"|movingAverage('v', 2)\n    .as('o')", false, 0},
	"difference":    {"|difference('v')\n    .as('o')", false, 0},
	"elapsed":       {"|elapsed('v', 1s)\n    .as('o')", false, 0},
	"default":       {"|default()\n    .field('w', %d)", false, 1},
	// opaque: windows (batch out) and batch consumers behind a window
	"windowt":       {"|window()\n    .period(%ds)\n    .every(%ds)", true, 2},
	"windowtalign":  {"|window()\n    .period(%ds)\n    .every(%ds)\n    .align()", true, 2},
	"windowtfill":   {"|window()\n    .period(%ds)\n    .every(%ds)\n    .fillPeriod()", true, 2},
	"windowc":       {"|window()\n    .periodCount(%d)\n    .everyCount(%d)", true, 2},
	"windowcfill":   {"|window()\n    .periodCount(%d)\n    .everyCount(%d)\n    .fillPeriod()", true, 2},
	"winsum":        {"|window()\n    .periodCount(%d)\n    .everyCount(%d)\n  |sum('v')\n    .as('o')", false, 2},
	"winmean":       {"|window()\n    .period(%ds)\n    .every(%ds)\n  |mean('v')\n    .as('o')", false, 2},
	"wincount":      {"|window()\n    .periodCount(%d)\n    .everyCount(%d)\n  |count('v')\n    .as('o')", false, 2},
	"winwhere":      {"|window()\n    .periodCount(%d)\n    .everyCount(%d)\n  |where(lambda: count() %% 2 == 1)", true, 2},
	"winstatecount": {"|window()\n    .periodCount(%d)\n    .everyCount(%d)\n  |stateCount(lambda: \"v\" > 3)\n    .as('o')", true, 2},
	"winsample":     {"|window()\n    .periodCount(%d)\n    .everyCount(%d)\n  |sample(2)", true, 2},
	"winderiv":      {"|window()\n    .periodCount(%d)\n    .everyCount(%d)\n  |derivative('v')\n    .unit(1s)\n    .as('o')", true, 2},
	"winchange":     {"|window()\n    .periodCount(%d)\n    .everyCount(%d)\n  |changeDetect('v')", true, 2},
	"wineval":       {"|window()\n    .periodCount(%d)\n    .everyCount(%d)\n  |eval(lambda: count() + \"v\")\n    .as('o')", true, 2},
	"winalert":      {"|window()\n    .periodCount(%d)\n    .everyCount(%d)\n  |alert()\n    .crit(lambda: \"v\" > 5)\n    .levelField('o')", true, 2},
	"winalertcount": {"|window()\n    .periodCount(%d)\n    .everyCount(%d)\n  |alert()\n    .crit(lambda: count() > 4)\n    .levelField('o')", true, 2},
	"wincumsum":     {"|window()\n    .periodCount(%d)\n    .everyCount(%d)\n  |cumulativeSum('v')\n    .as('o')", true, 2},
}

// nodePre: var declarations placed before `stream` (lambda vars used as NESTED lambda nodes); they take p1, p2.
var nodePre = map[string]struct {
	pre   string
	nargs int
}{
	"wherenested": {"var nl = lambda: count() %% %d == %d\n", 2},
	"evalnested":  {"var nc = lambda: count()\n", 0},
	"alertnested": {"var nl = lambda: count() > %d\n", 1},
}

// A stateless STAGE between the groupBy and NODE that rebuilds what a point's group id is computed from (7th token of
// the node line, optional): `-` | `fromgb` (no stage: the grouping is configured on from()) | `del:<tags>` |
// `gb:<0|1>:<dims>` | `deftag:<k>:<v>` | `evaltag:<k>:<v>` (the value is string("w") = "1" in every generated point).
type stage struct {
	kind string
	list []string
	flag bool
	k, v string
}

func parseStage(tok string) (stage, bool) {
	f := strings.Split(tok, ":")
	switch {
	case tok == "-" || tok == "fromgb":
		return stage{kind: tok}, true
	case f[0] == "del" && len(f) == 2:
		return stage{kind: "del", list: unescList(f[1])}, true
	case f[0] == "gb" && len(f) == 3:
		l := unescList(f[2])
		sort.Strings(l)
		return stage{kind: "gb", flag: f[1] == "1", list: l}, true
	case (f[0] == "deftag" || f[0] == "evaltag") && len(f) == 3:
		k, _ := kit.Unesc(f[1])
		v, _ := kit.Unesc(f[2])
		return stage{kind: f[0], k: k, v: v}, true
	}
	return stage{}, false
}

func (st stage) script() string {
	switch st.kind {
	case "del":
		s := "\n  |delete()"
		for _, t := range st.list {
			s += "\n    .tag(" + quoteTick(t) + ")"
		}
		return s
	case "gb":
		s := "\n  |groupBy(" + groupByArgs(false, st.list) + ")"
		if st.flag {
			s += "\n    .byMeasurement()"
		}
		return s
	case "deftag":
		return "\n  |default()\n    .tag(" + quoteTick(st.k) + ", " + quoteTick(st.v) + ")"
	case "evaltag":
		return "\n  |eval(lambda: string(\"w\"))\n    .as(" + quoteTick(st.k) + ")\n    .tags(" + quoteTick(st.k) + ")\n    .keep()"
	}
	return ""
}

// after says what the GROUPING of a point is behind the stage, by the property (not by reading the code): delete of a
// tag removes it from the group-by tags and keeps "by measurement"; a further groupBy names the new group-by tags (the
// generator never asks for one that would have to drop an earlier by-measurement); default/eval only change values.
func (st stage) after(byName bool, dims []string, tags models.Tags) (bool, []string, models.Tags) {
	switch st.kind {
	case "del":
		del := map[string]bool{}
		for _, t := range st.list {
			del[t] = true
		}
		nt := models.Tags{}
		for k, v := range tags {
			if !del[k] {
				nt[k] = v
			}
		}
		var nd []string
		for _, d := range dims {
			if !del[d] {
				nd = append(nd, d)
			}
		}
		return byName, nd, nt
	case "gb":
		return byName || st.flag, st.list, tags
	case "deftag":
		if tags[st.k] == "" {
			nt := tags.Copy()
			nt[st.k] = st.v
			return byName, dims, nt
		}
	case "evaltag":
		nt := tags.Copy()
		nt[st.k] = st.v
		return byName, dims, nt
	}
	return byName, dims, tags
}

func isoScript(t []string) (string, bool) {
	// node <kind> <p1> <p2> <byName> <dims> [<stage>]
	if len(t) < 6 {
		return "", false
	}
	st := stage{kind: "-"}
	if len(t) >= 7 {
		var ok bool
		if st, ok = parseStage(t[6]); !ok {
			return "", false
		}
	}
	def, ok := nodeDefs[t[1]]
	if !ok {
		return "", false
	}
	p1, _ := strconv.Atoi(t[2])
	p2, _ := strconv.Atoi(t[3])
	args := []interface{}{p1, p2}
	if def.nargs == 3 { // the same parameter three times
		args = []interface{}{p1, p1, p1}
	}
	args = args[:def.nargs]
	dims := unescList(t[5])
	sort.Strings(dims)
	var b strings.Builder
	if pre, ok := nodePre[t[1]]; ok {
		b.WriteString(fmt.Sprintf(pre.pre, []interface{}{p1, p2}[:pre.nargs]...))
	}
	if t[4] == "2" {
		// MIXED by-name flags on one edge: measurement cpu is grouped by measurement, measurement m is not; the union
		// hands both to NODE (points of other measurements are filtered out by the from() nodes)
		fmt.Fprintf(&b, "var a = stream\n  |from()\n    .measurement('cpu')\n    .groupBy(%s)\n    .groupByMeasurement()\n", groupByArgs(false, dims))
		fmt.Fprintf(&b, "var b = stream\n  |from()\n    .measurement('m')\n    .groupBy(%s)\n", groupByArgs(false, dims))
		b.WriteString("a\n  |union(b)")
	} else if st.kind == "fromgb" {
		fmt.Fprintf(&b, "stream\n  |from()\n    .groupBy(%s)", groupByArgs(false, dims))
		if t[4] == "1" {
			b.WriteString("\n    .groupByMeasurement()")
		}
	} else {
		fmt.Fprintf(&b, "stream\n  |from()\n  |groupBy(%s)", groupByArgs(false, dims))
		if t[4] == "1" {
			b.WriteString("\n    .byMeasurement()")
		}
	}
	b.WriteString(st.script())
	b.WriteString("\n  " + fmt.Sprintf(def.script, args...))
	if def.batch {
		b.WriteString("\n  @bsink()\n")
	} else {
		b.WriteString("\n  @sink()\n")
	}
	return b.String(), true
}

func renderRun(script string, pts []pt) string {
	msgs, status := runTask(script, pts)
	if status != "ok" {
		return status
	}
	var o []string
	// a batch node forwards BeginBatch / BatchPoint / EndBatch one by one: reassemble them (they are contiguous on an edge)
	var begin edge.BeginBatchMessage
	var bps []edge.BatchPointMessage
	for _, m := range msgs {
		switch x := m.(type) {
		case edge.BeginBatchMessage:
			begin, bps = x, nil
		case edge.BatchPointMessage:
			if begin == nil {
				o = append(o, "X|stray-batch-point|0|-")
				continue
			}
			bps = append(bps, x)
		case edge.EndBatchMessage:
			if begin == nil {
				o = append(o, "X|stray-end-batch|0|-")
				continue
			}
			if s, ok := renderMsg(edge.NewBufferedBatchMessage(begin, bps, x)); ok {
				o = append(o, s)
			}
			begin, bps = nil, nil
		default:
			if s, ok := renderMsg(m); ok {
				o = append(o, s)
			}
		}
	}
	if begin != nil {
		o = append(o, "X|unterminated-batch|0|-")
	}
	if len(o) == 0 {
		return "-"
	}
	return strings.Join(o, " ")
}

func execIso(lines []string) []string {
	var out []string
	var cfg []string
	var pts []pt
	for _, l := range lines {
		t := strings.Fields(l)
		switch t[0] {
		case "node":
			cfg = t
			out = append(out, l)
		case "pt":
			if p, ok := parsePt(t); ok {
				pts = append(pts, p)
				out = append(out, l)
			}
		}
	}
	script, ok := isoScript(cfg)
	if !ok {
		return append(out, "bad")
	}
	byNameOf := func(name string) bool { return cfg[4] == "1" || (cfg[4] == "2" && name == "cpu") }
	dims := unescList(cfg[5])
	sort.Strings(dims)
	st := stage{kind: "-"}
	if len(cfg) >= 7 {
		st, _ = parseStage(cfg[6])
	}
	out = append(out, "full => "+renderRun(script, pts))
	// the groups of the input AS THEY REACH NODE (behind the stage), in order of first appearance, by STRUCTURED key
	var keys []string
	byKey := map[string][]pt{}
	for _, p := range pts {
		fb, fd, ft := st.after(byNameOf(p.name), dims, p.tags)
		k := gkey(fb, p.name, fd, ft)
		if _, ok := byKey[k]; !ok {
			keys = append(keys, k)
		}
		byKey[k] = append(byKey[k], p)
	}
	for _, k := range keys {
		out = append(out, "solo "+k+" => "+renderRun(script, byKey[k]))
	}
	return out
}

// ---------------------------------------------------------------------------------------------

func execCase(lines []string) []string {
	var in []string
	for _, raw := range lines {
		l := raw
		if i := strings.Index(l, " => "); i >= 0 {
			l = l[:i]
		}
		t := strings.Fields(l)
		if len(t) == 0 || t[0] == "full" || t[0] == "solo" {
			continue // derived lines are recomputed
		}
		in = append(in, l)
	}
	if len(in) == 0 {
		return nil
	}
	kinds := map[string]bool{}
	for _, l := range in {
		kinds[strings.Fields(l)[0]] = true
	}
	switch {
	case kinds["slot"]:
		return execSlot(in)
	case kinds["dmx"]:
		return execDmx(in)
	case kinds["node"]:
		return execIso(in)
	case kinds["gb"]:
		return execGb(in)
	default:
		var out []string
		for _, l := range in {
			t := strings.Fields(l)
			if t[0] == "gid" {
				out = append(out, execGid(l, t))
			}
		}
		return out
	}
}

func emit(out *kit.Out, id string, lines []string) {
	out.Line("case", id)
	for _, l := range lines {
		out.Line(l)
	}
	out.Line("end")
	out.Flush()
}

// Run: `vh-c06 -seed S -n N [-tier thorough]` generates; `vh-c06 -ops file` re-executes the cases of a file.
func Run(args []string) int {
	f := kit.ParseFlags(args)
	out := kit.NewOut()
	defer out.Flush()
	// Every run creates a fresh TaskMaster with its own Bolt store; on a disk the fsyncs dominate the run
	// time (15-40 s per 400 cases against 2.5 s on tmpfs), so the stores go to /dev/shm when there is one.
	if st, err := os.Stat("/dev/shm"); err == nil && st.IsDir() {
		if d, err := os.MkdirTemp("/dev/shm", "vh-c06-"); err == nil {
			os.Setenv("VERIF_SCRATCH", d)
			defer os.RemoveAll(d)
		}
	}
	if f.Ops != "" {
		lines, err := kit.ReadLines(f.Ops)
		if err != nil {
			fmt.Fprintln(os.Stderr, err)
			return 2
		}
		var cur []string
		id := ""
		for _, l := range lines {
			t := strings.Fields(l)
			switch {
			case len(t) == 2 && t[0] == "case":
				id, cur = t[1], nil
			case len(t) == 1 && t[0] == "end":
				emit(out, id, execCase(cur))
			default:
				cur = append(cur, l)
			}
		}
		return 0
	}
	generate(out, f)
	return 0
}
