// Package c06 is the harness for property C06 (runs the real kapacitor code, prints op lines).
package c06

import (
	"fmt"
	"os"
)

// Run is replaced by the property's harness.
func Run(args []string) int {
	fmt.Fprintln(os.Stderr, "c06: harness not implemented yet")
	return 3
}
