package c06

import (
	"fmt"
	"strconv"
	"strings"
	"time"

	"github.com/influxdata/kapacitor/edge"
	"github.com/influxdata/kapacitor/models"
	"github.com/influxdata/kapacitor/pipeline"

	"verifharness/kit"
)

// dmx cases drive the REAL edge.groupedConsumer (edge.NewGroupedConsumer) directly, over a real channel edge,
// with a recording GroupedReceiver: every call a per-group receiver gets is recorded as
// `<group>|<call>|<number of calls this receiver has seen>|<kind of the message that created it>`.
// Items: point / barrier / buffered <n> / delete / batch <n> (BeginBatch, n BatchPoints, EndBatch).

type recGroup struct {
	rec   *[]string
	g     string
	first string
	n     int
}

func (r *recGroup) add(k string) {
	r.n++
	*r.rec = append(*r.rec, fmt.Sprintf("%s|%s|%d|%s", kit.Esc(r.g), k, r.n, r.first))
}
func (r *recGroup) BeginBatch(edge.BeginBatchMessage) error   { r.add("B"); return nil }
func (r *recGroup) BatchPoint(edge.BatchPointMessage) error   { r.add("p"); return nil }
func (r *recGroup) EndBatch(edge.EndBatchMessage) error       { r.add("E"); return nil }
func (r *recGroup) Point(edge.PointMessage) error             { r.add("P"); return nil }
func (r *recGroup) Barrier(edge.BarrierMessage) error         { r.add("R"); return nil }
func (r *recGroup) DeleteGroup(edge.DeleteGroupMessage) error { r.add("D"); return nil }
func (r *recGroup) Done()                                     {}

type recNode struct{ rec *[]string }

func (n *recNode) NewGroup(group edge.GroupInfo, first edge.PointMeta) (edge.Receiver, error) {
	k := "?"
	switch first.(type) {
	case edge.PointMessage:
		k = "P"
	case edge.BeginBatchMessage:
		k = "B"
	case edge.BarrierMessage:
		k = "R"
	}
	return &recGroup{rec: n.rec, g: string(group.ID), first: k}, nil
}

type dmxItem struct {
	kind string
	g    string
	n    int
}

func runDmx(items []dmxItem) (out string) {
	defer func() {
		if r := recover(); r != nil {
			out = "panic"
		}
	}()
	var rec []string
	e := edge.NewChannelEdge(pipeline.StreamEdge, 4096)
	c := edge.NewGroupedConsumer(e, &recNode{rec: &rec})
	done := make(chan string, 1)
	go func() {
		defer func() {
			if r := recover(); r != nil {
				done <- "panic"
			}
		}()
		if err := c.Consume(); err != nil {
			done <- "err:consume"
			return
		}
		done <- "ok"
	}()
	t0 := time.Unix(0, 0).UTC()
	// the group id of every message is exactly g: grouping by name only, no tags
	info := func(g string) edge.GroupInfo {
		return edge.GroupInfo{ID: models.GroupID(g), Tags: models.Tags{}, Dimensions: models.Dimensions{ByName: true}}
	}
	bps := func(n int) []edge.BatchPointMessage {
		ps := make([]edge.BatchPointMessage, n)
		for i := range ps {
			ps[i] = edge.NewBatchPointMessage(models.Fields{"v": int64(i)}, models.Tags{}, t0)
		}
		return ps
	}
	for _, it := range items {
		switch it.kind {
		case "point":
			e.Collect(edge.NewPointMessage(it.g, "db", "rp", models.Dimensions{ByName: true}, models.Fields{"v": int64(1)}, models.Tags{}, t0))
		case "barrier":
			e.Collect(edge.NewBarrierMessage(info(it.g), t0))
		case "delete":
			e.Collect(edge.NewDeleteGroupMessage(info(it.g)))
		case "buffered":
			e.Collect(edge.NewBufferedBatchMessage(edge.NewBeginBatchMessage(it.g, models.Tags{}, true, t0, it.n), bps(it.n), edge.NewEndBatchMessage()))
		case "batch":
			e.Collect(edge.NewBeginBatchMessage(it.g, models.Tags{}, true, t0, it.n))
			for _, bp := range bps(it.n) {
				e.Collect(bp)
			}
			e.Collect(edge.NewEndBatchMessage())
		}
	}
	e.Close()
	select {
	case st := <-done:
		if st != "ok" {
			return st
		}
	case <-time.After(20 * time.Second):
		return "hang"
	}
	if len(rec) == 0 {
		return "-"
	}
	return strings.Join(rec, " ")
}

func execDmx(lines []string) []string {
	out := []string{"dmx"}
	var items []dmxItem
	for _, l := range lines {
		t := strings.Fields(l)
		if t[0] != "it" || len(t) < 3 {
			continue
		}
		g, _ := kit.Unesc(t[2])
		it := dmxItem{kind: t[1], g: g}
		if len(t) > 3 {
			it.n, _ = strconv.Atoi(t[3])
		}
		items = append(items, it)
		out = append(out, l)
	}
	out = append(out, "full => "+runDmx(items))
	var keys []string
	by := map[string][]dmxItem{}
	for _, it := range items {
		if _, ok := by[it.g]; !ok {
			keys = append(keys, it.g)
		}
		by[it.g] = append(by[it.g], it)
	}
	for _, k := range keys {
		out = append(out, "solo "+kit.Esc(k)+" => "+runDmx(by[k]))
	}
	return out
}

func genDmx(r *kit.Rand, big bool) []string {
	ls := []string{"dmx"}
	groups := []string{"A", "B", "C", "", "a=1,b=2"}[:r.Range(2, 5)]
	n := r.Range(3, 14)
	if big {
		n = r.Range(15, 40)
	}
	for i := 0; i < n; i++ {
		g := kit.Esc(kit.Pick(r, groups))
		switch k := r.Intn(20); {
		case k < 8:
			ls = append(ls, "it point "+g)
		case k < 10:
			ls = append(ls, "it barrier "+g)
		case k < 13:
			ls = append(ls, fmt.Sprintf("it buffered %s %d", g, r.Intn(4)))
		case k < 16:
			ls = append(ls, "it delete "+g)
		default:
			ls = append(ls, fmt.Sprintf("it batch %s %d", g, r.Intn(4)))
		}
	}
	return ls
}
