package c06

import (
	"fmt"
	"math"
	"sort"
	"strings"

	"github.com/influxdata/kapacitor/models"

	"verifharness/kit"
)

func float64frombits(b uint64) float64 { return math.Float64frombits(b) }

// ---------------------------------------------------------------------------------------------
// pools (values with ',', '=', spaces, empty, unicode, the name delimiter '\n')

var valPool = []string{"", "x", "y", "z", "x y", "x,y", "a=b", "é", "x,b=y", ",", "=", "y,b=z", "1", "1,b=2", "2", "x\ny", " ", "b=", ",b"}
var dimPool = []string{"a", "b", "c", "a,b", "a=b", "h st", "é", "b=c", "a\nb"}
var namePool = []string{"m", "cpu", "", "m n", "m\na=1", "a=1", "m,x", "é"}
var cleanVals = []string{"a", "b", "c", "x y", "k=1", "é", "srv-01", "A", ""}

func tagsTok(keys []string, m map[string]string) string {
	ks := append([]string(nil), keys...)
	sort.Strings(ks)
	var o []string
	seen := map[string]bool{}
	for _, k := range ks {
		if _, ok := m[k]; !ok || seen[k] {
			continue
		}
		seen[k] = true
		o = append(o, kit.Esc(k)+"="+kit.Esc(m[k]))
	}
	if len(o) == 0 {
		return "-"
	}
	return strings.Join(o, ",")
}

func mapTok(m map[string]string) string {
	var ks []string
	for k := range m {
		ks = append(ks, k)
	}
	return tagsTok(ks, m)
}

func b01(b bool) string {
	if b {
		return "1"
	}
	return "0"
}

func gidLine(byName bool, name string, dims []string, tags map[string]string) string {
	return fmt.Sprintf("gid %s %s %s %s", b01(byName), kit.Esc(name), escList(dims), mapTok(tags))
}

// ---------------------------------------------------------------------------------------------
// gid cases: small sets of (name, tags, dims) whose pairwise same-group relation is judged

func genGid(r *kit.Rand) []string {
	var ls []string
	byName := r.Chance(1, 3)
	name := kit.Pick(r, namePool)
	switch k := r.Intn(13); k {
	case 12: // MIXED by-name flags in one case (a union of differently grouped streams)
		v := kit.Pick(r, []string{"1", "x", ""})
		ls = append(ls, gidLine(true, "a="+v, nil, nil))                                  // id = the name
		ls = append(ls, gidLine(false, "m", []string{"a"}, map[string]string{"a": v}))    // id = a=<v>
		ls = append(ls, gidLine(true, "", nil, nil))                                      // id = "" = the nil group
		ls = append(ls, gidLine(false, "m", nil, nil))
		ls = append(ls, gidLine(true, "cpu", []string{"a"}, map[string]string{"a": v}))   // clean pair: never collides
		ls = append(ls, gidLine(false, "cpu", []string{"cpu\na"}, map[string]string{"cpu\na": v}))
	case 0: // the recorded collision shape: ",<dim>=" moved across a value boundary, same dimensions
		d1, d2 := "a", "b"
		x, y, z := kit.Pick(r, []string{"x", "", "1", "é"}), kit.Pick(r, []string{"y", "", "2"}), kit.Pick(r, []string{"z", "", "3"})
		ls = append(ls, gidLine(byName, name, []string{d1, d2}, map[string]string{d1: x + "," + d2 + "=" + y, d2: z}))
		ls = append(ls, gidLine(byName, name, []string{d1, d2}, map[string]string{d1: x, d2: y + "," + d2 + "=" + z}))
		ls = append(ls, gidLine(byName, name, []string{d1, d2}, map[string]string{d1: x, d2: z}))
	case 1: // groupBy(*) shape: different dimension lists, one value swallows the next pair
		x, y := kit.Pick(r, []string{"1", "x", ""}), kit.Pick(r, []string{"2", "y", ""})
		ls = append(ls, gidLine(byName, name, []string{"a"}, map[string]string{"a": x + ",b=" + y}))
		ls = append(ls, gidLine(byName, name, []string{"a", "b"}, map[string]string{"a": x, "b": y}))
	case 2: // '=' in a dimension name, different dimension lists, no ',' anywhere
		ls = append(ls, gidLine(byName, name, []string{"a=b"}, map[string]string{"a=b": "c"}))
		ls = append(ls, gidLine(byName, name, []string{"a"}, map[string]string{"a": "b=c"}))
	case 3: // the name delimiter inside a name (by-name grouping), same dimensions, no ','
		ls = append(ls, gidLine(true, "m", []string{"a"}, map[string]string{"a": "1\na=2"}))
		ls = append(ls, gidLine(true, "m\na=1", []string{"a"}, map[string]string{"a": "2"}))
		ls = append(ls, gidLine(true, "m", []string{"a"}, map[string]string{"a": "2"}))
	case 9: // a dimension listed twice: another spelling (id) of the same tag values, consistent within one list
		v := kit.Pick(r, valPool)
		ls = append(ls, gidLine(byName, name, []string{"a", "a"}, map[string]string{"a": v}))
		ls = append(ls, gidLine(byName, name, []string{"a", "a"}, map[string]string{"a": v, "zz": "1"}))
		ls = append(ls, gidLine(byName, name, []string{"a"}, map[string]string{"a": v}))
		ls = append(ls, gidLine(byName, name, []string{"a", "a"}, map[string]string{"a": kit.Pick(r, valPool)}))
	case 4: // no dimensions at all: by name → the name, otherwise the nil group
		ls = append(ls, gidLine(byName, name, nil, map[string]string{"a": kit.Pick(r, valPool)}))
		ls = append(ls, gidLine(byName, kit.Pick(r, namePool), nil, map[string]string{"b": kit.Pick(r, valPool)}))
		ls = append(ls, gidLine(byName, name, nil, nil))
	case 5: // a missing tag and an empty tag value are the same group-by value
		ls = append(ls, gidLine(byName, name, []string{"a", "b"}, map[string]string{"a": "x", "b": ""}))
		ls = append(ls, gidLine(byName, name, []string{"a", "b"}, map[string]string{"a": "x"}))
		ls = append(ls, gidLine(byName, name, []string{"a", "b"}, map[string]string{"a": "x", "c": "q"}))
	case 6: // same dimensions, tags differ only OUTSIDE the dimensions, names differ
		v := kit.Pick(r, valPool)
		ls = append(ls, gidLine(byName, "m", []string{"a"}, map[string]string{"a": v, "zz": "1"}))
		ls = append(ls, gidLine(byName, "cpu", []string{"a"}, map[string]string{"a": v, "zz": "2"}))
		ls = append(ls, gidLine(byName, "m", []string{"a"}, map[string]string{"a": v}))
	case 7, 8: // black-box collision search: re-split the id the IMPLEMENTATION gave to a point at every other
		// place where "<dim>=" occurs, and ask for the ids of the points so obtained
		d1, d2 := kit.Pick(r, []string{"a", "a=b", "h st"}), kit.Pick(r, []string{"b", "c", "é"})
		frag := []string{"x", "", "y", d2 + "=", "x" + d2 + "=y", "," + d2 + "=", "x," + d2 + "=y", d2 + "=y", "=", ","}
		v1 := kit.Pick(r, frag) + kit.Pick(r, frag)
		v2 := kit.Pick(r, frag) + kit.Pick(r, frag)
		dims := []string{d1, d2}
		ls = append(ls, gidLine(byName, name, dims, map[string]string{d1: v1, d2: v2}))
		id := string(models.ToGroupID(name, map[string]string{d1: v1, d2: v2}, models.Dimensions{ByName: byName, TagNames: dims}))
		body := id
		if byName {
			body = strings.TrimPrefix(body, name+"\n")
		}
		seen := map[string]bool{v1 + "\x00" + v2: true}
		if strings.HasPrefix(body, d1+"=") {
			rest := body[len(d1)+1:]
			for j := 0; j+len(d2)+1 <= len(rest) && len(ls) < 6; j++ {
				if !strings.HasPrefix(rest[j:], d2+"=") {
					continue
				}
				w2 := rest[j+len(d2)+1:]
				for _, w1 := range []string{rest[:j], strings.TrimSuffix(rest[:j], ",")} {
					if !seen[w1+"\x00"+w2] {
						seen[w1+"\x00"+w2] = true
						ls = append(ls, gidLine(byName, name, dims, map[string]string{d1: w1, d2: w2}))
					}
				}
			}
		}
	default: // random keys over the adversarial pools, same or different dimension lists
		n := r.Range(2, 4)
		nd := r.Range(1, 3)
		dims := make([]string, nd)
		for i := range dims {
			dims[i] = kit.Pick(r, dimPool)
		}
		sort.Strings(dims)
		for i := 0; i < n; i++ {
			ds := dims
			if r.Chance(1, 4) { // another dimension list (groupBy(*) over different tag sets)
				ds = make([]string, r.Range(0, 3))
				for j := range ds {
					ds[j] = kit.Pick(r, dimPool)
				}
				sort.Strings(ds)
			}
			tags := map[string]string{}
			for _, d := range ds {
				if r.Chance(5, 6) {
					tags[d] = kit.Pick(r, valPool)
				}
			}
			if r.Chance(1, 3) {
				tags[kit.Pick(r, dimPool)] = kit.Pick(r, valPool)
			}
			nm := name
			if r.Chance(1, 3) {
				nm = kit.Pick(r, namePool)
			}
			ls = append(ls, gidLine(byName, nm, ds, tags))
		}
	}
	return ls
}

// ---------------------------------------------------------------------------------------------
// gb cases: the real groupBy node / from().groupBy()

func fieldsTok(v string) string {
	if v == "" {
		return "w=i:1"
	}
	return "v=" + v + ",w=i:1"
}

func genGb(r *kit.Rand) []string {
	mode := "node"
	if r.Chance(1, 3) {
		mode = "from"
	}
	byName := r.Chance(1, 3)
	star := r.Chance(1, 2)
	gbDims := []string{"a", "b", "c", "a,b", "a=b", "h st", "é"}
	var dims, excl []string
	// pipeline validation: '*' excludes named dimensions; exclude() requires '*'
	if !star {
		for i := r.Intn(4); i > 0; i-- {
			dims = append(dims, kit.Pick(r, gbDims)) // unsorted, duplicates possible
		}
	} else if mode == "node" {
		for i := r.Intn(3); i > 0; i-- {
			excl = append(excl, kit.Pick(r, gbDims))
		}
	}
	ls := []string{fmt.Sprintf("gb %s %s %s %s %s", mode, b01(byName), b01(star), escList(dims), escList(excl))}
	for i, n := 0, r.Range(2, 6); i < n; i++ {
		tags := map[string]string{}
		for j := r.Intn(5); j > 0; j-- {
			tags[kit.Pick(r, gbDims)] = kit.Pick(r, valPool)
		}
		ls = append(ls, fmt.Sprintf("pt %s %s %s %d", kit.Esc(kit.Pick(r, []string{"m", "cpu", "m n"})), mapTok(tags), fieldsTok("i:1"), int64(i)*1e9))
	}
	return ls
}

// ---------------------------------------------------------------------------------------------
// iso cases

var modelledKinds = []string{"sample", "statecount", "wherecount", "evalcount", "alertgt", "alertmod", "sum", "count", "wherenested", "evalnested", "alertnested",
	"stateduration", "changedetect", "derivative", "derivativenn", "windowc", "windowcfill", "alertthr", "alertthrsco",
	"statecountfn", "statedurationfn", "winstatecountfn",
	"winsample", "winstatecount", "winwhere", "winchange", "winderiv", "winsum", "wincount",
	"windowt", "windowtalign", "windowtfill", "alertflap", "winalert", "winalertcount", "wineval"}
var opaqueKinds []string

func init() {
	m := map[string]bool{}
	for _, k := range modelledKinds {
		m[k] = true
	}
	for k := range nodeDefs {
		if !m[k] {
			opaqueKinds = append(opaqueKinds, k)
		}
	}
	sort.Strings(opaqueKinds)
}

type grp struct {
	name string
	tags map[string]string
	typ  string // value type of field v in this group: i f s b
	t    int64
	n    int
}

func genVal(r *kit.Rand, typ string) string {
	switch typ {
	case "i":
		return fmt.Sprintf("i:%d", r.Intn(11))
	case "f":
		return "f:" + kit.F64(float64(r.Intn(21))/2)
	case "s":
		return "s:" + kit.Esc(kit.Pick(r, []string{"u", "w", "x y"}))
	case "b":
		return "b:" + b01(r.Bool())
	}
	return ""
}

func genIso(r *kit.Rand, kind string, big bool) []string {
	def := nodeDefs[kind]
	p1, p2 := 0, 0
	switch kind {
	case "sample":
		p1 = r.Range(1, 4)
	case "wherecount", "wherenested":
		p1 = r.Range(2, 4)
		p2 = r.Intn(p1)
	case "alertnested":
		p1 = r.Range(1, 5)
	case "statecountfn", "statedurationfn", "alertlevelsfn":
		p1 = r.Range(2, 4)
	case "alertthr", "alertthrsco":
		p1 = r.Range(0, 5)
	case "windowc", "windowcfill":
		p1, p2 = r.Range(1, 4), r.Range(1, 4)
	case "alertgt":
		p1 = r.Range(1, 5)
	case "alertmod":
		p1 = r.Range(2, 4)
	case "windowt", "windowtalign", "windowtfill", "winmean":
		p1, p2 = r.Range(2, 6), r.Range(1, 4)
	default:
		if def.nargs == 2 && strings.HasPrefix(kind, "win") {
			p1, p2 = r.Range(2, 4), r.Range(1, 3)
		} else {
			p1, p2 = r.Range(1, 6), r.Range(1, 4)
		}
	}
	byName := r.Chance(1, 4)
	dims := [][]string{{"host"}, {"dc", "host"}, {"host"}, {"h st"}, {}, {"host", "host"}, {"dc", "host", "host"}}[r.Intn(7)]
	if len(dims) == 0 {
		byName = true // otherwise there is one group only
	}
	mode := b01(byName)
	mixed := len(dims) > 0 && r.Chance(1, 8)
	if mixed {
		mode, byName = "2", false
	}
	// 1 run in 3: a stateless STAGE between the groupBy and NODE that rebuilds the group identity of every point
	// (delete of a group-by tag, a further groupBy, default / eval writing a tag), or the grouping configured on from()
	st := stage{kind: "-"}
	stTok := "-"
	if !mixed && r.Chance(1, 3) {
		stTok, byName = genStage(r, dims, byName)
		st, _ = parseStage(stTok)
		mode = b01(byName)
	}
	effBy := byName || (st.kind == "gb" && st.flag) // grouped by measurement where the points reach NODE
	ls := []string{fmt.Sprintf("node %s %d %d %s %s %s", kind, p1, p2, mode, escList(dims), stTok)}
	// groups with pairwise different structured keys and no ',' in a value (collisions have their own cases)
	ng := r.Range(2, 4)
	if big {
		ng = r.Range(4, 7)
	}
	var gs []*grp
	seen := map[string]bool{}
	for tries := 0; len(gs) < ng && tries < 60; tries++ {
		g := &grp{name: "m", tags: map[string]string{}}
		if effBy || r.Chance(1, 5) {
			g.name = kit.Pick(r, []string{"m", "cpu", "m n"})
		}
		if mixed {
			g.name = kit.Pick(r, []string{"m", "cpu"})
		}
		for _, d := range dims {
			if r.Chance(7, 8) { // sometimes the tag is missing altogether
				g.tags[d] = kit.Pick(r, cleanVals)
			}
		}
		// directed: a TWIN of an earlier group - the same tags under another measurement (different groups exactly when
		// grouping by measurement), or the same measurement and tags except one dimension (groups a stage may merge)
		if len(gs) > 0 && !mixed && r.Chance(2, 5) {
			prev := gs[r.Intn(len(gs))]
			g.tags = map[string]string{}
			for k, v := range prev.tags {
				g.tags[k] = v
			}
			if effBy && (len(dims) == 0 || r.Chance(2, 3)) {
				g.name = kit.Pick(r, []string{"m", "cpu", "m n"})
			} else if len(dims) > 0 {
				g.name = prev.name
				g.tags[dims[r.Intn(len(dims))]] = kit.Pick(r, cleanVals)
			}
		}
		k := gkey(byName || (mixed && g.name == "cpu"), g.name, dims, g.tags)
		if seen[k] {
			continue
		}
		seen[k] = true
		// value type of the group
		switch {
		case kind == "sum" || kind == "count":
			g.typ = kit.Pick(r, []string{"i", "i", "i", "s", "b"})
		case kind == "statecount":
			g.typ = kit.Pick(r, []string{"i", "i", "i", "i", "s"})
		case kind == "last" || kind == "changedetect" || kind == "default":
			g.typ = kit.Pick(r, []string{"i", "f", "s", "b"})
		case kind == "winalertcount" || kind == "winwhere" || kind == "winsample" || kind == "winchange" || kind == "wincount":
			g.typ = kit.Pick(r, []string{"i", "i", "f", "s"})
		case kind == "evalspread" || kind == "evalsigma" || kind == "wheresigma" || kind == "alertsigma" || kind == "statecountsigma" || kind == "statedurspread" || kind == "alertlevelsfn":
			g.typ = kit.Pick(r, []string{"f", "f", "f", "i"}) // sigma/spread want floats; an int group errors
		default:
			g.typ = kit.Pick(r, []string{"i", "i", "f"}) // numeric nodes: int and float groups side by side
		}
		g.t = int64(r.Intn(4))
		g.n = r.Range(2, 8)
		if big {
			g.n = r.Range(5, 14)
		}
		if kind == "alertflap" && r.Chance(2, 3) {
			g.n = r.Range(6, 12) // the flapping flag needs several level changes inside a history of 5
		}
		gs = append(gs, g)
	}
	// sometimes: two DIFFERENT groups whose ids collide (finding groupid-delimiter-collision): they share a receiver
	if len(dims) == 2 && len(gs) >= 2 && st.kind == "-" && r.Chance(1, 3) {
		x := kit.Pick(r, []string{"x", "", "é"})
		gs[0].tags = map[string]string{dims[0]: x + "," + dims[1] + "=y", dims[1]: "z"}
		gs[1].tags = map[string]string{dims[0]: x, dims[1]: "y," + dims[1] + "=z"}
		gs[1].name = gs[0].name
	}
	// random interleaving (NOT globally time-ordered: every interleaving of the groups is legal)
	left := 0
	for _, g := range gs {
		left += g.n
	}
	bursty := r.Chance(1, 3)
	cur := gs[0]
	for left > 0 {
		if !bursty || cur.n == 0 || r.Chance(1, 3) {
			cur = gs[r.Intn(len(gs))]
		}
		if cur.n == 0 {
			continue
		}
		cur.n--
		left--
		step := int64(r.Intn(3)) // 0 = same timestamp again (influxql stream aggregation runs)
		if kind != "sum" && kind != "count" && kind != "last" && kind != "mean" && r.Chance(3, 4) && step == 0 {
			step = 1
		}
		cur.t += step
		v := genVal(r, cur.typ)
		if r.Chance(1, 12) {
			v = "" // field missing
		}
		if (kind == "sum" || kind == "count") && r.Chance(1, 10) {
			v = genVal(r, kit.Pick(r, []string{"i", "s"})) // type change inside a group
		}
		if kind == "wineval" && r.Chance(1, 6) {
			v = genVal(r, kit.Pick(r, []string{"i", "f"})) // int and float points in one group: does a failed int + float step count()?
		}
		tags := map[string]string{}
		for k, x := range cur.tags {
			tags[k] = x
		}
		if r.Chance(1, 2) {
			tags["x"] = kit.Pick(r, []string{"p", "q", "p,q"}) // a non-dimension tag
		}
		name := cur.name
		if !effBy && !mixed && r.Chance(1, 6) {
			name = kit.Pick(r, []string{"m", "cpu"}) // not grouping by name: names may differ inside a group
		}
		ls = append(ls, fmt.Sprintf("pt %s %s %s %d", kit.Esc(name), mapTok(tags), fieldsTok(v), cur.t*1e9))
	}
	return ls
}

// genStage picks the stage token for the configured dimension list; it may turn grouping by measurement on (the case
// that matters most: by measurement AND a stage that rebuilds the dimensions).
func genStage(r *kit.Rand, dims []string, byName bool) (string, bool) {
	var uniq []string
	seen := map[string]bool{}
	for _, d := range dims {
		if !seen[d] {
			seen[d] = true
			uniq = append(uniq, d)
		}
	}
	if len(uniq) > 0 && r.Chance(1, 2) {
		byName = true
	}
	k := r.Intn(8)
	if len(uniq) == 0 && k != 3 && k != 5 {
		k = 7 // nothing to delete or regroup: only a non-dimension tag or the from() head
	}
	switch k {
	case 0, 1, 2: // delete a group-by tag (sometimes every one, sometimes a non-dimension tag as well)
		del := []string{uniq[r.Intn(len(uniq))]}
		if r.Chance(1, 4) {
			del = append([]string(nil), uniq...)
		}
		if r.Chance(1, 3) {
			del = append(del, "x")
		}
		return "del:" + escList(del), byName
	case 3: // delete only a tag that is no dimension
		return "del:x", byName
	case 4: // a further groupBy: coarser (a subset) or finer (one more dimension); by measurement as before or newly
		var nd []string
		if len(uniq) >= 2 && r.Chance(2, 3) {
			nd = []string{uniq[r.Intn(len(uniq))]}
		} else {
			nd = append(append([]string(nil), uniq...), "x")
		}
		flag := byName // never an earlier by-measurement followed by a groupBy without it (documentation and code disagree)
		if !byName && r.Chance(1, 3) {
			flag = true
		}
		return "gb:" + b01(flag) + ":" + escList(nd), byName
	case 5: // default() on a tag: a dimension (a missing value moves the point to the group of the default) or not
		k := "x"
		if len(uniq) > 0 && r.Chance(3, 4) {
			k = uniq[r.Intn(len(uniq))]
		}
		return "deftag:" + kit.Esc(k) + ":" + kit.Esc(kit.Pick(r, []string{"dflt", "a", "A"})), byName
	case 6: // eval().tags() overwriting a dimension: every point gets the value "1" there
		return "evaltag:" + kit.Esc(uniq[r.Intn(len(uniq))]) + ":1", byName
	default:
		return "fromgb", byName
	}
}

// ---------------------------------------------------------------------------------------------

// exhaustiveGid: ONE case holding every key over a tiny structural alphabet, so that the driver judges ALL pairs:
// every collision the real ToGroupID has there must be the recorded deviation, every other pair must be told apart.
func exhaustiveGid(alpha []string, maxLen int, star bool) []string {
	vals := []string{""}
	for l, prev := 1, []string{""}; l <= maxLen; l++ {
		var next []string
		for _, p := range prev {
			for _, a := range alpha {
				next = append(next, p+a)
			}
		}
		vals = append(vals, next...)
		prev = next
	}
	var ls []string
	for _, v1 := range vals {
		if star { // groupBy(*): a point that has only tag a, against points that have a and b
			ls = append(ls, gidLine(false, "m", []string{"a"}, map[string]string{"a": v1}))
		}
		for _, v2 := range vals {
			ls = append(ls, gidLine(false, "m", []string{"a", "b"}, map[string]string{"a": v1, "b": v2}))
		}
	}
	return ls
}

func generate(out *kit.Out, f kit.Flags) {
	r := kit.NewRand(f.Seed)
	if f.Extra["only"] == "" {
		if f.Tier == "thorough" {
			emit(out, "x-gid-4x2", execCase(exhaustiveGid([]string{",", "=", "b", "x"}, 2, false)))
			emit(out, "x-gid-3x3", execCase(exhaustiveGid([]string{",", "=", "b"}, 3, false)))
			emit(out, "x-gid-star", execCase(exhaustiveGid([]string{",", "=", "b"}, 3, true)))
		} else {
			emit(out, "x-gid-3x2", execCase(exhaustiveGid([]string{",", "=", "b"}, 2, false)))
			emit(out, "x-gid-star", execCase(exhaustiveGid([]string{",", "=", "b"}, 2, true)))
		}
	}
	only := f.Extra["only"]
	ki := 0
	for i := 0; i < f.N; i++ {
		rr := r.Fork()
		var ls []string
		var id string
		k := i % 10
		switch {
		// slot tables (httpOut behind a deleting barrier): wall-clock cases, a fixed dozen per run, the position of
		// the first deleted slot rotating first / newest / middle
		case only == "slot" || (only == "" && i%200 == 17):
			id, ls = fmt.Sprintf("s%d", i), genSlot(rr, i/200+int(f.Seed))
			if only == "slot" {
				id, ls = fmt.Sprintf("s%d", i), genSlot(rr, i+int(f.Seed))
			}
		case only == "gid" || (only == "" && k < 5):
			id, ls = fmt.Sprintf("g%d", i), genGid(rr)
		case only == "gb" || (only == "" && k < 6):
			id, ls = fmt.Sprintf("b%d", i), genGb(rr)
		case only == "dmx" || (only == "" && k < 7):
			id, ls = fmt.Sprintf("d%d", i), genDmx(rr, f.Tier == "thorough" && rr.Chance(1, 3))
		default:
			// round-robin over the kinds so that every node is exercised in every run
			var kind string
			if ki%2 == 0 {
				kind = modelledKinds[(ki/2)%len(modelledKinds)]
			} else {
				kind = opaqueKinds[(ki/2)%len(opaqueKinds)]
			}
			if kk := f.Extra["kind"]; kk != "" {
				kind = kk
			}
			ki++
			id, ls = fmt.Sprintf("i%d-%s", i, kind), genIso(rr, kind, f.Tier == "thorough" && rr.Chance(1, 3))
		}
		emit(out, id, execCase(ls))
	}
}
