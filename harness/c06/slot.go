package c06

// slot cases: nodes that keep a per-group SLOT TABLE next to the demultiplexer's own map. HTTPOutNode keeps
// n.indexes (slot -> receiver) and n.result.Series (slot -> last row); httpOutGroup.idx is the group's slot;
// deleteGroup splices both slices and renumbers the receivers behind the deleted slot. The case runs the REAL task
//
//	stream|from().groupBy('host')|barrier().idle(D).delete(TRUE)|httpOut('out')
//
// on a history of points and group deletions and reads what the node SERVES through the route handler the node
// registered (a recording HTTPDService; no socket). A deletion is produced the only way the public API can: the
// group is left idle until the barrier node emits its DeleteGroupMessage, while every other live group is kept busy
// by re-sending its LAST point (same time, same value: the served row does not change). Lines:
//
//	slot <idle ms>
//	sp <host> <int v>       feed one point of group host
//	sd <host>               let the group go idle until the httpOut node's group count fell   => deleted | timeout
//	sr                      read the served result, slot order                                 => host=v ... | -
//	solo <host>             derived: the reads of the run fed only <host>'s sp/sd lines        => read;read;...
import (
	"encoding/json"
	"fmt"
	"net/http"
	"net/http/httptest"
	"sort"
	"strconv"
	"strings"
	"sync"
	"time"

	"github.com/influxdata/kapacitor"
	"github.com/influxdata/kapacitor/edge"
	"github.com/influxdata/kapacitor/models"
	"github.com/influxdata/kapacitor/services/httpd"
	"github.com/influxdata/kapacitor/uuid"

	"verifharness/kit"
)

type routeRec struct {
	mu     sync.Mutex
	routes map[string]httpd.Route
	url    string
}

func (f *routeRec) AddRoutes(rs []httpd.Route) error {
	f.mu.Lock()
	defer f.mu.Unlock()
	for _, r := range rs {
		f.routes[r.Pattern] = r
	}
	return nil
}
func (f *routeRec) DelRoutes(rs []httpd.Route) {
	f.mu.Lock()
	defer f.mu.Unlock()
	for _, r := range rs {
		delete(f.routes, r.Pattern)
	}
}
func (f *routeRec) URL() string { return f.url }

// served = what GET /tasks/t/out answers, one token per series in slot order
func (f *routeRec) served(pattern string) ([]string, bool) {
	f.mu.Lock()
	r, ok := f.routes[pattern]
	f.mu.Unlock()
	if !ok {
		return nil, false
	}
	h, ok := r.HandlerFunc.(func(http.ResponseWriter, *http.Request))
	if !ok {
		return nil, false
	}
	rec := httptest.NewRecorder()
	h(rec, httptest.NewRequest("GET", pattern, nil))
	var res models.Result
	if err := json.Unmarshal(rec.Body.Bytes(), &res); err != nil {
		return nil, false
	}
	var o []string
	for _, s := range res.Series {
		if s == nil || len(s.Values) == 0 {
			o = append(o, "nil")
			continue
		}
		row := s.Values[len(s.Values)-1]
		v := "?"
		for i, c := range s.Columns {
			if c == "v" && i < len(row) {
				if x, ok := row[i].(float64); ok {
					v = strconv.FormatInt(int64(x), 10)
				}
			}
		}
		o = append(o, kit.Esc(s.Tags["host"])+"="+v)
	}
	return o, true
}

type slotInfo struct{ c, s uuid.UUID }

func (i slotInfo) ClusterID() uuid.UUID    { return i.c }
func (i slotInfo) ServerID() uuid.UUID     { return i.s }
func (i slotInfo) Hostname() string        { return "localhost" }
func (i slotInfo) Version() string         { return "verif" }
func (i slotInfo) Product() string         { return "kapacitor" }
func (i slotInfo) Platform() string        { return "verif" }
func (i slotInfo) NumTasks() int64         { return 0 }
func (i slotInfo) NumEnabledTasks() int64  { return 0 }
func (i slotInfo) NumSubscriptions() int64 { return 0 }
func (i slotInfo) Uptime() time.Duration   { return 0 }

type slotTaskStore struct{}

func (slotTaskStore) SaveSnapshot(string, *kapacitor.TaskSnapshot) error { return nil }
func (slotTaskStore) HasSnapshot(string) bool                            { return false }
func (slotTaskStore) LoadSnapshot(string) (*kapacitor.TaskSnapshot, error) {
	return nil, fmt.Errorf("no snapshot")
}

type slotDeadman struct{}

func (slotDeadman) Interval() time.Duration { return 0 }
func (slotDeadman) Threshold() float64      { return 0 }
func (slotDeadman) Id() string              { return "" }
func (slotDeadman) Message() string         { return "" }
func (slotDeadman) Global() bool            { return false }

type slotOp struct {
	kind string // sp sd sr
	host string
	v    int64
}

func sortedCopy(xs []string) string {
	c := append([]string(nil), xs...)
	sort.Strings(c)
	return strings.Join(c, " ")
}

// runSlot executes the ops on a fresh task; returns the observation of every op (same length as ops).
func runSlot(idleMs int, ops []slotOp) (obs []string, status string) {
	status = "ok"
	defer func() {
		if r := recover(); r != nil {
			status = "panic"
		}
	}()
	rr := &routeRec{routes: map[string]httpd.Route{}, url: "http://slot"}
	// a TaskMaster of its own (kit.NewTM shares one httpd.Service between all TaskMasters, whose alert routes can be
	// registered once: the full run and the solo runs are alive side by side here); no alert / UDF service needed
	tm := kapacitor.NewTaskMaster("slot", slotInfo{uuid.New(), uuid.New()}, kit.Diag().NewKapacitorHandler())
	tm.HTTPDService = rr
	tm.TaskStore = slotTaskStore{}
	tm.DeadmanService = slotDeadman{}
	if err := tm.Open(); err != nil {
		return nil, "err:tm"
	}
	defer tm.Close()
	script := fmt.Sprintf("stream\n  |from()\n    .groupBy('host')\n  |barrier()\n    .idle(%dms)\n    .delete(TRUE)\n  |httpOut('out')\n", idleMs)
	task, err := tm.NewTask("t", script, kapacitor.StreamTask, dbrps, 0, nil)
	if err != nil {
		return nil, "err:compile"
	}
	et, err := tm.StartTask(task)
	if err != nil {
		return nil, "err:compile"
	}
	sc, err := tm.Stream("in")
	if err != nil {
		return nil, "err:stream"
	}
	cardinality := func() int64 {
		st, err := et.ExecutionStats()
		if err != nil {
			return -1
		}
		for name, m := range st.NodeStats {
			if strings.HasPrefix(name, "http_out") {
				n, _ := strconv.ParseInt(fmt.Sprint(m["working_cardinality"]), 10, 64)
				return n
			}
		}
		return -1
	}
	// one lock for everything that is sent: the keep-alive re-sends a group's LAST point, never an older one
	var mu sync.Mutex
	last := map[string]edge.PointMessage{} // live groups only
	send := func(p edge.PointMessage) {
		_ = sc.CollectPoint(edge.NewPointMessage(p.Name(), "db", "rp", models.Dimensions{}, p.Fields().Copy(), p.Tags().Copy(), p.Time()))
	}
	victim := ""
	stop := make(chan struct{})
	var wg sync.WaitGroup
	wg.Add(1)
	go func() {
		defer wg.Done()
		tk := time.NewTicker(time.Duration(idleMs) * time.Millisecond / 8)
		defer tk.Stop()
		for {
			select {
			case <-stop:
				return
			case <-tk.C:
				mu.Lock()
				var hs []string
				for h := range last {
					if h != victim {
						hs = append(hs, h)
					}
				}
				sort.Strings(hs)
				for _, h := range hs {
					send(last[h])
				}
				mu.Unlock()
			}
		}
	}()
	// dead: the node registered its route and took it away again (it stopped); before the registration it is not dead
	everUp := false
	dead := func() bool {
		_, up := rr.served("/tasks/t/out")
		if up {
			everUp = true
		}
		return everUp && !up
	}
	poll := func(d time.Duration, ok func() bool) bool {
		end := time.Now().Add(d)
		for {
			if ok() {
				return true
			}
			if time.Now().After(end) {
				return false
			}
			time.Sleep(500 * time.Microsecond)
		}
	}
	vals := map[string]int64{}
	seq := int64(0)
	for _, op := range ops {
		switch op.kind {
		case "sp":
			seq++
			p := edge.NewPointMessage("m", "db", "rp", models.Dimensions{}, models.Fields{"v": op.v}, models.Tags{"host": op.host}, time.Unix(0, seq*1000000).UTC())
			mu.Lock()
			last[op.host] = p
			vals[op.host] = op.v
			send(p)
			mu.Unlock()
			obs = append(obs, "")
		case "sd":
			mu.Lock()
			_, live := last[op.host]
			n := int64(len(last))
			mu.Unlock()
			if !live {
				obs = append(obs, "absent")
				continue
			}
			if dead() {
				obs = append(obs, "dead") // the node stopped (its route is gone): nothing can be deleted any more
				continue
			}
			// every group fed so far has reached the node, then the victim alone goes idle
			poll(2*time.Second, func() bool { return cardinality() == n })
			mu.Lock()
			victim = op.host
			mu.Unlock()
			ok := poll(5*time.Second, func() bool {
				return dead() || cardinality() == n-1
			})
			mu.Lock()
			victim = ""
			delete(last, op.host)
			delete(vals, op.host)
			mu.Unlock()
			if ok {
				obs = append(obs, "deleted")
			} else {
				obs = append(obs, "timeout")
			}
		case "sr":
			// wait (bounded) until everything sent has been processed: the served rows are the live groups' last values
			mu.Lock()
			var want []string
			for h, v := range vals {
				want = append(want, kit.Esc(h)+"="+strconv.FormatInt(v, 10))
			}
			mu.Unlock()
			ws := sortedCopy(want)
			var got []string
			poll(time.Duration(4*idleMs)*time.Millisecond, func() bool {
				d := dead()
				got, _ = rr.served("/tasks/t/out")
				return d || sortedCopy(got) == ws
			})
			if len(got) == 0 {
				obs = append(obs, "-")
			} else {
				obs = append(obs, strings.Join(got, " "))
			}
		}
	}
	close(stop)
	wg.Wait()
	sc.Close()
	tm.Drain()
	if err := et.Wait(); err != nil {
		status = "err:task"
	}
	return obs, status
}

func execSlot(lines []string) []string {
	var out []string
	idle := 80
	var ops []slotOp
	var opLines []string
	var hosts []string
	seen := map[string]bool{}
	for _, l := range lines {
		t := strings.Fields(l)
		switch {
		case t[0] == "slot" && len(t) == 2:
			idle, _ = strconv.Atoi(t[1])
			if idle < 20 {
				idle = 20
			}
			out = append(out, l)
		case t[0] == "sp" && len(t) == 3:
			h, _ := kit.Unesc(t[1])
			v, _ := strconv.ParseInt(t[2], 10, 64)
			ops = append(ops, slotOp{"sp", h, v})
			opLines = append(opLines, l)
			if !seen[h] {
				seen[h] = true
				hosts = append(hosts, h)
			}
		case t[0] == "sd" && len(t) == 2:
			h, _ := kit.Unesc(t[1])
			ops = append(ops, slotOp{"sd", h, 0})
			opLines = append(opLines, l)
		case t[0] == "status":
			// derived, recomputed
		case t[0] == "sr" && len(t) == 1:
			ops = append(ops, slotOp{kind: "sr"})
			opLines = append(opLines, l)
		}
	}
	if len(out) == 0 {
		return []string{"bad"}
	}
	// the full run and one run per group, each on its own TaskMaster, side by side
	type res struct {
		obs    []string
		status string
	}
	full := make(chan res, 1)
	go func() {
		o, s := runSlot(idle, ops)
		full <- res{o, s}
	}()
	solo := make([]chan res, len(hosts))
	for i, h := range hosts {
		var sub []slotOp
		for _, op := range ops {
			if op.kind == "sr" || op.host == h {
				sub = append(sub, op)
			}
		}
		solo[i] = make(chan res, 1)
		go func(c chan res, sub []slotOp) {
			o, s := runSlot(idle, sub)
			c <- res{o, s}
		}(solo[i], sub)
	}
	fr := <-full
	for i, l := range opLines {
		switch {
		case i >= len(fr.obs) && fr.status != "ok":
			out = append(out, l+" => "+fr.status)
		case i < len(fr.obs) && fr.obs[i] != "":
			out = append(out, l+" => "+fr.obs[i])
		default:
			out = append(out, l)
		}
	}
	var ends []string
	if fr.status != "ok" {
		ends = append(ends, "full:"+fr.status)
	}
	for i, h := range hosts {
		sr := <-solo[i]
		o := sr.status
		if len(sr.obs) > 0 || sr.status == "ok" {
			var reads []string
			k := 0
			for _, op := range ops {
				if op.kind != "sr" && op.host != h {
					continue
				}
				if op.kind == "sr" && k < len(sr.obs) {
					reads = append(reads, strings.ReplaceAll(sr.obs[k], " ", ","))
				}
				k++
			}
			o = "-"
			if len(reads) > 0 {
				o = strings.Join(reads, " ")
			}
		}
		out = append(out, "solo "+kit.Esc(h)+" => "+o)
		if sr.status != "ok" {
			ends = append(ends, kit.Esc(h)+":"+sr.status)
		}
	}
	// how the tasks ended (a node that failed on a deletion stops its task): `ok` or the runs that did not end well
	if len(ends) == 0 {
		ends = []string{"ok"}
	}
	out = append(out, "status => "+strings.Join(ends, " "))
	return out
}

// genSlot: 3-5 groups created in a random order; then 1-3 rounds of {delete the group in a DIRECTED slot position
// (first / middle / newest of the live ones), more traffic of every survivor in a random order, read, sometimes the
// deleted group comes back (new slot at the end), read}. `which` rotates the position of the first deletion.
func genSlot(r *kit.Rand, which int) []string {
	ls := []string{"slot 80"}
	all := []string{"A", "B", "C", "D", "E"}
	n := 3 + r.Intn(3)
	hosts := append([]string(nil), all[:n]...)
	for i := len(hosts) - 1; i > 0; i-- {
		j := r.Intn(i + 1)
		hosts[i], hosts[j] = hosts[j], hosts[i]
	}
	v := int64(0)
	next := func() int64 { v += 1 + int64(r.Intn(3)); return v }
	live := []string{}
	for _, h := range hosts {
		ls = append(ls, fmt.Sprintf("sp %s %d", kit.Esc(h), next()))
		live = append(live, h)
	}
	if r.Chance(1, 2) {
		ls = append(ls, "sr")
	}
	rounds := 1 + r.Intn(3)
	for k := 0; k < rounds && len(live) >= 2; k++ {
		var pos int
		switch (which + k) % 3 {
		case 0:
			pos = 0
		case 1:
			pos = len(live) - 1
		default:
			pos = 1 + r.Intn(len(live)-1)
			if pos == len(live)-1 && len(live) >= 3 {
				pos = len(live) - 2
			}
		}
		vic := live[pos]
		ls = append(ls, "sd "+kit.Esc(vic))
		live = append(live[:pos:pos], live[pos+1:]...)
		if r.Chance(1, 4) {
			ls = append(ls, "sr") // straight after the splice
		}
		for pass := 0; pass < 1+r.Intn(2); pass++ {
			ord := append([]string(nil), live...)
			for i := len(ord) - 1; i > 0; i-- {
				j := r.Intn(i + 1)
				ord[i], ord[j] = ord[j], ord[i]
			}
			for _, h := range ord {
				ls = append(ls, fmt.Sprintf("sp %s %d", kit.Esc(h), next()))
			}
		}
		ls = append(ls, "sr")
		if r.Chance(1, 2) {
			ls = append(ls, fmt.Sprintf("sp %s %d", kit.Esc(vic), next()))
			live = append(live, vic)
			if r.Chance(1, 2) {
				ls = append(ls, fmt.Sprintf("sp %s %d", kit.Esc(live[0]), next()))
			}
			ls = append(ls, "sr")
		}
	}
	return ls
}
