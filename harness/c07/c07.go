// Package c07 is the harness for property C07 (runs the real kapacitor code, prints op lines).
package c07

import (
	"fmt"
	"os"
)

// Run is replaced by the property's harness.
func Run(args []string) int {
	fmt.Fprintln(os.Stderr, "c07: harness not implemented yet")
	return 3
}
