// Package c07 is the harness for property C07 (graceful stop): it runs REAL stream tasks on a real
// TaskMaster (alert service, HTTP post service, fake InfluxDB client, recording UDFs), realises one
// schedule class per case with gates inside the outputs, stops the task with a bounded wait and prints what
// every output had been handed when the stop returned, plus a census of the task's goroutines.
//
// op line:  run <chain> <stop> <class> <n> => <acc> <stopres> <census> <outs> <late> <nodeerr>
//
//	n       = number of points written: a number, or <k>c+<m> = k*defaultEdgeBufferSize + m
//	chain   = node kinds after the implicit `stream` source, comma separated:
//	          from | where | post | alert | influx:<B> | udf | fail:<K> | loop |
//	          hout (httpOut('h<idx>') as a pass-through node: its stop hook runs before it drained its input) |
//	          minflux:<B>.<K>.<F> (influxDBOut().buffer(B) WITHOUT .database()/.retentionPolicy() in a task with K DBRPs
//	          db0/rp … db<K-1>/rp: point i is written to database i mod K and keeps it, so the node's write buffer holds one
//	          batch per database; the fake client REJECTS every write to the databases of the bit mask F) |
//	          barrier:<ms> (idle, delete) | pbarrier:<ms> (period, delete) | barriernd:<ms> (idle, no delete)
//	stop    = task (TaskMaster.StopTask) | delete (DeleteTask) | close (TaskMaster.Close)
//	class   = drained (stop after everything was handed over) | gated (outputs blocked until the stop is
//	          under way) | immediate (stop right after the last write returned) | early (n=0, stop right
//	          after StartTask)
//	acc     = number of points whose WritePoints call had returned nil when the stop was requested
//	stopres = ok | err (stop returned an error) | hang (did not return within the bound)
//	census  = task goroutines still alive after the stop (settled), relative to before the task started
//	outs    = per output node  <idx>:<total>:<distinct>:<missing>:<calls>   (calls = sizes of InfluxDB writes;
//	          minflux: per database `<k><h|r>@<sizes>` joined by `/` (h = healthy, r = rejecting), and total / distinct /
//	          missing count the ids the client was HANDED in a Write call to the database they belong to, accepted or not)
//	late    = deliveries that arrived after the stop had returned
//	nodeerr = 1 when some node of the task finished with an error (ExecutingTask.Wait)
package c07

import (
	"bufio"
	"fmt"
	"io"
	"os"
	"os/exec"
	"path/filepath"
	"regexp"
	"strconv"
	"strings"
	"sync/atomic"
	"time"

	imodels "github.com/influxdata/influxdb/models"
	"github.com/influxdata/kapacitor"
	"github.com/influxdata/kapacitor/pipeline"

	"verifharness/kit"
)

// edgeCap is defaultEdgeBufferSize, read from edge.go of the checkout under test (VERIF_REPO); the generator
// uses it to place the numbers of points around the capacities and to keep the writer from blocking.
var edgeCap = readEdgeCap()

func readEdgeCap() int {
	repo := os.Getenv("VERIF_REPO")
	if repo == "" {
		repo = "/repo"
	}
	b, err := os.ReadFile(repo + "/edge.go")
	if err == nil {
		if m := regexp.MustCompile(`(?m)^\s*defaultEdgeBufferSize\s*=\s*(\d+)\s*$`).FindSubmatch(b); m != nil {
			if v, err := strconv.Atoi(string(m[1])); err == nil && v > 0 {
				return v
			}
		}
	}
	fmt.Fprintln(os.Stderr, "c07: cannot read defaultEdgeBufferSize from", repo+"/edge.go")
	os.Exit(2)
	return 0
}

var caseSeq int64

type nodeSpec struct {
	kind string
	arg  int
	keys int // minflux: number of databases
	rej  int // minflux: bit mask of the databases whose writes the client rejects
}

func parseChain(s string) ([]nodeSpec, error) {
	var out []nodeSpec
	for _, t := range strings.Split(s, ",") {
		p := strings.SplitN(t, ":", 2)
		ns := nodeSpec{kind: p[0]}
		if ns.kind == "minflux" {
			var b, k, f int
			if len(p) != 2 {
				return nil, fmt.Errorf("minflux needs <B>.<K>.<F>")
			}
			q := strings.Split(p[1], ".")
			if len(q) != 3 {
				return nil, fmt.Errorf("minflux needs <B>.<K>.<F>")
			}
			var e1, e2, e3 error
			b, e1 = strconv.Atoi(q[0])
			k, e2 = strconv.Atoi(q[1])
			f, e3 = strconv.Atoi(q[2])
			if e1 != nil || e2 != nil || e3 != nil || b < 0 || k < 1 || k > 16 || f < 0 || f >= 1<<uint(k) {
				return nil, fmt.Errorf("bad minflux %q", p[1])
			}
			out = append(out, nodeSpec{kind: "minflux", arg: b, keys: k, rej: f})
			continue
		}
		if len(p) == 2 {
			v, err := strconv.Atoi(p[1])
			if err != nil {
				return nil, err
			}
			ns.arg = v
		}
		switch ns.kind {
		case "from", "where", "post", "alert", "udf", "loop", "hout":
		case "union", "join":
			return nil, fmt.Errorf("%s is only allowed as the head of a `=` part", ns.kind)
		case "influx", "fail", "barrier", "pbarrier", "barriernd":
			if len(p) != 2 {
				return nil, fmt.Errorf("%s needs an argument", ns.kind)
			}
		default:
			return nil, fmt.Errorf("unknown node kind %q", ns.kind)
		}
		out = append(out, ns)
	}
	if len(out) == 0 || out[0].kind != "from" {
		return nil, fmt.Errorf("chain must start with from")
	}
	return out, nil
}

type outInfo struct {
	idx int
	t   *sinkTarget
}

type result struct {
	walk    string // fork / merge topologies: the declaration indexes of the nodes in the task's WALK order
	acc     int
	stopres string
	census  int
	outs    []string
	late    int
	nodeErr int // 1 = some node of the task finished with an error
}

func (r result) String() string {
	o := "-"
	if len(r.outs) > 0 {
		o = strings.Join(r.outs, ",")
	}
	if r.walk != "" {
		return fmt.Sprintf("%d %s %d %s %d %d %s", r.acc, r.stopres, r.census, o, r.late, r.nodeErr, r.walk)
	}
	return fmt.Sprintf("%d %s %d %s %d %d", r.acc, r.stopres, r.census, o, r.late, r.nodeErr)
}

func mkPoints(from, to int) []imodels.Point {
	pts := make([]imodels.Point, 0, to-from)
	base := time.Unix(4102444800, 0).UTC() // year 2100: a periodic barrier drops points older than the wall clock
	for i := from; i < to; i++ {
		p, err := imodels.NewPoint("m", imodels.NewTags(map[string]string{"h": "a"}), imodels.Fields{"i": int64(i)}, base.Add(time.Duration(i)*time.Second))
		if err != nil {
			panic(err)
		}
		pts = append(pts, p)
	}
	return pts
}

// parseTopology reads `prefix;branch;branch…` (a fork: every branch hangs below the last node of the prefix,
// declared in this order), optionally followed by `;=union,tail…` / `;=join,tail…` (all branches are merged again by a
// union / join node, several PARENTS, followed by the tail chain), or a plain chain. It returns all nodes in
// declaration order (= node index - 1), per node whether it is the first node of a branch, and the index (in `all`) of
// the merging node (-1: none).
func parseTopology(chainS string) (all []nodeSpec, branchStart []bool, fork bool, merge int, err error) {
	parts := strings.Split(chainS, ";")
	merge = -1
	for pi, part := range parts {
		var ns []nodeSpec
		if pi == 0 {
			ns, err = parseChain(part)
		} else if strings.HasPrefix(part, "=") {
			toks := strings.SplitN(part[1:], ",", 2)
			if pi != len(parts)-1 || pi < 3 || len(toks) != 2 {
				return nil, nil, false, -1, fmt.Errorf("bad merge part %q", part)
			}
			// head: union | join | ojoin:<lag> (OUTER join, .fill(0.0)) | lunion:<lag>; with a lag every branch but
			// the first ends in a filter that keeps the last <lag> points out, so that the merging node still
			// BUFFERS the sets / points of the leading parent when its input ends and has to flush them in Finish
			head := nodeSpec{kind: toks[0]}
			if hp := strings.SplitN(toks[0], ":", 2); len(hp) == 2 {
				v, aerr := strconv.Atoi(hp[1])
				if aerr != nil || v < 0 {
					return nil, nil, false, -1, fmt.Errorf("bad merge part %q", part)
				}
				head = nodeSpec{kind: hp[0], arg: v}
			}
			switch {
			case (head.kind == "union" || head.kind == "join") && !strings.Contains(toks[0], ":"):
			case (head.kind == "ojoin" || head.kind == "lunion") && strings.Contains(toks[0], ":"):
			default:
				return nil, nil, false, -1, fmt.Errorf("bad merge part %q", part)
			}
			ns, err = parseChain("from," + toks[1])
			if err == nil {
				ns = append([]nodeSpec{head}, ns[1:]...)
				merge = len(all)
			}
		} else {
			ns, err = parseChain("from," + part)
			if err == nil {
				ns = ns[1:]
			}
		}
		if err != nil || len(ns) == 0 {
			return nil, nil, false, -1, fmt.Errorf("bad topology %q: %v", chainS, err)
		}
		for j, x := range ns {
			all = append(all, x)
			branchStart = append(branchStart, pi > 0 && j == 0 && merge < 0)
		}
	}
	return all, branchStart, len(parts) > 1, merge, nil
}

func runCase(chainS, stopKind, class string, n int, stopBound time.Duration) (res result, err error) {
	chain, branchStart, isFork, merge, err := parseTopology(chainS)
	if err != nil {
		return res, err
	}
	if merge >= 0 {
		for j := range chain[:merge] {
			if chain[j].kind == "influx" || chain[j].kind == "minflux" {
				return res, fmt.Errorf("influxDBOut cannot feed a union/join")
			}
		}
	}
	// several databases: a `minflux` node makes the task subscribe to K DBRPs, point i is written to database i mod K
	ndb := 0
	for _, ns := range chain {
		if ns.kind == "minflux" {
			if ndb != 0 && ndb != ns.keys {
				return res, fmt.Errorf("all minflux nodes of a task must have the same number of databases")
			}
			ndb = ns.keys
		}
	}
	if ndb > 0 && merge >= 0 {
		return res, fmt.Errorf("minflux is not supported in union/join topologies")
	}
	key := fmt.Sprintf("c%d", atomic.AddInt64(&caseSeq, 1))
	hs := sink()
	defer hs.unregister("/" + key + "/")
	// gatedslow = gated with a writer that pauses between its chunks (the periodic / idle timers of a barrier node fire
	// while the pipeline is still filling up, so their control messages end up inside the blocked edges)
	slowWriter := class == "gatedslow"
	if slowWriter {
		class = "gated"
	}
	gateOpen := class != "gated"
	g := newGate(gateOpen)
	fi := &fakeInflux{clients: map[string]*sinkTarget{}}
	var outs []outInfo
	var sb strings.Builder
	if isFork {
		sb.WriteString("var p = stream\n")
	} else {
		sb.WriteString("stream\n")
	}
	nbranch := 0
	idField := "i" // below a join node the fields are prefixed with the parent's name
	for j, ns := range chain {
		idx := j + 1
		if merge >= 0 && (branchStart[j] || j == merge) && nbranch >= 2 && chain[merge].arg > 0 {
			// the branch that just ended is not the first one and the merging node has a lag: filter its last points out
			fmt.Fprintf(&sb, "  |where(lambda: \"i\" < %d)\n", n-chain[merge].arg)
		}
		if branchStart[j] {
			nbranch++
			if merge >= 0 {
				fmt.Fprintf(&sb, "var b%d = p\n", nbranch)
			} else {
				sb.WriteString("p\n")
			}
		}
		switch ns.kind {
		case "union", "join", "ojoin", "lunion":
			// several PARENTS: the branches b1 … bk are merged again (edge.multiConsumer)
			var others, names []string
			for b := 2; b <= nbranch; b++ {
				others = append(others, fmt.Sprintf("b%d", b))
			}
			for b := 1; b <= nbranch; b++ {
				names = append(names, fmt.Sprintf("'%c'", 'a'+b-1))
			}
			if ns.kind == "union" || ns.kind == "lunion" {
				fmt.Fprintf(&sb, "b1\n  |union(%s)\n", strings.Join(others, ", "))
			} else if ns.kind == "ojoin" {
				// OUTER join: a set some parent has no point for is emitted with that parent's fields filled
				fmt.Fprintf(&sb, "b1\n  |join(%s).as(%s).fill(0.0)\n", strings.Join(others, ", "), strings.Join(names, ", "))
				idField = "a.i"
			} else {
				fmt.Fprintf(&sb, "b1\n  |join(%s).as(%s)\n", strings.Join(others, ", "), strings.Join(names, ", "))
				idField = "a.i"
			}
		case "from":
			sb.WriteString("  |from().measurement('m')\n")
		case "where":
			sb.WriteString("  |where(lambda: TRUE)\n")
		case "hout":
			// httpOut in MID-pipeline: a pass-through node WITH a stop hook (stopOut -> DelRoutes), which
			// ExecutingTask.stop runs BEFORE the node has drained its closed input edge
			fmt.Fprintf(&sb, "  |httpOut('h%d')\n", idx)
		case "post":
			t := &sinkTarget{rec: newOutRec(), gate: g}
			path := fmt.Sprintf("/%s/%d/p", key, idx)
			hs.register(path, t)
			outs = append(outs, outInfo{idx, t})
			fmt.Fprintf(&sb, "  |httpPost('http://%s%s')\n", hs.addr, path)
		case "alert":
			t := &sinkTarget{rec: newOutRec(), gate: g}
			path := fmt.Sprintf("/%s/%d/a", key, idx)
			hs.register(path, t)
			outs = append(outs, outInfo{idx, t})
			fmt.Fprintf(&sb, "  |alert().message('{{ index .Fields \"%s\" }}').details('').crit(lambda: TRUE).post('http://%s%s')\n", idField, hs.addr, path)
		case "influx":
			t := &sinkTarget{rec: newOutRec(), gate: g}
			fi.clients[fmt.Sprintf("w%d", idx)] = t
			outs = append(outs, outInfo{idx, t})
			fmt.Fprintf(&sb, "  |influxDBOut().database('o').retentionPolicy('r').measurement('w%d').buffer(%d).flushInterval(1h)\n", idx, ns.arg)
		case "minflux":
			t := &sinkTarget{rec: newOutRec(), gate: g, keys: ns.keys, rej: ns.rej}
			fi.clients[fmt.Sprintf("w%d", idx)] = t
			outs = append(outs, outInfo{idx, t})
			fmt.Fprintf(&sb, "  |influxDBOut().measurement('w%d').buffer(%d).flushInterval(1h)\n", idx, ns.arg)
		case "udf":
			sb.WriteString("  @sink()\n")
		case "fail":
			fmt.Fprintf(&sb, "  @failer().k(%d)\n", ns.arg)
		case "loop":
			sb.WriteString("  |kapacitorLoopback().database('lo').retentionPolicy('lr')\n")
		case "barrier":
			fmt.Fprintf(&sb, "  |barrier().idle(%dms).delete(TRUE)\n", ns.arg)
		case "pbarrier":
			fmt.Fprintf(&sb, "  |barrier().period(%dms).delete(TRUE)\n", ns.arg)
		case "barriernd":
			fmt.Fprintf(&sb, "  |barrier().idle(%dms)\n", ns.arg)
		}
	}

	tim := func(string) {}
	if os.Getenv("VERIF_TIMING") != "" {
		t0 := time.Now()
		tim = func(what string) { fmt.Fprintf(os.Stderr, "   %s +%v\n", what, time.Since(t0).Round(time.Millisecond)) }
		defer tim("cleanup")
	}
	before := census()
	t, err := kit.NewTM(kit.TMOpts{})
	if err != nil {
		return res, err
	}
	t.TM.UDFService = &udfService{}
	t.TM.InfluxDBService = fi
	hung := false
	defer func() {
		g.Open()
		if !hung {
			t.Close()
		}
	}()
	taskID := "t" + key
	dbrps := []kapacitor.DBRP{{Database: "db", RetentionPolicy: "rp"}}
	if ndb > 0 {
		dbrps = nil
		for k := 0; k < ndb; k++ {
			dbrps = append(dbrps, kapacitor.DBRP{Database: fmt.Sprintf("db%d", k), RetentionPolicy: "rp"})
		}
	}
	et, err := t.StartStream(taskID, sb.String(), dbrps)
	if err != nil {
		return res, fmt.Errorf("start: %v\n%s", err, sb.String())
	}

	if isFork {
		// the order in which ExecutingTask.link / start / stop walk the nodes, and in which a parent's `outs` are linked
		var ids []string
		_ = et.Task.Pipeline.Walk(func(n pipeline.Node) error {
			ids = append(ids, strconv.Itoa(int(n.ID())))
			return nil
		})
		res.walk = "w:" + strings.Join(ids, ".")
	}

	// ---- write the points: a point is ACCEPTED once its WritePoints call has returned nil
	var accepted int64
	writerDone := make(chan struct{})
	go func() {
		defer close(writerDone)
		chunk, db := 50, "db"
		if ndb > 0 {
			chunk = 1 // consecutive points go to different databases
		}
		for i := 0; i < n; i += chunk {
			j := i + chunk
			if j > n {
				j = n
			}
			if ndb > 0 {
				db = fmt.Sprintf("db%d", i%ndb)
			}
			if err := t.TM.WritePoints(db, "rp", imodels.ConsistencyLevelAll, mkPoints(i, j)); err != nil {
				return
			}
			atomic.AddInt64(&accepted, int64(j-i))
			if slowWriter {
				time.Sleep(time.Millisecond)
			}
		}
	}()
	select {
	case <-writerDone:
	case <-time.After(20 * time.Second):
		// the class asked for more points than the pipeline can hold while gated: not a valid case
		g.Open()
		<-writerDone
		return res, fmt.Errorf("writer blocked (n=%d exceeds the gated capacity)", n)
	}
	res.acc = int(atomic.LoadInt64(&accepted))
	tim("written")

	progress := func() int64 {
		var s int64
		for _, o := range outs {
			tot, _, ent := o.t.rec.snapshot()
			s += int64(tot + ent)
		}
		return s
	}
	stats := func() int64 {
		es, err := t.TM.ExecutionStats(taskID)
		if err != nil {
			return -1
		}
		var s int64
		for _, ns := range es.NodeStats {
			if v, ok := ns["collected"].(int64); ok {
				s += v
			}
			if v, ok := ns["emitted"].(int64); ok {
				s += v
			}
		}
		return s + progress()
	}
	// edgesEmpty: every accepted point has entered the source edge and every edge of the chain has emitted
	// what it collected (edge statistics of the real task); only meaningful while no node has failed.
	edgesEmpty := func() bool {
		es, err := t.TM.ExecutionStats(taskID)
		if err != nil {
			return false
		}
		type ce struct{ c, e int64 }
		byIdx := map[int]ce{}
		for name, ns := range es.NodeStats {
			i := len(name)
			for i > 0 && name[i-1] >= '0' && name[i-1] <= '9' {
				i--
			}
			idx, err := strconv.Atoi(name[i:])
			if err != nil {
				return false
			}
			c, _ := ns["collected"].(int64)
			e, _ := ns["emitted"].(int64)
			byIdx[idx] = ce{c, e}
		}
		if byIdx[0].c != int64(res.acc) {
			return false
		}
		for i := 0; i+1 < len(byIdx); i++ {
			if byIdx[i].e != byIdx[i+1].c {
				return false
			}
		}
		return true
	}
	waitClass := class
	if class == "gated" {
		// without an output that blocks the pipeline the gated state is the drained state
		blocking := false
		for _, ns := range chain {
			if ns.kind == "post" || ns.kind == "influx" || ns.kind == "minflux" {
				blocking = true
			}
		}
		if !blocking {
			waitClass = "drained"
		}
	}
	switch waitClass {
	case "drained":
		// stop only after everything was handed over: edges empty and no more progress; a chain with a failed
		// node never gets empty edges, there a long quiet period decides
		quiet, last := 0, int64(-1)
		for start := time.Now(); time.Since(start) < 15*time.Second; {
			v := stats()
			if v == last {
				quiet++
			} else {
				quiet, last = 0, v
			}
			if (quiet >= 3 && !isFork && edgesEmpty()) || quiet >= 60 {
				break
			}
			time.Sleep(4 * time.Millisecond)
		}
	case "gated":
		settle(stats, 5*time.Millisecond, 10, 10*time.Second)
	}

	tim("settled")
	// ---- the stop, with a bounded wait
	stopDone := make(chan error, 1)
	go func() {
		switch stopKind {
		case "task":
			stopDone <- t.TM.StopTask(taskID)
		case "delete":
			stopDone <- t.TM.DeleteTask(taskID)
		default:
			stopDone <- t.TM.Close()
		}
	}()
	if class == "gated" {
		// let the stop go as far as it can against the blocked outputs, then release them
		settle(progress, 5*time.Millisecond, 4, 2*time.Second)
		g.Open()
	}
	var atStop int
	select {
	case e := <-stopDone:
		if e != nil {
			res.stopres = "err"
		} else {
			res.stopres = "ok"
		}
	case <-time.After(stopBound):
		res.stopres = "hang"
		hung = true
	}
	tim("stopped")
	if !hung && et.Wait() != nil {
		res.nodeErr = 1
	}
	for _, o := range outs {
		tot, dist, _ := o.t.rec.snapshot()
		atStop += tot
		calls := "-"
		if chain[o.idx-1].kind == "minflux" {
			calls = o.t.rec.keyedCalls(o.t.keys, o.t.rej)
		} else if chain[o.idx-1].kind == "influx" {
			o.t.rec.mu.Lock()
			var cs []string
			cl := o.t.rec.calls
			for i := 0; i < len(cl); {
				j := i
				for j < len(cl) && cl[j] == cl[i] {
					j++
				}
				cs = append(cs, fmt.Sprintf("%dx%d", cl[i], j-i))
				i = j
			}
			o.t.rec.mu.Unlock()
			if len(cs) > 0 {
				calls = strings.Join(cs, ".")
			}
		}
		res.outs = append(res.outs, fmt.Sprintf("%d:%d:%d:%d:%s", o.idx, tot, dist, o.t.rec.missingBelow(res.acc), calls))
	}
	// ---- census (settled) and late deliveries
	c := settle(func() int64 { return int64(census() - before) }, 5*time.Millisecond, 3, 1500*time.Millisecond)
	if c < 0 {
		c = 0
	}
	res.census = int(c)
	tim("census")
	final := 0
	for _, o := range outs {
		tot, _, _ := o.t.rec.snapshot()
		final += tot
	}
	res.late = final - atStop
	return res, nil
}

// ---------------------------------------------------------------------------------------------

func opLine(chain, stop, class string, n int) string {
	return fmt.Sprintf("run %s %s %s %d", chain, stop, class, n)
}

// parseN reads the number of points: a plain number, or `<k>c+<m>` = k edge buffers + m (corpus witnesses that
// must keep their meaning when defaultEdgeBufferSize changes).
func parseN(t string) (int, bool) {
	if i := strings.Index(t, "c+"); i > 0 {
		k, err1 := strconv.Atoi(t[:i])
		m, err2 := strconv.Atoi(t[i+2:])
		return k*edgeCap + m, err1 == nil && err2 == nil
	}
	v, err := strconv.Atoi(t)
	return v, err == nil
}

func execLine(line string, bound time.Duration) string {
	if i := strings.Index(line, " => "); i >= 0 {
		line = line[:i]
	}
	f := strings.Fields(line)
	if len(f) != 5 || f[0] != "run" {
		return line + " => badline"
	}
	n, ok := parseN(f[4])
	if !ok {
		return line + " => badline"
	}
	var out string
	func() {
		defer func() {
			if r := recover(); r != nil {
				out = line + " => panic"
			}
		}()
		res, err := runCase(f[1], f[2], f[3], n, bound)
		if err != nil {
			fmt.Fprintln(os.Stderr, "c07:", line, ":", err)
			out = line + " => invalid"
			return
		}
		out = line + " => " + res.String()
	}()
	return out
}

// child mode: read op lines on stdin, execute each, answer with one line.
func runChild(bound time.Duration) int {
	sc := bufio.NewScanner(os.Stdin)
	sc.Buffer(make([]byte, 1<<20), 1<<20)
	w := bufio.NewWriter(os.Stdout)
	for sc.Scan() {
		l := strings.TrimSpace(sc.Text())
		if l == "" {
			continue
		}
		t0 := time.Now()
		w.WriteString(execLine(l, bound))
		w.WriteByte('\n')
		w.Flush()
		if os.Getenv("VERIF_TIMING") != "" {
			fmt.Fprintf(os.Stderr, "c07 timing %v %s\n", time.Since(t0).Round(time.Millisecond), l)
		}
	}
	return 0
}

// worker is a child process running the real code; a case that hangs the real code (or the child) costs
// one child, not the check: the dispatcher kills it and starts another.
type worker struct {
	cmd *exec.Cmd
	in  io.WriteCloser
	out *bufio.Reader
}

func startWorker(tier string) (*worker, error) { return startWorkerExe("", tier, nil) }

// startWorkerExe starts a worker from another binary (the race-detector build), its stderr appended to errTo.
func startWorkerExe(exe, tier string, errTo *os.File) (*worker, error) {
	if exe == "" {
		e, err := os.Executable()
		if err != nil {
			return nil, err
		}
		exe = e
	}
	cmd := exec.Command(exe, "-child", "1", "-tier", tier)
	cmd.Stderr = os.Stderr
	if errTo != nil {
		cmd.Stderr = errTo
		cmd.Env = append(os.Environ(), "GORACE=exitcode=0")
	}
	in, err := cmd.StdinPipe()
	if err != nil {
		return nil, err
	}
	o, err := cmd.StdoutPipe()
	if err != nil {
		return nil, err
	}
	if err := cmd.Start(); err != nil {
		return nil, err
	}
	return &worker{cmd: cmd, in: in, out: bufio.NewReaderSize(o, 1<<20)}, nil
}
func (w *worker) kill() {
	w.in.Close()
	w.cmd.Process.Kill()
	w.cmd.Wait()
}

type dispatcher struct {
	w     *worker
	tier  string
	bound time.Duration
	exe   string   // "" = this binary
	errTo *os.File // stderr of the workers (race runs)
}

func (d *dispatcher) exec(line string) string {
	if i := strings.Index(line, " => "); i >= 0 {
		line = line[:i]
	}
	for attempt := 0; attempt < 2; attempt++ {
		if d.w == nil {
			w, err := startWorkerExe(d.exe, d.tier, d.errTo)
			if err != nil {
				fmt.Fprintln(os.Stderr, "c07: cannot start worker:", err)
				return line + " => invalid"
			}
			d.w = w
		}
		if _, err := io.WriteString(d.w.in, line+"\n"); err != nil {
			d.w.kill()
			d.w = nil
			continue
		}
		type rd struct {
			s   string
			err error
		}
		ch := make(chan rd, 1)
		go func(w *worker) {
			s, err := w.out.ReadString('\n')
			ch <- rd{s, err}
		}(d.w)
		select {
		case r := <-ch:
			if r.err != nil {
				// the real code killed the process (e.g. an unrecovered panic in a node goroutine)
				d.w.kill()
				d.w = nil
				return line + " => panic"
			}
			res := strings.TrimRight(r.s, "\n")
			if strings.Contains(res, " hang ") {
				d.w.kill()
				d.w = nil
			}
			return res
		case <-time.After(d.bound + 40*time.Second):
			d.w.kill()
			d.w = nil
			return line + " => stuck"
		}
	}
	return line + " => invalid"
}
func (d *dispatcher) close() {
	if d.w != nil {
		d.w.in.Close()
		d.w.cmd.Wait()
	}
}

func Run(args []string) int {
	fl := kit.ParseFlags(args)
	out := kit.NewOut()
	defer out.Flush()
	bound := 6 * time.Second
	if fl.Tier == "thorough" {
		bound = 12 * time.Second
	}
	if fl.Extra["child"] != "" {
		return runChild(bound)
	}
	d := &dispatcher{tier: fl.Tier, bound: bound}
	defer d.close()
	if fl.Ops != "" {
		lines, err := kit.ReadLines(fl.Ops)
		if err != nil {
			fmt.Fprintln(os.Stderr, err)
			return 2
		}
		for _, l := range lines {
			t := strings.Fields(l)
			if len(t) == 0 {
				continue
			}
			if t[0] == "case" || t[0] == "end" || t[0] == "race" {
				out.Line(l)
				out.Flush()
				continue
			}
			out.Line(d.exec(l))
			out.Flush()
		}
		return 0
	}
	r := kit.NewRand(fl.Seed)
	for i := 0; i < fl.N; i++ {
		chain, stop, class, n := genCase(r, i, fl.Tier)
		out.Linef("case g%d", i)
		out.Line(d.exec(opLine(chain, stop, class, n)))
		out.Line("end")
		out.Flush()
	}
	if fl.Tier == "thorough" {
		raceCases(out, r.Fork(), bound)
	}
	return 0
}

// raceCases (thorough tier): rebuild this harness with the Go race detector and repeat real-task cases under
// it (one of the parallel seed jobs of a check run does it: lock file in the run's scratch dir). The cases are
// judged like all others; a final case reports how many data races the detector printed.
func raceCases(out *kit.Out, r *kit.Rand, bound time.Duration) {
	scratch := os.Getenv("VERIF_SCRATCH")
	if scratch == "" {
		return
	}
	lock, err := os.OpenFile(filepath.Join(scratch, "c07-race.lock"), os.O_CREATE|os.O_EXCL|os.O_WRONLY, 0o644)
	if err != nil {
		return // another seed job of this run does it
	}
	lock.Close()
	report := func(obs string) {
		out.Line("case race")
		out.Line("race => " + obs)
		out.Line("end")
		out.Flush()
	}
	exe, err := os.Executable()
	if err != nil {
		report("err:exe")
		return
	}
	bin := filepath.Join(scratch, "vh-c07-race")
	build := exec.Command("go", "build", "-race", "-tags", "verif", "-o", bin, "./cmd/c07")
	build.Dir = filepath.Join(filepath.Dir(exe), "..", "harness")
	if _, err := os.Stat(build.Dir); err != nil {
		build.Dir = "/verif/harness"
	}
	build.Env = append(os.Environ(), "GOFLAGS=-mod=mod", "GOPROXY=off", "CGO_ENABLED=1")
	if msg, err := build.CombinedOutput(); err != nil {
		fmt.Fprintln(os.Stderr, "c07: race build failed:", err, string(msg))
		report("err:build")
		return
	}
	defer os.Remove(bin)
	errPath := filepath.Join(scratch, "c07-race.stderr")
	errTo, err := os.Create(errPath)
	if err != nil {
		report("err:stderr")
		return
	}
	d := &dispatcher{tier: "thorough", bound: 4 * bound, exe: bin, errTo: errTo}
	k := 0
	for i := 0; k < 24 && i < 400; i++ {
		chain, stop, class, n := genCase(r, i, "quick")
		// the known deadlock costs a worker and adds nothing under the race detector
		if strings.Contains(chain, "loop") {
			continue
		}
		if n > 1500 {
			n = 1000 + n%500
			if class == "gated" {
				continue
			}
		}
		out.Linef("case rc%d", k)
		out.Line(d.exec(opLine(chain, stop, class, n)))
		out.Line("end")
		out.Flush()
		k++
	}
	d.close()
	errTo.Close()
	b, _ := os.ReadFile(errPath)
	races := strings.Count(string(b), "WARNING: DATA RACE")
	if races > 0 {
		fmt.Fprintln(os.Stderr, string(b))
	}
	report(fmt.Sprintf("%d %d", k, races))
}
