package c07

import (
	"fmt"
	"strings"

	"verifharness/kit"
)

// genCase picks the i-th generated case. The generator is branch-directed: it cycles through the schedule
// classes and stop kinds, puts every node kind at the end and in the middle of chains, and places the number
// of points around the capacities the model distinguishes (influx buffer size B, one edge buffer, the whole
// chain downstream of the TaskMaster's ingest edge).
func genCase(r *kit.Rand, i int, tier string) (chain, stop, class string, n int) {
	if r.Chance(1, 5) {
		return genFork(r)
	}
	if r.Chance(1, 10) {
		return genBarrierAboveFailing(r)
	}
	if r.Chance(1, 8) {
		return genStopHookMid(r)
	}
	if r.Chance(1, 7) {
		return genMultiKey(r)
	}
	thorough := tier == "thorough"
	stop = []string{"task", "close", "delete", "task"}[r.Intn(4)]
	// ---- chain
	bms := kit.Pick(r, []int{20, 40})
	mids := []string{"where", "post", "udf", "where", "post", "hout", fmt.Sprintf("barrier:%d", bms), fmt.Sprintf("pbarrier:%d", bms), fmt.Sprintf("barriernd:%d", bms)}
	var nodes []string
	nodes = append(nodes, "from")
	nmid := r.Intn(3)
	if !thorough && nmid == 2 && r.Chance(1, 2) {
		nmid = 1
	}
	for k := 0; k < nmid; k++ {
		nodes = append(nodes, kit.Pick(r, mids))
	}
	b := kit.Pick(r, []int{1, 2, 7, 10, 50, 1000})
	term := kit.Pick(r, []string{"post", "post", "influx", "influx", "influx", "alert", "alert", "udfpost", "fail", "fail", "where", "loop"})
	hasAlert := false
	switch term {
	case "influx":
		nodes = append(nodes, fmt.Sprintf("influx:%d", b))
	case "alert":
		nodes = append(nodes, "alert")
		hasAlert = true
		if r.Chance(1, 3) {
			nodes = append(nodes, "post")
		}
	case "udfpost":
		nodes = append(nodes, "udf", "post")
	case "loop":
		nodes = append(nodes, "loop")
	case "fail":
		// a node failing in the middle: outputs on both sides of it (sometimes an alert node upstream,
		// whose error path must still close its topic)
		if r.Chance(1, 3) {
			nodes = append(nodes, "alert")
			hasAlert = true
		}
		nodes = append(nodes, fmt.Sprintf("fail:%d", kit.Pick(r, []int{0, 1, 5, 40})))
		nodes = append(nodes, kit.Pick(r, []string{"post", "influx:5", "where"}))
	default:
		nodes = append(nodes, term)
	}
	chain = strings.Join(nodes, ",")
	hasFail := term == "fail"
	if hasFail {
		// the failing UDF counts every message, barrier messages included: keep barriers out of these chains
		for j, k := range nodes {
			if strings.Contains(k, "barrier") {
				nodes[j] = "where"
			}
		}
		chain = strings.Join(nodes, ",")
	}
	depth := len(nodes) + 1 // nodes incl. the stream source
	// ---- class and number of points
	switch c := r.Intn(10); {
	case c < 3:
		class = "drained"
	case c < 8:
		class = "gated"
	case c < 9:
		class = "immediate"
	default:
		class = "early"
	}
	if hasFail && (class == "gated" || class == "immediate") {
		// the failing node is a UDF node: a stop against its backlog aborts it before it can fail
		class = "drained"
	}
	if hasAlert && class == "immediate" && r.Chance(1, 2) {
		class = "early"
	}
	hasLoop := term == "loop"
	// what fits between the ingest edge and the first output that blocks while the gate is closed
	block := 0
	for j, k := range nodes {
		if k == "post" || strings.HasPrefix(k, "influx") {
			block = j + 1
			if k != "post" {
				block = -(j + 1)
			}
			break
		}
	}
	downstream := depth*(edgeCap+1) + 1
	if block > 0 {
		downstream = (block+1)*(edgeCap+1) + 1
	} else if block < 0 {
		downstream = (-block+1)*(edgeCap+1) + b
	}
	switch class {
	case "early":
		n = 0
	case "drained":
		n = kit.Pick(r, []int{1, b - 1, b, b + 1, 3*b + 1, 40, 333})
	case "immediate":
		n = kit.Pick(r, []int{50, 1500, 3000})
	case "gated":
		switch r.Intn(8) {
		case 0:
			n = kit.Pick(r, []int{1, 2, b - 1, b, b + 1, 2*b + 1})
		case 1:
			n = edgeCap + r.Range(-2, 3)
		case 2:
			n = edgeCap + b + r.Range(0, 3)
		case 3:
			n = downstream + r.Range(-2, 2)
		case 4:
			n = downstream + r.Range(100, 700)
		default:
			n = r.Range(3, 2*edgeCap)
		}
	}
	if n < 0 {
		n = 0
	}
	if class != "early" && n == 0 {
		n = 1
	}
	// keep the writer from blocking while the outputs are gated (the ingest edge holds another edgeCap)
	if class == "gated" && n > downstream+edgeCap-100 {
		n = downstream + edgeCap - 100
	}
	if hasLoop && class == "gated" {
		// the loopback node writes its backlog into write_points while StopTask holds tm.mu: it deadlocks
		// (known finding) once backlog > free slots; the witness is in the corpus, generated cases stay
		// below it except for a few in the thorough tier
		if !(thorough && r.Chance(1, 6)) && n > edgeCap/2 {
			n = 1 + n%(edgeCap/2)
		}
	}
	if hasLoop && class == "immediate" {
		n = 50
	}
	if hasAlert && n > 400 {
		// every alert event is persisted and POSTed: keep these cases small
		n = 50 + n%350
	}
	if !thorough && n > 2600 && class == "gated" && !r.Chance(1, 3) {
		n = 2600 - r.Intn(500)
	}
	return
}

// genBarrierAboveFailing: a barrier node with delete(TRUE) (idle or periodic, 1 ms: its emitter goroutine collects
// DeleteGroup messages into the node's OWN input edge) above a gated httpPost above a failing node, against a backlog that
// fills every edge: when the outputs are released the POSTs drain the pipeline slowly, the node below fails, httpPost fails,
// and the barrier node fails while its input edge is full and its emitter is (often) blocked on it. The deferred
// stopBarrierEmitter must not wait for that emitter for ever (defect repaired in /repo: about every second such case hung).
// Sometimes the idle form without delete, and sometimes inside a fork next to a healthy branch.
func genBarrierAboveFailing(r *kit.Rand) (chain, stop, class string, n int) {
	b := kit.Pick(r, []string{"barrier:1", "barrier:1", "pbarrier:1", "pbarrier:1", "barriernd:1", "barrier:20"})
	k := kit.Pick(r, []int{0, 0, 5, 40})
	chain = fmt.Sprintf("from,%s,post,fail:%d,where", b, k)
	if r.Chance(1, 4) {
		chain = fmt.Sprintf("from;%s,post,fail:%d,where;post", b, k)
	}
	stop = kit.Pick(r, []string{"task", "task", "close", "delete"})
	class = "gated"
	n = 4*edgeCap + r.Range(0, 50)
	if strings.Contains(chain, ";") {
		// forks are stopped by Close only under a gate (the ingest finding is not predicted per branch)
		stop = "close"
		n = 3*edgeCap + r.Range(0, 50)
	}
	return
}

// genFork: a fork below `from[,where]` with 2-3 branches declared in a random order: healthy branches with outputs
// of different speed (httpPost, alert handler queue, influxDBOut buffer) and, in two cases out of three, one
// branch that fails at run time (first / middle / last declared; on its first message, early, or inside the
// backlog). The parent's exit path must close EVERY child edge although Close fails on the aborted edge of the
// failed child. Stops come with the pipeline drained, against blocked outputs (Close) or at once (Close).
func genFork(r *kit.Rand) (chain, stop, class string, n int) {
	if r.Chance(1, 4) {
		return genMerge(r)
	}
	healthy := []string{"post", "where,post", "alert", "influx:7", "post,where", "where,influx:50", "minflux:7.3.2"}
	nb := r.Range(2, 3)
	var br []string
	for k := 0; k < nb; k++ {
		br = append(br, kit.Pick(r, healthy))
	}
	hasFail := r.Chance(2, 3)
	if hasFail {
		br[r.Intn(nb)] = fmt.Sprintf("fail:%d,%s", kit.Pick(r, []int{0, 3, 40}), kit.Pick(r, []string{"post", "where"}))
	}
	prefix := kit.Pick(r, []string{"from", "from,where"})
	chain = prefix + ";" + strings.Join(br, ";")
	switch r.Intn(4) {
	case 0:
		class, stop, n = "drained", kit.Pick(r, []string{"task", "delete", "close"}), kit.Pick(r, []int{1, 50, 300})
	case 1:
		class, stop, n = "immediate", "close", kit.Pick(r, []int{50, 1200})
		if hasFail {
			// the failing node is a UDF node: a stop against its backlog aborts it before it fails (known finding)
			class, n = "drained", 50
		}
	case 2:
		class, stop, n = "early", kit.Pick(r, []string{"task", "close"}), 0
	default:
		class, stop, n = "gated", "close", kit.Pick(r, []int{30, 300})
		if hasFail {
			class = "drained"
		}
	}
	if strings.Contains(chain, "alert") && n > 300 {
		n = 300
	}
	return
}

// genMerge: 2-3 branches below `from[,where]` that are merged again by a union or a join node - inner, or OUTER with the
// other parents lagging behind (`ojoin:<lag>`, `lunion:<lag>`: buffering nodes that flush in Finish) - (several PARENTS:
// edge.multiConsumer with one reader goroutine per parent edge), followed by an output. Judged by the spec oracle
// only: the stop completes, no goroutine is left, and the outputs below the merging node were handed every accepted
// point (union: once per parent; join of the branches of one stream: once).
func genMerge(r *kit.Rand) (chain, stop, class string, n int) {
	branches := []string{"where", "post", "where,post", "where,where"}
	nb := r.Range(2, 3)
	var br []string
	for k := 0; k < nb; k++ {
		br = append(br, kit.Pick(r, branches))
	}
	kind := kit.Pick(r, []string{"union", "union", "join", "ojoin", "ojoin", "lunion"})
	if kind == "join" || (kind == "ojoin" && r.Chance(3, 4)) {
		nb = 2
		br = br[:2]
	}
	// BUFFERING merges: an outer join (.fill) / a union whose other parents lag <lag> points behind the first one when
	// the input ends: the node has to flush the sets / points it still buffers (Finish) before it closes its child edge
	lag := 0
	if kind == "ojoin" || kind == "lunion" {
		lag = kit.Pick(r, []int{1, 2, 3, 7})
		kind = fmt.Sprintf("%s:%d", kind, lag)
	}
	tail := kit.Pick(r, []string{"post", "where,post", "alert", "influx:7"})
	prefix := kit.Pick(r, []string{"from", "from,where"})
	chain = prefix + ";" + strings.Join(br, ";") + ";=" + kind + "," + tail
	switch r.Intn(4) {
	case 0:
		class, stop, n = "drained", kit.Pick(r, []string{"task", "delete", "close"}), kit.Pick(r, []int{1, 50, 300})
	case 1:
		class, stop, n = "immediate", "close", kit.Pick(r, []int{50, 1200})
	case 2:
		class, stop, n = "early", kit.Pick(r, []string{"task", "close"}), 0
	default:
		class, stop, n = "gated", "close", kit.Pick(r, []int{30, 300})
	}
	if strings.Contains(chain, "alert") && n > 300 {
		n = 300
	}
	if lag > 0 && class != "early" && n <= lag {
		n = lag + 5
	}
	return
}

// genMultiKey: an influxDBOut node WITHOUT .database()/.retentionPolicy() in a task with K DBRPs (`minflux:<B>.<K>.<F>`):
// the points keep the database they came from, so the node's write buffer holds one batch per database, and the final
// flush at the stop (stopBuffer -> writeAll) has several batches to write, in the random iteration order of a Go map.
// In two cases out of three the fake client REJECTS the writes to some databases (bit mask F: one database, several, or
// all but one): the healthy databases must still have been handed every accepted point when the stop has returned.
// The buffer size B is placed so that at the stop most databases still hold a partial batch (B > n/K), that some batches
// were written at the threshold before (B < n/K, rejected ones included), or both. Schedule classes whose outcome the
// model predicts exactly: drained (any stop), early, and gated / immediate under Close (which drains the ingest edge).
func genMultiKey(r *kit.Rand) (chain, stop, class string, n int) {
	k := kit.Pick(r, []int{2, 3, 4, 5, 8, 8})
	mask := 0
	switch r.Intn(6) {
	case 0, 1:
		// every database healthy
	case 2, 3:
		mask = 1 << uint(r.Intn(k))
	case 4:
		mask = (1 << uint(r.Intn(k))) | (1 << uint(r.Intn(k)))
	default:
		mask = (1<<uint(k) - 1) &^ (1 << uint(r.Intn(k))) // all but one
	}
	switch c := r.Intn(8); {
	case c < 4:
		class, stop = "drained", kit.Pick(r, []string{"task", "delete", "close"})
	case c < 6:
		class, stop = "gated", "close"
	case c < 7:
		class, stop = "immediate", "close"
	default:
		class, stop = "early", kit.Pick(r, []string{"task", "close"})
	}
	per := kit.Pick(r, []int{1, 3, 7, 40}) // points per database, about
	n = per*k + r.Intn(k)
	var b int
	switch r.Intn(4) {
	case 0:
		b = per + 1 + r.Intn(3) // nothing written before the stop: every database has a partial batch
	case 1:
		b = 1000
	case 2:
		b = per/2 + 1 // threshold writes AND partial batches
	default:
		b = kit.Pick(r, []int{1, 2, per, per + 1})
	}
	if class == "gated" || class == "immediate" {
		n += kit.Pick(r, []int{0, 0, edgeCap, 2*edgeCap + 100})
		if r.Chance(1, 2) {
			b = kit.Pick(r, []int{50, 1000})
		}
	}
	if class == "early" {
		n = 0
	}
	mid := kit.Pick(r, []string{"", "", "where,", "post,"})
	chain = fmt.Sprintf("from,%sminflux:%d.%d.%d", mid, b, k, mask) // (influxDBOut has no chaining methods: always a leaf)
	if mid == "post," && n > 2000 {
		n = 2000 - r.Intn(500)
	}
	return
}

// genStopHookMid: a pass-through node WITH a stop hook (httpOut: stopOut unregisters its HTTP routes) in the MIDDLE of a
// pipeline, in front of a held-back output, stopped while MORE than one edge buffer of accepted points is still upstream
// of it. ExecutingTask.stop calls every node's stop() before the node has drained its (closed) input edge: whatever the
// hook does must not keep the node from passing the backlog on to the outputs below it.
func genStopHookMid(r *kit.Rand) (chain, stop, class string, n int) {
	pre := kit.Pick(r, []string{"", "", "where,", "hout,"})
	post := kit.Pick(r, []string{"", "", "where,", "hout,"})
	b := kit.Pick(r, []int{1, 7, 50, 1000})
	out := kit.Pick(r, []string{"post", "post", fmt.Sprintf("influx:%d", b), "post,hout", "post,hout,post"})
	chain = "from," + pre + "hout," + post + out
	nodes := strings.Split(chain, ",")
	stop = kit.Pick(r, []string{"task", "close", "delete", "close"})
	switch r.Intn(6) {
	case 0:
		class, n = "drained", kit.Pick(r, []int{1, 40, 333})
		return
	case 1:
		class, n = "immediate", kit.Pick(r, []int{1500, 3000})
		return
	}
	class = "gated"
	// what the chain holds down to the first blocking output while the gate is closed (as in genCase)
	block := 0
	for j, k := range nodes {
		if k == "post" || strings.HasPrefix(k, "influx") {
			block = j + 1
			break
		}
	}
	downstream := (block+1)*(edgeCap+1) + 1
	if strings.HasPrefix(nodes[block-1], "influx") {
		downstream = (block+1)*(edgeCap+1) + b
	}
	switch r.Intn(4) {
	case 0:
		n = edgeCap + 2 + r.Range(1, 600) // backlog in the edge in front of the hooked node
	case 1:
		n = downstream + r.Range(-2, 2)
	case 2:
		n = downstream + r.Range(100, edgeCap-100)
	default:
		n = r.Range(edgeCap+3, downstream)
	}
	if n > downstream+edgeCap-100 {
		n = downstream + edgeCap - 100
	}
	return
}
