package c07

import (
	"context"
	"encoding/json"
	"errors"
	"io"
	"net"
	"net/http"
	"runtime"
	"strconv"
	"strings"
	"sync"
	"time"

	"github.com/influxdata/flux"
	"github.com/influxdata/kapacitor/edge"
	"github.com/influxdata/kapacitor/influxdb"
	"github.com/influxdata/kapacitor/udf"
	"github.com/influxdata/kapacitor/udf/agent"
)

// ---------------------------------------------------------------------------------------------
// gate: closed = every output call blocks inside the output; Open releases all of them for good.

type gate struct {
	mu   sync.Mutex
	ch   chan struct{}
	open bool
}

func newGate(open bool) *gate {
	g := &gate{ch: make(chan struct{}), open: open}
	if open {
		close(g.ch)
	}
	return g
}
func (g *gate) Open() {
	g.mu.Lock()
	if !g.open {
		g.open = true
		close(g.ch)
	}
	g.mu.Unlock()
}
func (g *gate) Wait() { <-g.ch }

// ---------------------------------------------------------------------------------------------
// recorder of point indexes handed to one output

type outRec struct {
	mu      sync.Mutex
	ids     map[int64]int
	total   int
	entered int           // calls that reached the output (possibly still blocked on the gate)
	calls   []int         // size of each completed call (influx: points per Write)
	keyed   map[int][]int // minflux: per database, the size of each Write call the client was handed (accepted or rejected)
}

func newOutRec() *outRec { return &outRec{ids: map[int64]int{}} }
func (r *outRec) enter() {
	r.mu.Lock()
	r.entered++
	r.mu.Unlock()
}
func (r *outRec) add(ids []int64) {
	r.mu.Lock()
	for _, i := range ids {
		r.ids[i]++
		r.total++
	}
	r.calls = append(r.calls, len(ids))
	r.mu.Unlock()
}

// addKeyed records one Write call to database k of a multi-database output (whether the client accepts it or not)
func (r *outRec) addKeyed(k int, ids []int64) {
	r.mu.Lock()
	if r.keyed == nil {
		r.keyed = map[int][]int{}
	}
	r.keyed[k] = append(r.keyed[k], len(ids))
	r.mu.Unlock()
	r.add(ids)
}

// keyedCalls prints, per database 0..keys-1, `<k><h|r>@<size>x<count>.<size>x<count>…` (`-` = no call), joined by `/`
func (r *outRec) keyedCalls(keys, rej int) string {
	r.mu.Lock()
	defer r.mu.Unlock()
	var out []string
	for k := 0; k < keys; k++ {
		h := "h"
		if rej&(1<<uint(k)) != 0 {
			h = "r"
		}
		cl := r.keyed[k]
		var cs []string
		for i := 0; i < len(cl); {
			j := i
			for j < len(cl) && cl[j] == cl[i] {
				j++
			}
			cs = append(cs, strconv.Itoa(cl[i])+"x"+strconv.Itoa(j-i))
			i = j
		}
		c := "-"
		if len(cs) > 0 {
			c = strings.Join(cs, ".")
		}
		out = append(out, strconv.Itoa(k)+h+"@"+c)
	}
	return strings.Join(out, "/")
}

func (r *outRec) snapshot() (total, distinct, entered int) {
	r.mu.Lock()
	defer r.mu.Unlock()
	return r.total, len(r.ids), r.entered
}

// complete reports whether exactly the ids 0..n-1 were each seen once.
func (r *outRec) missingBelow(n int) int {
	r.mu.Lock()
	defer r.mu.Unlock()
	m := 0
	for i := 0; i < n; i++ {
		if r.ids[int64(i)] == 0 {
			m++
		}
	}
	return m
}

// ---------------------------------------------------------------------------------------------
// HTTP sink: the target of `|httpPost(url)` nodes and of `.post(url)` alert handlers.
// One server per process; path /<caseKey>/<outIdx>/<p|a>.

type httpSink struct {
	srv  *http.Server
	addr string
	mu   sync.Mutex
	outs map[string]*sinkTarget
}

type sinkTarget struct {
	rec  *outRec
	gate *gate
	keys int // > 0: a multi-database influxDBOut (minflux): databases db0 … db<keys-1>
	rej  int // bit mask of the databases whose writes are rejected
}

var (
	sinkOnce sync.Once
	theSink  *httpSink
)

func sink() *httpSink {
	sinkOnce.Do(func() {
		l, err := net.Listen("tcp", "127.0.0.1:0")
		if err != nil {
			panic(err)
		}
		s := &httpSink{addr: l.Addr().String(), outs: map[string]*sinkTarget{}}
		s.srv = &http.Server{Handler: http.HandlerFunc(s.handle)}
		go s.srv.Serve(l)
		theSink = s
	})
	return theSink
}

func (s *httpSink) register(path string, t *sinkTarget) {
	s.mu.Lock()
	s.outs[path] = t
	s.mu.Unlock()
}
func (s *httpSink) unregister(prefix string) {
	s.mu.Lock()
	for k := range s.outs {
		if strings.HasPrefix(k, prefix) {
			delete(s.outs, k)
		}
	}
	s.mu.Unlock()
}

func (s *httpSink) handle(w http.ResponseWriter, req *http.Request) {
	body, _ := io.ReadAll(req.Body)
	s.mu.Lock()
	t := s.outs[req.URL.Path]
	s.mu.Unlock()
	if t == nil {
		w.WriteHeader(404)
		return
	}
	t.rec.enter()
	t.gate.Wait()
	var id int64 = -1
	if strings.HasSuffix(req.URL.Path, "/a") {
		// alert.Data JSON: the message template renders the point index
		var d struct {
			Message string `json:"message"`
		}
		if json.Unmarshal(body, &d) == nil {
			if v, err := strconv.ParseInt(d.Message, 10, 64); err == nil {
				id = v
			}
		}
	} else {
		// models.Result JSON: series[0].columns = [time, i], values = [[t, i]]
		var d struct {
			Series []struct {
				Columns []string        `json:"columns"`
				Values  [][]interface{} `json:"values"`
			} `json:"series"`
		}
		if json.Unmarshal(body, &d) == nil && len(d.Series) == 1 && len(d.Series[0].Values) == 1 {
			for ci, c := range d.Series[0].Columns {
				if c == "i" || c == "a.i" { // (`a.i`: below a join node)
					if f, ok := d.Series[0].Values[0][ci].(float64); ok {
						id = int64(f)
					}
				}
			}
		}
	}
	t.rec.add([]int64{id})
	w.WriteHeader(200)
}

// ---------------------------------------------------------------------------------------------
// fake InfluxDB

type fakeInflux struct {
	mu      sync.Mutex
	clients map[string]*sinkTarget
	def     *sinkTarget
}

func (f *fakeInflux) NewNamedClient(name string) (influxdb.Client, error) {
	return &fakeClient{f: f}, nil
}

type fakeClient struct{ f *fakeInflux }

func (c *fakeClient) Ping(ctx context.Context) (time.Duration, string, error) {
	return 0, "verif", nil
}
func (c *fakeClient) Write(bp influxdb.BatchPoints) error {
	// the measurement name selects the output: w<idx>
	t := c.f.def
	pts := bp.Points()
	if len(pts) > 0 {
		c.f.mu.Lock()
		if x, ok := c.f.clients[pts[0].Name]; ok {
			t = x
		}
		c.f.mu.Unlock()
	}
	if t == nil {
		return errors.New("no such output")
	}
	t.rec.enter()
	t.gate.Wait()
	ids := make([]int64, 0, len(pts))
	for _, p := range pts {
		if v, ok := p.Fields["i"].(int64); ok {
			ids = append(ids, v)
		} else if v, ok := p.Fields["a.i"].(int64); ok { // below a join node
			ids = append(ids, v)
		} else {
			ids = append(ids, -1)
		}
	}
	if t.keys > 0 {
		// a multi-database output: the batch must go to the database (and retention policy) its points came from;
		// a point handed to another destination does not count as handed over
		k := -1
		if db := bp.Database(); strings.HasPrefix(db, "db") && bp.RetentionPolicy() == "rp" {
			if v, err := strconv.Atoi(db[2:]); err == nil && v >= 0 && v < t.keys {
				k = v
			}
		}
		for j, id := range ids {
			if k < 0 || id < 0 || int(id)%t.keys != k {
				ids[j] = -1
			}
		}
		t.rec.addKeyed(k, ids)
		if k < 0 || t.rej&(1<<uint(k)) != 0 {
			return errors.New("database rejects the write")
		}
		return nil
	}
	t.rec.add(ids)
	return nil
}
func (c *fakeClient) WriteV2(w influxdb.FluxWrite) error { return errors.New("not supported") }
func (c *fakeClient) Query(q influxdb.Query) (*influxdb.Response, error) {
	return &influxdb.Response{}, nil
}
func (c *fakeClient) QueryFlux(q influxdb.FluxQuery) (flux.ResultIterator, error) {
	return nil, errors.New("not supported")
}
func (c *fakeClient) QueryFluxResponse(q influxdb.FluxQuery) (*influxdb.Response, error) {
	return nil, errors.New("not supported")
}
func (c *fakeClient) CreateBucketV2(bucket, org, orgID string) error { return nil }

// ---------------------------------------------------------------------------------------------
// UDF service: `@sink()`, a pass-through UDF (Abort = the process is killed: it stops reading and writing;
// kit's sinkUDF cannot be used here because its Abort panics when it is called before Open, which
// ExecutingTask.stop does when the stop comes right after the start), and `@failer().k(K)`, a UDF that
// behaves like a UDF process that forwards K messages and then dies (abort callback, Out closed, Close
// returns an error).

type udfService struct{}

func (s *udfService) List() []string { return []string{"sink", "failer"} }
func (s *udfService) Info(name string) (udf.Info, bool) {
	switch name {
	case "failer":
		return udf.Info{Wants: agent.EdgeType_STREAM, Provides: agent.EdgeType_STREAM,
			Options: map[string]*agent.OptionInfo{"k": {ValueTypes: []agent.ValueType{agent.ValueType_INT}}}}, true
	case "sink":
		return udf.Info{Wants: agent.EdgeType_STREAM, Provides: agent.EdgeType_STREAM, Options: map[string]*agent.OptionInfo{}}, true
	}
	return udf.Info{}, false
}
func (s *udfService) Create(name, taskID, nodeID string, d udf.Diagnostic, abortCallback func()) (udf.Interface, error) {
	info, ok := s.Info(name)
	if !ok {
		return nil, errors.New("unknown udf " + name)
	}
	u := &failUDF{info: info, k: -1, in: make(chan edge.Message), out: make(chan edge.Message), done: make(chan struct{}), abortCB: abortCallback, abrt: make(chan struct{})}
	return u, nil
}

type failUDF struct {
	info    udf.Info
	k       int64
	in      chan edge.Message
	out     chan edge.Message
	done    chan struct{}
	abortCB func()
	abrt    chan struct{}
	once    sync.Once
	closeIn sync.Once
	mu      sync.Mutex
	crashed bool
}

func (u *failUDF) Open() error {
	go func() {
		defer close(u.done)
		defer close(u.out)
		var n int64
		for {
			select {
			case m, ok := <-u.in:
				if !ok {
					return
				}
				if u.k >= 0 && n >= u.k {
					// the process dies on this message: tell the node to stop writing, stop reading
					u.mu.Lock()
					u.crashed = true
					u.mu.Unlock()
					u.doAbort()
					return
				}
				select {
				case u.out <- m:
					n++
				case <-u.abrt:
					return
				}
			case <-u.abrt:
				return
			}
		}
	}()
	return nil
}
func (u *failUDF) doAbort() {
	u.once.Do(func() {
		close(u.abrt)
		if u.abortCB != nil {
			u.abortCB()
		}
	})
}
func (u *failUDF) Info() (udf.Info, error) { return u.info, nil }
func (u *failUDF) Init(options []*agent.Option) error {
	for _, o := range options {
		if o.Name == "k" && len(o.Values) == 1 {
			u.k = o.Values[0].GetIntValue()
		}
	}
	return nil
}
func (u *failUDF) Abort(err error) { u.doAbort() }
func (u *failUDF) Close() error {
	u.closeIn.Do(func() { close(u.in) })
	<-u.done
	u.mu.Lock()
	defer u.mu.Unlock()
	if u.crashed {
		return errors.New("udf process died")
	}
	return nil
}
func (u *failUDF) Snapshot() ([]byte, error)     { return nil, nil }
func (u *failUDF) Restore(snapshot []byte) error { return nil }
func (u *failUDF) In() chan<- edge.Message       { return u.in }
func (u *failUDF) Out() <-chan edge.Message      { return u.out }

// ---------------------------------------------------------------------------------------------
// goroutine census: goroutines of a task (node goroutines and their helpers), recognised by function name

var censusMarks = []string{
	"kapacitor.(*node).start",
	"kapacitor.(*writeBuffer).run",
	"kapacitor.(*ExecutingTask).calcThroughput",
	"kapacitor.(*ExecutingTask).runSnapshotter",
	"kapacitor.(*UDFNode)",
	"kapacitor/alert.(*bufHandler).run",
	"kapacitor/alert.newHandler",
	"kapacitor/edge.(*multiConsumer)",
	"kapacitor.(*BatchNode)",
	"kapacitor.(*QueryNode)",
	"kapacitor.(*TaskMaster).StopTask",
	"kapacitor.(*TaskMaster).DeleteTask",
	"kapacitor.(*TaskMaster).Close",
}

func census() int {
	buf := make([]byte, 1<<20)
	for {
		n := runtime.Stack(buf, true)
		if n < len(buf) {
			buf = buf[:n]
			break
		}
		buf = make([]byte, 2*len(buf))
	}
	cnt := 0
	for _, g := range strings.Split(string(buf), "\n\n") {
		for _, m := range censusMarks {
			if strings.Contains(g, m) {
				cnt++
				break
			}
		}
	}
	return cnt
}

// settle polls f until it returns the same value `stable` times in a row (every `step`) or `max` elapses.
func settle(f func() int64, step time.Duration, stable int, max time.Duration) int64 {
	deadline := time.Now().Add(max)
	last, same := f(), 0
	for time.Now().Before(deadline) {
		time.Sleep(step)
		v := f()
		if v == last {
			same++
			if same >= stable {
				return v
			}
		} else {
			last, same = v, 0
		}
	}
	return last
}
