// Package c08 is the harness for property C08 (runs the real kapacitor code, prints op lines).
package c08

import (
	"fmt"
	"os"
)

// Run is replaced by the property's harness.
func Run(args []string) int {
	fmt.Fprintln(os.Stderr, "c08: harness not implemented yet")
	return 3
}
