// Package c08 is the harness for property C08 (alert state survives restart).
//
// It runs the REAL services/alert.Service (and, in node mode, a REAL TaskMaster with a stream task whose alert
// node has an anonymous and/or a named topic) over a REAL Bolt file owned by the harness. The topic-state
// namespace is wrapped so that a consistent copy of the Bolt file is taken right before every Update
// transaction begins and right after it ended ("crash points"). For every requested crash point a FRESH service
// (and TaskMaster + task) is opened on the copy, the remaining operations are processed, and the topic API state,
// the disk content and the handler-observed events of both runs are printed.
//
// Case format (op lines; observations after " => "):
//
//	mode svc <topic>...                       service-level history over these topics
//	mode node <anon> <named> <sco> <norec>    one alert node: has handlers / .topic('named') / .stateChangesOnly() / .noRecoveries()
//	collect <T> <id> <level> <time>           Service.Collect            => tx <n>
//	update <T> <id> <level> <time>            Service.UpdateEvent        => tx <n>
//	close <T> | restore <T> | deltopic <T>    CloseTopic / RestoreTopic / DeleteTopic
//	point <id> <level> <time>                 a data point whose level lambdas evaluate to <level>  => tx <n>
//	taskrestart                               StopTask + StartTask (no process death)
//	uninterrupted                             => mem <dump> disk <dump> told <dump>
//	failtx <n> <op …>                         the same operation, but the n-th storage transaction it attempts FAILS
//	                                          (its function runs, the commit does not happen, the caller gets an error)
//	v1 <T> <id> <level> <time>                (first lines only) an event state present in the VERSION 1 topic store
//	                                          layout before the first Open: exercises MigrateTopicStoreV1V2
//	stalebak                                  a <db>.v1.bak left behind by a process death during an earlier migration: try to Open => opened | openerr
//	crash2 <k> <m> <ph> <k2> <m2> <ph2>       two process deaths; the second refers to the ops remaining after the first
//	crash <k> <m> <pre|post>                  restart on the snapshot taken before/after the m-th transaction of op k
//	                                          (m = 0, post: after op k completed) and continue with ops k+1..
//	                                          => resume <dump> rdisk <dump> final <dump> fdisk <dump> toldb <dump> tolda <dump>
package c08

import (
	"errors"
	"fmt"
	"os"
	"path/filepath"
	"runtime"
	"strconv"
	"strings"
	"sync"
	"time"

	imodels "github.com/influxdata/influxdb/models"
	"github.com/influxdata/kapacitor"
	"github.com/influxdata/kapacitor/alert"
	alertservice "github.com/influxdata/kapacitor/services/alert"
	"github.com/influxdata/kapacitor/services/httpd"
	"github.com/influxdata/kapacitor/services/httppost"
	"github.com/influxdata/kapacitor/uuid"

	"verifharness/kit"
)

const (
	taskID     = "c08task"
	tmID       = "verif"
	anonTopic  = tmID + ":" + taskID + ":alert2"
	namedTopic = "named"
	syncID     = "zz-sync"
)

// ---- trivial fakes (kit keeps its own unexported) ----

type serverInfo struct{ c, s uuid.UUID }

func (i serverInfo) ClusterID() uuid.UUID    { return i.c }
func (i serverInfo) ServerID() uuid.UUID     { return i.s }
func (i serverInfo) Hostname() string        { return "localhost" }
func (i serverInfo) Version() string         { return "verif" }
func (i serverInfo) Product() string         { return "kapacitor" }
func (i serverInfo) Platform() string        { return "verif" }
func (i serverInfo) NumTasks() int64         { return 0 }
func (i serverInfo) NumEnabledTasks() int64  { return 0 }
func (i serverInfo) NumSubscriptions() int64 { return 0 }
func (i serverInfo) Uptime() time.Duration   { return 0 }

type taskStore struct{}

func (taskStore) SaveSnapshot(string, *kapacitor.TaskSnapshot) error { return nil }
func (taskStore) HasSnapshot(string) bool                            { return false }
func (taskStore) LoadSnapshot(string) (*kapacitor.TaskSnapshot, error) {
	return nil, errors.New("not implemented")
}

type deadman struct{}

func (deadman) Interval() time.Duration { return 0 }
func (deadman) Threshold() float64      { return 0 }
func (deadman) Id() string              { return "" }
func (deadman) Message() string         { return "" }
func (deadman) Global() bool            { return false }

var httpdOnce sync.Once
var sharedHTTPD *httpd.Service

func httpdService() *httpd.Service {
	httpdOnce.Do(func() {
		cfg := httpd.NewConfig()
		cfg.BindAddress = "127.0.0.1:0"
		cfg.LogEnabled = false
		sharedHTTPD = httpd.NewService(cfg, "localhost", nil, kit.Diag().NewHTTPDHandler())
		if err := sharedHTTPD.Open(); err != nil {
			panic(err)
		}
	})
	return sharedHTTPD
}

// ---- one running "process": store + alert service (+ TaskMaster + task) ----

type caseCfg struct {
	node                   bool
	topics                 []string
	anon, named, sco, norec bool
	logPath                string
}

func (c *caseCfg) script() string {
	s := "stream\n  |from().measurement('m').groupBy('id')\n  |alert()\n    .id('{{ index .Tags \"id\" }}')\n" +
		"    .info(lambda: \"v\" >= 1)\n    .warn(lambda: \"v\" >= 2)\n    .crit(lambda: \"v\" >= 3)\n" +
		"    .message('{{ index .Tags \"note\" }}')\n    .details('{{ index .Tags \"note\" }}')\n"
	if c.named {
		s += "    .topic('" + namedTopic + "')\n"
	}
	if c.anon {
		s += "    .log('" + c.logPath + "')\n"
	}
	if c.sco {
		s += "    .stateChangesOnly()\n"
	}
	if c.norec {
		s += "    .noRecoveries()\n"
	}
	return s
}

type proc struct {
	cfg  *caseCfg
	st   *snapStore
	as   *alertservice.Service
	tm   *kapacitor.TaskMaster
	et   *kapacitor.ExecutingTask
	rc   *recs
	sent int64
}

func openProc(cfg *caseCfg, dbPath string) (*proc, error) {
	st, err := openStore(dbPath)
	if err != nil {
		return nil, err
	}
	ds := kit.Diag()
	as := alertservice.NewService(ds.NewAlertServiceHandler(), nil, 0)
	as.PersistTopics = true
	as.StorageService = st
	as.HTTPDService = httpdService()
	if err := as.Open(); err != nil {
		st.db.Close()
		return nil, err
	}
	p := &proc{cfg: cfg, st: st, as: as, rc: newRecs(cfg.topics)}
	p.rc.registerAll(as)
	if cfg.node {
		tm := kapacitor.NewTaskMaster(tmID, serverInfo{uuid.New(), uuid.New()}, ds.NewKapacitorHandler())
		tm.HTTPDService = httpdService()
		tm.TaskStore = taskStore{}
		tm.DeadmanService = deadman{}
		tm.HTTPPostService, _ = httppost.NewService(nil, ds.NewHTTPPostHandler())
		tm.AlertService = as
		if err := tm.Open(); err != nil {
			p.close()
			return nil, err
		}
		p.tm = tm
		if err := p.startTask(); err != nil {
			p.close()
			return nil, err
		}
	}
	return p, nil
}

func (p *proc) startTask() error {
	task, err := p.tm.NewTask(taskID, p.cfg.script(), kapacitor.StreamTask, []kapacitor.DBRP{{Database: "db", RetentionPolicy: "rp"}}, 0, nil)
	if err != nil {
		return err
	}
	et, err := p.tm.StartTask(task)
	if err != nil {
		return err
	}
	p.et = et
	p.sent = 0
	// runAlert (its own goroutine) registers the node's handlers and restores the anonymous topic; wait for it by
	// pushing a no-op point through the node.
	return p.barrier()
}

func (p *proc) alertCollected() int64 {
	st, err := p.et.ExecutionStats()
	if err != nil {
		return -1
	}
	for name, m := range st.NodeStats {
		if strings.HasPrefix(name, "alert") {
			if v, ok := m["collected"].(int64); ok {
				return v
			}
		}
	}
	return -1
}

func (p *proc) write(id string, v int64, t int64) error { return p.writeNote(id, v, t, "") }

// writeNote: the point carries the tag note=<note> when note is not empty; message and details of the alert are
// rendered from that tag and are EMPTY without it.
func (p *proc) writeNote(id string, v int64, t int64, note string) error {
	tags := map[string]string{"id": id}
	if note != "" {
		tags["note"] = note
	}
	pt, err := imodels.NewPoint("m", imodels.NewTags(tags), imodels.Fields{"v": v}, time.Unix(0, t).UTC())
	if err != nil {
		return err
	}
	p.sent++
	return p.tm.WritePoints("db", "rp", imodels.ConsistencyLevelAll, []imodels.Point{pt})
}

// barrier sends an OK point of a group nobody alerts on and waits until the alert node has TAKEN it from its
// input edge: the node is single threaded, so everything sent before has been processed completely.
func (p *proc) barrier() error {
	if err := p.write(syncID, 0, 1); err != nil {
		return err
	}
	deadline := time.Now().Add(20 * time.Second)
	for i := 0; ; i++ {
		if p.alertCollected() >= p.sent {
			return nil
		}
		if time.Now().After(deadline) {
			return fmt.Errorf("alert node did not take %d messages in time", p.sent)
		}
		if i < 200 {
			runtime.Gosched()
		} else {
			time.Sleep(50 * time.Microsecond)
		}
	}
}

func (p *proc) stopTask() error {
	if p.et == nil {
		return nil
	}
	if p.cfg.anon {
		p.rc.retire(p.as, anonTopic)
	}
	err := p.tm.StopTask(taskID)
	p.et = nil
	return err
}

// close ends the process gracefully; every handler queue is drained (so the logs are complete).
func (p *proc) close() {
	if p.tm != nil {
		p.stopTask()
		p.tm.Close()
	}
	p.as.Close()
	p.st.db.Close()
}

func un(s string) string { v, _ := kit.Unesc(s); return v }
func atoi(s string) int64 { v, _ := strconv.ParseInt(s, 10, 64); return v }

// mkEvent: t = <topic> <id> <level> <time> [<duration> <message> <details>]
func mkEvent(topic string, t []string) alert.Event {
	st := alert.EventState{ID: un(t[0]), Level: alert.Level(atoi(t[1])), Time: time.Unix(0, atoi(t[2])).UTC()}
	if len(t) >= 6 {
		st.Duration, st.Message, st.Details = time.Duration(atoi(t[3])), un(t[4]), un(t[5])
	}
	return alert.Event{Topic: topic, State: st}
}

// apply executes one history op on the running process.
func (p *proc) apply(t []string) error {
	switch t[0] {
	case "collect":
		return p.as.Collect(mkEvent(un(t[1]), t[2:]))
	case "update":
		return p.as.UpdateEvent(un(t[1]), mkEvent("", t[2:]).State)
	case "close":
		p.rc.retire(p.as, un(t[1]))
		err := p.as.CloseTopic(un(t[1]))
		p.rc.register(p.as, un(t[1]))
		return err
	case "restore":
		return p.as.RestoreTopic(un(t[1]))
	case "deltopic":
		p.rc.retire(p.as, un(t[1]))
		err := p.as.DeleteTopic(un(t[1]))
		p.rc.register(p.as, un(t[1]))
		return err
	case "point":
		note := ""
		if len(t) >= 5 {
			note = un(t[4])
		}
		if err := p.writeNote(un(t[1]), atoi(t[2]), atoi(t[3]), note); err != nil {
			return err
		}
		return p.barrier()
	case "taskrestart":
		if err := p.stopTask(); err != nil {
			return err
		}
		p.rc.registerAll(p.as)
		return p.startTask()
	}
	return fmt.Errorf("unknown op %q", t[0])
}

func isHistoryOp(s string) bool {
	switch s {
	case "collect", "update", "close", "restore", "deltopic", "point", "taskrestart", "v1":
		return true
	}
	return false
}

// histOp is one operation of the history; fail = n means "the n-th storage transaction this operation attempts
// fails" (0 = none fails).
type histOp struct {
	t    []string
	fail int
}

func parseHistOp(t []string) (histOp, bool) {
	if len(t) >= 3 && t[0] == "failtx" {
		if !isHistoryOp(t[2]) {
			return histOp{}, false
		}
		return histOp{t: t[2:], fail: int(atoi(t[1]))}, true
	}
	if isHistoryOp(t[0]) {
		return histOp{t: t}, true
	}
	return histOp{}, false
}

type snapInfo struct {
	path   string
	counts map[string]int
}

func strip(line string) string {
	if i := strings.Index(line, " => "); i >= 0 {
		return line[:i]
	}
	return line
}

// procRun is one process lifetime: opened on a database file, some operations processed, closed.
type procRun struct {
	resumeMem, resumeDisk string // right after Open (+ task start)
	finalMem, finalDisk   string
	opObs                 []string
	snaps                 map[string]snapInfo
	rc                    *recs
	failed                bool // a (non-injected) error stopped the run
}

// runProc opens a process on dbPath, processes ops and closes it. With snapDir != "" a copy of the Bolt file is
// taken before and after every transaction and after every operation.
func runProc(cfg *caseCfg, dbPath string, ops []histOp, snapDir, tag string) (res *procRun, err error) {
	p, err := openProc(cfg, dbPath)
	if err != nil {
		return nil, err
	}
	res = &procRun{snaps: map[string]snapInfo{}, rc: p.rc, opObs: make([]string, len(ops))}
	res.resumeMem, res.resumeDisk = memDump(p.as, cfg.topics), diskDump(p.st, cfg.topics)
	cur, txm, failN := 0, 0, 0
	take := func(k, m int, phase string) {
		if snapDir == "" {
			return
		}
		path := filepath.Join(snapDir, fmt.Sprintf("%s-%d-%d-%s.db", tag, k, m, phase))
		if e := p.st.snapshot(path); e != nil {
			panic(e)
		}
		res.snaps[fmt.Sprintf("%d/%d/%s", k, m, phase)] = snapInfo{path: path, counts: p.rc.counts(p.as)}
	}
	p.st.setHooks(func() { txm++; take(cur, txm, "pre") }, func() { take(cur, txm, "post") },
		func() bool { return failN != 0 && txm == failN })
	for k, op := range ops {
		cur, txm, failN = k, 0, op.fail
		if op.t[0] == "v1" {
			// written in the V1 layout before the first Open (see writeV1); nothing to do now
			take(k, 0, "post")
			continue
		}
		func() {
			defer func() {
				if r := recover(); r != nil {
					res.opObs[k] = "panic"
				}
			}()
			if e := p.apply(op.t); e != nil {
				res.opObs[k] = fmt.Sprintf("tx %d err", txm)
				return
			}
			res.opObs[k] = fmt.Sprintf("tx %d", txm)
		}()
		take(k, 0, "post")
	}
	p.st.setHooks(nil, nil, nil)
	res.finalMem, res.finalDisk = memDump(p.as, cfg.topics), diskDump(p.st, cfg.topics)
	p.close()
	return res, nil
}

// writeV1 creates the database file with the given event states in the VERSION 1 topic store layout
// (namespace alert_store, one TopicState object per topic, no topic_store_version key).
func writeV1(dbPath string, ops []histOp) error {
	states := map[string]map[string]alertservice.EventState{}
	for _, op := range ops {
		if op.t[0] != "v1" {
			continue
		}
		T, id := un(op.t[1]), un(op.t[2])
		if states[T] == nil {
			states[T] = map[string]alertservice.EventState{}
		}
		states[T][id] = alertservice.EventState{Level: alert.Level(atoi(op.t[3])), Time: time.Unix(0, atoi(op.t[4])).UTC()}
	}
	if len(states) == 0 {
		return nil
	}
	st, err := openStore(dbPath)
	if err != nil {
		return err
	}
	defer st.db.Close()
	dao, err := alertservice.NewTopicStateKV(st.Store(alertservice.AlertNameSpace))
	if err != nil {
		return err
	}
	for T, m := range states {
		if err := dao.Put(alertservice.TopicState{Topic: T, EventStates: m}); err != nil {
			return err
		}
	}
	return nil
}

func copyFile(src, dst string) error {
	data, err := os.ReadFile(src)
	if err != nil {
		return err
	}
	return os.WriteFile(dst, data, 0600)
}

// execCase runs one case and returns its lines with observations.
func execCase(lines []string) (out []string, err error) {
	if isMigCase(lines) {
		return execMig(lines) // crash points inside MigrateTopicStoreV1V2: mig.go
	}
	dir := caseDir()
	defer os.RemoveAll(dir)
	cfg := &caseCfg{logPath: filepath.Join(dir, "alert.log")}
	var body [][]string
	var raw []string
	for _, l := range lines {
		l = strip(l)
		t := strings.Fields(l)
		if len(t) == 0 {
			continue
		}
		if t[0] == "mode" {
			if len(t) >= 2 && t[1] == "svc" {
				for _, x := range t[2:] {
					cfg.topics = append(cfg.topics, un(x))
				}
			} else if len(t) == 6 && t[1] == "node" {
				cfg.node = true
				cfg.anon, cfg.named, cfg.sco, cfg.norec = t[2] == "1", t[3] == "1", t[4] == "1", t[5] == "1"
				if cfg.anon {
					cfg.topics = append(cfg.topics, anonTopic)
				}
				if cfg.named {
					cfg.topics = append(cfg.topics, namedTopic)
				}
			} else {
				return nil, fmt.Errorf("bad mode line %q", l)
			}
			out = append(out, l)
			continue
		}
		body = append(body, t)
		raw = append(raw, l)
	}
	var ops []histOp
	for _, t := range body {
		if op, ok := parseHistOp(t); ok {
			ops = append(ops, op)
		}
	}

	// ---- run 1: the uninterrupted run, with a snapshot at every transaction boundary ----
	mainDB := filepath.Join(dir, "main.db")
	if err := writeV1(mainDB, ops); err != nil {
		return nil, err
	}
	staleObs := ""
	for _, t := range body {
		if t[0] == "stalebak" {
			// a process death during an earlier MigrateTopicStoreV1V2 (after its backup copy was made, before the
			// version key was set) leaves <db>.v1.bak behind: does the service still open?
			if _, e := os.Stat(mainDB); e != nil {
				if st, e := openStore(mainDB); e == nil {
					st.db.Close()
				}
			}
			bak := mainDB + alertservice.TopicStoreBackupSuffix
			if e := copyFile(mainDB, bak); e != nil {
				return nil, e
			}
			if p, e := openProc(cfg, mainDB); e != nil {
				staleObs = "openerr"
			} else {
				staleObs = "opened"
				p.close()
			}
			os.Remove(bak)
			if staleObs == "opened" {
				// start the case proper from a pristine file again
				os.Remove(mainDB)
				if err := writeV1(mainDB, ops); err != nil {
					return nil, err
				}
			}
		}
	}
	r1, err := runProc(cfg, mainDB, ops, dir, "a")
	if err != nil {
		return nil, err
	}
	lastV1 := -1
	for k, op := range ops {
		if op.t[0] == "v1" {
			lastV1 = k
		}
	}

	restartOn := func(sn snapInfo, rest []histOp, snapTag string, n int) (*procRun, error) {
		db := filepath.Join(dir, fmt.Sprintf("re-%d-%s.db", n, snapTag))
		if err := copyFile(sn.path, db); err != nil {
			return nil, err
		}
		sd := ""
		if snapTag != "" {
			sd = dir
		}
		return runProc(cfg, db, rest, sd, fmt.Sprintf("%s%d", snapTag, n))
	}

	ki := 0
	for i, t := range body {
		_, isOp := parseHistOp(t)
		switch {
		case isOp:
			if r1.opObs[ki] == "" {
				out = append(out, raw[i])
			} else {
				out = append(out, raw[i]+" => "+r1.opObs[ki])
			}
			ki++
		case t[0] == "stalebak":
			out = append(out, raw[i]+" => "+staleObs)
		case t[0] == "uninterrupted":
			out = append(out, fmt.Sprintf("%s => mem %s disk %s told %s", raw[i], r1.finalMem, r1.finalDisk, r1.rc.render(nil)))
		case t[0] == "crash" && len(t) == 4:
			k, m := int(atoi(t[1])), int(atoi(t[2]))
			sn, ok := r1.snaps[fmt.Sprintf("%d/%d/%s", k, m, t[3])]
			if !ok || k < lastV1 {
				out = append(out, raw[i]+" => none")
				continue
			}
			obs := func() (obs string) {
				defer func() {
					if r := recover(); r != nil {
						obs = "panic"
					}
				}()
				r2, e := restartOn(sn, ops[k+1:], "", i)
				if e != nil {
					return "openerr"
				}
				return fmt.Sprintf("resume %s rdisk %s final %s fdisk %s toldb %s tolda %s",
					r2.resumeMem, r2.resumeDisk, r2.finalMem, r2.finalDisk,
					renderParts(cfg.topics, []logPart{{r1.rc, sn.counts}}), r2.rc.render(nil))
			}()
			out = append(out, raw[i]+" => "+obs)
		case t[0] == "crash2" && len(t) == 7:
			// crash2 k m ph k2 m2 ph2: the second crash point refers to the operations remaining after the first
			k, m := int(atoi(t[1])), int(atoi(t[2]))
			k2, m2 := int(atoi(t[4])), int(atoi(t[5]))
			sn, ok := r1.snaps[fmt.Sprintf("%d/%d/%s", k, m, t[3])]
			if !ok || k < lastV1 {
				out = append(out, raw[i]+" => none")
				continue
			}
			obs := func() (obs string) {
				defer func() {
					if r := recover(); r != nil {
						obs = "panic"
					}
				}()
				rest := ops[k+1:]
				rb, e := restartOn(sn, rest, "b", i)
				if e != nil {
					return "openerr"
				}
				sn2, ok := rb.snaps[fmt.Sprintf("%d/%d/%s", k2, m2, t[6])]
				if !ok {
					return "none"
				}
				rc, e := restartOn(sn2, rest[k2+1:], "", i)
				if e != nil {
					return "openerr"
				}
				return fmt.Sprintf("resume %s rdisk %s final %s fdisk %s toldb %s tolda %s",
					rc.resumeMem, rc.resumeDisk, rc.finalMem, rc.finalDisk,
					renderParts(cfg.topics, []logPart{{r1.rc, sn.counts}, {rb.rc, sn2.counts}}), rc.rc.render(nil))
			}()
			out = append(out, raw[i]+" => "+obs)
		default:
			return nil, fmt.Errorf("bad line %q", raw[i])
		}
	}
	return out, nil
}

func emit(out *kit.Out, id string, lines []string) {
	out.Line("case", id)
	for _, l := range lines {
		out.Line(l)
	}
	out.Line("end")
}

func runAndEmit(out *kit.Out, id string, lines []string) int {
	res, err := execCase(lines)
	if err != nil {
		fmt.Fprintf(os.Stderr, "c08: case %s: %v\n", id, err)
		out.Line("case", id)
		for _, l := range lines {
			out.Line(l)
		}
		out.Flush()
		return 4
	}
	emit(out, id, res)
	return 0
}

// Run: `vh-c08 -seed S -n N [-tier thorough]` generates; `vh-c08 -ops file` re-executes the cases of a file.
func Run(args []string) int {
	f := kit.ParseFlags(args)
	out := kit.NewOut()
	defer out.Flush()
	if f.Ops != "" {
		lines, err := kit.ReadLines(f.Ops)
		if err != nil {
			fmt.Fprintln(os.Stderr, err)
			return 2
		}
		var cur []string
		id := ""
		for _, l := range lines {
			t := strings.Fields(l)
			switch {
			case len(t) == 2 && t[0] == "case":
				id, cur = t[1], nil
			case len(t) == 1 && t[0] == "end":
				if rc := runAndEmit(out, id, cur); rc != 0 {
					return rc
				}
			default:
				cur = append(cur, l)
			}
		}
		return 0
	}
	return generate(out, f)
}
