// Package c08 is the harness for property C08 (alert state survives restart).
//
// It runs the REAL services/alert.Service (and, in node mode, a REAL TaskMaster with a stream task whose alert
// node has an anonymous and/or a named topic) over a REAL Bolt file owned by the harness. The topic-state
// namespace is wrapped so that a consistent copy of the Bolt file is taken right before every Update
// transaction begins and right after it ended ("crash points"). For every requested crash point a FRESH service
// (and TaskMaster + task) is opened on the copy, the remaining operations are processed, and the topic API state,
// the disk content and the handler-observed events of both runs are printed.
//
// Case format (op lines; observations after " => "):
//
//	mode svc <topic>...                       service-level history over these topics
//	mode node <anon> <named> <sco> <norec>    one alert node: has handlers / .topic('named') / .stateChangesOnly() / .noRecoveries()
//	collect <T> <id> <level> <time>           Service.Collect            => tx <n>
//	update <T> <id> <level> <time>            Service.UpdateEvent        => tx <n>
//	close <T> | restore <T> | deltopic <T>    CloseTopic / RestoreTopic / DeleteTopic
//	point <id> <level> <time>                 a data point whose level lambdas evaluate to <level>  => tx <n>
//	taskrestart                               StopTask + StartTask (no process death)
//	uninterrupted                             => mem <dump> disk <dump> told <dump>
//	crash <k> <m> <pre|post>                  restart on the snapshot taken before/after the m-th transaction of op k
//	                                          (m = 0, post: after op k completed) and continue with ops k+1..
//	                                          => resume <dump> rdisk <dump> final <dump> fdisk <dump> toldb <dump> tolda <dump>
package c08

import (
	"errors"
	"fmt"
	"os"
	"path/filepath"
	"runtime"
	"strconv"
	"strings"
	"sync"
	"time"

	imodels "github.com/influxdata/influxdb/models"
	"github.com/influxdata/kapacitor"
	"github.com/influxdata/kapacitor/alert"
	alertservice "github.com/influxdata/kapacitor/services/alert"
	"github.com/influxdata/kapacitor/services/httpd"
	"github.com/influxdata/kapacitor/services/httppost"
	"github.com/influxdata/kapacitor/uuid"

	"verifharness/kit"
)

const (
	taskID     = "c08task"
	tmID       = "verif"
	anonTopic  = tmID + ":" + taskID + ":alert2"
	namedTopic = "named"
	syncID     = "zz-sync"
)

// ---- trivial fakes (kit keeps its own unexported) ----

type serverInfo struct{ c, s uuid.UUID }

func (i serverInfo) ClusterID() uuid.UUID    { return i.c }
func (i serverInfo) ServerID() uuid.UUID     { return i.s }
func (i serverInfo) Hostname() string        { return "localhost" }
func (i serverInfo) Version() string         { return "verif" }
func (i serverInfo) Product() string         { return "kapacitor" }
func (i serverInfo) Platform() string        { return "verif" }
func (i serverInfo) NumTasks() int64         { return 0 }
func (i serverInfo) NumEnabledTasks() int64  { return 0 }
func (i serverInfo) NumSubscriptions() int64 { return 0 }
func (i serverInfo) Uptime() time.Duration   { return 0 }

type taskStore struct{}

func (taskStore) SaveSnapshot(string, *kapacitor.TaskSnapshot) error { return nil }
func (taskStore) HasSnapshot(string) bool                            { return false }
func (taskStore) LoadSnapshot(string) (*kapacitor.TaskSnapshot, error) {
	return nil, errors.New("not implemented")
}

type deadman struct{}

func (deadman) Interval() time.Duration { return 0 }
func (deadman) Threshold() float64      { return 0 }
func (deadman) Id() string              { return "" }
func (deadman) Message() string         { return "" }
func (deadman) Global() bool            { return false }

var httpdOnce sync.Once
var sharedHTTPD *httpd.Service

func httpdService() *httpd.Service {
	httpdOnce.Do(func() {
		cfg := httpd.NewConfig()
		cfg.BindAddress = "127.0.0.1:0"
		cfg.LogEnabled = false
		sharedHTTPD = httpd.NewService(cfg, "localhost", nil, kit.Diag().NewHTTPDHandler())
		if err := sharedHTTPD.Open(); err != nil {
			panic(err)
		}
	})
	return sharedHTTPD
}

// ---- one running "process": store + alert service (+ TaskMaster + task) ----

type caseCfg struct {
	node                   bool
	topics                 []string
	anon, named, sco, norec bool
	logPath                string
}

func (c *caseCfg) script() string {
	s := "stream\n  |from().measurement('m').groupBy('id')\n  |alert()\n    .id('{{ index .Tags \"id\" }}')\n" +
		"    .info(lambda: \"v\" >= 1)\n    .warn(lambda: \"v\" >= 2)\n    .crit(lambda: \"v\" >= 3)\n"
	if c.named {
		s += "    .topic('" + namedTopic + "')\n"
	}
	if c.anon {
		s += "    .log('" + c.logPath + "')\n"
	}
	if c.sco {
		s += "    .stateChangesOnly()\n"
	}
	if c.norec {
		s += "    .noRecoveries()\n"
	}
	return s
}

type proc struct {
	cfg  *caseCfg
	st   *snapStore
	as   *alertservice.Service
	tm   *kapacitor.TaskMaster
	et   *kapacitor.ExecutingTask
	rc   *recs
	sent int64
}

func openProc(cfg *caseCfg, dbPath string) (*proc, error) {
	st, err := openStore(dbPath)
	if err != nil {
		return nil, err
	}
	ds := kit.Diag()
	as := alertservice.NewService(ds.NewAlertServiceHandler(), nil, 0)
	as.PersistTopics = true
	as.StorageService = st
	as.HTTPDService = httpdService()
	if err := as.Open(); err != nil {
		st.db.Close()
		return nil, err
	}
	p := &proc{cfg: cfg, st: st, as: as, rc: newRecs(cfg.topics)}
	p.rc.registerAll(as)
	if cfg.node {
		tm := kapacitor.NewTaskMaster(tmID, serverInfo{uuid.New(), uuid.New()}, ds.NewKapacitorHandler())
		tm.HTTPDService = httpdService()
		tm.TaskStore = taskStore{}
		tm.DeadmanService = deadman{}
		tm.HTTPPostService, _ = httppost.NewService(nil, ds.NewHTTPPostHandler())
		tm.AlertService = as
		if err := tm.Open(); err != nil {
			p.close()
			return nil, err
		}
		p.tm = tm
		if err := p.startTask(); err != nil {
			p.close()
			return nil, err
		}
	}
	return p, nil
}

func (p *proc) startTask() error {
	task, err := p.tm.NewTask(taskID, p.cfg.script(), kapacitor.StreamTask, []kapacitor.DBRP{{Database: "db", RetentionPolicy: "rp"}}, 0, nil)
	if err != nil {
		return err
	}
	et, err := p.tm.StartTask(task)
	if err != nil {
		return err
	}
	p.et = et
	p.sent = 0
	// runAlert (its own goroutine) registers the node's handlers and restores the anonymous topic; wait for it by
	// pushing a no-op point through the node.
	return p.barrier()
}

func (p *proc) alertCollected() int64 {
	st, err := p.et.ExecutionStats()
	if err != nil {
		return -1
	}
	for name, m := range st.NodeStats {
		if strings.HasPrefix(name, "alert") {
			if v, ok := m["collected"].(int64); ok {
				return v
			}
		}
	}
	return -1
}

func (p *proc) write(id string, v int64, t int64) error {
	pt, err := imodels.NewPoint("m", imodels.NewTags(map[string]string{"id": id}), imodels.Fields{"v": v}, time.Unix(0, t).UTC())
	if err != nil {
		return err
	}
	p.sent++
	return p.tm.WritePoints("db", "rp", imodels.ConsistencyLevelAll, []imodels.Point{pt})
}

// barrier sends an OK point of a group nobody alerts on and waits until the alert node has TAKEN it from its
// input edge: the node is single threaded, so everything sent before has been processed completely.
func (p *proc) barrier() error {
	if err := p.write(syncID, 0, 1); err != nil {
		return err
	}
	deadline := time.Now().Add(20 * time.Second)
	for i := 0; ; i++ {
		if p.alertCollected() >= p.sent {
			return nil
		}
		if time.Now().After(deadline) {
			return fmt.Errorf("alert node did not take %d messages in time", p.sent)
		}
		if i < 200 {
			runtime.Gosched()
		} else {
			time.Sleep(50 * time.Microsecond)
		}
	}
}

func (p *proc) stopTask() error {
	if p.et == nil {
		return nil
	}
	if p.cfg.anon {
		p.rc.retire(p.as, anonTopic)
	}
	err := p.tm.StopTask(taskID)
	p.et = nil
	return err
}

// close ends the process gracefully; every handler queue is drained (so the logs are complete).
func (p *proc) close() {
	if p.tm != nil {
		p.stopTask()
		p.tm.Close()
	}
	p.as.Close()
	p.st.db.Close()
}

func un(s string) string { v, _ := kit.Unesc(s); return v }
func atoi(s string) int64 { v, _ := strconv.ParseInt(s, 10, 64); return v }

func mkEvent(topic, id string, level, t int64) alert.Event {
	return alert.Event{Topic: topic, State: alert.EventState{ID: id, Level: alert.Level(level), Time: time.Unix(0, t).UTC()}}
}

// apply executes one history op on the running process.
func (p *proc) apply(t []string) error {
	switch t[0] {
	case "collect":
		return p.as.Collect(mkEvent(un(t[1]), un(t[2]), atoi(t[3]), atoi(t[4])))
	case "update":
		return p.as.UpdateEvent(un(t[1]), mkEvent("", un(t[2]), atoi(t[3]), atoi(t[4])).State)
	case "close":
		p.rc.retire(p.as, un(t[1]))
		err := p.as.CloseTopic(un(t[1]))
		p.rc.register(p.as, un(t[1]))
		return err
	case "restore":
		return p.as.RestoreTopic(un(t[1]))
	case "deltopic":
		p.rc.retire(p.as, un(t[1]))
		err := p.as.DeleteTopic(un(t[1]))
		p.rc.register(p.as, un(t[1]))
		return err
	case "point":
		if err := p.write(un(t[1]), atoi(t[2]), atoi(t[3])); err != nil {
			return err
		}
		return p.barrier()
	case "taskrestart":
		if err := p.stopTask(); err != nil {
			return err
		}
		p.rc.registerAll(p.as)
		return p.startTask()
	}
	return fmt.Errorf("unknown op %q", t[0])
}

func isHistoryOp(s string) bool {
	switch s {
	case "collect", "update", "close", "restore", "deltopic", "point", "taskrestart":
		return true
	}
	return false
}

type snapInfo struct {
	path   string
	counts map[string]int
}

func strip(line string) string {
	if i := strings.Index(line, " => "); i >= 0 {
		return line[:i]
	}
	return line
}

// execCase runs one case and returns its lines with observations.
func execCase(lines []string) (out []string, err error) {
	dir := caseDir()
	defer os.RemoveAll(dir)
	cfg := &caseCfg{logPath: filepath.Join(dir, "alert.log")}
	var body [][]string
	var raw []string
	for _, l := range lines {
		l = strip(l)
		t := strings.Fields(l)
		if len(t) == 0 {
			continue
		}
		if t[0] == "mode" {
			if len(t) >= 2 && t[1] == "svc" {
				for _, x := range t[2:] {
					cfg.topics = append(cfg.topics, un(x))
				}
			} else if len(t) == 6 && t[1] == "node" {
				cfg.node = true
				cfg.anon, cfg.named, cfg.sco, cfg.norec = t[2] == "1", t[3] == "1", t[4] == "1", t[5] == "1"
				if cfg.anon {
					cfg.topics = append(cfg.topics, anonTopic)
				}
				if cfg.named {
					cfg.topics = append(cfg.topics, namedTopic)
				}
			} else {
				return nil, fmt.Errorf("bad mode line %q", l)
			}
			out = append(out, l)
			continue
		}
		body = append(body, t)
		raw = append(raw, l)
	}
	var ops [][]string
	for _, t := range body {
		if isHistoryOp(t[0]) {
			ops = append(ops, t)
		}
	}

	// ---- run 1: the uninterrupted run, with a snapshot at every transaction boundary ----
	p, err := openProc(cfg, filepath.Join(dir, "main.db"))
	if err != nil {
		return nil, err
	}
	snaps := map[string]snapInfo{}
	cur, txm := 0, 0
	take := func(k, m int, phase string) {
		path := snapPath(dir, k, m, phase)
		if e := p.st.snapshot(path); e != nil {
			panic(e)
		}
		snaps[fmt.Sprintf("%d/%d/%s", k, m, phase)] = snapInfo{path: path, counts: p.rc.counts(p.as)}
	}
	p.st.setHooks(func() { txm++; take(cur, txm, "pre") }, func() { take(cur, txm, "post") })
	opObs := make([]string, len(ops))
	for k, t := range ops {
		cur, txm = k, 0
		func() {
			defer func() {
				if r := recover(); r != nil {
					opObs[k] = "panic"
				}
			}()
			if e := p.apply(t); e != nil {
				opObs[k] = fmt.Sprintf("tx %d err", txm)
				return
			}
			opObs[k] = fmt.Sprintf("tx %d", txm)
		}()
		take(k, 0, "post")
	}
	p.st.setHooks(nil, nil)
	unMem, unDisk := memDump(p.as, cfg.topics), diskDump(p.st, cfg.topics)
	p.close()
	unTold := p.rc.render(nil)
	rc1 := p.rc

	// ---- per requested crash point: restart on the snapshot, continue ----
	ki := 0
	for i, t := range body {
		switch {
		case isHistoryOp(t[0]):
			out = append(out, raw[i]+" => "+opObs[ki])
			ki++
		case t[0] == "uninterrupted":
			out = append(out, fmt.Sprintf("%s => mem %s disk %s told %s", raw[i], unMem, unDisk, unTold))
		case t[0] == "crash" && len(t) == 4:
			k, m := int(atoi(t[1])), int(atoi(t[2]))
			sn, ok := snaps[fmt.Sprintf("%d/%d/%s", k, m, t[3])]
			if !ok {
				out = append(out, raw[i]+" => none")
				continue
			}
			obs, e := restartRun(cfg, sn, ops, k, rc1, filepath.Join(dir, fmt.Sprintf("re-%d.db", i)))
			if e != nil {
				return nil, e
			}
			out = append(out, raw[i]+" => "+obs)
		default:
			return nil, fmt.Errorf("bad line %q", raw[i])
		}
	}
	return out, nil
}

func restartRun(cfg *caseCfg, sn snapInfo, ops [][]string, k int, rc1 *recs, dbPath string) (obs string, err error) {
	data, err := os.ReadFile(sn.path)
	if err != nil {
		return "", err
	}
	if err := os.WriteFile(dbPath, data, 0600); err != nil {
		return "", err
	}
	defer func() {
		if r := recover(); r != nil {
			obs, err = "panic", nil
		}
	}()
	p, err := openProc(cfg, dbPath)
	if err != nil {
		return "", err
	}
	resume, rdisk := memDump(p.as, cfg.topics), diskDump(p.st, cfg.topics)
	for _, t := range ops[k+1:] {
		if e := p.apply(t); e != nil {
			p.close()
			return "err", nil
		}
	}
	final, fdisk := memDump(p.as, cfg.topics), diskDump(p.st, cfg.topics)
	p.close()
	os.Remove(dbPath)
	return fmt.Sprintf("resume %s rdisk %s final %s fdisk %s toldb %s tolda %s",
		resume, rdisk, final, fdisk, rc1.render(sn.counts), p.rc.render(nil)), nil
}

func emit(out *kit.Out, id string, lines []string) {
	out.Line("case", id)
	for _, l := range lines {
		out.Line(l)
	}
	out.Line("end")
}

func runAndEmit(out *kit.Out, id string, lines []string) int {
	res, err := execCase(lines)
	if err != nil {
		fmt.Fprintf(os.Stderr, "c08: case %s: %v\n", id, err)
		out.Line("case", id)
		for _, l := range lines {
			out.Line(l)
		}
		out.Flush()
		return 4
	}
	emit(out, id, res)
	return 0
}

// Run: `vh-c08 -seed S -n N [-tier thorough]` generates; `vh-c08 -ops file` re-executes the cases of a file.
func Run(args []string) int {
	f := kit.ParseFlags(args)
	out := kit.NewOut()
	defer out.Flush()
	if f.Ops != "" {
		lines, err := kit.ReadLines(f.Ops)
		if err != nil {
			fmt.Fprintln(os.Stderr, err)
			return 2
		}
		var cur []string
		id := ""
		for _, l := range lines {
			t := strings.Fields(l)
			switch {
			case len(t) == 2 && t[0] == "case":
				id, cur = t[1], nil
			case len(t) == 1 && t[0] == "end":
				if rc := runAndEmit(out, id, cur); rc != 0 {
					return rc
				}
			default:
				cur = append(cur, l)
			}
		}
		return 0
	}
	return generate(out, f)
}
