package c08

import (
	"fmt"

	"verifharness/kit"
)

var topicPool = []string{"t1", "t2", "main:x"}
var idPool = []string{"a", "b", "c", "é x", "b,c"}

// nextLevel is branch directed: recoveries, repeats, escalations and de-escalations all occur often.
func nextLevel(r *kit.Rand, last int) int {
	switch k := r.Intn(100); {
	case k < 30:
		return 0 // recovery (or OK on OK)
	case k < 45:
		return last // repeat
	case k < 60 && last < 3:
		return last + 1
	case k < 70 && last > 1:
		return last - 1
	default:
		return r.Intn(4)
	}
}

// genSvc: a history of service operations over 1–3 topics and 2–4 ids.
func genSvc(r *kit.Rand, size int) (mode string, ops []string) {
	nT, nI := r.Range(1, 3), r.Range(2, 4)
	topics := topicPool[:nT]
	ids := make([]string, nI)
	off := r.Intn(len(idPool))
	for i := range ids {
		ids[i] = idPool[(off+i)%len(idPool)]
	}
	mode = "mode svc"
	for _, t := range topics {
		mode += " " + kit.Esc(t)
	}
	last := map[string]int{}
	tm := int64(1000)
	collect := func(T, id string) {
		tm += int64(r.Range(1, 9))
		l := nextLevel(r, last[T+"/"+id])
		last[T+"/"+id] = l
		ops = append(ops, fmt.Sprintf("collect %s %s %d %d", kit.Esc(T), kit.Esc(id), l, tm))
	}
	for len(ops) < size {
		T := kit.Pick(r, topics)
		id := kit.Pick(r, ids)
		switch k := r.Intn(100); {
		case k < 66:
			collect(T, id)
		case k < 74:
			tm += int64(r.Range(1, 9))
			l := r.Intn(4)
			last[T+"/"+id] = l
			ops = append(ops, fmt.Sprintf("update %s %s %d %d", kit.Esc(T), kit.Esc(id), l, tm))
		case k < 84:
			ops = append(ops, "close "+kit.Esc(T))
			if r.Chance(1, 2) {
				ops = append(ops, "restore "+kit.Esc(T))
			}
			if r.Chance(2, 3) {
				collect(T, id) // Collect on a closed topic: restoreClosedTopic first
			}
		case k < 90:
			ops = append(ops, "restore "+kit.Esc(T))
		default:
			ops = append(ops, "deltopic "+kit.Esc(T))
			for _, i := range ids {
				last[T+"/"+i] = 0
			}
		}
	}
	return mode, ops
}

// genNode: points for one alert node over 1–3 ids.
func genNode(r *kit.Rand, size int, cfgNo int) (mode string, ops []string) {
	cfgs := [][4]int{{1, 1, 0, 0}, {1, 0, 0, 0}, {1, 1, 1, 0}, {0, 1, 0, 0}, {1, 1, 1, 0}, {1, 1, 0, 1}, {1, 0, 1, 0}, {0, 1, 1, 1}, {1, 1, 1, 1}, {1, 1, 1, 0}}
	c := cfgs[cfgNo%len(cfgs)]
	mode = fmt.Sprintf("mode node %d %d %d %d", c[0], c[1], c[2], c[3])
	nI := r.Range(1, 3)
	ids := idPool[:nI]
	last := map[string]int{}
	tm := int64(1000)
	for len(ops) < size {
		if r.Chance(1, 12) {
			ops = append(ops, "taskrestart")
			continue
		}
		id := kit.Pick(r, ids)
		tm += int64(r.Range(1, 9))
		l := nextLevel(r, last[id])
		last[id] = l
		ops = append(ops, fmt.Sprintf("point %s %d %d", kit.Esc(id), l, tm))
	}
	return mode, ops
}

// crashLines enumerates the crash points of one class:
//
//	"a": after every completed operation;
//	"b": right before the m-th transaction of every operation (the notify-before-persist window);
//	"c": right after the m-th transaction of every operation (between the two Collects of one event, after a
//	     reconciling UpdateEvent, … and, when it is the last one, the same as class a).
func crashLines(ops []string, class string, maxTx int) []string {
	var out []string
	for k := range ops {
		switch class {
		case "a":
			out = append(out, fmt.Sprintf("crash %d 0 post", k))
		case "b":
			for m := 1; m <= maxTx; m++ {
				out = append(out, fmt.Sprintf("crash %d %d pre", k, m))
			}
		case "c":
			for m := 1; m <= maxTx; m++ {
				out = append(out, fmt.Sprintf("crash %d %d post", k, m))
			}
		}
	}
	return out
}

func mkCase(mode string, ops []string, class string, maxTx int) []string {
	lines := append([]string{mode}, ops...)
	lines = append(lines, "uninterrupted")
	return append(lines, crashLines(ops, class, maxTx)...)
}

func generate(out *kit.Out, f kit.Flags) int {
	r := kit.NewRand(f.Seed)
	for i := 0; i < f.N; i++ {
		rr := r.Fork()
		if i%4 == 3 {
			// node level: about a quarter of the cases (each restart starts a TaskMaster and a task)
			size := 2 + rr.Intn(6)
			if f.Tier == "thorough" {
				size = 2 + rr.Intn(10)
			}
			mode, ops := genNode(rr, size, i/4+int(f.Seed))
			for _, class := range []string{"a", "b", "c"} {
				if rc := runAndEmit(out, fmt.Sprintf("n%d%s", i, class), mkCase(mode, ops, class, 3)); rc != 0 {
					return rc
				}
			}
			continue
		}
		size := 3 + rr.Intn(9)
		if f.Tier == "thorough" {
			size = 3 + rr.Intn(20)
		}
		mode, ops := genSvc(rr, size)
		for _, class := range []string{"a", "b"} {
			if rc := runAndEmit(out, fmt.Sprintf("s%d%s", i, class), mkCase(mode, ops, class, 1)); rc != 0 {
				return rc
			}
		}
	}
	return 0
}
