package c08

import (
	"fmt"
	"strings"

	"verifharness/kit"
)

var topicPool = []string{"t1", "t2", "main:x"}
var idPool = []string{"a", "b", "c", "é x", "b,c"}

// nextLevel is branch directed: recoveries, repeats, escalations and de-escalations all occur often.
func nextLevel(r *kit.Rand, last int) int {
	switch k := r.Intn(100); {
	case k < 30:
		return 0 // recovery (or OK on OK)
	case k < 45:
		return last // repeat
	case k < 60 && last < 3:
		return last + 1
	case k < 70 && last > 1:
		return last - 1
	default:
		return r.Intn(4)
	}
}

// genSvc: a history of service operations over 1–3 topics and 2–4 ids.
func genSvc(r *kit.Rand, size int) (mode string, ops []string) {
	nT, nI := r.Range(1, 3), r.Range(2, 4)
	topics := topicPool[:nT]
	ids := make([]string, nI)
	off := r.Intn(len(idPool))
	for i := range ids {
		ids[i] = idPool[(off+i)%len(idPool)]
	}
	mode = "mode svc"
	for _, t := range topics {
		mode += " " + kit.Esc(t)
	}
	last := map[string]int{}
	since := map[string]int64{} // when the id left OK (duration = time - since: 0 for its FIRST non-OK event)
	tm := int64(1000)
	msgs := []string{"", "", "disk full", "m2"}
	dets := []string{"", "", "<b>d</b>"}
	// extras: the parts of an event state whose JSON is omitted when empty. Histories mix ids that have had exactly
	// one non-OK event (duration 0) with ids that are non-OK for long, and empty with non-empty message/details.
	extras := func(key string, l int) string {
		if l == 0 {
			delete(since, key)
		} else if _, ok := since[key]; !ok {
			since[key] = tm
		}
		d := int64(0)
		if l != 0 {
			d = (tm - since[key]) * 1000
		} else if r.Chance(1, 2) {
			d = int64(r.Range(1, 50)) * 1000 // a recovery reports how long the alert lasted
		}
		m, x := kit.Pick(r, msgs), kit.Pick(r, dets)
		if d == 0 && m == "" && x == "" {
			return ""
		}
		return fmt.Sprintf(" %d %s %s", d, kit.Esc(m), kit.Esc(x))
	}
	collect := func(T, id string) {
		tm += int64(r.Range(1, 9))
		l := nextLevel(r, last[T+"/"+id])
		last[T+"/"+id] = l
		ops = append(ops, fmt.Sprintf("collect %s %s %d %d", kit.Esc(T), kit.Esc(id), l, tm)+extras(T+"/"+id, l))
	}
	for len(ops) < size {
		T := kit.Pick(r, topics)
		id := kit.Pick(r, ids)
		switch k := r.Intn(100); {
		case k < 66:
			collect(T, id)
		case k < 74:
			tm += int64(r.Range(1, 9))
			l := r.Intn(4)
			last[T+"/"+id] = l
			ops = append(ops, fmt.Sprintf("update %s %s %d %d", kit.Esc(T), kit.Esc(id), l, tm)+extras(T+"/"+id, l))
		case k < 84:
			ops = append(ops, "close "+kit.Esc(T))
			if r.Chance(1, 2) {
				ops = append(ops, "restore "+kit.Esc(T))
			}
			if r.Chance(2, 3) {
				collect(T, id) // Collect on a closed topic: restoreClosedTopic first
			}
		case k < 90:
			ops = append(ops, "restore "+kit.Esc(T))
		default:
			ops = append(ops, "deltopic "+kit.Esc(T))
			for _, i := range ids {
				last[T+"/"+i] = 0
				delete(since, T+"/"+i)
			}
		}
	}
	return mode, ops
}

// genNode: points for one alert node over 1–3 ids.
func genNode(r *kit.Rand, size int, cfgNo int) (mode string, ops []string) {
	cfgs := [][4]int{{1, 1, 0, 0}, {1, 0, 0, 0}, {1, 1, 1, 0}, {0, 1, 0, 0}, {1, 1, 1, 0}, {1, 1, 0, 1}, {1, 0, 1, 0}, {0, 1, 1, 1}, {1, 1, 1, 1}, {1, 1, 1, 0}}
	c := cfgs[cfgNo%len(cfgs)]
	mode = fmt.Sprintf("mode node %d %d %d %d", c[0], c[1], c[2], c[3])
	nI := r.Range(1, 4)
	ids := make([]string, nI)
	off := r.Intn(len(idPool))
	for i := range ids {
		ids[i] = idPool[(off+2*i)%len(idPool)] // 2-4 ids in a mixed (not bytewise) order of first appearance
	}
	last := map[string]int{}
	tm := int64(1000)
	for len(ops) < size {
		if r.Chance(1, 12) {
			ops = append(ops, "taskrestart")
			continue
		}
		id := kit.Pick(r, ids)
		tm += int64(r.Range(1, 9))
		l := nextLevel(r, last[id])
		last[id] = l
		note := ""
		if r.Chance(1, 2) {
			note = " " + kit.Pick(r, []string{"n1", "rack%207"})
		}
		ops = append(ops, fmt.Sprintf("point %s %d %d", kit.Esc(id), l, tm)+note)
	}
	return mode, ops
}

// crashLines enumerates the crash points of one class:
//
//	"a": after every completed operation;
//	"b": right before the m-th transaction of every operation (the notify-before-persist window);
//	"c": right after the m-th transaction of every operation (between the two Collects of one event, after a
//	     reconciling UpdateEvent, … and, when it is the last one, the same as class a).
func crashLines(ops []string, class string, maxTx int) []string {
	var out []string
	lastV1 := -1
	for k, o := range ops {
		if strings.HasPrefix(o, "v1 ") {
			lastV1 = k
		}
	}
	for k := range ops {
		if k < lastV1 || (k == lastV1 && class != "a") {
			continue // the version 1 content is migrated in one go at the first Open
		}
		switch class {
		case "a":
			out = append(out, fmt.Sprintf("crash %d 0 post", k))
		case "b":
			for m := 1; m <= maxTx; m++ {
				out = append(out, fmt.Sprintf("crash %d %d pre", k, m))
			}
		case "c":
			for m := 1; m <= maxTx; m++ {
				out = append(out, fmt.Sprintf("crash %d %d post", k, m))
			}
		}
	}
	return out
}

func mkCase(mode string, ops []string, class string, maxTx int) []string {
	lines := append([]string{mode}, ops...)
	lines = append(lines, "uninterrupted")
	return append(lines, crashLines(ops, class, maxTx)...)
}

// crash2Lines samples pairs of crash points (the second one relative to the operations remaining after the
// first); directed at "first crash in the middle of an operation, second crash early in the restarted run".
func crash2Lines(r *kit.Rand, first, nOps, n, maxTx int) []string {
	var out []string
	ph := []string{"pre", "post"}
	for i := 0; i < n && nOps-first >= 2; i++ {
		k := first + r.Intn(nOps-first-1)
		m, p := r.Range(1, maxTx), kit.Pick(r, ph)
		if r.Chance(1, 4) {
			m, p = 0, "post"
		}
		rest := nOps - k - 1
		k2 := 0
		if r.Chance(1, 3) {
			k2 = r.Intn(rest)
		}
		m2, p2 := r.Range(1, maxTx), kit.Pick(r, ph)
		if r.Chance(1, 4) {
			m2, p2 = 0, "post"
		}
		out = append(out, fmt.Sprintf("crash2 %d %d %s %d %d %s", k, m, p, k2, m2, p2))
	}
	return out
}

// withFailures marks some operations that have a storage transaction as failing.
func withFailures(r *kit.Rand, ops []string) []string {
	out := make([]string, len(ops))
	for i, o := range ops {
		out[i] = o
		if (strings.HasPrefix(o, "collect ") || strings.HasPrefix(o, "update ") || strings.HasPrefix(o, "deltopic ")) && r.Chance(1, 4) {
			out[i] = "failtx 1 " + o
		}
	}
	return out
}

// v1Lines: event states that exist in the VERSION 1 topic store layout before the first Open.
func v1Lines(r *kit.Rand, mode string) []string {
	topics := strings.Fields(mode)[2:]
	var out []string
	used := map[string]bool{}
	for n := r.Range(1, 4); n > 0; n-- {
		T, id := kit.Pick(r, topics), kit.Pick(r, idPool)
		if used[T+"/"+id] {
			continue
		}
		used[T+"/"+id] = true
		out = append(out, fmt.Sprintf("v1 %s %s %d %d", T, kit.Esc(id), r.Intn(4), 500+len(out)))
	}
	return out
}

func generate(out *kit.Out, f kit.Flags) int {
	r := kit.NewRand(f.Seed)
	for i := 0; i < f.N; i++ {
		rr := r.Fork()
		if i%12 == 10 {
			// one case in twelve: process deaths inside the V1->V2 topic-store migration (mig.go)
			if rc := runAndEmit(out, fmt.Sprintf("m%d", i), genMig(rr)); rc != 0 {
				return rc
			}
			continue
		}
		if i%4 == 3 {
			// node level: about a quarter of the cases (each restart starts a TaskMaster and a task)
			size := 2 + rr.Intn(6)
			if f.Tier == "thorough" {
				size = 2 + rr.Intn(10)
			}
			mode, ops := genNode(rr, size, i/4+int(f.Seed))
			for _, class := range []string{"a", "b", "c"} {
				if rc := runAndEmit(out, fmt.Sprintf("n%d%s", i, class), mkCase(mode, ops, class, 3)); rc != 0 {
					return rc
				}
			}
			if len(ops) >= 3 {
				lines := append(append([]string{mode}, ops...), "uninterrupted")
				lines = append(lines, crash2Lines(rr, 0, len(ops), 5, 2)...)
				if rc := runAndEmit(out, fmt.Sprintf("n%dd", i), lines); rc != 0 {
					return rc
				}
			}
			continue
		}
		size := 3 + rr.Intn(9)
		if f.Tier == "thorough" {
			size = 3 + rr.Intn(20)
		}
		mode, ops := genSvc(rr, size)
		switch i % 8 {
		case 1: // storage failures
			ops = withFailures(rr, ops)
		case 5: // the store starts in the version 1 layout: MigrateTopicStoreV1V2 runs at the first Open
			ops = append(v1Lines(rr, mode), ops...)
		}
		for _, class := range []string{"a", "b"} {
			if rc := runAndEmit(out, fmt.Sprintf("s%d%s", i, class), mkCase(mode, ops, class, 1)); rc != 0 {
				return rc
			}
		}
		if i%2 == 0 {
			lines := append(append([]string{mode}, ops...), "uninterrupted")
			first := 0
			for k, o := range ops {
				if strings.HasPrefix(o, "v1 ") {
					first = k + 1
				}
			}
			lines = append(lines, crash2Lines(rr, first, len(ops), 6, 1)...)
			if rc := runAndEmit(out, fmt.Sprintf("s%dd", i), lines); rc != 0 {
				return rc
			}
		}
	}
	return 0
}
