package c08

// Mode "mig": process deaths INSIDE Service.MigrateTopicStoreV1V2 (services/alert/migrate_topic_store.go).
//
// The REAL alertservice.Service.Open runs on a REAL Bolt file owned by the harness (as openProc does). The sub-steps
// of one migration call are (model Kap/Model/C08Mig.lean, `migSteps`)
//
//	[rmStale, copyBak, txWriteV2, txDeleteV1, txSetVersion, rmBak]
//
// and "crash at j" (j = 0..6) = the pair (database file, backup file <db>.v1.bak or none) as it stands after the
// first j of them:
//
//	j=0  the files before Open
//	j=1  the database before Open, the backup removed                     (constructed: os.RemoveAll cannot be hooked)
//	j=2  right BEFORE the Update on namespace topic_states_store begins   (hook `hooked`, store.go; backup exists now)
//	j=3  right after that Update committed
//	j=4  right after the transaction of topicsDAO.DeleteMultiple on namespace alert_store committed
//	     (before the index Rebuild that follows it, which the model abstracts)
//	j=5  right after Versions().Set(topic_store_version, "2") committed   (the backup is still there)
//	j=6  after Open returned
//
// At every hook a consistent copy of the Bolt file is taken (snapStore.snapshot) and the backup file is copied if it
// exists. Restart = the pair is put into a fresh directory as main.db / main.db.v1.bak and a fresh service is opened.
// When the version key is already "2" the call has no sub-steps: only j=0 exists.
//
// Case format (the first line must be exactly `mode mig`):
//
//	mode mig
//	v1 <T> <id> <level> <time>    event state in the VERSION 1 layout before the first Open (writeV1); id may be `%` (empty)
//	v2 <T> <id> <level> <time>    event state ALREADY in the V2 layout (namespace topic_states_store, bucket T, key id,
//	                              JSON of alertservice.EventState), the version key still unset; id non-empty
//	stale <0|1>                   a left-over main.db.v1.bak (a copy of the initial database) exists before the first Open
//	uninterrupted                 => <run>                       one Open on the initial files
//	migcrash <j>                  => at <fs> re <run>  | none    files at the crash point, then the restart on them
//	migcrash2 <j1> <j2>           => at <fs> re <run>  | none    second death at sub-step j2 of the attempt restarted after
//	                                                             the first; <fs> = files at the SECOND crash point
//	migfail <n>                   => <run> re <run>              the n-th migration transaction (1 = write V2, 2 = delete
//	                                                             V1, 3 = set version) FAILS without a crash (its function
//	                                                             runs, nothing commits, the caller gets an error), then a
//	                                                             second Open on the files the failed one left
//	<run> = open <ok|err> mem <dump> <fs>          | panic       (mem = topic API state of the opened service, `-` if err)
//	<fs>  = ver <0|1|err> v1 <dump> v2 <dump> bak <0|1> bakdb <-| ver <0|1|err> v1 <dump> v2 <dump>>
//
// Dumps: renderDump (store.go). v1 = alertservice.NewTopicStateKV(alert_store).List on a plain Bolt open of a scratch
// copy of the file (no service); v2 = diskDump; ver = Versions().Get(topic_store_version) == "2"; `ver err` = the file
// cannot be read.

import (
	"fmt"
	"os"
	"path/filepath"
	"sort"
	"strings"
	"time"

	"github.com/influxdata/kapacitor/alert"
	alertservice "github.com/influxdata/kapacitor/services/alert"
	"github.com/influxdata/kapacitor/services/storage"

	"verifharness/kit"
)

// migHooks identifies the three transactions of MigrateTopicStoreV1V2 within one Service.Open.
//
// Open runs other transactions as well: on alert_store (migrateHandlerSpecs; the index Rebuild inside
// DeleteMultiple) and on the versions namespace (the handler-spec version key). They are told apart by PHASE, not by
// counting from the start of Open:
//
//	phase 0  the Update on topic_states_store has not run yet. During Open that namespace is written by the migration
//	         only (loadSavedTopicStates uses View), so the FIRST Update on it is txWriteV2. Every alert_store
//	         transaction seen in this phase belongs to the handler-spec code that runs before the migration.
//	phase 1  txWriteV2 is over. The FIRST alert_store Update from here on is the transaction of DeleteMultiple.
//	phase 2  that one is over; further alert_store Updates (the Rebuild) are passed through uncounted.
//	         Versions().Set with the key topic_store_version is txSetVersion (any other key is passed through).
//	phase 3  txSetVersion is over.
type migHooks struct {
	phase int
	failN int         // the n-th migration transaction fails (0: none)
	at    func(j int) // the files now stand as after j sub-steps
}

// migAlertStore wraps the store of namespace alert_store (mode mig only, see snapStore.Store).
type migAlertStore struct {
	storage.Interface
	m *migHooks
}

func (a *migAlertStore) Update(f func(storage.Tx) error) error {
	if a.m.phase != 1 {
		return a.Interface.Update(f)
	}
	if a.m.failN == 2 {
		err := a.Interface.Update(func(tx storage.Tx) error {
			if e := f(tx); e != nil {
				return e
			}
			return errInjected
		})
		a.m.phase = 2
		return err
	}
	err := a.Interface.Update(f)
	a.m.phase = 2
	if err == nil {
		a.m.at(4)
	}
	return err
}

// migVersions wraps storage.Versions (mode mig only, see snapStore.Versions).
type migVersions struct {
	storage.Versions
	m *migHooks
}

func (v *migVersions) Set(id, version string) error {
	if id != alertservice.TopicStoreVersionKey {
		return v.Versions.Set(id, version)
	}
	if v.m.failN == 3 {
		v.m.phase = 3
		return errInjected
	}
	err := v.Versions.Set(id, version)
	v.m.phase = 3
	if err == nil {
		v.m.at(5)
	}
	return err
}

// migFiles is the file system of the model: the database and (bak != "") the backup copy.
type migFiles struct{ db, bak string }

func exists(p string) bool { _, err := os.Stat(p); return err == nil }

// readDB reads version flag, V1 layout and V2 layout from a scratch copy of a Bolt file, without any service.
func readDB(path string, topics []string) string {
	bad := "ver err v1 - v2 -"
	tmp := path + ".rd"
	if err := copyFile(path, tmp); err != nil {
		return bad
	}
	defer os.Remove(tmp)
	st, err := openStore(tmp)
	if err != nil {
		return bad
	}
	defer st.db.Close()
	ver, err := st.versions.Get(alertservice.TopicStoreVersionKey)
	if err != nil && err != storage.ErrNoKeyExists {
		return bad
	}
	dao, err := alertservice.NewTopicStateKV(storage.NewBolt(st.db, []byte(alertservice.AlertNameSpace)))
	if err != nil {
		return bad
	}
	states, err := dao.List("", 0, -1)
	if err != nil {
		return bad
	}
	found := map[string][]string{}
	for _, ts := range states {
		var r []string
		for id, e := range ts.EventStates {
			r = append(r, esTok(id, e.Level, e.Time.UnixNano(), e.Duration, e.Message, e.Details))
		}
		sort.Strings(r)
		found[ts.Topic] = r
	}
	v2 := diskDump(st, topics)
	if v2 == "err" {
		return bad
	}
	b := "0"
	if ver == alertservice.TopicStoreVersion2 {
		b = "1"
	}
	return fmt.Sprintf("ver %s v1 %s v2 %s", b, renderDump(found, topics), v2)
}

func fsObs(f migFiles, topics []string) string {
	if f.bak == "" {
		return readDB(f.db, topics) + " bak 0 bakdb -"
	}
	return readDB(f.db, topics) + " bak 1 bakdb " + readDB(f.bak, topics)
}

func filesIn(dir string) migFiles {
	f := migFiles{db: filepath.Join(dir, "main.db")}
	if b := f.db + alertservice.TopicStoreBackupSuffix; exists(b) {
		f.bak = b
	}
	return f
}

// place puts a pair of files into a fresh directory as main.db / main.db.v1.bak.
func place(f migFiles, dir string) error {
	if err := os.MkdirAll(dir, 0700); err != nil {
		return err
	}
	db := filepath.Join(dir, "main.db")
	if err := copyFile(f.db, db); err != nil {
		return err
	}
	if f.bak != "" {
		return copyFile(f.bak, db+alertservice.TopicStoreBackupSuffix)
	}
	return nil
}

// migRun is one process start.
type migRun struct {
	obs   string           // <run>
	snaps map[int]migFiles // crash point j -> the files as they stood (only with snapDir != "")
}

// migAttempt opens a fresh service on dir/main.db (a real Service.Open, hence a real MigrateTopicStoreV1V2) and
// closes it again. With snapDir != "" the files are copied at every sub-step boundary; failN = n makes the n-th
// migration transaction fail.
func migAttempt(cfg *caseCfg, dir string, failN int, snapDir string) (*migRun, error) {
	res := &migRun{snaps: map[int]migFiles{}}
	start := filesIn(dir)
	// record(j, copyDB): the database copied by copyDB, the backup copied if it exists at this moment
	record := func(j int, copyDB func(dst string) error) error {
		if snapDir == "" {
			return nil
		}
		f := migFiles{db: filepath.Join(snapDir, fmt.Sprintf("j%d.db", j))}
		if err := copyDB(f.db); err != nil {
			return err
		}
		if b := start.db + alertservice.TopicStoreBackupSuffix; exists(b) {
			f.bak = f.db + ".bak"
			if err := copyFile(b, f.bak); err != nil {
				return err
			}
		}
		res.snaps[j] = f
		return nil
	}
	plain := func(dst string) error { return copyFile(start.db, dst) }
	if snapDir != "" {
		if err := os.MkdirAll(snapDir, 0700); err != nil {
			return nil, err
		}
	}
	if err := record(0, plain); err != nil {
		return nil, err
	}
	// version key already "2": the call returns at once, there are no sub-steps
	hasSteps := !strings.HasPrefix(readDB(start.db, nil), "ver 1 ")
	if hasSteps && snapDir != "" {
		res.snaps[1] = migFiles{db: res.snaps[0].db} // the database as before Open, the backup removed
	}

	st, err := openStore(start.db)
	if err != nil {
		return nil, err
	}
	m := &migHooks{failN: failN}
	var hookErr error // a failure of the harness itself inside a hook (never reported as an observation)
	m.at = func(j int) {
		if e := record(j, st.snapshot); e != nil && hookErr == nil {
			hookErr = e
		}
	}
	st.mig = m
	// the Update on topic_states_store: txWriteV2 (phase 0 only, see migHooks)
	failing := false
	st.setHooks(
		func() {
			if m.phase == 0 {
				m.at(2)
			}
		},
		func() {
			if m.phase == 0 {
				m.phase = 1
				if !failing {
					m.at(3)
				}
			}
		},
		func() bool {
			failing = m.phase == 0 && m.failN == 1
			return failing
		})
	as := alertservice.NewService(kit.Diag().NewAlertServiceHandler(), nil, 0)
	as.PersistTopics = true
	as.StorageService = st
	as.HTTPDService = httpdService()
	opened, panicked := false, false
	func() {
		defer func() {
			if r := recover(); r != nil {
				panicked = true
			}
		}()
		opened = as.Open() == nil
	}()
	st.setHooks(nil, nil, nil)
	st.mig = nil
	mem := "-"
	if opened {
		mem = memDump(as, cfg.topics)
		as.Close()
	}
	st.db.Close()
	if hookErr != nil {
		return nil, hookErr
	}
	if panicked {
		res.obs = "panic"
		return res, nil
	}
	if opened && hasSteps {
		if err := record(6, plain); err != nil {
			return nil, err
		}
	}
	o := "err"
	if opened {
		o = "ok"
	}
	res.obs = fmt.Sprintf("open %s mem %s %s", o, mem, fsObs(filesIn(dir), cfg.topics))
	return res, nil
}

// writeV2 adds event states in the V2 layout: namespace topic_states_store, bucket <topic>, key <id>, value = JSON of
// alertservice.EventState (what Service.persistEventState writes and LoadTopicBucket reads).
func writeV2(dbPath string, recs [][]string) error {
	st, err := openStore(dbPath)
	if err != nil {
		return err
	}
	defer st.db.Close()
	if len(recs) == 0 {
		return nil
	}
	store := storage.NewBolt(st.db, []byte(alertservice.TopicStatesNameSpace))
	return store.Update(func(tx storage.Tx) error {
		for _, t := range recs {
			es := alertservice.EventState{Level: alert.Level(atoi(t[3])), Time: time.Unix(0, atoi(t[4])).UTC()}
			data, err := es.MarshalJSON()
			if err != nil {
				return err
			}
			if err := tx.Bucket([]byte(un(t[1]))).Put(un(t[2]), data); err != nil {
				return err
			}
		}
		return nil
	})
}

func isMigCase(lines []string) bool {
	for _, l := range lines {
		t := strings.Fields(strip(l))
		if len(t) == 0 {
			continue
		}
		return len(t) == 2 && t[0] == "mode" && t[1] == "mig"
	}
	return false
}

// execMig runs one `mode mig` case and returns its lines with observations.
func execMig(lines []string) (out []string, err error) {
	dir := caseDir()
	defer os.RemoveAll(dir)
	cfg := &caseCfg{}
	var v1 []histOp
	var v2, body [][]string
	var raw []string
	stale := false
	seenT := map[string]bool{}
	for _, l := range lines {
		l = strip(l)
		t := strings.Fields(l)
		if len(t) == 0 {
			continue
		}
		raw = append(raw, l)
		body = append(body, t)
		switch {
		case (t[0] == "v1" || t[0] == "v2") && len(t) == 5:
			if t[0] == "v1" {
				v1 = append(v1, histOp{t: t})
			} else {
				if un(t[2]) == "" {
					return nil, fmt.Errorf("bad line %q: bbolt has no empty keys", l)
				}
				v2 = append(v2, t)
			}
			if T := un(t[1]); !seenT[T] {
				seenT[T] = true
				cfg.topics = append(cfg.topics, T)
			}
		case t[0] == "stale" && len(t) == 2:
			stale = t[1] == "1"
		}
	}

	// the initial files
	initDir := filepath.Join(dir, "init")
	if err := os.MkdirAll(initDir, 0700); err != nil {
		return nil, err
	}
	mainDB := filepath.Join(initDir, "main.db")
	if err := writeV1(mainDB, v1); err != nil {
		return nil, err
	}
	if err := writeV2(mainDB, v2); err != nil { // creates the file if there was no v1 line
		return nil, err
	}
	if stale {
		if err := copyFile(mainDB, mainDB+alertservice.TopicStoreBackupSuffix); err != nil {
			return nil, err
		}
	}
	seq := 0
	fresh := func(f migFiles) (string, error) {
		seq++
		d := filepath.Join(dir, fmt.Sprintf("p%d", seq))
		return d, place(f, d)
	}
	snapDir := func() string { seq++; return filepath.Join(dir, fmt.Sprintf("s%d", seq)) }

	// run 1: one Open on the initial files, the files copied at every sub-step boundary
	d1, err := fresh(filesIn(initDir))
	if err != nil {
		return nil, err
	}
	r1, err := migAttempt(cfg, d1, 0, snapDir())
	if err != nil {
		return nil, err
	}
	restart := func(f migFiles) (string, error) {
		at := fsObs(f, cfg.topics)
		d, err := fresh(f)
		if err != nil {
			return "", err
		}
		r, err := migAttempt(cfg, d, 0, "")
		if err != nil {
			return "", err
		}
		if r.obs == "panic" {
			return "panic", nil
		}
		return "at " + at + " re " + r.obs, nil
	}
	for i, t := range body {
		obs := ""
		switch {
		case t[0] == "mode" || t[0] == "v1" || t[0] == "v2" || t[0] == "stale":
			out = append(out, raw[i])
			continue
		case t[0] == "uninterrupted" && len(t) == 1:
			obs = r1.obs
		case t[0] == "migcrash" && len(t) == 2:
			f, ok := r1.snaps[int(atoi(t[1]))]
			if !ok {
				obs = "none"
			} else if obs, err = restart(f); err != nil {
				return nil, err
			}
		case t[0] == "migcrash2" && len(t) == 3:
			f, ok := r1.snaps[int(atoi(t[1]))]
			if !ok {
				obs = "none"
				break
			}
			d, err := fresh(f)
			if err != nil {
				return nil, err
			}
			rb, err := migAttempt(cfg, d, 0, snapDir())
			if err != nil {
				return nil, err
			}
			f2, ok := rb.snaps[int(atoi(t[2]))]
			if rb.obs == "panic" {
				obs = "panic"
			} else if !ok {
				obs = "none"
			} else if obs, err = restart(f2); err != nil {
				return nil, err
			}
		case t[0] == "migfail" && len(t) == 2:
			n := int(atoi(t[1]))
			if n < 1 || n > 3 {
				return nil, fmt.Errorf("bad line %q", raw[i])
			}
			d, err := fresh(filesIn(initDir))
			if err != nil {
				return nil, err
			}
			ra, err := migAttempt(cfg, d, n, "")
			if err != nil {
				return nil, err
			}
			rb, err := migAttempt(cfg, d, 0, "")
			if err != nil {
				return nil, err
			}
			if ra.obs == "panic" || rb.obs == "panic" {
				obs = "panic"
			} else {
				obs = ra.obs + " re " + rb.obs
			}
		default:
			return nil, fmt.Errorf("bad line %q", raw[i])
		}
		out = append(out, raw[i]+" => "+obs)
	}
	return out, nil
}

// genMig: 1–4 v1 records over <= 2 topics (sometimes the empty id, sometimes two ids in one topic), 0–2 records already
// in the V2 layout (two thirds of them under the (topic, id) of a v1 record: the migration must overwrite them; the
// others must stay), with/without a stale backup; every crash point, some pairs of crash points, every failing
// transaction.
func genMig(r *kit.Rand) []string {
	lines := []string{"mode mig"}
	off := r.Intn(len(topicPool))
	topics := []string{topicPool[off]}
	if r.Chance(1, 2) {
		topics = append(topics, topicPool[(off+1)%len(topicPool)])
	}
	type key struct{ T, id string }
	used := map[key]bool{}
	var v1keys []key
	nV1 := r.Range(1, 4)
	for n := 0; n < nV1; n++ {
		T, id := kit.Pick(r, topics), kit.Pick(r, idPool)
		if n == 1 && r.Chance(1, 2) {
			T = v1keys[0].T // two ids in one topic
		}
		if (n > 0 && r.Chance(1, 3)) || (n == 0 && r.Chance(1, 10)) {
			id = "" // mostly next to a record that does migrate; rarely the only one
		}
		if used[key{T, id}] {
			continue
		}
		used[key{T, id}] = true
		v1keys = append(v1keys, key{T, id})
		lines = append(lines, fmt.Sprintf("v1 %s %s %d %d", kit.Esc(T), kit.Esc(id), r.Intn(4), 500+n))
	}
	usedV2 := map[key]bool{}
	for n, nV2 := 0, r.Intn(3); n < nV2; n++ {
		k := key{kit.Pick(r, topicPool), kit.Pick(r, idPool)}
		if r.Chance(2, 3) {
			k = kit.Pick(r, v1keys)
		}
		if k.id == "" || usedV2[k] {
			continue
		}
		usedV2[k] = true
		lines = append(lines, fmt.Sprintf("v2 %s %s %d %d", kit.Esc(k.T), kit.Esc(k.id), r.Intn(4), 300+n))
	}
	lines = append(lines, fmt.Sprintf("stale %d", r.Intn(2)), "uninterrupted")
	for j := 0; j <= 6; j++ {
		lines = append(lines, fmt.Sprintf("migcrash %d", j))
	}
	// two deaths: the first mostly while the backup exists, the second anywhere in the restarted attempt; one after the
	// version key was set (the restarted attempt has no sub-steps: only j2 = 0 exists)
	lines = append(lines, fmt.Sprintf("migcrash2 %d %d", r.Range(2, 4), r.Range(2, 5)))
	lines = append(lines, fmt.Sprintf("migcrash2 %d %d", r.Range(0, 4), r.Range(0, 6)))
	if r.Chance(1, 2) {
		lines = append(lines, fmt.Sprintf("migcrash2 %d %d", r.Range(5, 6), r.Intn(3)))
	}
	for n := 1; n <= 3; n++ {
		lines = append(lines, fmt.Sprintf("migfail %d", n))
	}
	return lines
}
