package c08

import (
	"errors"
	"fmt"
	"os"
	"path/filepath"
	"sort"
	"strings"
	"sync"
	"time"

	"github.com/influxdata/kapacitor/alert"
	alertservice "github.com/influxdata/kapacitor/services/alert"
	"github.com/influxdata/kapacitor/services/storage"
	bolt "go.etcd.io/bbolt"

	"verifharness/kit"
)

// snapStore is the harness-owned StorageService: a REAL Bolt file whose topic-state namespace is wrapped so
// that the harness is called right before every Update transaction begins and right after it returned
// (committed or rolled back). It satisfies services/alert.StorageService.
type snapStore struct {
	db       *bolt.DB
	path     string
	versions storage.Versions
	reg      *storage.StoreActionerRegistrar
	diag     storage.Diagnostic

	mu   sync.Mutex
	pre  func() // before the m-th Update on topic_states_store
	post func()
	fail func() bool // should the Update that is about to run fail (its function runs, then the tx rolls back)?

	// mode mig only (mig.go), set before Open: hooks on the alert_store namespace and on Versions().Set
	mig *migHooks
}

var errInjected = errors.New("injected storage failure")

func openStore(path string) (*snapStore, error) {
	// NoSync: the harness never kills the process, it copies the file inside a read transaction.
	db, err := bolt.Open(path, 0600, &bolt.Options{NoSync: true, NoFreelistSync: true})
	if err != nil {
		return nil, err
	}
	s := &snapStore{db: db, path: path, reg: storage.NewStorageRegistrar(), diag: kit.Diag().NewStorageHandler()}
	s.versions = storage.NewVersions(storage.NewBolt(db, []byte("versions")))
	return s, nil
}

func (s *snapStore) Store(ns string) storage.Interface {
	inner := storage.NewBolt(s.db, []byte(ns))
	if ns == alertservice.TopicStatesNameSpace {
		return &hooked{Interface: inner, s: s}
	}
	if ns == alertservice.AlertNameSpace && s.mig != nil {
		return &migAlertStore{Interface: inner, m: s.mig}
	}
	return inner
}
func (s *snapStore) Register(name string, store storage.StoreActioner) { s.reg.Register(name, store) }
func (s *snapStore) Versions() storage.Versions {
	if s.mig != nil {
		return &migVersions{Versions: s.versions, m: s.mig}
	}
	return s.versions
}
func (s *snapStore) Diagnostic() storage.Diagnostic { return s.diag }
func (s *snapStore) Path() string                   { return s.path }
func (s *snapStore) CloseBolt() error               { return s.db.Close() }

func (s *snapStore) setHooks(pre, post func(), fail func() bool) {
	s.mu.Lock()
	s.pre, s.post, s.fail = pre, post, fail
	s.mu.Unlock()
}

// snapshot copies the database file as it stands (consistent: taken inside a read transaction).
func (s *snapStore) snapshot(dst string) error {
	return s.db.View(func(tx *bolt.Tx) error { return tx.CopyFile(dst, 0600) })
}

type hooked struct {
	storage.Interface
	s *snapStore
}

func (h *hooked) Update(f func(storage.Tx) error) error {
	h.s.mu.Lock()
	pre, post := h.s.pre, h.s.post
	h.s.mu.Unlock()
	if pre != nil {
		pre()
	}
	h.s.mu.Lock()
	fail := h.s.fail
	h.s.mu.Unlock()
	var err error
	if fail != nil && fail() {
		// the transaction function runs, the commit does not happen (rollback), the caller gets an error
		err = h.Interface.Update(func(tx storage.Tx) error {
			if e := f(tx); e != nil {
				return e
			}
			return errInjected
		})
	} else {
		err = h.Interface.Update(f)
	}
	if post != nil {
		post()
	}
	return err
}

// ---- dumps (sorted, canonical) ----

// esTok renders one event state: id|level|time, and |duration|message|details when one of the three is not empty
// (the fields EventState's JSON omits when empty).
func esTok(id string, level alert.Level, unixNano int64, dur time.Duration, msg, det string) string {
	if dur == 0 && msg == "" && det == "" {
		return fmt.Sprintf("%s|%d|%d", kit.Esc(id), int(level), unixNano)
	}
	return fmt.Sprintf("%s|%d|%d|%d|%s|%s", kit.Esc(id), int(level), unixNano, int64(dur), kit.Esc(msg), kit.Esc(det))
}

func list(xs []string) string {
	if len(xs) == 0 {
		return "-"
	}
	return strings.Join(xs, ",")
}

// diskDump lists every bucket of topic_states_store (plus the case's topics) with its decoded event states.
func diskDump(st *snapStore, topics []string) string {
	found := map[string][]string{}
	store := storage.NewBolt(st.db, []byte(alertservice.TopicStatesNameSpace))
	err := alertservice.WalkTopicBuckets(store, func(tx storage.ReadOnlyTx, topic string) error {
		m, err := alertservice.LoadTopicBucket(tx, []byte(topic))
		if err != nil {
			return err
		}
		var r []string
		for id, e := range m {
			r = append(r, esTok(id, e.Level, e.Time.UnixNano(), e.Duration, e.Message, e.Details))
		}
		sort.Strings(r)
		found[topic] = r
		return nil
	})
	if err != nil {
		return "err"
	}
	return renderDump(found, topics)
}

func renderDump(found map[string][]string, topics []string) string {
	set := map[string]bool{}
	for _, t := range topics {
		set[t] = true
	}
	for t := range found {
		set[t] = true
	}
	var ts []string
	for t := range set {
		ts = append(ts, t)
	}
	sort.Strings(ts)
	var out []string
	for _, t := range ts {
		out = append(out, kit.Esc(t)+"="+list(found[t]))
	}
	if len(out) == 0 {
		return "-"
	}
	return strings.Join(out, ";")
}

// memDump lists every topic the service has in memory (plus the case's topics) with all its event states.
func memDump(as *alertservice.Service, topics []string) string {
	found := map[string][]string{}
	all, _ := as.TopicStates("", alert.OK)
	names := append([]string(nil), topics...)
	for t := range all {
		names = append(names, t)
	}
	for _, t := range names {
		m, err := as.EventStates(t, alert.OK)
		if err != nil {
			continue
		}
		var r []string
		for id, e := range m {
			if id != e.ID {
				r = append(r, "KEYMISMATCH")
			}
			r = append(r, esTok(id, e.Level, e.Time.UnixNano(), e.Duration, e.Message, e.Details))
		}
		sort.Strings(r)
		found[t] = r
	}
	return renderDump(found, topics)
}

// ---- recording handlers: one log per topic ----

type topicRec struct {
	mu  sync.Mutex
	got []string
}

func (h *topicRec) Handle(e alert.Event) {
	h.mu.Lock()
	h.got = append(h.got, esTok(e.State.ID, e.State.Level, e.State.Time.UnixNano(), e.State.Duration, e.State.Message, e.State.Details))
	h.mu.Unlock()
}
func (h *topicRec) snapshot() []string {
	h.mu.Lock()
	defer h.mu.Unlock()
	return append([]string(nil), h.got...)
}

type recs struct {
	topics []string
	by     map[string]*topicRec
	base   map[string]int // events collected by earlier incarnations of the topic (closed / deleted since)
}

func newRecs(topics []string) *recs {
	r := &recs{topics: topics, by: map[string]*topicRec{}, base: map[string]int{}}
	for _, t := range topics {
		r.by[t] = &topicRec{}
	}
	return r
}

func (r *recs) register(as *alertservice.Service, topic string) {
	if h, ok := r.by[topic]; ok {
		as.RegisterAnonHandler(topic, h)
	}
}
func (r *recs) registerAll(as *alertservice.Service) {
	for _, t := range r.topics {
		r.register(as, t)
	}
}

// retire must be called right before the in-memory topic is dropped (CloseTopic/DeleteTopic/task stop).
func (r *recs) retire(as *alertservice.Service, topic string) {
	if ts, ok, _ := as.TopicState(topic); ok {
		r.base[topic] += int(ts.Collected)
	}
}

// counts = how many events have been handed (enqueued) to the handlers of each topic so far.
func (r *recs) counts(as *alertservice.Service) map[string]int {
	c := map[string]int{}
	for _, t := range r.topics {
		n := r.base[t]
		if ts, ok, _ := as.TopicState(t); ok {
			n += int(ts.Collected)
		}
		c[t] = n
	}
	return c
}

func (r *recs) render(upto map[string]int) string {
	found := map[string][]string{}
	for _, t := range r.topics {
		g := r.by[t].snapshot()
		if upto != nil {
			n := upto[t]
			if n > len(g) {
				n = len(g)
				g = append(g[:n:n], "SHORT")
			} else {
				g = g[:n]
			}
		}
		found[t] = g
	}
	return renderDump(found, r.topics)
}

type logPart struct {
	rc   *recs
	upto map[string]int // nil = everything
}

// renderParts concatenates, per topic, the logs of several consecutive processes.
func renderParts(topics []string, parts []logPart) string {
	found := map[string][]string{}
	for _, t := range topics {
		var all []string
		for _, p := range parts {
			g := p.rc.by[t].snapshot()
			if p.upto != nil {
				n := p.upto[t]
				if n > len(g) {
					g = append(g[:len(g):len(g)], "SHORT")
				} else {
					g = g[:n]
				}
			}
			all = append(all, g...)
		}
		found[t] = all
	}
	return renderDump(found, topics)
}

// ---- scratch directory per case ----

func caseDir() string {
	base := os.Getenv("VERIF_SCRATCH")
	if base == "" {
		base = os.TempDir()
	}
	d, err := os.MkdirTemp(base, "c08-")
	if err != nil {
		panic(err)
	}
	return d
}

func snapPath(dir string, k, m int, phase string) string {
	return filepath.Join(dir, fmt.Sprintf("snap-%d-%d-%s.db", k, m, phase))
}
