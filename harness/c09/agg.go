package c09

// Aggregate-handler cases for C09: the REAL services/alert.Service with one `aggregate` handler spec (short
// interval) on a source topic, an anonymous recorder on the aggregate's target topic, Service.Collect on the
// source. The wall-clock ticker decides how the collected events are cut into groups; the harness only waits
// until every collected event has been accounted for (the count is part of the aggregate's message) and prints
// what the recorder saw — the driver accepts any cut and judges the content of every group.

import (
	"fmt"
	"strconv"
	"strings"
	"sync"
	"time"

	"github.com/influxdata/kapacitor/alert"
	alertservice "github.com/influxdata/kapacitor/services/alert"

	"verifharness/kit"
)

type aggRec struct {
	mu  sync.Mutex
	got []string
	sum int
}

func (h *aggRec) Handle(e alert.Event) {
	n := -1
	fmt.Sscanf(e.State.Message, "Received %d events", &n)
	h.mu.Lock()
	h.got = append(h.got, fmt.Sprintf("%d:%d:%d:%d", n, int(e.State.Level), e.State.Time.UnixNano(), int(e.PreviousState().Level)))
	if n > 0 {
		h.sum += n
	}
	h.mu.Unlock()
}

func isAgg(lines []string) bool {
	for _, l := range lines {
		if strings.HasPrefix(strings.TrimSpace(l), "aagg ") {
			return true
		}
	}
	return false
}

func execAggCase(tm *kit.TM, ops []string) (out []string) {
	as := tm.Alert
	un := func(s string) string { v, _ := kit.Unesc(s); return v }
	atoi := func(s string) int64 { v, _ := strconv.ParseInt(s, 10, 64); return v }
	recs := map[string]*aggRec{}
	type key struct{ t, h string }
	var specs []alertservice.HandlerSpec
	anon := map[key]*aggRec{}
	topics := map[string]bool{}
	interval := 20 * time.Millisecond
	seenUpTo := map[string]int{} // per recorder: how many entries / which sum were already reported
	sumUpTo := map[string]int{}
	guard := func(line string, f func() string) {
		defer func() {
			if r := recover(); r != nil {
				out = append(out, line+" => panic")
			}
		}()
		obs := f()
		if obs == "" {
			out = append(out, line)
		} else {
			out = append(out, line+" => "+obs)
		}
	}
	for _, raw := range ops {
		line := raw
		if i := strings.Index(line, " => "); i >= 0 {
			line = line[:i]
		}
		t := strings.Fields(line)
		if len(t) == 0 {
			continue
		}
		switch t[0] {
		case "aagg":
			guard(line, func() string {
				interval = time.Duration(atoi(t[3])) * time.Millisecond
				sp := alertservice.HandlerSpec{ID: un(t[2]), Topic: un(t[1]), Kind: "aggregate",
					Options: map[string]interface{}{"interval": int64(interval), "topic": un(t[4]), "id": un(t[5])}}
				if err := as.RegisterHandlerSpec(sp); err != nil {
					return "err"
				}
				specs = append(specs, sp)
				topics[sp.Topic], topics[un(t[4])] = true, true
				return "ok"
			})
		case "arec":
			guard(line, func() string {
				r, ok := recs[un(t[2])]
				if !ok {
					r = &aggRec{}
					recs[un(t[2])] = r
				}
				as.RegisterAnonHandler(un(t[1]), r)
				anon[key{un(t[1]), un(t[2])}] = r
				return ""
			})
		case "acollect":
			guard(line, func() string {
				as.Collect(alert.Event{Topic: un(t[1]), State: alert.EventState{ID: un(t[2]), Level: alert.Level(atoi(t[3])), Time: time.Unix(0, atoi(t[4])).UTC()}})
				return ""
			})
		case "asleep":
			time.Sleep(time.Duration(atoi(t[1])) * time.Millisecond)
			out = append(out, line)
		case "await":
			guard(line, func() string {
				r := recs[un(t[1])]
				if r == nil {
					return "-"
				}
				want := int(atoi(t[3]))
				deadline := time.Now().Add(10 * time.Second)
				for time.Now().Before(deadline) {
					r.mu.Lock()
					have := r.sum - sumUpTo[un(t[1])]
					r.mu.Unlock()
					if have >= want {
						break
					}
					time.Sleep(2 * time.Millisecond)
				}
				// let two more ticks pass: an aggregate for an empty collection would show up now
				time.Sleep(2*interval + 5*time.Millisecond)
				r.mu.Lock()
				defer r.mu.Unlock()
				fresh := append([]string(nil), r.got[seenUpTo[un(t[1])]:]...)
				seenUpTo[un(t[1])] = len(r.got)
				sumUpTo[un(t[1])] = r.sum
				return list(fresh)
			})
		}
	}
	for _, sp := range specs {
		as.DeregisterHandlerSpec(sp.Topic, sp.ID)
	}
	for k, r := range anon {
		as.DeregisterAnonHandler(k.t, r)
	}
	for t := range topics {
		as.DeleteTopic(t)
	}
	return out
}

// genAggCase: one aggregate spec at0 -> ag0 with a short interval; bursts of collects (levels and times in any
// order, so that "latest" is not "last" and "maximum" is not "last"), each followed by an await; now and then an
// await with nothing pending (a tick on an empty collection must emit nothing).
func genAggCase(r *kit.Rand) []string {
	ops := []string{fmt.Sprintf("aagg at0 h0 %d ag0 agg%d", 15+5*r.Intn(3), r.Intn(2)), "arec ag0 r0"}
	ids := []string{"a", "b", "c"}
	base := int64(7000)
	rounds := 1 + r.Intn(3)
	for i := 0; i < rounds; i++ {
		if r.Chance(1, 4) {
			ops = append(ops, "await r0 ag0 0")
		}
		k := 1 + r.Intn(5)
		for j := 0; j < k; j++ {
			ops = append(ops, fmt.Sprintf("acollect at0 %s %d %d", kit.Pick(r, ids), r.Intn(4), base+int64(r.Intn(50))))
			if j+1 < k && r.Chance(1, 6) {
				ops = append(ops, "asleep 35") // longer than any interval used: a tick cuts the burst in two groups
			}
		}
		base += 100
		ops = append(ops, fmt.Sprintf("await r0 ag0 %d", k))
	}
	return ops
}
