// Package c09 is the harness for property C09: it drives the REAL alert.Topics with generated operation
// histories (collect / update / handler registration churn / topic deletion / restore) and prints, per
// case, the op lines together with what the implementation answered.
package c09

import (
	"fmt"
	"os"
	"runtime/pprof"
	"sort"
	"strconv"
	"strings"
	"sync"
	"time"

	"github.com/influxdata/kapacitor/alert"

	"verifharness/kit"
)

type recHandler struct {
	name string
	mu   sync.Mutex
	got  map[string][]string // topic -> rendered events
}

func (h *recHandler) Handle(e alert.Event) {
	h.mu.Lock()
	h.got[e.Topic] = append(h.got[e.Topic], fmt.Sprintf("%s:%d:%d:%d", kit.Esc(e.State.ID), int(e.State.Level), e.State.Time.UnixNano(), int(e.PreviousState().Level)))
	h.mu.Unlock()
}

func list(xs []string) string {
	if len(xs) == 0 {
		return "-"
	}
	return strings.Join(xs, ",")
}

// execCase runs the op lines of one case on a fresh alert.Topics and returns the lines with observations.
func execCase(ops []string) (out []string) {
	topics := alert.NewTopics(0)
	handlers := map[string]*recHandler{}
	h := func(name string) *recHandler {
		if x, ok := handlers[name]; ok {
			return x
		}
		x := &recHandler{name: name, got: map[string][]string{}}
		handlers[name] = x
		return x
	}
	seenTopics := map[string]bool{}
	closed := false
	guard := func(line string, f func() string) {
		defer func() {
			if r := recover(); r != nil {
				out = append(out, line+" => panic")
			}
		}()
		obs := f()
		if obs == "" {
			out = append(out, line)
		} else {
			out = append(out, line+" => "+obs)
		}
	}
	un := func(s string) string { v, _ := kit.Unesc(s); return v }
	atoi := func(s string) int64 { v, _ := strconv.ParseInt(s, 10, 64); return v }
	for _, raw := range ops {
		line := raw
		if i := strings.Index(line, " => "); i >= 0 {
			line = line[:i]
		}
		t := strings.Fields(line)
		if len(t) == 0 {
			continue
		}
		switch t[0] {
		case "collect":
			seenTopics[un(t[1])] = true
			guard(line, func() string {
				topics.Collect(alert.Event{Topic: un(t[1]), State: alert.EventState{ID: un(t[2]), Level: alert.Level(atoi(t[3])), Time: time.Unix(0, atoi(t[4])).UTC()}})
				return ""
			})
		case "update":
			seenTopics[un(t[1])] = true
			guard(line, func() string {
				topics.UpdateEvent(un(t[1]), alert.EventState{ID: un(t[2]), Level: alert.Level(atoi(t[3])), Time: time.Unix(0, atoi(t[4])).UTC()})
				return ""
			})
		case "reg":
			seenTopics[un(t[1])] = true
			guard(line, func() string { topics.RegisterHandler(un(t[1]), h(un(t[2]))); return "" })
		case "dereg":
			guard(line, func() string { topics.DeregisterHandler(un(t[1]), h(un(t[2]))); return "" })
		case "replace":
			seenTopics[un(t[1])] = true
			guard(line, func() string { topics.ReplaceHandler(un(t[1]), h(un(t[2])), h(un(t[3]))); return "" })
		case "deltopic":
			guard(line, func() string { topics.DeleteTopic(un(t[1])); return "" })
		case "restore":
			seenTopics[un(t[1])] = true
			guard(line, func() string {
				m := map[string]*alert.EventState{}
				if t[2] != "-" {
					for _, e := range strings.Split(t[2], ",") {
						p := strings.Split(e, ":")
						m[un(p[0])] = &alert.EventState{ID: un(p[0]), Level: alert.Level(atoi(p[1])), Time: time.Unix(0, atoi(p[2])).UTC()}
					}
				}
				topics.RestoreTopicNoCopy(un(t[1]), m)
				return ""
			})
		case "q":
			switch t[1] {
			case "maxlevel":
				guard(line, func() string {
					tp, ok := topics.Topic(un(t[2]))
					if !ok {
						return "0"
					}
					return strconv.Itoa(int(tp.MaxLevel()))
				})
			case "states":
				guard(line, func() string {
					tp, ok := topics.Topic(un(t[2]))
					if !ok {
						return "-"
					}
					m := tp.EventStates(alert.Level(atoi(t[3])))
					var ids []string
					for id := range m {
						ids = append(ids, id)
					}
					sort.Strings(ids)
					var r []string
					for _, id := range ids {
						e := m[id]
						r = append(r, fmt.Sprintf("%s:%d:%d", kit.Esc(e.ID), int(e.Level), e.Time.UnixNano()))
					}
					return list(r)
				})
			case "topicstate":
				guard(line, func() string {
					m := topics.TopicState(un(t[2]), alert.Level(atoi(t[3])))
					var ids []string
					for id := range m {
						ids = append(ids, id)
					}
					sort.Strings(ids)
					var r []string
					for _, id := range ids {
						r = append(r, fmt.Sprintf("%s:%d:%d", kit.Esc(id), int(m[id].Level), m[id].Collected))
					}
					return list(r)
				})
			}
		case "final":
			// final delivered <h> <T>: close everything first (drains every handler queue), once
			if !closed {
				topics.Close()
				closed = true
			}
			guard(line, func() string {
				hh := h(un(t[2]))
				hh.mu.Lock()
				defer hh.mu.Unlock()
				return list(hh.got[un(t[3])])
			})
		}
	}
	if !closed {
		topics.Close()
	}
	return out
}

// ---- generator ----

var idPool = []string{"a", "b", "c", "ab", "b,c", "é", "A", "a b"}
var topicPool = []string{"t1", "t2", "main:x"}
var handlerPool = []string{"h0", "h1", "h2", "h3"}

func genCase(r *kit.Rand, size int) []string {
	var ops []string
	nIDs := r.Range(2, 5)
	ids := make([]string, nIDs)
	perm := make([]int, len(idPool))
	for i := range perm {
		perm[i] = i
	}
	for i := range perm {
		j := i + r.Intn(len(perm)-i)
		perm[i], perm[j] = perm[j], perm[i]
	}
	for i := range ids {
		ids[i] = idPool[perm[i]]
	}
	nTopics := r.Range(1, 3)
	tm := int64(1000)
	query := func(T string) {
		ops = append(ops, "q maxlevel "+kit.Esc(T))
		ops = append(ops, fmt.Sprintf("q states %s %d", kit.Esc(T), r.Intn(4)))
	}
	for i := 0; i < size; i++ {
		T := topicPool[r.Intn(nTopics)]
		tm += int64(r.Intn(3))
		switch k := r.Intn(100); {
		case k < 50:
			ops = append(ops, fmt.Sprintf("collect %s %s %d %d", kit.Esc(T), kit.Esc(kit.Pick(r, ids)), r.Intn(4), tm))
			if r.Chance(1, 2) {
				query(T)
			}
		case k < 58:
			ops = append(ops, fmt.Sprintf("update %s %s %d %d", kit.Esc(T), kit.Esc(kit.Pick(r, ids)), r.Intn(4), tm))
			query(T)
		case k < 72:
			ops = append(ops, fmt.Sprintf("reg %s %s", kit.Esc(T), kit.Pick(r, handlerPool)))
		case k < 80:
			ops = append(ops, fmt.Sprintf("dereg %s %s", kit.Esc(T), kit.Pick(r, handlerPool)))
		case k < 85:
			ops = append(ops, fmt.Sprintf("replace %s %s %s", kit.Esc(T), kit.Pick(r, handlerPool), kit.Pick(r, handlerPool)))
		case k < 88:
			ops = append(ops, "deltopic "+kit.Esc(T))
			query(T)
		case k < 92:
			var sts []string
			used := map[string]bool{}
			for j := r.Intn(4); j > 0; j-- {
				id := kit.Pick(r, ids)
				if used[id] {
					continue
				}
				used[id] = true
				sts = append(sts, fmt.Sprintf("%s:%d:%d", kit.Esc(id), r.Intn(4), tm))
			}
			ops = append(ops, fmt.Sprintf("restore %s %s", kit.Esc(T), list(sts)))
			query(T)
		default:
			pats := []string{"", "t*", "t1", "*", "main:?", "zz"}
			ops = append(ops, fmt.Sprintf("q topicstate %s %d", kit.Esc(kit.Pick(r, pats)), r.Intn(4)))
		}
	}
	for i := 0; i < nTopics; i++ {
		query(topicPool[i])
	}
	for _, hn := range handlerPool {
		for i := 0; i < nTopics; i++ {
			ops = append(ops, fmt.Sprintf("final delivered %s %s", hn, kit.Esc(topicPool[i])))
		}
	}
	return ops
}

// exhaustive enumerates ALL collect-histories of the given length over nIDs ids × 4 levels on one topic,
// querying after every step (used by the thorough tier).
func exhaustive(out *kit.Out, nIDs, length int, caseNo *int) {
	ids := idPool[:nIDs]
	choices := nIDs * 4
	total := 1
	for i := 0; i < length; i++ {
		total *= choices
	}
	for code := 0; code < total; code++ {
		var ops []string
		c := code
		for i := 0; i < length; i++ {
			ch := c % choices
			c /= choices
			ops = append(ops, fmt.Sprintf("collect t1 %s %d %d", kit.Esc(ids[ch/4]), ch%4, 1000+i))
			ops = append(ops, "q maxlevel t1")
			for m := 1; m < 4; m++ {
				ops = append(ops, fmt.Sprintf("q states t1 %d", m))
			}
		}
		emit(out, fmt.Sprintf("x%d", *caseNo), execCase(ops))
		*caseNo++
	}
}

func emit(out *kit.Out, id string, lines []string) {
	out.Line("case", id)
	for _, l := range lines {
		out.Line(l)
	}
	out.Line("end")
}

// watchdog runs one service-layer case; if the REAL service does not come back within 60 s (a deadlock),
// the op lines of the case are printed as an unfinished case and the process exits non-zero, which the
// runner reports as a violation with this case as the replay.
func watchdog(out *kit.Out, id string, ops []string) []string {
	tm := svcTM()
	done := make(chan []string, 1)
	go func() { done <- execSvcCase(tm, ops) }()
	select {
	case res := <-done:
		return res
	case <-time.After(60 * time.Second):
		out.Line("case", id)
		for _, l := range ops {
			out.Line(l)
		}
		out.Flush()
		pprof.Lookup("goroutine").WriteTo(os.Stderr, 1) // where everybody is blocked (diagnostic only)
		fmt.Fprintln(os.Stderr, "HANG: the alert service did not return within 60s while executing case", id, "(deadlock); goroutines blocked in Service.mu / bufHandler.Close")
		os.Exit(3)
		return nil
	}
}

// isSvc tells service-layer cases (ops srec/sreg/sdereg/supd/scollect) from alert.Topics cases.
func isSvc(lines []string) bool {
	for _, l := range lines {
		t := strings.Fields(l)
		if len(t) > 0 {
			switch t[0] {
			case "srec", "sreg", "sdereg", "supd", "scollect", "scap", "sgate", "ssync":
				return true
			}
		}
	}
	return false
}

var theTM *kit.TM

func svcTM() *kit.TM {
	if theTM == nil {
		tm, err := kit.NewTM(kit.TMOpts{})
		if err != nil {
			fmt.Fprintln(os.Stderr, "cannot build alert service:", err)
			os.Exit(2)
		}
		theTM = tm
	}
	return theTM
}

// Run: `vh-c09 -seed S -n N [-tier thorough]` generates; `vh-c09 -ops file` re-executes the cases of a file.
func Run(args []string) int {
	f := kit.ParseFlags(args)
	out := kit.NewOut()
	defer out.Flush()
	defer func() {
		if theTM != nil {
			theTM.Close()
		}
	}()
	if f.Ops != "" {
		lines, err := kit.ReadLines(f.Ops)
		if err != nil {
			fmt.Fprintln(os.Stderr, err)
			return 2
		}
		var cur []string
		id := ""
		for _, l := range lines {
			t := strings.Fields(l)
			switch {
			case len(t) == 2 && t[0] == "case":
				id, cur = t[1], nil
			case len(t) == 1 && t[0] == "end":
				if isAgg(cur) {
					emit(out, id, execAggCase(svcTM(), cur))
				} else if isSvc(cur) {
					emit(out, id, watchdog(out, id, cur))
				} else if isK(cur) {
					emit(out, id, kWatchdog(out, id, cur))
				} else {
					emit(out, id, execCase(cur))
				}
			default:
				cur = append(cur, l)
			}
		}
		return 0
	}
	r := kit.NewRand(f.Seed)
	for i := 0; i < f.N; i++ {
		size := 4 + r.Intn(30)
		if i%10 == 0 {
			size = 40 + r.Intn(60) // long histories: > 12 states never happens (≤ 5 ids), but many re-sorts
		}
		emit(out, fmt.Sprintf("g%d", i), execCase(genCase(r.Fork(), size)))
	}
	// concurrent cases on the real alert.Topics: gated handlers with a backlog, a removal in progress (draining) and
	// operations issued meanwhile (own random stream: the other cases of a seed stay what they were)
	nk := f.N / 3
	if f.Tier == "thorough" {
		nk = f.N / 2
	}
	kr := kit.NewRand(f.Seed*7919 + 17)
	for i := 0; i < nk; i++ {
		id := fmt.Sprintf("k%d", i)
		emit(out, id, kWatchdog(out, id, genKCase(kr.Fork())))
	}
	// service layer: real services/alert.Service with publish/match handler specs
	nsvc := f.N / 2
	for i := 0; i < nsvc; i++ {
		// every third service case is a multi-entry configuration (diamonds, direct+published topics)
		ops := genSvcCase(r.Fork(), 6+r.Intn(40), i%3 == 2)
		emit(out, fmt.Sprintf("s%d", i), watchdog(out, fmt.Sprintf("s%d", i), ops))
	}
	// bounded queues: a gated handler's queue overflows (each case collects more than alert.MinimumEventBufferSize events)
	ngate := 2
	if f.Tier == "thorough" {
		ngate = 4
	}
	if f.N < 50 {
		ngate = 1
	}
	for i := 0; i < ngate; i++ {
		ops := genGateCase(r.Fork())
		emit(out, fmt.Sprintf("o%d", i), watchdog(out, fmt.Sprintf("o%d", i), ops))
	}
	// aggregate handler (wall-clock ticker, short interval): few cases, each waits for real ticks
	nagg := 8
	if f.Tier == "thorough" {
		nagg = 40
	}
	if f.N < 50 {
		nagg = 2
	}
	for i := 0; i < nagg; i++ {
		emit(out, fmt.Sprintf("a%d", i), execAggCase(svcTM(), genAggCase(r.Fork())))
	}
	if f.Tier == "thorough" {
		n := 0
		exhaustive(out, 3, 4, &n) // 12^4 = 20736 histories
	} else {
		n := 0
		exhaustive(out, 2, 3, &n) // 8^3 = 512 histories
	}
	return 0
}
