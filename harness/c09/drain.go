package c09

// Concurrent cases for C09 (`k` cases): the REAL alert.Topics with GATED handlers and operations that run on their
// own goroutines, so that a handler has a backlog (it is blocked inside Handle), a DeregisterHandler /
// ReplaceHandler is IN PROGRESS (bufHandler.Close drains the backlog) and further operations - registering the SAME
// handler value again, further collects - are issued meanwhile.
//
// The schedule is driven by gates, never by sleeps:
//   * a gated handler (name g*) logs `i:<event>` on entry of Handle, then waits for a token of its (handler, topic)
//     gate, logs `o:<topic>:<time>` and returns; `ktok T h n` hands out n tokens;
//   * `kdo <label> <op>` starts the operation on a new goroutine;
//   * after every line the harness waits until the case is QUIESCENT: every goroutine of the case (operation
//     goroutines and the bufHandler goroutines of package alert) has either finished or is parked on a
//     synchronisation primitive (read off the goroutine states of runtime.Stack - a stop-the-world snapshot; a
//     parked goroutine can only be woken by another goroutine of the case or by the harness). An operation that is
//     still parked then is BLOCKED - e.g. a re-registration waiting for the drain of the old queue - which is an
//     observation (`=> <labels of the blocked operations>`), not a hang.
// A case that never becomes quiescent or whose operations do not all return once every gate is open is a hang
// (watchdog, as for the service cases).

import (
	"fmt"
	"os"
	"runtime"
	"runtime/pprof"
	"strconv"
	"strings"
	"sync"
	"sync/atomic"
	"time"

	"github.com/influxdata/kapacitor/alert"

	"verifharness/kit"
)

type kHandler struct {
	name   string
	gated  bool
	mu     sync.Mutex
	cond   *sync.Cond
	tokens map[string]int // per topic
	open   bool
	log    []string
}

func (h *kHandler) Handle(e alert.Event) {
	h.mu.Lock()
	defer h.mu.Unlock()
	h.log = append(h.log, fmt.Sprintf("i:%s:%s:%d:%d:%d", kit.Esc(e.Topic), kit.Esc(e.State.ID), int(e.State.Level), e.State.Time.UnixNano(), int(e.PreviousState().Level)))
	if h.gated {
		for !h.open && h.tokens[e.Topic] == 0 {
			h.cond.Wait()
		}
		if !h.open {
			h.tokens[e.Topic]--
		}
	}
	h.log = append(h.log, fmt.Sprintf("o:%s:%d", kit.Esc(e.Topic), e.State.Time.UnixNano()))
}

type kOp struct {
	label    string
	done     atomic.Bool
	panicked atomic.Bool
}

// kOpThread is the body of an operation goroutine (the name is what the quiescence detector looks for).
func kOpThread(o *kOp, f func()) {
	defer func() {
		if r := recover(); r != nil {
			o.panicked.Store(true)
		}
		o.done.Store(true)
	}()
	f()
}

// waiting goroutine states (runtime wait reasons of the synchronisation primitives used by alert/topics.go and by
// the gated handlers); anything else (running, runnable, syscall, GC assist ...) counts as "still moving".
var kWaiting = map[string]bool{
	"chan receive": true, "chan send": true, "select": true, "select (no cases)": true,
	"semacquire": true, "sync.Mutex.Lock": true, "sync.RWMutex.Lock": true, "sync.RWMutex.RLock": true,
	"sync.Cond.Wait": true, "sync.WaitGroup.Wait": true,
	"chan receive (nil chan)": true, "chan send (nil chan)": true,
}

// kQuiescent: no goroutine at all is running or runnable (the calling goroutine, printed first by runtime.Stack,
// excepted), and every goroutine that runs code of package alert or of this harness package is parked on a
// synchronisation primitive of that code.
func kQuiescent() bool {
	buf := make([]byte, 1<<18)
	for {
		n := runtime.Stack(buf, true)
		if n < len(buf) {
			buf = buf[:n]
			break
		}
		buf = make([]byte, 2*len(buf))
	}
	blocks := strings.Split(string(buf), "\n\n")
	for i, g := range blocks {
		if i == 0 {
			continue // the caller
		}
		a, b := strings.IndexByte(g, '['), strings.IndexByte(g, ']')
		if a < 0 || b < a {
			if strings.TrimSpace(g) == "" {
				continue
			}
			return false
		}
		state := g[a+1 : b]
		if j := strings.IndexByte(state, ','); j >= 0 {
			state = state[:j] // "chan receive, 2 minutes", "select, locked to thread"
		}
		if state == "running" || state == "runnable" {
			return false // whoever it is, it may still be about to release something a goroutine of the case waits for
		}
		if !strings.Contains(g, "kapacitor/alert.") && !strings.Contains(g, "verifharness/c09.") {
			continue
		}
		if !kWaiting[state] {
			return false
		}
		if state == "semacquire" && !strings.Contains(g, "sync.(*WaitGroup).Wait") {
			return false // a wait inside the runtime (allocation, start of a GC cycle), not on a primitive of the code
		}
	}
	return true
}

func kSettle() {
	for i := 0; ; i++ {
		if kQuiescent() {
			return
		}
		if i < 50 {
			runtime.Gosched()
		} else {
			time.Sleep(20 * time.Microsecond) // polling interval only: the outcome never depends on it
		}
	}
}

func isK(lines []string) bool {
	for _, l := range lines {
		t := strings.Fields(l)
		if len(t) > 0 && (t[0] == "kdo" || t[0] == "ktok" || t[0] == "kend" || (len(t) > 1 && t[0] == "final" && t[1] == "klog")) {
			return true
		}
	}
	return false
}

func execKCase(ops []string) (out []string) {
	topics := alert.NewTopics(0)
	handlers := map[string]*kHandler{}
	var horder []*kHandler
	h := func(name string) *kHandler {
		if x, ok := handlers[name]; ok {
			return x
		}
		x := &kHandler{name: name, gated: strings.HasPrefix(name, "g"), tokens: map[string]int{}}
		x.cond = sync.NewCond(&x.mu)
		handlers[name] = x
		horder = append(horder, x)
		return x
	}
	var pending []*kOp
	un := func(s string) string { v, _ := kit.Unesc(s); return v }
	atoi := func(s string) int64 { v, _ := strconv.ParseInt(s, 10, 64); return v }
	// status: wait for quiescence, then the labels of the operations that have not returned (in order of issue)
	status := func() string {
		kSettle()
		var blk, pan []string
		var still []*kOp
		for _, o := range pending {
			if o.done.Load() {
				if o.panicked.Load() {
					pan = append(pan, o.label)
				}
				continue
			}
			blk = append(blk, o.label)
			still = append(still, o)
		}
		pending = still
		s := list(blk)
		if len(pan) > 0 {
			s += " panic:" + strings.Join(pan, ",")
		}
		return s
	}
	ended := false
	end := func() string {
		for _, x := range horder {
			x.mu.Lock()
			x.open = true
			x.cond.Broadcast()
			x.mu.Unlock()
		}
		return status()
	}
	closed := false
	for _, raw := range ops {
		line := raw
		if i := strings.Index(line, " => "); i >= 0 {
			line = line[:i]
		}
		t := strings.Fields(line)
		if len(t) == 0 {
			continue
		}
		switch {
		case t[0] == "kdo" && len(t) >= 3 && !ended:
			var f func()
			switch {
			case t[2] == "collect" && len(t) == 7:
				ev := alert.Event{Topic: un(t[3]), State: alert.EventState{ID: un(t[4]), Level: alert.Level(atoi(t[5])), Time: time.Unix(0, atoi(t[6])).UTC()}}
				f = func() { topics.Collect(ev) }
			case t[2] == "reg" && len(t) == 5:
				T, hh := un(t[3]), h(un(t[4]))
				f = func() { topics.RegisterHandler(T, hh) }
			case t[2] == "dereg" && len(t) == 5:
				T, hh := un(t[3]), h(un(t[4]))
				f = func() { topics.DeregisterHandler(T, hh) }
			case t[2] == "replace" && len(t) == 6:
				T, o, n := un(t[3]), h(un(t[4])), h(un(t[5]))
				f = func() { topics.ReplaceHandler(T, o, n) }
			}
			if f == nil {
				out = append(out, line)
				continue
			}
			o := &kOp{label: t[1]}
			pending = append(pending, o)
			go kOpThread(o, f)
			out = append(out, line+" => "+status())
		case t[0] == "ktok" && len(t) == 4 && !ended:
			x := h(un(t[2]))
			x.mu.Lock()
			x.tokens[un(t[1])] += int(atoi(t[3]))
			x.cond.Broadcast()
			x.mu.Unlock()
			out = append(out, line+" => "+status())
		case t[0] == "kend":
			ended = true
			out = append(out, line+" => "+end())
		case t[0] == "final" && len(t) == 3 && t[1] == "klog":
			if !ended {
				ended = true
				end()
			}
			if !closed {
				closed = true
				topics.Close()
			}
			x := h(un(t[2]))
			x.mu.Lock()
			out = append(out, line+" => "+list(x.log))
			x.mu.Unlock()
		default:
			out = append(out, line)
		}
	}
	if !ended {
		end()
	}
	if len(pending) > 0 {
		// every gate is open and an operation still has not returned: a deadlock of the real code
		select {} // the watchdog reports it
	}
	if !closed {
		topics.Close()
	}
	return out
}

// kWatchdog runs one concurrent case; a case that does not come back within 60 s is reported like a service hang.
func kWatchdog(out *kit.Out, id string, ops []string) []string {
	done := make(chan []string, 1)
	go func() { done <- execKCase(ops) }()
	select {
	case res := <-done:
		return res
	case <-time.After(60 * time.Second):
		out.Line("case", id)
		for _, l := range ops {
			out.Line(l)
		}
		out.Flush()
		pprof.Lookup("goroutine").WriteTo(os.Stderr, 1)
		fmt.Fprintln(os.Stderr, "HANG: alert.Topics did not return within 60s while executing concurrent case", id, "(an operation stays blocked although every handler gate is open, or the case never gets quiescent)")
		os.Exit(3)
		return nil
	}
}

// genKCase: a backlog on a gated handler, a deregistration / replacement of that handler in progress, and
// operations issued meanwhile (branch-directed: re-registration of the SAME handler value, registration of another
// handler, collects on the draining topic and on another topic, a second removal), with the gate opened in one or
// several portions; then a quiet tail of further collects. Every collect has its own timestamp (the driver
// identifies events by it).
func genKCase(r *kit.Rand) []string {
	var ops []string
	nlab := 0
	tm := int64(9000)
	ids := []string{"a", "b", "c"}
	do := func(format string, a ...interface{}) {
		nlab++
		ops = append(ops, fmt.Sprintf("kdo o%d ", nlab)+fmt.Sprintf(format, a...))
	}
	collect := func(T string) {
		tm++
		do("collect %s %s %d %d", T, kit.Pick(r, ids), r.Intn(4), tm)
	}
	T, U := "t1", "t2"
	if r.Bool() {
		T, U = U, T
	}
	g := kit.Pick(r, []string{"g0", "g1"})
	og := "g1"
	if g == "g1" {
		og = "g0"
	}
	rounds := 1 + r.Intn(2)
	// prelude: who listens
	do("reg %s %s", T, g)
	if r.Chance(1, 2) {
		do("reg %s h0", T)
	}
	if r.Chance(1, 3) {
		do("reg %s %s", U, g) // the same handler value on another topic: its own queue and goroutine
	}
	if r.Chance(1, 3) {
		do("reg %s %s", U, kit.Pick(r, []string{"h0", "h1", og}))
	}
	for round := 0; round < rounds; round++ {
		// backlog: the first event is held inside Handle, the others wait in the queue
		backlog := r.Intn(4) // 0: the removal finds an idle handler
		if round == 0 && backlog == 0 && r.Chance(2, 3) {
			backlog = 1 + r.Intn(3)
		}
		for i := 0; i < backlog; i++ {
			collect(T)
			if r.Chance(1, 5) {
				collect(U)
			}
		}
		owed := backlog // tokens the gated handler still needs on T
		if owed > 0 && r.Chance(1, 4) {
			ops = append(ops, fmt.Sprintf("ktok %s %s 1", T, g))
			owed--
		}
		// the removal in progress
		switch k := r.Intn(10); {
		case k < 5:
			do("dereg %s %s", T, g)
		case k < 7:
			do("replace %s %s %s", T, g, kit.Pick(r, []string{"h1", og, "h0"}))
		case k < 9:
			do("replace %s %s %s", T, g, g) // replaced by itself: drained, then registered again
		default:
			do("replace %s h1 %s", T, g) // g is the NEW handler (already registered: a duplicate)
		}
		// meanwhile
		n := 1 + r.Intn(3)
		rereg := false
		for i := 0; i < n; i++ {
			switch k := r.Intn(12); {
			case k < 4 || (i == n-1 && !rereg && round == 0 && r.Chance(2, 3)):
				do("reg %s %s", T, g) // the same handler value again
				rereg = true
			case k < 7:
				collect(T)
			case k < 8:
				collect(U)
			case k < 9:
				do("reg %s %s", T, kit.Pick(r, []string{"h1", og}))
			case k < 10:
				do("dereg %s h0", T)
			case k < 11:
				do("reg %s %s", U, kit.Pick(r, []string{"h1", g}))
			default:
				do("replace %s h0 %s", T, g)
			}
			if owed > 1 && r.Chance(1, 4) {
				ops = append(ops, fmt.Sprintf("ktok %s %s 1", T, g)) // a portion: the drain goes on but does not finish
				owed--
			}
		}
		if rereg && r.Chance(3, 4) {
			collect(T) // a further event after the re-registration was issued
		}
		// release: what is owed, sometimes more (the handler then runs through the next events without stopping)
		extra := 0
		if r.Chance(1, 3) {
			extra = 1 + r.Intn(3)
		}
		if owed+extra > 0 {
			ops = append(ops, fmt.Sprintf("ktok %s %s %d", T, g, owed+extra))
		}
		for i := r.Intn(3); i > 0; i-- {
			collect(T)
		}
		if r.Chance(1, 2) {
			do("reg %s %s", T, g)
		}
	}
	ops = append(ops, "kend")
	for _, hn := range []string{"g0", "g1", "h0", "h1"} {
		ops = append(ops, "final klog "+hn)
	}
	return ops
}
