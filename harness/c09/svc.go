package c09

// Service-layer cases for C09: the REAL services/alert.Service (persistence off) with `publish` handler specs
// (optionally wrapped by match expressions), anonymous recording handlers, and Service.Collect.

import (
	"fmt"
	"os"
	"sort"
	"strconv"
	"strings"
	"sync"
	"time"

	"github.com/influxdata/kapacitor/alert"
	alertservice "github.com/influxdata/kapacitor/services/alert"
	"github.com/influxdata/kapacitor/services/httpd"
	"github.com/influxdata/kapacitor/services/storage/storagetest"

	"verifharness/kit"
)

// matchTable must stay in step with Kap.C09.Svc.matchTable (same order).
var matchTable = []string{
	``,
	`level() >= WARNING`,
	`level() == CRITICAL`,
	`changed() == TRUE`,
	`"host" == 'a'`,
	`level() >= WARNING AND "host" == 'a'`,
	`changed() == TRUE OR level() == CRITICAL`,
	`"dc" == 'x' OR level() >= INFO`,
	`changed() == FALSE`,
}

// topics in topological order: sources first; publish edges only go to later topics.
var svcTopics = []string{"t0", "t1", "p0", "p1", "p2"}

type svcRec struct {
	mu  sync.Mutex
	got map[string][]string
	// a GATED recorder (op `sgate`): Handle records the event and then blocks until the gate is opened, so the
	// handler's queue (bufHandler channel) behind it fills up and overflows deterministically
	gate    chan struct{}
	entered chan struct{}
	once    sync.Once
}

func (h *svcRec) Handle(e alert.Event) {
	h.mu.Lock()
	h.got[e.Topic] = append(h.got[e.Topic], fmt.Sprintf("%s:%d:%d:%d", kit.Esc(e.State.ID), int(e.State.Level), e.State.Time.UnixNano(), int(e.PreviousState().Level)))
	h.mu.Unlock()
	if h.gate != nil {
		h.once.Do(func() { close(h.entered) })
		<-h.gate
	}
}

// svcCap is the queue capacity of the service the overflow cases (`scap`) run on: the smallest the code accepts
// (alert.MinimumEventBufferSize; anything below is replaced by the default 5000).
const svcCap = alert.MinimumEventBufferSize

var theCapSvc *alertservice.Service

func capSvc(tm *kit.TM) *alertservice.Service {
	if theCapSvc == nil {
		as := alertservice.NewService(kit.Diag().NewAlertServiceHandler(), nil, svcCap)
		as.StorageService = storagetest.New(&kit.TempDirer{}, kit.Diag().NewStorageHandler())
		// its own HTTP service: the API routes of an alert service can be registered only once per HTTP service
		cfg := httpd.NewConfig()
		cfg.BindAddress = "127.0.0.1:0"
		cfg.LogEnabled = false
		hs := httpd.NewService(cfg, "localhost", nil, kit.Diag().NewHTTPDHandler())
		if err := hs.Open(); err != nil {
			fmt.Fprintln(os.Stderr, "cannot open the HTTP service of the small-buffer alert service:", err)
			os.Exit(2)
		}
		as.HTTPDService = hs
		if err := as.Open(); err != nil {
			fmt.Fprintln(os.Stderr, "cannot build the small-buffer alert service:", err)
			os.Exit(2)
		}
		theCapSvc = as
	}
	return theCapSvc
}

func execSvcCase(tm *kit.TM, ops []string) (out []string) {
	as := tm.Alert
	hasGate := false
	for _, l := range ops {
		if strings.HasPrefix(l, "scap ") {
			as = capSvc(tm) // bounded-queue cases run on the service with the smallest accepted topic buffer
		}
		if strings.HasPrefix(l, "sgate ") {
			hasGate = true
		}
	}
	type gateT struct {
		topic string
		r     *svcRec
		base  int64
	}
	var gates []gateT
	collected := func(topic string) int64 {
		st, ok, _ := as.TopicState(topic)
		if !ok {
			return 0
		}
		return st.Collected
	}
	ncollect := 0
	recs := map[string]*svcRec{}
	rec := func(n string) *svcRec {
		if r, ok := recs[n]; ok {
			return r
		}
		r := &svcRec{got: map[string][]string{}}
		recs[n] = r
		return r
	}
	type regKey struct{ t, h string }
	specs := map[regKey]alertservice.HandlerSpec{}
	anon := map[regKey]bool{}
	un := func(s string) string { v, _ := kit.Unesc(s); return v }
	atoi := func(s string) int64 { v, _ := strconv.ParseInt(s, 10, 64); return v }
	mkSpec := func(T, hid, midx, targets string) alertservice.HandlerSpec {
		var tg []interface{}
		if targets != "-" {
			for _, t := range strings.Split(targets, ",") {
				tg = append(tg, un(t))
			}
		}
		return alertservice.HandlerSpec{ID: un(hid), Topic: un(T), Kind: "publish", Options: map[string]interface{}{"topics": tg}, Match: matchTable[atoi(midx)]}
	}
	topoIdx := func(t string) int {
		for i, x := range svcTopics {
			if x == t {
				return i
			}
		}
		return len(svcTopics)
	}
	// flush makes the asynchronous implementation quiescent without looking at any queue: updating a handler
	// spec to itself replaces the handler, and replacing CLOSES the old one, which drains its queue
	// synchronously (republishing downstream). Done for every live spec in topological order of its topic,
	// this pushes every in-flight event to the end of its chain. (Semantically a no-op: same spec.)
	flush := func() {
		var keys []regKey
		for k := range specs {
			keys = append(keys, k)
		}
		sort.Slice(keys, func(i, j int) bool {
			if topoIdx(keys[i].t) != topoIdx(keys[j].t) {
				return topoIdx(keys[i].t) < topoIdx(keys[j].t)
			}
			return keys[i].h < keys[j].h
		})
		for _, k := range keys {
			as.UpdateHandlerSpec(specs[k], specs[k])
		}
	}
	drained := false
	drain := func() {
		if drained {
			return
		}
		drained = true
		if len(gates) > 0 {
			flush() // first everything to the end of its chain while the gates are still shut (overflowing there)
		}
		for _, g := range gates {
			close(g.r.gate) // open every gate: the blocked handlers go on and drain their queues
		}
		flush()
		// close topic by topic in topological order: closing a topic drains its handler queues, which
		// publishes downstream synchronously; downstream topics are closed afterwards.
		for _, t := range svcTopics {
			as.DeleteTopic(t)
		}
	}
	guard := func(line string, f func() string) {
		defer func() {
			if r := recover(); r != nil {
				out = append(out, line+" => panic")
			}
		}()
		obs := f()
		if obs == "" {
			out = append(out, line)
		} else {
			out = append(out, line+" => "+obs)
		}
	}
	for _, raw := range ops {
		line := raw
		if i := strings.Index(line, " => "); i >= 0 {
			line = line[:i]
		}
		t := strings.Fields(line)
		if len(t) == 0 {
			continue
		}
		if t[0] != "scollect" && t[0] != "final" {
			flush()
		}
		if t[0] == "scollect" && hasGate {
			// bounded-queue cases collect in long bursts: keep the queues of the handlers that are NOT gated short,
			// so that only the gated handler's queue can overflow (deterministic)
			ncollect++
			if ncollect%100 == 0 {
				flush()
			}
		}
		switch t[0] {
		case "scap":
			guard(line, func() string { return strconv.Itoa(svcCap) })
		case "sgate":
			guard(line, func() string {
				r := rec(un(t[2]))
				r.gate, r.entered = make(chan struct{}), make(chan struct{})
				gates = append(gates, gateT{un(t[1]), r, collected(un(t[1]))})
				as.RegisterAnonHandler(un(t[1]), r)
				anon[regKey{un(t[1]), un(t[2])}] = true
				return ""
			})
		case "ssync":
			// (the flush above has pushed every event to the end of its chain) a gate whose topic has collected
			// something since the gate was registered has its first event queued: wait until its goroutine has
			// taken it and blocks in Handle
			guard(line, func() string {
				for _, g := range gates {
					if collected(g.topic) > g.base {
						<-g.r.entered
					}
				}
				return ""
			})
		case "srec":
			guard(line, func() string {
				as.RegisterAnonHandler(un(t[1]), rec(un(t[2])))
				anon[regKey{un(t[1]), un(t[2])}] = true
				return ""
			})
		case "sreg":
			guard(line, func() string {
				sp := mkSpec(t[1], t[2], t[3], t[4])
				if err := as.RegisterHandlerSpec(sp); err != nil {
					return "err"
				}
				specs[regKey{sp.Topic, sp.ID}] = sp
				return "ok"
			})
		case "sdereg":
			guard(line, func() string {
				as.DeregisterHandlerSpec(un(t[1]), un(t[2]))
				delete(specs, regKey{un(t[1]), un(t[2])})
				return ""
			})
		case "supd":
			guard(line, func() string {
				old, ok := specs[regKey{un(t[1]), un(t[2])}]
				if !ok {
					return "" // generator never does this; the driver flags it
				}
				sp := mkSpec(t[1], t[3], t[4], t[5])
				if err := as.UpdateHandlerSpec(old, sp); err != nil {
					return ""
				}
				delete(specs, regKey{old.Topic, old.ID})
				specs[regKey{sp.Topic, sp.ID}] = sp
				return ""
			})
		case "scollect":
			guard(line, func() string {
				tags := map[string]string{}
				if t[5] != "-" {
					for _, kv := range strings.Split(t[5], ",") {
						p := strings.SplitN(kv, "=", 2)
						tags[un(p[0])] = un(p[1])
					}
				}
				as.Collect(alert.Event{Topic: un(t[1]), State: alert.EventState{ID: un(t[2]), Level: alert.Level(atoi(t[3])), Time: time.Unix(0, atoi(t[4])).UTC()}, Data: alert.EventData{Tags: tags}})
				return ""
			})
		case "final":
			drain()
			guard(line, func() string {
				r := rec(un(t[2]))
				r.mu.Lock()
				defer r.mu.Unlock()
				return list(r.got[un(t[3])])
			})
		}
	}
	drain()
	// leave the service clean for the next case
	for k := range specs {
		as.DeregisterHandlerSpec(k.t, k.h)
	}
	for k := range anon {
		as.DeregisterAnonHandler(k.t, rec(k.h))
	}
	for _, t := range svcTopics {
		as.DeleteTopic(t)
	}
	return out
}

// genSvcCase, single-entry mode (multi == false): t0,t1 are collected directly and never published to; each p_i
// has at most one publishing handler pointing at it at any time, and edges only go forward. There the delivery is
// deterministic and the driver compares the model with the implementation.
// Multi-entry mode (multi == true): a topic may have SEVERAL ways in - several publishing handlers pointing at it
// (diamonds t0->p0->p2, t0->p1->p2) and/or direct collection on a topic that is also published to. What the
// recorders see then depends on how the handler goroutines interleave; the driver judges the observed logs with the
// schedule-quantified specification (Kap/Spec/C09Async.lean). Edges still only go forward.
func genSvcCase(r *kit.Rand, size int, multi bool) []string {
	var ops []string
	type sp struct {
		topic, hid string
		targets    []string
	}
	var live []sp
	incoming := map[string]bool{}
	idx := func(t string) int {
		for i, x := range svcTopics {
			if x == t {
				return i
			}
		}
		return -1
	}
	pickTargets := func(from string) []string {
		var tg []string
		for _, c := range svcTopics[2:] {
			if idx(c) > idx(from) && (multi || !incoming[c]) && r.Chance(1, 2) {
				tg = append(tg, c)
			}
		}
		return tg
	}
	tgStr := func(tg []string) string {
		if len(tg) == 0 {
			return "-"
		}
		return strings.Join(tg, ",")
	}
	pickMatch := func() int {
		m := r.Intn(len(matchTable))
		if multi && (m == 3 || m == 6 || m == 8) && !r.Chance(1, 6) {
			// expressions over changed() make the SET of delivered events schedule dependent on a multi-entry topic
			// (the driver can then only bound it): keep them rare there
			m = []int{0, 1, 2, 4, 5, 7}[r.Intn(6)]
		}
		return m
	}
	collectTopic := func() string {
		if multi && r.Chance(1, 3) {
			return svcTopics[2+r.Intn(3)] // direct collection on a topic that may also be published to
		}
		return svcTopics[r.Intn(2)]
	}
	ids := []string{"a", "b", "c"}
	tm := int64(5000)
	nrec := 0
	for _, t := range svcTopics {
		if r.Chance(2, 3) {
			ops = append(ops, fmt.Sprintf("srec %s r%d", t, r.Intn(2)))
			nrec++
		}
	}
	hn := 0
	if multi {
		// branch-directed prelude: a diamond src -> p0 -> p2, src -> p1 -> p2 (one handler with two targets, or two
		// handlers), sometimes with a third way in to p2 straight from the source, and a recorder at the join
		src := svcTopics[r.Intn(2)]
		if r.Chance(1, 2) {
			ops = append(ops, fmt.Sprintf("sreg %s h%d %d p0,p1", src, hn, pickMatch()))
			live = append(live, sp{src, fmt.Sprintf("h%d", hn), []string{"p0", "p1"}})
			hn++
		} else {
			for _, c := range []string{"p0", "p1"} {
				ops = append(ops, fmt.Sprintf("sreg %s h%d %d %s", src, hn, pickMatch(), c))
				live = append(live, sp{src, fmt.Sprintf("h%d", hn), []string{c}})
				hn++
			}
		}
		for _, c := range []string{"p0", "p1"} {
			if r.Chance(5, 6) {
				ops = append(ops, fmt.Sprintf("sreg %s h%d %d p2", c, hn, pickMatch()))
				live = append(live, sp{c, fmt.Sprintf("h%d", hn), []string{"p2"}})
				hn++
			}
		}
		if r.Chance(1, 3) {
			ops = append(ops, fmt.Sprintf("sreg %s h%d %d p2", src, hn, pickMatch()))
			live = append(live, sp{src, fmt.Sprintf("h%d", hn), []string{"p2"}})
			hn++
		}
		incoming["p0"], incoming["p1"], incoming["p2"] = true, true, true
		ops = append(ops, fmt.Sprintf("srec p2 r%d", r.Intn(2)))
	}
	// branch-directed prelude: in half of the cases start with a chain source -> p.. of depth up to 3 (the generic
	// loop below rarely builds chains deeper than one hop), so that the chain semantics is exercised at depth >= 2:
	// match at every hop on the event AS SEEN there, previous level carried over on a first arrival.
	if !multi && r.Chance(1, 2) {
		cur := svcTopics[r.Intn(2)]
		for _, nxt := range svcTopics[2:] {
			if !r.Chance(3, 4) {
				continue
			}
			hid := fmt.Sprintf("h%d", hn)
			hn++
			midx := r.Intn(len(matchTable))
			if r.Chance(1, 3) {
				midx = 0
			}
			incoming[nxt] = true
			live = append(live, sp{cur, hid, []string{nxt}})
			ops = append(ops, fmt.Sprintf("sreg %s %s %d %s", cur, hid, midx, nxt))
			cur = nxt
		}
		if r.Chance(2, 3) {
			ops = append(ops, fmt.Sprintf("srec %s r%d", cur, r.Intn(2)))
		}
	}
	for i := 0; i < size; i++ {
		switch k := r.Intn(100); {
		case k < 55:
			tm++
			tags := []string{}
			if r.Chance(3, 4) {
				tags = append(tags, "host="+kit.Pick(r, []string{"a", "b"}))
			}
			if r.Chance(1, 2) {
				tags = append(tags, "dc="+kit.Pick(r, []string{"x", "y"}))
			}
			ts := "-"
			if len(tags) > 0 {
				ts = strings.Join(tags, ",")
			}
			ops = append(ops, fmt.Sprintf("scollect %s %s %d %d %s", collectTopic(), kit.Pick(r, ids), r.Intn(4), tm, ts))
		case k < 75:
			from := svcTopics[r.Intn(4)]
			tg := pickTargets(from)
			hid := fmt.Sprintf("h%d", hn)
			hn++
			if r.Chance(1, 10) && len(live) > 0 { // duplicate id on the same topic: must be rejected
				d := live[r.Intn(len(live))]
				ops = append(ops, fmt.Sprintf("sreg %s %s %d -", d.topic, d.hid, r.Intn(len(matchTable))))
				continue
			}
			for _, c := range tg {
				incoming[c] = true
			}
			live = append(live, sp{from, hid, tg})
			ops = append(ops, fmt.Sprintf("sreg %s %s %d %s", from, hid, pickMatch(), tgStr(tg)))
		case k < 85:
			if len(live) == 0 {
				continue
			}
			j := r.Intn(len(live))
			d := live[j]
			for _, c := range d.targets {
				delete(incoming, c)
			}
			live = append(live[:j], live[j+1:]...)
			ops = append(ops, fmt.Sprintf("sdereg %s %s", d.topic, d.hid))
		case k < 93:
			if len(live) == 0 {
				continue
			}
			j := r.Intn(len(live))
			d := live[j]
			for _, c := range d.targets {
				delete(incoming, c)
			}
			tg := pickTargets(d.topic)
			for _, c := range tg {
				incoming[c] = true
			}
			nh := d.hid
			if r.Chance(1, 3) {
				nh = fmt.Sprintf("h%d", hn)
				hn++
			}
			live[j] = sp{d.topic, nh, tg}
			ops = append(ops, fmt.Sprintf("supd %s %s %s %d %s", d.topic, d.hid, nh, pickMatch(), tgStr(tg)))
		default:
			ops = append(ops, fmt.Sprintf("srec %s r%d", kit.Pick(r, svcTopics), r.Intn(2)))
		}
	}
	for _, rn := range []string{"r0", "r1"} {
		for _, t := range svcTopics {
			ops = append(ops, fmt.Sprintf("final srec %s %s", rn, t))
		}
	}
	return ops
}

// genGateCase: a bounded-queue (overflow) case. One publish handler on a source with two or three target topics; a
// GATED recorder on one of the targets holds one event inside Handle, then its queue (capacity svcCap) fills up and
// every further event overflows for THAT handler only: the topic state, the topic's other handlers (a plain recorder,
// sometimes a further publish handler) and the handler's other target topics must all still get every event.
func genGateCase(r *kit.Rand) []string {
	ops := []string{fmt.Sprintf("scap %d", svcCap)}
	src := svcTopics[r.Intn(2)]
	tgs := [][]string{{"p0", "p1"}, {"p1", "p0"}, {"p0", "p1", "p2"}, {"p1", "p2", "p0"}, {"p2", "p0", "p1"}}[r.Intn(5)]
	gateTopic := tgs[r.Intn(len(tgs))]
	if r.Chance(2, 3) {
		gateTopic = tgs[0] // the overflowing target listed first: the later targets are the interesting ones
	}
	m := []int{0, 0, 1}[r.Intn(3)] // no match expression, or level() >= WARNING
	for _, t := range tgs {
		ops = append(ops, fmt.Sprintf("srec %s r%d", t, r.Intn(2)))
	}
	if r.Chance(1, 2) {
		ops = append(ops, fmt.Sprintf("srec %s r1", src))
	}
	ops = append(ops, fmt.Sprintf("sreg %s h0 %d %s", src, m, strings.Join(tgs, ",")))
	if gateTopic != "p2" && r.Chance(1, 2) {
		ops = append(ops, fmt.Sprintf("sreg %s h1 0 p2", gateTopic)) // a publish handler next to the gated recorder
		if r.Chance(1, 2) {
			ops = append(ops, "srec p2 r0")
		}
	}
	ops = append(ops, fmt.Sprintf("sgate %s g0", gateTopic))
	ids := []string{"a", "b", "c"}
	tm := int64(5000)
	passed := 0
	collect := func() {
		tm++
		lv := r.Intn(4)
		if m == 0 || lv >= 2 {
			passed++
		}
		ops = append(ops, fmt.Sprintf("scollect %s %s %d %d host=a", src, kit.Pick(r, ids), lv, tm))
	}
	for passed < 1 {
		collect()
	}
	ops = append(ops, "ssync") // the gated handler now holds the first event inside Handle
	extra := 2 + r.Intn(8)
	for passed < 1+svcCap+extra {
		collect()
		if passed == 1+svcCap && r.Chance(1, 2) {
			ops = append(ops, fmt.Sprintf("srec %s r%d", kit.Pick(r, tgs), r.Intn(2))) // a configuration operation at the brim
		}
	}
	for _, rn := range []string{"r0", "r1", "g0"} {
		for _, t := range svcTopics {
			ops = append(ops, fmt.Sprintf("final srec %s %s", rn, t))
		}
	}
	return ops
}
