// Package c10 is the harness for property C10: it builds REAL kapacitor stream tasks out of generated chains and
// forks of where / eval / default / delete / shift / sample / derivative / changeDetect / stateCount / stateDuration /
// flatten / combine / groupBy nodes (stream edges, and batch edges behind a `|window()`), hangs a recording
// `@sink()` / `@bsink()` UDF node under EVERY node (a sibling of the transforming child), writes generated points
// through TaskMaster.WritePoints and prints what every sink saw.
//
// Op lines of a case:
//
//	node <id> <parent|-> <kind> <key=value …>     the pipeline (node 0 is `stream|from()`)
//	                                              carriers (no transformation, the data only passes THROUGH them; on a batch
//	                                              edge behind a per-point node they re-buffer every batch with edge.BatchBuffer):
//	                                              log | httpOut ep=<name> | httpPost | union with=<id of the second parent>
//	pt <name> <tags> <fields> <time>              one written point (database db, retention policy rp), in order
//	run => ok|err:script|err:task|timeout         the task ran to completion after Drain()
//	sink <id> => <message tokens>                 final view of the messages recorded under node <id>
//	snap <id> => same | <message tokens>          the private copy taken at ingestion (same = equal to the final view)
//
// The sink under a carrier is a LATE consumer (`@lsink()` / `@lbsink()`): it does not take anything off its edge before
// all points have been written, the inputs have been closed and every other sink of the task has seen its last message,
// i.e. the carrier has emitted ALL its batches before the first one is consumed (the edge between them is a 1000-slot
// channel in kapacitor, the producing node simply runs ahead of a slow child such as httpPost, an alert handler, a UDF).
package c10

import (
	"fmt"
	"io"
	"net/http"
	"net/http/httptest"
	"os"
	"strconv"
	"strings"
	"sync"
	"time"

	imodels "github.com/influxdata/influxdb/models"
	"github.com/influxdata/kapacitor"

	"verifharness/kit"
)

type nodeSpec struct {
	id, parent int
	kind       string
	args       map[string]string
	batchOut   bool
}

func un(s string) string { v, _ := kit.Unesc(s); return v }
func atoi(s string) int64 { v, _ := strconv.ParseInt(s, 10, 64); return v }

func splitList(s string) []string {
	if s == "" || s == "-" {
		return nil
	}
	var out []string
	for _, x := range strings.Split(s, ",") {
		out = append(out, un(x))
	}
	return out
}

func strLit(s string) string {
	return "'" + strings.ReplaceAll(strings.ReplaceAll(s, `\`, `\\`), `'`, `\'`) + "'"
}

func strList(xs []string) string {
	var b []string
	for _, x := range xs {
		b = append(b, strLit(x))
	}
	return strings.Join(b, ", ")
}

func durLit(ns int64) string {
	switch {
	case ns%int64(time.Second) == 0:
		return fmt.Sprintf("%ds", ns/int64(time.Second))
	case ns%int64(time.Millisecond) == 0:
		return fmt.Sprintf("%dms", ns/int64(time.Millisecond))
	case ns%int64(time.Microsecond) == 0:
		return fmt.Sprintf("%dus", ns/int64(time.Microsecond))
	}
	return fmt.Sprintf("%dns", ns)
}

func floatLit(bits string) (string, bool) {
	u, err := strconv.ParseUint(bits, 16, 64)
	if err != nil {
		return "", false
	}
	f := float64frombits(u)
	s := strconv.FormatFloat(f, 'f', -1, 64)
	if !strings.Contains(s, ".") {
		s += ".0"
	}
	return s, true
}

// valLit renders a canonical field value (i:…, f:…, s:…, b:…) as a TICKscript literal.
func valLit(v string) (string, bool) {
	switch {
	case strings.HasPrefix(v, "i:"):
		return v[2:], true
	case strings.HasPrefix(v, "f:"):
		return floatLit(v[2:])
	case strings.HasPrefix(v, "s:"):
		return strLit(un(v[2:])), true
	case v == "b:1":
		return "TRUE", true
	case v == "b:0":
		return "FALSE", true
	}
	return "", false
}

// exprTick renders a polish-notation expression token (`gt,r:v,i:3`) as a fully parenthesised TICKscript lambda body.
func exprTick(tok string) (string, bool) {
	parts := strings.Split(tok, ",")
	pos := 0
	var rec func() (string, bool)
	bin := map[string]string{"eq": "==", "ne": "!=", "lt": "<", "le": "<=", "gt": ">", "ge": ">=", "add": "+", "sub": "-", "mul": "*", "and": "AND", "or": "OR"}
	rec = func() (string, bool) {
		if pos >= len(parts) {
			return "", false
		}
		t := parts[pos]
		pos++
		if op, ok := bin[t]; ok {
			a, ok1 := rec()
			b, ok2 := rec()
			if !ok1 || !ok2 {
				return "", false
			}
			return "(" + a + " " + op + " " + b + ")", true
		}
		if t == "not" {
			a, ok := rec()
			return "!(" + a + ")", ok
		}
		if strings.HasPrefix(t, "r:") {
			return `"` + strings.ReplaceAll(strings.ReplaceAll(un(t[2:]), `\`, `\\`), `"`, `\"`) + `"`, true
		}
		return valLit(t)
	}
	s, ok := rec()
	if !ok || pos != len(parts) {
		return "", false
	}
	return s, true
}

func lambdaList(arg string) (string, bool) {
	var b []string
	for _, e := range strings.Split(arg, "|") {
		s, ok := exprTick(e)
		if !ok {
			return "", false
		}
		b = append(b, "lambda: "+s)
	}
	return strings.Join(b, ", "), true
}

// kvList parses `k=v,k=v` (escaped keys, canonical values) in order.
func kvList(s string) [][2]string {
	if s == "" || s == "-" {
		return nil
	}
	var out [][2]string
	for _, kv := range strings.Split(s, ",") {
		i := strings.Index(kv, "=")
		if i < 0 {
			continue
		}
		out = append(out, [2]string{un(kv[:i]), kv[i+1:]})
	}
	return out
}

// nodeTick renders the chain method (and property methods) of one node.
func nodeTick(n *nodeSpec) (string, bool) {
	a := n.args
	var b strings.Builder
	switch n.kind {
	case "where":
		l, ok := lambdaList(a["e"])
		if !ok {
			return "", false
		}
		b.WriteString("|where(" + l + ")")
	case "eval":
		l, ok := lambdaList(a["e"])
		if !ok {
			return "", false
		}
		b.WriteString("|eval(" + l + ")\n    .as(" + strList(splitList(a["as"])) + ")")
		if t := splitList(a["tags"]); len(t) > 0 {
			b.WriteString("\n    .tags(" + strList(t) + ")")
		}
		if a["keep"] == "1" {
			b.WriteString("\n    .keep(" + strList(splitList(a["keeplist"])) + ")")
		}
		if a["quiet"] == "1" {
			b.WriteString("\n    .quiet()")
		}
	case "default":
		b.WriteString("|default()")
		for _, kv := range kvList(a["f"]) {
			v, ok := valLit(kv[1])
			if !ok {
				return "", false
			}
			b.WriteString("\n    .field(" + strLit(kv[0]) + ", " + v + ")")
		}
		for _, kv := range kvList(a["t"]) {
			b.WriteString("\n    .tag(" + strLit(kv[0]) + ", " + strLit(un(kv[1])) + ")")
		}
	case "delete":
		b.WriteString("|delete()")
		for _, f := range splitList(a["f"]) {
			b.WriteString("\n    .field(" + strLit(f) + ")")
		}
		for _, t := range splitList(a["t"]) {
			b.WriteString("\n    .tag(" + strLit(t) + ")")
		}
	case "shift":
		d := atoi(a["d"])
		if d < 0 {
			b.WriteString("|shift(-" + durLit(-d) + ")")
		} else {
			b.WriteString("|shift(" + durLit(d) + ")")
		}
	case "sample":
		if d := atoi(a["d"]); d != 0 {
			b.WriteString("|sample(" + durLit(d) + ")")
		} else {
			b.WriteString("|sample(" + a["n"] + ")")
		}
	case "derivative":
		b.WriteString("|derivative(" + strLit(un(a["f"])) + ")\n    .as(" + strLit(un(a["as"])) + ")\n    .unit(" + durLit(atoi(a["unit"])) + ")")
		if a["nn"] == "1" {
			b.WriteString("\n    .nonNegative()")
		}
	case "changeDetect":
		b.WriteString("|changeDetect(" + strList(splitList(a["f"])) + ")")
	case "stateCount":
		l, ok := lambdaList(a["e"])
		if !ok {
			return "", false
		}
		b.WriteString("|stateCount(" + l + ")\n    .as(" + strLit(un(a["as"])) + ")")
	case "stateDuration":
		l, ok := lambdaList(a["e"])
		if !ok {
			return "", false
		}
		b.WriteString("|stateDuration(" + l + ")\n    .as(" + strLit(un(a["as"])) + ")\n    .unit(" + durLit(atoi(a["unit"])) + ")")
	case "flatten":
		b.WriteString("|flatten()\n    .on(" + strList(splitList(a["on"])) + ")\n    .delimiter(" + strLit(un(a["delim"])) + ")")
		if t := atoi(a["tol"]); t != 0 {
			b.WriteString("\n    .tolerance(" + durLit(t) + ")")
		}
		if a["drop"] == "1" {
			b.WriteString("\n    .dropOriginalFieldName()")
		}
	case "combine":
		l, ok := lambdaList(a["e"])
		if !ok {
			return "", false
		}
		b.WriteString("|combine(" + l + ")\n    .as(" + strList(splitList(a["as"])) + ")\n    .delimiter(" + strLit(un(a["delim"])) + ")")
		if t := atoi(a["tol"]); t != 0 {
			b.WriteString("\n    .tolerance(" + durLit(t) + ")")
		}
		if m := atoi(a["max"]); m != 0 {
			b.WriteString(fmt.Sprintf("\n    .max(%d)", m))
		}
	case "groupBy":
		var ds []string
		for _, d := range splitList(a["dims"]) {
			ds = append(ds, strLit(d))
		}
		if a["all"] == "1" {
			ds = append(ds, "*")
		}
		b.WriteString("|groupBy(" + strings.Join(ds, ", ") + ")")
		if x := splitList(a["excl"]); len(x) > 0 {
			b.WriteString("\n    .exclude(" + strList(x) + ")")
		}
		if a["byName"] == "1" {
			b.WriteString("\n    .byMeasurement()")
		}
	case "log":
		b.WriteString("|log()")
	case "httpOut":
		b.WriteString("|httpOut(" + strLit(un(a["ep"])) + ")")
	case "httpPost":
		b.WriteString("|httpPost(" + strLit(postURL()) + ")")
	case "union":
		b.WriteString(fmt.Sprintf("|union(n%d)", atoi(a["with"])))
	case "window":
		if a["pc"] != "" {
			b.WriteString("|window()\n    .periodCount(" + a["pc"] + ")\n    .everyCount(" + a["ec"] + ")")
		} else {
			b.WriteString("|window()\n    .period(" + durLit(atoi(a["p"])) + ")\n    .every(" + durLit(atoi(a["e"])) + ")")
		}
	default:
		return "", false
	}
	return b.String(), true
}

var carrierKinds = map[string]bool{"log": true, "httpOut": true, "httpPost": true, "union": true}

// postSrv is the endpoint of the generated httpPost nodes: it reads the body and answers 200.
var (
	postOnce sync.Once
	postSrv  *httptest.Server
)

func postURL() string {
	postOnce.Do(func() {
		postSrv = httptest.NewServer(http.HandlerFunc(func(w http.ResponseWriter, r *http.Request) {
			io.Copy(io.Discard, r.Body)
			w.WriteHeader(200)
		}))
	})
	return postSrv.URL
}

func buildScript(nodes []*nodeSpec) (string, bool) {
	var b strings.Builder
	for _, n := range nodes {
		if n.id == 0 {
			if n.kind != "from" {
				return "", false
			}
			b.WriteString("var n0 = stream\n    |from()\n")
			n.batchOut = false
		} else {
			if n.parent < 0 || n.parent >= n.id {
				return "", false
			}
			p := nodes[n.parent]
			t, ok := nodeTick(n)
			if !ok {
				return "", false
			}
			switch n.kind {
			case "window":
				n.batchOut = true
			case "combine":
				n.batchOut = false
			default:
				n.batchOut = p.batchOut
			}
			fmt.Fprintf(&b, "var n%d = n%d\n    %s\n", n.id, n.parent, t)
		}
		if n.batchOut {
			fmt.Fprintf(&b, "n%d\n    @bsink()\n", n.id)
		} else {
			fmt.Fprintf(&b, "n%d\n    @sink()\n", n.id)
		}
	}
	return b.String(), true
}

func stripObs(l string) string {
	if i := strings.Index(l, " => "); i >= 0 {
		return l[:i]
	}
	return strings.TrimSuffix(l, " =>")
}

func parseValue(v string) (interface{}, bool) {
	switch {
	case strings.HasPrefix(v, "i:"):
		return atoi(v[2:]), true
	case strings.HasPrefix(v, "f:"):
		u, err := strconv.ParseUint(v[2:], 16, 64)
		return float64frombits(u), err == nil
	case strings.HasPrefix(v, "s:"):
		return un(v[2:]), true
	case v == "b:1":
		return true, true
	case v == "b:0":
		return false, true
	}
	return nil, false
}

var caseNo int

// execCase runs one case on the real code and returns its lines with observations.
func execCase(lines []string) (out []string) {
	var nodes []*nodeSpec
	var pts []imodels.Point
	bad := false
	for _, raw := range lines {
		t := strings.Fields(stripObs(raw))
		if len(t) == 0 {
			continue
		}
		switch t[0] {
		case "node":
			if len(t) < 4 {
				bad = true
				continue
			}
			n := &nodeSpec{id: int(atoi(t[1])), parent: -1, kind: t[3], args: map[string]string{}}
			if t[2] != "-" {
				n.parent = int(atoi(t[2]))
			}
			for _, kv := range t[4:] {
				if i := strings.Index(kv, "="); i > 0 {
					n.args[kv[:i]] = kv[i+1:]
				}
			}
			if n.id != len(nodes) {
				bad = true
				continue
			}
			nodes = append(nodes, n)
		case "pt":
			if len(t) != 5 {
				bad = true
				continue
			}
			tags := map[string]string{}
			for _, kv := range kvList(t[2]) {
				tags[kv[0]] = un(kv[1])
			}
			fields := imodels.Fields{}
			for _, kv := range kvList(t[3]) {
				v, ok := parseValue(kv[1])
				if !ok {
					bad = true
				}
				fields[kv[0]] = v
			}
			p, err := imodels.NewPoint(un(t[1]), imodels.NewTags(tags), fields, time.Unix(0, atoi(t[4])).UTC())
			if err != nil {
				bad = true
				continue
			}
			pts = append(pts, p)
		}
	}
	status := "ok"
	var svc *recSvc
	var keys []string
	func() {
		if bad || len(nodes) == 0 {
			status = "err:case"
			return
		}
		script, ok := buildScript(nodes)
		if !ok {
			status = "err:case"
			return
		}
		tm, err := kit.NewTM(kit.TMOpts{})
		if err != nil {
			status = "err:tm"
			return
		}
		defer tm.Close()
		svc = newRecSvc()
		defer svc.openGate()
		tm.TM.UDFService = svc
		caseNo++
		et, err := tm.StartStream(fmt.Sprintf("c10_%d", caseNo), script, []kapacitor.DBRP{{Database: "db", RetentionPolicy: "rp"}})
		if err != nil {
			if os.Getenv("VERIF_LOG") != "" {
				fmt.Fprintln(os.Stderr, "task:", err, "\n", script)
			}
			status = "err:script"
			return
		}
		for _, p := range pts {
			if err := tm.TM.WritePoints("db", "rp", imodels.ConsistencyLevelAll, []imodels.Point{p}); err != nil {
				status = "err:write"
				break
			}
		}
		tm.TM.Drain()
		// the late consumers start only now: everything their producers will ever emit is already on the edges
		svc.waitOthersDone(10 * time.Second)
		svc.openGate()
		done := make(chan error, 1)
		go func() { done <- et.Wait() }()
		select {
		case err := <-done:
			if err != nil {
				if os.Getenv("VERIF_LOG") != "" {
					fmt.Fprintln(os.Stderr, "task failed:", err, "\n", script)
				}
				status = "err:task"
			}
		case <-time.After(60 * time.Second):
			status = "timeout"
		}
		keys = svc.sinkKeys()
	}()
	for _, raw := range lines {
		line := stripObs(raw)
		t := strings.Fields(line)
		if len(t) == 0 {
			continue
		}
		switch t[0] {
		case "run":
			line += " => " + status
		case "sink", "snap":
			id := int(atoi(t[1]))
			if svc == nil || id < 0 || id >= len(keys) {
				line += " => none"
				break
			}
			fin := svc.finals(keys[id])
			if t[0] == "sink" {
				line += " => " + strconv.Itoa(len(fin)) + " " + strings.Join(fin, " ")
			} else {
				sn := svc.snapshots(keys[id])
				if strings.Join(sn, " ") == strings.Join(fin, " ") {
					line += " => same"
				} else {
					line += " => " + strconv.Itoa(len(sn)) + " " + strings.Join(sn, " ")
				}
			}
			line = strings.TrimRight(line, " ")
		}
		out = append(out, line)
	}
	return out
}

func emit(out *kit.Out, id string, lines []string) {
	out.Line("case", id)
	for _, l := range lines {
		out.Line(l)
	}
	out.Line("end")
	out.Flush()
}

// Run: `vh-c10 -seed S -n N [-tier thorough]` generates; `vh-c10 -ops file` re-executes the cases of a file.
func Run(args []string) int {
	f := kit.ParseFlags(args)
	out := kit.NewOut()
	defer out.Flush()
	if f.Ops != "" {
		lines, err := kit.ReadLines(f.Ops)
		if err != nil {
			fmt.Fprintln(os.Stderr, err)
			return 2
		}
		var cur []string
		id := ""
		for _, l := range lines {
			t := strings.Fields(l)
			switch {
			case len(t) == 2 && t[0] == "case":
				id, cur = t[1], nil
			case len(t) == 1 && t[0] == "end":
				emit(out, id, execCase(cur))
			default:
				cur = append(cur, l)
			}
		}
		return 0
	}
	r := kit.NewRand(f.Seed)
	for i := 0; i < f.N; i++ {
		emit(out, fmt.Sprintf("g%d", i), execCase(genCase(r.Fork(), i, f.Tier)))
	}
	return 0
}
