// Package c10 is the harness for property C10 (runs the real kapacitor code, prints op lines).
package c10

import (
	"fmt"
	"os"
)

// Run is replaced by the property's harness.
func Run(args []string) int {
	fmt.Fprintln(os.Stderr, "c10: harness not implemented yet")
	return 3
}
