package c10

import (
	"fmt"
	"math"
	"sort"
	"strings"
	"time"

	"verifharness/kit"
)

func float64frombits(u uint64) float64 { return math.Float64frombits(u) }

const sec = int64(1000000000)

// caseDur is the duration the current case is built around (sample(d), flatten/combine tolerance, point times on and off
// its boundaries). time.Truncate/Round count from Go's zero time (year 1, 62135596800 s before the Unix epoch): the pool
// mixes durations that divide that offset (1s 2s 3s 5s) with durations that do not (7s 11s 13s 7ms 36h 1w), for which
// "multiple of d" differs between the two origins.
var caseDur = sec
var durPool = []int64{sec, 2 * sec, 3 * sec, 5 * sec, 7 * sec, 7 * sec, 11 * sec, 13 * sec, 7000000, 36 * 3600 * sec, 7 * 24 * 3600 * sec}

func goTrunc(t, d int64) int64 { return time.Unix(0, t).UTC().Truncate(time.Duration(d)).UnixNano() }

func pickDur(r *kit.Rand) int64 {
	if r.Chance(2, 3) {
		return caseDur
	}
	return kit.Pick(r, durPool)
}

// ---- pools ----

var (
	tagKeys    = []string{"h", "dc", "p"}
	tagVals    = map[string][]string{"h": {"a", "b", "c", "a b", "x,y=z"}, "dc": {"e", "w", "é"}, "p": {"80", "443", "8080"}}
	fieldKeys  = []string{"v", "w", "s", "f"}
	predLeaves = []string{
		"gt,r:v,i:2", "le,r:v,i:3", "lt,r:v,f:4004000000000000", "ge,r:w,i:1", "eq,r:h,s:a", "ne,r:h,s:b", "eq,r:s,s:x",
		"r:f", "eq,r:f,b:1", "ge,r:v,r:w", "eq,r:p,s:80", "gt,r:zz,i:0", "ne,r:dc,s:e", "eq,r:v,i:1", "gt,r:w,f:3ff8000000000000",
	}
	evalExprs = []string{
		"add,r:v,i:1", "mul,r:v,r:w", "sub,r:w,i:2", "add,r:s,s:_t", "r:h", "r:v", "gt,r:v,i:2", "mul,r:v,f:4000000000000000",
		"add,r:h,s:-z", "sub,r:v,r:v", "add,r:dc,r:h", "r:zz", "and,gt,r:v,i:1,r:f", "add,r:w,r:w",
	}
	strExprs = []string{"add,r:s,s:_t", "r:h", "add,r:h,s:-z", "add,r:dc,r:h", "r:s", "s:const"}
)

func pred(r *kit.Rand) string {
	switch r.Intn(10) {
	case 0, 1:
		return "and," + kit.Pick(r, predLeaves) + "," + kit.Pick(r, predLeaves)
	case 2, 3:
		return "or," + kit.Pick(r, predLeaves) + "," + kit.Pick(r, predLeaves)
	case 4:
		return "b:1"
	}
	return kit.Pick(r, predLeaves)
}

func subset(r *kit.Rand, xs []string, min int) []string {
	var out []string
	for _, x := range xs {
		if r.Bool() {
			out = append(out, x)
		}
	}
	for len(out) < min {
		x := kit.Pick(r, xs)
		dup := false
		for _, y := range out {
			dup = dup || y == x
		}
		if !dup {
			out = append(out, x)
		}
	}
	return out
}

func escList(xs []string) string {
	if len(xs) == 0 {
		return "-"
	}
	var b []string
	for _, x := range xs {
		b = append(b, kit.Esc(x))
	}
	return strings.Join(b, ",")
}

func fbits(f float64) string { return kit.F64(f) }

// genNode renders the arguments of a node of the given kind.
func genNode(r *kit.Rand, kind string) string {
	switch kind {
	case "where":
		return "where e=" + pred(r)
	case "eval":
		n := 1 + r.Intn(3)
		names := []string{"x", "y", "z", "v", "h", "s"}
		perm := r.Intn(len(names))
		var es, as []string
		tagsArg := []string{}
		for i := 0; i < n; i++ {
			a := names[(perm+i)%len(names)]
			e := kit.Pick(r, evalExprs)
			if i > 0 && r.Chance(1, 2) {
				// use an earlier result
				e = kit.Pick(r, []string{"mul,r:" + as[i-1] + ",i:2", "add,r:" + as[i-1] + ",r:v", "r:" + as[i-1], "add,r:" + as[i-1] + ",s:!"})
			}
			if r.Chance(1, 4) {
				e = kit.Pick(r, strExprs)
				if r.Chance(2, 3) {
					tagsArg = append(tagsArg, a)
				}
			}
			es = append(es, e)
			as = append(as, a)
		}
		keep, kl := "0", "-"
		switch r.Intn(4) {
		case 0:
			keep = "1"
		case 1:
			keep = "1"
			pool := append(append([]string{}, as...), "v", "w", "h", "nope")
			if r.Bool() {
				// all results (some are named like existing fields: scope-before-raw-field precedence) + some raw names
				kl = escList(append(append([]string{}, as...), subset(r, []string{"w", "f", "nope"}, 0)...))
			} else {
				kl = escList(subset(r, pool, 1))
			}
			if r.Chance(3, 4) {
				kl = strings.ReplaceAll(strings.ReplaceAll(","+kl+",", ",nope,", ","), ",,", ",")
				kl = strings.Trim(kl, ",")
				if kl == "" {
					kl = kit.Esc(as[0])
				}
			}
		}
		return fmt.Sprintf("eval e=%s as=%s tags=%s keep=%s keeplist=%s quiet=%d", strings.Join(es, "|"), escList(as), escList(tagsArg), keep, kl, r.Intn(2))
	case "default":
		var fs, ts []string
		for _, kv := range [][2]string{{"v", "i:7"}, {"w", "f:" + fbits(2.5)}, {"s", "s:dflt"}, {"nf", "b:1"}} {
			if r.Chance(2, 5) {
				fs = append(fs, kv[0]+"="+kv[1])
			}
		}
		for _, kv := range [][2]string{{"h", "dflt"}, {"dc", "x y"}, {"nt", "n"}, {"p", "1"}} {
			if r.Chance(2, 5) {
				ts = append(ts, kv[0]+"="+kit.Esc(kv[1]))
			}
		}
		f, t := "-", "-"
		if len(fs) > 0 {
			f = strings.Join(fs, ",")
		}
		if len(ts) > 0 {
			t = strings.Join(ts, ",")
		}
		return "default f=" + f + " t=" + t
	case "delete":
		return "delete f=" + escList(subset(r, []string{"v", "w", "s", "zz"}, 0)) + " t=" + escList(subset(r, []string{"h", "dc", "zz"}, 0))
	case "shift":
		return fmt.Sprintf("shift d=%d", kit.Pick(r, []int64{sec, 5 * sec, 1500000000, -sec, -2500000000}))
	case "sample":
		if r.Chance(1, 2) {
			return fmt.Sprintf("sample n=0 d=%d", pickDur(r))
		}
		return fmt.Sprintf("sample n=%d d=0", 1+r.Intn(3))
	case "derivative":
		return fmt.Sprintf("derivative f=%s as=%s unit=%d nn=%d", kit.Pick(r, []string{"v", "v", "w"}), kit.Pick(r, []string{"d", "v", "d"}),
			kit.Pick(r, []int64{sec, 1000000, 2 * sec, 60 * sec}), r.Intn(2))
	case "changeDetect":
		return "changeDetect f=" + escList(subset(r, []string{"v", "s", "f", "zz"}, 1))
	case "stateCount":
		return "stateCount e=" + pred(r) + " as=" + kit.Pick(r, []string{"c", "c", "v"})
	case "stateDuration":
		return fmt.Sprintf("stateDuration e=%s as=%s unit=%d", pred(r), kit.Pick(r, []string{"sd", "sd", "w"}), kit.Pick(r, []int64{sec, 1000000, 60 * sec}))
	case "flatten":
		on := kit.Pick(r, [][]string{{"p"}, {"h", "p"}, {"dc", "h"}, {"p", "dc"}, {"h"}, {}})
		drop := 0
		if r.Chance(1, 8) {
			drop = 1
		}
		return fmt.Sprintf("flatten on=%s delim=%s tol=%d drop=%d", escList(on), kit.Esc(kit.Pick(r, []string{".", "_", "", ":", "."})),
			kit.Pick(r, []int64{0, 0, sec, pickDur(r), pickDur(r)}), drop)
	case "combine":
		leaves := []string{"b:1", "eq,r:h,s:a", "eq,r:p,s:80", "gt,r:v,i:2", "eq,r:h,s:b", "ne,r:p,s:80"}
		k := 2
		if r.Chance(1, 5) {
			k = 3
		}
		var es []string
		for i := 0; i < k; i++ {
			es = append(es, kit.Pick(r, leaves))
		}
		return fmt.Sprintf("combine e=%s as=%s delim=%s tol=%d max=0", strings.Join(es, "|"), escList([]string{"A", "B", "C"}[:k]),
			kit.Esc(kit.Pick(r, []string{".", "_"})), kit.Pick(r, []int64{0, 0, sec, pickDur(r)}))
	case "groupBy":
		all := 0
		dims := subset(r, []string{"h", "dc", "p", "zz"}, 0)
		if r.Chance(1, 4) {
			all = 1
			dims = nil
		}
		// not sorted on purpose: the node sorts
		if len(dims) > 1 && r.Bool() {
			sort.Sort(sort.Reverse(sort.StringSlice(dims)))
		}
		var excl []string
		if all == 1 && r.Chance(2, 3) {
			excl = subset(r, []string{"dc", "p"}, 1) // exclude requires '*'
		}
		return fmt.Sprintf("groupBy dims=%s all=%d excl=%s byName=%d", escList(dims), all, escList(excl), r.Intn(2))
	}
	return kind
}

// carriers: nodes that do not transform; the output of the C10 nodes reaches its consumers THROUGH them. On a batch edge
// behind a per-point node (begin / points / end arrive one by one) they re-buffer every batch with edge.BatchBuffer:
// log() with one buffer for the whole node, httpOut()/httpPost() with one per group, union() (edge.multiConsumer) with one
// per parent edge; a batch that arrives buffered (window, groupBy, another carrier) is handed on as it is.
var carrierPool = []string{"log", "log", "httpOut", "httpPost", "union"}

var streamKinds = []string{"where", "eval", "default", "delete", "shift", "sample", "derivative", "changeDetect", "stateCount", "stateDuration", "flatten", "combine", "groupBy"}

func fieldVal(r *kit.Rand, k string) string {
	switch k {
	case "v":
		switch r.Intn(12) {
		case 0:
			return "s:str"
		case 1, 2, 3:
			return "f:" + fbits(float64(r.Intn(9))/2)
		}
		return fmt.Sprintf("i:%d", r.Intn(6))
	case "w":
		if r.Chance(1, 5) {
			return "f:" + fbits(float64(r.Intn(7))/2)
		}
		return fmt.Sprintf("i:%d", r.Intn(4))
	case "s":
		return "s:" + kit.Pick(r, []string{"x", "y", "x"})
	}
	if r.Bool() {
		return "b:1"
	}
	return "b:0"
}

func genPoints(r *kit.Rand, n int) []string {
	var out []string
	t := 1000 * sec
	nTagKeys := 1 + r.Intn(3)
	nVals := 1 + r.Intn(3)
	twoNames := r.Chance(1, 5)
	intOnly := r.Chance(1, 3)
	boundary := r.Chance(1, 2)
	for i := 0; i < n; i++ {
		t += kit.Pick(r, []int64{0, 0, sec, sec, sec / 2, 2 * sec, 3 * sec, 250000000})
		if boundary && caseDur <= 13*sec && r.Chance(1, 4) {
			t += caseDur
		}
		tt := t
		if boundary {
			// on, just off, half way between and one Unix-epoch multiple away from the boundaries of caseDur
			switch r.Intn(8) {
			case 0, 1, 2:
				tt = goTrunc(t, caseDur)
			case 3:
				tt = goTrunc(t, caseDur) + 1
			case 4:
				tt = goTrunc(t, caseDur) + caseDur/2
			case 5:
				tt = t - t%caseDur // a multiple counted from the Unix epoch
			case 6:
				tt = goTrunc(t, caseDur) + caseDur/2 - 1
			}
			if tt > t {
				t = tt
			}
		}
		if r.Chance(1, 40) {
			tt = t - 2*sec // out of order
		}
		var tags []string
		for _, k := range tagKeys[:nTagKeys] {
			if r.Chance(1, 8) {
				continue // tag missing
			}
			vs := tagVals[k]
			tags = append(tags, k+"="+kit.Esc(vs[r.Intn(min(nVals, len(vs)))]))
		}
		var fields []string
		for _, k := range fieldKeys {
			if k != "v" && r.Chance(1, 3) || k == "v" && r.Chance(1, 8) {
				continue
			}
			v := fieldVal(r, k)
			if intOnly && k == "v" {
				v = fmt.Sprintf("i:%d", r.Intn(6))
			}
			fields = append(fields, k+"="+v)
		}
		if len(fields) == 0 {
			fields = append(fields, "v=i:1")
		}
		name := "m"
		if twoNames && r.Chance(1, 3) {
			name = "cpu"
		}
		tg := "-"
		if len(tags) > 0 {
			tg = strings.Join(tags, ",")
		}
		out = append(out, fmt.Sprintf("pt %s %s %s %d", name, tg, strings.Join(fields, ","), tt))
	}
	return out
}

func min(a, b int) int {
	if a < b {
		return a
	}
	return b
}

// genCarrier renders a carrier node under `parent` (id = the id the new node gets).
func genCarrier(r *kit.Rand, parent, id int, isBatch func(int) bool) (string, bool) {
	switch k := kit.Pick(r, carrierPool); k {
	case "httpOut":
		return fmt.Sprintf("httpOut ep=e%d", id), true
	case "union":
		var cands []int
		for j := 0; j < id; j++ {
			if j != parent && isBatch(j) == isBatch(parent) {
				cands = append(cands, j)
			}
		}
		if len(cands) == 0 {
			return "", false
		}
		return fmt.Sprintf("union with=%d", kit.Pick(r, cands)), true
	default:
		return k, true
	}
}

// genCase: a tree of ≤ maxNodes transforming nodes under from(); every 3rd case runs on batch edges (a window in front).
func genCase(r *kit.Rand, i int, tier string) []string {
	caseDur = kit.Pick(r, durPool)
	if i%7 == 3 {
		return directed(r, i/7)
	}
	maxNodes := 4
	if tier == "thorough" && r.Chance(1, 3) {
		maxNodes = 6
	}
	lines := []string{"node 0 - from"}
	type ninfo struct {
		batch bool
		kind  string
	}
	infos := []ninfo{{false, "from"}}
	add := func(parent int, spec string, batch bool) int {
		id := len(infos)
		lines = append(lines, fmt.Sprintf("node %d %d %s", id, parent, spec))
		infos = append(infos, ninfo{batch, strings.Fields(spec)[0]})
		return id
	}
	last := 0
	batchMode := i%3 == 1
	if r.Chance(3, 5) {
		last = add(last, genNode(r, "groupBy"), false)
	}
	if batchMode {
		if r.Chance(1, 3) {
			last = add(last, genNode(r, kit.Pick(r, []string{"where", "default", "eval", "delete"})), false)
		}
		var w string
		if r.Bool() {
			k := 2 + r.Intn(4)
			w = fmt.Sprintf("window pc=%d ec=%d", k, k)
		} else {
			d := kit.Pick(r, []int64{2 * sec, 3 * sec, 5 * sec})
			w = fmt.Sprintf("window p=%d e=%d", d, d)
		}
		last = add(last, w, true)
	}
	n := 1 + r.Intn(maxNodes)
	for k := 0; k < n; k++ {
		parent := last
		if r.Chance(1, 4) {
			parent = r.Intn(len(infos)) // fork somewhere
		}
		kind := kit.Pick(r, streamKinds)
		if batchMode && r.Chance(1, 3) || !batchMode && r.Chance(1, 8) {
			// on a batch edge mostly behind a per-point node (the carrier then re-buffers), sometimes straight behind a
			// node that emits whole batches (window, groupBy, another carrier: handed on untouched)
			if pk := infos[parent].kind; infos[parent].batch && (pk == "window" || pk == "groupBy" || carrierKinds[pk]) && r.Chance(3, 4) {
				parent = add(parent, genNode(r, kit.Pick(r, []string{"where", "eval", "shift", "default", "delete", "stateCount", "sample"})), true)
			}
			if c, ok := genCarrier(r, parent, len(infos), func(j int) bool { return infos[j].batch }); ok {
				last = add(parent, c, infos[parent].batch)
				continue
			}
		}
		if kind == "shift" && infos[parent].kind == "shift" {
			// `|shift()` directly under a shift node is rejected by the TICKscript evaluator (the property field Shift
			// hides the chain method) — not a C10 matter
			kind = "where"
		}
		batchOut := infos[parent].batch
		if kind == "combine" {
			batchOut = false
		}
		last = add(parent, genNode(r, kind), batchOut)
	}
	np := 6 + r.Intn(20)
	if tier == "thorough" && r.Chance(1, 4) {
		np = 30 + r.Intn(30)
	}
	lines = append(lines, genPoints(r, np)...)
	lines = append(lines, "run")
	for id := range infos {
		lines = append(lines, fmt.Sprintf("sink %d", id), fmt.Sprintf("snap %d", id))
	}
	return lines
}

// directed: small pipelines aimed at one structural case each.
func directed(r *kit.Rand, k int) []string {
	pts := func(ps ...string) []string { return ps }
	type d struct {
		nodes []string
		pts   []string
	}
	cases := []d{
		// derivative: no previous, emit, zero elapsed (stored), negative under nonNegative (stored), non-numeric (not stored), float/int mix
		{[]string{"node 1 0 groupBy dims=h all=0 excl=- byName=0", "node 2 1 derivative f=v as=d unit=1000000000 nn=1", "node 3 1 derivative f=v as=v unit=2000000000 nn=0"},
			pts("pt m h=a v=i:1 1000000000000", "pt m h=b v=i:10 1000000000000", "pt m h=a v=i:4 1001000000000", "pt m h=a v=i:9 1001000000000",
				"pt m h=a v=i:2 1002000000000", "pt m h=a v=s:x 1003000000000", "pt m h=a v=f:4014000000000000 1004000000000", "pt m h=b v=i:4 1004000000000", "pt m h=a w=i:1 1005000000000", "pt m h=a v=i:7 1006000000000")},
		// flatten: a point that has the first `on` tag but not the second, followed by a complete point in the same bucket
		{[]string{"node 1 0 flatten on=h,p delim=. tol=0 drop=0"},
			pts("pt m h=a v=i:1 1000000000000", "pt m h=b,p=80 v=i:2 1000000000000", "pt m h=c,p=443 v=i:3,w=i:1 1000000000000", "pt m h=a,p=80 v=i:4 1001000000000", "pt m p=80 v=i:5 1001000000000", "pt m h=a,p=1 v=i:6 1002000000000")},
		{[]string{"node 1 0 groupBy dims=dc all=0 excl=- byName=0", "node 2 1 window pc=3 ec=3", "node 3 2 flatten on=h,p delim=_ tol=1000000000 drop=0"},
			pts("pt m dc=e,h=a v=i:1 1000000000000", "pt m dc=e,h=b,p=80 v=i:2 1000200000000", "pt m dc=e,h=c,p=443 v=i:3 1001000000000", "pt m dc=e,h=a,p=80 v=i:4 1002000000000", "pt m dc=e,h=b v=i:5 1002000000000", "pt m dc=e,h=a v=i:6 1002000000000")},
		// combine: lambdas ordered so that the greedy walk takes the wrong member first
		{[]string{"node 1 0 combine e=b:1|eq,r:h,s:a as=A,B delim=. tol=0 max=0", "node 2 0 combine e=eq,r:h,s:a|b:1 as=A,B delim=. tol=0 max=0"},
			pts("pt m h=a v=i:1 1000000000000", "pt m h=b v=i:2 1000000000000", "pt m h=c v=i:3 1000000000000", "pt m h=b v=i:4 1001000000000", "pt m h=a v=i:5 1001000000000", "pt m h=a v=i:6 1002000000000")},
		// combine with a tolerance and a first point that is not aligned
		{[]string{"node 1 0 combine e=b:1|b:1 as=A,B delim=. tol=1000000000 max=0"},
			pts("pt m h=a v=i:1 1000400000000", "pt m h=b v=i:2 1000000000000", "pt m h=c v=i:3 1000600000000", "pt m h=b v=i:4 1001000000000", "pt m h=a v=i:6 1003000000000")},
		// combine behind a where on batch edges (size hint 0)
		{[]string{"node 1 0 window pc=3 ec=3", "node 2 1 where e=gt,r:v,i:0", "node 3 2 combine e=b:1|b:1 as=A,B delim=. tol=0 max=0"},
			pts("pt m h=a v=i:1 1000000000000", "pt m h=b v=i:2 1000000000000", "pt m h=c v=i:3 1000000000000", "pt m h=b v=i:4 1001000000000", "pt m h=a v=i:5 1001000000000", "pt m h=a v=i:6 1001000000000")},
		// eval: a result named like a field, referenced again by a later expression
		{[]string{"node 1 0 eval e=add,r:v,i:1|mul,r:v,i:2 as=v,y tags=- keep=1 keeplist=- quiet=0", "node 2 0 eval e=add,r:v,i:1|mul,r:x,i:2 as=x,y tags=- keep=0 keeplist=- quiet=0",
			"node 3 0 eval e=add,r:h,s:!|add,r:t,r:h as=t,u tags=t keep=1 keeplist=u,v,h quiet=1"},
			pts("pt m h=a v=i:1 1000000000000", "pt m h=b v=i:2,w=i:1 1001000000000", "pt m - v=i:3 1002000000000")},
		// stateCount / stateDuration: runs, errors inside a run, repeated times, two groups
		{[]string{"node 1 0 groupBy dims=h all=0 excl=- byName=0", "node 2 1 stateCount e=gt,r:v,i:2 as=c", "node 3 1 stateDuration e=gt,r:v,i:2 as=sd unit=1000000000"},
			pts("pt m h=a v=i:3 1000000000000", "pt m h=b v=i:3 1000000000000", "pt m h=a v=i:4 1001000000000", "pt m h=a w=i:1 1002000000000", "pt m h=a v=i:5 1002000000000",
				"pt m h=a v=i:1 1003000000000", "pt m h=b v=i:9 1003500000000", "pt m h=a v=i:5 1004000000000", "pt m h=a v=i:5 1004000000000")},
		// changeDetect: same as last emitted but different from the last seen is impossible; the other way round is the point
		{[]string{"node 1 0 changeDetect f=v,s", "node 2 0 window pc=4 ec=4", "node 3 2 changeDetect f=v"},
			pts("pt m - v=i:1,s=s:x 1000000000000", "pt m - v=i:1,s=s:x 1001000000000", "pt m - w=i:1 1002000000000", "pt m - v=i:2 1003000000000", "pt m - v=i:2,s=s:x 1004000000000",
				"pt m - v=f:4000000000000000 1005000000000", "pt m - v=i:2 1006000000000", "pt m - v=i:2 1007000000000")},
		// default / delete on batch edges: group tags change
		{[]string{"node 1 0 groupBy dims=h,zz all=0 excl=- byName=1", "node 2 1 window pc=2 ec=2", "node 3 2 default f=v=i:7 t=zz=dz,h=dh", "node 4 2 delete f=v t=h", "node 5 1 delete f=- t=h", "node 6 5 stateCount e=b:1 as=c"},
			pts("pt m h=a v=i:1 1000000000000", "pt m h=a w=i:2 1001000000000", "pt cpu h=a v=i:3 1002000000000", "pt cpu h=b v=i:4 1003000000000", "pt m - v=i:5 1004000000000", "pt m - v=i:6 1005000000000")},
		// groupBy on batch edges: regroup, merge equal end times, emit on change
		{[]string{"node 1 0 groupBy dims=dc all=0 excl=- byName=0", "node 2 1 window p=2000000000 e=2000000000", "node 3 2 groupBy dims=h all=0 excl=- byName=0", "node 4 2 groupBy dims=- all=1 excl=dc byName=1"},
			pts("pt m dc=e,h=a v=i:1 1000000000000", "pt m dc=w,h=a v=i:2 1000500000000", "pt m dc=e,h=b v=i:3 1001000000000", "pt m dc=w,h=b v=i:4 1002000000000", "pt m dc=e,h=a v=i:5 1002100000000",
				"pt m dc=e,h=a v=i:6 1004000000000", "pt m dc=w,h=a v=i:7 1004100000000", "pt m dc=e,h=a v=i:8 1006000000000", "pt m dc=w,h=a v=i:9 1006500000000", "pt m dc=e,h=a v=i:8 1008000000000", "pt m dc=w,h=a v=i:9 1008500000000")},
		// sample per group
		{[]string{"node 1 0 groupBy dims=h all=0 excl=- byName=0", "node 2 1 sample n=2 d=0", "node 3 1 sample n=0 d=2000000000", "node 4 0 sample n=3 d=0"},
			pts("pt m h=a v=i:1 1000000000000", "pt m h=b v=i:2 1000000000000", "pt m h=a v=i:3 1001000000000", "pt m h=a v=i:4 1002000000000", "pt m h=b v=i:5 1003000000000", "pt m h=a v=i:6 1003500000000", "pt m h=b v=i:7 1004000000000")},
	}
	// carriers behind per-point nodes on batch edges: several batches of one group in quick succession, each re-buffered by
	// the carrier (edge.BatchBuffer) and consumed late; later batches not larger than the first, equal, and larger
	cases = append(cases,
		d{[]string{"node 1 0 window pc=3 ec=3", "node 2 1 where e=gt,r:v,i:0", "node 3 2 log", "node 4 3 httpPost", "node 5 4 eval e=add,r:v,i:1 as=x tags=- keep=1 keeplist=- quiet=0"},
			pts("pt m h=a v=i:1 1000000000000", "pt m h=a v=i:2 1001000000000", "pt m h=a v=i:3 1002000000000", "pt m h=b v=i:11 1003000000000", "pt m h=b v=i:12 1004000000000", "pt m h=b v=i:0 1005000000000",
				"pt m h=c v=i:21 1006000000000", "pt m h=c v=i:22 1007000000000", "pt m h=c v=i:23 1008000000000", "pt m h=a v=i:31 1009000000000", "pt m h=a v=i:32 1010000000000", "pt m h=a v=i:33 1011000000000")},
		d{[]string{"node 1 0 groupBy dims=h all=0 excl=- byName=0", "node 2 1 window pc=2 ec=2", "node 3 2 shift d=1000000000", "node 4 3 httpOut ep=e4", "node 5 2 eval e=mul,r:v,i:2 as=v tags=- keep=0 keeplist=- quiet=0",
			"node 6 5 union with=3", "node 7 6 log", "node 8 2 log"},
			pts("pt m h=a v=i:1 1000000000000", "pt m h=b v=i:2 1000000000000", "pt m h=a v=i:3 1001000000000", "pt m h=b v=i:4 1001000000000", "pt m h=a v=i:5 1002000000000", "pt m h=a v=i:6 1003000000000",
				"pt m h=b v=i:7 1003000000000", "pt m h=b v=i:8 1004000000000", "pt m h=a v=i:9 1005000000000", "pt m h=a v=i:10 1006000000000", "pt m h=b v=i:11 1006000000000", "pt m h=b v=i:12 1007000000000")},
		d{[]string{"node 1 0 window p=3000000000 e=3000000000", "node 2 1 default f=w=i:7 t=-", "node 3 2 union with=1", "node 4 2 httpPost", "node 5 4 stateCount e=gt,r:v,i:1 as=c", "node 6 0 log", "node 7 6 union with=0"},
			pts("pt m h=a v=i:1 1000000000000", "pt m h=a v=i:2 1001000000000", "pt m h=b v=i:3 1002000000000", "pt m h=a v=i:4 1003000000000", "pt m h=a v=i:5 1004000000000", "pt m h=a v=i:6 1004500000000",
				"pt m h=b v=i:7 1005000000000", "pt m h=a v=i:8 1006000000000", "pt m h=a v=i:9 1009000000000", "pt m h=a v=i:10 1012000000000")},
	)
	// sample(7s) / sample(11s) / sample(1w) on points that sit on the boundaries counted from Go's zero time, on the multiples
	// counted from the Unix epoch (which are NOT boundaries for these durations), and next to them
	{
		var ps []string
		base := 1000 * sec
		for j, d := range []int64{7 * sec, 11 * sec, 7 * 24 * 3600 * sec} {
			b := goTrunc(base+int64(j)*40*sec, d)
			if b < base {
				b = goTrunc(base+int64(j)*40*sec+d, d)
			}
			u := (base + int64(j)*40*sec) - (base+int64(j)*40*sec)%d
			for _, t := range []int64{b, b + 1, u, b + d/2} {
				if t > 0 {
					ps = append(ps, fmt.Sprintf("pt m h=a v=i:%d %d", j, t))
				}
			}
		}
		sort.SliceStable(ps, func(i, j int) bool { return atoi(strings.Fields(ps[i])[4]) < atoi(strings.Fields(ps[j])[4]) })
		cases = append(cases, d{[]string{"node 1 0 sample n=0 d=7000000000", "node 2 0 sample n=0 d=11000000000", "node 3 0 sample n=0 d=604800000000000",
			"node 4 0 window pc=4 ec=4", "node 5 4 sample n=0 d=7000000000", "node 6 0 flatten on=h delim=. tol=7000000000 drop=0"}, ps})
	}
	c := cases[k%len(cases)]
	lines := []string{"node 0 - from"}
	lines = append(lines, c.nodes...)
	lines = append(lines, c.pts...)
	// a few random extra points keep the directed cases from being one fixed input
	if r.Chance(1, 2) {
		extra := genPoints(r, 3+r.Intn(4))
		for _, e := range extra {
			// move behind the fixed points
			f := strings.Fields(e)
			f[4] = fmt.Sprintf("%d", atoi(f[4])+20*sec)
			lines = append(lines, strings.Join(f, " "))
		}
	}
	lines = append(lines, "run")
	for id := 0; id <= len(c.nodes); id++ {
		lines = append(lines, fmt.Sprintf("sink %d", id), fmt.Sprintf("snap %d", id))
	}
	return lines
}
