package c10

import (
	"fmt"
	"sort"
	"strconv"
	"strings"
	"sync"
	"time"

	"github.com/influxdata/kapacitor/edge"
	"github.com/influxdata/kapacitor/models"
	"github.com/influxdata/kapacitor/udf"
	"github.com/influxdata/kapacitor/udf/agent"

	"verifharness/kit"
)

// recSvc is a UDF service offering `@sink()` (stream → stream) and `@bsink()` (batch → batch), and their LATE variants
// `@lsink()` / `@lbsink()`.
// Every sink keeps, per received message,
//   - the message OBJECT itself (rendered only after the task has ended: the "final" view — what a consumer that reads
//     the message as late as possible finds in it; an in-place write by a sibling branch to a map shared with this
//     message, or by the PRODUCER to a slice it has already handed on, is visible in it), and
//   - a rendering taken at the moment of ingestion (the "snap" view, a private copy).
//
// The `sink` lines the driver judges are the final views: nothing is copied when a message is emitted or received.
// A late sink takes nothing off its edge until the gate is opened (c10.go: after all points are written, the inputs are
// closed and all other sinks are done), so its producer has emitted everything it will ever emit before the first
// message is consumed; its snap view is therefore already a late reading.
type recSvc struct {
	mu    sync.Mutex
	msgs  map[string][]edge.Message
	snaps map[string][]string
	made  []string // node names of the sinks, as created
	gate  chan struct{}
	gone  sync.Once
	early []*sinkUDF // the sinks that are not late
}

func newRecSvc() *recSvc {
	return &recSvc{msgs: map[string][]edge.Message{}, snaps: map[string][]string{}, gate: make(chan struct{})}
}

func (s *recSvc) openGate() { s.gone.Do(func() { close(s.gate) }) }

// waitOthersDone returns when every sink that is not late has been closed by its UDF node (its parent has emitted
// everything and the sink has recorded it), or after the timeout (a failing task).
func (s *recSvc) waitOthersDone(d time.Duration) {
	s.mu.Lock()
	early := append([]*sinkUDF(nil), s.early...)
	late := len(s.made) - len(early)
	s.mu.Unlock()
	if late == 0 {
		return
	}
	t := time.After(d)
	for _, u := range early {
		select {
		case <-u.done:
		case <-t:
			return
		}
	}
}

func (s *recSvc) add(key string, m edge.Message) {
	snap := renderRaw(m)
	s.mu.Lock()
	s.msgs[key] = append(s.msgs[key], m)
	s.snaps[key] = append(s.snaps[key], snap)
	s.mu.Unlock()
}

func (s *recSvc) List() []string { return []string{"sink", "bsink", "lsink", "lbsink"} }
func (s *recSvc) Info(name string) (udf.Info, bool) {
	switch name {
	case "sink", "lsink":
		return udf.Info{Wants: agent.EdgeType_STREAM, Provides: agent.EdgeType_STREAM, Options: map[string]*agent.OptionInfo{}}, true
	case "bsink", "lbsink":
		return udf.Info{Wants: agent.EdgeType_BATCH, Provides: agent.EdgeType_BATCH, Options: map[string]*agent.OptionInfo{}}, true
	}
	return udf.Info{}, false
}
func (s *recSvc) Create(name, taskID, nodeID string, d udf.Diagnostic, abortCallback func()) (udf.Interface, error) {
	info, ok := s.Info(name)
	if !ok {
		return nil, fmt.Errorf("unknown udf %s", name)
	}
	u := &sinkUDF{svc: s, key: nodeID, info: info, in: make(chan edge.Message), out: make(chan edge.Message), done: make(chan struct{}), abort: abortCallback,
		late: strings.HasPrefix(name, "l")}
	s.mu.Lock()
	s.made = append(s.made, nodeID)
	if !u.late {
		s.early = append(s.early, u)
	}
	s.mu.Unlock()
	return u, nil
}

type sinkUDF struct {
	svc   *recSvc
	key   string
	info  udf.Info
	in    chan edge.Message
	out   chan edge.Message
	done  chan struct{}
	abort func()
	once  sync.Once
	abrt  chan struct{}
	late  bool
}

func (u *sinkUDF) Open() error {
	u.abrt = make(chan struct{})
	go func() {
		defer close(u.done)
		defer close(u.out)
		if u.late {
			select {
			case <-u.svc.gate:
			case <-u.abrt:
				return
			}
		}
		for m := range u.in {
			u.svc.add(u.key, m)
			select {
			case u.out <- m:
			case <-u.abrt:
				return
			}
		}
	}()
	return nil
}
func (u *sinkUDF) Info() (udf.Info, error)            { return u.info, nil }
func (u *sinkUDF) Init(options []*agent.Option) error { return nil }
func (u *sinkUDF) Abort(err error) {
	u.once.Do(func() {
		close(u.abrt)
		if u.abort != nil {
			go u.abort()
		}
	})
}
func (u *sinkUDF) Close() error {
	close(u.in)
	<-u.done
	return nil
}
func (u *sinkUDF) Snapshot() ([]byte, error)     { return nil, nil }
func (u *sinkUDF) Restore(snapshot []byte) error { return nil }
func (u *sinkUDF) In() chan<- edge.Message       { return u.in }
func (u *sinkUDF) Out() <-chan edge.Message      { return u.out }

// ---- rendering ----

func dimsStr(d models.Dimensions) string {
	if len(d.TagNames) == 0 {
		return "-"
	}
	var b []string
	for _, t := range d.TagNames {
		b = append(b, kit.Esc(t))
	}
	return strings.Join(b, ",")
}

func b01(b bool) string {
	if b {
		return "1"
	}
	return "0"
}

func renderPoint(p edge.PointMessage) string {
	return strings.Join([]string{"P", kit.Esc(p.Name()), dimsStr(p.Dimensions()), b01(p.Dimensions().ByName), kit.Esc(string(p.GroupID())),
		kit.TagsStr(p.Tags()), kit.FieldsStr(p.Fields()), strconv.FormatInt(p.Time().UnixNano(), 10)}, ";")
}

func renderBegin(b edge.BeginBatchMessage, n int) string {
	tmax := "z"
	if !b.Time().IsZero() {
		tmax = strconv.FormatInt(b.Time().UnixNano(), 10)
	}
	return strings.Join([]string{"B", kit.Esc(b.Name()), dimsStr(b.Dimensions()), b01(b.Dimensions().ByName), kit.Esc(string(b.GroupID())),
		kit.TagsStr(b.Tags()), tmax, strconv.Itoa(n)}, ";")
}

func renderBP(p edge.BatchPointMessage) string {
	return strings.Join([]string{"b", kit.TagsStr(p.Tags()), kit.FieldsStr(p.Fields()), strconv.FormatInt(p.Time().UnixNano(), 10)}, ";")
}

// renderRaw renders one raw edge message (used for the ingestion snapshot).
func renderRaw(m edge.Message) string {
	switch x := m.(type) {
	case edge.PointMessage:
		return renderPoint(x)
	case edge.BufferedBatchMessage:
		out := []string{renderBegin(x.Begin(), len(x.Points()))}
		for _, p := range x.Points() {
			out = append(out, renderBP(p))
		}
		return strings.Join(out, " ") + " E"
	case edge.BeginBatchMessage:
		return renderBegin(x, -1)
	case edge.BatchPointMessage:
		return renderBP(x)
	case edge.EndBatchMessage:
		return "E"
	case edge.BarrierMessage:
		return "barrier"
	case edge.DeleteGroupMessage:
		return "delete"
	}
	return "unknown"
}

// assemble turns a sequence of raw renderings (begin, points, end / buffered) into the canonical token list:
// points `P;…`, batches `B;…;n` followed by n `b;…` tokens. Begin markers carry -1 as count until the end is seen.
func assemble(raw []string) []string {
	var out []string
	var cur []string
	open := false
	flush := func() {
		if open {
			// fix the count in the begin token
			h := cur[0]
			i := strings.LastIndex(h, ";")
			out = append(out, h[:i]+";"+strconv.Itoa(len(cur)-1))
			out = append(out, cur[1:]...)
		}
		cur, open = nil, false
	}
	for _, r := range raw {
		for _, t := range strings.Fields(r) {
			switch {
			case strings.HasPrefix(t, "B;"):
				flush()
				cur, open = []string{t}, true
			case strings.HasPrefix(t, "b;"):
				if open {
					cur = append(cur, t)
				} else {
					out = append(out, "stray-"+t)
				}
			case t == "E":
				if open {
					flush()
				} else {
					out = append(out, "stray-end")
				}
			case t == "barrier" || t == "delete":
				// not part of the data
			default:
				out = append(out, t)
			}
		}
	}
	if open {
		out = append(out, "unterminated-batch")
		flush()
	}
	return out
}

// sinkKeys returns the sink node names ordered by pipeline node id (sink2, bsink4, sink10, …) = declaration order.
func (s *recSvc) sinkKeys() []string {
	s.mu.Lock()
	defer s.mu.Unlock()
	ks := append([]string(nil), s.made...)
	sortByNumSuffix(ks)
	return ks
}

func (s *recSvc) finals(key string) []string {
	s.mu.Lock()
	defer s.mu.Unlock()
	var raw []string
	for _, m := range s.msgs[key] {
		raw = append(raw, renderRaw(m))
	}
	return assemble(raw)
}

func (s *recSvc) snapshots(key string) []string {
	s.mu.Lock()
	defer s.mu.Unlock()
	return assemble(append([]string(nil), s.snaps[key]...))
}

func numSuffix(s string) int {
	i := len(s)
	for i > 0 && s[i-1] >= '0' && s[i-1] <= '9' {
		i--
	}
	n, _ := strconv.Atoi(s[i:])
	return n
}

func sortByNumSuffix(xs []string) {
	sort.Slice(xs, func(i, j int) bool { return numSuffix(xs[i]) < numSuffix(xs[j]) })
}
