// Package c11 is the harness for property C11 (runs the real kapacitor code, prints op lines).
package c11

import (
	"fmt"
	"os"
)

// Run is replaced by the property's harness.
func Run(args []string) int {
	fmt.Fprintln(os.Stderr, "c11: harness not implemented yet")
	return 3
}
