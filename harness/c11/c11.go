// Package c11 is the harness for property C11 (InfluxQL aggregation node).
//
// Every case is ONE real stream task on a real TaskMaster:
//
//	stream|from().measurement('trig')  @bsrc()|@ssrc()   |<fn>('v')[.as(..)][.usePointTimes()]   @sink()|@bsink()
//
// `@bsrc()` / `@ssrc()` are in-process UDF nodes (public udf.Interface, same mechanism as kit's sinks) that
// emit the case's programmed input messages (whole batches, or stream points) followed by a barrier; the
// kit sink below the InfluxQL node records everything that comes out. The InfluxQL node under test
// (influxql.go / influxql.gen.go and the influxdb reducers behind it) is the unmodified code of VERIF_REPO.
package c11

import (
	"fmt"
	"math"
	"os"
	"sort"
	"strconv"
	"strings"
	"sync"
	"sync/atomic"
	"time"

	"github.com/influxdata/kapacitor"
	"github.com/influxdata/kapacitor/edge"
	"github.com/influxdata/kapacitor/models"
	"github.com/influxdata/kapacitor/udf"
	"github.com/influxdata/kapacitor/udf/agent"

	"verifharness/kit"
)

// ---------------------------------------------------------------------------------------------
// UDF service: kit's sinks + programmed sources

type svc struct {
	inner *kit.SinkUDFService
	mu    sync.Mutex
	progs map[string][]edge.Message // taskID -> messages to emit
}

func (s *svc) List() []string { return append(s.inner.List(), "bsrc", "ssrc") }
func (s *svc) Info(name string) (udf.Info, bool) {
	switch name {
	case "bsrc":
		return udf.Info{Wants: agent.EdgeType_STREAM, Provides: agent.EdgeType_BATCH, Options: map[string]*agent.OptionInfo{}}, true
	case "ssrc":
		return udf.Info{Wants: agent.EdgeType_STREAM, Provides: agent.EdgeType_STREAM, Options: map[string]*agent.OptionInfo{}}, true
	}
	return s.inner.Info(name)
}
func (s *svc) Create(name, taskID, nodeID string, d udf.Diagnostic, abortCallback func()) (udf.Interface, error) {
	if name == "bsrc" || name == "ssrc" {
		info, _ := s.Info(name)
		s.mu.Lock()
		prog := s.progs[taskID]
		s.mu.Unlock()
		return &srcUDF{info: info, prog: prog, in: make(chan edge.Message), out: make(chan edge.Message), done: make(chan struct{}), abrt: make(chan struct{}), abort: abortCallback}, nil
	}
	return s.inner.Create(name, taskID, nodeID, d, abortCallback)
}

type srcUDF struct {
	info  udf.Info
	prog  []edge.Message
	in    chan edge.Message
	out   chan edge.Message
	done  chan struct{}
	abrt  chan struct{}
	abort func()
	once  sync.Once
}

func (u *srcUDF) Open() error {
	go func() {
		defer close(u.done)
		defer close(u.out)
		sent := make(chan struct{})
		go func() {
			defer close(sent)
			for _, m := range u.prog {
				select {
				case u.out <- m:
				case <-u.abrt:
					return
				}
			}
		}()
		for range u.in { // ignore whatever comes from upstream; ends on Close()
		}
		<-sent
	}()
	return nil
}
func (u *srcUDF) Info() (udf.Info, error)            { return u.info, nil }
func (u *srcUDF) Init(options []*agent.Option) error { return nil }
func (u *srcUDF) Abort(err error) {
	u.once.Do(func() {
		close(u.abrt)
		if u.abort != nil {
			go u.abort()
		}
	})
}
func (u *srcUDF) Close() error {
	close(u.in)
	<-u.done
	return nil
}
func (u *srcUDF) Snapshot() ([]byte, error)     { return nil, nil }
func (u *srcUDF) Restore(snapshot []byte) error { return nil }
func (u *srcUDF) In() chan<- edge.Message       { return u.in }
func (u *srcUDF) Out() <-chan edge.Message      { return u.out }

// ---------------------------------------------------------------------------------------------
// op text <-> messages

const field = "v"
const meas = "m"

func ts(n int64) time.Time { return time.Unix(0, n).UTC() }

func parseKV(tok string) ([][2]string, error) {
	if tok == "-" {
		return nil, nil
	}
	var out [][2]string
	for _, kv := range strings.Split(tok, ",") {
		i := strings.Index(kv, "=")
		if i < 0 {
			return nil, fmt.Errorf("bad kv %q", kv)
		}
		k, err := kit.Unesc(kv[:i])
		if err != nil {
			return nil, err
		}
		out = append(out, [2]string{k, kv[i+1:]})
	}
	return out, nil
}

func parseTags(tok string) (models.Tags, error) {
	kvs, err := parseKV(tok)
	if err != nil {
		return nil, err
	}
	t := models.Tags{}
	for _, kv := range kvs {
		v, err := kit.Unesc(kv[1])
		if err != nil {
			return nil, err
		}
		t[kv[0]] = v
	}
	return t, nil
}

func parseVal(s string) (interface{}, error) {
	if len(s) < 2 || s[1] != ':' {
		return nil, fmt.Errorf("bad value %q", s)
	}
	switch s[0] {
	case 'i':
		v, err := strconv.ParseInt(s[2:], 10, 64)
		return v, err
	case 'f':
		b, err := strconv.ParseUint(s[2:], 16, 64)
		return math.Float64frombits(b), err
	case 's':
		return kit.Unesc(s[2:])
	case 'b':
		return s[2:] == "1", nil
	}
	return nil, fmt.Errorf("bad value %q", s)
}

func parseFields(tok string) (models.Fields, error) {
	kvs, err := parseKV(tok)
	if err != nil {
		return nil, err
	}
	f := models.Fields{}
	for _, kv := range kvs {
		v, err := parseVal(kv[1])
		if err != nil {
			return nil, err
		}
		f[kv[0]] = v
	}
	return f, nil
}

func merge(a, b models.Tags) models.Tags {
	t := make(models.Tags, len(a)+len(b))
	for k, v := range b {
		t[k] = v
	}
	for k, v := range a {
		t[k] = v
	}
	return t
}

type cfg struct {
	mode string // batch | stream
	fn   string
	as   string // "-" = default
	pt   bool
	arg  string
}

func (c cfg) outIsBatch() bool {
	switch c.fn {
	case "distinct", "top", "bottom":
		return true
	case "elapsed", "difference", "cumulativeSum", "movingAverage":
		return c.mode == "batch"
	}
	return false
}

func (c cfg) script() (string, error) {
	var b strings.Builder
	b.WriteString("stream\n    |from().measurement('trig')\n")
	if c.mode == "batch" {
		b.WriteString("    @bsrc()\n")
	} else {
		b.WriteString("    @ssrc()\n")
	}
	switch c.fn {
	case "count", "sum", "mean", "median", "mode", "min", "max", "first", "last", "spread", "stddev", "distinct", "difference", "cumulativeSum":
		fmt.Fprintf(&b, "    |%s('%s')\n", c.fn, field)
	case "percentile":
		if !strings.HasPrefix(c.arg, "p:") {
			return "", fmt.Errorf("percentile needs p:")
		}
		bits, err := strconv.ParseUint(c.arg[2:], 16, 64)
		if err != nil {
			return "", err
		}
		lit := strconv.FormatFloat(math.Float64frombits(bits), 'f', -1, 64)
		if !strings.Contains(lit, ".") {
			lit += ".0" // a TICKscript float literal
		}
		fmt.Fprintf(&b, "    |percentile('%s', %s)\n", field, lit)
	case "top", "bottom", "movingAverage":
		if !strings.HasPrefix(c.arg, "n:") {
			return "", fmt.Errorf("%s needs n:", c.fn)
		}
		// n:<n>[/<extra field or tag>...]  (the extra names are top/bottom's fieldsAndTags arguments)
		parts := strings.Split(c.arg[2:], "/")
		n, err := strconv.ParseInt(parts[0], 10, 64)
		if err != nil {
			return "", err
		}
		if c.fn == "movingAverage" {
			if len(parts) > 1 {
				return "", fmt.Errorf("movingAverage takes no extra names")
			}
			fmt.Fprintf(&b, "    |movingAverage('%s', %d)\n", field, n)
		} else {
			extra := ""
			for _, e := range parts[1:] {
				name, err := kit.Unesc(e)
				if err != nil {
					return "", err
				}
				extra += ", '" + strings.ReplaceAll(name, "'", "\\'") + "'"
			}
			fmt.Fprintf(&b, "    |%s(%d, '%s'%s)\n", c.fn, n, field, extra)
		}
	case "elapsed":
		if !strings.HasPrefix(c.arg, "u:") {
			return "", fmt.Errorf("elapsed needs u:")
		}
		n, err := strconv.ParseInt(c.arg[2:], 10, 64)
		if err != nil {
			return "", err
		}
		if n <= 0 || n%1000 != 0 {
			return "", fmt.Errorf("elapsed unit must be whole microseconds")
		}
		fmt.Fprintf(&b, "    |elapsed('%s', %du)\n", field, n/1000)
	default:
		return "", fmt.Errorf("unknown fn %q", c.fn)
	}
	if c.as != "-" {
		as, err := kit.Unesc(c.as)
		if err != nil {
			return "", err
		}
		fmt.Fprintf(&b, "        .as('%s')\n", strings.ReplaceAll(as, "'", "\\'"))
	}
	if c.pt {
		b.WriteString("        .usePointTimes()\n")
	}
	if c.outIsBatch() {
		b.WriteString("    @bsink()\n")
	} else {
		b.WriteString("    @sink()\n")
	}
	return b.String(), nil
}

func parsePoint(tok string, gtags models.Tags) (time.Time, models.Tags, models.Fields, error) {
	p := strings.Split(tok, "|")
	if len(p) != 3 {
		return time.Time{}, nil, nil, fmt.Errorf("bad point %q", tok)
	}
	t, err := strconv.ParseInt(p[0], 10, 64)
	if err != nil {
		return time.Time{}, nil, nil, err
	}
	tags, err := parseTags(p[1])
	if err != nil {
		return time.Time{}, nil, nil, err
	}
	fields, err := parseFields(p[2])
	if err != nil {
		return time.Time{}, nil, nil, err
	}
	return ts(t), merge(gtags, tags), fields, nil
}

// buildProg turns the input lines of a case into edge messages.
func buildProg(lines [][]string) ([]edge.Message, error) {
	var prog []edge.Message
	for _, t := range lines {
		switch t[0] {
		case "b": // b <gtags> <tmax> <points|->
			if len(t) != 4 {
				return nil, fmt.Errorf("bad b line")
			}
			gt, err := parseTags(t[1])
			if err != nil {
				return nil, err
			}
			tmax, err := strconv.ParseInt(t[2], 10, 64)
			if err != nil {
				return nil, err
			}
			var pts []edge.BatchPointMessage
			if t[3] != "-" {
				for _, ptok := range strings.Split(t[3], ";") {
					tm, tags, fields, err := parsePoint(ptok, gt)
					if err != nil {
						return nil, err
					}
					pts = append(pts, edge.NewBatchPointMessage(fields, tags, tm))
				}
			}
			begin := edge.NewBeginBatchMessage(meas, gt, false, ts(tmax), len(pts))
			prog = append(prog, edge.NewBufferedBatchMessage(begin, pts, edge.NewEndBatchMessage()))
		case "p": // p <gtags> <time|tags|fields>
			if len(t) != 3 {
				return nil, fmt.Errorf("bad p line")
			}
			gt, err := parseTags(t[1])
			if err != nil {
				return nil, err
			}
			tm, tags, fields, err := parsePoint(t[2], gt)
			if err != nil {
				return nil, err
			}
			dims := models.Dimensions{TagNames: models.SortedKeys(gt)}
			prog = append(prog, edge.NewPointMessage(meas, "db", "rp", dims, fields, tags, tm))
		default:
			return nil, fmt.Errorf("unknown op %q", t[0])
		}
	}
	return prog, nil
}

func dimsStr(d models.Dimensions) string {
	if len(d.TagNames) == 0 {
		return "-"
	}
	var b []string
	for _, n := range d.TagNames {
		b = append(b, kit.Esc(n))
	}
	return strings.Join(b, ",")
}

// canon replaces NaN payloads by the canonical quiet NaN (the driver does the same).
func canon(f models.Fields) models.Fields {
	c := make(models.Fields, len(f))
	for k, v := range f {
		if x, ok := v.(float64); ok && math.IsNaN(x) {
			v = math.Float64frombits(0x7ff8000000000000)
		}
		c[k] = v
	}
	return c
}

func render(msgs []edge.Message) (out []string, sawBarrier bool) {
	var open edge.BeginBatchMessage
	var openPts []string
	for _, m := range msgs {
		switch x := m.(type) {
		case edge.PointMessage:
			out = append(out, fmt.Sprintf("P|%d|%s|%s|%s", x.Time().UnixNano(), dimsStr(x.Dimensions()), kit.TagsStr(x.Tags()), kit.FieldsStr(canon(x.Fields()))))
		case edge.BufferedBatchMessage:
			out = append(out, fmt.Sprintf("B|%d|%s|%d", x.Begin().Time().UnixNano(), kit.TagsStr(x.Begin().Tags()), len(x.Points())))
			for _, p := range x.Points() {
				out = append(out, fmt.Sprintf("Q|%d|%s|%s", p.Time().UnixNano(), kit.TagsStr(p.Tags()), kit.FieldsStr(canon(p.Fields()))))
			}
		case edge.BeginBatchMessage:
			open, openPts = x, nil
		case edge.BatchPointMessage:
			openPts = append(openPts, fmt.Sprintf("Q|%d|%s|%s", x.Time().UnixNano(), kit.TagsStr(x.Tags()), kit.FieldsStr(canon(x.Fields()))))
		case edge.EndBatchMessage:
			if open == nil {
				out = append(out, "X|end-without-begin")
				continue
			}
			out = append(out, fmt.Sprintf("B|%d|%s|%d", open.Time().UnixNano(), kit.TagsStr(open.Tags()), len(openPts)))
			out = append(out, openPts...)
			open, openPts = nil, nil
		case edge.BarrierMessage:
			sawBarrier = true
		default:
			out = append(out, "X|"+kit.Esc(fmt.Sprintf("%T", m)))
		}
	}
	if open != nil {
		out = append(out, "X|unterminated-batch")
	}
	return
}

// ---------------------------------------------------------------------------------------------
// running one case

type H struct {
	tm  *kit.TM
	svc *svc
	seq int64
}

func newH() (*H, error) {
	tm, err := kit.NewTM(kit.TMOpts{})
	if err != nil {
		return nil, err
	}
	s := &svc{inner: tm.Sink, progs: map[string][]edge.Message{}}
	tm.TM.UDFService = s
	return &H{tm: tm, svc: s}, nil
}

func stripObs(l string) string {
	if i := strings.Index(l, " => "); i >= 0 {
		return l[:i]
	}
	return l
}

func (h *H) execCase(ops []string) []string {
	var out []string
	var c *cfg
	var inputs [][]string
	finalSeen := false
	for _, raw := range ops {
		line := stripObs(raw)
		t := strings.Fields(line)
		if len(t) == 0 {
			continue
		}
		switch t[0] {
		case "cfg":
			if len(t) != 6 {
				out = append(out, line)
				continue
			}
			c = &cfg{mode: t[1], fn: t[2], as: t[3], pt: t[4] == "1", arg: t[5]}
			out = append(out, line)
		case "b", "p":
			inputs = append(inputs, t)
			out = append(out, line)
		case "final":
			finalSeen = true
			out = append(out, line+" => "+h.run(c, inputs))
		default:
			out = append(out, line)
		}
	}
	if !finalSeen {
		out = append(out, "final => "+h.run(c, inputs))
	}
	return out
}

func (h *H) run(c *cfg, inputs [][]string) string {
	if c == nil {
		return "err:nocfg"
	}
	script, err := c.script()
	if err != nil {
		return "err:cfg"
	}
	prog, err := buildProg(inputs)
	if err != nil {
		return "err:input"
	}
	endTags := models.Tags{"zzend": "1"}
	endGroup := edge.GroupInfo{ID: models.ToGroupID(meas, endTags, models.Dimensions{TagNames: []string{"zzend"}}), Tags: endTags, Dimensions: models.Dimensions{TagNames: []string{"zzend"}}}
	prog = append(prog, edge.NewBarrierMessage(endGroup, ts(1<<50)))
	id := fmt.Sprintf("c11-%d", atomic.AddInt64(&h.seq, 1))
	h.svc.mu.Lock()
	h.svc.progs[id] = prog
	h.svc.mu.Unlock()
	defer func() {
		h.svc.mu.Lock()
		delete(h.svc.progs, id)
		h.svc.mu.Unlock()
	}()
	et, err := h.tm.StartStream(id, script, []kapacitor.DBRP{{Database: "db", RetentionPolicy: "rp"}})
	if err != nil {
		if os.Getenv("VERIF_LOG") != "" {
			fmt.Fprintln(os.Stderr, "start:", err, "\n", script)
		}
		return "err:start"
	}
	died := make(chan struct{})
	go func() { et.Wait(); close(died) }()
	key := ""
	deadline := time.Now().Add(10 * time.Second)
	status := "ok"
	var msgs []edge.Message
	sleep := 50 * time.Microsecond
	dead := false
	for {
		if key == "" {
			for _, k := range h.tm.Rec.Keys() {
				if strings.HasPrefix(k, id+"/") {
					key = k
				}
			}
		}
		if key != "" {
			msgs = h.tm.Rec.Get(key)
			if len(msgs) > 0 {
				if _, ok := msgs[len(msgs)-1].(edge.BarrierMessage); ok {
					break
				}
			}
		}
		if dead {
			status = "dead"
			break
		}
		select {
		case <-died:
			dead = true // look once more at what was recorded, then give up
			continue
		default:
		}
		if time.Now().After(deadline) {
			status = "timeout"
			break
		}
		time.Sleep(sleep)
		if sleep < 2*time.Millisecond {
			sleep *= 2
		}
	}
	h.tm.TM.DeleteTask(id)
	h.tm.Rec.Reset()
	toks, _ := render(msgs)
	res := status
	if len(toks) > 0 {
		res += " " + strings.Join(toks, " ")
	}
	return res
}

// ---------------------------------------------------------------------------------------------

func emit(out *kit.Out, id string, lines []string) {
	out.Line("case", id)
	for _, l := range lines {
		out.Line(l)
	}
	out.Line("end")
}

var _ = sort.Strings

// Run: `vh-c11 -seed S -n N [-tier thorough]` generates; `vh-c11 -ops file` re-executes the cases of a file.
func Run(args []string) int {
	f := kit.ParseFlags(args)
	out := kit.NewOut()
	defer out.Flush()
	h, err := newH()
	if err != nil {
		fmt.Fprintln(os.Stderr, "c11: cannot build the task master:", err)
		return 2
	}
	defer h.tm.Close()
	if f.Ops != "" {
		lines, err := kit.ReadLines(f.Ops)
		if err != nil {
			fmt.Fprintln(os.Stderr, err)
			return 2
		}
		var cur []string
		id := ""
		for _, l := range lines {
			t := strings.Fields(l)
			switch {
			case len(t) == 2 && t[0] == "case":
				id, cur = t[1], nil
			case len(t) == 1 && t[0] == "end":
				emit(out, id, h.execCase(cur))
			default:
				cur = append(cur, l)
			}
		}
		return 0
	}
	r := kit.NewRand(f.Seed)
	for i := 0; i < f.N; i++ {
		emit(out, fmt.Sprintf("g%d", i), h.execCase(genCase(r.Fork(), i, f.Tier)))
		if i%50 == 0 {
			out.Flush()
		}
	}
	return 0
}
