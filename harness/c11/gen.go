package c11

import (
	"fmt"
	"math"
	"strings"

	"verifharness/kit"
)

// Branch-directed generator of C11 cases (op text; executed by execCase).
//
// Determinism rules (the vendored reducers sort with an unstable sort above 12 elements and keep a heap for
// top/bottom, so some outputs are only determined when ties cannot occur):
//   * batches / runs have at most 12 points unless all values are distinct or the function does not sort
//     selected points (percentile, mode);
//   * top/bottom: within a batch point times are distinct, within a stream run values are distinct or the
//     points are identical;
//   * movingAverage over floats uses small dyadic values (the vendored reducer keeps a running sum).

var fns = []string{"count", "sum", "mean", "median", "mode", "min", "max", "first", "last", "spread", "stddev",
	"distinct", "percentile", "top", "bottom", "elapsed", "difference", "cumulativeSum", "movingAverage"}

var groupPool = []string{"-", "g=a", "g=b", "dc=x,g=a"}

var pcts = []float64{0, 1, 10, 25, 33.3, 50, 75, 90, 99, 100, 150, -5}

var bigInts = []int64{math.MaxInt64, math.MinInt64, 1 << 62, -(1 << 62), (1 << 53) + 1, -(1 << 53) - 1, math.MaxInt64 - 1}
var bigFloats = []float64{1e300, -1e300, 1e-300, 1 << 60, 0.1, 1.0 / 3.0, 123456.789, -2.5e10}

type valGen struct {
	r        *kit.Rand
	dyadic   bool // floats restricted to small dyadics
	extremes bool
	dupHeavy bool
	used     map[string]bool
	distinct bool
}

func (g *valGen) one(kind string) string {
	r := g.r
	switch kind {
	case "int":
		var v int64
		switch {
		case g.extremes && r.Chance(1, 4):
			v = kit.Pick(r, bigInts)
		case g.dupHeavy:
			v = int64(r.Intn(3)) - 1
		default:
			v = int64(r.Intn(41)) - 20
		}
		return fmt.Sprintf("i:%d", v)
	case "float":
		var v float64
		switch {
		case g.extremes && !g.dyadic && r.Chance(1, 4):
			v = kit.Pick(r, bigFloats)
		case g.dupHeavy:
			v = float64(r.Intn(3)) * 0.5
		default:
			v = float64(r.Intn(161)-80) / 8
		}
		if v == 0 {
			v = 0 // no negative zero
		}
		return "f:" + kit.F64(v)
	case "string":
		return "s:" + kit.Esc(kit.Pick(r, []string{"a", "b", "zz", "", "a b"}))
	default:
		if r.Bool() {
			return "b:1"
		}
		return "b:0"
	}
}

func (g *valGen) val(kind string) string {
	for i := 0; i < 50; i++ {
		v := g.one(kind)
		if !g.distinct || !g.used[v] {
			g.used[v] = true
			return v
		}
		g.dupHeavy = false
	}
	return g.one(kind)
}

func pickKind(r *kit.Rand) string {
	switch k := r.Intn(100); {
	case k < 45:
		return "int"
	case k < 82:
		return "float"
	case k < 93:
		return "string"
	default:
		return "bool"
	}
}

func sortsSelected(fn string) bool { return fn == "percentile" || fn == "mode" }

// genPoints produces the points of one batch / run. times[i] are the point times.
func genPoints(r *kit.Rand, fn string, gtags string, times []int64, baseKind string, sameTime bool) []string {
	n := len(times)
	vg := &valGen{r: r, used: map[string]bool{}}
	vg.dyadic = fn == "movingAverage"
	vg.extremes = r.Chance(1, 5)
	vg.dupHeavy = r.Chance(1, 3)
	vg.distinct = (n > 12 && sortsSelected(fn)) || ((fn == "top" || fn == "bottom") && sameTime)
	extraTags := r.Chance(1, 2)
	if (fn == "top" || fn == "bottom") && sameTime {
		// a run can be continued by a later call: equal (value, time) points must be indistinguishable
		extraTags = false
	}
	mixed := r.Chance(1, 6)
	firstBad := r.Chance(1, 8)
	var pts []string
	for i := 0; i < n; i++ {
		kind := baseKind
		if mixed && r.Chance(1, 3) {
			kind = pickKind(r)
		}
		var fields []string
		missing := r.Chance(1, 12) || (firstBad && i == 0 && r.Bool())
		if firstBad && i == 0 && !missing {
			kind = kit.Pick(r, []string{"string", "bool"})
		}
		if !missing {
			fields = append(fields, "v="+vg.val(kind))
		}
		if r.Chance(1, 3) || missing {
			fields = append(fields, fmt.Sprintf("w=i:%d", r.Intn(10)))
		}
		tags := "-"
		if extraTags {
			tags = "h=" + kit.Pick(r, []string{"x", "y", "z"})
		}
		pts = append(pts, fmt.Sprintf("%d|%s|%s", times[i], tags, strings.Join(fields, ",")))
	}
	return pts
}

func batchTimes(r *kit.Rand, fn string, tmax int64, n int) []int64 {
	times := make([]int64, n)
	distinctTimes := fn == "top" || fn == "bottom" || r.Chance(2, 3)
	style := r.Intn(10)
	t := tmax - int64(n) - int64(r.Intn(5))
	for i := 0; i < n; i++ {
		switch {
		case distinctTimes || style < 6:
			t += 1 + int64(r.Intn(2))
		case style < 8: // duplicates
			t += int64(r.Intn(2))
		default: // out of order
			t = tmax - int64(r.Intn(n+3))
		}
		times[i] = t
	}
	if fn == "top" || fn == "bottom" {
		// make sure they are distinct even after the random walk
		seen := map[int64]bool{}
		for i := range times {
			for seen[times[i]] {
				times[i]++
			}
			seen[times[i]] = true
		}
	}
	return times
}

func genCase(r *kit.Rand, i int, tier string) []string {
	fn := fns[i%len(fns)]
	if r.Chance(1, 4) {
		fn = kit.Pick(r, fns)
	}
	mode := "batch"
	if r.Chance(2, 5) {
		mode = "stream"
	}
	as := kit.Pick(r, []string{"-", "x", "x", "v", "w", "value.1"})
	pt := "0"
	if r.Chance(7, 20) {
		pt = "1"
	}
	arg := "-"
	nArg := 1 + r.Intn(4)
	switch fn {
	case "percentile":
		arg = "p:" + kit.F64(kit.Pick(r, pcts))
	case "top", "bottom", "movingAverage":
		arg = fmt.Sprintf("n:%d", nArg)
		if fn != "movingAverage" && r.Chance(2, 5) {
			// top/bottom's extra fieldsAndTags arguments (a tag, a field, both, an unknown name)
			arg += kit.Pick(r, []string{"/h", "/w", "/h/w", "/nosuch", "/g/h"})
		}
	case "elapsed":
		arg = fmt.Sprintf("u:%d", kit.Pick(r, []int64{1000, 2000, 3000, 7000}))
	}
	ops := []string{fmt.Sprintf("cfg %s %s %s %s %s", mode, fn, kit.Esc(as), pt, arg)}
	ng := 1 + r.Intn(3)
	groups := make([]string, ng)
	perm := []int{0, 1, 2, 3}
	for a := range perm {
		b := a + r.Intn(len(perm)-a)
		perm[a], perm[b] = perm[b], perm[a]
	}
	for g := range groups {
		groups[g] = groupPool[perm[g]]
	}
	maxN := 12
	if tier == "thorough" && r.Chance(1, 6) {
		maxN = 40
	}
	if mode == "batch" {
		nb := 2 + r.Intn(7)
		tmax := int64(100 + r.Intn(50))
		stickyKind := pickKind(r)
		for b := 0; b < nb; b++ {
			g := kit.Pick(r, groups)
			tmax += int64(r.Intn(3)) * 10
			if r.Chance(1, 10) {
				tmax -= 25 // batches need not arrive in time order
			}
			n := 0
			switch k := r.Intn(20); {
			case k < 3:
				n = 0
			case k < 6:
				n = 1
			case k < 8:
				n = 2
			default:
				n = 1 + r.Intn(maxN)
			}
			if r.Chance(1, 2) {
				stickyKind = pickKind(r) // kind changes between batches / groups; otherwise the cache is hit
			}
			if n == 0 {
				ops = append(ops, fmt.Sprintf("b %s %d -", g, tmax))
				continue
			}
			times := batchTimes(r, fn, tmax, n)
			pts := genPoints(r, fn, g, times, stickyKind, false)
			ops = append(ops, fmt.Sprintf("b %s %d %s", g, tmax, strings.Join(pts, ";")))
		}
	} else {
		np := 4 + r.Intn(36)
		cur := map[string]int64{}
		kindOf := map[string]string{}
		var pending []string
		for len(ops)-1+len(pending) < np || len(pending) > 0 {
			if len(pending) > 0 {
				ops = append(ops, pending[0])
				pending = pending[1:]
				continue
			}
			g := kit.Pick(r, groups)
			t, ok := cur[g]
			if !ok {
				t = int64(10 + r.Intn(5))
			} else {
				switch k := r.Intn(10); {
				case k < 7:
					t += 1 + int64(r.Intn(3))
				case k < 9:
					t += 10
				default:
					t -= 1 + int64(r.Intn(2)) // time goes back: still a new run
				}
			}
			cur[g] = t
			if _, ok := kindOf[g]; !ok || (!isTrans(fn) && r.Chance(1, 3)) || (isTrans(fn) && r.Chance(1, 25)) {
				kindOf[g] = pickKind(r)
			}
			// a run of 1..k points at time t (interleaving with other groups happens between runs only
			// when the run is emitted at once; to interleave inside runs, emit the run in two halves)
			n := 1
			switch k := r.Intn(10); {
			case k < 4:
				n = 1
			case k < 7:
				n = 2
			default:
				n = 1 + r.Intn(6)
			}
			if isTrans(fn) {
				n = 1
				if r.Chance(1, 5) {
					n = 2 // two points at the same time (difference drops the second)
				}
			}
			times := make([]int64, n)
			for j := range times {
				times[j] = t
			}
			pts := genPoints(r, fn, g, times, kindOf[g], true)
			for _, p := range pts {
				pending = append(pending, fmt.Sprintf("p %s %s", g, p))
			}
			if n >= 2 && r.Chance(1, 3) && len(groups) > 1 {
				// interleave: half of the run now, then a point of another group, then the rest
				half := pending[:n/2]
				rest := append([]string(nil), pending[n/2:]...)
				ops = append(ops, half...)
				g2 := kit.Pick(r, groups)
				if g2 != g {
					t2, ok := cur[g2]
					if !ok {
						t2 = int64(10 + r.Intn(5))
						cur[g2] = t2
						kindOf[g2] = pickKind(r)
					}
					p2 := genPoints(r, fn, g2, []int64{t2}, kindOf[g2], true)
					ops = append(ops, fmt.Sprintf("p %s %s", g2, p2[0]))
				}
				pending = rest
			}
		}
		// close the last runs of some groups so that they are emitted
		for _, g := range groups {
			if t, ok := cur[g]; ok && r.Chance(2, 3) {
				p := genPoints(r, fn, g, []int64{t + 100}, kindOf[g], true)
				ops = append(ops, fmt.Sprintf("p %s %s", g, p[0]))
			}
		}
	}
	ops = append(ops, "final")
	if r.Chance(1, 8) {
		// times around and before the epoch (zero and negative Unix times are ordinary point times)
		off := int64(kit.Pick(r, []int{12, 30, 120, 160, 100000}))
		for k, l := range ops {
			ops[k] = mapTimes(l, func(t int64) int64 { return t - off })
		}
	}
	if fn == "elapsed" {
		// units are whole microseconds in TICKscript: spread the (nanosecond) times out, keeping equal times equal
		for k, l := range ops {
			ops[k] = mapTimes(l, tmap)
		}
	}
	return ops
}

func tmap(t int64) int64 { return t*1000 + (t*t*37)%1000 }

func mapTimes(line string, f func(int64) int64) string {
	t := strings.Fields(line)
	conv := func(s string) string {
		var v int64
		fmt.Sscanf(s, "%d", &v)
		return fmt.Sprintf("%d", f(v))
	}
	scalePts := func(tok string) string {
		if tok == "-" {
			return tok
		}
		ps := strings.Split(tok, ";")
		for i, p := range ps {
			q := strings.SplitN(p, "|", 2)
			ps[i] = conv(q[0]) + "|" + q[1]
		}
		return strings.Join(ps, ";")
	}
	switch t[0] {
	case "b":
		t[2] = conv(t[2])
		t[3] = scalePts(t[3])
	case "p":
		t[2] = scalePts(t[2])
	}
	return strings.Join(t, " ")
}

func isTrans(fn string) bool {
	return fn == "elapsed" || fn == "difference" || fn == "cumulativeSum" || fn == "movingAverage"
}
