package c11

import "verifharness/kit"

func genCase(r *kit.Rand, i int, tier string) []string {
	return []string{"cfg batch sum - 0 -", "b - 10 1|-|v=i:1;2|-|v=i:2", "final"}
}
