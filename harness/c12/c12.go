// Package c12 is the harness for property C12 (join / union results do not depend on how the parent
// streams interleave). It runs the REAL kapacitor code in-process and prints op lines with what was observed:
//
//	cq    – kapacitor.CircularQueue[int] through its public API (+ the index view of the verif hook);
//	union – the real UnionNode (hook VerifNewUnion) fed with an EXPLICIT arrival order;
//	join  – the real JoinNode  (hook VerifNewJoin)  fed with an EXPLICIT arrival order;
//	task  – a real TaskMaster task `p0|join(p1..)@sink()` / `p0|union(p1..)@sink()`: parents are read by the
//	        multiConsumer goroutines, the write order only biases the interleaving; compared as multisets.
//
// One case may hold several runs (`… new`) over the SAME per-parent sequences in different interleavings.
package c12

import (
	"fmt"
	"os"
	"sort"
	"strconv"
	"strings"
	"time"

	"github.com/influxdata/kapacitor"
	"github.com/influxdata/kapacitor/edge"
	"github.com/influxdata/kapacitor/models"
	"github.com/influxdata/kapacitor/pipeline"
	"github.com/influxdata/kapacitor/tick/stateful"

	"verifharness/kit"
)

type deadman struct{}

func (deadman) Interval() time.Duration { return 0 }
func (deadman) Threshold() float64      { return 0 }
func (deadman) Id() string              { return "" }
func (deadman) Message() string         { return "" }
func (deadman) Global() bool            { return false }

func un(s string) string { v, _ := kit.Unesc(s); return v }
func atoi(s string) int64 {
	v, _ := strconv.ParseInt(s, 10, 64)
	return v
}
func tm(ns int64) time.Time { return time.Unix(0, ns).UTC() }

func list(xs []string) string {
	if len(xs) == 0 {
		return "-"
	}
	return strings.Join(xs, ",")
}
func splitList(s string) []string {
	if s == "-" || s == "" {
		return nil
	}
	return strings.Split(s, ",")
}

// kv parses "k=v" option tokens.
func kv(toks []string) map[string]string {
	m := map[string]string{}
	for _, t := range toks {
		if i := strings.IndexByte(t, '='); i > 0 {
			m[t[:i]] = t[i+1:]
		}
	}
	return m
}

// ------------------------------------------------------------------------------------------------
// circular queue

func cqState(q *kapacitor.CircularQueue[int]) string {
	data, h, t, l := kapacitor.VerifCQState(q)
	ds := make([]string, len(data))
	for i, d := range data {
		ds[i] = strconv.Itoa(d)
	}
	var cs []string
	for i := 0; i < q.Len; i++ {
		cs = append(cs, strconv.Itoa(q.Peek(i)))
	}
	return fmt.Sprintf("h=%d t=%d l=%d d=%s c=%s", h, t, l, list(ds), list(cs))
}

// ------------------------------------------------------------------------------------------------
// pipeline nodes from TICKscript

func tickStr(s string) string {
	return "'" + strings.ReplaceAll(strings.ReplaceAll(s, `\`, `\\`), `'`, `\'`) + "'"
}

func parentsScript(n int, batch bool) string {
	var b strings.Builder
	for i := 0; i < n; i++ {
		if batch {
			fmt.Fprintf(&b, "var p%d = batch|query('select v from db.rp.m%d').period(10s).every(10s)\n", i, i)
		} else {
			fmt.Fprintf(&b, "var p%d = stream|from().measurement('m%d')\n", i, i)
		}
	}
	return b.String()
}

func others(n int) string {
	var o []string
	for i := 1; i < n; i++ {
		o = append(o, fmt.Sprintf("p%d", i))
	}
	return strings.Join(o, ",")
}

type joinCfg struct {
	n      int
	tol    int64
	fill   string // none | null | i:<int> | f:<hex>
	names  []string
	delim  string
	sname  string
	on     []string
	batch  bool
	hasDel bool
}

func parseJoinCfg(t []string) joinCfg {
	m := kv(t)
	c := joinCfg{n: int(atoi(m["n"])), tol: atoi(m["tol"]), fill: m["fill"], delim: un(m["delim"]), sname: un(m["sname"]), batch: m["edge"] == "batch"}
	_, c.hasDel = m["delim"]
	for _, x := range splitList(m["names"]) {
		c.names = append(c.names, un(x))
	}
	for _, x := range splitList(m["on"]) {
		c.on = append(c.on, un(x))
	}
	return c
}

func (c joinCfg) script() string {
	var b strings.Builder
	b.WriteString(parentsScript(c.n, c.batch))
	fmt.Fprintf(&b, "p0|join(%s)", others(c.n))
	var ns []string
	for _, x := range c.names {
		ns = append(ns, tickStr(x))
	}
	fmt.Fprintf(&b, "\n  .as(%s)", strings.Join(ns, ","))
	switch {
	case c.fill == "null":
		b.WriteString("\n  .fill('null')")
	case c.fill == "none":
		b.WriteString("\n  .fill('none')")
	case strings.HasPrefix(c.fill, "i:"):
		fmt.Fprintf(&b, "\n  .fill(%s)", c.fill[2:])
	case strings.HasPrefix(c.fill, "f:"):
		bits, _ := strconv.ParseUint(c.fill[2:], 16, 64)
		fmt.Fprintf(&b, "\n  .fill(%s)", strconv.FormatFloat(float64frombits(bits), 'f', 3, 64))
	}
	if c.hasDel {
		fmt.Fprintf(&b, "\n  .delimiter(%s)", tickStr(c.delim))
	}
	if c.sname != "" {
		fmt.Fprintf(&b, "\n  .streamName(%s)", tickStr(c.sname))
	}
	if len(c.on) > 0 {
		var ds []string
		for _, x := range c.on {
			ds = append(ds, tickStr(x))
		}
		fmt.Fprintf(&b, "\n  .on(%s)", strings.Join(ds, ","))
	}
	return b.String()
}

func mkPipeline(script string, batch bool) (*pipeline.Pipeline, error) {
	et := pipeline.StreamEdge
	if batch {
		et = pipeline.BatchEdge
	}
	return pipeline.CreatePipeline(script, et, stateful.NewScope(), deadman{}, nil)
}

func newJoin(c joinCfg) (*kapacitor.VerifJoin, error) {
	p, err := mkPipeline(c.script()+"\n", c.batch)
	if err != nil {
		return nil, err
	}
	var jn *pipeline.JoinNode
	p.Walk(func(n pipeline.Node) error {
		if j, ok := n.(*pipeline.JoinNode); ok {
			jn = j
		}
		return nil
	})
	if jn == nil {
		return nil, fmt.Errorf("no join node")
	}
	jn.Tolerance = time.Duration(c.tol) // arbitrary nanosecond tolerances (TICKscript has no ns literal)
	return kapacitor.VerifNewJoin(jn, c.n)
}

func newUnion(n int, rename string) (*kapacitor.VerifUnion, error) {
	s := parentsScript(n, false) + fmt.Sprintf("p0|union(%s)", others(n))
	if rename != "" {
		s += ".rename(" + tickStr(rename) + ")"
	}
	p, err := mkPipeline(s+"\n", false)
	if err != nil {
		return nil, err
	}
	var u *pipeline.UnionNode
	p.Walk(func(n pipeline.Node) error {
		if x, ok := n.(*pipeline.UnionNode); ok {
			u = x
		}
		return nil
	})
	if u == nil {
		return nil, fmt.Errorf("no union node")
	}
	return kapacitor.VerifNewUnion(u, n)
}

// ------------------------------------------------------------------------------------------------
// messages

type ptSpec struct {
	name   string
	byName bool
	dims   []string
	tags   models.Tags
	fields models.Fields
}

func parseTags(s string) models.Tags {
	t := models.Tags{}
	for _, e := range splitList(s) {
		i := strings.IndexByte(e, '=')
		t[un(e[:i])] = un(e[i+1:])
	}
	return t
}

func parseVal(v string) interface{} {
	switch {
	case strings.HasPrefix(v, "i:"):
		return atoi(v[2:])
	case strings.HasPrefix(v, "f:"):
		bits, _ := strconv.ParseUint(v[2:], 16, 64)
		return float64frombits(bits)
	case strings.HasPrefix(v, "s:"):
		return un(v[2:])
	case v == "b:1":
		return true
	case v == "b:0":
		return false
	}
	return nil
}

func parseFields(s string) models.Fields {
	f := models.Fields{}
	for _, e := range splitList(s) {
		i := strings.IndexByte(e, '=')
		f[un(e[:i])] = parseVal(e[i+1:])
	}
	return f
}

func mkPoint(m map[string]string, t int64) edge.PointMessage {
	var dims []string
	for _, d := range splitList(m["dims"]) {
		dims = append(dims, un(d))
	}
	return edge.NewPointMessage(un(m["name"]), "db", "rp", models.Dimensions{ByName: m["byname"] == "1", TagNames: dims},
		parseFields(m["fields"]), parseTags(m["tags"]), tm(t))
}

// mkBatch builds a buffered batch: pts = "t^fields!t^fields" (or "-").
func mkBatch(m map[string]string, tmax int64) edge.BufferedBatchMessage {
	tags := parseTags(m["tags"])
	var pts []edge.BatchPointMessage
	if m["pts"] != "-" && m["pts"] != "" {
		for _, e := range strings.Split(m["pts"], "!") {
			i := strings.IndexByte(e, '^')
			pts = append(pts, edge.NewBatchPointMessage(parseFields(e[i+1:]), tags, tm(atoi(e[:i]))))
		}
	}
	begin := edge.NewBeginBatchMessage(un(m["name"]), tags, m["byname"] == "1", tm(tmax), len(pts))
	return edge.NewBufferedBatchMessage(begin, pts, edge.NewEndBatchMessage())
}

func dimsStr(d models.Dimensions) string {
	var ds []string
	for _, x := range d.TagNames {
		ds = append(ds, kit.Esc(x))
	}
	b := "0"
	if d.ByName {
		b = "1"
	}
	return b + ";" + list(ds)
}

func renderMsg(m edge.Message) string {
	switch x := m.(type) {
	case edge.PointMessage:
		return fmt.Sprintf("P;%s;%d;%s;%s;%s", kit.Esc(x.Name()), x.Time().UnixNano(), dimsStr(x.Dimensions()), kit.TagsStr(x.Tags()), kit.FieldsStr(x.Fields()))
	case edge.BarrierMessage:
		return fmt.Sprintf("B;%d;%s", x.Time().UnixNano(), kit.Esc(string(x.GroupID())))
	case edge.BufferedBatchMessage:
		ps := []string{strconv.Itoa(len(x.Points()))}
		for _, p := range x.Points() {
			ps = append(ps, fmt.Sprintf("%d^%s^%s", p.Time().UnixNano(), kit.TagsStr(p.Tags()), kit.FieldsStr(p.Fields())))
		}
		return fmt.Sprintf("Q;%s;%d;%s;%s;%s", kit.Esc(x.Name()), x.Time().UnixNano(), dimsStr(x.Dimensions()), kit.TagsStr(x.Tags()), strings.Join(ps, "!"))
	case edge.DeleteGroupMessage:
		return "D;" + kit.Esc(string(x.GroupID()))
	}
	return fmt.Sprintf("X;%T", m)
}

func optT(v int64, set bool) string {
	if !set {
		return "z"
	}
	return strconv.FormatInt(v, 10)
}

func joinState(j *kapacitor.VerifJoin) []string {
	var out []string
	for _, g := range j.Groups() {
		var hs, ss []string
		for i, h := range g.Heads {
			hs = append(hs, optT(h, g.HeadsSet[i]))
		}
		for i, t := range g.Times {
			ss = append(ss, fmt.Sprintf("%d*%d", t, g.Counts[i]))
		}
		out = append(out, fmt.Sprintf("G;%s;%s;%s;%s", kit.Esc(g.Group), optT(g.Oldest, g.OldestSet), list(hs), list(ss)))
	}
	ma, sp := j.Buffered()
	if ma+sp > 0 {
		out = append(out, fmt.Sprintf("M;%d;%d", ma, sp))
	}
	return out
}

func unionState(u *kapacitor.VerifUnion) string {
	idx, marks, set := u.State()
	var qs, ms []string
	for i, x := range idx {
		qs = append(qs, fmt.Sprintf("%d.%d.%d.%d", x[0], x[1], x[2], x[3]))
		ms = append(ms, optT(marks[i], set[i]))
	}
	return "S;" + list(qs) + ";" + list(ms)
}

// ------------------------------------------------------------------------------------------------
// executing one case

type runner struct {
	cq    *kapacitor.CircularQueue[int]
	un    *kapacitor.VerifUnion
	jn    *kapacitor.VerifJoin
	jcfg  joinCfg
	ids   map[edge.Message]string // identity of messages handed to the union
	dead  bool                    // the node panicked: later ops are not executed
	tasks *taskRun
}

func (r *runner) unionID(m edge.Message) string {
	if id, ok := r.ids[m]; ok {
		return id
	}
	switch x := m.(type) {
	case edge.PointMessage:
		if v, ok := x.Fields()["id"].(int64); ok {
			return strconv.FormatInt(v, 10)
		}
	case edge.BufferedBatchMessage:
		if v, ok := x.Tags()["id"]; ok {
			return v
		}
	}
	return "?"
}

func (r *runner) unionOut(ms []edge.Message, err error) string {
	if err != nil {
		return "err"
	}
	var es []string
	for _, m := range ms {
		name := "%"
		var t int64
		switch x := m.(type) {
		case edge.PointMessage:
			name, t = kit.Esc(x.Name()), x.Time().UnixNano()
		case edge.BufferedBatchMessage:
			name, t = kit.Esc(x.Name()), x.Time().UnixNano()
		case edge.BarrierMessage:
			t = x.Time().UnixNano()
		}
		es = append(es, fmt.Sprintf("%s:%d:%s", r.unionID(m), t, name))
	}
	return list(es) + " " + unionState(r.un)
}

func (r *runner) joinOut(ms []edge.Message, err error, sortOut bool) string {
	if err != nil {
		return "err"
	}
	var es []string
	for _, m := range ms {
		es = append(es, renderMsg(m))
	}
	if sortOut {
		sort.Strings(es) // Finish walks a Go map of groups: order across groups is not defined
	}
	toks := append([]string{strconv.Itoa(len(es))}, es...)
	toks = append(toks, "|")
	toks = append(toks, joinState(r.jn)...)
	return strings.Join(toks, " ")
}

func execCase(ops []string) (out []string) {
	r := &runner{}
	defer func() {
		if r.tasks != nil {
			r.tasks.close()
		}
	}()
	guard := func(line string, f func() string) {
		defer func() {
			if rec := recover(); rec != nil {
				if os.Getenv("VERIF_LOG") != "" {
					fmt.Fprintln(os.Stderr, "panic:", rec)
				}
				r.dead = true
				out = append(out, line+" => panic")
			}
		}()
		obs := f()
		if obs == "" {
			out = append(out, line)
		} else {
			out = append(out, line+" => "+obs)
		}
	}
	for _, raw := range ops {
		line := raw
		if i := strings.Index(line, " => "); i >= 0 {
			line = line[:i]
		}
		t := strings.Fields(line)
		if len(t) < 2 {
			continue
		}
		switch t[0] {
		case "cq":
			switch t[1] {
			case "new":
				guard(line, func() string {
					xs := splitList(t[2])
					buf := make([]int, 0, len(xs)) // cap(buf) = len(buf), as for a variadic call
					for _, x := range xs {
						buf = append(buf, int(atoi(x)))
					}
					r.cq = kapacitor.NewCircularQueue[int](buf...)
					return cqState(r.cq)
				})
			case "enq":
				guard(line, func() string { r.cq.Enqueue(int(atoi(t[2]))); return cqState(r.cq) })
			case "deq":
				guard(line, func() string { r.cq.Dequeue(int(atoi(t[2]))); return cqState(r.cq) })
			case "peek":
				guard(line, func() string { return strconv.Itoa(r.cq.Peek(int(atoi(t[2])))) })
			}
		case "union":
			guard(line, func() string {
				m := kv(t[2:])
				u, err := newUnion(int(atoi(m["n"])), un(m["rename"]))
				if err != nil {
					return "err"
				}
				r.un, r.ids, r.dead = u, map[edge.Message]string{}, false
				return "ok"
			})
		case "u":
			if r.dead || r.un == nil {
				out = append(out, line+" => dead")
				continue
			}
			switch t[1] {
			case "pt": // u pt <src> <time> <id>
				guard(line, func() string {
					src, tt, id := int(atoi(t[2])), atoi(t[3]), atoi(t[4])
					p := edge.NewPointMessage(fmt.Sprintf("m%d", src), "db", "rp", models.Dimensions{}, models.Fields{"id": id}, models.Tags{}, tm(tt))
					r.ids[p] = t[4]
					ms, err := r.un.Point(src, p)
					return r.unionOut(ms, err)
				})
			case "bat": // u bat <src> <tmax> <id>
				guard(line, func() string {
					src, tt := int(atoi(t[2])), atoi(t[3])
					b := edge.NewBufferedBatchMessage(edge.NewBeginBatchMessage(fmt.Sprintf("m%d", src), models.Tags{"id": t[4]}, false, tm(tt), 1),
						[]edge.BatchPointMessage{edge.NewBatchPointMessage(models.Fields{"v": int64(1)}, models.Tags{"id": t[4]}, tm(tt))}, edge.NewEndBatchMessage())
					r.ids[b] = t[4]
					ms, err := r.un.BufferedBatch(src, b)
					return r.unionOut(ms, err)
				})
			case "bar": // u bar <src> <time> <id>
				guard(line, func() string {
					src, tt := int(atoi(t[2])), atoi(t[3])
					b := edge.NewBarrierMessage(edge.GroupInfo{}, tm(tt))
					r.ids[b] = t[4]
					ms, err := r.un.Barrier(src, b)
					return r.unionOut(ms, err)
				})
			case "del": // u del <src> <id>: a DeleteGroupMessage (forwarded at once, never buffered)
				guard(line, func() string {
					d := edge.NewDeleteGroupMessage(edge.GroupInfo{})
					r.ids[d] = t[3]
					ms, err := r.un.Delete(int(atoi(t[2])), d)
					return r.unionOut(ms, err)
				})
			case "fin":
				guard(line, func() string { ms, err := r.un.Finish(); return r.unionOut(ms, err) })
			}
		case "join":
			guard(line, func() string {
				r.jcfg = parseJoinCfg(t[2:])
				j, err := newJoin(r.jcfg)
				if err != nil {
					if os.Getenv("VERIF_LOG") != "" {
						fmt.Fprintln(os.Stderr, "join new:", err, "\n", r.jcfg.script())
					}
					r.jn = nil
					return "err"
				}
				r.jn, r.dead = j, false
				return "ok"
			})
		case "j":
			if r.dead || r.jn == nil {
				out = append(out, line+" => dead")
				continue
			}
			switch t[1] {
			case "pt": // j pt <src> <time> name= byname= dims= tags= fields= [grp=]
				m := kv(t[4:])
				p := mkPoint(m, atoi(t[3]))
				// the group ID is the implementation's (models.ToGroupID is the subject of C06): an oracle value on the op line
				line = stripKey(line, "grp") + " grp=" + kit.Esc(string(p.GroupID()))
				if len(r.jcfg.on) > 0 {
					// the general group ID (by the on() dimensions) is an oracle value too
					gg := models.ToGroupID(p.Name(), p.GroupInfo().Tags, models.Dimensions{ByName: p.Dimensions().ByName, TagNames: r.jcfg.on})
					line = stripKey(line, "ggrp") + " ggrp=" + kit.Esc(string(gg))
				}
				guard(line, func() string {
					ms, err := r.jn.Point(int(atoi(t[2])), p)
					return r.joinOut(ms, err, false)
				})
			case "bat": // j bat <src> <tmax> name= byname= tags= pts= [grp=]
				m := kv(t[4:])
				b := mkBatch(m, atoi(t[3]))
				line = stripKey(line, "grp") + " grp=" + kit.Esc(string(b.GroupID()))
				guard(line, func() string {
					ms, err := r.jn.BufferedBatch(int(atoi(t[2])), b)
					return r.joinOut(ms, err, false)
				})
			case "bar": // j bar <src> <time> name= byname= dims= tags= [grp=]
				m := kv(t[4:])
				gi := mkPoint(m, 0).GroupInfo()
				line = stripKey(line, "grp") + " grp=" + kit.Esc(string(gi.ID))
				guard(line, func() string {
					ms, err := r.jn.Barrier(int(atoi(t[2])), edge.NewBarrierMessage(gi, tm(atoi(t[3]))))
					return r.joinOut(ms, err, false)
				})
			case "del": // j del <src> name= byname= dims= tags= [grp=]: DeleteGroupMessage of that group
				m := kv(t[3:])
				gi := mkPoint(m, 0).GroupInfo()
				line = stripKey(line, "grp") + " grp=" + kit.Esc(string(gi.ID))
				guard(line, func() string {
					ms, err := r.jn.Delete(int(atoi(t[2])), edge.NewDeleteGroupMessage(gi))
					return r.joinOut(ms, err, false)
				})
			case "fin":
				guard(line, func() string { ms, err := r.jn.Finish(); return r.joinOut(ms, err, true) })
			}
		case "task":
			if t[1] == "bin" {
				continue // an observation of an earlier run (regenerated by `task run`)
			}
			if t[1] == "run" && r.tasks != nil && r.tasks.kind == "joinb" {
				obs := ""
				guard(line, func() string { obs = r.taskOp(t); return obs })
				// the batches that entered the join go in front of the result line
				last := out[len(out)-1]
				out = append(out[:len(out)-1], r.tasks.inputs...)
				out = append(out, last)
				continue
			}
			if t[1] == "w" && r.tasks != nil {
				// oracle value: the group ID the from()/groupBy() nodes give the point (models.ToGroupID, C06's subject)
				m := kv(t[4:])
				m["name"], m["dims"], m["byname"] = fmt.Sprintf("m%s", t[2]), list(escAll(r.tasks.dims)), "0"
				if r.tasks.kind == "joinon" {
					// dimensions as the from()/groupBy() nodes set them (sorted): cpu and host for the specific parent
					m["dims"] = "h"
					if int(atoi(t[2])) == r.tasks.spec {
						m["dims"] = "c,h"
					}
					p := mkPoint(m, 0)
					gg := models.ToGroupID(p.Name(), p.GroupInfo().Tags, models.Dimensions{TagNames: r.tasks.cfg.on})
					line = stripKey(stripKey(line, "ggrp"), "dims") + " dims=" + m["dims"] + " ggrp=" + kit.Esc(string(gg))
				}
				line = stripKey(line, "grp") + " grp=" + kit.Esc(string(mkPoint(m, 0).GroupID()))
			}
			guard(line, func() string { return r.taskOp(t) })
		default:
			out = append(out, line)
		}
	}
	return out
}

func escAll(xs []string) []string {
	var o []string
	for _, x := range xs {
		o = append(o, kit.Esc(x))
	}
	return o
}

func stripKey(line, key string) string {
	t := strings.Fields(line)
	var o []string
	for _, x := range t {
		if !strings.HasPrefix(x, key+"=") {
			o = append(o, x)
		}
	}
	return strings.Join(o, " ")
}

func emit(out *kit.Out, id string, lines []string) {
	out.Line("case", id)
	for _, l := range lines {
		out.Line(l)
	}
	out.Line("end")
}

// Run: `vh-c12 -seed S -n N [-tier thorough]` generates; `vh-c12 -ops file` re-executes the cases of a file.
func Run(args []string) int {
	f := kit.ParseFlags(args)
	out := kit.NewOut()
	defer out.Flush()
	if f.Ops != "" {
		lines, err := kit.ReadLines(f.Ops)
		if err != nil {
			fmt.Fprintln(os.Stderr, err)
			return 2
		}
		var cur []string
		id := ""
		for _, l := range lines {
			t := strings.Fields(l)
			switch {
			case len(t) == 2 && t[0] == "case":
				id, cur = t[1], nil
			case len(t) == 1 && t[0] == "end":
				emit(out, id, execCase(cur))
				out.Flush()
			default:
				cur = append(cur, l)
			}
		}
		return 0
	}
	r := kit.NewRand(f.Seed)
	generate(out, r, f.N, f.Tier)
	if f.Tier == "thorough" {
		raceTasks(out, f.Seed, f.N)
	}
	return 0
}
