// Package c12 is the harness for property C12 (runs the real kapacitor code, prints op lines).
package c12

import (
	"fmt"
	"os"
)

// Run is replaced by the property's harness.
func Run(args []string) int {
	fmt.Fprintln(os.Stderr, "c12: harness not implemented yet")
	return 3
}
