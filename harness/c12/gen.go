package c12

import (
	"fmt"
	"math"
	"sort"
	"strings"

	"verifharness/kit"
)

func float64frombits(b uint64) float64 { return math.Float64frombits(b) }

// ---- interleavings: the arrival order is an explicit input ----

// merge interleaves the per-parent index sequences (lens[i] items of parent i) following a pattern.
func merge(r *kit.Rand, lens []int, pattern int) [][2]int {
	n := len(lens)
	pos := make([]int, n)
	total := 0
	for _, l := range lens {
		total += l
	}
	var out [][2]int
	take := func(i int) {
		out = append(out, [2]int{i, pos[i]})
		pos[i]++
	}
	switch pattern {
	case 0: // parent by parent, in index order (parent 0 runs far ahead)
		for i := 0; i < n; i++ {
			for pos[i] < lens[i] {
				take(i)
			}
		}
	case 1: // parent by parent, last parent first
		for i := n - 1; i >= 0; i-- {
			for pos[i] < lens[i] {
				take(i)
			}
		}
	case 2: // round robin
		for len(out) < total {
			for i := 0; i < n; i++ {
				if pos[i] < lens[i] {
					take(i)
				}
			}
		}
	case 3: // bursts
		for len(out) < total {
			i := r.Intn(n)
			for k := r.Range(1, 4); k > 0 && pos[i] < lens[i]; k-- {
				take(i)
			}
		}
	default: // uniformly random merge
		for len(out) < total {
			k := r.Intn(total - len(out))
			for i := 0; i < n; i++ {
				if k < lens[i]-pos[i] {
					take(i)
					break
				}
				k -= lens[i] - pos[i]
			}
		}
	}
	return out
}

// ---- circular queue ----

func genCQ(r *kit.Rand, size int) []string {
	var ops []string
	next := 1
	var init []string
	for k := kit.Pick(r, []int{0, 0, 1, 1, 2, 3, 4, 5, 6}); k > 0; k-- {
		init = append(init, fmt.Sprint(next))
		next++
	}
	ops = append(ops, "cq new "+list(init))
	l := len(init)
	target := 2 + r.Intn(10)
	for i := 0; i < size; i++ {
		if r.Chance(1, 10) {
			target = kit.Pick(r, []int{0, 2, 3, 4, 5, 7, 8, 9, 12, 17, 20})
		}
		w := []int{30, 60} // P(enq), P(enq or deq)
		if l < target {
			w = []int{65, 90}
		}
		k := r.Intn(100)
		switch {
		case k < w[0]:
			ops = append(ops, fmt.Sprintf("cq enq %d", next))
			next++
			l++
		case k < w[1]:
			n := kit.Pick(r, []int{-1, 0, 1, 1, 1, 2, 2, 3, l - 1, l, l + 1, r.Intn(l + 2)})
			ops = append(ops, fmt.Sprintf("cq deq %d", n))
			if n > 0 {
				if n > l {
					n = l
				}
				l -= n
			}
		default:
			ops = append(ops, fmt.Sprintf("cq peek %d", kit.Pick(r, []int{-1, 0, l - 1, l, r.Intn(l + 1)})))
		}
	}
	return ops
}

// ---- union ----

type uItem struct {
	kind string
	t    int64
	id   int
}

func genUnion(r *kit.Rand) []string {
	n := kit.Pick(r, []int{1, 2, 2, 2, 3, 3})
	seqs := make([][]uItem, n)
	id := 1
	silent := -1
	if n > 1 && r.Chance(1, 6) {
		silent = r.Intn(n)
	}
	for i := range seqs {
		t := int64(100 + r.Intn(4))
		ln := r.Intn(9)
		if i == silent {
			ln = 0
		}
		for k := 0; k < ln; k++ {
			t += int64(kit.Pick(r, []int{0, 0, 1, 1, 2, 5}))
			kind := "pt"
			if r.Chance(1, 20) {
				kind = "del"
			} else if r.Chance(1, 8) {
				kind = "bar"
			} else if r.Chance(1, 8) {
				kind = "bat"
			}
			seqs[i] = append(seqs[i], uItem{kind, t, id})
			id++
		}
		if ln >= 2 && r.Chance(1, 12) { // an out-of-order parent: exactly-once / order / flush must still hold
			a := r.Intn(ln - 1)
			seqs[i][a].t, seqs[i][a+1].t = seqs[i][a+1].t, seqs[i][a].t
		}
	}
	rename := "%"
	if r.Chance(1, 4) {
		rename = kit.Esc(kit.Pick(r, []string{"u", "all x", "m0"}))
	}
	lens := make([]int, n)
	for i := range seqs {
		lens[i] = len(seqs[i])
	}
	var ops []string
	pats := []int{r.Intn(5), r.Intn(5), 4}
	for run := 0; run < 2+r.Intn(2); run++ {
		ops = append(ops, fmt.Sprintf("union new n=%d rename=%s", n, rename))
		for _, a := range merge(r, lens, pats[run]) {
			it := seqs[a[0]][a[1]]
			if it.kind == "del" {
				ops = append(ops, fmt.Sprintf("u del %d %d", a[0], it.id))
				continue
			}
			ops = append(ops, fmt.Sprintf("u %s %d %d %d", it.kind, a[0], it.t, it.id))
		}
		ops = append(ops, "u fin")
	}
	return ops
}

// ---- join ----

type jItem struct {
	del    bool
	bar    bool
	t      int64
	tags   string
	fields string
}

var fillPool = []string{"none", "none", "null", "i:0", "i:-7", "f:" + kit.F64(1.5), "absent"}

func genJoin(r *kit.Rand, size int) []string {
	n := kit.Pick(r, []int{2, 2, 2, 3, 3})
	tol := kit.Pick(r, []int64{0, 0, 10, 10, 7, 4, 1000000000})
	fill := kit.Pick(r, fillPool)
	names := [][]string{{"a", "b", "c"}, {"left", "right", "mid"}, {"x y", "é", "A"}, {"a", "ab", "abc"}}[r.Intn(4)][:n]
	delim, hasDel := "", false
	switch r.Intn(6) {
	case 0:
		delim, hasDel = "_", true
	case 1:
		delim, hasDel = "", true
	case 2:
		delim, hasDel = "::", true
	}
	sname := ""
	if r.Chance(1, 4) {
		sname = "joined"
	}
	grouped := r.Chance(2, 3)
	dims := "-"
	hosts := []string{"x"}
	if grouped {
		dims = "h"
		hosts = []string{"x", "y"}
		if r.Chance(1, 4) {
			hosts = []string{"x", "y", "x y"}
		}
	}
	unit := int64(1)
	if tol == 1000000000 {
		unit = 250000000
	}
	base := int64(1000) * unit
	if r.Chance(1, 5) {
		base = -int64(50) * unit // times before the Unix epoch (Round works relative to year 1)
	}
	seqs := make([][]jItem, n)
	id := 1
	silent := -1
	if r.Chance(1, 6) {
		silent = r.Intn(n)
	}
	lagging := -1
	if r.Chance(1, 4) {
		lagging = r.Intn(n) // this parent skips most slots (gaps): the others pass it
	}
	withBars := r.Chance(1, 4)
	withDel := r.Chance(1, 8) // DeleteGroup messages: the group's pending sets are dropped (by design); tie only
	// a shared timeline of slots; every parent takes each (slot, host) 0, 1 or 2 times, so that the same
	// rounded time occurs in several parents (pairing by occurrence), with gaps and duplicates
	t := base + int64(r.Intn(4))*unit
	for slot := 0; slot < size; slot++ {
		t += int64(kit.Pick(r, []int{0, 1, 1, 2, 3, 5, 12})) * unit
		for _, h := range hosts {
			if len(hosts) > 1 && r.Chance(1, 3) {
				continue
			}
			for i := 0; i < n; i++ {
				if i == silent {
					continue
				}
				cnt := kit.Pick(r, []int{0, 1, 1, 1, 1, 2})
				if i == lagging && r.Chance(2, 3) {
					cnt = 0
				}
				for k := 0; k < cnt; k++ {
					tt := t
					if tol > 1 && r.Chance(1, 2) { // jitter inside (or just across) the tolerance window
						tt += int64(r.Intn(int(tol))) - tol/2
					}
					tags := "h=" + kit.Esc(h)
					if r.Chance(1, 3) {
						tags += ",z=" + kit.Pick(r, []string{"p", "q"})
					}
					if !grouped && r.Chance(1, 2) {
						tags = "-"
					}
					it := jItem{t: tt, tags: tags}
					if withDel && r.Chance(1, 8) {
						it.del = true
					} else if withBars && r.Chance(1, 5) {
						it.bar = true
					} else {
						it.fields = fmt.Sprintf("v=i:%d", id)
						switch r.Intn(6) {
						case 0:
							it.fields += ",w=f:" + kit.F64(float64(id)/4)
						case 1:
							it.fields += ",s=s:" + kit.Esc(fmt.Sprintf("p %d", id))
						case 2:
							it.fields = fmt.Sprintf("b=b:1,v=i:%d", id)
						}
						id++
					}
					seqs[i] = append(seqs[i], it)
				}
			}
		}
	}
	for i := range seqs {
		// every parent delivers in time order
		sort.SliceStable(seqs[i], func(a, b int) bool { return seqs[i][a].t < seqs[i][b].t })
		ln := len(seqs[i])
		if ln >= 2 && r.Chance(1, 15) { // out-of-order parent: outside the property's hypothesis, tie only
			a := r.Intn(ln - 1)
			seqs[i][a].t, seqs[i][a+1].t = seqs[i][a+1].t, seqs[i][a].t
		}
	}
	lens := make([]int, n)
	for i := range seqs {
		lens[i] = len(seqs[i])
	}
	var es []string
	for _, x := range names {
		es = append(es, kit.Esc(x))
	}
	cfg := fmt.Sprintf("n=%d tol=%d names=%s", n, tol, strings.Join(es, ","))
	if fill != "absent" {
		cfg += " fill=" + fill
	}
	if hasDel {
		cfg += " delim=" + kit.Esc(delim)
	}
	if sname != "" {
		cfg += " sname=" + kit.Esc(sname)
	}
	var ops []string
	pats := []int{r.Intn(5), r.Intn(5), 4}
	for run := 0; run < 2+r.Intn(2); run++ {
		ops = append(ops, "join new "+cfg)
		for _, a := range merge(r, lens, pats[run]) {
			it := seqs[a[0]][a[1]]
			byName := "0"
			if it.del {
				ops = append(ops, fmt.Sprintf("j del %d name=m%d byname=%s dims=%s tags=%s", a[0], a[0], byName, dims, it.tags))
			} else if it.bar {
				ops = append(ops, fmt.Sprintf("j bar %d %d name=m%d byname=%s dims=%s tags=%s", a[0], it.t, a[0], byName, dims, it.tags))
			} else {
				ops = append(ops, fmt.Sprintf("j pt %d %d name=m%d byname=%s dims=%s tags=%s fields=%s", a[0], it.t, a[0], byName, dims, it.tags, it.fields))
			}
		}
		ops = append(ops, "j fin")
	}
	return ops
}

// ---- join.on() ----

func genJoinOn(r *kit.Rand) []string {
	n := 2
	if r.Chance(1, 8) {
		n = 3 // outside the claimed domain: tie only
	}
	tol := kit.Pick(r, []int64{0, 0, 10})
	fill := kit.Pick(r, []string{"none", "null", "null", "i:0", "f:" + kit.F64(1.5)})
	names := []string{"a", "b", "c"}[:n]
	specParent := r.Intn(n) // the parent grouped by host AND cpu; the others are grouped by host only
	hosts := kit.Pick(r, [][]string{{"x"}, {"x", "y"}})
	cpus := kit.Pick(r, [][]string{{"1"}, {"1", "2"}})
	step := int64(1)
	if tol > 0 {
		step = 10
	}
	type it struct {
		t                  int64
		dims, tags, fields string
	}
	seqs := make([][]it, n)
	id := 1
	dupGeneral := r.Chance(1, 10) // two general points at one time: outside the claimed domain
	lagging := -1
	if r.Chance(1, 3) {
		lagging = r.Intn(n)
	}
	t := int64(1000)
	for slot := 0; slot < 3+r.Intn(6); slot++ {
		t += int64(kit.Pick(r, []int{1, 1, 2, 3, 5})) * step
		for _, h := range hosts {
			for i := 0; i < n; i++ {
				if i == lagging && r.Chance(1, 2) {
					continue
				}
				jit := func() int64 {
					if tol > 1 && r.Chance(1, 2) {
						return int64(r.Intn(int(tol))) - tol/2
					}
					return 0
				}
				if i == specParent {
					for _, c := range cpus {
						for k := kit.Pick(r, []int{0, 1, 1, 1, 2}); k > 0; k-- {
							seqs[i] = append(seqs[i], it{t + jit(), "h,c", fmt.Sprintf("h=%s,c=%s,z=q", h, c), fmt.Sprintf("v=i:%d", id)})
							id++
						}
					}
				} else {
					k := kit.Pick(r, []int{0, 1, 1, 1})
					if dupGeneral && r.Chance(1, 3) {
						k = 2
					}
					for ; k > 0; k-- {
						seqs[i] = append(seqs[i], it{t + jit(), "h", fmt.Sprintf("h=%s,z=p", h), fmt.Sprintf("v=i:%d", id)})
						id++
					}
				}
			}
		}
	}
	lens := make([]int, n)
	for i := range seqs {
		sort.SliceStable(seqs[i], func(a, b int) bool { return seqs[i][a].t < seqs[i][b].t })
		lens[i] = len(seqs[i])
	}
	cfg := fmt.Sprintf("n=%d tol=%d names=%s fill=%s on=h", n, tol, strings.Join(names, ","), fill)
	var ops []string
	for _, pat := range []int{r.Intn(2), 2 + r.Intn(2), 4} {
		ops = append(ops, "join new "+cfg)
		for _, a := range merge(r, lens, pat) {
			x := seqs[a[0]][a[1]]
			ops = append(ops, fmt.Sprintf("j pt %d %d name=m%d byname=0 dims=%s tags=%s fields=%s", a[0], x.t, a[0], x.dims, x.tags, x.fields))
		}
		ops = append(ops, "j fin")
	}
	return ops
}

// ---- batch join ----

func genJoinBatch(r *kit.Rand) []string {
	n := kit.Pick(r, []int{2, 2, 3})
	tol := kit.Pick(r, []int64{0, 0, 10})
	fill := kit.Pick(r, []string{"none", "none", "null", "i:0", "f:" + kit.F64(1.5)})
	names := []string{"a", "b", "c"}[:n]
	hosts := []string{"-"}
	if r.Chance(1, 2) {
		hosts = []string{"h=x", "h=y"}
	}
	sname := ""
	if r.Chance(1, 4) {
		sname = "joined"
	}
	step := int64(1)
	if tol > 0 {
		step = 10
	}
	type bat struct {
		tmax int64
		tags string
		pts  string
	}
	seqs := make([][]bat, n)
	id := 1
	tmax := int64(1000)
	lagging := -1
	if r.Chance(1, 4) {
		lagging = r.Intn(n)
	}
	for slot := 0; slot < 2+r.Intn(4); slot++ {
		tmax += int64(kit.Pick(r, []int{0, 100, 100, 200})) * step / step
		// the point timeline of this slot, shared by the parents
		var tl []int64
		pt := tmax - 60*step
		for k := r.Intn(6); k > 0; k-- {
			pt += int64(kit.Pick(r, []int{0, 1, 1, 2, 3})) * step
			tl = append(tl, pt)
		}
		for _, h := range hosts {
			for i := 0; i < n; i++ {
				cnt := kit.Pick(r, []int{0, 1, 1, 1, 2})
				if i == lagging && r.Chance(1, 2) {
					cnt = 0
				}
				for c := 0; c < cnt; c++ {
					var ps []string
					for _, t := range tl {
						if r.Chance(1, 4) {
							continue
						}
						for d := kit.Pick(r, []int{1, 1, 1, 2}); d > 0; d-- {
							tt := t
							if tol > 1 && r.Chance(1, 2) {
								tt += int64(r.Intn(int(tol))) - tol/2
							}
							f := fmt.Sprintf("v=i:%d", id)
							if r.Chance(1, 5) {
								f += fmt.Sprintf(",w=f:%s", kit.F64(float64(id)/2))
							}
							id++
							ps = append(ps, fmt.Sprintf("%d^%s", tt, f))
						}
					}
					// points in time order inside the batch
					sort.SliceStable(ps, func(a, b int) bool {
						return atoi(ps[a][:strings.IndexByte(ps[a], '^')]) < atoi(ps[b][:strings.IndexByte(ps[b], '^')])
					})
					p := "-"
					if len(ps) > 0 {
						p = strings.Join(ps, "!")
					}
					bt := tmax
					if tol > 1 && r.Chance(1, 2) {
						bt += int64(r.Intn(int(tol))) - tol/2
					}
					seqs[i] = append(seqs[i], bat{bt, h, p})
				}
			}
		}
	}
	lens := make([]int, n)
	for i := range seqs {
		sort.SliceStable(seqs[i], func(a, b int) bool { return seqs[i][a].tmax < seqs[i][b].tmax })
		lens[i] = len(seqs[i])
	}
	cfg := fmt.Sprintf("n=%d tol=%d names=%s fill=%s edge=batch", n, tol, strings.Join(names, ","), fill)
	if sname != "" {
		cfg += " sname=" + sname
	}
	var ops []string
	for _, pat := range []int{r.Intn(5), 4} {
		ops = append(ops, "join new "+cfg)
		for _, a := range merge(r, lens, pat) {
			b := seqs[a[0]][a[1]]
			ops = append(ops, fmt.Sprintf("j bat %d %d name=m%d byname=0 tags=%s pts=%s", a[0], b.tmax, a[0], b.tags, b.pts))
		}
		ops = append(ops, "j fin")
	}
	return ops
}

func generate(out *kit.Out, r *kit.Rand, n int, tier string) {
	if tier == "racechild" { // child process built with -race: real-task cases only
		genTasks(out, r, n, tier)
		return
	}
	for i := 0; i < n; i++ {
		g := r.Fork()
		var ops []string
		switch i % 10 {
		case 0, 1:
			size := 10 + g.Intn(50)
			if i%20 == 0 {
				size = 80 + g.Intn(120)
			}
			ops = genCQ(g, size)
			emit(out, fmt.Sprintf("q%d", i), execCase(ops))
		case 2, 3, 4:
			emit(out, fmt.Sprintf("u%d", i), execCase(genUnion(g)))
		case 5:
			emit(out, fmt.Sprintf("b%d", i), execCase(genJoinBatch(g)))
		case 6:
			emit(out, fmt.Sprintf("o%d", i), execCase(genJoinOn(g)))
		default:
			emit(out, fmt.Sprintf("j%d", i), execCase(genJoin(g, 3+g.Intn(6))))
		}
		if i%50 == 49 {
			out.Flush()
		}
	}
	genTasks(out, r, n, tier)
}
